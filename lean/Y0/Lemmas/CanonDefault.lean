/-
  Y0.Lemmas.CanonDefault — the normal-form theorems of C11 for the PUBLIC entry point `canonicalize(e, ordering)`,
  including the default `ordering=None` (the ordering is then recomputed from the expression at every call).

    * `canonL_congr`         the canonicaliser consults the level table only to compare the variables of a leaf; two level
                             tables that are monotone in the variable name and cover the event variables give the same result
    * `canonicalize_idem`    canonicalize(canonicalize(e, o), o) = canonicalize(e, o)   for o = None and o = explicit
    * `present_symm`         `Present` is symmetric, hence `canon_perm` holds in both directions
    * `canonicalize_present` Present e e' → (canonicalize(e, o) = a ↔ canonicalize(e', o) = a)
-/
import Y0.Lemmas.CanonIdem
import Y0.Lemmas.CanonTotal

namespace Y0
set_option linter.unusedSimpArgs false
set_option linter.unusedVariables false

/-! ### sorting with two comparison functions that agree on the elements of the list -/

theorem insertStable_congr_mem {α : Type} {lt lt' : α → α → Bool} (x : α) : ∀ (l : List α),
    (∀ y ∈ l, lt y x = lt' y x) → insertStable lt x l = insertStable lt' x l
  | [], _ => rfl
  | y :: ys, h => by
    unfold insertStable
    rw [h y List.mem_cons_self, insertStable_congr_mem x ys (fun z hz => h z (List.mem_cons_of_mem _ hz))]

theorem sortStable_congr_mem {α : Type} {lt lt' : α → α → Bool} : ∀ (l : List α),
    (∀ a ∈ l, ∀ b ∈ l, lt a b = lt' a b) → sortStable lt l = sortStable lt' l
  | [], _ => rfl
  | x :: xs, h => by
    show insertStable lt x (sortStable lt xs) = insertStable lt' x (sortStable lt' xs)
    rw [sortStable_congr_mem xs (fun a ha b hb => h a (List.mem_cons_of_mem _ ha) b (List.mem_cons_of_mem _ hb))]
    apply insertStable_congr_mem
    intro y hy
    have hy' : y ∈ xs := (sortStable_perm _ xs).subset hy
    exact h y (List.mem_cons_of_mem _ hy') x List.mem_cons_self

/-! ### level tables that are monotone in the name order the variables of a leaf in the same way -/

theorem nameMonotone_eq_or {lvl : Name → Option Nat} (hm : NameMonotone lvl) {a b : Name} {la lb : Nat}
    (ha : lvl a = some la) (hb : lvl b = some lb) : compare la lb = compare a b := by
  rcases Nat.lt_trichotomy a b with h | h | h
  · rw [compare_lt_iff_lt.mpr (hm a b la lb ha hb h), compare_lt_iff_lt.mpr h]
  · subst h
    rw [ha] at hb
    cases hb
    simp
  · rw [compare_gt_iff_gt.mpr (hm b a lb la hb ha h), compare_gt_iff_gt.mpr h]

theorem levelKey_lt_congr {lvl lvl' : Name → Option Nat} (hm : NameMonotone lvl) (hm' : NameMonotone lvl') {a b : Var}
    (ha : (lvl a.name).isSome = true) (hb : (lvl b.name).isSome = true)
    (ha' : (lvl' a.name).isSome = true) (hb' : (lvl' b.name).isSome = true) :
    Key.lt (levelKey lvl a) (levelKey lvl b) = Key.lt (levelKey lvl' a) (levelKey lvl' b) := by
  obtain ⟨la, hla⟩ := Option.isSome_iff_exists.mp ha
  obtain ⟨lb, hlb⟩ := Option.isSome_iff_exists.mp hb
  obtain ⟨la', hla'⟩ := Option.isSome_iff_exists.mp ha'
  obtain ⟨lb', hlb'⟩ := Option.isSome_iff_exists.mp hb'
  simp only [levelKey, hla, hlb, hla', hlb', Key.lt, Key.cmp, Key.cmpList, natCast_compare,
    nameMonotone_eq_or hm hla hlb, nameMonotone_eq_or hm' hla' hlb']

/-- `Canonicalizer._sorted` does not depend on the level table beyond the name order -/
theorem sortVars_congr {lvl lvl' : Name → Option Nat} (hm : NameMonotone lvl) (hm' : NameMonotone lvl') {vs vs' : List Var}
    (hc' : ∀ v ∈ vs, (lvl' v.name).isSome = true) (h : sortVars lvl vs = .ok vs') : sortVars lvl' vs = .ok vs' := by
  have hc := sortVars_covered h
  rw [sortVars_eq hc] at h
  rw [sortVars_eq hc', ← h]
  congr 1
  apply sortStable_congr_mem
  intro a ha b hb
  exact (levelKey_lt_congr hm hm' (hc a ha) (hc b hb) (hc' a ha) (hc' b hb)).symm

/-! ### the canonicaliser under two monotone level tables -/

theorem coversList_prod_cons {lvl : Name → Option Nat} {gs rest : List Expr} (h : CoversList lvl (.prod gs :: rest)) :
    CoversList lvl gs ∧ CoversList lvl rest :=
  ⟨covers_prod (coversList_cons h).1, (coversList_cons h).2⟩

mutual
/-- a canonical form computed under one name-monotone level table is the canonical form under every other name-monotone
level table that covers the event variables of the expression -/
theorem canonL_congr {lvl lvl' : Name → Option Nat} (hm : NameMonotone lvl) (hm' : NameMonotone lvl') :
    ∀ (e a : Expr), Covers lvl' e → canonL lvl e = .ok a → canonL lvl' e = .ok a
  | .prob pop c p, a, hc, h => by
    unfold canonL at h ⊢
    obtain ⟨c1, hc1, h⟩ := bind_ok h
    obtain ⟨p1, hp1, h⟩ := bind_ok h
    rw [sortVars_congr hm hm' (fun v hv => hc v (by simp [Expr.eventVars, hv])) hc1,
      sortVars_congr hm hm' (fun v hv => hc v (by simp [Expr.eventVars, hv])) hp1]
    exact h
  | .sum e r, a, hc, h => by
    unfold canonL at h ⊢
    obtain ⟨x, hx, h⟩ := bind_ok h
    rw [canonL_congr hm hm' e x (covers_sum hc) hx]; exact h
  | .prod fs, a, hc, h => by
    unfold canonL at h ⊢
    obtain ⟨xs, hxs, h⟩ := bind_ok h
    rw [canonFactors_congr hm hm' fs xs (covers_prod hc) hxs]; exact h
  | .frac n d, a, hc, h => by
    unfold canonL at h ⊢
    obtain ⟨n1, hn1, h⟩ := bind_ok h
    obtain ⟨d1, hd1, h⟩ := bind_ok h
    rw [canonL_congr hm hm' n n1 (covers_frac hc).1 hn1, canonL_congr hm hm' d d1 (covers_frac hc).2 hd1]; exact h
  | .one, a, _, h => by unfold canonL at h ⊢; exact h
  | .zero, a, _, h => by unfold canonL at h ⊢; exact h
  | .q _ _, a, _, h => by unfold canonL at h ⊢; exact h
theorem canonFactors_congr {lvl lvl' : Name → Option Nat} (hm : NameMonotone lvl) (hm' : NameMonotone lvl') :
    ∀ (fs xs : List Expr), CoversList lvl' fs → canonFactors lvl fs = .ok xs → canonFactors lvl' fs = .ok xs
  | [], xs, _, h => by unfold canonFactors at h ⊢; exact h
  | .prod gs :: rest, xs, hc, h => by
    unfold canonFactors at h ⊢
    obtain ⟨a, ha, h⟩ := bind_ok h
    obtain ⟨b, hb, h⟩ := bind_ok h
    rw [canonFactors_congr hm hm' gs a (coversList_prod_cons hc).1 ha,
      canonFactors_congr hm hm' rest b (coversList_prod_cons hc).2 hb]; exact h
  | .prob pop c p :: rest, xs, hc, h => by
    unfold canonFactors at h ⊢
    obtain ⟨a, ha, h⟩ := bind_ok h
    obtain ⟨b, hb, h⟩ := bind_ok h
    rw [canonL_congr hm hm' _ a (coversList_cons hc).1 ha, canonFactors_congr hm hm' rest b (coversList_cons hc).2 hb]; exact h
  | .sum e0 r :: rest, xs, hc, h => by
    unfold canonFactors at h ⊢
    obtain ⟨a, ha, h⟩ := bind_ok h
    obtain ⟨b, hb, h⟩ := bind_ok h
    rw [canonL_congr hm hm' _ a (coversList_cons hc).1 ha, canonFactors_congr hm hm' rest b (coversList_cons hc).2 hb]; exact h
  | .frac n d :: rest, xs, hc, h => by
    unfold canonFactors at h ⊢
    obtain ⟨a, ha, h⟩ := bind_ok h
    obtain ⟨b, hb, h⟩ := bind_ok h
    rw [canonL_congr hm hm' _ a (coversList_cons hc).1 ha, canonFactors_congr hm hm' rest b (coversList_cons hc).2 hb]; exact h
  | .one :: rest, xs, hc, h => by
    unfold canonFactors at h ⊢
    obtain ⟨a, ha, h⟩ := bind_ok h
    obtain ⟨b, hb, h⟩ := bind_ok h
    rw [canonL_congr hm hm' _ a (coversList_cons hc).1 ha, canonFactors_congr hm hm' rest b (coversList_cons hc).2 hb]; exact h
  | .zero :: rest, xs, hc, h => by
    unfold canonFactors at h ⊢
    obtain ⟨a, ha, h⟩ := bind_ok h
    obtain ⟨b, hb, h⟩ := bind_ok h
    rw [canonL_congr hm hm' _ a (coversList_cons hc).1 ha, canonFactors_congr hm hm' rest b (coversList_cons hc).2 hb]; exact h
  | .q d c :: rest, xs, hc, h => by
    unfold canonFactors at h ⊢
    obtain ⟨a, ha, h⟩ := bind_ok h
    obtain ⟨b, hb, h⟩ := bind_ok h
    rw [canonL_congr hm hm' _ a (coversList_cons hc).1 ha, canonFactors_congr hm hm' rest b (coversList_cons hc).2 hb]; exact h
end

/-! ### the default ordering covers the expression -/

theorem levelOf_go_isSome (n : Name) : ∀ (l : List Var) (k : Nat) (acc : Option Nat),
    (acc.isSome = true ∨ ∃ v ∈ l, v.name = n) → (levelOf.go n l k acc).isSome = true
  | [], k, acc, h => by
    rcases h with h | ⟨v, hv, _⟩
    · simpa [levelOf.go] using h
    · cases hv
  | w :: ws, k, acc, h => by
    unfold levelOf.go
    apply levelOf_go_isSome n ws (k + 1)
    by_cases hw : w.name = n
    · left; simp [hw]
    · rcases h with h | ⟨v, hv, hn⟩
      · left; simpa [hw] using h
      · rcases List.mem_cons.mp hv with rfl | hv
        · exact absurd hn hw
        · right; exact ⟨v, hv, hn⟩

theorem levelOf_isSome_of_mem {l : List Var} {v : Var} (h : v ∈ l) : (levelOf l v.name).isSome = true := by
  unfold levelOf
  exact levelOf_go_isSome v.name l 0 none (Or.inr ⟨v, h, rfl⟩)

theorem mem_iterVars_self (v : Var) : v ∈ v.iterVars := by simp [Var.iterVars]

mutual
theorem eventVars_subset_iterVars : ∀ (e : Expr) (v : Var), v ∈ e.eventVars → v ∈ e.iterVars
  | .prob pop c p, v, h => by
    simp only [Expr.eventVars] at h
    simp only [Expr.iterVars, List.mem_flatMap]
    exact ⟨v, h, mem_iterVars_self v⟩
  | .prod fs, v, h => by
    simp only [Expr.eventVars] at h
    simp only [Expr.iterVars]
    exact eventVarsList_subset_iterVarsList fs v h
  | .sum e r, v, h => by
    simp only [Expr.eventVars] at h
    simp only [Expr.iterVars, List.mem_append]
    exact Or.inl (eventVars_subset_iterVars e v h)
  | .frac n d, v, h => by
    simp only [Expr.eventVars, List.mem_append] at h
    simp only [Expr.iterVars, List.mem_append]
    exact h.imp (eventVars_subset_iterVars n v) (eventVars_subset_iterVars d v)
  | .one, v, h => by simp [Expr.eventVars] at h
  | .zero, v, h => by simp [Expr.eventVars] at h
  | .q _ _, v, h => by simp [Expr.eventVars] at h
theorem eventVarsList_subset_iterVarsList : ∀ (fs : List Expr) (v : Var), v ∈ Expr.eventVarsList fs → v ∈ Expr.iterVarsList fs
  | [], v, h => by simp [Expr.eventVarsList] at h
  | e :: es, v, h => by
    simp only [Expr.eventVarsList, List.mem_append] at h
    simp only [Expr.iterVarsList, List.mem_append]
    exact h.imp (eventVars_subset_iterVars e v) (eventVarsList_subset_iterVarsList es v)
end

/-- `ensure_ordering(e, None)` covers `e` -/
theorem covers_default (e : Expr) : Covers (levelOf (ensureOrdering e none)) e := by
  intro v hv
  apply levelOf_isSome_of_mem
  show v ∈ upgradeOrdering e.iterVars
  exact mem_upgradeOrdering.mpr (eventVars_subset_iterVars e v hv)

theorem nameMonotone_ensureOrdering (e : Expr) (oo : Option (List Var)) : NameMonotone (levelOf (ensureOrdering e oo)) := by
  cases oo with
  | none => exact nameMonotone_levelOf _
  | some o => exact nameMonotone_levelOf _

/-! ### idempotence of the public entry point -/

/-- `canonicalize(canonicalize(e), ordering=None)`: the second call recomputes the ordering from the canonical form -/
theorem canonicalize_none_idem {e a : Expr} (h : canonicalize e none = .ok a) : canonicalize a none = .ok a := by
  unfold canonicalize canon at h ⊢
  have h1 := canonL_idem (nameMonotone_ensureOrdering e none) h
  exact canonL_congr (nameMonotone_ensureOrdering e none) (nameMonotone_ensureOrdering a none) a a (covers_default a) h1

/-- ... and for every way of calling it -/
theorem canonicalize_idem_any (oo : Option (List Var)) {e a : Expr} (h : canonicalize e oo = .ok a) :
    canonicalize a oo = .ok a := by
  cases oo with
  | none => exact canonicalize_none_idem h
  | some o => exact canonL_idem (nameMonotone_levelOf o) h

/-! ### `Present` is symmetric -/

theorem presentList_perm_right {l m m' : List Expr} (h : PresentList l m) (hp : m'.Perm m) : PresentList l m' := by
  cases h with
  | nil => rw [List.Perm.eq_nil hp]; exact .nil
  | cons hab hl hq => exact .cons hab hl (hp.trans hq)

theorem presentList_perm_left {l l' : List Expr} (hp : l.Perm l') : ∀ {m : List Expr}, PresentList l m → PresentList l' m := by
  induction hp with
  | nil => intro m h; exact h
  | cons x _ ih =>
    intro m h
    cases h with
    | cons hab hl hq => exact .cons hab (ih hl) hq
  | swap x y l =>
    intro m h
    cases h with
    | cons hyb hl hq =>
      cases hl with
      | cons hxb hl2 hq2 =>
        refine .cons hxb (.cons hyb hl2 (List.Perm.refl _)) ?_
        exact hq.trans ((hq2.cons _).trans (List.Perm.swap _ _ _))
  | trans _ _ ih₁ ih₂ => intro m h; exact ih₂ (ih₁ h)

mutual
theorem present_symm : ∀ {e e' : Expr}, Present e e' → Present e' e
  | _, _, .prob hc hp => .prob hc.symm hp.symm
  | _, _, .prod hl => .prod (presentList_symm hl)
  | _, _, .sum he => .sum (present_symm he)
  | _, _, .frac hn hd => .frac (present_symm hn) (present_symm hd)
  | _, _, .one => .one
  | _, _, .zero => .zero
  | _, _, .q => .q
theorem presentList_symm : ∀ {l m : List Expr}, PresentList l m → PresentList m l
  | _, _, .nil => .nil
  | _, _, .cons hab hl hq =>
    presentList_perm_left hq.symm (.cons (present_symm hab) (presentList_symm hl) (List.Perm.refl _))
end

/-- presentation invariance in both directions, on a level table -/
theorem present_canon_iff {lvl : Name → Option Nat} {e e' : Expr} (h : Present e e') (a : Expr) :
    canonL lvl e = .ok a ↔ canonL lvl e' = .ok a :=
  ⟨present_canon h a, present_canon (present_symm h) a⟩

/-! ### presentation invariance of the public entry point -/

theorem canonicalize_none_present {e e' a : Expr} (h : Present e e') (hc : canonicalize e none = .ok a) :
    canonicalize e' none = .ok a := by
  unfold canonicalize canon at hc ⊢
  have h1 := present_canon h a hc
  exact canonL_congr (nameMonotone_ensureOrdering e none) (nameMonotone_ensureOrdering e' none) e' a (covers_default e') h1

theorem canonicalize_present_any (oo : Option (List Var)) {e e' : Expr} (h : Present e e') (a : Expr) :
    canonicalize e oo = .ok a ↔ canonicalize e' oo = .ok a := by
  cases oo with
  | none => exact ⟨canonicalize_none_present h, canonicalize_none_present (present_symm h)⟩
  | some o => exact present_canon_iff h a

end Y0
