/-
  Y0.Lemmas.SepMarkov — the global Markov property of semi-Markovian models, in the form the algorithm uses it:

      a, b separated in the augmented ancestral graph of {a, b} ∪ C minus C
        ⟹  P(a, b, C) · P(C) = P(a, C) · P(b, C)   in every model compatible with G        (`markov`)

  Proof (the one sketched in DESIGN.md 3.4):  sum out the non-ancestors (Tian–Pearl Lemma 3, `Q_ancestral`); split the
  c-factor of the ancestral set along districts into the part `T_A` whose cliques (district ∪ parents) meet the side of
  `a` and the rest `T_B` (`Q_filter_split`: different districts share no latent); the first factor does not mention the
  unconditioned variables on `b`'s side, the second none on `a`'s side (`Q_indepOf`), because a clique of the augmented
  graph cannot meet both sides; a product of two such factors gives conditional independence by algebra of finite sums.
-/
import Y0.Spec.SepCI
import Y0.Lemmas.QFactor
import Y0.Lemmas.IdDen
import Y0.Lemmas.SepWalk

namespace Y0
open Relation

/-! ### algebra -/

theorem sumVars_mul_right (card : Name → Nat) (xs : List Name) (f g : Val → Rat) (σ : Val)
    (hg : ∀ x ∈ xs, IndepOf g x) :
    sumVars card xs (fun τ => f τ * g τ) σ = sumVars card xs f σ * g σ := by
  have : (fun τ => f τ * g τ) = (fun τ => g τ * f τ) := funext fun τ => mul_comm _ _
  rw [this, sumVars_mul_left card xs g f σ hg, mul_comm]

/-- a sum over two blocks of a product whose factors each ignore the other block -/
theorem sumVars_prod_split (card : Name → Nat) (xs ys : List Name) (FA FB : Val → Rat)
    (hA : ∀ y ∈ ys, IndepOf FA y) (hB : ∀ x ∈ xs, IndepOf FB x) (σ : Val) :
    sumVars card (xs ++ ys) (fun τ => FA τ * FB τ) σ = sumVars card xs FA σ * sumVars card ys FB σ := by
  rw [sumVars_append]
  have h1 : sumVars card ys (fun τ => FA τ * FB τ) = fun τ => FA τ * sumVars card ys FB τ :=
    funext fun τ => sumVars_mul_left card ys FA FB τ hA
  rw [h1]
  exact sumVars_mul_right card xs FA (sumVars card ys FB) σ (fun x hx => sumVars_indep card ys FB (hB x hx))

/-- factorisation ⟹ conditional independence -/
theorem ci_of_factor (card : Name → Nat) (LA LB : List Name) (a b : Name) (FA FB : Val → Rat)
    (hA : ∀ y ∈ LB, IndepOf FA y) (hB : ∀ x ∈ LA, IndepOf FB x) (σ : Val) :
    sumVars card (LA.erase a ++ LB.erase b) (fun τ => FA τ * FB τ) σ *
        sumVars card (LA ++ LB) (fun τ => FA τ * FB τ) σ =
      sumVars card (LA.erase a ++ LB) (fun τ => FA τ * FB τ) σ *
        sumVars card (LA ++ LB.erase b) (fun τ => FA τ * FB τ) σ := by
  have hA' : ∀ y ∈ LB.erase b, IndepOf FA y := fun y hy => hA y (List.mem_of_mem_erase hy)
  have hB' : ∀ x ∈ LA.erase a, IndepOf FB x := fun x hx => hB x (List.mem_of_mem_erase hx)
  rw [sumVars_prod_split card _ _ FA FB hA' hB', sumVars_prod_split card _ _ FA FB hA hB,
    sumVars_prod_split card _ _ FA FB hA hB', sumVars_prod_split card _ _ FA FB hA' hB]
  ring

/-! ### the graph part -/

namespace MG

theorem biIn_rtg_symm (G : MG Name) (P : Name → Prop) {x y : Name} (h : ReflTransGen (G.BiIn P) x y) :
    ReflTransGen (G.BiIn P) y x := by
  induction h with
  | refl => exact .refl
  | tail _ hbc ih => exact .head ⟨Or.symm hbc.1, hbc.2.2, hbc.2.1⟩ ih

end MG

open MG in
/-- **(markov)** -/
theorem markov (G : MG Name) (hG : G.WF) (hR : G.Ranked) (M : Scm) (hM : M.Compatible G) (a b : Name)
    (C : List Name) (ha : a ∈ G.nodes) (hb : b ∈ G.nodes) (haC : a ∉ C) (hbC : b ∉ C)
    (hsep : G.AugSeparated a b C) : M.CondIndep G a b C := by
  classical
  intro σ
  -- vocabulary
  let P : Name → Prop := G.Anc (a :: b :: C)
  let reachA : Name → Prop := fun x => ReflTransGen (G.AugStep a b C) a x
  let InClique : Name → Name → Prop := fun v w =>
    P w ∧ ∃ x, P x ∧ ReflTransGen (G.BiIn P) v x ∧ (w = x ∨ G.DiEdge w x)
  let sideA : Name → Prop := fun v => ∃ w, w ∉ C ∧ reachA w ∧ InClique v w
  let AnL := G.nodes.filter (fun v => decide (P v))
  let R := G.nodes.filter (fun v => !decide (P v))
  let LA := AnL.filter (fun v => decide (v ∉ C ∧ reachA v))
  let LB := AnL.filter (fun v => decide (v ∉ C ∧ ¬ reachA v))
  let TA := AnL.filter (fun v => decide (sideA v))
  let TB := AnL.filter (fun v => !decide (sideA v))
  let FA := M.Q TA
  let FB := M.Q TB
  have hVnd : G.nodes.Nodup := hG.nodup
  have hPa : P a := anc_of_mem G (by simp)
  have hPb : P b := anc_of_mem G (by simp)
  have hPC : ∀ c ∈ C, P c := fun c hc => anc_of_mem G (by simp [hc])
  have hreach_a : reachA a := .refl
  have hreach_b : ¬ reachA b := hsep
  have hAnL : ∀ v, v ∈ AnL ↔ v ∈ G.nodes ∧ P v := by intro v; simp [AnL]
  have hRm : ∀ v, v ∈ R ↔ v ∈ G.nodes ∧ ¬ P v := by intro v; simp [R]
  have hLA : ∀ v, v ∈ LA ↔ v ∈ G.nodes ∧ P v ∧ v ∉ C ∧ reachA v := by
    intro v; simp only [LA, List.mem_filter, hAnL, decide_eq_true_eq]; tauto
  have hLB : ∀ v, v ∈ LB ↔ v ∈ G.nodes ∧ P v ∧ v ∉ C ∧ ¬ reachA v := by
    intro v; simp only [LB, List.mem_filter, hAnL, decide_eq_true_eq]; tauto
  have hAnLsub : ∀ v ∈ AnL, v ∈ G.nodes := fun v hv => ((hAnL v).1 hv).1
  -- a clique of the augmented graph with two unconditioned members: they are adjacent there
  have clique_step : ∀ v w x, P v → InClique v w → w ∉ C → reachA w → P x → x ∉ C → (x = v ∨ G.DiEdge x v) →
      reachA x := by
    intro v w x hPv ⟨hPw, x', hPx', hchain, hwx'⟩ hwC hw hPx hxC hxv
    exact hw.tail ⟨⟨hPw, hPx, Or.inr ⟨x', v, hPx', hPv, MG.biIn_rtg_symm G P hchain, hwx', hxv⟩⟩, hwC, hxC⟩
  -- (1) the non-ancestors sum out
  have hsumR : sumVars M.card R (M.Q G.nodes) = M.Q AnL := by
    have hperm : G.nodes.Perm (AnL ++ R) := (List.filter_append_perm (fun v => decide (P v)) G.nodes).symm
    rw [M.Q_perm hperm]
    apply Scm.Q_ancestral hM hR AnL R
    · exact hperm.nodup_iff.1 hVnd
    · intro v hv
      rcases List.mem_append.1 hv with h | h
      · exact ((hAnL v).1 h).1
      · exact ((hRm v).1 h).1
    · intro x hx r hr hpa
      exact ((hRm r).1 hr).2 (anc_of_edge G (MG.mem_parents.1 hpa) ((hAnL x).1 hx).2)
  -- (2) the ancestral c-factor splits along the two sides
  have hfac : ∀ τ, M.Q AnL τ = FA τ * FB τ := by
    intro τ
    apply Scm.Q_filter_split hM hG (fun v => decide (sideA v)) AnL hAnLsub
    intro v hv hsv w hw hsw u huv huw
    simp only [decide_eq_true_eq] at hsv
    simp only [decide_eq_false_iff_not] at hsw
    by_cases hvw : v = w
    · subst hvw; exact hsw hsv
    · have hbi : G.BiEdge v w :=
        (hasBi_iff G v w).1 (hM.compat v (hAnLsub v hv) w (hAnLsub w hw) hvw ⟨u, huv, huw⟩)
      obtain ⟨z, hzC, hz, hPz, x, hPx, hchain, hzx⟩ := hsv
      exact hsw ⟨z, hzC, hz, hPz, x, hPx,
        .head ⟨Or.symm hbi, ((hAnL w).1 hw).2, ((hAnL v).1 hv).2⟩ hchain, hzx⟩
  -- (3) what the two factors do not mention
  have hFA : ∀ y ∈ LB, IndepOf FA y := by
    intro y hy
    obtain ⟨_, hPy, hyC, hyr⟩ := (hLB y).1 hy
    apply Scm.Q_indepOf hM TA (fun v hv => hAnLsub v (List.mem_filter.1 hv).1)
    · intro hyT
      have hs : sideA y := by simpa [TA] using (List.mem_filter.1 hyT).2
      obtain ⟨w, hwC, hw, hcl⟩ := hs
      exact hyr (clique_step y w y hPy hcl hwC hw hPy hyC (Or.inl rfl))
    · intro v hv hpa
      have hs : sideA v := by simpa [TA] using (List.mem_filter.1 hv).2
      obtain ⟨w, hwC, hw, hcl⟩ := hs
      have hPv : P v := ((hAnL v).1 (List.mem_filter.1 hv).1).2
      exact hyr (clique_step v w y hPv hcl hwC hw hPy hyC (Or.inr (MG.mem_parents.1 hpa)))
  have hFB : ∀ x ∈ LA, IndepOf FB x := by
    intro x hx
    obtain ⟨_, hPx, hxC, hxr⟩ := (hLA x).1 hx
    apply Scm.Q_indepOf hM TB (fun v hv => hAnLsub v (List.mem_filter.1 hv).1)
    · intro hxT
      have hs : ¬ sideA x := by simpa [TB] using (List.mem_filter.1 hxT).2
      exact hs ⟨x, hxC, hxr, hPx, x, hPx, .refl, Or.inl rfl⟩
    · intro v hv hpa
      have hs : ¬ sideA v := by simpa [TB] using (List.mem_filter.1 hv).2
      have hPv : P v := ((hAnL v).1 (List.mem_filter.1 hv).1).2
      exact hs ⟨x, hxC, hxr, hPx, v, hPv, .refl, Or.inr (MG.mem_parents.1 hpa)⟩
  -- (4) every marginal is a sum of the product over the unconditioned ancestors outside the marginal's set
  have hRnd : R.Nodup := hVnd.filter _
  have key : ∀ (S L : List Name), L.Nodup → (∀ v, (v ∈ G.nodes ∧ v ∉ S) ↔ (v ∈ L ∨ v ∈ R)) → (∀ v ∈ L, v ∉ R) →
      M.marg G S σ = sumVars M.card L (fun τ => FA τ * FB τ) σ := by
    intro S L hLnd hmem hdisj
    unfold Scm.marg Scm.obs
    have h1 : sumVars M.card (G.nodes.filter (· ∉ S)) (M.Q G.nodes) = sumVars M.card (L ++ R) (M.Q G.nodes) := by
      apply IdAux.sumVars_congr_set M.card (hVnd.filter _) (List.Nodup.append hLnd hRnd (fun v hv hr => hdisj v hv hr))
      intro v
      simp only [List.mem_filter, decide_eq_true_eq, List.mem_append]
      exact hmem v
    rw [h1, sumVars_append, hsumR]
    exact sumVars_congr M.card L hfac σ
  have hLAnd : LA.Nodup := (hVnd.filter _).filter _
  have hLBnd : LB.Nodup := (hVnd.filter _).filter _
  have hdisjAB : ∀ v ∈ LA, v ∉ LB := fun v hv hv' => ((hLB v).1 hv').2.2.2 ((hLA v).1 hv).2.2.2
  have haLA : a ∈ LA := (hLA a).2 ⟨ha, hPa, haC, hreach_a⟩
  have hbLB : b ∈ LB := (hLB b).2 ⟨hb, hPb, hbC, hreach_b⟩
  have hnotR : ∀ v, (v ∈ LA ∨ v ∈ LB) → v ∉ R := by
    intro v hv hr
    rcases hv with h | h
    · exact ((hRm v).1 hr).2 ((hLA v).1 h).2.1
    · exact ((hRm v).1 hr).2 ((hLB v).1 h).2.1
  -- membership bookkeeping shared by the four marginals
  have cover : ∀ v, v ∈ G.nodes → v ∉ C → (v ∈ LA ∨ v ∈ LB ∨ v ∈ R) := by
    intro v hv hvC
    by_cases hPv : P v
    · by_cases hr : reachA v
      · exact Or.inl ((hLA v).2 ⟨hv, hPv, hvC, hr⟩)
      · exact Or.inr (Or.inl ((hLB v).2 ⟨hv, hPv, hvC, hr⟩))
    · exact Or.inr (Or.inr ((hRm v).2 ⟨hv, hPv⟩))
  have inLA : ∀ v, v ∈ LA → v ∈ G.nodes ∧ v ∉ C ∧ v ≠ b := fun v hv =>
    ⟨((hLA v).1 hv).1, ((hLA v).1 hv).2.2.1, fun h => hreach_b (h ▸ ((hLA v).1 hv).2.2.2)⟩
  have inLB : ∀ v, v ∈ LB → v ∈ G.nodes ∧ v ∉ C ∧ v ≠ a := fun v hv =>
    ⟨((hLB v).1 hv).1, ((hLB v).1 hv).2.2.1, fun h => ((hLB v).1 hv).2.2.2 (h ▸ hreach_a)⟩
  have inR : ∀ v, v ∈ R → v ∈ G.nodes ∧ v ∉ C ∧ v ≠ a ∧ v ≠ b := fun v hv =>
    ⟨((hRm v).1 hv).1, fun h => ((hRm v).1 hv).2 (hPC v h), fun h => ((hRm v).1 hv).2 (h ▸ hPa),
      fun h => ((hRm v).1 hv).2 (h ▸ hPb)⟩
  have m1 := key (a :: b :: C) (LA.erase a ++ LB.erase b)
    (List.Nodup.append (hLAnd.erase a) (hLBnd.erase b)
      (fun v hv hv' => hdisjAB v (List.mem_of_mem_erase hv) (List.mem_of_mem_erase hv')))
    (by
      intro v
      simp only [List.mem_cons, not_or, List.mem_append, hLAnd.mem_erase_iff, hLBnd.mem_erase_iff]
      constructor
      · rintro ⟨hv, hva, hvb, hvC⟩
        rcases cover v hv hvC with h | h | h
        · exact Or.inl (Or.inl ⟨hva, h⟩)
        · exact Or.inl (Or.inr ⟨hvb, h⟩)
        · exact Or.inr h
      · rintro ((⟨hva, h⟩ | ⟨hvb, h⟩) | h)
        · exact ⟨(inLA v h).1, hva, (inLA v h).2.2, (inLA v h).2.1⟩
        · exact ⟨(inLB v h).1, (inLB v h).2.2, hvb, (inLB v h).2.1⟩
        · exact ⟨(inR v h).1, (inR v h).2.2.1, (inR v h).2.2.2, (inR v h).2.1⟩)
    (by
      intro v hv
      rcases List.mem_append.1 hv with h | h
      · exact hnotR v (Or.inl (List.mem_of_mem_erase h))
      · exact hnotR v (Or.inr (List.mem_of_mem_erase h)))
  have m0 := key C (LA ++ LB) (List.Nodup.append hLAnd hLBnd hdisjAB)
    (by
      intro v
      simp only [List.mem_append]
      constructor
      · rintro ⟨hv, hvC⟩
        rcases cover v hv hvC with h | h | h
        · exact Or.inl (Or.inl h)
        · exact Or.inl (Or.inr h)
        · exact Or.inr h
      · rintro ((h | h) | h)
        · exact ⟨(inLA v h).1, (inLA v h).2.1⟩
        · exact ⟨(inLB v h).1, (inLB v h).2.1⟩
        · exact ⟨(inR v h).1, (inR v h).2.1⟩)
    (by
      intro v hv
      rcases List.mem_append.1 hv with h | h
      · exact hnotR v (Or.inl h)
      · exact hnotR v (Or.inr h))
  have ma := key (a :: C) (LA.erase a ++ LB)
    (List.Nodup.append (hLAnd.erase a) hLBnd (fun v hv hv' => hdisjAB v (List.mem_of_mem_erase hv) hv'))
    (by
      intro v
      simp only [List.mem_cons, not_or, List.mem_append, hLAnd.mem_erase_iff]
      constructor
      · rintro ⟨hv, hva, hvC⟩
        rcases cover v hv hvC with h | h | h
        · exact Or.inl (Or.inl ⟨hva, h⟩)
        · exact Or.inl (Or.inr h)
        · exact Or.inr h
      · rintro ((⟨hva, h⟩ | h) | h)
        · exact ⟨(inLA v h).1, hva, (inLA v h).2.1⟩
        · exact ⟨(inLB v h).1, (inLB v h).2.2, (inLB v h).2.1⟩
        · exact ⟨(inR v h).1, (inR v h).2.2.1, (inR v h).2.1⟩)
    (by
      intro v hv
      rcases List.mem_append.1 hv with h | h
      · exact hnotR v (Or.inl (List.mem_of_mem_erase h))
      · exact hnotR v (Or.inr h))
  have mb := key (b :: C) (LA ++ LB.erase b)
    (List.Nodup.append hLAnd (hLBnd.erase b) (fun v hv hv' => hdisjAB v hv (List.mem_of_mem_erase hv')))
    (by
      intro v
      simp only [List.mem_cons, not_or, List.mem_append, hLBnd.mem_erase_iff]
      constructor
      · rintro ⟨hv, hvb, hvC⟩
        rcases cover v hv hvC with h | h | h
        · exact Or.inl (Or.inl h)
        · exact Or.inl (Or.inr ⟨hvb, h⟩)
        · exact Or.inr h
      · rintro ((h | ⟨hvb, h⟩) | h)
        · exact ⟨(inLA v h).1, (inLA v h).2.2, (inLA v h).2.1⟩
        · exact ⟨(inLB v h).1, hvb, (inLB v h).2.1⟩
        · exact ⟨(inR v h).1, (inR v h).2.2.2, (inR v h).2.1⟩)
    (by
      intro v hv
      rcases List.mem_append.1 hv with h | h
      · exact hnotR v (Or.inl h)
      · exact hnotR v (Or.inr (List.mem_of_mem_erase h)))
  rw [m1, m0, ma, mb]
  exact ci_of_factor M.card LA LB a b FA FB hFA hFB σ

end Y0
