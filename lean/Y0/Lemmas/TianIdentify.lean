/-
  Y0.Lemmas.TianIdentify — soundness of the IDENTIFY recursion (Y0.Model.Tian.identifyAux) by induction on the fuel,
  with the invariant "the carried expression denotes Q[T] (listed in the order of `topo`) and, when it is a
  probability, has the shape P_w(T | Z)".
-/
import Y0.Lemmas.TianSound

namespace Y0
namespace TianIdentify
open TianDsl Tian TianDen TianSpec TianSound TianGraph TianLemma1

variable {M : Scm} {G : MG Name}

/-! ### which constructor the routines return -/

theorem probShape_of_not_prob {e : Expr} {H : List Name} (h : isProb e = false) :
    ProbShape e H := by
  cases e with
  | prob pop c p => simp [isProb] at h
  | _ => trivial

theorem sumSafe_not_prob {q e : Expr} {rs : List Var} (hq : isProb q = false) (h : sumSafe q rs = .ok e) :
    isProb e = false := by
  unfold sumSafe at h
  simp only at h
  split at h
  · cases h; exact hq
  · split at h
    · cases h; exact hq
    · split at h
      · cases h
      · cases h; rfl

theorem isProb_of_fps {q : Expr} (h : isFracProdSum q = true) : isProb q = false := by
  cases q <;> simp_all [isFracProdSum, isProb]

theorem productSafe_not_prob {fs : List Expr} (h : ∀ f ∈ fs, isProb f = false) : isProb (productSafe fs) = false := by
  unfold productSafe
  simp only
  split
  · rfl
  · split
    · rfl
    · rename_i e he
      apply h
      have : e ∈ fs.filter (fun e => !isOne e) := by rw [he]; simp
      exact (List.mem_filter.mp this).1
    · rfl

theorem lowIndex_not_prob {q e : Expr} {vtx : Option Name} {topo : List Name} (hq : isProb q = false)
    (h : lowIndex vtx q topo = .ok e) : isProb e = false := by
  cases vtx with
  | none => simp only [lowIndex] at h; cases h; rfl
  | some v =>
    simp only [lowIndex] at h
    split at h
    · cases h
    · cases hj : indexOf topo v with
      | error err => rw [hj] at h; simp [bind, Except.bind] at h
      | ok j =>
        rw [hj] at h
        exact sumSafe_not_prob hq h

theorem lemma4_not_prob {q e : Expr} {D topo : List Name} (hq : isProb q = false) (h : lemma4 D q topo = .ok e) :
    isProb e = false := by
  unfold lemma4 at h
  cases hm : D.mapM (lemma4One q topo) with
  | error err => rw [hm] at h; simp [bind, Except.bind] at h
  | ok fs =>
    rw [hm] at h
    simp only [bind, Except.bind, pure, Except.pure] at h
    cases h
    apply productSafe_not_prob
    intro f hf
    obtain ⟨v, _, hvf⟩ := forall₂_exists_left (mapM_ok_forall₂ _ _ _ hm) f hf
    unfold lemma4One at hvf
    cases hi : indexOf topo v with
    | error err => rw [hi] at hvf; simp [bind, Except.bind] at hvf
    | ok i =>
      rw [hi] at hvf
      simp only [bind, Except.bind] at hvf
      unfold lemma4Factor at hvf
      cases hc : lowIndex (some v) q topo with
      | error err => rw [hc] at hvf; simp [bind, Except.bind] at hvf
      | ok cur =>
        rw [hc] at hvf
        simp only [bind, Except.bind] at hvf
        have hcur : isProb cur = false := lowIndex_not_prob hq hc
        split at hvf
        · simp only [pure, Except.pure] at hvf; cases hvf; exact hcur
        · split at hvf
          · cases hvf
          · rename_i u _
            cases hp : lowIndex (some u) q topo with
            | error err => rw [hp] at hvf; simp at hvf
            | ok prev =>
              rw [hp] at hvf
              simp only at hvf
              unfold mkFraction at hvf
              split at hvf
              · cases hvf
              · cases hvf; rfl

/-- when Lemma 1 returns a bare probability (a one-variable district) it has the shape `P_w(v | …)` -/
theorem lemma1_probShape {pop : Option Var} {ch pa : List Var} {H D : List Name} {w : List Iv} {e : Expr}
    (hs : Shape G ch pa H w) (hsub : ∀ x ∈ H, x ∈ G.nodes) (hDH : ∀ v ∈ D, v ∈ H) (hDnd : D.Nodup)
    (h : lemma1 D (.prob pop ch pa) H = .ok e) (D' : List Name) (hD' : D.Perm D') :
    ProbShape e D' := by
  by_cases hpe : isProb e = false
  · exact probShape_of_not_prob hpe
  · unfold lemma1 at h
    split at h
    · cases h
    · split at h
      · cases h
      · simp only at h
        cases hm : D.mapM (lemma1Factor pop (world ch) pa H) with
        | error err => rw [hm] at h; simp [bind, Except.bind] at h
        | ok fs =>
          rw [hm] at h
          simp only [bind, Except.bind, pure, Except.pure] at h
          cases h
          have hall := mapM_ok_forall₂ _ _ _ hm
          -- every factor is a probability, hence neither `One` nor `Zero`
          have hfs : ∀ f ∈ fs, isProb f = true := by
            intro f hf
            obtain ⟨v, hv, hvf⟩ := forall₂_exists_left hall f hf
            obtain ⟨p, s, e1, hvp⟩ := split_of_mem (hDH v hv)
            subst e1
            obtain ⟨P', rfl, _⟩ := lemma1Factor_shape hvp hvf
            rfl
          have hfilter : fs.filter (fun e => !isOne e) = fs := by
            apply List.filter_eq_self.mpr
            intro f hf
            have := hfs f hf
            cases f <;> simp_all [isProb, isOne]
          have hnz : fs.any isZero = false := by
            apply Bool.eq_false_iff.mpr
            intro hany
            rcases List.any_eq_true.mp hany with ⟨f, hf, hz⟩
            have := hfs f hf
            cases f <;> simp_all [isProb, isZero]
          unfold productSafe at hpe ⊢
          simp only [hfilter, hnz, Bool.false_eq_true, ↓reduceIte] at hpe ⊢
          cases fs with
          | nil => simp [isProb] at hpe
          | cons f fs' =>
            cases fs' with
            | cons g gs => simp [isProb] at hpe
            | nil =>
              simp only
              -- `D = [v]`
              have hlen := hall.length_eq
              obtain ⟨v, rfl⟩ := List.length_eq_one_iff.mp (by simpa using hlen)
              obtain ⟨v', hv', hvf⟩ := forall₂_exists_left hall f List.mem_cons_self
              have : v' = v := by simpa using hv'
              subst this
              obtain ⟨p, s, e1, hvp⟩ := split_of_mem (hDH v' List.mem_cons_self)
              obtain ⟨P', rfl, hP, _⟩ := lemma1Factor_shape (by exact hvp) (e1 ▸ hvf)
              have hD'eq : D' = [v'] := List.perm_singleton.mp hD'.symm
              subst hD'eq
              have hvH : v' ∈ H := hDH v' List.mem_cons_self
              have hnames : ∀ n ∈ H, n ∈ ch.map (·.name) := fun n hn => hs.covers n hn
              refine ⟨w, ?_, ?_, ?_, ?_, ?_⟩
              · intro h hh
                rw [List.mem_singleton.mp hh]
                simp [inWorld_name]
              · intro c hc
                left
                rw [List.mem_singleton.mp hc]
                simp [inWorld_name]
              · intro x hx
                rcases List.mem_append.mp hx with hx | hx
                · rw [List.mem_singleton.mp hx]
                  exact hs.world _ (List.mem_append_left _ (inWorld_mem (hnames v' hvH)))
                · rcases (hP x).mp hx with hx | hx
                  · exact hs.world _ (List.mem_append_right _ hx)
                  · rcases List.mem_map.mp hx with ⟨n, hn, rfl⟩
                    exact hs.world _ (List.mem_append_left _ (inWorld_mem (hnames n (by rw [e1]; simp [hn]))))
              · intro i hi
                refine ⟨(hs.ivs i hi).1, ?_⟩
                intro hm
                exact (hs.ivs i hi).2 (List.mem_singleton.mp hm ▸ hvH)
              · intro x hx
                rcases (hP x).mp hx with hx | hx
                · intro hm
                  exact (hs.parents x hx) (List.mem_singleton.mp hm ▸ hvH)
                · rcases List.mem_map.mp hx with ⟨n, hn, rfl⟩
                  rw [inWorld_name]
                  intro hm
                  exact hvp (List.mem_singleton.mp hm ▸ hn)

/-! ### the two ways IDENTIFY obtains `Q[A]` -/

/-- Lemma 3 applied to an expression (`Fraction | Product | Sum`, or any expression in the `A = C` case) -/
theorem ancestralQ_inv (hM : M.Compatible G) (hrank : G.Ranked) (σ' : Val) (topo A T : List Name)
    (htnd : topo.Nodup) (hAT : ∀ a ∈ A, a ∈ T) (hT : ∀ t ∈ T, t ∈ G.nodes) (hanc : AncestralIn G A T)
    (q r : Expr) (hq : ∀ σ, den (M.env G) σ' q σ = M.Q (topo.filter (· ∈ T)) σ)
    (h : ancestralQ A T q topo = .ok r) (σ : Val) :
    den (M.env G) σ' r σ = M.Q (topo.filter (· ∈ A)) σ := by
  rw [den_ancestralQ (M.env G) σ' htnd h, funext hq, env_card]
  exact congrFun (sumVars_Q_anc hM hrank A T topo hAT hT hanc htnd) σ

/-- the probability of the ancestral set built from a probability `P_w(T | Z)` -/
theorem ancestralProb_inv (hM : M.Compatible G) (hG : G.WF) (hrank : G.Ranked) (σ' : Val) (topo A T : List Name)
    (htnd : topo.Nodup) (hAT : ∀ a ∈ A, a ∈ T) (hT : ∀ t ∈ T, t ∈ G.nodes) (hanc : AncestralIn G A T)
    (pop : Option Var) (ch pa : List Var) (qA : Expr)
    (hshape : ProbShape (.prob pop ch pa) (topo.filter (· ∈ T)))
    (hq : ∀ σ, den (M.env G) σ' (.prob pop ch pa) σ = M.Q (topo.filter (· ∈ T)) σ)
    (h : ancestralProb pop ch pa (topo.filter (· ∈ A)) = .ok qA) :
    (∀ σ, den (M.env G) σ' qA σ = M.Q (topo.filter (· ∈ A)) σ) ∧
      ProbShape qA (topo.filter (· ∈ A)) := by
  obtain ⟨w, hs⟩ := shape_of_probShape hshape
  have hoAne : topo.filter (· ∈ A) ≠ [] := by
    intro h0
    rw [h0] at h
    simp [ancestralProb] at h
  have hAH : ∀ a ∈ topo.filter (· ∈ A), a ∈ topo.filter (· ∈ T) := by
    intro a ha
    have := List.mem_filter.mp ha
    exact List.mem_filter.mpr ⟨this.1, by simpa using hAT a (by simpa using this.2)⟩
  constructor
  · intro σ
    have := den_ancestralProb hM hG σ' (R := topo.filter (fun v => v ∈ T ∧ v ∉ A)) hs
      (fun x hx => hT x (by simpa using (List.mem_filter.mp hx).2)) (htnd.filter _) hoAne (htnd.filter _)
      (by
        intro x
        simp only [List.mem_filter, decide_eq_true_eq]
        constructor
        · rintro ⟨hxt, hx⟩
          by_cases hxA : x ∈ A
          · exact Or.inl ⟨hxt, hxA⟩
          · exact Or.inr ⟨hxt, hx, hxA⟩
        · rintro (⟨hxt, hx⟩ | ⟨hxt, hx, _⟩)
          · exact ⟨hxt, hAT x hx⟩
          · exact ⟨hxt, hx⟩)
      (by
        intro x hx hx'
        have h1 := (List.mem_filter.mp hx).2
        have h2 := (List.mem_filter.mp hx').2
        simp only [decide_eq_true_eq] at h1 h2
        exact h1.2 h2)
      h
    rw [this, funext hq]
    exact congrFun (sumVars_Q_anc hM hrank A T topo hAT hT hanc htnd) σ
  · obtain ⟨c, P', rfl, hs', _, _⟩ := ancestralProb_probShape hs (htnd.filter _) hAH h
    exact ⟨w, hs'.covers, hs'.extras, hs'.world, hs'.ivs, hs'.parents⟩

/-! ### the recursion -/

/-- **IDENTIFY is sound** (fuel form): if the carried expression denotes `Q[T]` and the call returns an
expression, that expression denotes `Q[C]`. -/
theorem identifyAux_sound (hM : M.Compatible G) (hG : G.WF) (hrank : G.Ranked) (σ' : Val)
    (topo : List Name) (htnd : topo.Nodup) (hord : TopoOrdered G topo) (C : List Name) :
    ∀ (fuel : Nat) (T : List Name) (q : Expr), (∀ t ∈ T, t ∈ G.nodes) →
      ProbShape q (topo.filter (· ∈ T)) →
      (∀ σ, den (M.env G) σ' q σ = M.Q (topo.filter (· ∈ T)) σ) →
      ∀ e, identifyAux G topo C fuel T q = .ok (some e) →
      ∀ σ, den (M.env G) σ' e σ = M.Q (topo.filter (· ∈ C)) σ := by
  intro fuel
  induction fuel with
  | zero => intro T q _ _ _ e h; simp [identifyAux] at h
  | succ fuel ih =>
    intro T q hT hshape hq e h σ
    simp only [identifyAux] at h
    split at h
    · cases h
    · rename_i hCT
      split at h
      · cases h
      · split at h
        · cases h
        · split at h
          · cases h
          · have hCT' : ∀ c ∈ C, c ∈ T := subset'_iff.mp (by simpa using hCT)
            cases hA : (G.subgraph T).ancestorsInclusive C with
            | error err => rw [hA] at h; simp [bind, Except.bind] at h
            | ok A =>
              rw [hA] at h
              simp only [bind, Except.bind] at h
              obtain ⟨hCA, hAT, hanc⟩ := anc_facts G C T A hCT' hA
              split at h
              · -- A = C: Lemma 3
                rename_i hAC
                cases hr : ancestralQ A T q topo with
                | error err => rw [hr] at h; simp at h
                | ok r =>
                  rw [hr] at h
                  simp only [pure, Except.pure] at h
                  cases h
                  rw [ancestralQ_inv hM hrank σ' topo A T htnd hAT hT hanc q e hq hr σ,
                    filter_congr_mem (seteq'_iff.mp hAC)]
              · split at h
                · simp [pure, Except.pure] at h
                · split at h
                  · -- C ⊊ A ⊊ T: recurse on the district of G[A] that contains C
                    split at h
                    · cases h
                    · rename_i T' hfind
                      have hT'mem : T' ∈ (G.subgraph (topo.filter (· ∈ A))).districts :=
                        List.mem_of_find?_eq_some hfind
                      obtain ⟨hT'nd, hT'A, hT'closed, _⟩ := district_facts G _ T' hT'mem
                      have hLA : ∀ v ∈ topo.filter (· ∈ A), v ∈ G.nodes := by
                        intro v hv
                        exact hT v (hAT v (by simpa using (List.mem_filter.mp hv).2))
                      -- the expression for Q[A]
                      have hqA : ∀ qA, ancestralExpr q A T (topo.filter (· ∈ A)) topo = .ok qA →
                          (∀ σ, den (M.env G) σ' qA σ = M.Q (topo.filter (· ∈ A)) σ) ∧
                            ProbShape qA (topo.filter (· ∈ A)) := by
                        intro qA hqA
                        unfold ancestralExpr at hqA
                        split at hqA
                        · rename_i hfps
                          refine ⟨ancestralQ_inv hM hrank σ' topo A T htnd hAT hT hanc q qA hq hqA, ?_⟩
                          exact probShape_of_not_prob (sumSafe_not_prob (isProb_of_fps hfps) hqA)
                        · split at hqA
                          · exact ancestralProb_inv hM hG hrank σ' topo A T htnd hAT hT hanc _ _ _ qA hshape hq hqA
                          · cases hqA
                      cases hqA' : ancestralExpr q A T (topo.filter (· ∈ A)) topo with
                      | error err => rw [hqA'] at h; simp at h
                      | ok qA =>
                        rw [hqA'] at h
                        simp only at h
                        obtain ⟨hdenA, hshapeA⟩ := hqA qA hqA'
                        cases hc : computeCFactor T' A qA topo with
                        | error err => rw [hc] at h; simp at h
                        | ok qT' =>
                          rw [hc] at h
                          simp only at h
                          have hT'sub : ∀ v ∈ T', v ∈ topo.filter (· ∈ A) := hT'A
                          have hdenT' : ∀ σ, den (M.env G) σ' qT' σ = M.Q T' σ :=
                            computeCFactor_sound hM hG hrank σ' topo A htnd hord hLA T' hT'nd hT'sub hT'closed
                              qA qT' hshapeA hdenA hc
                          have hT'topo : ∀ v ∈ T', v ∈ topo := fun v hv => (List.mem_filter.mp (hT'A v hv)).1
                          have hperm : (topo.filter (· ∈ T')).Perm T' := filter_perm_of_nodup hT'nd htnd hT'topo
                          apply ih T' qT' (fun t ht => hLA t (hT'A t ht)) _ _ e h σ
                          · -- shape of Q[T'] when it is a probability
                            unfold computeCFactor at hc
                            simp only at hc
                            split at hc
                            · rename_i hfps
                              exact probShape_of_not_prob (lemma4_not_prob (isProb_of_fps hfps) hc)
                            · split at hc
                              · cases hc
                              · rename_i hprob
                                cases qA with
                                | prob pop ch pa =>
                                  obtain ⟨w, hs⟩ := shape_of_probShape hshapeA
                                  exact lemma1_probShape hs hLA hT'sub hT'nd hc _ hperm.symm
                                | _ => simp [isProb] at hprob
                          · intro τ
                            rw [hdenT' τ, Scm.Q_perm M hperm]
                  · cases h

end TianIdentify
end Y0
