/-
  Y0.Lemmas.TianIdentify — soundness of the IDENTIFY recursion (Y0.Model.Tian.identifyAux) by induction on the fuel,
  with the invariant "the carried expression denotes Q[T] (listed in the order of `topo`) and, when it is a
  probability, has the shape P_w(T | Z)".
-/
import Y0.Lemmas.TianSound

namespace Y0
namespace TianIdentify
open TianDsl Tian TianDen TianSpec TianSound TianGraph TianLemma1

variable {M : Scm} {G : MG Name}

/-! ### which constructor the routines return -/

theorem probShape_of_not_prob {nodes : List Name} {e : Expr} {H : List Name} (h : isProb e = false) :
    ProbShape nodes e H := by
  cases e with
  | prob pop c p => simp [isProb] at h
  | _ => trivial

theorem sumSafe_not_prob {q e : Expr} {rs : List Var} (hq : isProb q = false) (h : sumSafe q rs = .ok e) :
    isProb e = false := by
  unfold sumSafe at h
  simp only at h
  split at h
  · cases h; exact hq
  · split at h
    · cases h; exact hq
    · split at h
      · cases h
      · cases h; rfl

theorem isProb_of_fps {q : Expr} (h : isFracProdSum q = true) : isProb q = false := by
  cases q <;> simp_all [isFracProdSum, isProb]

theorem productSafe_not_prob {fs : List Expr} (h : ∀ f ∈ fs, isProb f = false) : isProb (productSafe fs) = false := by
  unfold productSafe
  simp only
  split
  · rfl
  · split
    · rfl
    · rename_i e he
      apply h
      have : e ∈ fs.filter (fun e => !isOne e) := by rw [he]; simp
      exact (List.mem_filter.mp this).1
    · rfl

theorem lowIndex_not_prob {q e : Expr} {vtx : Option Name} {topo : List Name} (hq : isProb q = false)
    (h : lowIndex vtx q topo = .ok e) : isProb e = false := by
  cases vtx with
  | none => simp only [lowIndex] at h; cases h; rfl
  | some v =>
    simp only [lowIndex] at h
    split at h
    · cases h
    · cases hj : indexOf topo v with
      | error err => rw [hj] at h; simp [bind, Except.bind] at h
      | ok j =>
        rw [hj] at h
        exact sumSafe_not_prob hq h

theorem lemma4_not_prob {q e : Expr} {D topo : List Name} (hq : isProb q = false) (h : lemma4 D q topo = .ok e) :
    isProb e = false := by
  unfold lemma4 at h
  cases hm : D.mapM (lemma4One q topo) with
  | error err => rw [hm] at h; simp [bind, Except.bind] at h
  | ok fs =>
    rw [hm] at h
    simp only [bind, Except.bind, pure, Except.pure] at h
    cases h
    apply productSafe_not_prob
    intro f hf
    obtain ⟨v, _, hvf⟩ := forall₂_exists_left (mapM_ok_forall₂ _ _ _ hm) f hf
    unfold lemma4One at hvf
    cases hi : indexOf topo v with
    | error err => rw [hi] at hvf; simp [bind, Except.bind] at hvf
    | ok i =>
      rw [hi] at hvf
      simp only [bind, Except.bind] at hvf
      unfold lemma4Factor at hvf
      cases hc : lowIndex (some v) q topo with
      | error err => rw [hc] at hvf; simp [bind, Except.bind] at hvf
      | ok cur =>
        rw [hc] at hvf
        simp only [bind, Except.bind] at hvf
        have hcur : isProb cur = false := lowIndex_not_prob hq hc
        split at hvf
        · simp only [pure, Except.pure] at hvf; cases hvf; exact hcur
        · split at hvf
          · cases hvf
          · rename_i u _
            cases hp : lowIndex (some u) q topo with
            | error err => rw [hp] at hvf; simp at hvf
            | ok prev =>
              rw [hp] at hvf
              simp only at hvf
              unfold mkFraction at hvf
              split at hvf
              · cases hvf
              · cases hvf; rfl

/-- when Lemma 1 returns a bare probability (a one-variable district) it has the shape `P_w(v | …)` -/
theorem lemma1_probShape {pop : Option Var} {ch pa : List Var} {H D : List Name} {w : List Iv} {e : Expr}
    (hs : Shape G ch pa H w) (hsub : ∀ x ∈ H, x ∈ G.nodes) (hDH : ∀ v ∈ D, v ∈ H) (hDnd : D.Nodup)
    (h : lemma1 D (.prob pop ch pa) H = .ok e) (D' : List Name) (hD' : D.Perm D') :
    ProbShape G.nodes e D' := by
  by_cases hpe : isProb e = false
  · exact probShape_of_not_prob hpe
  · unfold lemma1 at h
    split at h
    · cases h
    · split at h
      · cases h
      · simp only at h
        cases hm : D.mapM (lemma1Factor pop (world ch) pa H) with
        | error err => rw [hm] at h; simp [bind, Except.bind] at h
        | ok fs =>
          rw [hm] at h
          simp only [bind, Except.bind, pure, Except.pure] at h
          cases h
          have hall := mapM_ok_forall₂ _ _ _ hm
          -- every factor is a probability, hence neither `One` nor `Zero`
          have hfs : ∀ f ∈ fs, isProb f = true := by
            intro f hf
            obtain ⟨v, hv, hvf⟩ := forall₂_exists_left hall f hf
            obtain ⟨p, s, e1, hvp⟩ := split_of_mem (hDH v hv)
            subst e1
            obtain ⟨P', rfl, _⟩ := lemma1Factor_shape hvp hvf
            rfl
          have hfilter : fs.filter (fun e => !isOne e) = fs := by
            apply List.filter_eq_self.mpr
            intro f hf
            have := hfs f hf
            cases f <;> simp_all [isProb, isOne]
          have hnz : fs.any isZero = false := by
            apply Bool.eq_false_iff.mpr
            intro hany
            rcases List.any_eq_true.mp hany with ⟨f, hf, hz⟩
            have := hfs f hf
            cases f <;> simp_all [isProb, isZero]
          unfold productSafe at hpe ⊢
          simp only [hfilter, hnz, Bool.false_eq_true, ↓reduceIte] at hpe ⊢
          cases fs with
          | nil => simp [isProb] at hpe
          | cons f fs' =>
            cases fs' with
            | cons g gs => simp [isProb] at hpe
            | nil =>
              simp only
              -- `D = [v]`
              have hlen := hall.length_eq
              obtain ⟨v, rfl⟩ := List.length_eq_one_iff.mp (by simpa using hlen)
              obtain ⟨v', hv', hvf⟩ := forall₂_exists_left hall f List.mem_cons_self
              have : v' = v := by simpa using hv'
              subst this
              obtain ⟨p, s, e1, hvp⟩ := split_of_mem (hDH v' List.mem_cons_self)
              obtain ⟨P', rfl, hP, _⟩ := lemma1Factor_shape (by exact hvp) (e1 ▸ hvf)
              have hD'eq : D' = [v'] := List.perm_singleton.mp hD'.symm
              subst hD'eq
              have hvH : v' ∈ H := hDH v' List.mem_cons_self
              have hnames : ∀ n ∈ H, n ∈ ch.map (·.name) := fun n hn => hs.perm.mem_iff.mpr hn
              refine ⟨w, ?_, ?_, ?_, ?_⟩
              · simp [inWorld_name]
              · intro x hx
                rcases List.mem_append.mp hx with hx | hx
                · rw [List.mem_singleton.mp hx]
                  exact hs.world _ (List.mem_append_left _ (inWorld_mem (hnames v' hvH)))
                · rcases (hP x).mp hx with hx | hx
                  · exact hs.world _ (List.mem_append_right _ hx)
                  · rcases List.mem_map.mp hx with ⟨n, hn, rfl⟩
                    exact hs.world _ (List.mem_append_left _ (inWorld_mem (hnames n (by rw [e1]; simp [hn]))))
              · intro i hi
                refine ⟨(hs.ivs i hi).1, ?_, (hs.ivs i hi).2.2⟩
                intro hm
                exact (hs.ivs i hi).2.1 (List.mem_singleton.mp hm ▸ hvH)
              · intro x hx
                rcases (hP x).mp hx with hx | hx
                · refine ⟨?_, (hs.parents x hx).2⟩
                  intro hm
                  exact (hs.parents x hx).1 (List.mem_singleton.mp hm ▸ hvH)
                · rcases List.mem_map.mp hx with ⟨n, hn, rfl⟩
                  rw [inWorld_name]
                  refine ⟨?_, hsub n (by rw [e1]; simp [hn])⟩
                  intro hm
                  exact hvp (List.mem_singleton.mp hm ▸ hn)

end TianIdentify
end Y0
