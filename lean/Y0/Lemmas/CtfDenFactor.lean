/-
  Y0.Lemmas.CtfDenFactor — the factor side of the value theorem of the ctf-factor factorisation: what the world of a
  ctf-factor variable `W_{pa_W}` forces under the reading of Y0/Spec/CtfSem.lean, that the ctf-factor form of a query
  variable is the ctf-factor form of its member of `An(Y_*)`, and the grouping of the factors.
-/
import Y0.Lemmas.CtfDen

namespace Y0.Ctf
open Relation Y0.MG Y0.Fscm

/-! ### worlds given by a subscript list -/

theorem forced_map_iv (val : Iv → Nat) (S : List Iv) (i : Iv) (hi : i ∈ S) (hS : ConsistentSubs S) :
    forced (S.map fun j => (j.name, val j)) i.name = some (val i) := by
  unfold forced
  induction S with
  | nil => cases hi
  | cons j js ih =>
    simp only [List.map_cons, List.find?_cons]
    by_cases hj : j.name = i.name
    · have : j = i := hS j (by simp) i hi hj
      subst this
      simp
    · simp only [hj, decide_false]
      have hi' : i ∈ js := by
        rcases List.mem_cons.1 hi with rfl | h
        · exact absurd rfl hj
        · exact h
      exact ih hi' (fun a ha b hb => hS a (by simp [ha]) b (by simp [hb]))

theorem forced_map_iv_none (val : Iv → Nat) (S : List Iv) (a : Name) (ha : a ∉ S.map (·.name)) :
    forced (S.map fun j => (j.name, val j)) a = none := by
  unfold forced
  induction S with
  | nil => rfl
  | cons j js ih =>
    simp only [List.map_cons, List.mem_cons, not_or] at ha
    have hja : j.name ≠ a := fun h => ha.1 h.symm
    simp only [List.map_cons, List.find?_cons, hja, decide_false]
    exact ih ha.2

theorem forced_boundWorld (ν : BaseValues) (r : Do) (S : List Iv) (i : Iv) (hi : i ∈ S) (hS : ConsistentSubs S) :
    forced (boundWorld ν r S) i.name = some (boundIvValue ν r i) := forced_map_iv _ S i hi hS

theorem forced_boundWorld_none (ν : BaseValues) (r : Do) (S : List Iv) (a : Name) (ha : a ∉ S.map (·.name)) :
    forced (boundWorld ν r S) a = none := forced_map_iv_none _ S a ha

/-! ### conversion to ctf-factor form -/

theorem convertOne_node (g : MG Name) (v c : Var) (h : convertOne g v = .ok c) : v.name ∈ g.nodes := by
  unfold convertOne at h
  by_contra hv
  simp only [predecessors, hv, ↓reduceIte, bind, Except.bind] at h
  cases h

theorem convertOne_total (g : MG Name) (v : Var) (hv : v.name ∈ g.nodes) : ∃ c, convertOne g v = .ok c := by
  unfold convertOne
  simp only [predecessors, hv, ↓reduceIte, bind, Except.bind, pure, Except.pure]
  exact ⟨_, rfl⟩

theorem kept_eq (v : Var) (f : Iv → Bool) : (if v.isCf = true then v.ivs.filter f else []) = v.ivs.filter f := by
  split
  · rfl
  · rename_i h
    have hnil : v.ivs = [] := by simpa [Var.isCf] using h
    simp [hnil]

/-- the ctf-factor form only looks at the name and at the subscripts on parents -/
theorem convertOne_congr (g : MG Name) (v w : Var) (hname : w.name = v.name) (P : Name → Bool)
    (hivs : w.ivs = v.ivs.filter (fun i => P i.name))
    (hP : ∀ i ∈ v.ivs, g.DiEdge i.name v.name → P i.name = true) : convertOne g w = convertOne g v := by
  have hconv : ∀ cand, (∀ a ∈ cand, g.DiEdge a v.name) → convertIvs cand w = convertIvs cand v := by
    intro cand hcand
    unfold convertIvs
    simp only
    rw [kept_eq w, kept_eq v, hivs, List.filter_filter]
    have : v.ivs.filter (fun a => decide (a.name ∈ cand) && P a.name) = v.ivs.filter (fun i => decide (i.name ∈ cand)) := by
      apply List.filter_congr
      intro i hi
      by_cases hc : i.name ∈ cand
      · simp [hc, hP i hi (hcand _ hc)]
      · simp [hc]
    rw [this]
  unfold convertOne
  rw [hname]
  by_cases hv : v.name ∈ g.nodes
  · simp only [predecessors, hv, ↓reduceIte, bind, Except.bind, pure, Except.pure]
    rw [hconv (g.parents v.name) (fun a ha => (mem_parents g a v.name).1 ha)]
  · simp only [predecessors, hv, ↓reduceIte, bind, Except.bind]

/-- the subscripts of a ctf-factor form assign one value per parent -/
theorem convertOne_consistent (g : MG Name) (w c : Var) (h : convertOne g w = .ok c) (hw : ConsistentSubs w.ivs) :
    ConsistentSubs c.ivs := by
  obtain ⟨_, _, _, _, hmem⟩ := convertOne_spec' g w c h
  intro i hi j hj hij
  rcases ((hmem i).1 hi).2 with hiw | ⟨his, hino⟩
  · rcases ((hmem j).1 hj).2 with hjw | ⟨_, hjno⟩
    · exact hw i hiw j hjw hij
    · exact absurd hij (hjno i hiw)
  · rcases ((hmem j).1 hj).2 with hjw | ⟨hjs, _⟩
    · exact absurd hij.symm (hino j hjw)
    · cases i; cases j
      simp only at hij his hjs
      subst hij; subst his; subst hjs; rfl

/-! ### the items of the converted event -/

theorem convertEvent_mem (g : MG Name) (q ev : Event) (h : convertEvent g q = .ok ev) (c : Var) (x : Val) :
    (c, x) ∈ ev ↔ ∃ v, (v, x) ∈ q ∧ convertOne g v = .ok c := by
  unfold convertEvent at h
  rw [mapM_ok_mem _ _ _ h]
  constructor
  · rintro ⟨⟨v, y⟩, hp, hf⟩
    simp only [bind, Except.bind] at hf
    cases hm : convertOne g v with
    | error err => rw [hm] at hf; cases hf
    | ok c' =>
      rw [hm] at hf
      simp only [pure, Except.pure, Except.ok.injEq, Prod.mk.injEq] at hf
      obtain ⟨rfl, rfl⟩ := hf
      exact ⟨v, hp, hm⟩
  · rintro ⟨v, hp, hm⟩
    exact ⟨(v, x), hp, by simp [bind, Except.bind, hm, pure, Except.pure]⟩

end Y0.Ctf
