/-
  Y0.Lemmas.CtfTrCondJSimplify — the converse direction of `simplify_output`: SIMPLIFY loses no variable.  Every variable
  `v` of the input event survives in the returned event as its minimised copy `‖v‖` (for events without a self-intervened
  variable; a self-intervened `Y_y` is stored under its base variable `Y`).

    `simplify_vars_cover`   `simplify g e = some ev`, no `p ∈ e` self-intervened ⟹ for every `p ∈ e` the variable
                            `‖p.1‖` is a variable of `ev`.
-/
import Y0.Lemmas.CtfTrSimplify

namespace Y0.CtfTr
open Ctf Relation Y0.MG

/-- `k in d` for the dictionary `d` -/
def HasKeyJ (m : VMap) (k : Var) : Prop := k ∈ m.map (·.1)

theorem hasKeyJ_iff (m : VMap) (k : Var) : HasKeyJ m k ↔ ∃ vals, (k, vals) ∈ m := by
  unfold HasKeyJ
  rw [List.mem_map]
  constructor
  · rintro ⟨⟨k', vals⟩, hp, rfl⟩; exact ⟨vals, hp⟩
  · rintro ⟨vals, hp⟩; exact ⟨(k, vals), hp, rfl⟩

theorem hasKeyJ_add (m : VMap) (k' : Var) (x : Ctf.Val) (k : Var) :
    HasKeyJ (VMap.add m k' x) k ↔ HasKeyJ m k ∨ k = k' := by
  unfold HasKeyJ
  rw [keys_add]
  split
  · rename_i hex
    simp only [List.any_eq_true, decide_eq_true_eq] at hex
    obtain ⟨q, hq, hqk⟩ := hex
    constructor
    · exact Or.inl
    · rintro (h | rfl)
      · exact h
      · exact List.mem_map.2 ⟨q, hq, hqk⟩
  · simp

theorem hasKeyJ_foldl_add (E : Event) (m : VMap) (k : Var) :
    HasKeyJ (E.foldl (fun m p => VMap.add m p.1 p.2) m) k ↔ HasKeyJ m k ∨ ∃ p ∈ E, p.1 = k := by
  induction E generalizing m with
  | nil => simp
  | cons p E ih =>
    simp only [List.foldl_cons, ih, hasKeyJ_add, List.mem_cons]
    constructor
    · rintro ((h | rfl) | ⟨q, hq, rfl⟩)
      · exact Or.inl h
      · exact Or.inr ⟨p, Or.inl rfl, rfl⟩
      · exact Or.inr ⟨q, Or.inr hq, rfl⟩
    · rintro (h | ⟨q, (rfl | hq), rfl⟩)
      · exact Or.inl (Or.inl h)
      · exact Or.inl (Or.inr rfl)
      · exact Or.inr ⟨q, hq, rfl⟩

theorem hasKeyJ_foldl_add_key (xs : List Ctf.Val) (m : VMap) (k' k : Var) (h : HasKeyJ m k) :
    HasKeyJ (xs.foldl (fun m x => VMap.add m k' x) m) k := by
  induction xs generalizing m with
  | nil => exact h
  | cons x xs ih => exact ih _ ((hasKeyJ_add m k' x k).2 (Or.inl h))

theorem hasKeyJ_update (m : VMap) (k' : Var) (xs : List Ctf.Val) (k : Var) (h : HasKeyJ m k ∨ k = k') :
    HasKeyJ (VMap.update m k' xs) k := by
  unfold VMap.update
  split
  · rename_i hex
    apply hasKeyJ_foldl_add_key
    rcases h with h | rfl
    · exact h
    · simp only [List.any_eq_true, decide_eq_true_eq] at hex
      obtain ⟨q, hq, hqk⟩ := hex
      exact List.mem_map.2 ⟨q, hq, hqk⟩
  · unfold HasKeyJ at *
    simp only [List.map_append, List.map_cons, List.map_nil, List.mem_append, List.mem_singleton]
    exact h

/-- `_remove_repeated_variables_and_values` keeps every variable of the event as a key -/
theorem removeRepeated_hasKeyJ (E : Event) (k : Var) (x : Ctf.Val) (h : (k, x) ∈ E) : HasKeyJ (removeRepeated E) k := by
  have h0 : HasKeyJ (E.foldl (fun m p => VMap.add m p.1 p.2) []) k :=
    (hasKeyJ_foldl_add E [] k).2 (Or.inr ⟨(k, x), h, rfl⟩)
  obtain ⟨vals, hv⟩ := (hasKeyJ_iff _ k).1 h0
  unfold removeRepeated
  simp only
  apply List.mem_map.2
  refine ⟨_, List.mem_map.2 ⟨(k, vals), hv, rfl⟩, ?_⟩
  split <;> rfl

theorem reduceKeyed_hasKeyJ (m r : VMap) (k : Var) (h : HasKeyJ r k ∨ ∃ p ∈ m, rkey p.1 = k) :
    HasKeyJ (reduceKeyed m r) k := by
  unfold reduceKeyed
  induction m generalizing r with
  | nil =>
    rcases h with h | ⟨p, hp, _⟩
    · exact h
    · cases hp
  | cons a m ih =>
    simp only [List.foldl_cons]
    apply ih
    rcases h with h | ⟨p, hp, hk⟩
    · exact Or.inl (hasKeyJ_update r _ a.2 k (Or.inl h))
    · rcases List.mem_cons.1 hp with rfl | hp
      · exact Or.inl (hasKeyJ_update r _ p.2 k (Or.inr hk.symm))
      · exact Or.inr ⟨p, hp, hk⟩

theorem mapM_ok_total_j {α β : Type} (f : α → Except Err β) (l : List α) (r : List β) (h : l.mapM f = .ok r) :
    ∀ a ∈ l, ∃ b, f a = .ok b ∧ b ∈ r := by
  induction l generalizing r with
  | nil => intro a ha; cases ha
  | cons x xs ih =>
    simp only [List.mapM_cons, bind, Except.bind] at h
    cases hx : f x with
    | error e => rw [hx] at h; cases h
    | ok y =>
      rw [hx] at h
      simp only at h
      cases hxs : xs.mapM f with
      | error e => rw [hxs] at h; cases h
      | ok ys =>
        rw [hxs] at h
        simp only [pure, Except.pure, Except.ok.injEq] at h
        subst h
        intro a ha
        rcases List.mem_cons.1 ha with rfl | ha
        · exact ⟨y, hx, by simp⟩
        · obtain ⟨b, hb, hbr⟩ := ih ys hxs a ha
          exact ⟨b, hb, by simp [hbr]⟩

/-- the final comprehension keeps every key -/
theorem popAll_hasKeyJ (m : VMap) (e : Event) (h : popAll m = .ok e) (k : Var) (hk : HasKeyJ m k) :
    ∃ x, (k, x) ∈ e := by
  obtain ⟨vals, hv⟩ := (hasKeyJ_iff m k).1 hk
  unfold popAll at h
  obtain ⟨b, hb, hbe⟩ := mapM_ok_total_j _ m e h (k, vals) hv
  cases vals with
  | nil => simp only at hb; cases hb
  | cons y rest =>
    simp only [pure, Except.pure, Except.ok.injEq] at hb
    subst hb
    exact ⟨y, hbe⟩

/-- minimisation does not create a self-intervention -/
theorem minimize_not_self (g : MG Name) (v k : Var) (hm : minimize g v = .ok k) (hs : selfIntervened v = false) :
    selfIntervened k = false := by
  obtain ⟨hn, _, hsub, _, _⟩ := minimize_wf g v k hm
  simp only [selfIntervened, List.any_eq_false, beq_iff_eq] at hs ⊢
  intro i hi
  rw [hn]
  exact hs i (hsub i hi)

/-- **SIMPLIFY loses no variable**: every variable of the input event occurs, minimised, in the returned event -/
theorem simplify_vars_cover (g : MG Name) (e ev : Event) (hs : simplify g e = .ok (some ev))
    (hrefl : ∀ p ∈ e, selfIntervened p.1 = false) :
    ∀ p ∈ e, ∃ k, minimize g p.1 = .ok k ∧ ∃ x, (k, x) ∈ ev := by
  have h := hs
  unfold simplify at h
  split at h
  · simp [bind, Except.bind, throw, throwThe, MonadExceptOf.throw] at h
  simp only [bind, Except.bind] at h
  cases hme : minimizeEvent g e with
  | error err => rw [hme] at h; cases h
  | ok me =>
    rw [hme] at h
    simp only at h
    have hmem := minimizeEvent_mem g e me hme
    -- every input variable has its minimised copy in `me`
    have hcov : ∀ p ∈ e, ∃ k, minimize g p.1 = .ok k ∧ (k, p.2) ∈ me := by
      intro p hp
      have hme' := hme
      unfold minimizeEvent at hme'
      obtain ⟨b, hb, hbe⟩ := mapM_ok_total_j _ e me hme' p hp
      simp only [bind, Except.bind] at hb
      cases hm : minimize g p.1 with
      | error err => rw [hm] at hb; cases hb
      | ok k =>
        rw [hm] at hb
        simp only [pure, Except.pure, Except.ok.injEq] at hb
        subst hb
        exact ⟨k, rfl, hbe⟩
    unfold simplifyCore at h
    simp only [bind, Except.bind] at h
    cases h1 : anyInconsistent (removeRepeated (splitReflexive me).2) (removeRepeated (splitReflexive me).1) with
    | error err => rw [h1] at h; cases h
    | ok b1 =>
      rw [h1] at h
      cases b1 with
      | true => simp [pure, Except.pure] at h
      | false =>
        simp only [Bool.false_eq_true, ↓reduceIte] at h
        cases hr : reduceReflexive (removeRepeated (splitReflexive me).1) with
        | error err => rw [hr] at h; cases h
        | ok R' =>
          rw [hr] at h
          simp only at h
          have hR' := reduceReflexive_eq _ R' hr
          subst hR'
          cases h2 : anyInconsistent (removeRepeated (splitReflexive me).2)
              (dropNone (reduceKeyed (removeRepeated (splitReflexive me).1) [])) with
          | error err => rw [h2] at h; cases h
          | ok b2 =>
            rw [h2] at h
            cases b2 with
            | true => simp [pure, Except.pure] at h
            | false =>
              simp only [Bool.false_eq_true, ↓reduceIte] at h
              cases ha : popAll (removeRepeated (splitReflexive me).2) with
              | error err => rw [ha] at h; cases h
              | ok a =>
                rw [ha] at h
                cases hb : popAll (dropNone (reduceKeyed (removeRepeated (splitReflexive me).1) [])) with
                | error err => rw [hb] at h; cases h
                | ok b =>
                  rw [hb] at h
                  simp only [pure, Except.pure, Except.ok.injEq, Option.some.injEq] at h
                  subst h
                  intro p hp
                  obtain ⟨k, hmk, hkme⟩ := hcov p hp
                  refine ⟨k, hmk, ?_⟩
                  have hks : selfIntervened k = false := minimize_not_self g p.1 k hmk (hrefl p hp)
                  by_cases hcf : k.isCf = true
                  · have hin : (k, p.2) ∈ (splitReflexive me).2 := by
                      unfold splitReflexive
                      simp only [List.mem_filter, Bool.and_eq_true, Bool.not_eq_eq_eq_not, Bool.not_true]
                      exact ⟨hkme, hcf, hks⟩
                    obtain ⟨x, hx⟩ := popAll_hasKeyJ _ a ha k (removeRepeated_hasKeyJ _ k p.2 hin)
                    exact ⟨x, List.mem_append_left _ hx⟩
                  · have hcf' : k.isCf = false := by simpa using hcf
                    have hin : (k, p.2) ∈ (splitReflexive me).1 := by
                      unfold splitReflexive
                      simp only [List.mem_filter, Bool.or_eq_true, Bool.and_eq_true, Bool.not_eq_eq_eq_not,
                        Bool.not_true]
                      exact ⟨hkme, Or.inr hcf'⟩
                    have hkey := removeRepeated_hasKeyJ _ k p.2 hin
                    obtain ⟨vals, hv⟩ := (hasKeyJ_iff _ k).1 hkey
                    have hrk : rkey k = k := by simp [rkey, hcf']
                    obtain ⟨x, hx⟩ := popAll_hasKeyJ _ b hb k (by
                      obtain ⟨vals', hv'⟩ := (hasKeyJ_iff _ k).1
                        (reduceKeyed_hasKeyJ _ [] k (Or.inr ⟨(k, vals), hv, hrk⟩))
                      obtain ⟨p', hp', hk', _⟩ := dropNone_of_mem _ (k, vals') hv'
                      simp only at hk'
                      exact (hasKeyJ_iff _ k).2 ⟨p'.2, by rw [← hk']; exact hp'⟩)
                    exact ⟨x, List.mem_append_right _ hx⟩

end Y0.CtfTr
