/-
  Y0.Lemmas.SepCI — the vocabulary of C15 (`Cand`, `GoodTest`) and the facts about the enumeration before `minimal`:
  every enumerated judgement is a canonical separation within the limit (`pureSeps_sound`); every separable pair is
  enumerated with a set no larger than any given separating set (`pureSeps_complete`).
-/
import Y0.Lemmas.SepMinimal
import Y0.Props.C04

namespace Y0
open List

/-- an admissible conditioning set for the pair `(a, b)`: other vertices, no repetition, at most `k` of them -/
def Cand (V : List Nat) (a b : Nat) (k : Option Nat) (C : List Nat) : Prop :=
  C.Nodup ∧ (∀ c ∈ C, c ∈ V ∧ c ≠ a ∧ c ≠ b) ∧ ∀ kk, k = some kk → C.length ≤ kk

/-- what the theorems assume about the separation test -/
structure GoodTest (sep : Nat → Nat → List Nat → Except Err Bool) (s : Nat → Nat → List Nat → Bool)
    (V : List Nat) : Prop where
  agrees : ∀ a b C, QueryOn V a b C → sep a b C = .ok (s a b C)
  symm : ∀ a b C, s a b C = s b a C
  set_valued : ∀ a b C C', (∀ x, x ∈ C ↔ x ∈ C') → s a b C = s a b C'

/-! ## 1. the enumeration before `minimal` -/

theorem dedupP_of_nodup {α : Type} [DecidableEq α] (l : List α) (h : l.Nodup) : dedup' l = l := by
  induction l with
  | nil => rfl
  | cons x xs ih =>
    rw [List.nodup_cons] at h
    simp only [dedup', ih h.2]
    congr 1
    apply List.filter_eq_self.2
    intro y hy
    simp only [decide_eq_true_eq]
    rintro rfl; exact h.1 hy

theorem create_fields_nodup (a b : Nat) (c : List Nat) (hc : c.Nodup) :
    (Judgement.create a b c true).conditions.length = c.length ∧
    (∀ x, x ∈ (Judgement.create a b c true).conditions ↔ x ∈ c) ∧
    (Judgement.create a b c true).conditions.Nodup := by
  simp only [Judgement.create, dedupP_of_nodup c hc]
  exact ⟨(sortLe_perm c).length_eq, fun x => mem_sortLe, sortLe_nodup c hc⟩

theorem mem_pureSeps {s : Nat → Nat → List Nat → Bool} {V : List Nat} {maxC : Option Nat} {ra : Bool}
    {j : Judgement} : j ∈ pureSeps s V maxC ra ↔
      ∃ p ∈ MG.pairs V, ∃ c ∈ hitsOf s V maxC ra p, j = Judgement.create p.1 p.2 c true := by
  simp only [pureSeps, List.mem_flatMap, List.mem_map]
  constructor
  · rintro ⟨p, hp, c, hc, rfl⟩; exact ⟨p, hp, c, hc, rfl⟩
  · rintro ⟨p, hp, c, hc, rfl⟩; exact ⟨p, hp, c, hc, rfl⟩

theorem hit_facts {s : Nat → Nat → List Nat → Bool} {V : List Nat} (hV : V.Nodup) {maxC : Option Nat} {ra : Bool}
    {p : Nat × Nat} {c : List Nat} (hc : c ∈ hitsOf s V maxC ra p) :
    c.Nodup ∧ (∀ x ∈ c, x ∈ V ∧ x ≠ p.1 ∧ x ≠ p.2) ∧ (∀ kk, maxC = some kk → c.length ≤ kk) ∧
      s p.1 p.2 c = true := by
  obtain ⟨hmem, ht⟩ := mem_pureHits hc
  obtain ⟨hsub, hlen⟩ := (mem_powerset _ _ _).1 hmem
  refine ⟨hsub.nodup (hV.filter _), fun x hx => mem_restOf.1 (hsub.subset hx), ?_, ht⟩
  intro kk hk
  subst hk
  simp only [stopOf, stopBound] at hlen
  omega

/-- every enumerated judgement is a canonical true separation within the limit -/
theorem pureSeps_sound {sep : Nat → Nat → List Nat → Except Err Bool} {s : Nat → Nat → List Nat → Bool}
    {V : List Nat} (hV : V.Nodup) (ht : GoodTest sep s V) {maxC : Option Nat} {ra : Bool} {j : Judgement}
    (hj : j ∈ pureSeps s V maxC ra) :
    j.separated = true ∧ j.left < j.right ∧ j.left ∈ V ∧ j.right ∈ V ∧ Cand V j.left j.right maxC j.conditions ∧
      s j.left j.right j.conditions = true ∧ j.isCanonical = true := by
  obtain ⟨p, hp, c, hc, rfl⟩ := mem_pureSeps.1 hj
  obtain ⟨hcn, hcm, hck, hcs⟩ := hit_facts hV hc
  have hp' : (p.1, p.2) ∈ MG.pairs V := hp
  have hne : p.1 ≠ p.2 := pairs_ne hV hp'
  obtain ⟨hp1, hp2⟩ := MG.mem_pairs_sub hp'
  obtain ⟨hlen, hmem, hnd⟩ := create_fields_nodup p.1 p.2 c hcn
  have hset : s p.1 p.2 (Judgement.create p.1 p.2 c true).conditions = true := by
    rw [ht.set_valued p.1 p.2 _ c hmem]; exact hcs
  refine ⟨rfl, ?_, ?_, ?_, ⟨hnd, ?_, ?_⟩, ?_, judgement_canonical p.1 p.2 c true hne⟩
  · simp only [Judgement.create]; split <;> omega
  · simp only [Judgement.create]; split <;> assumption
  · simp only [Judgement.create]; split <;> assumption
  · intro x hx
    have := hcm x ((hmem x).1 hx)
    simp only [Judgement.create]
    split <;> exact ⟨this.1, by tauto, by tauto⟩
  · intro kk hk; rw [hlen]; exact hck kk hk
  · by_cases hle : p.1 ≤ p.2
    · simpa [Judgement.create, hle] using hset
    · rw [ht.symm] at hset
      simpa [Judgement.create, hle] using hset

/-- every separable pair is enumerated, with a set no larger than any given separating set within the limit -/
theorem pureSeps_complete {sep : Nat → Nat → List Nat → Except Err Bool} {s : Nat → Nat → List Nat → Bool}
    {V : List Nat} (hV : V.Nodup) (ht : GoodTest sep s V) (maxC : Option Nat) (ra : Bool) {a b : Nat}
    (ha : a ∈ V) (hb : b ∈ V) (hab : a < b) {C : List Nat} (hC : Cand V a b maxC C) (hs : s a b C = true) :
    ∃ j ∈ pureSeps s V maxC ra, keyOf j = (a, b) ∧ j.conditions.length ≤ C.length := by
  obtain ⟨hCn, hCm, hCk⟩ := hC
  -- the pair as `combinations(vertices, 2)` produces it
  obtain ⟨p, hp, hpab⟩ : ∃ p ∈ MG.pairs V, (p = (a, b) ∨ p = (b, a)) := by
    rcases MG.mem_pairs_of_mem ha hb (Nat.ne_of_lt hab) with h | h
    · exact ⟨(a, b), h, Or.inl rfl⟩
    · exact ⟨(b, a), h, Or.inr rfl⟩
  have hrest : ∀ x, x ∈ restOf V p ↔ x ∈ V ∧ x ≠ a ∧ x ≠ b := by
    intro x; rw [mem_restOf]
    rcases hpab with rfl | rfl <;> simp only <;> tauto
  -- the same set, listed in vertex order
  set C' := (restOf V p).filter (· ∈ C) with hC'
  have hC'mem : ∀ x, x ∈ C' ↔ x ∈ C := by
    intro x
    simp only [hC', List.mem_filter, decide_eq_true_eq, hrest]
    constructor
    · exact fun h => h.2
    · exact fun h => ⟨hCm x h, h⟩
  have hC'sub : C' <+ restOf V p := List.filter_sublist
  have hC'nd : C'.Nodup := hC'sub.nodup (hV.filter _)
  have hC'len : C'.length = C.length :=
    ((List.perm_ext_iff_of_nodup hC'nd hCn).2 hC'mem).length_eq
  have hin : C' ∈ powerset (restOf V p) 0 (stopOf maxC) := by
    rw [mem_powerset]
    refine ⟨hC'sub, ?_⟩
    cases maxC with
    | none => simp only [stopOf, stopBound]; have := hC'sub.length_le; omega
    | some kk => simp only [stopOf, stopBound]; have := hCk kk rfl; omega
  have hsC' : s p.1 p.2 C' = true := by
    rw [ht.set_valued p.1 p.2 C' C hC'mem]
    rcases hpab with rfl | rfl
    · exact hs
    · simpa [ht.symm b a C] using hs
  obtain ⟨c', hc', hle⟩ := pureHits_min ra (powerset_sorted (restOf V p) (stopOf maxC)) hin hsC'
  have hc'nd : c'.Nodup := (hit_facts (s := s) (maxC := maxC) (ra := ra) hV hc').1
  refine ⟨Judgement.create p.1 p.2 c' true, mem_pureSeps.2 ⟨p, hp, c', hc', rfl⟩, ?_, ?_⟩
  · rcases hpab with rfl | rfl
    · simp [keyOf, Judgement.create, Nat.le_of_lt hab]
    · simp [keyOf, Judgement.create, Nat.not_le.2 hab]
  · rw [(create_fields_nodup p.1 p.2 c' hc'nd).1]; omega

end Y0
