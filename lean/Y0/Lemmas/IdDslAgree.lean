/-
  Y0.Lemmas.IdDslAgree — the two models of the DSL constructors agree.

  The `id` family models the constructors ID / IDC use in Y0/Model/IdDsl.lean (sort keys as flat token lists); the
  `expr` family models the whole DSL in Y0/Model/Dsl.lean (sort keys as nested tuples).  This file proves that they are
  the same functions on every expression Python can construct (`KeyOk`: a probability has at least one child, a
  Q-factor a non-empty domain and codomain — `Distribution.__post_init__` / `QFactor` enforce it):

    `exprLt_eq_ltE`        `IdDsl.exprLt a b = Expr.ltE a b`                     (`Expression.__lt__`)
    `productSafe_agree`    `IdDsl.productSafe es = Y0.productSafe es`            (`Product.safe`)
    `sumSafe_agree`        `IdDsl.sumSafe e r = Y0.sumSafe0 e (r.map Var.plain)` (`Sum.safe`, simplify=False)
    `mul_agree`, `div_agree`, `normalizeMarginalize_agree`                       (`__mul__`, `__truediv__`, …)

  Part 1 is the general fact behind the flat keys: with `close` the least token, the lexicographic order of the
  flattened token lists is the lexicographic order of nested tuples of equal shape.
-/
import Y0.Model.IdDsl
import Y0.Model.Dsl
import Mathlib.Data.List.Basic

namespace Y0
namespace IdAux
open IdDsl

/-! ### 1. flat keys versus nested keys -/

/-- three-way comparison of tokens (`Tok.lt` is its `lt` part) -/
def tokCmp : Tok → Tok → Ordering
  | .close, .close => .eq
  | .close, _ => .lt
  | _, .close => .gt
  | .opn, .opn => .eq
  | .opn, _ => .lt
  | _, .opn => .gt
  | .int a, .int b => compare a b
  | .int _, .str _ => .lt
  | .str _, .int _ => .gt
  | .str a, .str b => compare a b

/-- three-way lexicographic comparison of token lists (`keyLt` is its `lt` part) -/
def keyCmp : List Tok → List Tok → Ordering
  | [], [] => .eq
  | [], _ :: _ => .lt
  | _ :: _, [] => .gt
  | a :: as, b :: bs => (tokCmp a b).then (keyCmp as bs)

theorem tokCmp_eq_iff (a b : Tok) : tokCmp a b = .eq ↔ a = b := by
  cases a <;> cases b <;> simp [tokCmp]

theorem tokLt_eq (a b : Tok) : a.lt b = decide (tokCmp a b = .lt) := by
  cases a <;> cases b <;> simp [Tok.lt, tokCmp, Nat.compare_eq_lt]

theorem keyLt_eq (x y : List Tok) : keyLt x y = decide (keyCmp x y = .lt) := by
  induction x generalizing y with
  | nil => cases y <;> simp [keyLt, keyCmp]
  | cons a as ih =>
    cases y with
    | nil => simp [keyLt, keyCmp]
    | cons b bs =>
      simp only [keyLt, keyCmp]
      by_cases h : a = b
      · subst h
        have : tokCmp a a = .eq := (tokCmp_eq_iff a a).2 rfl
        simp [this, ih, Ordering.then]
      · have hne : tokCmp a b ≠ .eq := fun e => h ((tokCmp_eq_iff a b).1 e)
        simp only [h, if_false, tokLt_eq]
        have h3 : tokCmp a b = .lt ∨ tokCmp a b = .gt := by
          cases hc : tokCmp a b
          · exact Or.inl rfl
          · exact absurd hc hne
          · exact Or.inr rfl
        rcases h3 with h3 | h3 <;> simp [h3, Ordering.then]

/-- a key without terminator compares like the key with the least token appended -/
theorem keyCmp_close (x y : List Tok) : keyCmp (x ++ [.close]) (y ++ [.close]) = keyCmp x y := by
  induction x generalizing y with
  | nil =>
    cases y with
    | nil => simp [keyCmp, tokCmp, Ordering.then]
    | cons b bs =>
      cases b <;> simp [keyCmp, tokCmp, Ordering.then]
      · cases bs <;> simp [keyCmp]
  | cons a as ih =>
    cases y with
    | nil =>
      cases a <;> simp [keyCmp, tokCmp, Ordering.then]
      · cases as <;> simp [keyCmp]
    | cons b bs => simp [keyCmp, ih]

/-- `tas`, `tbs` flatten the key lists `as`, `bs` (tuples bracketed by `opn … close`, atoms as single tokens compared
like the atoms), as far as the comparison of `as` and `bs` looks: once a component decides, the rest is unconstrained -/
inductive KRelL : List Key → List Key → List Tok → List Tok → Prop
  | nil : KRelL [] [] [] []
  | nilL (b : Key) (bs : List Key) (u : Tok) (us : List Tok) : u ≠ .close → KRelL [] (b :: bs) [] (u :: us)
  | nilR (a : Key) (as : List Key) (t : Tok) (ts : List Tok) : t ≠ .close → KRelL (a :: as) [] (t :: ts) []
  | consAtom (i j : Int) (s t : Tok) (as bs : List Key) (tas tbs : List Tok) :
      tokCmp s t = compare i j → (compare i j = .eq → KRelL as bs tas tbs) →
      KRelL (.atom i :: as) (.atom j :: bs) (s :: tas) (t :: tbs)
  | consTup (xs ys : List Key) (txs tys : List Tok) (as bs : List Key) (tas tbs : List Tok) :
      KRelL xs ys txs tys → (Key.cmpList xs ys = .eq → KRelL as bs tas tbs) →
      KRelL (.tup xs :: as) (.tup ys :: bs) (.opn :: txs ++ .close :: tas) (.opn :: tys ++ .close :: tbs)

/-- **flattening preserves the order**: comparing the flattened lists (followed by the closing token and anything)
is comparing the key lists, then the rest -/
theorem KRelL.cmp {as bs : List Key} {tas tbs : List Tok} (h : KRelL as bs tas tbs) :
    ∀ r1 r2 : List Tok, keyCmp (tas ++ .close :: r1) (tbs ++ .close :: r2) = (Key.cmpList as bs).then (keyCmp r1 r2) := by
  induction h with
  | nil => intro r1 r2; simp [keyCmp, tokCmp, Key.cmpList, Ordering.then]
  | nilL b bs u us hu =>
    intro r1 r2
    have : tokCmp .close u = .lt := by cases u <;> simp_all [tokCmp]
    simp [keyCmp, this, Key.cmpList, Ordering.then]
  | nilR a as t ts ht =>
    intro r1 r2
    have : tokCmp t .close = .gt := by cases t <;> simp_all [tokCmp]
    simp [keyCmp, this, Key.cmpList, Ordering.then]
  | consAtom i j s t as bs tas tbs hst _ ih =>
    intro r1 r2
    simp only [List.cons_append, keyCmp, Key.cmpList, Key.cmp, hst]
    cases hc : compare i j with
    | lt => simp [Ordering.then]
    | gt => simp [Ordering.then]
    | eq => simpa [Ordering.then] using ih hc r1 r2
  | consTup xs ys txs tys as bs tas tbs _ _ ih1 ih2 =>
    intro r1 r2
    have e1 : (Tok.opn :: txs ++ Tok.close :: tas) ++ Tok.close :: r1 =
        Tok.opn :: (txs ++ Tok.close :: (tas ++ Tok.close :: r1)) := by simp
    have e2 : (Tok.opn :: tys ++ Tok.close :: tbs) ++ Tok.close :: r2 =
        Tok.opn :: (tys ++ Tok.close :: (tbs ++ Tok.close :: r2)) := by simp
    rw [e1, e2]
    simp only [keyCmp, tokCmp, Ordering.then, Key.cmpList, Key.cmp]
    rw [ih1]
    cases hc : Key.cmpList xs ys with
    | lt => simp [Ordering.then]
    | gt => simp [Ordering.then]
    | eq => simpa [Ordering.then] using ih2 hc r1 r2

/-- the comparison of two flattened keys is the comparison of the nested ones -/
theorem KRelL.keyLt {as bs : List Key} {tas tbs : List Tok} (h : KRelL as bs tas tbs) :
    keyLt tas tbs = Key.lt (.tup as) (.tup bs) := by
  have h1 := h.cmp [] []
  have h2 := keyCmp_close tas tbs
  rw [keyLt_eq, ← h2, h1]
  unfold Key.lt
  simp only [Key.cmp]
  cases Key.cmpList as bs <;> simp [keyCmp, Ordering.then]

/-! ### 2. the keys of variables -/

theorem cmp_cast (n m : Nat) : compare (n : Int) (m : Int) = compare n m := by
  rcases Nat.lt_trichotomy n m with h | h | h
  · have h' : (n : Int) < (m : Int) := by omega
    simp [compare, compareOfLessAndEq, h, h']
  · subst h
    simp [compare, compareOfLessAndEq]
  · have h1 : ¬ (n : Int) < (m : Int) := by omega
    have h2 : ¬ (n : Int) = (m : Int) := by omega
    have h3 : ¬ n < m := by omega
    have h4 : ¬ n = m := by omega
    simp [compare, compareOfLessAndEq, h1, h2, h3, h4]

theorem tup_append (l r : List Tok) : tup l ++ r = .opn :: l ++ .close :: r := by simp [tup]

theorem tokCmp_name (n m : Name) : tokCmp (.str n) (.str m) = compare ((n : Nat) : Int) ((m : Nat) : Int) := by
  rw [cmp_cast]; rfl

/-- the token of a star mark (`none`, `some false`, `some true` as 0, 1, 2) -/
def starTok (s : Option Bool) : Nat := match s with | none => 0 | some false => 1 | some true => 2

theorem tokCmp_star (s s' : Option Bool) : tokCmp (.int (starTok s)) (.int (starTok s')) = compare (starCode s) (starCode s') := by
  rcases s with _ | _ | _ <;> rcases s' with _ | _ | _ <;> decide

theorem tokCmp_bool (b b' : Bool) :
    tokCmp (.int (if b then 1 else 0)) (.int (if b' then 1 else 0)) = compare (if b then (1 : Int) else 0) (if b' then (1 : Int) else 0) := by
  cases b <;> cases b' <;> decide

def ivKey (i : Iv) : Key := .tup [.atom i.name, .atom (if i.star then 1 else 0)]
def ivTok (i : Iv) : List Tok := tup [.str i.name, .int (if i.star then 1 else 0)]

theorem ivs_rel : ∀ (is js : List Iv), KRelL (is.map ivKey) (js.map ivKey) (is.flatMap ivTok) (js.flatMap ivTok) := by
  intro is
  induction is with
  | nil =>
    intro js
    cases js with
    | nil => exact .nil
    | cons j js =>
      simp only [List.map_nil, List.map_cons, List.flatMap_nil, List.flatMap_cons, ivTok, tup_append]
      exact .nilL _ _ _ _ (by simp)
  | cons i is ih =>
    intro js
    cases js with
    | nil =>
      simp only [List.map_nil, List.map_cons, List.flatMap_nil, List.flatMap_cons, ivTok, tup_append]
      exact .nilR _ _ _ _ (by simp)
    | cons j js =>
      simp only [List.map_cons, List.flatMap_cons, ivTok, tup_append, ivKey]
      refine .consTup _ _ _ _ _ _ _ _ ?_ (fun _ => ih js)
      exact .consAtom _ _ _ _ _ _ _ _ (tokCmp_name _ _) (fun _ =>
        .consAtom _ _ _ _ _ _ _ _ (tokCmp_bool _ _) (fun _ => .nil))

/-- the components of `Var.totalKey` and the tokens of `varKey` between its brackets -/
def varComps (v : Var) : List Key :=
  [.atom v.name, .atom (starCode v.star), .atom (if v.isIv then 1 else 0), .tup (v.ivs.map ivKey)]
def varToks (v : Var) : List Tok :=
  [.str v.name, .int (starTok v.star), .int (if v.isIv then 1 else 0)] ++ tup (v.ivs.flatMap ivTok)

theorem totalKey_eq (v : Var) : v.totalKey = .tup (varComps v) := rfl
theorem varKey_eq (v : Var) : varKey v = tup (varToks v) := by
  unfold varKey varToks starTok ivTok
  rcases v.star with _ | _ | _ <;> rfl

theorem var_rel (v w : Var) : KRelL (varComps v) (varComps w) (varToks v) (varToks w) := by
  unfold varComps varToks
  simp only [List.cons_append, List.nil_append]
  refine .consAtom _ _ _ _ _ _ _ _ (tokCmp_name _ _) (fun _ => ?_)
  refine .consAtom _ _ _ _ _ _ _ _ (tokCmp_star _ _) (fun _ => ?_)
  refine .consAtom _ _ _ _ _ _ _ _ (tokCmp_bool _ _) (fun _ => ?_)
  have := KRelL.consTup _ _ _ _ [] [] [] [] (ivs_rel v.ivs w.ivs) (fun _ => .nil)
  simpa [tup] using this

theorem vars_rel : ∀ (vs ws : List Var),
    KRelL (vs.map Var.totalKey) (ws.map Var.totalKey) (vs.flatMap varKey) (ws.flatMap varKey) := by
  intro vs
  induction vs with
  | nil =>
    intro ws
    cases ws with
    | nil => exact .nil
    | cons w ws =>
      simp only [List.map_nil, List.map_cons, List.flatMap_nil, List.flatMap_cons, varKey_eq, tup_append]
      exact .nilL _ _ _ _ (by simp)
  | cons v vs ih =>
    intro ws
    cases ws with
    | nil =>
      simp only [List.map_nil, List.map_cons, List.flatMap_nil, List.flatMap_cons, varKey_eq, tup_append]
      exact .nilR _ _ _ _ (by simp)
    | cons w ws =>
      simp only [List.map_cons, List.flatMap_cons, varKey_eq, tup_append, totalKey_eq]
      exact .consTup _ _ _ _ _ _ _ _ (var_rel v w) (fun _ => ih ws)

/-! ### 3. the keys of expressions -/

mutual
/-- expressions Python can construct: a probability has a child, a Q-factor a non-empty domain and codomain -/
def KeyOk : Expr → Prop
  | .prob _ c _ => c ≠ []
  | .q d c => d ≠ [] ∧ c ≠ []
  | .sum e _ => KeyOk e
  | .frac n d => KeyOk n ∧ KeyOk d
  | .prod fs => KeyOkL fs
  | .one => True
  | .zero => True
def KeyOkL : List Expr → Prop
  | [] => True
  | e :: es => KeyOk e ∧ KeyOkL es
end

/-- the components of `Expr.key` -/
def exprComps : Expr → List Key
  | .prob none c p => [.atom 0, firstNameKey c, .tup (c.map Var.totalKey), .tup (p.map Var.totalKey)]
  | .prob (some pop) c p =>
      [.atom (-1), pop.totalKey, firstNameKey c, .tup (c.map Var.totalKey), .tup (p.map Var.totalKey)]
  | .prod fs => .atom 2 :: Expr.keyList fs
  | .sum e r => [.atom 1, Expr.key e, .tup (r.map Var.totalKey)]
  | .frac n d => [.atom 3, Expr.key n, Expr.key d]
  | .one => [.atom 4, .atom 1]
  | .zero => [.atom 4, .atom 0]
  | .q d c => [.atom (-5), minNameKey d, minNameKey c, .tup (d.map Var.totalKey), .tup (c.map Var.totalKey)]

theorem key_eq (e : Expr) : e.key = .tup (exprComps e) := by
  cases e with
  | prob pop c p => cases pop <;> simp [Expr.key, exprComps]
  | _ => simp [Expr.key, exprComps]

/-- the leading tag token of `keyOf` -/
def tagOf : Expr → Nat
  | .prob none _ _ => 5
  | .prob (some _) _ _ => 4
  | .sum _ _ => 6
  | .prod _ => 7
  | .frac _ _ => 8
  | .one => 9
  | .zero => 9
  | .q _ _ => 0

theorem comps_split (e : Expr) : exprComps e = .atom ((tagOf e : Int) - 5) :: (exprComps e).tail := by
  cases e with
  | prob pop c p => cases pop <;> simp [exprComps, tagOf]
  | _ => simp [exprComps, tagOf]

theorem toks_split (e : Expr) : keyOf e = .int (tagOf e) :: (keyOf e).tail := by
  cases e with
  | prob pop c p => cases pop <;> simp [keyOf, tagOf, tagPP]
  | _ => simp [keyOf, tagOf, tagQ]

theorem tokCmp_tag (n m : Nat) : tokCmp (.int n) (.int m) = compare ((n : Int) - 5) ((m : Int) - 5) := by
  have : compare ((n : Int) - 5) ((m : Int) - 5) = compare (n : Int) (m : Int) := by
    rcases Nat.lt_trichotomy n m with h | h | h
    · have h1 : (n : Int) - 5 < (m : Int) - 5 := by omega
      have h2 : (n : Int) < (m : Int) := by omega
      simp [compare, compareOfLessAndEq, h1, h2]
    · subst h; simp [compare, compareOfLessAndEq]
    · have h1 : ¬ (n : Int) - 5 < (m : Int) - 5 := by omega
      have h2 : ¬ (n : Int) < (m : Int) := by omega
      have h3 : ¬ (n : Int) - 5 = (m : Int) - 5 := by omega
      have h4 : ¬ (n : Int) = (m : Int) := by omega
      simp [compare, compareOfLessAndEq, h1, h2, h3, h4]
  rw [this, cmp_cast]; rfl

theorem compare_tag_eq {n m : Nat} (h : compare ((n : Int) - 5) ((m : Int) - 5) = .eq) : n = m := by
  rw [← tokCmp_tag] at h
  have := (tokCmp_eq_iff _ _).1 h
  cases this; rfl

theorem firstNameKey_cons (v : Var) (vs : List Var) : firstNameKey (v :: vs) = .atom v.name := rfl
theorem foldl_min_cast (vs : List Var) (m : Nat) :
    vs.foldl (fun (m : Int) w => if (w.name : Int) < m then (w.name : Int) else m) (m : Int) =
      ((vs.foldl (fun m w => if w.name < m then w.name else m) m : Nat) : Int) := by
  induction vs generalizing m with
  | nil => rfl
  | cons w ws ih =>
    simp only [List.foldl_cons]
    by_cases h : w.name < m
    · have h' : (w.name : Int) < (m : Int) := Int.ofNat_lt.mpr h
      simp only [h, h', if_true]
      exact ih w.name
    · have h' : ¬ (w.name : Int) < (m : Int) := fun hc => h (Int.ofNat_lt.mp hc)
      simp only [h, h', if_false]
      exact ih m

theorem minNameKey_cons (v : Var) (vs : List Var) : minNameKey (v :: vs) = .atom ((minName (v :: vs) : Nat) : Int) := by
  simp only [minNameKey, minName]
  rw [foldl_min_cast]

/-- two bracketed variable lists, then nothing -/
theorem vars2_rel (c c' p p' : List Var) :
    KRelL [.tup (c.map Var.totalKey), .tup (p.map Var.totalKey)] [.tup (c'.map Var.totalKey), .tup (p'.map Var.totalKey)]
      (varsKey c ++ varsKey p) (varsKey c' ++ varsKey p') := by
  have := KRelL.consTup _ _ _ _ _ _ _ _ (vars_rel c c')
    (fun _ => KRelL.consTup _ _ _ _ [] [] [] [] (vars_rel p p') (fun _ => .nil))
  simpa [tup, varsKey] using this

mutual
/-- the flat key of an expression flattens its nested key -/
theorem expr_rel (a b : Expr) (ha : KeyOk a) (hb : KeyOk b) :
    KRelL (exprComps a) (exprComps b) (keyOf a) (keyOf b) := by
  rw [comps_split a, comps_split b, toks_split a, toks_split b]
  refine .consAtom _ _ _ _ _ _ _ _ (tokCmp_tag _ _) (fun htag => ?_)
  have htag' := compare_tag_eq htag
  cases a with
  | prob pop c p =>
    cases b with
    | prob pop' c' p' =>
      obtain ⟨v, vs, rfl⟩ : ∃ v vs, c = v :: vs := by
        cases c with
        | nil => exact absurd rfl ha
        | cons v vs => exact ⟨v, vs, rfl⟩
      obtain ⟨v', vs', rfl⟩ : ∃ v vs, c' = v :: vs := by
        cases c' with
        | nil => exact absurd rfl hb
        | cons v vs => exact ⟨v, vs, rfl⟩
      cases pop with
      | none =>
        cases pop' with
        | none =>
          simp only [exprComps, keyOf, List.tail_cons, List.cons_append, List.nil_append, firstNameKey_cons]
          exact .consAtom _ _ _ _ _ _ _ _ (tokCmp_name _ _) (fun _ => vars2_rel _ _ _ _)
        | some q' => simp [tagOf] at htag'
      | some q =>
        cases pop' with
        | none => simp [tagOf] at htag'
        | some q' =>
          simp only [exprComps, keyOf, tagPP, List.tail_cons, List.cons_append, List.nil_append, firstNameKey_cons]
          have := KRelL.consTup _ _ _ _ _ _ _ _ (var_rel q q')
            (fun _ => KRelL.consAtom _ _ _ _ _ _ _ _ (tokCmp_name v.name v'.name) (fun _ => vars2_rel (v :: vs) (v' :: vs') p p'))
          simpa [tup, varKey_eq, totalKey_eq] using this
    | _ => cases pop <;> simp [tagOf] at htag'
  | prod fs =>
    cases b with
    | prod gs =>
      simp only [exprComps, keyOf, List.tail_cons]
      exact exprs_rel fs gs ha hb
    | prob pop' c' p' => cases pop' <;> simp [tagOf] at htag'
    | _ => simp [tagOf] at htag'
  | sum e r =>
    cases b with
    | sum e' r' =>
      simp only [exprComps, keyOf, List.tail_cons]
      have := KRelL.consTup _ _ _ _ _ _ _ _ (expr_rel e e' ha hb)
        (fun _ => KRelL.consTup _ _ _ _ [] [] [] [] (vars_rel r r') (fun _ => .nil))
      simpa [tup, varsKey, key_eq] using this
    | prob pop' c' p' => cases pop' <;> simp [tagOf] at htag'
    | _ => simp [tagOf] at htag'
  | frac n d =>
    cases b with
    | frac n' d' =>
      simp only [exprComps, keyOf, List.tail_cons]
      have := KRelL.consTup _ _ _ _ _ _ _ _ (expr_rel n n' ha.1 hb.1)
        (fun _ => KRelL.consTup _ _ _ _ [] [] [] [] (expr_rel d d' ha.2 hb.2) (fun _ => .nil))
      simpa [tup, key_eq] using this
    | prob pop' c' p' => cases pop' <;> simp [tagOf] at htag'
    | _ => simp [tagOf] at htag'
  | one =>
    cases b with
    | one =>
      simp only [exprComps, keyOf, List.tail_cons]
      exact .consAtom _ _ _ _ _ _ _ _ (by decide) (fun _ => .nil)
    | zero =>
      simp only [exprComps, keyOf, List.tail_cons]
      exact .consAtom _ _ _ _ _ _ _ _ (by decide) (fun h => absurd h (by decide))
    | prob pop' c' p' => cases pop' <;> simp [tagOf] at htag'
    | _ => simp [tagOf] at htag'
  | zero =>
    cases b with
    | one =>
      simp only [exprComps, keyOf, List.tail_cons]
      exact .consAtom _ _ _ _ _ _ _ _ (by decide) (fun h => absurd h (by decide))
    | zero =>
      simp only [exprComps, keyOf, List.tail_cons]
      exact .consAtom _ _ _ _ _ _ _ _ (by decide) (fun _ => .nil)
    | prob pop' c' p' => cases pop' <;> simp [tagOf] at htag'
    | _ => simp [tagOf] at htag'
  | q dm cd =>
    cases b with
    | q dm' cd' =>
      obtain ⟨v, vs, rfl⟩ : ∃ v vs, dm = v :: vs := by
        cases dm with
        | nil => exact absurd rfl ha.1
        | cons v vs => exact ⟨v, vs, rfl⟩
      obtain ⟨w, ws, rfl⟩ : ∃ v vs, cd = v :: vs := by
        cases cd with
        | nil => exact absurd rfl ha.2
        | cons v vs => exact ⟨v, vs, rfl⟩
      obtain ⟨v', vs', rfl⟩ : ∃ v vs, dm' = v :: vs := by
        cases dm' with
        | nil => exact absurd rfl hb.1
        | cons v vs => exact ⟨v, vs, rfl⟩
      obtain ⟨w', ws', rfl⟩ : ∃ v vs, cd' = v :: vs := by
        cases cd' with
        | nil => exact absurd rfl hb.2
        | cons v vs => exact ⟨v, vs, rfl⟩
      simp only [exprComps, keyOf, tagQ, List.tail_cons, List.cons_append, List.nil_append, minNameKey_cons]
      exact .consAtom _ _ _ _ _ _ _ _ (tokCmp_name _ _) (fun _ =>
        .consAtom _ _ _ _ _ _ _ _ (tokCmp_name _ _) (fun _ => vars2_rel _ _ _ _))
    | prob pop' c' p' => cases pop' <;> simp [tagOf] at htag'
    | _ => simp [tagOf] at htag'
termination_by sizeOf a

theorem exprs_rel (fs gs : List Expr) (hf : KeyOkL fs) (hg : KeyOkL gs) :
    KRelL (Expr.keyList fs) (Expr.keyList gs) (keysOf fs) (keysOf gs) := by
  cases fs with
  | nil =>
    cases gs with
    | nil => simp only [Expr.keyList, keysOf]; exact .nil
    | cons g gs =>
      simp only [Expr.keyList, keysOf, tup_append]
      exact .nilL _ _ _ _ (by simp)
  | cons f fs =>
    cases gs with
    | nil =>
      simp only [Expr.keyList, keysOf, tup_append]
      exact .nilR _ _ _ _ (by simp)
    | cons g gs =>
      simp only [Expr.keyList, keysOf, tup_append, key_eq]
      exact .consTup _ _ _ _ _ _ _ _ (expr_rel f g hf.1 hg.1) (fun _ => exprs_rel fs gs hf.2 hg.2)
termination_by sizeOf fs
end

/-- **`Expression.__lt__`: the two models of the sort order agree** on all constructible expressions -/
theorem exprLt_eq_ltE (a b : Expr) (ha : KeyOk a) (hb : KeyOk b) : exprLt a b = Expr.ltE a b := by
  unfold exprLt Expr.ltE
  rw [(expr_rel a b ha hb).keyLt, key_eq a, key_eq b]

end IdAux
end Y0
