/-
  Y0.Lemmas.IdcRule2 — rule 2 of the do-calculus (action/observation exchange) for the positive semi-Markovian
  models of Y0/Spec/Scm.lean, in the form IDC uses it:

      c separated from every y ∈ Y given X ∪ W in  H = G with the edges into X and out of c removed
        ⟹   P(y, w, c | do x) / P(w, c | do x)  =  P(y, w | do x, do c) / P(w | do x, do c)

  Proof, directly on the truncated factorisation (no auxiliary regime node, so everything stays inside the class of
  positive models).  Let `A` be the H-ancestors of `{c} ∪ Y ∪ X ∪ W`.  Both interventional joints are c-factors of `G`:
  `Q[V − X]` and `Q[V − X − c]`.  In both the non-ancestors sum out (`Q_ancestral`: an edge of `G` into `A − X` that is
  not an edge of `H` starts at `c ∈ A`).  The remaining c-factor splits along the districts of `H[A]` into the part
  `T_A` whose clique (district ∪ H-parents) meets the side of `c` in the augmented graph minus `X ∪ W`, and the rest
  `T_B` (`Q_filter_split`).  `Q[T_B]` is the same in both regimes (`c ∈ T_A`), and it mentions no unconditioned node
  on `c`'s side except possibly `c` itself (through the removed edges out of `c`) — which is fixed, not summed, in all
  four marginals; `Q[T_A]`, `Q[T_A − c]` mention no unconditioned node on the other side, where all of `Y` lies
  (`reach_sep_set`).  Hence each of the four marginals is (a sum over `c`'s side of the first factor) × (a sum over the
  other side of the second), the second factor of numerator resp. denominator being the same in both regimes, and the
  first factors, which are positive, cancel.
-/
import Y0.Lemmas.IdcSound
import Y0.Lemmas.SepMarkov
import Y0.Lemmas.IdcSepSet

namespace Y0
open Relation MG IdAux IdDsl

/-- rule 2 of the do-calculus from the separation of `c` and `Y` in the augmented graph -/
theorem IdAux.rule2_of_augSeparated {M : Scm} {G : MG Name} (hM : M.Compatible G) (hG : G.WF) (hR : G.Ranked)
    (X Y Z : List Name) (c : Name) (hc : c ∈ G.nodes) (hcZ : c ∈ Z) (hcX : c ∉ X)
    (hYX : ∀ y ∈ Y, y ∉ X) (hYZ : ∀ y ∈ Y, y ∉ Z)
    (hsep : ∀ y ∈ Y, ((G.removeInEdges X).removeOutEdges [c]).AugSeparated c y (union' X (Z.filter (· ≠ c))))
    (σ : Val) :
    M.condDo G X Y Z σ = M.condDo G (union' X [c]) Y (Z.filter (· ≠ c)) σ := by
  classical
  -- vocabulary
  let W := Z.filter (· ≠ c)
  let H := (G.removeInEdges X).removeOutEdges [c]
  let C := union' X W
  have hW : ∀ v, v ∈ W ↔ v ∈ Z ∧ v ≠ c := by intro v; simp [W]
  have hCm : ∀ v, v ∈ C ↔ v ∈ X ∨ v ∈ W := fun v => mem_union'
  have hHdi : ∀ u v, H.DiEdge u v ↔ G.DiEdge u v ∧ v ∉ X ∧ u ≠ c := by
    intro u v
    simp only [H, diEdge_removeOutEdges, diEdge_removeInEdges, List.mem_singleton]
    tauto
  have hHbi : ∀ u v, H.BiEdge u v ↔ G.BiEdge u v ∧ u ∉ X ∧ v ∉ X := by
    intro u v
    simp only [H, biEdge_removeOutEdges, biEdge_removeInEdges]
  let P : Name → Prop := H.Anc (c :: Y ++ C)
  let reachA : Name → Prop := fun x => ReflTransGen (AugStepS H C c Y) c x
  let InClique : Name → Name → Prop := fun v w =>
    P w ∧ ∃ x, P x ∧ ReflTransGen (H.BiIn P) v x ∧ (w = x ∨ H.DiEdge w x)
  let sideA : Name → Prop := fun v => ∃ w, w ∉ C ∧ reachA w ∧ InClique v w
  let AnL := G.nodes.filter (fun v => decide (P v))
  let R := G.nodes.filter (fun v => !decide (P v))
  let LA := AnL.filter (fun v => decide (v ∉ C ∧ reachA v))
  let LB := AnL.filter (fun v => decide (v ∉ C ∧ ¬ reachA v))
  let DA := AnL.filter (fun v => decide (v ∉ X))
  let TA := DA.filter (fun v => decide (sideA v))
  let TB := DA.filter (fun v => !decide (sideA v))
  let FB := M.Q TB
  have hVnd : G.nodes.Nodup := hG.nodup
  have hcC : c ∉ C := by
    intro h
    rcases (hCm c).1 h with h | h
    · exact hcX h
    · exact ((hW c).1 h).2 rfl
  have hYC : ∀ y ∈ Y, y ∉ C := by
    intro y hy h
    rcases (hCm y).1 h with h | h
    · exact hYX y hy h
    · exact hYZ y hy ((hW y).1 h).1
  have hPc : P c := anc_of_mem H (by simp)
  have hPY : ∀ y ∈ Y, P y := fun y hy => anc_of_mem H (by simp [hy])
  have hPC : ∀ x ∈ C, P x := fun x hx => anc_of_mem H (by simp [hx])
  have hPX : ∀ x ∈ X, P x := fun x hx => hPC x ((hCm x).2 (Or.inl hx))
  have hreach_c : reachA c := .refl
  have hreach_Y : ∀ y ∈ Y, ¬ reachA y := fun y hy hr => reach_sep_set H C c Y hcC hYC hsep y hr hy
  have hAnL : ∀ v, v ∈ AnL ↔ v ∈ G.nodes ∧ P v := by intro v; simp [AnL]
  have hRm : ∀ v, v ∈ R ↔ v ∈ G.nodes ∧ ¬ P v := by intro v; simp [R]
  have hLA : ∀ v, v ∈ LA ↔ v ∈ G.nodes ∧ P v ∧ v ∉ C ∧ reachA v := by
    intro v; simp only [LA, List.mem_filter, hAnL, decide_eq_true_eq]; tauto
  have hLB : ∀ v, v ∈ LB ↔ v ∈ G.nodes ∧ P v ∧ v ∉ C ∧ ¬ reachA v := by
    intro v; simp only [LB, List.mem_filter, hAnL, decide_eq_true_eq]; tauto
  have hDA : ∀ v, v ∈ DA ↔ v ∈ G.nodes ∧ P v ∧ v ∉ X := by
    intro v; simp only [DA, List.mem_filter, hAnL, decide_eq_true_eq]; tauto
  have hTA : ∀ v, v ∈ TA ↔ v ∈ G.nodes ∧ P v ∧ v ∉ X ∧ sideA v := by
    intro v; simp only [TA, List.mem_filter, hDA, decide_eq_true_eq]
    exact ⟨fun ⟨⟨a, b, d⟩, e⟩ => ⟨a, b, d, e⟩, fun ⟨a, b, d, e⟩ => ⟨⟨a, b, d⟩, e⟩⟩
  have hTB : ∀ v, v ∈ TB ↔ v ∈ G.nodes ∧ P v ∧ v ∉ X ∧ ¬ sideA v := by
    intro v
    simp only [TB, List.mem_filter, hDA, Bool.not_eq_true', decide_eq_false_iff_not]
    exact ⟨fun ⟨⟨a, b, d⟩, e⟩ => ⟨a, b, d, e⟩, fun ⟨a, b, d, e⟩ => ⟨⟨a, b, d⟩, e⟩⟩
  have hRnd : R.Nodup := hVnd.filter _
  have hLAnd : LA.Nodup := (hVnd.filter _).filter _
  have hLBnd : LB.Nodup := (hVnd.filter _).filter _
  have hDAnd : DA.Nodup := (hVnd.filter _).filter _
  -- a clique of the augmented graph with two unconditioned members: they are adjacent there
  have clique_step : ∀ v w x, P v → InClique v w → w ∉ C → reachA w → P x → x ∉ C → (x = v ∨ H.DiEdge x v) →
      reachA x := by
    intro v w x hPv ⟨hPw, x', hPx', hchain, hwx'⟩ hwC hw hPx hxC hxv
    exact hw.tail ⟨⟨hPw, hPx, Or.inr ⟨x', v, hPx', hPv, MG.biIn_rtg_symm H P hchain, hwx', hxv⟩⟩, hwC, hxC⟩
  have sideA_of_LA : ∀ x, x ∈ LA → sideA x := by
    intro x hx
    obtain ⟨_, hPx, hxC, hxr⟩ := (hLA x).1 hx
    exact ⟨x, hxC, hxr, hPx, x, hPx, .refl, Or.inl rfl⟩
  have hcLA : c ∈ LA := (hLA c).2 ⟨hc, hPc, hcC, hreach_c⟩
  have sideA_c : sideA c := sideA_of_LA c hcLA
  -- what the two kinds of factors do not mention
  have hFB : ∀ x ∈ LA.erase c, IndepOf FB x := by
    intro x hx
    have hxne : x ≠ c := (hLAnd.mem_erase_iff.1 hx).1
    have hxLA : x ∈ LA := (hLAnd.mem_erase_iff.1 hx).2
    obtain ⟨_, hPx, hxC, hxr⟩ := (hLA x).1 hxLA
    apply Scm.Q_indepOf hM TB (fun v hv => ((hTB v).1 hv).1)
    · intro hxT
      exact ((hTB x).1 hxT).2.2.2 (sideA_of_LA x hxLA)
    · intro v hv hpa
      obtain ⟨_, hPv, hvX, hs⟩ := (hTB v).1 hv
      have hH : H.DiEdge x v := (hHdi x v).2 ⟨MG.mem_parents.1 hpa, hvX, hxne⟩
      exact hs ⟨x, hxC, hxr, hPx, v, hPv, .refl, Or.inr hH⟩
  have hFA : ∀ T : List Name, (∀ v ∈ T, v ∈ TA) → ∀ y ∈ LB, IndepOf (M.Q T) y := by
    intro T hT y hy
    obtain ⟨_, hPy, hyC, hyr⟩ := (hLB y).1 hy
    have hyc : y ≠ c := fun h => hyr (h ▸ hreach_c)
    apply Scm.Q_indepOf hM T (fun v hv => ((hTA v).1 (hT v hv)).1)
    · intro hyT
      obtain ⟨w, hwC, hw, hcl⟩ := ((hTA y).1 (hT y hyT)).2.2.2
      exact hyr (clique_step y w y hPy hcl hwC hw hPy hyC (Or.inl rfl))
    · intro v hv hpa
      obtain ⟨_, hPv, hvX, w, hwC, hw, hcl⟩ := (hTA v).1 (hT v hv)
      have hH : H.DiEdge y v := (hHdi y v).2 ⟨MG.mem_parents.1 hpa, hvX, hyc⟩
      exact hyr (clique_step v w y hPv hcl hwC hw hPy hyC (Or.inr hH))
  -- every marginal of either regime is a product of a sum over `c`'s side and a sum over the other side
  have gen : ∀ (X0 S : List Name), (∀ v ∈ X, v ∈ X0) → (∀ v ∈ X0, v ∈ X ∨ v = c) →
      (∀ v, v ∈ C ∨ v = c → v ∈ X0 ∨ v ∈ S) → (∀ v ∈ S, v ∈ C ∨ v = c ∨ v ∈ Y) → ∀ σ,
      M.doProb G X0 S σ = sumVars M.card (LA.erase c) (M.Q (TA.filter (fun v => decide (v ∉ X0)))) σ *
        sumVars M.card (LB.filter (fun v => decide (v ∉ S))) FB σ := by
    intro X0 S h1 h2 h3 h4 σ
    let D0 := G.nodes.filter (fun v => decide (v ∉ X0))
    let DA0 := DA.filter (fun v => decide (v ∉ X0))
    let TA0 := TA.filter (fun v => decide (v ∉ X0))
    let LBS := LB.filter (fun v => decide (v ∉ S))
    have hPX0 : ∀ v ∈ X0, P v := by
      intro v hv
      rcases h2 v hv with h | h
      · exact hPX v h
      · exact h ▸ hPc
    have hDA0 : ∀ v, v ∈ DA0 ↔ v ∈ G.nodes ∧ P v ∧ v ∉ X0 := by
      intro v
      simp only [DA0, List.mem_filter, hDA, decide_eq_true_eq]
      constructor
      · rintro ⟨⟨a, b, _⟩, d⟩; exact ⟨a, b, d⟩
      · rintro ⟨a, b, d⟩; exact ⟨⟨a, b, fun h => d (h1 v h)⟩, d⟩
    -- (1) the non-ancestors sum out
    have hsumR : sumVars M.card R (M.Q D0) = M.Q DA0 := by
      have hnd : (DA0 ++ R).Nodup :=
        List.Nodup.append (hDAnd.filter _) hRnd (fun v hv hr => ((hRm v).1 hr).2 ((hDA0 v).1 hv).2.1)
      have hQ : M.Q D0 = M.Q (DA0 ++ R) := by
        apply Scm.Q_congr_set M (hVnd.filter _) hnd
        intro v
        simp only [List.mem_filter, decide_eq_true_eq, List.mem_append, hDA0, hRm]
        constructor
        · rintro ⟨a, b⟩
          by_cases hp : P v
          · exact Or.inl ⟨a, hp, b⟩
          · exact Or.inr ⟨a, hp⟩
        · rintro (⟨a, _, b⟩ | ⟨a, b⟩)
          · exact ⟨a, b⟩
          · exact ⟨a, fun h => b (hPX0 v h)⟩
      rw [hQ]
      apply Scm.Q_ancestral hM hR DA0 R hnd
      · intro v hv
        rcases List.mem_append.1 hv with h | h
        · exact ((hDA0 v).1 h).1
        · exact ((hRm v).1 h).1
      · intro x hx r hr hpa
        obtain ⟨_, hPx, hxX0⟩ := (hDA0 x).1 hx
        have hrc : r ≠ c := fun h => ((hRm r).1 hr).2 (h ▸ hPc)
        have hH : H.DiEdge r x := (hHdi r x).2 ⟨MG.mem_parents.1 hpa, fun h => hxX0 (h1 x h), hrc⟩
        exact ((hRm r).1 hr).2 (anc_of_edge H hH hPx)
    -- (2) the ancestral c-factor splits along the two sides
    have hfac : ∀ τ, M.Q DA0 τ = M.Q TA0 τ * FB τ := by
      intro τ
      have hs := Scm.Q_filter_split hM hG (fun v => decide (sideA v)) DA0 (fun v hv => ((hDA0 v).1 hv).1) (by
        intro v hv hsv w hw hsw u huv huw
        simp only [decide_eq_true_eq] at hsv
        simp only [decide_eq_false_iff_not] at hsw
        obtain ⟨hvn, hPv, hvX0⟩ := (hDA0 v).1 hv
        obtain ⟨hwn, hPw, hwX0⟩ := (hDA0 w).1 hw
        by_cases hvw : v = w
        · subst hvw; exact hsw hsv
        · have hbi : G.BiEdge v w := (hasBi_iff G v w).1 (hM.compat v hvn w hwn hvw ⟨u, huv, huw⟩)
          have hbiH : H.BiEdge v w := (hHbi v w).2 ⟨hbi, fun h => hvX0 (h1 v h), fun h => hwX0 (h1 w h)⟩
          have hbiH' : H.BiEdge w v := Or.symm hbiH
          obtain ⟨z, hzC, hz, hPz, x, hPx, hchain, hzx⟩ := hsv
          exact hsw ⟨z, hzC, hz, hPz, x, hPx, .head ⟨hbiH', hPw, hPv⟩ hchain, hzx⟩) τ
      have e1 : DA0.filter (fun v => decide (sideA v)) = TA0 := by
        simp only [DA0, TA0, TA]
        exact List.filter_comm _ _ _
      have e2 : DA0.filter (fun v => !decide (sideA v)) = TB := by
        simp only [DA0, TB]
        rw [List.filter_comm]
        apply List.filter_eq_self.2
        intro v hv
        simp only [decide_eq_true_eq]
        intro hvX0
        have hv' : v ∈ TB := hv
        obtain ⟨_, _, hvX, hs⟩ := (hTB v).1 hv'
        rcases h2 v hvX0 with h | h
        · exact hvX h
        · exact hs (h ▸ sideA_c)
      rw [hs, e1, e2]
    -- (3) the summation variables
    have hLBS : ∀ v, v ∈ LBS ↔ v ∈ LB ∧ v ∉ S := by intro v; simp [LBS]
    have hdisj : ∀ v ∈ LA.erase c, v ∉ LBS := by
      intro v hv hv'
      exact ((hLB v).1 ((hLBS v).1 hv').1).2.2.2 ((hLA v).1 (List.mem_of_mem_erase hv)).2.2.2
    have hLnd : (LA.erase c ++ LBS).Nodup := List.Nodup.append (hLAnd.erase c) (hLBnd.filter _) hdisj
    have hnotR : ∀ v ∈ LA.erase c ++ LBS, v ∉ R := by
      intro v hv hr
      rcases List.mem_append.1 hv with h | h
      · exact ((hRm v).1 hr).2 ((hLA v).1 (List.mem_of_mem_erase h)).2.1
      · exact ((hRm v).1 hr).2 ((hLB v).1 ((hLBS v).1 h).1).2.1
    have hX0C : ∀ v ∈ X0, v ∈ C ∨ v = c := by
      intro v hv
      rcases h2 v hv with h | h
      · exact Or.inl ((hCm v).2 (Or.inl h))
      · exact Or.inr h
    have hset : sumVars M.card (G.nodes.filter (fun v => v ∉ X0 ∧ v ∉ S)) (M.Q D0) =
        sumVars M.card ((LA.erase c ++ LBS) ++ R) (M.Q D0) := by
      apply sumVars_congr_set M.card (hVnd.filter _) (List.Nodup.append hLnd hRnd hnotR)
      intro v
      simp only [List.mem_filter, decide_eq_true_eq, List.mem_append, hLAnd.mem_erase_iff, hLBS]
      constructor
      · rintro ⟨hv, hvX0, hvS⟩
        have hvC : v ∉ C := fun h => (h3 v (Or.inl h)).elim hvX0 hvS
        have hvc : v ≠ c := fun h => (h3 v (Or.inr h)).elim hvX0 hvS
        by_cases hp : P v
        · by_cases hr : reachA v
          · exact Or.inl (Or.inl ⟨hvc, (hLA v).2 ⟨hv, hp, hvC, hr⟩⟩)
          · exact Or.inl (Or.inr ⟨(hLB v).2 ⟨hv, hp, hvC, hr⟩, hvS⟩)
        · exact Or.inr ((hRm v).2 ⟨hv, hp⟩)
      · rintro ((⟨hvc, h⟩ | ⟨h, hvS⟩) | h)
        · obtain ⟨hv, _, hvC, hr⟩ := (hLA v).1 h
          refine ⟨hv, fun hx => (hX0C v hx).elim hvC hvc, fun hs => ?_⟩
          rcases h4 v hs with h' | h' | h'
          · exact hvC h'
          · exact hvc h'
          · exact hreach_Y v h' hr
        · obtain ⟨hv, _, hvC, hr⟩ := (hLB v).1 h
          have hvc : v ≠ c := fun e => hr (e ▸ hreach_c)
          exact ⟨hv, fun hx => (hX0C v hx).elim hvC hvc, hvS⟩
        · obtain ⟨hv, hp⟩ := (hRm v).1 h
          refine ⟨hv, fun hx => hp (hPX0 v hx), fun hs => ?_⟩
          rcases h4 v hs with h' | h' | h'
          · exact hp (hPC v h')
          · exact hp (h' ▸ hPc)
          · exact hp (hPY v h')
    have hdo : M.doProb G X0 S = sumVars M.card (G.nodes.filter (fun v => v ∉ X0 ∧ v ∉ S)) (M.Q D0) := rfl
    rw [hdo, hset, sumVars_append, hsumR]
    have hprod : sumVars M.card (LA.erase c ++ LBS) (M.Q DA0) σ =
        sumVars M.card (LA.erase c ++ LBS) (fun τ => M.Q TA0 τ * FB τ) σ :=
      sumVars_congr M.card _ hfac σ
    rw [hprod]
    exact sumVars_prod_split M.card (LA.erase c) LBS (M.Q TA0) FB
      (fun y hy => hFA TA0 (fun v hv => (List.mem_filter.1 hv).1) y ((hLBS y).1 hy).1) hFB σ
  -- the four marginals
  have hZ : ∀ v, v ∈ Z ↔ v = c ∨ v ∈ W := by
    intro v
    rw [hW]
    constructor
    · intro h
      by_cases e : v = c
      · exact Or.inl e
      · exact Or.inr ⟨h, e⟩
    · rintro (h | h)
      · exact h ▸ hcZ
      · exact h.1
  have hXc : ∀ v, v ∈ union' X [c] ↔ v ∈ X ∨ v = c := by intro v; simp [mem_union']
  have e1 := gen X (union' Y Z) (fun _ h => h) (fun _ h => Or.inl h)
    (by
      intro v hv
      rcases hv with hv | hv
      · rcases (hCm v).1 hv with h | h
        · exact Or.inl h
        · exact Or.inr (mem_union'.2 (Or.inr ((hW v).1 h).1))
      · exact Or.inr (mem_union'.2 (Or.inr (hv ▸ hcZ))))
    (by
      intro v hv
      rcases mem_union'.1 hv with h | h
      · exact Or.inr (Or.inr h)
      · rcases (hZ v).1 h with h' | h'
        · exact Or.inr (Or.inl h')
        · exact Or.inl ((hCm v).2 (Or.inr h'))) σ
  have e2 := gen X Z (fun _ h => h) (fun _ h => Or.inl h)
    (by
      intro v hv
      rcases hv with hv | hv
      · rcases (hCm v).1 hv with h | h
        · exact Or.inl h
        · exact Or.inr ((hW v).1 h).1
      · exact Or.inr (hv ▸ hcZ))
    (by
      intro v hv
      rcases (hZ v).1 hv with h' | h'
      · exact Or.inr (Or.inl h')
      · exact Or.inl ((hCm v).2 (Or.inr h'))) σ
  have e3 := gen (union' X [c]) (union' Y W) (fun v h => (hXc v).2 (Or.inl h)) (fun v h => (hXc v).1 h)
    (by
      intro v hv
      rcases hv with hv | hv
      · rcases (hCm v).1 hv with h | h
        · exact Or.inl ((hXc v).2 (Or.inl h))
        · exact Or.inr (mem_union'.2 (Or.inr h))
      · exact Or.inl ((hXc v).2 (Or.inr hv)))
    (by
      intro v hv
      rcases mem_union'.1 hv with h | h
      · exact Or.inr (Or.inr h)
      · exact Or.inl ((hCm v).2 (Or.inr h))) σ
  have e4 := gen (union' X [c]) W (fun v h => (hXc v).2 (Or.inl h)) (fun v h => (hXc v).1 h)
    (by
      intro v hv
      rcases hv with hv | hv
      · rcases (hCm v).1 hv with h | h
        · exact Or.inl ((hXc v).2 (Or.inl h))
        · exact Or.inr h
      · exact Or.inl ((hXc v).2 (Or.inr hv)))
    (by
      intro v hv
      exact Or.inl ((hCm v).2 (Or.inr hv))) σ
  -- the factors on the other side are the same in both regimes
  have hcLB : ∀ v ∈ LB, v ≠ c := fun v hv e => ((hLB v).1 hv).2.2.2 (e ▸ hreach_c)
  have f1 : LB.filter (fun v => decide (v ∉ union' Y Z)) = LB.filter (fun v => decide (v ∉ union' Y W)) := by
    apply List.filter_congr
    intro v hv
    have := hcLB v hv
    simp only [mem_union', hZ v, this, false_or]
  have f2 : LB.filter (fun v => decide (v ∉ Z)) = LB.filter (fun v => decide (v ∉ W)) := by
    apply List.filter_congr
    intro v hv
    have := hcLB v hv
    simp only [hZ v, this, false_or]
  -- the factors on `c`'s side are positive
  have hpos : ∀ X0 : List Name, 0 < sumVars M.card (LA.erase c) (M.Q (TA.filter (fun v => decide (v ∉ X0)))) σ := by
    intro X0
    apply Scm.sumVars_pos _ _ _ (fun x _ => hM.card_pos x)
    intro τ
    exact Scm.Q_pos hM _ (fun v hv => ((hTA v).1 (List.mem_filter.1 hv).1).1) τ
  unfold Scm.condDo
  rw [e1, e2, f1, f2]
  have e3' : M.doProb G (union' X [c]) (union' Y (Z.filter (· ≠ c))) σ = _ := e3
  have e4' : M.doProb G (union' X [c]) (Z.filter (· ≠ c)) σ = _ := e4
  rw [e3', e4', mul_div_mul_left _ _ (ne_of_gt (hpos X)), mul_div_mul_left _ _ (ne_of_gt (hpos (union' X [c])))]

end Y0
