/-
  Y0.Lemmas.LatentSepRule1 — d-connection among observed nodes inside the LV-DAG is preserved by rule 1
  (exogenising a latent with parents), hence by the whole simplification.
-/
import Y0.Lemmas.LatentSep
import Y0.Lemmas.LatentSimplify

namespace Y0.LV
open Relation

section expand
variable {D D' : LV} {v v' : Nat}

/-- descending paths survive the expansion (away from `v`) -/
theorem Expand.rtg_fwd (hx : Expand D D' v v') (hloop : ¬ D.Edge v v) {x z : Nat}
    (h : ReflTransGen D.Edge x z) (hz : z ≠ v) :
    (x ≠ v → ReflTransGen D'.Edge x z) ∧ (x = v → ∀ p, D.Edge p v → ReflTransGen D'.Edge p z) := by
  induction h using ReflTransGen.head_induction_on with
  | refl => exact ⟨fun _ => .refl, fun e => absurd e hz⟩
  | @head x y hxy _ ih =>
    refine ⟨fun hxv => ?_, ?_⟩
    · by_cases hyv : y = v
      · subst hyv; exact ih.2 rfl x hxy
      · exact .head ((hx.edges x y).2 (Or.inl ⟨hxy, hxv, hyv⟩)) (ih.1 hyv)
    · rintro rfl p hp
      have hyv : y ≠ x := fun e => hloop (e ▸ hxy)
      exact .head ((hx.edges p y).2 (Or.inr (Or.inl ⟨hp, hxy⟩))) (ih.1 hyv)

theorem Expand.rtg_bwd (hx : Expand D D' v v') (hw : D.WF) (hv' : v' ∉ D.nodes) (hloop : ¬ D.Edge v v)
    {x y : Nat} (h : ReflTransGen D'.Edge x y) (hxv : x ≠ v') : y ≠ v' ∧ ReflTransGen D.Edge x y := by
  induction h with
  | refl => exact ⟨hxv, .refl⟩
  | @tail y w _ hyw ih =>
    refine ⟨(hx.new_target hw hv' hloop hyw).1, ?_⟩
    rcases (hx.edges y w).1 hyw with ⟨h1, _, _⟩ | ⟨h1, h2⟩ | ⟨h1, _⟩
    · exact ih.2.tail h1
    · exact (ih.2.tail h1).tail h2
    · exact absurd h1 ih.1

theorem Expand.anZ (hx : Expand D D' v v') (hw : D.WF) (hv : v ∈ D.latent) (hv' : v' ∉ D.nodes)
    (hloop : ¬ D.Edge v v) (Z : Nat → Prop) (hZ : ∀ z, Z z → D.Observed z) (x : Nat) (hxv : x ≠ v)
    (hxv' : x ≠ v') : D'.AnZ Z x ↔ D.AnZ Z x := by
  constructor
  · rintro ⟨z, hz, hp⟩; exact ⟨z, hz, (hx.rtg_bwd hw hv' hloop hp hxv').2⟩
  · rintro ⟨z, hz, hp⟩
    have hzv : z ≠ v := fun e => (hZ z hz).2 (e ▸ hv)
    exact ⟨z, hz, (hx.rtg_fwd hloop hp hzv).1 hxv⟩

/-- if the expanded latent has a descendant in `Z`, so has one of its children, still in `D'` -/
theorem Expand.anZ_child (hx : Expand D D' v v') (hw : D.WF) (hv : v ∈ D.latent) (hv' : v' ∉ D.nodes)
    (hloop : ¬ D.Edge v v) (Z : Nat → Prop) (hZ : ∀ z, Z z → D.Observed z) (h : D.AnZ Z v) :
    ∃ c, D.Edge v c ∧ D'.AnZ Z c := by
  obtain ⟨z, hz, hp⟩ := h
  have hzv : z ≠ v := fun e => (hZ z hz).2 (e ▸ hv)
  cases hp using ReflTransGen.head_induction_on with
  | refl => exact absurd rfl hzv
  | @head _ c hvc hcz =>
    have hcv : c ≠ v := fun e => hloop (e ▸ hvc)
    have hcv' : c ≠ v' := fun e => hv' (e ▸ (hw.edge_mem _ hvc).2)
    exact ⟨c, hvc, (hx.anZ hw hv hv' hloop Z hZ c hcv hcv').2 ⟨z, hz, hcz⟩⟩

/-- old walks are rerouted over the new direct edges and the exogenous copy -/
theorem Expand.reach_fwd (hx : Expand D D' v v') (hw : D.WF) (hv : v ∈ D.latent) (hv' : v' ∉ D.nodes)
    (hloop : ¬ D.Edge v v) (Z : Nat → Prop) (hZ : ∀ z, Z z → D.Observed z) (a : Nat) (hav : a ≠ v)
    {x : Nat} {s : Bool} (h : D.Reach Z a x s) :
    (x ≠ v → D'.Reach Z a x s) ∧
    (x = v →
      (s = true → (∀ c, D.Edge v c → D'.Reach Z a c true) ∧
        (D.AnZ Z v → ∀ q, D.Edge q v → D'.Reach Z a q false)) ∧
      (s = false → (∀ q, D.Edge q v → D'.Reach Z a q false) ∧ D'.Reach Z a v' false)) := by
  have hZv' : ¬ Z v' := fun hz => hv' (hZ v' hz).1
  have E1 : ∀ x y, D.Edge x y → x ≠ v → y ≠ v → D'.Edge x y := fun x y h h1 h2 =>
    (hx.edges x y).2 (Or.inl ⟨h, h1, h2⟩)
  have E2 : ∀ p c, D.Edge p v → D.Edge v c → D'.Edge p c := fun p c h1 h2 =>
    (hx.edges p c).2 (Or.inr (Or.inl ⟨h1, h2⟩))
  have E3 : ∀ c, D.Edge v c → D'.Edge v' c := fun c h => (hx.edges v' c).2 (Or.inr (Or.inr ⟨rfl, h⟩))
  have An : ∀ x, x ≠ v → x ∈ D.nodes → D.AnZ Z x → D'.AnZ Z x := fun x h1 h2 h =>
    (hx.anZ hw hv hv' hloop Z hZ x h1 (fun e => hv' (e ▸ h2))).2 h
  have AnV := hx.anZ_child hw hv hv' hloop Z hZ
  -- entering v from above, given how to step down from the parent to any child of v
  have enterDown : ∀ (stepTo : ∀ c, D.Edge v c → D'.Reach Z a c true),
      (∀ c, D.Edge v c → D'.Reach Z a c true) ∧ (D.AnZ Z v → ∀ q, D.Edge q v → D'.Reach Z a q false) :=
    fun stepTo => ⟨stepTo, fun han q hq => by
      obtain ⟨c0, hc0, han0⟩ := AnV han
      exact .collider (stepTo c0 hc0) han0 (E2 q c0 hq hc0)⟩
  induction h with
  | @startDown c h =>
    refine ⟨fun hc => .startDown (E1 _ _ h hav hc), ?_⟩
    rintro rfl
    exact ⟨fun _ => enterDown (fun c' hc' => .startDown (E2 a c' h hc')), fun e => by cases e⟩
  | @startUp p h =>
    refine ⟨fun hp => .startUp (E1 _ _ h hp hav), ?_⟩
    rintro rfl
    exact ⟨(fun e => by cases e), fun _ => ⟨fun q hq => .startUp (E2 q a hq h), .startUp (E3 a h)⟩⟩
  | @chainDown x c _ hz h ih =>
    by_cases hxv : x = v
    · subst hxv
      have hcv : c ≠ x := fun e => hloop (e ▸ h)
      exact ⟨fun _ => ((ih.2 rfl).1 rfl).1 c h, fun e => absurd e hcv⟩
    · have R := ih.1 hxv
      refine ⟨fun hc => .chainDown R hz (E1 _ _ h hxv hc), ?_⟩
      rintro rfl
      exact ⟨fun _ => enterDown (fun c' hc' => .chainDown R hz (E2 x c' h hc')), fun e => by cases e⟩
  | @collider x p hr han h ih =>
    by_cases hxv : x = v
    · subst hxv
      have hpv : p ≠ x := fun e => hloop (e ▸ h)
      exact ⟨fun _ => ((ih.2 rfl).1 rfl).2 han p h, fun e => absurd e hpv⟩
    · have R := ih.1 hxv
      obtain ⟨q0, hq0⟩ := hr.down_has_parent
      have han' := An x hxv (hw.edge_mem _ hq0).2 han
      refine ⟨fun hp => .collider R han' (E1 _ _ h hp hxv), ?_⟩
      rintro rfl
      exact ⟨(fun e => by cases e),
        fun _ => ⟨fun q hq => .collider R han' (E2 q x hq h), .collider R han' (E3 x h)⟩⟩
  | @chainUp x p _ hz h ih =>
    by_cases hxv : x = v
    · subst hxv
      have hpv : p ≠ x := fun e => hloop (e ▸ h)
      exact ⟨fun _ => ((ih.2 rfl).2 rfl).1 p h, fun e => absurd e hpv⟩
    · have R := ih.1 hxv
      refine ⟨fun hp => .chainUp R hz (E1 _ _ h hp hxv), ?_⟩
      rintro rfl
      exact ⟨(fun e => by cases e), fun _ => ⟨fun q hq => .chainUp R hz (E2 q x hq h), .chainUp R hz (E3 x h)⟩⟩
  | @fork x c _ hz h ih =>
    by_cases hxv : x = v
    · subst hxv
      have hcv : c ≠ x := fun e => hloop (e ▸ h)
      exact ⟨fun _ => .fork ((ih.2 rfl).2 rfl).2 hZv' (E3 c h), fun e => absurd e hcv⟩
    · have R := ih.1 hxv
      refine ⟨fun hc => .fork R hz (E1 _ _ h hxv hc), ?_⟩
      rintro rfl
      exact ⟨fun _ => enterDown (fun c' hc' => .fork R hz (E2 x c' h hc')), fun e => by cases e⟩

/-- new walks come from old ones -/
theorem Expand.reach_bwd (hx : Expand D D' v v') (hw : D.WF) (hv : v ∈ D.latent) (hv' : v' ∉ D.nodes)
    (hloop : ¬ D.Edge v v) (Z : Nat → Prop) (hZ : ∀ z, Z z → D.Observed z) (a : Nat) (hav' : a ≠ v')
    {x : Nat} {s : Bool} (h : D'.Reach Z a x s) :
    (x ≠ v' → D.Reach Z a x s) ∧ (x = v' → s = false ∧ D.Reach Z a v false) := by
  have hZv : ¬ Z v := fun hz => (hZ v hz).2 hv
  have tgt : ∀ p q, D'.Edge p q → q ≠ v' := fun p q h => (hx.new_target hw hv' hloop h).1
  have old : ∀ p q, D.Edge p q → p ≠ v' ∧ q ≠ v' := fun p q h => hx.old_ne hw hv' h
  have An : ∀ x, x ≠ v' → D'.AnZ Z x → D.AnZ Z x := by
    rintro x hxv' ⟨z, hz, hp⟩
    exact ⟨z, hz, (hx.rtg_bwd hw hv' hloop hp hxv').2⟩
  induction h with
  | @startDown c h =>
    refine ⟨fun _ => ?_, fun e => absurd e (tgt _ _ h)⟩
    rcases (hx.edges a c).1 h with ⟨h1, _, _⟩ | ⟨h1, h2⟩ | ⟨h1, _⟩
    · exact .startDown h1
    · exact .chainDown (.startDown h1) hZv h2
    · exact absurd h1 hav'
  | @startUp p h =>
    rcases (hx.edges p a).1 h with ⟨h1, _, _⟩ | ⟨h1, h2⟩ | ⟨h1, h2⟩
    · exact ⟨fun _ => .startUp h1, fun e => absurd e (old _ _ h1).1⟩
    · exact ⟨fun _ => .chainUp (.startUp h2) hZv h1, fun e => absurd e (old _ _ h1).1⟩
    · exact ⟨fun e => absurd h1 e, fun _ => ⟨rfl, .startUp h2⟩⟩
  | @chainDown x c _ hz h ih =>
    have hxv' : x ≠ v' := fun e => by have := (ih.2 e).1; cases this
    have R := ih.1 hxv'
    refine ⟨fun _ => ?_, fun e => absurd e (tgt _ _ h)⟩
    rcases (hx.edges x c).1 h with ⟨h1, _, _⟩ | ⟨h1, h2⟩ | ⟨h1, _⟩
    · exact .chainDown R hz h1
    · exact .chainDown (.chainDown R hz h1) hZv h2
    · exact absurd h1 hxv'
  | @collider x p _ han h ih =>
    have hxv' : x ≠ v' := fun e => by have := (ih.2 e).1; cases this
    have R := ih.1 hxv'
    have han' := An x hxv' han
    rcases (hx.edges p x).1 h with ⟨h1, _, _⟩ | ⟨h1, h2⟩ | ⟨h1, h2⟩
    · exact ⟨fun _ => .collider R han' h1, fun e => absurd e (old _ _ h1).1⟩
    · exact ⟨fun _ => .chainUp (.collider R han' h2) hZv h1, fun e => absurd e (old _ _ h1).1⟩
    · exact ⟨fun e => absurd h1 e, fun _ => ⟨rfl, .collider R han' h2⟩⟩
  | @chainUp x p _ hz h ih =>
    have hxv' : x ≠ v' := tgt _ _ h
    have R := ih.1 hxv'
    rcases (hx.edges p x).1 h with ⟨h1, _, _⟩ | ⟨h1, h2⟩ | ⟨h1, h2⟩
    · exact ⟨fun _ => .chainUp R hz h1, fun e => absurd e (old _ _ h1).1⟩
    · exact ⟨fun _ => .chainUp (.chainUp R hz h2) hZv h1, fun e => absurd e (old _ _ h1).1⟩
    · exact ⟨fun e => absurd h1 e, fun _ => ⟨rfl, .chainUp R hz h2⟩⟩
  | @fork x c _ hz h ih =>
    refine ⟨fun _ => ?_, fun e => absurd e (tgt _ _ h)⟩
    rcases (hx.edges x c).1 h with ⟨h1, _, _⟩ | ⟨h1, h2⟩ | ⟨h1, h2⟩
    · exact .fork (ih.1 (old _ _ h1).1) hz h1
    · exact .chainDown (.fork (ih.1 (old _ _ h1).1) hz h1) hZv h2
    · exact .fork (ih.2 h1).2 hZv h2

/-- **rule 1 preserves d-connection among observed nodes** -/
theorem Expand.sameSep (hx : Expand D D' v v') (hw : D.WF) (hv : v ∈ D.latent) (hv' : v' ∉ D.nodes)
    (hloop : ¬ D.Edge v v) : SameSep D D' := by
  intro Z a b hZ ha hb _
  have hav : a ≠ v := fun e => ha.2 (e ▸ hv)
  have hav' : a ≠ v' := fun e => hv' (e ▸ ha.1)
  have hbv : b ≠ v := fun e => hb.2 (e ▸ hv)
  have hbv' : b ≠ v' := fun e => hv' (e ▸ hb.1)
  constructor
  · rintro ⟨s, h⟩; exact ⟨s, (hx.reach_bwd hw hv hv' hloop Z hZ a hav' h).1 hbv'⟩
  · rintro ⟨s, h⟩; exact ⟨s, (hx.reach_fwd hw hv hv' hloop Z hZ a hav h).1 hbv⟩

end expand

/-! ### the loops -/

theorem foldl_transformStep_sameSep (prime : Nat → Nat) (hp : ∀ n, n < prime n) (D : LV) :
    ∀ (ls : List Nat) (Dk : LV), Dk.WF → Dk.Acyclic → (∀ x, Dk.Observed x ↔ D.Observed x) → SameSep D Dk →
      (∀ x ∈ D.latent, x ∈ Dk.nodes → x ∈ Dk.latent) → (∀ l ∈ ls, l ∈ D.latent) →
      SameSep D (ls.foldl (transformStep prime) Dk) := by
  intro ls
  induction ls with
  | nil => intro Dk _ _ _ hs _ _; exact hs
  | cons v ls ih =>
    intro Dk hw ha hobs hs hL hls
    simp only [List.foldl_cons]
    by_cases hemp : Dk.parents v = [] ∨ Dk.children v = []
    · rw [transformStep_of_empty prime Dk v hemp]
      exact ih Dk hw ha hobs hs hL (fun l hl => hls l (by simp [hl]))
    · rw [not_or] at hemp
      have hloop : ¬ Dk.Edge v v := fun e => ha v (.single e)
      obtain ⟨p, hpv⟩ := List.exists_mem_of_ne_nil _ hemp.1
      rw [mem_parents] at hpv
      have hvn : v ∈ Dk.nodes := (hw.edge_mem _ hpv).2
      have hvl : v ∈ Dk.latent := hL v (hls v (by simp)) hvn
      obtain ⟨v', hv', hx, hw'⟩ := transformStep_expand prime hp Dk hw v hloop hemp.1 hemp.2
      apply ih _ hw' (hx.acyclic hw hv' ha)
        (fun x => (hx.observed hvl hv' x).trans (hobs x))
        (hs.trans hobs (hx.sameSep hw hvl hv' hloop))
      · intro x hxl hxn
        rcases (hx.nodes x).1 hxn with ⟨h1, h2⟩ | h
        · exact (hx.latent x).2 (Or.inl ⟨hL x hxl h1, h2⟩)
        · exact (hx.latent x).2 (Or.inr h)
      · exact fun l hl => hls l (by simp [hl])

theorem transform_sameSep (prime : Nat → Nat) (hp : ∀ n, n < prime n) (D D1 : LV) (hw : D.WF) (ha : D.Acyclic)
    (h : D.transformLatentsWithParents prime = .ok D1) : SameSep D D1 := by
  unfold transformLatentsWithParents at h
  cases hl : D.iterLatents with
  | error e => rw [hl] at h; cases h
  | ok ls =>
    rw [hl] at h
    have : D1 = ls.foldl (transformStep prime) D := by cases h; rfl
    subst this
    exact foldl_transformStep_sameSep prime hp D ls D hw ha (fun _ => Iff.rfl) (SameSep.refl D)
      (fun x hx _ => hx) (fun l hl' => (mem_iterLatents D hw ls hl l).1 hl')

theorem removeWidowsLoop_sameSep :
    ∀ (fuel : Nat) (D : LV) (acc : List Nat) (D' : LV) (acc' : List Nat),
      removeWidowsLoop fuel D acc = .ok (D', acc') → D.WF → SameSep D D' := by
  intro fuel
  induction fuel with
  | zero =>
    intro D acc D' acc' h _
    simp only [removeWidowsLoop] at h
    have : D' = D := by cases h; rfl
    subst this
    exact SameSep.refl _
  | succ n ih =>
    intro D acc D' acc' h hw
    simp only [removeWidowsLoop] at h
    cases hws : D.widows with
    | error e => rw [hws] at h; cases h
    | ok ws =>
      rw [hws] at h
      have hmem := mem_widows D hw ws hws
      by_cases hemp : ws.isEmpty
      · simp only [bind, Except.bind, hemp, if_true] at h
        have : D' = D := by cases h; rfl
        subst this
        exact SameSep.refl _
      · simp only [bind, Except.bind, hemp, Bool.false_eq_true, if_false] at h
        have hS : ∀ s ∈ ws, s ∈ D.latent := fun s hs => ((hmem s).1 hs).1
        have hW : ∀ s ∈ ws, ∀ c, ¬ D.Edge s c := fun s hs => ((hmem s).1 hs).2
        exact (removeWidows_sameSep D ws hS hW).trans (observed_removeNodes D ws hS)
          (ih (D.removeNodes ws) (acc ++ ws) D' acc' h (wf_removeNodes D ws hw))

/-- **the whole simplification preserves d-connection among observed nodes inside the LV-DAG** -/
theorem simplify_sameSep' (prime : Nat → Nat) (hp : ∀ n, n < prime n) (D : LV) (hw : D.WF) (ha : D.Acyclic)
    (r : SimplifyResults) (h : D.simplify prime = .ok r) : SameSep D r.graph := by
  unfold simplify at h
  cases h1 : D.transformLatentsWithParents prime with
  | error e => simp [h1, bind, Except.bind] at h
  | ok D1 =>
    obtain ⟨w1, a1, s1, n1⟩ := transform_spec prime hp D D1 hw ha h1
    have p1 := transform_sameSep prime hp D D1 hw ha h1
    cases h2 : D1.removeWidowLatents with
    | error e => simp [h1, h2, bind, Except.bind] at h
    | ok p2 =>
      obtain ⟨D2, ws⟩ := p2
      obtain ⟨w2, a2, s2, f2, c2⟩ := removeWidowLatents_spec D1 D2 ws h2 w1 a1 n1
      have p2 : SameSep D1 D2 := removeWidowsLoop_sameSep _ D1 [] D2 ws h2 w1
      cases h3 : D2.removeUnidirectionalLatents with
      | error e => simp [h1, h2, h3, bind, Except.bind] at h
      | ok p3 =>
        obtain ⟨D3, us⟩ := p3
        obtain ⟨e3, hS3, s3, t3⟩ := removeUnidirectionalLatents_spec D2 D3 us h3 w2 f2 c2
        have hmem3 : ∀ l, l ∈ us ↔ l ∈ D2.latent ∧ (D2.children l).length = 1 := by
          unfold removeUnidirectionalLatents at h3
          cases hu : D2.unidirectional with
          | error e => rw [hu] at h3; cases h3
          | ok us' =>
            rw [hu] at h3
            have : us = us' := by cases h3; rfl
            subst this
            exact mem_unidirectional D2 w2 us hu
        have p3 : SameSep D2 D3 := by
          rw [e3]
          apply removeLatents_sameSep_flat D2 f2 us hS3
          intro s hs u w hn su sw
          have hlen := ((hmem3 s).1 hs).2
          have hu' := (mem_children D2 s u).2 su
          have hw' := (mem_children D2 s w).2 sw
          match hc : D2.children s, hlen with
          | [c], _ =>
            rw [hc] at hu' hw'
            simp only [List.mem_singleton] at hu' hw'
            exact absurd (hu'.trans hw'.symm) hn
        have w3 : D3.WF := e3 ▸ wf_removeNodes D2 us w2
        have f3 : D3.Flat := e3 ▸ flat_removeNodes D2 us f2
        cases h4 : D3.removeRedundantLatents with
        | error e => simp [h1, h2, h3, h4, bind, Except.bind] at h
        | ok p4 =>
          obtain ⟨D4, rs⟩ := p4
          obtain ⟨e4, s4, w4, simp4⟩ := removeRedundantLatents_spec D3 D4 rs h4 w3 f3 t3
          have hmem4 : ∀ l, l ∈ rs ↔ l ∈ D3.latent ∧ ∃ r ∈ D3.latent, D3.Dominates r l := by
            unfold removeRedundantLatents at h4
            cases hr : D3.redundant with
            | error e => rw [hr] at h4; cases h4
            | ok rs' =>
              rw [hr] at h4
              have : rs = rs' := by cases h4; rfl
              subst this
              exact mem_redundant D3 w3 rs hr
          have p4 : SameSep D3 D4 := by
            rw [e4]
            apply removeLatents_sameSep_flat D3 f3 rs (fun s hs => ((hmem4 s).1 hs).1)
            intro s hs u w _ su sw
            obtain ⟨r, hr', hrS, hsub⟩ := exists_cover D3 w3 rs hmem4 _ s ((hmem4 s).1 hs).1 (le_refl _)
            exact ⟨r, hr', hrS, (mem_children D3 r u).1 (hsub u ((mem_children D3 s u).2 su)),
              (mem_children D3 r w).1 (hsub w ((mem_children D3 s w).2 sw))⟩
          simp only [h1, h2, h3, h4, bind, Except.bind, pure, Except.pure, Except.ok.injEq] at h
          subst h
          exact ((p1.trans s1.obs p2).trans (s1.trans s2).obs p3).trans ((s1.trans s2).trans s3).obs p4

end Y0.LV
