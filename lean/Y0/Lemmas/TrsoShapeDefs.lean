/-
  Y0.Lemmas.TrsoShapeDefs — the syntactic shape of the expressions a source-domain run of TRSO builds, used to show
  that `activate_domain_and_interventions` never meets `One()` (the last raise site of C05):

    NoOne e       no `One()` anywhere inside `e`  (`activate` raises NotImplementedError exactly on `One()`);
    PW e          every `Product` has at least two factors (what `Product.safe` guarantees);
    chain e       `e` is an iterated `Sum` directly over a joint leaf `P[pop](c)`: the children and the summed names;
    ChainOK e     no such iterated sum inside `e` sums out ALL children of its leaf (`Sum.simplify` would return `One()`);
    FracNe e      no fraction inside `e` has numerator and denominator of the same value at the assignment `σ₀` (in the
                  given reading of the leaves): `canonicalize` returns `One()` for a fraction with canonically equal parts,
                  which have equal values in every reading.
    Shape e       all of them.
-/
import Y0.Lemmas.TrsoDenCanon
import Y0.Lemmas.TrsoSumND

namespace Y0
namespace Trso
open TrDsl

mutual
def NoOne : Expr → Prop
  | .prod fs => NoOneList fs
  | .sum e _ => NoOne e
  | .frac n d => NoOne n ∧ NoOne d
  | .one => False
  | _ => True
def NoOneList : List Expr → Prop
  | [] => True
  | e :: es => NoOne e ∧ NoOneList es
end

theorem noOneList_iff (es : List Expr) : NoOneList es ↔ ∀ e ∈ es, NoOne e := by
  induction es with
  | nil => simp [NoOneList]
  | cons e es ih => simp [NoOneList, ih]

mutual
def PW : Expr → Prop
  | .prod fs => 2 ≤ fs.length ∧ PWList fs
  | .sum e _ => PW e
  | .frac n d => PW n ∧ PW d
  | _ => True
def PWList : List Expr → Prop
  | [] => True
  | e :: es => PW e ∧ PWList es
end

theorem pwList_iff (es : List Expr) : PWList es ↔ ∀ e ∈ es, PW e := by
  induction es with
  | nil => simp [PWList]
  | cons e es ih => simp [PWList, ih]

/-- an iterated `Sum` directly over a joint leaf: the children of the leaf and all summed names -/
def chain : Expr → Option (List Var × List Name)
  | .prob _ c [] => some (c, [])
  | .sum e r => (chain e).map fun p => (p.1, p.2 ++ r.map (·.name))
  | _ => none

mutual
def ChainOK : Expr → Prop
  | .prod fs => ChainOKList fs
  | .sum e r => ChainOK e ∧ ∀ c s, chain (.sum e r) = some (c, s) → ∃ n ∈ c.map (·.name), n ∉ s
  | .frac n d => ChainOK n ∧ ChainOK d
  | _ => True
def ChainOKList : List Expr → Prop
  | [] => True
  | e :: es => ChainOK e ∧ ChainOKList es
end

theorem chainOKList_iff (es : List Expr) : ChainOKList es ↔ ∀ e ∈ es, ChainOK e := by
  induction es with
  | nil => simp [ChainOKList]
  | cons e es ih => simp [ChainOKList, ih]

section
variable (card : Name → Nat) (leaf : LeafFn) (σ₀ : Val)

mutual
def FracNe : Expr → Prop
  | .prod fs => FracNeList fs
  | .sum e _ => FracNe e
  | .frac n d => FracNe n ∧ FracNe d ∧ denL card leaf n σ₀ ≠ denL card leaf d σ₀
  | _ => True
def FracNeList : List Expr → Prop
  | [] => True
  | e :: es => FracNe e ∧ FracNeList es
end

theorem fracNeList_iff (es : List Expr) : FracNeList card leaf σ₀ es ↔ ∀ e ∈ es, FracNe card leaf σ₀ e := by
  induction es with
  | nil => simp [FracNeList]
  | cons e es ih => simp [FracNeList, ih]

/-- the shape invariant -/
structure Shape (e : Expr) : Prop where
  noOne : NoOne e
  pw : PW e
  chain : ChainOK e
  frac : FracNe card leaf σ₀ e

end

end Trso
end Y0
