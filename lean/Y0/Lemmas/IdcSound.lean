/-
  Y0.Lemmas.IdcSound — soundness of IDC relative to rule 2 of the do-calculus (stated as the explicit hypothesis
  `Rule2Sound`), on top of the soundness of ID.
-/
import Y0.Lemmas.IdcStep
import Y0.Lemmas.IdSoundD

namespace Y0
open IdDsl IdAux MG

/-- `P(y, z | do x) / P(z | do x)` in the model `M` -/
def Scm.condDo (M : Scm) (G : MG Name) (X Y Z : List Name) (σ : Val) : Rat :=
  M.doProb G X (union' Y Z) σ / M.doProb G X Z σ

/-- a valid conditional query: `X`, `Y`, `Z` pairwise disjoint, `Y`, `Z` inside the graph, `Y` non-empty -/
structure CondDisj (G : MG Name) (X Y Z : List Name) : Prop where
  yx : ∀ y ∈ Y, y ∉ X
  zx : ∀ z ∈ Z, z ∉ X
  yz : ∀ y ∈ Y, y ∉ Z
  ysub : ∀ y ∈ Y, y ∈ G.nodes
  zsub : ∀ z ∈ Z, z ∈ G.nodes
  yne : Y ≠ []

/-- **rule 2 of the do-calculus** for the separation test `sep` in the model `M` (the hypothesis `idc_sound` is
relative to): if every outcome is separated from the condition `c` given `X ∪ (Z − c)` in the graph with the edges
into `X` and out of `c` removed, then observing `c` and intervening on `c` give the same conditional distribution -/
def Rule2Sound (sep : SepTest) (M : Scm) (G : MG Name) : Prop :=
  ∀ (X Y Z : List Name) (c : Name), CondDisj G X Y Z → c ∈ Z → rule2Applies sep G X Y Z c = .ok true →
    ∀ σ, M.condDo G X Y Z σ = M.condDo G (union' X [c]) Y (Z.filter (· ≠ c)) σ

section
variable {M : Scm} {G : MG Name}

/-- marginalising `P(y, z | do x)` over `y` gives `P(z | do x)` -/
theorem sum_doProb (hG : G.WF) {X Y Z : List Name} (hd : CondDisj G X Y Z) (σ : Val) :
    sumVars M.card (sortNames Y) (M.doProb G X (union' Y Z)) σ = M.doProb G X Z σ := by
  have hfun : M.doProb G X (union' Y Z) =
      sumVars M.card (G.nodes.filter (fun v => v ∉ X ∧ v ∉ union' Y Z)) (M.Q (G.nodes.filter (· ∉ X))) := rfl
  rw [hfun, ← sumVars_append, doProb_eq]
  refine congrFun (sumVars_congr_set M.card ?_ (hG.nodup.filter _) (fun v => ?_) _) σ
  · refine List.Nodup.append (sortNames_nodup Y) (hG.nodup.filter _) ?_
    intro a ha hb
    have := (List.mem_filter.mp hb).2
    simp only [mem_union', not_or, decide_eq_true_eq] at this
    exact this.2.1 (mem_sortNames.mp ha)
  · simp only [List.mem_append, mem_sortNames, List.mem_filter, mem_union', not_or, decide_eq_true_eq,
      Bool.and_eq_true, Bool.decide_and]
    constructor
    · rintro (h | ⟨h1, h2, _, h4⟩)
      · exact ⟨hd.ysub v h, hd.yx v h, hd.yz v h⟩
      · exact ⟨h1, h2, h4⟩
    · rintro ⟨h1, h2, h3⟩
      by_cases hy : v ∈ Y
      · exact Or.inl hy
      · exact Or.inr ⟨h1, h2, hy, h3⟩

end

section
variable {sep : SepTest} {topo : MG Name → Except Err (List Name)} {M : Scm} {G : MG Name} {σ' : Val}

/-- soundness of the IDC loop, relative to rule 2 -/
theorem idcAlg_sound (ctx : SCtx M G) (ts : TopoSound topo) (hr2 : Rule2Sound sep M G) {est : Expr}
    (hest : pJoint G.nodes = .ok est) (Y : List Name) :
    ∀ (fuel : Nat) (X Z : List Name) (e : Expr), CondDisj G X Y Z →
      idcAlg sep topo G est fuel X Y Z = .ok e → ∀ σ, den (M.env G) σ' e σ = M.condDo G X Y Z σ := by
  have base : ∀ (X Z : List Name) (e e0 : Expr), CondDisj G X Y Z →
      idAlg topo { G := G, X := X, Y := union' Y Z, est := est } = .ok e0 → normalizeMarginalize e0 Y = .ok e →
      ∀ σ, den (M.env G) σ' e σ = M.condDo G X Y Z σ := by
    intro X Z e e0 hd he0 hn σ
    have hq : ValidQuery G X (union' Y Z) := by
      refine ⟨ctx.hG0, ctx.hrank, ?_, ?_, ?_⟩
      · intro y hy
        rcases mem_union'.mp hy with h | h
        · exact hd.ysub y h
        · exact hd.zsub y h
      · obtain ⟨y, hy⟩ := List.exists_mem_of_ne_nil _ hd.yne
        exact List.ne_nil_of_mem (mem_union'.mpr (Or.inl hy))
      · intro y hy
        rcases mem_union'.mp hy with h | h
        · exact hd.yx y h
        · exact hd.zx y h
    have hinv : SInv M G σ' { G := G, X := X, Y := union' Y Z, est := est } := by
      have hj := hest
      unfold pJoint at hj
      split at hj
      · cases hj
      · simp only [Except.ok.injEq] at hj
        subst hj
        refine ⟨⟨hq.wf, hq.ranked, hq.ysub, hq.yne, hq.disj, trivial⟩, Sub.refl G, ?_, fun _ S _ _ σ => rfl⟩
        intro σ
        simp only [den, Option.map_none, Scm.env, List.append_nil, List.map_nil]
        have h1 : ((sortNames G.nodes).map Var.plain).map (Var.atom σ σ') =
            (sortNames G.nodes).map (fun n => Var.atom σ σ' (Var.plain n)) := by simp [Function.comp_def]
        rw [h1, Scm.prAtoms_plain ctx.hM ctx.hG0 ctx.hrank]
        simp only [Scm.prAtoms, div_one]
        unfold Scm.obsMarg
        have : G.nodes.filter (· ∉ sortNames G.nodes) = [] := by
          apply List.filter_eq_nil_iff.mpr
          intro v hv
          simp [mem_sortNames, hv]
        rw [this]
        rfl
    have h0 : ∀ τ, den (M.env G) σ' e0 τ = M.doProb G X (union' Y Z) τ := idAlg_sound ctx ts _ e0 he0 hinv
    unfold normalizeMarginalize marginalize at hn
    rw [den_div _ _ _ _ _ hn, den_sumSafe, funext h0]
    unfold Scm.condDo
    congr 1
    exact sum_doProb ctx.hG0 hd σ
  intro fuel
  induction fuel with
  | zero =>
    intro X Z e hd h σ
    rcases idcAlg_ok h with ⟨c, f', _, hf, _⟩ | ⟨_, e0, he0, hn⟩
    · cases hf
    · exact base X Z e e0 hd he0 hn σ
  | succ n ih =>
    intro X Z e hd h σ
    rcases idcAlg_ok h with ⟨c, f', hfa, hf, hrec⟩ | ⟨_, e0, he0, hn⟩
    · cases hf
      obtain ⟨hcZ, hr⟩ := firstApplicable_some hfa
      have hd' : CondDisj G (union' X [c]) Y (Z.filter (· ≠ c)) := by
        refine ⟨?_, ?_, ?_, hd.ysub, ?_, hd.yne⟩
        · intro y hy hc
          rcases mem_union'.mp hc with h1 | h1
          · exact hd.yx y hy h1
          · simp only [List.mem_singleton] at h1
            exact hd.yz y hy (h1 ▸ hcZ)
        · intro z hz hc
          obtain ⟨hz1, hz2⟩ := List.mem_filter.mp hz
          rcases mem_union'.mp hc with h1 | h1
          · exact hd.zx z hz1 h1
          · simp only [List.mem_singleton] at h1
            simp [h1] at hz2
        · intro y hy hc
          exact hd.yz y hy (List.mem_filter.mp hc).1
        · intro z hz
          exact hd.zsub z (List.mem_filter.mp hz).1
      rw [ih _ _ e hd' hrec σ]
      exact (hr2 X Y Z c hd hcZ hr σ).symm
    · exact base X Z e e0 hd he0 hn σ

end
end Y0
