/-
  Y0.Lemmas.CtfTrShape — the shape of an answer of Algorithm 2 (`CtfTr.ctfTRu`) and its denotation:

    `ctfTRu_answer_shape`   an answer `(x, some ev)` comes from SIMPLIFY (`ev`), line 2 (`anc`, `factors`), a transport
                            of every ctf-factor (`qs`) and `x = Sum.safe(Product.safe(qs), summed)`;
    `den_ctfTRu_answer`     `den env σ' x σ = Σ_{summed} Π_j den env σ' q_j`;
    `den_trProductSafe`     `Product.safe` (the `TrDsl` model) denotes the product of its arguments.
-/
import Y0.Model.CtfTr
import Y0.Spec.Sem
import Y0.Lemmas.SemBasic
import Y0.Lemmas.CtfTrSigma
import Y0.Lemmas.DslList

namespace Y0.CtfTr
open Ctf

/-- the names Algorithm 2 sums over: the ancestors of the simplified event that are not event items -/
def summedNames (anc ev : Event) : List Name :=
  dedup' ((anc.filter fun p => !ev.any (fun q => q.1 == p.1 && q.2 == p.2)).map (·.1.name))

theorem afterValidation_ok' {α} {x : Except Err α} {a : α} (h : afterValidation x = .ok a) : x = .ok a := by
  unfold afterValidation at h
  split at h
  · cases h
  · exact h

/-- **shape of an answer of Algorithm 2** -/
theorem ctfTRu_answer_shape (target : MG Name) (ds : List Domain) (e ev : Event) (x : Expr)
    (h : ctfTRu target ds e = .ok (some (x, some ev))) :
    ∃ anc factors qs, validateU target ds e = .ok () ∧ simplify target e = .ok (some ev) ∧
      line2 target ev = .ok (anc, factors) ∧ factors.any factorInconsistent = false ∧
      transportFactors ds factors = .ok (some qs) ∧
      x = TrDsl.sumSafe (TrDsl.productSafe qs) ((summedNames anc ev).map Var.plain) := by
  unfold ctfTRu at h
  split at h
  · cases h
  · rename_i hv
    have h' := afterValidation_ok' h
    simp only [bind, Except.bind] at h'
    cases hs : simplify target e with
    | error err => rw [hs] at h'; cases h'
    | ok o =>
      rw [hs] at h'
      cases o with
      | none => simp [pure, Except.pure] at h'
      | some ev' =>
        simp only [] at h'
        cases hl : line2 target ev' with
        | error err => rw [hl] at h'; cases h'
        | ok l2 =>
          rw [hl] at h'
          obtain ⟨anc, factors⟩ := l2
          simp only [] at h'
          cases hinc : factors.any factorInconsistent with
          | true => rw [hinc] at h'; simp [pure, Except.pure] at h'
          | false =>
            rw [hinc] at h'
            simp only [Bool.false_eq_true, ↓reduceIte] at h'
            cases ht : transportFactors ds factors with
            | error err => rw [ht] at h'; cases h'
            | ok t =>
              rw [ht] at h'
              cases t with
              | none => simp [pure, Except.pure] at h'
              | some qs =>
                simp only [pure, Except.pure, Except.ok.injEq, Option.some.injEq, Prod.mk.injEq] at h'
                obtain ⟨hx, hev⟩ := h'
                subst hev
                exact ⟨anc, factors, qs, hv, rfl, hl, hinc, ht, hx.symm⟩

/-! ### denotation of the constructors -/

variable (env : Env) (σ' : Val)

theorem denProd_filter_notOne (l : List Expr) (σ : Val) :
    denProd env σ' (l.filter fun e => !TrDsl.isOne e) σ = denProd env σ' l σ := by
  induction l with
  | nil => rfl
  | cons a l ih =>
    simp only [List.filter_cons]
    by_cases h1 : TrDsl.isOne a = true
    · have : a = .one := by cases a <;> simp [TrDsl.isOne] at h1; rfl
      subst this
      simp only [h1, Bool.not_true, Bool.false_eq_true, ↓reduceIte, denProd_cons, den_one, one_mul]
      exact ih
    · have h2 : TrDsl.isOne a = false := by simpa using h1
      simp only [h2, Bool.not_false, ↓reduceIte, denProd_cons, ih]

theorem denProd_zero_of_any (l : List Expr) (σ : Val) (h : l.any TrDsl.isZero = true) : denProd env σ' l σ = 0 := by
  induction l with
  | nil => simp at h
  | cons a l ih =>
    simp only [List.any_cons, Bool.or_eq_true] at h
    rcases h with h | h
    · have : a = .zero := by cases a <;> simp [TrDsl.isZero] at h; rfl
      subst this
      simp
    · simp [ih h]

/-- `Product.safe` (model `TrDsl.productSafe`) denotes the product of its arguments -/
theorem den_trProductSafe (l : List Expr) (σ : Val) :
    den env σ' (TrDsl.productSafe l) σ = denProd env σ' l σ := by
  unfold TrDsl.productSafe
  rw [← denProd_filter_notOne env σ' l σ]
  generalize l.filter (fun e => !TrDsl.isOne e) = m
  by_cases hz : m.any TrDsl.isZero = true
  · simp [hz, denProd_zero_of_any env σ' m σ hz]
  · simp only [hz, Bool.false_eq_true, if_false]
    match m with
    | [] => simp
    | [e] => simp
    | a :: b :: r =>
      simp only [den]
      exact denProd_perm (ssort_perm _ _) σ

theorem sumVars_zero' (card : Name → Nat) (xs : List Name) (σ : Val) : sumVars card xs (fun _ => 0) σ = 0 := by
  induction xs generalizing σ with
  | nil => rfl
  | cons x xs ih =>
    simp only [sumVars, sumVar, sumRange]
    have : (fun k => sumVars card xs (fun _ => (0 : Rat)) (σ.set x k)) = fun _ => 0 := by funext k; exact ih _
    rw [this]
    induction (List.range (card x)) with
    | nil => rfl
    | cons a as iha => simp

/-- `Sum.safe(e, ranges)` denotes the iterated sum over the (sorted) range variables -/
theorem den_trSumSafe (e : Expr) (rs : List Var) (σ : Val) :
    den env σ' (TrDsl.sumSafe e rs false) σ =
      sumVars env.card ((TrDsl.sortVars rs).map (·.name)) (fun τ => den env σ' e τ) σ := by
  unfold TrDsl.sumSafe
  simp only []
  split
  · rename_i h
    have : TrDsl.sortVars rs = [] := by simpa using h
    simp [this, sumVars]
  · split
    · rename_i hz
      have : e = .zero := by cases e <;> simp [TrDsl.isZero] at hz; rfl
      subst this
      simp only [den]
      exact (sumVars_zero' _ _ _).symm
    · simp

/-- the sorted list of plain range variables of duplicate-free names is a permutation of the names -/
theorem sortVars_plain_names (ns : List Name) (hnd : ns.Nodup) :
    ((TrDsl.sortVars (ns.map Var.plain)).map (·.name)).Perm ns := by
  unfold TrDsl.sortVars
  have h1 : (TrDsl.ssort Var.keyLt (dedup' (ns.map Var.plain))).Perm (dedup' (ns.map Var.plain)) := ssort_perm _ _
  have hnd' : (ns.map Var.plain).Nodup := by
    apply List.Nodup.map _ hnd
    intro a b hab
    have : (Var.plain a).name = (Var.plain b).name := by rw [hab]
    exact this
  have h2 : dedup' (ns.map Var.plain) = ns.map Var.plain := dedup'_of_nodup hnd'
  rw [h2]
  rw [h2] at h1
  have := h1.map (·.name)
  rw [List.map_map] at this
  have hid : ((fun v : Var => v.name) ∘ Var.plain) = id := by funext n; rfl
  rw [hid, List.map_id] at this
  exact this

/-- **denotation of an answer of Algorithm 2**: the sum, over the summed names, of the product of the transported
factors -/
theorem den_ctfTRu_answer (qs : List Expr) (summed : List Name) (hnd : summed.Nodup) (σ : Val) :
    den env σ' (TrDsl.sumSafe (TrDsl.productSafe qs) (summed.map Var.plain)) σ =
      sumVars env.card summed (fun τ => denProd env σ' qs τ) σ := by
  rw [den_trSumSafe]
  have hperm := sortVars_plain_names summed hnd
  rw [sumVars_perm env.card hperm]
  apply sumVars_congr
  intro τ
  exact den_trProductSafe env σ' qs τ

theorem summedNames_nodup (anc ev : Event) : (summedNames anc ev).Nodup := nodup_dedup' _

end Y0.CtfTr
