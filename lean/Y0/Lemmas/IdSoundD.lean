/-
  Y0.Lemmas.IdSoundD — soundness of lines 4, 6 and 7 of ID and the induction over the recursion (`idAlg_sound`).
-/
import Y0.Lemmas.IdSoundC

namespace Y0
open IdDsl IdAux MG

theorem IdAux.seteq'_iff {a b : List Name} : seteq' a b = true ↔ ∀ v, v ∈ a ↔ v ∈ b := by
  unfold seteq'
  simp only [Bool.and_eq_true, subset'_iff]
  exact ⟨fun h v => ⟨h.1 v, h.2 v⟩, fun h => ⟨fun v => (h v).mp, fun v => (h v).mpr⟩⟩

section
variable {M : Scm} {G0 : MG Name} {σ' : Val} {I : IdIn} {topo : MG Name → Except Err (List Name)}

/-- line 6: `V ∖ X` is a district of the current graph -/
theorem sound_l6 (ctx : SCtx M G0) (ts : TopoSound topo) (inv : SInv M G0 σ' I) {S D order : List Name}
    {fs : List Expr} (hS : (I.G.removeNodes I.X).districts = [S]) (hD : D ∈ I.G.districts)
    (hDS : seteq' D S = true) (ho : topo I.G = .ok order) (hf : S.mapM (pParents order I.est) = .ok fs) (σ : Val) :
    den (M.env G0) σ' (sumSafe (productSafe fs) (diff' S I.Y)) σ = M.doProb I.G I.X I.Y σ := by
  have hVnd := inv.valid.wf.nodup
  have hSm : S ∈ (I.G.removeNodes I.X).districts := by rw [hS]; simp
  have hSnd : S.Nodup := nodup_of_mem_districts hSm
  have hSmem := single_gx inv.valid hS
  have hDSm := seteq'_iff.mp hDS
  have hprod : ∀ τ, den (M.env G0) σ' (productSafe fs) τ = M.Q S τ := by
    intro τ
    rw [den_productSafe]
    apply prod_pParents ctx ts inv ho S hSnd (fun v hv => ((hSmem v).mp hv).1) _ hf
    intro v hv w hw hwS
    exact district_sep ctx inv hD v ((hDSm v).mpr hv) w hw (fun hc => hwS ((hDSm w).mp hc))
  rw [den_sumSafe, funext hprod, doProb_eq]
  have hQ : M.Q S = M.Q (I.G.nodes.filter (· ∉ I.X)) := by
    apply M.Q_congr_set hSnd (hVnd.filter _)
    intro v; simp [hSmem v]
  rw [hQ]
  refine congrFun (sumVars_sortNames M.card (hVnd.filter _) (fun v => ?_) _) σ
  simp only [mem_diff', hSmem v, List.mem_filter, decide_eq_true_eq, Bool.and_eq_true, Bool.decide_and]
  tauto

/-- line 7: restriction to the district `D ⊋ V ∖ X` of the current graph, with the estimand `Q[D]` -/
theorem sound_l7 (ctx : SCtx M G0) (ts : TopoSound topo) (inv : SInv M G0 σ' I) {S D order : List Name}
    {fs : List Expr} (hS : (I.G.removeNodes I.X).districts = [S])
    (hfind : I.G.districts.find? (fun D => properSubset S D) = some D) (ho : topo I.G = .ok order)
    (hf : D.mapM (pParents order I.est) = .ok fs)
    (hvJ : Valid { G := I.G.subgraph D, X := inter' I.X D, Y := I.Y, est := productSafe fs }) :
    SInv M G0 σ' { G := I.G.subgraph D, X := inter' I.X D, Y := I.Y, est := productSafe fs } ∧
      ∀ σ, M.doProb (I.G.subgraph D) (inter' I.X D) I.Y σ = M.doProb I.G I.X I.Y σ := by
  have hwf := inv.valid.wf
  have hVnd := hwf.nodup
  have hD : D ∈ I.G.districts := List.mem_of_find?_eq_some hfind
  have hprop : properSubset S D = true := by
    have := List.find?_some hfind
    simpa using this
  unfold properSubset at hprop
  simp only [Bool.and_eq_true, Bool.not_eq_true'] at hprop
  have hSD : ∀ v ∈ S, v ∈ D := subset'_iff.mp hprop.1
  have hDV : ∀ v ∈ D, v ∈ I.G.nodes := fun v hv => mem_nodes_of_mem_district hwf hD hv
  have hDnd : D.Nodup := nodup_of_mem_districts hD
  have hSmem := single_gx inv.valid hS
  have hA : ∀ v, v ∈ (I.G.subgraph D).nodes ↔ v ∈ D := mem_nodes_subgraph I.G D
  have hAnd : (I.G.subgraph D).nodes.Nodup := (wf_subgraph I.G D).nodup
  have hprod : ∀ τ, den (M.env G0) σ' (productSafe fs) τ = M.Q (I.G.subgraph D).nodes τ := by
    intro τ
    rw [den_productSafe, prod_pParents ctx ts inv ho D hDnd hDV (district_sep ctx inv hD) hf τ]
    exact congrFun (M.Q_congr_set hDnd hAnd (fun v => (hA v).symm)) τ
  obtain ⟨l, hl⟩ := l7_productSafe_prod inv.valid hS hfind hf
  refine ⟨⟨hvJ, inv.sub.subgraph D hDV, hprod, ?_⟩, ?_⟩
  · intro hm
    rw [show ({ G := I.G.subgraph D, X := inter' I.X D, Y := I.Y, est := productSafe fs } : IdIn).est
      = productSafe fs from rfl, hl] at hm
    simp [isObsMarginal] at hm
  · intro σ
    rw [doProb_eq, doProb_eq]
    have hDX : ∀ v, (v ∈ D ∧ v ∉ I.X) ↔ (v ∈ I.G.nodes ∧ v ∉ I.X) := by
      intro v
      constructor
      · rintro ⟨h1, h2⟩; exact ⟨hDV v h1, h2⟩
      · rintro ⟨h1, h2⟩; exact ⟨hSD v ((hSmem v).mpr ⟨h1, h2⟩), h2⟩
    have hQ : M.Q ((I.G.subgraph D).nodes.filter (· ∉ inter' I.X D)) = M.Q (I.G.nodes.filter (· ∉ I.X)) := by
      apply M.Q_congr_set (hAnd.filter _) (hVnd.filter _)
      intro v
      simp only [List.mem_filter, hA, mem_inter', decide_eq_true_eq, not_and]
      constructor
      · rintro ⟨h1, h2⟩
        exact (hDX v).mp ⟨h1, fun hx => h2 hx h1⟩
      · intro h
        obtain ⟨h1, h2⟩ := (hDX v).mpr h
        exact ⟨h1, fun hx => absurd hx h2⟩
    rw [hQ]
    refine congrFun (sumVars_congr_set M.card (hAnd.filter _) (hVnd.filter _) (fun v => ?_) _) σ
    simp only [List.mem_filter, hA, mem_inter', decide_eq_true_eq, not_and, Bool.and_eq_true, Bool.decide_and]
    constructor
    · rintro ⟨h1, h2, h3⟩
      obtain ⟨h4, h5⟩ := (hDX v).mp ⟨h1, fun hx => h2 hx h1⟩
      exact ⟨h4, h5, h3⟩
    · rintro ⟨h1, h2, h3⟩
      obtain ⟨h4, h5⟩ := (hDX v).mpr ⟨h1, h2⟩
      exact ⟨h4, fun hx => absurd hx h5, h3⟩

/-- the sub-problem line 4 creates for a district `S` of `G ∖ X` asks for `Q[S]` -/
theorem doProb_line4 (inv : SInv M G0 σ' I) {S : List Name} (hSnd : S.Nodup) (hSV : ∀ v ∈ S, v ∈ I.G.nodes)
    (σ : Val) : M.doProb I.G (diff' I.G.nodes S) S σ = M.Q S σ := by
  rw [doProb_eq]
  have h1 : I.G.nodes.filter (fun v => v ∉ diff' I.G.nodes S ∧ v ∉ S) = [] := by
    apply List.filter_eq_nil_iff.mpr
    intro v hv
    simp only [mem_diff', not_and, not_not, decide_eq_true_eq]
    intro h1
    exact h1 hv
  rw [h1]
  simp only [sumVars]
  apply congrFun
  apply M.Q_congr_set (inv.valid.wf.nodup.filter _) hSnd
  intro v
  simp only [List.mem_filter, mem_diff', not_and, not_not, decide_eq_true_eq]
  exact ⟨fun h => h.2 h.1, fun h => ⟨hSV v h, fun _ => h⟩⟩

/-- line 4: c-component factorisation of `Q[V ∖ X]` -/
theorem sound_l4 (ctx : SCtx M G0) (inv : SInv M G0 σ' I)
    {es : List Expr}
    (hall : List.Forall₂ (fun J e => idAlg topo J = .ok e ∧
      (SInv M G0 σ' J → ∀ σ, den (M.env G0) σ' e σ = M.doProb J.G J.X J.Y σ))
      ((I.G.removeNodes I.X).districts.map fun S => ({ G := I.G, X := diff' I.G.nodes S, Y := S, est := I.est } : IdIn))
      es)
    (hvJ : ∀ S ∈ (I.G.removeNodes I.X).districts,
      Valid ({ G := I.G, X := diff' I.G.nodes S, Y := S, est := I.est } : IdIn)) (σ : Val) :
    den (M.env G0) σ' (sumSafe (productSafe es) (diff' I.G.nodes (union' I.Y I.X))) σ =
      M.doProb I.G I.X I.Y σ := by
  have hwf := inv.valid.wf
  have hVnd := hwf.nodup
  have hwfx := IdAux.wf_removeNodes I.G I.X
  set ds := (I.G.removeNodes I.X).districts with hds
  have hdsV : ∀ S ∈ ds, ∀ v ∈ S, v ∈ I.G.nodes ∧ v ∉ I.X := fun S hS v hv =>
    (mem_nodes_removeNodes I.G hwf I.X v).mp (mem_nodes_of_mem_district hwfx hS hv)
  -- each factor denotes the c-factor of its district
  have hfac : ∀ (l : List (List Name)) (es' : List Expr), (∀ S ∈ l, S ∈ ds) →
      List.Forall₂ (fun J e => idAlg topo J = .ok e ∧
        (SInv M G0 σ' J → ∀ σ, den (M.env G0) σ' e σ = M.doProb J.G J.X J.Y σ))
        (l.map fun S => ({ G := I.G, X := diff' I.G.nodes S, Y := S, est := I.est } : IdIn)) es' →
      ∀ τ, es'.map (den (M.env G0) σ' · τ) = l.map (fun S => M.Q S τ) := by
    intro l
    induction l with
    | nil => intro es' _ h τ; cases h; rfl
    | cons S l ih =>
      intro es' hl h τ
      cases h with
      | cons h1 h2 =>
        simp only [List.map_cons]
        have hSds := hl S List.mem_cons_self
        have invJ : SInv M G0 σ' ({ G := I.G, X := diff' I.G.nodes S, Y := S, est := I.est } : IdIn) :=
          ⟨hvJ S hSds, inv.sub, inv.est, inv.marg⟩
        rw [h1.2 invJ τ, ih _ (fun S' hS' => hl S' (List.mem_cons_of_mem _ hS')) h2 τ]
        congr 1
        exact doProb_line4 inv (nodup_of_mem_districts hSds) (fun v hv => (hdsV S hSds v hv).1) τ
  have hsep : ds.Pairwise (fun d1 d2 => ∀ v ∈ d1, ∀ w ∈ d2, ∀ u, u ∈ M.latOf v → u ∉ M.latOf w) := by
    apply (districts_disjoint _ hwfx).imp_of_mem
    intro d1 d2 hd1 hd2 hdisj v hv w hw u hu1 hu2
    have hne : v ≠ w := fun e => hdisj v hv (e ▸ hw)
    obtain ⟨hvV, hvX⟩ := hdsV d1 hd1 v hv
    obtain ⟨hwV, hwX⟩ := hdsV d2 hd2 w hw
    have hbi := ctx.hM.compat v (inv.sub.nodes v hvV) w (inv.sub.nodes w hwV) hne ⟨u, hu1, hu2⟩
    have hbi' : I.G.BiEdge v w := inv.sub.bi v w hvV hwV ((hasBi_iff G0 v w).mp hbi)
    have hbix : (I.G.removeNodes I.X).BiEdge v w := (biEdge_removeNodes I.G I.X v w).mpr ⟨hbi', hvX, hwX⟩
    exact hdisj w ((districts_spec _ hwfx d1 hd1 v hv w).mpr (.single hbix)) hw
  have hprod : ∀ τ, den (M.env G0) σ' (productSafe es) τ = M.Q (I.G.nodes.filter (· ∉ I.X)) τ := by
    intro τ
    rw [den_productSafe, hfac ds es (fun _ h => h) hall τ,
      Q_flatten ctx ds (fun d hd v hv => inv.sub.nodes v (hdsV d hd v hv).1) hsep τ]
    apply congrFun
    apply M.Q_congr_set _ (hVnd.filter _)
    · intro v
      simp only [List.mem_flatten, List.mem_filter, decide_eq_true_eq]
      rw [← mem_nodes_removeNodes I.G hwf I.X v, districts_cover _ hwfx v]
    · exact List.nodup_flatten.mpr ⟨fun d hd => nodup_of_mem_districts hd,
        (districts_disjoint _ hwfx).imp (fun h x hx1 hx2 => h x hx1 hx2)⟩
  rw [den_sumSafe, funext hprod, doProb_eq]
  refine congrFun (sumVars_sortNames M.card (hVnd.filter _) (fun v => ?_) _) σ
  simp only [mem_diff', mem_union', List.mem_filter, decide_eq_true_eq, Bool.and_eq_true, Bool.decide_and, not_or]
  tauto

/-- **soundness of the recursion**: if the carried estimand denotes `Q[V_cur]` of the model, the expression ID
returns denotes `Σ_{V_cur ∖ (X ∪ Y)} Q[V_cur ∖ X]`, the interventional distribution of the current sub-problem -/
theorem idAlg_sound (ctx : SCtx M G0) (ts : TopoSound topo) :
    ∀ I e, idAlg topo I = .ok e → SInv M G0 σ' I → ∀ σ, den (M.env G0) σ' e σ = M.doProb I.G I.X I.Y σ := by
  apply idAlg_ok_induct topo
    (fun I e => SInv M G0 σ' I → ∀ σ, den (M.env G0) σ' e σ = M.doProb I.G I.X I.Y σ)
  · intro I e hs inv σ
    cases step_ok hs with
    | l1 hX => exact sound_l1 inv hX σ
    | l6 anc anc' S D order fs _ _ _ hS _ hD hDS ho hf => exact sound_l6 ctx ts inv hS hD hDS ho hf σ
  · intro I J e hs _ ih inv σ
    have hg := step_good inv.valid hs
    cases step_ok hs with
    | l2 anc _ hanc _ =>
      obtain ⟨invJ, hdo⟩ := sound_l2 ctx inv hanc hg.1
      rw [ih invJ σ]; exact hdo σ
    | l3 anc anc' _ _ _ hanc' _ =>
      obtain ⟨invJ, hdo⟩ := sound_l3 ctx inv hanc' hg.1
      rw [ih invJ σ]; exact hdo σ
    | l7 anc anc' S D order fs _ _ _ hS _ _ hfind ho hf =>
      obtain ⟨invJ, hdo⟩ := sound_l7 ctx ts inv hS hfind ho hf hg.1
      rw [ih invJ σ]; exact hdo σ
  · intro I Js ranges es hs hall inv σ
    have hg := step_good inv.valid hs
    cases step_ok hs with
    | l4 anc anc' _ _ _ =>
      exact sound_l4 ctx inv hall (fun S hS => (hg _ (List.mem_map.mpr ⟨S, hS, rfl⟩)).1) σ

end
end Y0
