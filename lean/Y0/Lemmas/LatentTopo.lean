/-
  Y0.Lemmas.LatentTopo — what the rules need to know about `nx.topological_sort` (the model
  `MG.topologicalSort`, generation-wise Kahn): when it succeeds, every node of the graph is in the
  returned order.  Hence `iter_latents` enumerates exactly the latent nodes.
-/
import Y0.Lemmas.LatentBasic
import Y0.Lemmas.Topo

namespace Y0
namespace MG
variable {α : Type} [DecidableEq α]

/-- a successful topological sort lists every node (from the shared Kahn invariant of `Y0.Lemmas.Topo`:
the result is a permutation of the nodes) -/
theorem topologicalSort_complete (G : MG α) (hG : G.WF) (o : List α) (h : G.topologicalSort = .ok o) :
    ∀ v ∈ G.nodes, v ∈ o := by
  intro v hv
  have := (topoLoop_ok G hG _ _ _ _ o (topoInv_init G hG) h).1
  exact this.symm.subset hv

end MG

namespace LV

/-- `iter_latents` yields exactly the latent nodes (when every node is tagged and the graph is acyclic
enough for `topological_sort` to succeed) -/
theorem mem_iterLatents (D : LV) (hw : D.WF) (ls : List Nat) (h : D.iterLatents = .ok ls) (l : Nat) :
    l ∈ ls ↔ l ∈ D.latent := by
  have hwG : D.asMG.WF :=
    ⟨hw.nodes_nodup, hw.edges_nodup, hw.edge_mem, by intro e he; simp [asMG] at he⟩
  unfold iterLatents at h
  cases ho : D.asMG.topologicalSort with
  | error e => rw [ho] at h; cases h
  | ok o =>
    rw [ho] at h
    simp only [hw.tagged, List.not_mem_nil, decide_false, List.any_eq_true, Bool.false_eq_true, and_false,
      exists_false, if_false] at h
    have : ls = o.filter (· ∈ D.latent) := by
      cases h; rfl
    subst this
    simp only [List.mem_filter, decide_eq_true_eq]
    exact ⟨fun h => h.2, fun h => ⟨MG.topologicalSort_complete _ hwG o ho l (hw.latent_mem l h), h⟩⟩

end LV
end Y0
