/-
  Y0.Lemmas.LatentTopo — what the rules need to know about `nx.topological_sort` (the model
  `MG.topologicalSort`, generation-wise Kahn): when it succeeds, every node of the graph is in the
  returned order.  Hence `iter_latents` enumerates exactly the latent nodes.
-/
import Y0.Lemmas.LatentBasic

namespace Y0
namespace MG
variable {α : Type} [DecidableEq α]

/-- a fold preserves whatever each step preserves -/
theorem foldl_preserves {σ β : Type} (P : σ → Prop) (f : σ → β → σ) (h : ∀ s x, P s → P (f s x)) :
    ∀ (xs : List β) (s : σ), P s → P (xs.foldl f s) := by
  intro xs
  induction xs with
  | nil => intro s hs; exact hs
  | cons x xs ih => intro s hs; exact ih _ (h s x hs)

/-- a generation never loses a pending node: it stays in the in-degree table or moves to the next generation -/
theorem topoGen_keeps (G : MG α) (deg : List (α × Nat)) (gen : List α) (v : α)
    (hv : v ∈ deg.map (·.1)) :
    v ∈ (topoGen G deg gen).1.map (·.1) ∨ v ∈ (topoGen G deg gen).2 := by
  unfold topoGen
  refine foldl_preserves (fun st : List (α × Nat) × List α => v ∈ st.1.map (·.1) ∨ v ∈ st.2) _ ?_ gen (deg, [])
    (Or.inl hv)
  intro st node hst
  refine foldl_preserves (fun st : List (α × Nat) × List α => v ∈ st.1.map (·.1) ∨ v ∈ st.2) _ ?_ _ st hst
  intro st child hst
  have hkeys : v ∈ (st.1.map (fun p => if p.1 = child then (p.1, p.2 - 1) else p)).map (·.1) ↔
      v ∈ st.1.map (·.1) := by
    simp only [List.map_map, List.mem_map, Function.comp]
    constructor
    · rintro ⟨p, hp, rfl⟩; exact ⟨p, hp, by split <;> rfl⟩
    · rintro ⟨p, hp, rfl⟩; exact ⟨p, hp, by split <;> rfl⟩
  rcases hst with hst | hst
  · dsimp only
    split
    · by_cases hvc : v = child
      · right; simp [hvc]
      · left
        rw [← hkeys] at hst
        simp only [List.mem_map, List.mem_filter, decide_eq_true_eq] at hst ⊢
        obtain ⟨p, hp, rfl⟩ := hst
        exact ⟨p, ⟨hp, hvc⟩, rfl⟩
    · left; exact hkeys.2 hst
  · dsimp only
    split
    · right; simp [hst]
    · right; exact hst

theorem topoLoop_complete (G : MG α) :
    ∀ (fuel : Nat) (deg : List (α × Nat)) (gen acc o : List α), topoLoop G fuel deg gen acc = .ok o →
      ∀ v, (v ∈ deg.map (·.1) ∨ v ∈ gen ∨ v ∈ acc) → v ∈ o := by
  intro fuel
  induction fuel with
  | zero =>
    intro deg gen acc o h v hv
    simp only [topoLoop] at h
    split at h
    · rename_i hc
      simp only [Bool.and_eq_true, List.isEmpty_iff] at hc
      obtain ⟨rfl, rfl⟩ := hc
      cases h
      simpa using hv
    · cases h
  | succ n ih =>
    intro deg gen acc o h v hv
    simp only [topoLoop] at h
    split at h
    · rename_i hg
      rw [List.isEmpty_iff] at hg
      subst hg
      split at h
      · rename_i hd
        rw [List.isEmpty_iff] at hd
        subst hd
        cases h
        simpa using hv
      · cases h
    · apply ih _ _ _ _ h v
      rcases hv with hv | hv | hv
      · rcases topoGen_keeps G deg gen v hv with h' | h'
        · exact Or.inl h'
        · exact Or.inr (Or.inl h')
      · exact Or.inr (Or.inr (by simp [hv]))
      · exact Or.inr (Or.inr (by simp [hv]))

/-- a successful topological sort lists every node -/
theorem topologicalSort_complete (G : MG α) (o : List α) (h : G.topologicalSort = .ok o) :
    ∀ v ∈ G.nodes, v ∈ o := by
  intro v hv
  unfold topologicalSort at h
  apply topoLoop_complete G _ _ _ _ o h v
  by_cases hz : G.indegree v = 0
  · right; left; simp [hv, hz]
  · left
    simp only [List.mem_map, List.mem_filter, decide_eq_true_eq]
    exact ⟨(v, G.indegree v), ⟨⟨v, hv, rfl⟩, Nat.pos_of_ne_zero hz⟩, rfl⟩

end MG

namespace LV

/-- `iter_latents` yields exactly the latent nodes (when every node is tagged and the graph is acyclic
enough for `topological_sort` to succeed) -/
theorem mem_iterLatents (D : LV) (hw : D.WF) (ls : List Nat) (h : D.iterLatents = .ok ls) (l : Nat) :
    l ∈ ls ↔ l ∈ D.latent := by
  unfold iterLatents at h
  cases ho : D.asMG.topologicalSort with
  | error e => rw [ho] at h; cases h
  | ok o =>
    rw [ho] at h
    simp only [hw.tagged, List.not_mem_nil, decide_false, List.any_eq_true, Bool.false_eq_true, and_false,
      exists_false, if_false] at h
    have : ls = o.filter (· ∈ D.latent) := by
      cases h; rfl
    subst this
    simp only [List.mem_filter, decide_eq_true_eq]
    exact ⟨fun h => h.2, fun h => ⟨MG.topologicalSort_complete _ o ho l (hw.latent_mem l h), h⟩⟩

end LV
end Y0
