/-
  Y0.Lemmas.HedgeNonIdSkel — the two models of a hedge skeleton have the same observational joint, and cannot have
  the same `P_x(R)`: `skel_not_identifiable`.
-/
import Y0.Lemmas.HedgeNonIdPair
import Mathlib.Data.List.Basic

namespace Y0
namespace NonId

theorem length_filter_not_mem {V T : List Name} (hV : V.Nodup) (hT : T.Nodup) (hTV : ∀ v ∈ T, v ∈ V) :
    (V.filter fun i => !decide (i ∈ T)).length + T.length = V.length := by
  have h1 := List.length_eq_length_filter_add (l := V) (fun i => decide (i ∈ T))
  have h2 : (V.filter fun i => decide (i ∈ T)).length = T.length := by
    have hp := filter_mem_perm hV hT
    rw [hp.length_eq]
    congr 1
    apply List.filter_eq_self.mpr
    intro a ha
    simpa using hTV a ha
  omega

theorem nodesOf_length (es : List (Name × Name)) (root : Name) : (nodesOf es root).length = es.length + 1 := by
  simp [nodesOf]

namespace Skel
variable {S : Skel} {G : MG Name} {X : List Name}

theorem rho1_prod (S : Skel) (G : MG Name) :
    ((S.spec1 G).T.map (S.spec1 G).rho).prod = (1 / 2) ^ (S.es''.length + S.es'.length + 1) := by
  simp only [spec1, PSpec.T, List.map_const', List.prod_replicate, nodesOf_length, List.length_append]

theorem rho2_prod (S : Skel) (G : MG Name) (h : TreeSeq S.root S.es') :
    ((S.spec2 G).T.map (S.spec2 G).rho).prod = (1 / 2) ^ (S.es''.length + S.es'.length + 1) := by
  have hnd := TreeSeq.nodup h
  unfold nodesOf at hnd
  have hroot : ∀ i ∈ S.es'.map Prod.fst, i ≠ S.root := by
    intro i hi heq
    have := (List.nodup_append.mp hnd).2.2 i hi S.root (by simp)
    exact this heq
  simp only [spec2, PSpec.T, nodesOf, List.map_append, List.prod_append, List.map_cons, List.map_nil, List.prod_cons,
    List.prod_nil, if_true, mul_one]
  have : ((S.es'.map Prod.fst).map fun i => if i = S.root then ((1 : Rat) / 2) ^ (S.es''.length + 1) else 1 / 2) =
      (S.es'.map Prod.fst).map fun _ => (1 / 2 : Rat) := by
    apply List.map_congr_left
    intro i hi
    rw [if_neg (hroot i hi)]
  rw [this, List.map_const', List.prod_replicate, List.length_map, ← pow_add]
  congr 1
  omega

theorem obs_eq (h : S.Good G X) (σ : Val) : (S.spec1 G).scm.obs G σ = (S.spec2 G).scm.obs G σ := by
  have ht' := treeSeq_suffix _ _ h.tree
  unfold Scm.obs
  rw [PSpec.Q_forest (S.spec1 G) (spec1_good h) h.nodup_nodes (fun _ hv => hv) h.sub S.Rl S.ch rfl h.R_nodup
      (fun r hr => F'_sub_F S r (h.R_sub r hr)) h.ch_F σ,
    PSpec.Q_forest (S.spec2 G) (spec2_good h) h.nodup_nodes (fun _ hv => hv)
      (fun v hv => h.sub v (F'_sub_F S v hv)) S.Rl S.ch rfl h.R_nodup h.R_sub h.ch_F' σ,
    rho1_prod, rho2_prod S G ht']
  congr 1
  have l1 := length_filter_not_mem h.nodup_nodes (TreeSeq.nodup h.tree) h.sub
  have l2 := length_filter_not_mem h.nodup_nodes (TreeSeq.nodup ht') (fun v hv => h.sub v (F'_sub_F S v hv))
  rw [nodesOf_length, List.length_append] at l1
  rw [nodesOf_length] at l2
  rw [← pow_add, ← pow_add]
  congr 1
  show (S.es'' ++ S.es').length + (G.nodes.filter fun i => !decide (i ∈ nodesOf (S.es'' ++ S.es') S.root)).length =
    S.es'.length + (G.nodes.filter fun i => !decide (i ∈ nodesOf S.es' S.root)).length
  rw [List.length_append]
  omega

/-- in M¹ the intervention cuts a node out of the tree: `P_x(R)` is the same number at every assignment -/
theorem do1_const (h : S.Good G X) (Y : List Name) (σ τ : Val) :
    (S.spec1 G).scm.doProb G X Y σ = (S.spec1 G).scm.doProb G X Y τ := by
  unfold Scm.doProb
  apply sumVars_of_const
  obtain ⟨x, hxX, hxF⟩ := h.meetsX
  intro σ τ
  exact PSpec.Q_cut_const (S.spec1 G) (spec1_good h) (h.nodup_nodes.filter _)
    (fun v hv => (List.mem_filter.mp hv).1) (x := x) hxF (by simp [hxX]) σ τ

/-- in M² the intervention does not touch `F'`: `P_x(R)` still reads the root parity -/
theorem do2_formula (h : S.Good G X) :
    ∃ K : Rat, K ≠ 0 ∧ ∀ σ : Val, (S.spec2 G).scm.doProb G X S.Rl σ =
      K * ev (1, (1 / 2) ^ (S.es''.length + S.es'.length + 1)) ((S.Rl.map σ).sum) := by
  have ht' := treeSeq_suffix _ _ h.tree
  have hQ : (S.spec2 G).scm.Q (G.nodes.filter (· ∉ X)) = fun σ =>
      (1 / 2) ^ (S.spec2 G).es.length *
        (1 / 2) ^ ((G.nodes.filter (· ∉ X)).filter fun i => !decide (i ∈ (S.spec2 G).T)).length *
      ev (1, (1 / 2) ^ (S.es''.length + S.es'.length + 1)) ((S.Rl.map σ).sum) := by
    funext σ
    rw [PSpec.Q_forest (S.spec2 G) (spec2_good h) (h.nodup_nodes.filter _) (fun v hv => (List.mem_filter.mp hv).1)
      (fun v hv => List.mem_filter.mpr ⟨h.sub v (F'_sub_F S v hv), by simpa using h.avoidsX v hv⟩)
      S.Rl S.ch rfl h.R_nodup h.R_sub h.ch_F' σ, rho2_prod S G ht']
  refine ⟨((G.nodes.filter fun v => v ∉ X ∧ v ∉ S.Rl).map fun x => (((S.spec2 G).scm.card x : Nat) : Rat)).prod *
      ((1 / 2) ^ (S.spec2 G).es.length *
        (1 / 2) ^ ((G.nodes.filter (· ∉ X)).filter fun i => !decide (i ∈ (S.spec2 G).T)).length), ?_, ?_⟩
  · apply mul_ne_zero
    · apply List.prod_ne_zero
      simp [PSpec.scm]
    · positivity
  · intro σ
    unfold Scm.doProb
    rw [hQ, sumVars_indep_all]
    · ring
    intro x hx τ k
    have hxR : x ∉ S.Rl := by
      have := (List.mem_filter.mp hx).2
      simp only [decide_eq_true_eq] at this
      exact this.2
    show _ * ev _ ((S.Rl.map (τ.set x k)).sum) = _ * ev _ ((S.Rl.map τ).sum)
    rw [map_set_of_not_mem τ x k _ hxR]

/-- **non-identifiability of the root distribution on a hedge skeleton** -/
theorem skel_not_identifiable (h : S.Good G X) : ¬ Identifiable G X S.Rl := by
  intro hid
  have heq := hid (S.spec1 G).scm (S.spec2 G).scm (PSpec.scm_compatible (spec1_good h))
    (PSpec.scm_compatible (spec2_good h)) ⟨fun _ _ => rfl, fun σ _ => obs_eq h σ⟩
  obtain ⟨K, hK, hdo⟩ := do2_formula h
  obtain ⟨r, hr⟩ := List.exists_mem_of_ne_nil _ h.R_ne
  have e0 := heq (fun _ => 0) (fun _ _ => by simp [PSpec.scm])
  have e1 := heq (fun v => if r = v then 1 else 0) (fun v _ => by
    show (if r = v then 1 else 0) < 2
    split <;> omega)
  rw [do1_const h S.Rl _ (fun _ => 0), e0, hdo, hdo] at e1
  have s0 : (S.Rl.map fun _ : Name => 0).sum = 0 := by simp
  have s1 : (S.Rl.map fun v => if r = v then 1 else 0).sum = 1 := sum_map_ite_eq S.Rl h.R_nodup r hr 1
  rw [s0, s1] at e1
  have := mul_left_cancel₀ hK e1
  simp only [ev, sgn_zero, sgn_one] at this
  have hp : (0 : Rat) < (1 / 2) ^ (S.es''.length + S.es'.length + 1) := by positivity
  linarith

end Skel
end NonId
end Y0
