/-
  Y0.Lemmas.IdObsWS — the invariant behind "every estimand returned by ID is well scoped" (Y0/Lemmas/IdWellScoped.lean):
  `ObsWS e`: every leaf is `P(c | p)` with `c ≠ []`, plain variables with pairwise distinct names; every `Sum` ranges
  over plain variables with pairwise distinct names.  Carried through `idAlg` (`id_obsWS`).
  (Separate from IdWellScoped.lean because `open IdDsl` and Y0/Model/Dsl.lean share constructor names.)
-/
import Y0.Lemmas.IdVocab
import Y0.Lemmas.IdSoundA
import Y0.Lemmas.IdDen

namespace Y0
open IdDsl IdAux

/-- a plain variable: no star, not an intervention, no subscripts -/
def Var.IsPlainP (v : Var) : Prop := v = Var.plain v.name

/-- observational and well scoped -/
inductive ObsWS : Expr → Prop
  | prob (pop : Option Var) (c p : List Var) : c ≠ [] → ((c ++ p).map (·.name)).Nodup → (∀ v ∈ c ++ p, v.IsPlainP) →
      ObsWS (.prob pop c p)
  | prod (fs : List Expr) : (∀ f ∈ fs, ObsWS f) → ObsWS (.prod fs)
  | sum (e : Expr) (r : List Var) : ObsWS e → (r.map (·.name)).Nodup → (∀ v ∈ r, v.IsPlainP) → ObsWS (.sum e r)
  | frac (n d : Expr) : ObsWS n → ObsWS d → ObsWS (.frac n d)
  | one : ObsWS .one
  | zero : ObsWS .zero

theorem obsWS_prod_inv {es : List Expr} (h : ObsWS (.prod es)) : ∀ f ∈ es, ObsWS f := by
  cases h with | prod _ h => exact h
theorem obsWS_frac_inv {n d : Expr} (h : ObsWS (.frac n d)) : ObsWS n ∧ ObsWS d := by
  cases h with | frac _ _ h1 h2 => exact ⟨h1, h2⟩

theorem names_plainMap (l : List Name) : (l.map Var.plain).map (·.name) = l := by
  simp [List.map_map, Function.comp_def, Var.plain]

theorem plainP_plainMap (l : List Name) : ∀ v ∈ l.map Var.plain, v.IsPlainP := by
  intro v hv
  obtain ⟨x, _, rfl⟩ := List.mem_map.mp hv
  rfl

theorem obsWS_sumSafe {e : Expr} (he : ObsWS e) (r : List Name) : ObsWS (sumSafe e r) := by
  unfold sumSafe
  split
  · exact he
  · rename_i a as heq
    split
    · exact he
    · refine .sum e _ he ?_ (plainP_plainMap _)
      rw [names_plainMap, ← heq]
      exact sortNames_nodup r

theorem obsWS_productSafe {es : List Expr} (h : ∀ e ∈ es, ObsWS e) : ObsWS (productSafe es) := by
  unfold productSafe
  simp only
  split
  · exact .zero
  · split
    · exact .one
    · rename_i e heq
      have : e ∈ es.filter (fun e => !isOne e) := by rw [heq]; simp
      exact h e (List.mem_filter.mp this).1
    · refine .prod _ ?_
      intro f hf
      rw [IdAux.mem_sortBy] at hf
      exact h f (List.mem_filter.mp hf).1

theorem obsWS_pCond {child : Name} {parents : List Name} (hc : child ∉ parents) : ObsWS (pCond child parents) := by
  unfold pCond plainVars
  refine .prob _ _ _ (by simp) ?_ ?_
  · simp only [List.singleton_append, List.map_cons, names_plainMap]
    rw [List.nodup_cons]
    refine ⟨?_, sortNames_nodup parents⟩
    simp only [Var.plain]
    intro h
    exact hc (mem_sortNames.mp h)
  · intro v hv
    simp only [List.singleton_append, List.mem_cons] at hv
    rcases hv with rfl | hv
    · rfl
    · exact plainP_plainMap _ v hv

theorem obsWS_pJoint {nodes : List Name} {e : Expr} (h : pJoint nodes = .ok e) : ObsWS e := by
  unfold pJoint at h
  split at h
  · cases h
  · rename_i hne
    simp only [Except.ok.injEq] at h
    subst h
    refine .prob _ _ _ ?_ ?_ ?_
    · intro h0
      apply hne
      simpa using h0
    · rw [List.append_nil, names_plainMap]; exact sortNames_nodup nodes
    · rw [List.append_nil]; exact plainP_plainMap _

theorem obsWS_mkFrac {n d e : Expr} (h : mkFrac n d = .ok e) (hn : ObsWS n) (hd : ObsWS d) : ObsWS e := by
  unfold mkFrac at h
  split at h
  · cases h
  · simp only [Except.ok.injEq] at h; subst h; exact .frac _ _ hn hd

theorem obsWS_mul (a b : Expr) : ∀ e, mul a b = .ok e → ObsWS a → ObsWS b → ObsWS e := by
  fun_induction mul a b
  all_goals (intro e h ha hb)
  all_goals first
    | (cases h
       first
        | exact hb
        | exact ha
        | exact .zero
        | (apply obsWS_productSafe
           intro f hf
           simp only [List.mem_append, List.mem_cons, List.mem_singleton, List.not_mem_nil, or_false] at hf
           rcases hf with hf | hf | hf <;>
             first
              | (subst hf; assumption)
              | exact obsWS_prod_inv ha f hf
              | exact obsWS_prod_inv hb f hf)
        | (apply obsWS_productSafe
           intro f hf
           simp only [List.mem_append, List.mem_cons, List.mem_singleton, List.not_mem_nil, or_false] at hf
           rcases hf with hf | hf <;>
             first
              | (subst hf; assumption)
              | exact obsWS_prod_inv ha f hf
              | exact obsWS_prod_inv hb f hf))
    | skip
  · rename_i ih2 ih1
    obtain ⟨x, hx, h⟩ := bind_ok h
    obtain ⟨y, hy, h⟩ := bind_ok h
    exact obsWS_mkFrac h (ih2 x hx (obsWS_frac_inv ha).1 (obsWS_frac_inv hb).1)
      (ih1 y hy (obsWS_frac_inv ha).2 (obsWS_frac_inv hb).2)
  · rename_i ih1
    obtain ⟨x, hx, h⟩ := bind_ok h
    exact obsWS_mkFrac h (ih1 x hx (obsWS_frac_inv ha).1 hb) (obsWS_frac_inv ha).2
  all_goals
    (rename_i ih1
     obtain ⟨x, hx, h⟩ := bind_ok h
     exact obsWS_mkFrac h (ih1 x hx ha (obsWS_frac_inv hb).1) (obsWS_frac_inv hb).2)

theorem obsWS_div (a b e : Expr) (h : div a b = .ok e) (ha : ObsWS a) (hb : ObsWS b) : ObsWS e := by
  unfold div at h
  split at h
  · rename_i n d
    split at h
    · cases h; exact ha
    · rename_i n2 d2
      obtain ⟨x, hx, h⟩ := bind_ok h
      obtain ⟨y, hy, h⟩ := bind_ok h
      exact obsWS_mkFrac h (obsWS_mul _ _ x hx (obsWS_frac_inv ha).1 (obsWS_frac_inv hb).2)
        (obsWS_mul _ _ y hy (obsWS_frac_inv ha).2 (obsWS_frac_inv hb).1)
    · obtain ⟨x, hx, h⟩ := bind_ok h
      exact obsWS_mkFrac h (obsWS_frac_inv ha).1 (obsWS_mul _ _ x hx (obsWS_frac_inv ha).2 hb)
  · split at h
    · cases h
    · cases h; exact .zero
  · split at h
    · cases h; exact ha
    · rename_i n2 d2
      obtain ⟨x, hx, h⟩ := bind_ok h
      exact obsWS_mkFrac h (obsWS_mul _ _ x hx ha (obsWS_frac_inv hb).2) (obsWS_frac_inv hb).1
    · exact obsWS_mkFrac h ha hb

theorem not_mem_take_takeWhile (order : List Name) (child : Name) :
    child ∉ order.take (order.takeWhile (· ≠ child)).length := by
  induction order with
  | nil => simp
  | cons a l ih =>
    by_cases h : a = child
    · subst h; simp
    · simp only [List.takeWhile_cons, ne_eq, h, not_false_eq_true, decide_true, ite_true, List.length_cons,
        List.take_succ_cons, List.mem_cons, not_or]
      exact ⟨fun e => h e.symm, by simpa using ih⟩

theorem obsWS_pParents {order : List Name} {est : Expr} {child : Name} {e : Expr}
    (h : pParents order est child = .ok e) (hest : ObsWS est) : ObsWS e := by
  obtain ⟨_, i, hi, h | h⟩ := pParents_ok h
  · rw [h.2, hi]
    exact obsWS_pCond (not_mem_take_takeWhile order child)
  · exact obsWS_div _ _ _ h.2 (obsWS_sumSafe hest _) (obsWS_sumSafe hest _)

theorem mapM_pParents_obsWS {order : List Name} {est : Expr} {S : List Name} {fs : List Expr}
    (h : S.mapM (pParents order est) = .ok fs) (hest : ObsWS est) : ∀ f ∈ fs, ObsWS f := by
  have hf := (mapM_ok_iff _ _ _).mp h
  intro f hfm
  obtain ⟨v, _, hv⟩ := forall₂_right hf f hfm
  exact obsWS_pParents hv hest

/-- the invariant through the recursion -/
theorem idAlg_obsWS (topo : MG Name → Except Err (List Name)) :
    ∀ I e, idAlg topo I = .ok e → ObsWS I.est → ObsWS e := by
  apply idAlg_ok_induct topo (fun I e => ObsWS I.est → ObsWS e)
  · intro I e hs hest
    cases step_ok hs with
    | l1 _ => exact obsWS_sumSafe hest _
    | l6 anc anc' S D order fs _ _ _ _ _ _ _ ho hf =>
      exact obsWS_sumSafe (obsWS_productSafe (mapM_pParents_obsWS hf hest)) _
  · intro I J e hs _ ih hest
    cases step_ok hs with
    | l2 anc _ _ _ => exact ih (obsWS_sumSafe hest _)
    | l3 anc anc' _ _ _ _ _ => exact ih hest
    | l7 anc anc' S D order fs _ _ _ _ _ _ _ ho hf =>
      exact ih (obsWS_productSafe (mapM_pParents_obsWS hf hest))
  · intro I Js ranges es hs hall hest
    cases step_ok hs with
    | l4 anc anc' _ _ _ =>
      apply obsWS_sumSafe
      apply obsWS_productSafe
      intro f hf
      obtain ⟨J, hJ, _, hP⟩ := forall₂_right hall f hf
      simp only [List.mem_map] at hJ
      obtain ⟨S, _, rfl⟩ := hJ
      exact hP hest

theorem id_obsWS (topo : MG Name → Except Err (List Name)) (G : MG Name) (X Y : List Name) (e : Expr)
    (h : identify topo G X Y = .ok e) : ObsWS e := by
  unfold identify at h
  obtain ⟨est, hest, h⟩ := bind_ok h
  exact idAlg_obsWS topo _ e h (obsWS_pJoint hest)

end Y0
