/-
  Y0.Lemmas.TianQ — the c-factor algebra of a semi-Markovian model (Y0.Spec.Scm), DESIGN.md 3.4:

    (sink)   Q_sink          Σ_d Q[S ∪ {d}] = Q[S]          when d is not a parent of a member of S
             Q_sinks         Σ_D Q[A ∪ D] = Q[A]            D listed so that no later element is a parent of an
                                                            earlier one or of A  (Tian & Pearl 2003, Lemma 3)
    (split)  Q_split         Q[S₁ ∪ S₂] = Q[S₁] · Q[S₂]     when no latent is shared between S₁ and S₂
    (ratio)  Q_ratio         Π_{v ∈ D} Σ_{>v} Q[H] / Σ_{≥v} Q[H] = Q[D]   for a topological listing of H and a part D
                                                            of H that shares no latent with the rest (Lemmas 1 and 4)

  (The `id` family proves (split) and (ratio) in Y0/Lemmas/QFactor.lean, namespace `Y0.Scm`; the lemmas here live in
  `Y0.TianQ` so that both files can be imported together.)

  Everything is stated with lists (the models work with lists); `Q` is invariant under permutation (`Q_perm`).
-/
import Y0.Spec.Scm
import Y0.Lemmas.Prob
import Mathlib.Algebra.BigOperators.Group.List.Basic

namespace Y0
open Scm

/-! ### products over lists of factors -/

theorem indepOf_const (c : Rat) (x : Name) : IndepOf (fun _ => c) x := fun _ _ => rfl

theorem indepOf_mul {f g : Val → Rat} {x : Name} (hf : IndepOf f x) (hg : IndepOf g x) :
    IndepOf (fun τ => f τ * g τ) x := fun σ k => by
  show f (σ.set x k) * g (σ.set x k) = f σ * g σ
  rw [hf, hg]

theorem indepOf_listProd {ι} (l : List ι) (f : ι → Val → Rat) (x : Name) (h : ∀ i ∈ l, IndepOf (f i) x) :
    IndepOf (fun τ => (l.map fun i => f i τ).prod) x := by
  induction l with
  | nil => exact fun _ _ => rfl
  | cons a l ih =>
    have h1 := h a List.mem_cons_self
    have h2 := ih fun i hi => h i (List.mem_cons_of_mem _ hi)
    intro σ k
    have e2 := h2 σ k
    simp only [List.map_cons, List.prod_cons] at e2 ⊢
    rw [h1 σ k, e2]

theorem listProd_pos {ι} (l : List ι) (f : ι → Rat) (h : ∀ i ∈ l, 0 < f i) : 0 < (l.map f).prod := by
  induction l with
  | nil => simp
  | cons a l ih =>
    simp only [List.map_cons, List.prod_cons]
    exact mul_pos (h a List.mem_cons_self) (ih fun i hi => h i (List.mem_cons_of_mem _ hi))

theorem sumVars_pos (card : Name → Nat) (xs : List Name) (f : Val → Rat) (σ : Val) (hc : ∀ x, 0 < card x)
    (h : ∀ τ, 0 < f τ) : 0 < sumVars card xs f σ := by
  induction xs generalizing σ with
  | nil => exact h σ
  | cons x xs ih => exact sumVar_pos card x _ σ (hc x) ih

namespace TianQ
variable {M : Scm} {G : MG Name}

/-- the prior part of the weight -/
def priorPart (M : Scm) (L : List Name) (σ : Val) : Rat := (L.map fun u => M.prior u (σ u)).prod
/-- the kernel part of the weight -/
def kernPart (M : Scm) (S : List Name) (σ : Val) : Rat := (S.map fun v => M.kern v σ).prod

theorem weight_eq (M : Scm) (S : List Name) (σ : Val) : M.weight S σ = priorPart M M.lat σ * kernPart M S σ := rfl

theorem kernPart_perm {S S' : List Name} (h : S.Perm S') (σ : Val) : kernPart M S σ = kernPart M S' σ :=
  (h.map _).prod_eq

theorem Q_perm {S S' : List Name} (h : S.Perm S') : M.Q S = M.Q S' := by
  funext σ
  unfold Q
  apply sumVars_congr
  intro τ
  rw [weight_eq, weight_eq, kernPart_perm h]

theorem kernPart_append (S₁ S₂ : List Name) (σ : Val) :
    kernPart M (S₁ ++ S₂) σ = kernPart M S₁ σ * kernPart M S₂ σ := by
  simp [kernPart, List.map_append, List.prod_append]

theorem priorPart_append (L₁ L₂ : List Name) (σ : Val) :
    priorPart M (L₁ ++ L₂) σ = priorPart M L₁ σ * priorPart M L₂ σ := by
  simp [priorPart, List.map_append, List.prod_append]

theorem priorPart_perm {L L' : List Name} (h : L.Perm L') (σ : Val) : priorPart M L σ = priorPart M L' σ :=
  (h.map _).prod_eq

/-- the prior of a latent does not depend on any other variable -/
theorem prior_indep (u x : Name) (h : x ≠ u) : IndepOf (fun τ => M.prior u (τ u)) x := by
  intro σ k
  show M.prior u ((σ.set x k) u) = M.prior u (σ u)
  rw [Val.set_other _ _ (Ne.symm h)]

theorem priorPart_indep (L : List Name) (x : Name) (h : x ∉ L) : IndepOf (priorPart M L) x := by
  apply indepOf_listProd
  intro u hu
  exact prior_indep u x (fun e => h (e ▸ hu))

/-- a kernel depends only on its own variable, its graph parents and its latents -/
theorem kern_indep (hM : M.Compatible G) {v x : Name} (hv : v ∈ G.nodes) (h1 : x ≠ v) (h2 : x ∉ G.parents v)
    (h3 : x ∉ M.latOf v) : IndepOf (M.kern v) x := by
  apply (hM.kern_dep v hv).indepOf
  intro hx
  rcases List.mem_cons.mp hx with rfl | hx
  · exact h1 rfl
  · rcases List.mem_append.mp hx with hx | hx
    · exact h2 hx
    · exact h3 hx

theorem weight_pos (hM : M.Compatible G) (S : List Name) (hS : ∀ v ∈ S, v ∈ G.nodes) (σ : Val) : 0 < M.weight S σ := by
  rw [weight_eq]
  exact mul_pos (listProd_pos _ _ fun u hu => hM.prior_pos u hu _) (listProd_pos _ _ fun v hv => hM.kern_pos v (hS v hv) σ)

theorem Q_pos (hM : M.Compatible G) (S : List Name) (hS : ∀ v ∈ S, v ∈ G.nodes) (σ : Val) : 0 < M.Q S σ :=
  sumVars_pos _ _ _ _ hM.card_pos (weight_pos hM S hS)

/-! ### (sink) -/

/-- **(sink)**: summing the c-factor over a variable `d` that is a parent of no other member gives the c-factor
of the remaining set. -/
theorem Q_sink (hM : M.Compatible G) (S : List Name) (d : Name) (hS : ∀ v ∈ S, v ∈ G.nodes) (hd : d ∈ G.nodes)
    (hdS : d ∉ S) (hpar : ∀ w ∈ S, d ∉ G.parents w) :
    sumVar M.card d (M.Q (S ++ [d])) = M.Q S := by
  have hdlat : d ∉ M.lat := fun h => hM.lat_fresh d h hd
  unfold Q
  rw [sumVar_sumVars_comm]
  funext σ
  apply sumVars_congr
  intro τ
  have hw : M.weight (S ++ [d]) = fun ρ => M.weight S ρ * M.kern d ρ := by
    funext ρ
    rw [weight_eq, weight_eq, kernPart_append]
    simp [kernPart, mul_assoc]
  rw [hw]
  apply sink_core
  · -- the weight of `S` does not depend on `d`
    have : M.weight S = fun ρ => priorPart M M.lat ρ * kernPart M S ρ := rfl
    rw [this]
    apply indepOf_mul (priorPart_indep _ _ hdlat)
    apply indepOf_listProd
    intro v hv
    apply kern_indep hM (hS v hv) (fun e => hdS (by rw [e]; exact hv)) (hpar v hv)
    intro h
    exact hdlat (hM.latOf_sub v d h)
  · exact fun ρ => hM.kern_sum d hd ρ

/-- **(sinks)** — Tian & Pearl's Lemma 3: if `D` is listed so that no element is a parent of an earlier element
or of a member of `A`, then `Σ_D Q[A ∪ D] = Q[A]`. -/
theorem Q_sinks (hM : M.Compatible G) (A : List Name) (hA : ∀ v ∈ A, v ∈ G.nodes) :
    ∀ D : List Name, (∀ v ∈ D, v ∈ G.nodes) → (A ++ D).Nodup →
      (∀ d ∈ D, ∀ a ∈ A, d ∉ G.parents a) → D.Pairwise (fun a b => b ∉ G.parents a) →
      sumVars M.card D (M.Q (A ++ D)) = M.Q A := by
  intro D
  induction D using List.reverseRecOn with
  | nil => intro _ _ _ _; simp [sumVars]
  | append_singleton D d ih =>
    intro hD hnd hDA hpw
    rw [sumVars_append]
    have hnd' : ((A ++ D) ++ [d]).Nodup := by simpa [List.append_assoc] using hnd
    have hdS : d ∉ A ++ D := by
      have := (List.nodup_append.mp hnd').2.2
      intro h
      exact this d h d (List.mem_singleton.mpr rfl) rfl
    have hstep : sumVars M.card [d] (M.Q (A ++ (D ++ [d]))) = M.Q (A ++ D) := by
      show sumVar M.card d (M.Q (A ++ (D ++ [d]))) = M.Q (A ++ D)
      rw [← List.append_assoc]
      apply Q_sink hM
      · intro v hv
        rcases List.mem_append.mp hv with h | h
        · exact hA v h
        · exact hD v (List.mem_append_left _ h)
      · exact hD d (List.mem_append_right _ (List.mem_singleton.mpr rfl))
      · exact hdS
      · intro w hw
        rcases List.mem_append.mp hw with h | h
        · exact hDA d (List.mem_append_right _ (List.mem_singleton.mpr rfl)) w h
        · have := List.pairwise_append.mp hpw
          exact this.2.2 w h d (List.mem_singleton.mpr rfl)
    rw [hstep]
    apply ih
    · exact fun v hv => hD v (List.mem_append_left _ hv)
    · exact (List.nodup_append.mp hnd').1
    · exact fun x hx a ha => hDA x (List.mem_append_left _ hx) a ha
    · exact (List.pairwise_append.mp hpw).1

end TianQ
end Y0
