/-
  Y0.Lemmas.CtfTrSound — **the value clause of C09 for Algorithm 2**, assembled:

      den (F.env graphs) σ' x σ  =  P*(queried event)

  whenever `ctfTRu` answers `(x, ev)`, for every family of functional SCMs compatible with the declared domains.

      den x σ  =  Σ_{summed} Π_j den q_j                                      (den_ctfTRu_answer)
               =  Σ_{summed} Π_j Q*[C_j]                                      (transportFactors_family_sound)
               =  Σ_{d_* ∖ y_*} Π_F Q*[V(F)]                                  (line2_factorize: same factors, same range)
               =  P*(simplified event)                                         (factorisation_cfactors, via C19)
               =  P*(queried event)                                            (C19 simplify_prob_partial)

  `ctfTRu_sound_core` takes the syntactic link between line 2 of Algorithm 2 and C19's `factorize` as three explicit
  hypotheses (`LinkFactors`, `LinkRange`); Y0/Lemmas/CtfTrFactorize.lean proves them.
-/
import Y0.Lemmas.CtfTrTransportAll
import Y0.Lemmas.CtfTrShape
import Y0.Lemmas.CtfTrFactorSum
import Y0.Lemmas.FscmObs
import Y0.Props.C19

namespace Y0.CtfTr
open Fscm Ctf
open Trso (isTnode tnode nsort mem_nsort)

/-- the factors of C19's factorisation are, in order, the variable sets of line 2's factors -/
def LinkFactors (fs : List (List Var)) (factors : List Event) : Prop :=
  List.Forall₂ (fun (F : List Var) (f : Event) => ∀ c, c ∈ F ↔ c ∈ f.map (·.1)) fs factors

/-- the names Algorithm 2 sums over are the names C19's factorisation sums over -/
def LinkRange (anc ev : Event) (cs : List Var) : Prop :=
  ∀ n, n ∈ summedNames anc ev ↔
    n ∈ (dedup' ((dedup' cs).map (·.name))).filter (fun n => decide (n ∉ dedup' (ev.map (·.1.name))))

theorem denProd_of_forall₂ (env : Env) (σ' : Val) (g : Event → Y0.Val → Rat) (P : Y0.Val → Event → Prop) :
    ∀ (fs : List Event) (qs : List Expr),
      List.Forall₂ (fun f q => ∀ σ, P σ f → den env σ' q σ = g f σ) fs qs →
      ∀ σ, (∀ f ∈ fs, P σ f) → denProd env σ' qs σ = (fs.map fun f => g f σ).prod
  | [], [], _, σ, _ => by simp
  | f :: fs, q :: qs, h, σ, hP => by
    cases h with
    | cons h1 h2 =>
      simp only [denProd_cons, List.map_cons, List.prod_cons]
      rw [h1 σ (hP f List.mem_cons_self),
        denProd_of_forall₂ env σ' g P fs qs h2 σ (fun f' hf' => hP f' (List.mem_cons_of_mem _ hf'))]

theorem prod_cfactor_link (M : Model) (τ : Y0.Val) : ∀ (fs : List (List Var)) (factors : List Event),
    LinkFactors fs factors →
    (fs.map fun F => M.cfactor ((sortBy Var.keyLt F).map (·.name)) τ).prod =
      (factors.map fun f => M.cfactor (nsort (districtOf f)) τ).prod
  | [], [], _ => rfl
  | F :: fs, f :: factors, h => by
    cases h with
    | cons h1 h2 =>
      simp only [List.map_cons, List.prod_cons]
      rw [prod_cfactor_link M τ fs factors h2]
      congr 1
      apply cfactor_congr_set
      intro v
      rw [mem_nsort]
      unfold districtOf
      rw [mem_dedup']
      simp only [List.mem_map]
      constructor
      · rintro ⟨c, hc, rfl⟩
        rw [mem_sortBy] at hc
        obtain ⟨p, hp, hpc⟩ := List.mem_map.1 ((h1 c).1 hc)
        exact ⟨p, hp, by rw [hpc]⟩
      · rintro ⟨p, hp, rfl⟩
        exact ⟨p.1, (mem_sortBy _ _ _).2 ((h1 p.1).2 (List.mem_map.2 ⟨p, hp, rfl⟩)), rfl⟩

/-- **core of the value clause**, relative to the syntactic link between line 2 and `factorize`.  `ev` is the simplified
event Algorithm 2 works on; `evv` is an event over the same variables that gives every one of them a value (`ev`
itself when no item is valueless; `fillEvent ev` — every valueless `W` gets the value symbol `-W` — for the reading in
which a valueless variable stays a free variable of the answer). -/
theorem ctfTRu_sound_core (target : MG Name) (ds : List Domain) (ev evv : Event) (x : Expr)
    (hwf : target.WF)
    (F : FscmFamily) (graphs : Option Name → MG Name)
    (hF : F.CompatibleWith target graphs (declsOf ds)) (hds : DomainsSpecOK ds)
    (ν : BaseValues) (σ σ' : Y0.Val) (hσr : ∀ x, σ x < F.card x)
    (hvars : evv.map (·.1) = ev.map (·.1))
    (hread : readableQuery evv = true)
    (hcls : factorizeClasses target evv = .ok (false, false, false))
    (hnone : ∀ p ∈ evv, p.2 ≠ none)
    (hstar : ∀ D, ancestralSet target evv = .ok D → ∀ p ∈ evv, ∀ i ∈ p.1.ivs, i.star = true →
      i.name ∈ D.map (·.name) → i.name ∈ evv.map (·.1.name))
    (hσ : EventReading ν σ evv)
    -- the pieces of the answer (`ctfTRu_answer_shape`)
    (anc : Event) (factors : List Event) (qs : List Expr)
    (ht : transportFactors ds factors = .ok (some qs))
    (hx : x = TrDsl.sumSafe (TrDsl.productSafe qs) ((summedNames anc ev).map Var.plain))
    -- the link with C19's factorisation
    (D cs : List Var) (fs : List (List Var)) (E : Expr) (fev : Event)
    (hD : ancestralSet target evv = .ok D) (hcs : D.mapM (convertOne target) = .ok cs)
    (hfs : ctfFactors (target.subgraph (dedup' ((dedup' cs).map (·.name)))) (dedup' cs) = .ok fs)
    (hfz : factorize target evv = .ok (E, fev))
    (hlinkF : LinkFactors fs factors) (hlinkR : LinkRange anc ev cs)
    (hnodes : ∀ f ∈ factors, ∀ p ∈ f, p.1.name ∈ target.nodes) :
    den (F.env graphs) σ' x σ = probEventOpt F.target ν evv := by
  have hTp := hF.target
  have hTc : Compatible F.target target := hTp.compat
  have hnames : evv.map (·.1.name) = ev.map (·.1.name) := by
    have := congrArg (List.map (·.name)) hvars
    rw [List.map_map, List.map_map] at this
    exact this
  -- the target probability as a sum of products of c-factors
  obtain ⟨D', cs', fs', hD', hcs', hfs', C, hprob⟩ :=
    factorisation_cfactors target hwf evv E fev hfz hread hcls F.target hTc hTp.wf.noise_sum F.card hTp.wf.f_range
      ν σ hσ hnone hstar
  have e1 : D' = D := by rw [hD] at hD'; cases hD'; rfl
  subst e1
  have e2 : cs' = cs := by rw [hcs] at hcs'; cases hcs'; rfl
  subst e2
  have e3 : fs' = fs := by rw [hfs] at hfs'; cases hfs'; rfl
  subst e3
  rw [hprob, hx, den_ctfTRu_answer _ _ qs _ (summedNames_nodup anc ev), hnames]
  -- same range
  set R := (dedup' ((dedup' cs').map (·.name))).filter (fun n => decide (n ∉ dedup' (ev.map (·.1.name)))) with hR
  have hRnd : R.Nodup := (nodup_dedup' _).filter _
  have hperm : (summedNames anc ev).Perm R :=
    (List.perm_ext_iff_of_nodup (summedNames_nodup anc ev) hRnd).2 hlinkR
  rw [sumVars_perm _ hperm]
  -- the names are observed variables: same cardinalities in the two readings
  have hnodesT : ∀ f ∈ factors, ∀ p ∈ f, p.1.name ∈ F.target.order := fun f hf p hp =>
    (hTc.perm.mem_iff).2 (hnodes f hf p hp)
  have hRorder : ∀ n ∈ R, n ∈ F.target.order := by
    intro n hn
    rw [hR, List.mem_filter, mem_dedup'] at hn
    obtain ⟨c, hc, rfl⟩ := List.mem_map.1 hn.1
    rw [mem_dedup'] at hc
    obtain ⟨w, hw, hwc⟩ := (mapM_ok_mem _ _ _ hcs' c).1 hc
    rw [(convertOne_spec' target w c hwc).1]
    exact (C.factorWorld F.target hTc ν [] w c hw hwc).1
  have hlink := transportFactors_family_sound F target graphs ds hF hds σ' factors qs ht hnodesT
  symm
  apply sumVars_congr_card F.card (F.env graphs).card (fun τ => ∀ x, τ x < F.card x)
  · intro τ x k hτ hk y
    by_cases hy : y = x
    · subst hy; rw [Val.set_same]; exact hk
    · rw [Val.set_other _ _ hy]; exact hτ y
  · intro n hn
    show F.card n = F.target.cardS F.card F.base n
    rw [cardS_node F.target F.card (hTp.base_gt n (hRorder n hn))]
  · intro τ hτ
    rw [prod_cfactor_link F.target τ fs' factors hlinkF]
    symm
    exact denProd_of_forall₂ (F.env graphs) σ' (fun f τ => F.target.cfactor (nsort (districtOf f)) τ)
      (fun τ f => ∀ v ∈ districtOf f, τ v < F.card v) factors qs hlink τ (fun f _ v _ => hτ v)
  · exact hσr

end Y0.CtfTr
