/-
  Y0.Lemmas.TrsoTotal — every helper of the TRSO model raises only "internal" errors (the explicit `raise` sites and
  library exceptions of the Python), never the documented `ValueError` of input validation nor `Unidentifiable`.
  Used by the error-taxonomy theorems of Props/C05.lean.
-/
import Y0.Lemmas.TrsoInv

namespace Y0
namespace Trso
open TrDsl

/-- only "internal" exceptions (the ones the property forbids) -/
def OnlyInternal {α} (x : Except Err α) : Prop := ∀ e, x = .error e → ∃ k, e = .internal k

theorem onlyInternal_ok {α} (a : α) : OnlyInternal (Except.ok a : Except Err α) := by intro e h; cases h
theorem onlyInternal_pure {α} (a : α) : OnlyInternal (pure a : Except Err α) := onlyInternal_ok a
theorem onlyInternal_error {α} (k : String) : OnlyInternal (Except.error (.internal k) : Except Err α) := by
  intro e h; cases h; exact ⟨k, rfl⟩

theorem onlyInternal_bind {α β} {x : Except Err α} {f : α → Except Err β} (hx : OnlyInternal x)
    (hf : ∀ a, x = .ok a → OnlyInternal (f a)) : OnlyInternal (x >>= f) := by
  intro e h
  cases x with
  | error e' => simp [bind, Except.bind] at h; subst h; exact hx _ rfl
  | ok a => exact hf a rfl e (by simpa [bind, Except.bind] using h)

theorem onlyInternal_map {α β} {x : Except Err α} {f : α → β} (hx : OnlyInternal x) : OnlyInternal (f <$> x) := by
  intro e h
  cases x with
  | error e' => simp [Functor.map, Except.map] at h; subst h; exact hx _ rfl
  | ok a => simp [Functor.map, Except.map] at h

theorem onlyInternal_mapM {α β} {f : α → Except Err β} (l : List α) (hf : ∀ a ∈ l, OnlyInternal (f a)) :
    OnlyInternal (l.mapM f) := by
  induction l with
  | nil => simp [List.mapM_nil]; exact onlyInternal_pure _
  | cons a as ih =>
    rw [List.mapM_cons]
    refine onlyInternal_bind (hf a (by simp)) fun b _ => onlyInternal_bind (ih fun x hx => hf x (by simp [hx])) fun bs _ => ?_
    exact onlyInternal_pure _

theorem onlyInternal_foldlM {α β} {f : β → α → Except Err β} (l : List α) (b : β) (hf : ∀ acc a, OnlyInternal (f acc a)) :
    OnlyInternal (l.foldlM f b) := by
  induction l generalizing b with
  | nil => simp [List.foldlM]; exact onlyInternal_pure _
  | cons a as ih => rw [List.foldlM_cons]; exact onlyInternal_bind (hf b a) fun b' _ => ih b'

/-- the separation test only raises internal errors (true of `dSeparated`) -/
def SepInternal (sep : SepTest) : Prop := ∀ G a b c, OnlyInternal (sep G a b c)

theorem oi_ancestors (G : MG Name) (S : List Name) : OnlyInternal (G.ancestorsInclusive S) := by
  unfold MG.ancestorsInclusive MG.checkSources
  split
  · simp [bind, Except.bind]; exact onlyInternal_pure _
  · simp [bind, Except.bind]; exact onlyInternal_error _

theorem oi_descendants (G : MG Name) (S : List Name) : OnlyInternal (G.descendantsInclusive S) := by
  unfold MG.descendantsInclusive MG.checkSources
  split
  · simp [bind, Except.bind]; exact onlyInternal_pure _
  · simp [bind, Except.bind]; exact onlyInternal_error _

theorem oi_pillow (G : MG Name) (S : List Name) : OnlyInternal (G.markovPillow S) := by
  unfold MG.markovPillow MG.checkSources
  split
  · simp [bind, Except.bind]; exact onlyInternal_pure _
  · simp [bind, Except.bind]; exact onlyInternal_error _

theorem oi_topoLoop (G : MG Name) : ∀ fuel deg gen acc, OnlyInternal (MG.topoLoop G fuel deg gen acc) := by
  intro fuel
  induction fuel with
  | zero => intro deg gen acc; unfold MG.topoLoop; split; exact onlyInternal_ok _; exact onlyInternal_error _
  | succ n ih =>
    intro deg gen acc
    unfold MG.topoLoop
    split
    · split
      · exact onlyInternal_ok _
      · exact onlyInternal_error _
    · exact ih _ _ _

theorem oi_topo (G : MG Name) : OnlyInternal G.topologicalSort := by
  unfold MG.topologicalSort; exact oi_topoLoop G _ _ _ _

theorem oi_dSeparated : SepInternal dSeparated := by
  intro G a b c
  unfold dSeparated
  split
  · exact onlyInternal_error _
  · split
    · exact onlyInternal_error _
    · split
      · exact onlyInternal_error _
      · refine onlyInternal_bind (oi_ancestors _ _) fun keep _ => ?_
        simp only []
        split
        · exact onlyInternal_error _
        · exact onlyInternal_pure _

theorem oi_lookup {β} (l : List (Pop × β)) (d : Pop) : OnlyInternal (lookup l d) := by
  unfold lookup; split; exact onlyInternal_ok _; exact onlyInternal_error _

theorem oi_mkFrac (n d : Expr) : OnlyInternal (mkFrac n d) := by
  unfold mkFrac; split; exact onlyInternal_error _; exact onlyInternal_ok _

theorem oi_mulF : ∀ fuel a b, OnlyInternal (mulF fuel a b) := by
  intro fuel
  induction fuel with
  | zero => intro a b; exact onlyInternal_error _
  | succ n ih =>
    intro a b
    have fr : ∀ x y d, OnlyInternal (do mkFrac (← mulF n x y) d) :=
      fun x y d => onlyInternal_bind (ih x y) fun _ _ => oi_mkFrac _ _
    unfold mulF
    cases a <;> cases b <;> first
      | exact onlyInternal_ok _
      | exact fr _ _ _
      | exact onlyInternal_bind (ih _ _) fun _ _ => onlyInternal_bind (ih _ _) fun _ _ => oi_mkFrac _ _

theorem oi_mul (a b : Expr) : OnlyInternal (mul a b) := oi_mulF _ a b

theorem oi_truediv (a b : Expr) : OnlyInternal (truediv a b) := by
  unfold truediv
  cases a <;> cases b <;> first
    | exact onlyInternal_ok _
    | exact oi_mkFrac _ _
    | exact onlyInternal_bind (oi_mul _ _) fun _ _ => oi_mkFrac _ _
    | exact onlyInternal_bind (oi_mul _ _) fun _ _ => onlyInternal_bind (oi_mul _ _) fun _ _ => oi_mkFrac _ _
    | (simp only []; split <;> first | exact onlyInternal_error _ | exact onlyInternal_ok _)

theorem oi_simplifyParts (n d : List Expr) : OnlyInternal (simplifyParts n d) := by
  unfold simplifyParts
  generalize cancelParts n d = c
  obtain ⟨a, b⟩ := c
  simp only []
  split
  · exact oi_mkFrac _ _
  · split
    · exact onlyInternal_ok _
    · split
      · exact oi_truediv _ _
      · exact onlyInternal_ok _

theorem oi_fracSimplifyF : ∀ fuel n d, OnlyInternal (fracSimplifyF fuel n d) := by
  intro fuel
  induction fuel with
  | zero => intro n d; exact onlyInternal_error _
  | succ k ih =>
    intro n d
    unfold fracSimplifyF
    split
    · exact onlyInternal_ok _
    · split
      · exact onlyInternal_ok _
      · split
        · split
          · split
            · exact onlyInternal_error _
            · exact ih _ _
          · exact onlyInternal_ok _
        · split
          · exact onlyInternal_ok _
          · split <;> first | exact oi_simplifyParts _ _ | exact onlyInternal_ok _

theorem oi_fracSimplify (n d : Expr) : OnlyInternal (fracSimplify n d) := oi_fracSimplifyF _ n d

theorem oi_simplifyCast (x : Expr) : OnlyInternal (simplifyCast x) := by
  unfold simplifyCast
  split
  · exact oi_fracSimplify _ _
  · exact onlyInternal_ok _
  · exact onlyInternal_error _

mutual
theorem oi_canon : ∀ (x : Expr), OnlyInternal (canon x)
  | .prob _ _ _ => by simp [canon]; exact onlyInternal_ok _
  | .prod fs => by
    simp only [canon]
    exact onlyInternal_bind (oi_canonFlat fs) fun _ _ => onlyInternal_pure _
  | .sum e _ => by
    simp only [canon]
    exact onlyInternal_bind (oi_canon e) fun _ _ => onlyInternal_pure _
  | .frac n d => by
    simp only [canon]
    refine onlyInternal_bind (oi_canon n) fun n' _ => onlyInternal_bind (oi_canon d) fun d' _ => ?_
    split
    · exact onlyInternal_pure _
    · split
      · exact onlyInternal_pure _
      · exact onlyInternal_bind (oi_truediv _ _) fun _ _ => onlyInternal_pure _
  | .one => by simp [canon]; exact onlyInternal_ok _
  | .zero => by simp [canon]; exact onlyInternal_ok _
  | .q _ _ => by simp [canon]; exact onlyInternal_error _
theorem oi_canonFlat : ∀ (xs : List Expr), OnlyInternal (canonFlat xs)
  | [] => by simp [canonFlat]; exact onlyInternal_ok _
  | .prod gs :: xs => by
    simp only [canonFlat]
    exact onlyInternal_bind (oi_canonFlat gs) fun _ _ => onlyInternal_bind (oi_canonFlat xs) fun _ _ => onlyInternal_pure _
  | .prob a b c :: xs => by
    simp only [canonFlat]
    exact onlyInternal_bind (oi_canon _) fun _ _ => onlyInternal_bind (oi_canonFlat xs) fun _ _ => onlyInternal_pure _
  | .sum a b :: xs => by
    simp only [canonFlat]
    exact onlyInternal_bind (oi_canon _) fun _ _ => onlyInternal_bind (oi_canonFlat xs) fun _ _ => onlyInternal_pure _
  | .frac a b :: xs => by
    simp only [canonFlat]
    exact onlyInternal_bind (oi_canon _) fun _ _ => onlyInternal_bind (oi_canonFlat xs) fun _ _ => onlyInternal_pure _
  | .one :: xs => by
    simp only [canonFlat]
    exact onlyInternal_bind (oi_canon _) fun _ _ => onlyInternal_bind (oi_canonFlat xs) fun _ _ => onlyInternal_pure _
  | .zero :: xs => by
    simp only [canonFlat]
    exact onlyInternal_bind (oi_canon _) fun _ _ => onlyInternal_bind (oi_canonFlat xs) fun _ _ => onlyInternal_pure _
  | .q a b :: xs => by
    simp only [canonFlat]
    exact onlyInternal_bind (oi_canon _) fun _ _ => onlyInternal_bind (oi_canonFlat xs) fun _ _ => onlyInternal_pure _
end

theorem oi_canonicalize (x : Expr) : OnlyInternal (canonicalize x) := oi_canon x

theorem oi_c14nSafe (x : Option Expr) : OnlyInternal (c14nSafe x) := by
  unfold c14nSafe
  cases x with
  | none => exact onlyInternal_ok _
  | some e => exact onlyInternal_bind (oi_canonicalize e) fun _ _ => onlyInternal_pure _

theorem oi_interveneVars (zs vs : List Var) : OnlyInternal (interveneVars zs vs) := by
  unfold interveneVars
  refine onlyInternal_mapM _ fun v _ => ?_
  unfold interveneVar
  simp only []
  split
  · exact onlyInternal_error _
  · split
    · exact onlyInternal_error _
    · exact onlyInternal_ok _

mutual
theorem oi_activate (zs : List Name) (d : Pop) : ∀ (e : Expr), OnlyInternal (activate zs d e)
  | .prob none _ _ => by simp [activate]; exact onlyInternal_error _
  | .prob (some _) c p => by
    simp only [activate]
    split
    · exact onlyInternal_pure _
    · exact onlyInternal_bind (oi_interveneVars _ _) fun _ _ => onlyInternal_bind (oi_interveneVars _ _) fun _ _ =>
        onlyInternal_pure _
  | .sum e r => by
    simp only [activate]
    exact onlyInternal_bind (oi_activate zs d e) fun _ _ => onlyInternal_pure _
  | .frac n dn => by
    simp only [activate]
    refine onlyInternal_bind (oi_activate zs d n) fun _ _ => onlyInternal_bind (oi_activate zs d dn) fun _ _ =>
      onlyInternal_bind (oi_truediv _ _) fun t _ => ?_
    split
    · exact oi_fracSimplify _ _
    · exact onlyInternal_pure _
  | .prod fs => by
    simp only [activate]
    exact onlyInternal_bind (oi_activateList zs d fs) fun _ _ => onlyInternal_pure _
  | .one => by simp [activate]; exact onlyInternal_error _
  | .zero => by simp [activate]; exact onlyInternal_error _
  | .q _ _ => by simp [activate]; exact onlyInternal_error _
theorem oi_activateList (zs : List Name) (d : Pop) : ∀ (es : List Expr), OnlyInternal (activate.activateList zs d es)
  | [] => by simp [activate.activateList]; exact onlyInternal_ok _
  | e :: es => by
    simp only [activate.activateList]
    exact onlyInternal_bind (oi_activate zs d e) fun _ _ => onlyInternal_bind (oi_activateList zs d es) fun _ _ =>
      onlyInternal_pure _
end

theorem oi_indexOf (l : List Name) (v : Name) : OnlyInternal (indexOf? l v) := by
  unfold indexOf?; split; exact onlyInternal_ok _; exact onlyInternal_error _

theorem oi_regularOrder (G : MG Name) : OnlyInternal (regularOrder G) := by
  unfold regularOrder; exact onlyInternal_bind (oi_topo G) fun _ _ => onlyInternal_pure _

theorem oi_line2 (q : Query) (anc : List Name) : OnlyInternal (line2 q anc) := by
  unfold line2
  refine onlyInternal_bind (onlyInternal_mapM _ fun p _ => ?_) fun _ _ => onlyInternal_bind (oi_lookup _ _) fun _ _ =>
    onlyInternal_bind ?_ fun _ _ => onlyInternal_pure _
  · exact onlyInternal_bind (oi_ancestors _ _) fun _ _ => onlyInternal_pure _
  · unfold retag; split; exact onlyInternal_ok _; exact onlyInternal_error _; exact onlyInternal_ok _

theorem oi_line9 (q : Query) (G : MG Name) (c : List Name) : OnlyInternal (line9 q G c) := by
  unfold line9
  split
  · exact onlyInternal_error _
  · refine onlyInternal_bind (oi_regularOrder G) fun order _ => onlyInternal_bind (onlyInternal_foldlM _ _ fun acc node => ?_)
      fun _ _ => onlyInternal_bind (oi_simplifyCast _) fun _ _ => onlyInternal_pure _
    exact onlyInternal_bind (oi_indexOf _ _) fun _ _ => onlyInternal_bind (oi_truediv _ _) fun _ _ => oi_mul _ _

theorem oi_line10 (q : Query) (G : MG Name) (c : List Name) (s : List (Pop × List Name)) : OnlyInternal (line10 q G c s) := by
  unfold line10
  refine onlyInternal_bind (oi_regularOrder G) fun order _ => ?_
  simp only []
  refine onlyInternal_bind (onlyInternal_mapM _ fun node _ => ?_) fun _ _ => onlyInternal_bind (oi_canonicalize _) fun _ _ =>
    onlyInternal_pure _
  unfold line10Factor
  refine onlyInternal_bind (oi_indexOf _ _) fun _ _ => ?_
  split
  · exact onlyInternal_pure _
  · exact oi_truediv _ _

theorem oi_allSep {sep : SepTest} (hs : SepInternal sep) (G : MG Name) (X Y : List Name) :
    OnlyInternal (allTransportsDSeparated sep G X Y) := by
  unfold allTransportsDSeparated
  refine onlyInternal_bind (onlyInternal_mapM _ fun t _ => ?_) fun _ _ => onlyInternal_pure _
  split
  · exact onlyInternal_mapM _ fun y _ => hs _ _ _ _
  · exact onlyInternal_pure _

theorem oi_line6 {sep : SepTest} (hs : SepInternal sep) (q : Query) : OnlyInternal (line6 sep q) := by
  unfold line6
  refine onlyInternal_bind (onlyInternal_mapM _ fun p _ => ?_) fun _ _ => onlyInternal_pure _
  refine onlyInternal_bind ?_ fun _ _ => onlyInternal_pure _
  unfold line6Helper
  intro e h
  split at h
  · rename_i e' he'; cases h; exact oi_lookup _ _ _ he'
  · split at h
    · cases h
    · split at h
      · rename_i e' he'; cases h; exact oi_allSep hs _ _ _ _ he'
      · cases h
      · cases h

theorem oi_collectTerms (rs : List (Except Err (Option Expr))) (h : ∀ r ∈ rs, OnlyInternal r) :
    OnlyInternal (collectTerms rs) := by
  induction rs with
  | nil => exact onlyInternal_ok _
  | cons r rs ih =>
    match r, h with
    | .error e, h => intro e' he'; simp [collectTerms] at he'; subst he'; exact h _ (by simp) _ rfl
    | .ok none, _ => exact onlyInternal_ok _
    | .ok (some t), h =>
      simp only [collectTerms]
      refine onlyInternal_bind (ih fun x hx => h x (by simp [hx])) fun o _ => ?_
      cases o <;> exact onlyInternal_pure _


end Trso
end Y0
