/-
  Y0.Lemmas.IdFuel — a structurally recursive twin of `idAlg` (fuel instead of the well-founded measure) that the
  kernel can evaluate, with the lemma that its successful runs are runs of `idAlg`.  Used for the concrete
  non-vacuity examples of C01 / C02 / C03 (the napkin query runs through lines 3, 7, 2, 6).
-/
import Y0.Lemmas.IdUnfold

namespace Y0
open IdDsl IdAux

def idAlgF (topo : MG Name → Except Err (List Name)) : Nat → IdIn → Except Err Expr
  | 0, _ => .error (.internal "fuel")
  | n + 1, I =>
    match step topo I with
    | .error e => .error e
    | .ok (.done e) => .ok e
    | .ok (.tail J) =>
      if measureLt J.measure I.measure = true then idAlgF topo n J else .error (.internal "measure")
    | .ok (.split Js ranges) =>
      if Js.all (fun J => measureLt J.measure I.measure) = true then
        (Js.mapM (idAlgF topo n)).map (fun es => sumSafe (productSafe es) ranges)
      else .error (.internal "measure")

theorem idAlgF_ok (topo : MG Name → Except Err (List Name)) :
    ∀ (n : Nat) (I : IdIn) (e : Expr), idAlgF topo n I = .ok e → idAlg topo I = .ok e := by
  intro n
  induction n with
  | zero => intro I e h; cases h
  | succ n ih =>
    intro I e h
    rw [idAlg_eq]
    unfold idAlgF at h
    cases hs : step topo I with
    | error err => rw [hs] at h; cases h
    | ok s =>
      rw [hs] at h
      cases s with
      | done e' => exact h
      | tail J =>
        simp only at h ⊢
        split at h
        · rename_i hm
          simp only [hm, if_true]
          exact ih J e h
        · cases h
      | split Js ranges =>
        simp only at h ⊢
        split at h
        · rename_i hm
          simp only [hm, if_true]
          cases hmap : Js.mapM (idAlgF topo n) with
          | error err => rw [hmap] at h; cases h
          | ok es =>
            rw [hmap] at h
            have hF := (mapM_ok_iff _ _ _).mp hmap
            have : Js.mapM (idAlg topo) = .ok es := by
              apply (mapM_ok_iff _ _ _).mpr
              clear hmap h hs hm
              induction hF with
              | nil => exact .nil
              | cons h1 _ ih' => exact .cons (ih _ _ h1) ih'
            rw [this]
            exact h
        · cases h

/-- `identify` with fuel -/
def identifyF (topo : MG Name → Except Err (List Name)) (n : Nat) (G : MG Name) (X Y : List Name) :
    Except Err Expr := do
  let est ← pJoint G.nodes
  idAlgF topo n { G := G, X := X, Y := Y, est := est }

theorem identifyF_ok (topo : MG Name → Except Err (List Name)) (n : Nat) (G : MG Name) (X Y : List Name)
    (e : Expr) (h : identifyF topo n G X Y = .ok e) : identify topo G X Y = .ok e := by
  unfold identifyF at h
  unfold identify
  cases hj : pJoint G.nodes with
  | error err => rw [hj] at h; cases h
  | ok est =>
    rw [hj] at h
    exact idAlgF_ok topo n _ e h

end Y0
