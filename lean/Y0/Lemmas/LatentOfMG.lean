/-
  Y0.Lemmas.LatentOfMG — `_latent_dag`: the LV-DAG built from a mixed graph is well formed, flat, and
  its latent projection is the graph it was built from.
-/
import Y0.Lemmas.LatentConv

namespace Y0.LV
open MG

/-! ### `sorted(...)` is a permutation as far as membership goes -/

theorem mem_insertPair (a x : Nat × Nat) (l : List (Nat × Nat)) : x ∈ insertPair a l ↔ x = a ∨ x ∈ l := by
  induction l with
  | nil => simp [insertPair]
  | cons b bs ih =>
    simp only [insertPair]
    split
    · simp
    · simp only [List.mem_cons, ih]; tauto

theorem mem_sortPairs (x : Nat × Nat) (l : List (Nat × Nat)) : x ∈ sortPairs l ↔ x ∈ l := by
  induction l with
  | nil => simp [sortPairs]
  | cons a as ih =>
    have : sortPairs (a :: as) = insertPair a (sortPairs as) := rfl
    rw [this, mem_insertPair, ih]; simp

/-! ### the name search finds an unused name -/

open Classical in
theorem nextFree_spec (fresh : Nat → Nat) (hinj : Function.Injective fresh) (nodes : List Nat) :
    ∀ fuel i, (nodes.toFinset.filter (fun x => ∃ k, i ≤ k ∧ fresh k = x)).card < fuel →
      fresh (nextFree fresh nodes fuel i) ∉ nodes := by
  intro fuel
  induction fuel with
  | zero => intro i h; omega
  | succ n ih =>
    intro i h
    simp only [nextFree]
    split
    · rename_i hi
      apply ih
      have hlt : (nodes.toFinset.filter (fun x => ∃ k, i + 1 ≤ k ∧ fresh k = x)).card <
          (nodes.toFinset.filter (fun x => ∃ k, i ≤ k ∧ fresh k = x)).card := by
        apply Finset.card_lt_card
        constructor
        · intro x hx
          simp only [Finset.mem_filter, List.mem_toFinset] at hx ⊢
          obtain ⟨hx1, k, hk, rfl⟩ := hx
          exact ⟨hx1, k, by omega, rfl⟩
        · intro hsub
          have : fresh i ∈ nodes.toFinset.filter (fun x => ∃ k, i + 1 ≤ k ∧ fresh k = x) :=
            hsub (by simp only [Finset.mem_filter, List.mem_toFinset]; exact ⟨hi, i, le_refl _, rfl⟩)
          simp only [Finset.mem_filter, List.mem_toFinset] at this
          obtain ⟨_, k, hk, hke⟩ := this
          have := hinj hke
          omega
      omega
    · assumption

open Classical in
theorem nextFree_free (fresh : Nat → Nat) (hinj : Function.Injective fresh) (nodes : List Nat) (i : Nat) :
    fresh (nextFree fresh nodes (nodes.length + 1) i) ∉ nodes := by
  apply nextFree_spec fresh hinj
  have h1 : (nodes.toFinset.filter (fun x => ∃ k, i ≤ k ∧ fresh k = x)).card ≤ nodes.toFinset.card :=
    Finset.card_le_card (Finset.filter_subset _ _)
  have h2 := List.toFinset_card_le nodes
  omega

/-! ### one bidirected edge becomes one new exogenous latent with two observed children -/

def addLatentTriple (D : LV) (n u v : Nat) : LV := ((D.addLatentNode n).addEdge (n, u)).addEdge (n, v)

theorem addLatentStep_spec (D : LV) (hw : D.WF) (hf : D.Flat) (n u v : Nat) (hn : n ∉ D.nodes)
    (hu : D.Observed u) (hv : D.Observed v) :
    (addLatentTriple D n u v).WF ∧ (addLatentTriple D n u v).Flat ∧
      (∀ x, x ∈ (addLatentTriple D n u v).nodes ↔ x ∈ D.nodes ∨ x = n) ∧
      (∀ x, x ∈ (addLatentTriple D n u v).latent ↔ x ∈ D.latent ∨ x = n) ∧
      (∀ a b, (addLatentTriple D n u v).Edge a b ↔ D.Edge a b ∨ (a = n ∧ (b = u ∨ b = v))) := by
  generalize hD1 : addLatentTriple D n u v = D1
  unfold addLatentTriple at hD1
  have hnu : n ≠ u := fun h => hn (h ▸ hu.1)
  have hnv : n ≠ v := fun h => hn (h ▸ hv.1)
  -- after add_node
  have a_n1 : (n, u).1 ∈ (D.addLatentNode n).nodes := by simp
  have a_n2 : (n, u).2 ∈ (D.addLatentNode n).nodes := by simp [hu.1]
  -- after first add_edge
  have b_nodes := nodes_addEdge_of_mem _ _ a_n1 a_n2
  have b_lat := latent_addEdge_of_mem _ _ a_n1 a_n2
  have b_unt := untagged_addEdge_of_mem _ _ a_n1 a_n2
  have b_n1 : (n, v).1 ∈ ((D.addLatentNode n).addEdge (n, u)).nodes := by rw [b_nodes]; simp
  have b_n2 : (n, v).2 ∈ ((D.addLatentNode n).addEdge (n, u)).nodes := by rw [b_nodes]; simp [hv.1]
  have c_nodes : D1.nodes = (D.addLatentNode n).nodes := by
    rw [← hD1]; exact (nodes_addEdge_of_mem _ _ b_n1 b_n2).trans b_nodes
  have c_lat : D1.latent = (D.addLatentNode n).latent := by
    rw [← hD1]; exact (latent_addEdge_of_mem _ _ b_n1 b_n2).trans b_lat
  have c_unt : D1.untagged = (D.addLatentNode n).untagged := by
    rw [← hD1]; exact (untagged_addEdge_of_mem _ _ b_n1 b_n2).trans b_unt
  have c_edges : ∀ x, x ∈ D1.edges ↔ x ∈ D.edges ∨ x = (n, u) ∨ x = (n, v) := by
    intro x
    rw [← hD1, mem_edges_addEdge_of_mem _ _ x b_n1 b_n2, mem_edges_addEdge_of_mem _ _ x a_n1 a_n2,
      edges_addLatentNode, or_assoc]
  have c_nd : D1.edges.Nodup := by
    rw [← hD1]
    exact nodup_edges_addEdge_of_mem _ _ b_n1 b_n2
      (nodup_edges_addEdge_of_mem _ _ a_n1 a_n2 (by rw [edges_addLatentNode]; exact hw.edges_nodup))
  have hN : ∀ x, x ∈ D1.nodes ↔ x ∈ D.nodes ∨ x = n := by intro x; rw [c_nodes]; simp
  have hL : ∀ x, x ∈ D1.latent ↔ x ∈ D.latent ∨ x = n := by intro x; rw [c_lat]; simp
  have hE : ∀ a b, D1.Edge a b ↔ D.Edge a b ∨ (a = n ∧ (b = u ∨ b = v)) := by
    intro a b
    simp only [Edge, c_edges, Prod.mk.injEq, and_or_left]
  refine ⟨⟨?_, ?_, ?_, ?_, ?_⟩, ?_, hN, hL, hE⟩
  · rw [c_nodes]; exact nodup_nodes_addLatentNode D n hw.nodes_nodup
  · exact c_nd
  · rintro ⟨a, b⟩ he
    have he' : D1.Edge a b := he
    rw [hE] at he'
    simp only [hN]
    rcases he' with h | ⟨rfl, rfl | rfl⟩
    · exact ⟨Or.inl (hw.edge_mem _ h).1, Or.inl (hw.edge_mem _ h).2⟩
    · exact ⟨Or.inr rfl, Or.inl hu.1⟩
    · exact ⟨Or.inr rfl, Or.inl hv.1⟩
  · intro l hl
    rw [hL] at hl
    rw [hN]
    exact hl.imp (hw.latent_mem l) id
  · rw [c_unt]; exact untagged_addLatentNode D n hw.tagged
  · rintro ⟨a, b⟩ he
    have he' : D1.Edge a b := he
    rw [hE] at he'
    simp only [hL, not_or]
    rcases he' with h | ⟨rfl, rfl | rfl⟩
    · exact ⟨hf _ h, fun hb => hn (hb ▸ (hw.edge_mem _ h).2)⟩
    · exact ⟨hu.2, hnu.symm⟩
    · exact ⟨hv.2, hnv.symm⟩

/-- the loop over the sorted bidirected edges -/
theorem addLatents_spec (fresh : Nat → Nat) (hinj : Function.Injective fresh) :
    ∀ (es : List (Nat × Nat)) (i : Nat) (D : LV), D.WF → D.Flat →
      (∀ e ∈ es, D.Observed e.1 ∧ D.Observed e.2) →
      (addLatents fresh es i D).WF ∧ (addLatents fresh es i D).Flat ∧
      (∀ x, (addLatents fresh es i D).Observed x ↔ D.Observed x) ∧
      (∀ a b, D.Observed a → ((addLatents fresh es i D).Edge a b ↔ D.Edge a b)) ∧
      (∀ a b, (∃ l, (addLatents fresh es i D).Latent l ∧ (addLatents fresh es i D).Edge l a ∧
            (addLatents fresh es i D).Edge l b) ↔
          (∃ l, D.Latent l ∧ D.Edge l a ∧ D.Edge l b) ∨
          ∃ e ∈ es, (a = e.1 ∨ a = e.2) ∧ (b = e.1 ∨ b = e.2)) := by
  intro es
  induction es with
  | nil =>
    intro i D hw hf _
    rw [show addLatents fresh [] i D = D from rfl]
    exact ⟨hw, hf, fun _ => Iff.rfl, fun _ _ _ => Iff.rfl, by simp⟩
  | cons e es ih =>
    intro i D hw hf hes
    obtain ⟨u, v⟩ := e
    generalize hj : nextFree fresh D.nodes (D.nodes.length + 1) i = j
    have hn : fresh j ∉ D.nodes := hj ▸ nextFree_free fresh hinj D.nodes i
    have hu := (hes (u, v) (by simp)).1
    have hv := (hes (u, v) (by simp)).2
    obtain ⟨w1, f1, hN, hL, hE⟩ := addLatentStep_spec D hw hf (fresh j) u v hn hu hv
    have hunf : addLatents fresh ((u, v) :: es) i D = addLatents fresh es (j + 1) (addLatentTriple D (fresh j) u v) := by
      rw [← hj]; rfl
    rw [hunf]
    generalize addLatentTriple D (fresh j) u v = D1 at *
    have hobs : ∀ x, D1.Observed x ↔ D.Observed x := by
      intro x
      simp only [Observed, hN, hL, not_or]
      constructor
      · rintro ⟨h1 | h1, h2, h3⟩
        · exact ⟨h1, h2⟩
        · exact absurd h1 h3
      · rintro ⟨h1, h2⟩
        exact ⟨Or.inl h1, h2, fun h => hn (h ▸ h1)⟩
    obtain ⟨w2, f2, o2, e2, b2⟩ := ih (j + 1) D1 w1 f1 (by
      intro e he
      rw [hobs, hobs]
      exact hes e (by simp [he]))
    refine ⟨w2, f2, fun x => (o2 x).trans (hobs x), ?_, ?_⟩
    · intro a b ha
      rw [e2 a b ((hobs a).2 ha), hE]
      constructor
      · rintro (h | ⟨rfl, _⟩)
        · exact h
        · exact absurd ha.1 hn
      · exact Or.inl
    · intro a b
      rw [b2 a b]
      simp only [List.mem_cons, exists_eq_or_imp]
      have : (∃ l, D1.Latent l ∧ D1.Edge l a ∧ D1.Edge l b) ↔
          (∃ l, D.Latent l ∧ D.Edge l a ∧ D.Edge l b) ∨ ((a = u ∨ a = v) ∧ (b = u ∨ b = v)) := by
        constructor
        · rintro ⟨l, hl, ha, hb⟩
          rw [hE] at ha hb
          rcases ha with ha | ⟨rfl, ha⟩
          · rcases hb with hb | ⟨rfl, _⟩
            · have hl' : l ∈ D.latent ∨ l = fresh j := (hL l).1 hl
              rcases hl' with hl' | rfl
              · exact Or.inl ⟨l, hl', ha, hb⟩
              · exact absurd (hw.edge_mem _ ha).1 hn
            · exact absurd (hw.edge_mem _ ha).1 hn
          · rcases hb with hb | ⟨_, hb⟩
            · exact absurd (hw.edge_mem _ hb).1 hn
            · exact Or.inr ⟨ha, hb⟩
        · rintro (⟨l, hl, ha, hb⟩ | ⟨ha, hb⟩)
          · exact ⟨l, (hL l).2 (Or.inl hl), (hE _ _).2 (Or.inl ha), (hE _ _).2 (Or.inl hb)⟩
          · exact ⟨fresh j, (hL _).2 (Or.inr rfl), (hE _ _).2 (Or.inr ⟨rfl, ha⟩), (hE _ _).2 (Or.inr ⟨rfl, hb⟩)⟩
      rw [this, or_assoc]

/-! ### the base graph: observed nodes and directed edges of `G` -/

theorem mem_nxDiEdges (G : MG Nat) (e : Nat × Nat) : e ∈ nxDiEdges G ↔ e ∈ G.di ∧ e.1 ∈ G.nodes := by
  simp only [nxDiEdges, List.mem_flatMap, List.mem_filter, decide_eq_true_eq]
  constructor
  · rintro ⟨n, hn, he, rfl⟩; exact ⟨he, hn⟩
  · rintro ⟨he, hn⟩; exact ⟨e.1, hn, he, rfl⟩

theorem nxOrient_cases (ns : List Nat) (e : Nat × Nat) : nxOrient ns e = e ∨ nxOrient ns e = (e.2, e.1) := by
  unfold nxOrient; split <;> simp

/-- `_latent_dag(nodes, di_edges, bi_edges)` of a well-formed mixed graph without bidirected self-loops -/
theorem ofMG_spec (fresh : Nat → Nat) (hinj : Function.Injective fresh) (G : MG Nat) (hG : G.WF) :
    (ofMG fresh G).WF ∧ (ofMG fresh G).Flat ∧
    (∀ x, (ofMG fresh G).Observed x ↔ x ∈ G.nodes) ∧
    (∀ a b, a ∈ G.nodes → ((ofMG fresh G).Edge a b ↔ G.DiEdge a b)) ∧
    (∀ a b, (∃ l, (ofMG fresh G).Latent l ∧ (ofMG fresh G).Edge l a ∧ (ofMG fresh G).Edge l b) ↔
        ∃ e ∈ G.bi, (a = e.1 ∨ a = e.2) ∧ (b = e.1 ∨ b = e.2)) := by
  set base : LV :=
    { nodes := dedup' (G.nodes ++ (G.bi.map (nxOrient G.nodes)).flatMap (fun e => [e.1, e.2]) ++
        (nxDiEdges G).flatMap (fun e => [e.1, e.2]))
      edges := dedup' (nxDiEdges G)
      latent := []
      untagged := [] } with hbase
  have hor : ∀ e ∈ G.bi.map (nxOrient G.nodes), ∃ e' ∈ G.bi, e = e' ∨ e = (e'.2, e'.1) := by
    intro e he
    obtain ⟨e', he', rfl⟩ := List.mem_map.1 he
    exact ⟨e', he', nxOrient_cases _ _⟩
  have bN : ∀ x, x ∈ base.nodes ↔ x ∈ G.nodes := by
    intro x
    simp only [hbase, mem_dedup', List.mem_append, List.mem_flatMap, List.mem_cons, List.not_mem_nil, or_false]
    constructor
    · rintro ((h | ⟨e, he, rfl | rfl⟩) | ⟨e, he, h⟩)
      · exact h
      · obtain ⟨e', he', h | h⟩ := hor e he <;> rw [h]
        · exact (hG.bi_mem e' he').1
        · exact (hG.bi_mem e' he').2
      · obtain ⟨e', he', h | h⟩ := hor e he <;> rw [h]
        · exact (hG.bi_mem e' he').2
        · exact (hG.bi_mem e' he').1
      · rw [mem_nxDiEdges] at he
        rcases h with rfl | rfl
        · exact he.2
        · exact (hG.di_mem e he.1).2
    · exact fun h => Or.inl (Or.inl h)
  have bE : ∀ a b, base.Edge a b ↔ G.DiEdge a b := by
    intro a b
    simp only [Edge, hbase, mem_dedup', mem_nxDiEdges, DiEdge]
    exact ⟨fun h => h.1, fun h => ⟨h, (hG.di_mem _ h).1⟩⟩
  have bw : base.WF := by
    refine ⟨nodup_dedup' _, nodup_dedup' _, ?_, by simp [hbase], rfl⟩
    rintro ⟨a, b⟩ he
    have : base.Edge a b := he
    rw [bE] at this
    rw [bN, bN]
    exact hG.di_mem _ this
  have bf : base.Flat := by intro e _; simp [hbase]
  have bO : ∀ x, base.Observed x ↔ x ∈ G.nodes := by
    intro x; simp only [Observed, bN]; simp [hbase]
  have hes : ∀ e ∈ sortPairs (G.bi.map (nxOrient G.nodes)), base.Observed e.1 ∧ base.Observed e.2 := by
    intro e he
    rw [mem_sortPairs] at he
    rw [bO, bO]
    obtain ⟨e', he', h | h⟩ := hor e he <;> rw [h]
    · exact hG.bi_mem e' he'
    · exact ⟨(hG.bi_mem e' he').2, (hG.bi_mem e' he').1⟩
  obtain ⟨w, f, o, hed, hbi⟩ := addLatents_spec fresh hinj _ 0 base bw bf hes
  have hof : ofMG fresh G = addLatents fresh (sortPairs (G.bi.map (nxOrient G.nodes))) 0 base := rfl
  rw [hof]
  refine ⟨w, f, fun x => (o x).trans (bO x), fun a b ha => (hed a b ((bO a).2 ha)).trans (bE a b), ?_⟩
  intro a b
  rw [hbi a b]
  constructor
  · rintro (⟨l, hl, _⟩ | ⟨e, he, h⟩)
    · simp [Latent, hbase] at hl
    · rw [mem_sortPairs] at he
      obtain ⟨e', he', h' | h'⟩ := hor e he <;> rw [h'] at h
      · exact ⟨e', he', h⟩
      · exact ⟨e', he', by simpa [or_comm] using h⟩
  · rintro ⟨e, he, h⟩
    refine Or.inr ⟨nxOrient G.nodes e, (mem_sortPairs _ _).2 (List.mem_map.2 ⟨e, he, rfl⟩), ?_⟩
    rcases nxOrient_cases G.nodes e with h' | h' <;> rw [h']
    · exact h
    · simpa [or_comm] using h

/-- the LV-DAG of `G` projects back onto `G` -/
theorem ofMG_isProjection (fresh : Nat → Nat) (hinj : Function.Injective fresh) (G : MG Nat) (hG : G.WF)
    (hloop : ∀ e ∈ G.bi, e.1 ≠ e.2) : IsProjection (ofMG fresh G) G := by
  obtain ⟨w, f, o, hed, hbi⟩ := ofMG_spec fresh hinj G hG
  refine ⟨fun v => (o v).symm, fun u v => ?_, fun u v => ?_⟩
  · simp only [ProjDi, latPath_flat f, o]
    constructor
    · intro h; exact ⟨(hG.di_mem _ h).1, (hG.di_mem _ h).2, (hed u v (hG.di_mem _ h).1).2 h⟩
    · rintro ⟨hu, _, h⟩; exact (hed u v hu).1 h
  · simp only [ProjBi, latPath_flat f, o]
    rw [hbi u v]
    constructor
    · rintro (h | h)
      · exact ⟨hloop _ h, (hG.bi_mem _ h).1, (hG.bi_mem _ h).2, (u, v), h, Or.inl rfl, Or.inr rfl⟩
      · exact ⟨(hloop _ h).symm, (hG.bi_mem _ h).2, (hG.bi_mem _ h).1, (v, u), h, Or.inr rfl, Or.inl rfl⟩
    · rintro ⟨hne, _, _, ⟨x, y⟩, he, hu, hv⟩
      simp only at hu hv
      rcases hu with rfl | rfl <;> rcases hv with rfl | rfl
      · exact absurd rfl hne
      · exact Or.inl he
      · exact Or.inr he
      · exact absurd rfl hne

end Y0.LV
