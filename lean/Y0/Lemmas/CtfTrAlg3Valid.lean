/-
  Y0.Lemmas.CtfTrAlg3Valid — line 3 of Algorithm 3 calls Algorithm 2 with its own validator on the derived event `D*`:
  what the conditional validator guarantees, and when the unconditional validator accepts `D*`
  (`ValueError('empty list for the event')` is the only way it can reject it).
-/
import Y0.Lemmas.CtfTrAlg3Line2

namespace Y0.CtfTr
open Ctf Relation Y0.MG
open Trso (isTnode tnode targetPop nsort)

/-- what an accepted conditional input guarantees -/
theorem validateC_facts (target : MG Name) (ds : List Domain) (o c : Event) (h : validateC target ds o c = .ok ()) :
    (∀ p ∈ o ++ c, p.2.isSome = true) ∧ o ≠ [] ∧ c ≠ [] ∧
    (∀ p ∈ c ++ o, p.1.name ∈ target.nodes) ∧ valueMismatch (c ++ o) = false ∧ target.isAcyclic = true ∧
    validateCommon target ds ((c ++ o).map (·.1)) false false (valueMismatch (c ++ o)) = .ok () := by
  unfold validateC vErr at h
  obtain ⟨h0, h⟩ := ite_error_ok h
  obtain ⟨hc, h⟩ := ite_error_ok h
  obtain ⟨ho, h⟩ := ite_error_ok h
  have hcommon := h
  unfold validateCommon vErr at h
  obtain ⟨_, h⟩ := ite_error_ok h
  obtain ⟨_, h⟩ := ite_error_ok h
  obtain ⟨_, h⟩ := ite_error_ok h
  obtain ⟨_, h⟩ := ite_error_ok h
  obtain ⟨_, h⟩ := ite_error_ok h
  obtain ⟨_, h⟩ := ite_error_ok h
  obtain ⟨_, h⟩ := ite_error_ok h
  obtain ⟨_, h⟩ := ite_error_ok h
  obtain ⟨h8, h⟩ := ite_error_ok h
  obtain ⟨_, h⟩ := ite_error_ok h
  obtain ⟨h10, h⟩ := ite_error_ok h
  obtain ⟨h11, h⟩ := ite_error_ok h
  refine ⟨?_, by simpa using ho, by simpa using hc, ?_, ?_, ?_, hcommon⟩
  · intro p hp
    simp only [List.any_eq_true, not_exists, not_and] at h0
    have := h0 p hp
    cases hv : p.2 with
    | none => rw [hv] at this; exact absurd rfl this
    | some i => rfl
  · intro p hp
    simp only [List.any_eq_true, not_exists, not_and, List.mem_map, decide_eq_true_eq, not_not] at h10
    exact h10 p.1 ⟨p, hp, rfl⟩
  · cases hm : valueMismatch (c ++ o) with
    | false => rfl
    | true => exact absurd hm h11
  · cases hac : target.isAcyclic with
    | true => rfl
    | false => rw [hac] at h8; exact absurd rfl h8

/-- the checks of `validateCommon` that do not look at the event carry over to any event over the nodes of the target
graph that has a value and no value of another variable -/
theorem validateCommon_transfer (target : MG Name) (ds : List Domain) (vs vs' : List Var) (an sn vm an' sn' vm' : Bool)
    (h : validateCommon target ds vs an sn vm = .ok ()) (hvs : ∀ v ∈ vs', v.name ∈ target.nodes)
    (han : an' = false) (hsn : sn' = false) (hvm : vm' = false) : validateCommon target ds vs' an' sn' vm' = .ok () := by
  subst han hsn hvm
  unfold validateCommon vErr at h ⊢
  obtain ⟨h1, h⟩ := ite_error_ok h
  obtain ⟨h2, h⟩ := ite_error_ok h
  obtain ⟨_, h⟩ := ite_error_ok h
  obtain ⟨_, h⟩ := ite_error_ok h
  obtain ⟨h4, h⟩ := ite_error_ok h
  obtain ⟨h5, h⟩ := ite_error_ok h
  obtain ⟨h6, h⟩ := ite_error_ok h
  obtain ⟨h7, h⟩ := ite_error_ok h
  obtain ⟨h8, h⟩ := ite_error_ok h
  obtain ⟨h9, h⟩ := ite_error_ok h
  obtain ⟨_, h⟩ := ite_error_ok h
  obtain ⟨_, h⟩ := ite_error_ok h
  have h10 : ¬ (vs'.any fun v => decide (v.name ∉ target.nodes)) = true := by
    intro hh
    obtain ⟨v, hv, hvn⟩ := List.any_eq_true.1 hh
    exact (by simpa using hvn : v.name ∉ target.nodes) (hvs v hv)
  rw [if_neg h1, if_neg h2, if_neg (by simp), if_neg (by simp), if_neg h4, if_neg h5, if_neg h6, if_neg h7, if_neg h8, if_neg h9,
    if_neg h10, if_neg (by simp)]
  exact h

/-- **the unconditional validator accepts `D*`** as soon as it is not empty: the graph and domain checks were passed
already, its variables are named after nodes, an entry with a value exists (an outcome), and the values are those of the
query -/
theorem validateU_dstar (target : MG Name) (ds : List Domain) (o c : Event) (hv : validateC target ds o c = .ok ())
    (dstar : Event) (hne : dstar ≠ []) (hn : ∀ q ∈ dstar, q.1.name ∈ target.nodes)
    (hval : ∃ q ∈ dstar, q.2.isSome = true)
    (hns : ∀ q ∈ dstar, selfIntervened q.1 = false)
    (hmm : ∀ q ∈ dstar, ∀ i, q.2 = some i → ∃ p ∈ o, p.1.name = q.1.name ∧ p.2 = some i) :
    validateU target ds dstar = .ok () := by
  obtain ⟨_, _, _, _, hvm, _, hcommon⟩ := validateC_facts target ds o c hv
  unfold validateU
  rw [if_neg (by simpa using hne)]
  apply validateCommon_transfer target ds _ _ _ _ _ _ _ _ hcommon
  · intro v hv
    obtain ⟨q, hq, rfl⟩ := List.mem_map.1 hv
    exact hn q hq
  · obtain ⟨q, hq, hqv⟩ := hval
    cases hall : (dstar.all fun p => p.2.isNone) with
    | false => rfl
    | true =>
      have := List.all_eq_true.1 hall q hq
      cases hq2 : q.2 <;> simp_all
  · cases hsn : selfNone dstar with
    | false => rfl
    | true =>
      exfalso
      unfold selfNone at hsn
      obtain ⟨q, hq, hqs⟩ := List.any_eq_true.1 hsn
      simp only [Bool.and_eq_true] at hqs
      rw [hns q hq] at hqs
      exact absurd hqs.2 (by simp)
  · cases hm : valueMismatch dstar with
    | false => rfl
    | true =>
      exfalso
      have hnot : ¬ valueMismatch (c ++ o) = true := by rw [hvm]; simp
      unfold valueMismatch at hm
      obtain ⟨q, hq, hqm⟩ := List.any_eq_true.1 hm
      cases hq2 : q.2 with
      | none => rw [hq2] at hqm; cases hqm
      | some i =>
        rw [hq2] at hqm
        obtain ⟨p, hp, hpn, hpv⟩ := hmm q hq i hq2
        apply hnot
        unfold valueMismatch
        refine List.any_eq_true.2 ⟨p, List.mem_append_right _ hp, ?_⟩
        rw [hpv, hpn]
        exact hqm

end Y0.CtfTr
