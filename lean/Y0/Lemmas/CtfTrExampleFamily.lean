/-
  Y0.Lemmas.CtfTrExampleFamily — **non-vacuity of the hypotheses of the C09 soundness theorem**: a concrete two-domain
  family of functional SCMs that is `FscmFamily.CompatibleWith` a target graph and one declared source domain with a
  selection node, on which Algorithm 2 (`ctfTRu`) answers.

    target graph        X = 0 → Y = 1
    source domain 1001  selection diagram  T_X = 200 → X → Y,  order [200, 0, 1], no policy, distribution `P^{1001}(X, Y)`
    target model        X := u_0 mod 2,        Y := (X + u_1) mod 2,   P(u_0) = (1/3, 2/3),  P(u_1) = (1/2, 1/2)
    source model        X := (u_0 + 1) mod 2,  Y := (X + u_1) mod 2,   T_X := 0 (one value)
                        (so `P(X = 0)` is `1/3` in the target and `2/3` in the source: `exFT_kern0` / `exFS_kern0`)
    query               P(Y_x = y)   ↦   P^{1001}(Y | X)               (`exF_answer`)
-/
import Y0.Lemmas.CtfTrSpecOK

namespace Y0.CtfTr
open Fscm Ctf
open Trso (isTnode tnode nsort mem_nsort)

def exFG : MG Name := MG.fromEdges [] [(0, 1)] []

def exFDomG : MG Name := MG.fromEdges [0, 1] [(0, 1), (200, 0)] []

def exFDom : Domain :=
  { graph := exFDomG, topo := [200, 0, 1], policy := [], pop := popOf 1001 exFDomG }

def exFT : Fscm.Model :=
  { order := [0, 1]
    noise := [[1/3, 2/3], [1/2, 1/2]]
    pa := fun v => if v = 1 then [0] else []
    lat := fun v => if v = 0 then [0] else if v = 1 then [1] else []
    f := fun v pa lat => if v = 0 then lat.sum % 2 else if v = 1 then (pa.sum % 2 + lat.sum) % 2 else 0 }

def exFS : Fscm.Model :=
  { order := [200, 0, 1]
    noise := [[1/3, 2/3], [1/2, 1/2]]
    pa := fun v => if v = 1 then [0] else []
    lat := fun v => if v = 0 then [0] else if v = 1 then [1] else []
    f := fun v pa lat => if v = 0 then (lat.sum + 1) % 2 else if v = 1 then (pa.sum % 2 + lat.sum) % 2 else 0 }

def exFCard : Name → Nat := fun v => if v = 200 then 1 else 2

theorem exFT_kern0 (σ : Val) (h : σ 0 < 2) :
    exFT.kernOf exFCard 500 0 σ = if σ 0 = 0 then 1/3 else 2/3 := by
  unfold Model.kernOf
  have hp : exFT.privOf 500 0 = [500] := by decide
  have hc : exFT.cardS exFCard 500 500 = 2 := by decide
  rw [if_pos (by simpa [exFCard] using h), hp]
  simp only [sumVars, sumVar, sumRange, hc]
  have hr : List.range 2 = [0, 1] := by decide
  simp only [hr, List.map_cons, List.map_nil, List.sum_cons, List.sum_nil, List.prod_cons, List.prod_nil,
    Model.priorS, Model.eqn, Val.set]
  have h0 : σ 0 = 0 ∨ σ 0 = 1 := by omega
  rcases h0 with h0 | h0 <;> simp [exFT, h0]

theorem exFT_kern1 (σ : Val) (h : σ 1 < 2) : exFT.kernOf exFCard 500 1 σ = 1/2 := by
  unfold Model.kernOf
  have hp : exFT.privOf 500 1 = [501] := by decide
  have hc : exFT.cardS exFCard 500 501 = 2 := by decide
  rw [if_pos (by simpa [exFCard] using h), hp]
  simp only [sumVars, sumVar, sumRange, hc]
  have hr : List.range 2 = [0, 1] := by decide
  simp only [hr, List.map_cons, List.map_nil, List.sum_cons, List.sum_nil, List.prod_cons, List.prod_nil,
    Model.priorS, Model.eqn, Val.set]
  have h1 : σ 1 = 0 ∨ σ 1 = 1 := by omega
  rcases Nat.mod_two_eq_zero_or_one (σ 0) with h0 | h0 <;> rcases h1 with h1 | h1 <;> simp [exFT, h0, h1] <;> omega

theorem exFS_kern0 (σ : Val) (h : σ 0 < 2) :
    exFS.kernOf exFCard 500 0 σ = if σ 0 = 0 then 2/3 else 1/3 := by
  unfold Model.kernOf
  have hp : exFS.privOf 500 0 = [500] := by decide
  have hc : exFS.cardS exFCard 500 500 = 2 := by decide
  rw [if_pos (by simpa [exFCard] using h), hp]
  simp only [sumVars, sumVar, sumRange, hc]
  have hr : List.range 2 = [0, 1] := by decide
  simp only [hr, List.map_cons, List.map_nil, List.sum_cons, List.sum_nil, List.prod_cons, List.prod_nil,
    Model.priorS, Model.eqn, Val.set]
  have h0 : σ 0 = 0 ∨ σ 0 = 1 := by omega
  rcases h0 with h0 | h0 <;> simp [exFS, h0]

theorem exFS_kern1 (σ : Val) (h : σ 1 < 2) : exFS.kernOf exFCard 500 1 σ = 1/2 := by
  unfold Model.kernOf
  have hp : exFS.privOf 500 1 = [501] := by decide
  have hc : exFS.cardS exFCard 500 501 = 2 := by decide
  rw [if_pos (by simpa [exFCard] using h), hp]
  simp only [sumVars, sumVar, sumRange, hc]
  have hr : List.range 2 = [0, 1] := by decide
  simp only [hr, List.map_cons, List.map_nil, List.sum_cons, List.sum_nil, List.prod_cons, List.prod_nil,
    Model.priorS, Model.eqn, Val.set]
  have h1 : σ 1 = 0 ∨ σ 1 = 1 := by omega
  rcases Nat.mod_two_eq_zero_or_one (σ 0) with h0 | h0 <;> rcases h1 with h1 | h1 <;> simp [exFS, h0, h1] <;> omega

theorem exFS_kern200 (σ : Val) (h : σ 200 < 1) : exFS.kernOf exFCard 500 200 σ = 1 := by
  unfold Model.kernOf
  have hp : exFS.privOf 500 200 = [] := by decide
  rw [if_pos (by simpa [exFCard] using h), hp]
  have h0 : σ 200 = 0 := by omega
  simp [sumVars, Model.eqn, exFS, h0]

theorem exFCard_pos (x : Name) : 0 < exFCard x := by unfold exFCard; split <;> omega

theorem exF_noise_mem {pmf : List Rat} (h : pmf ∈ [[(1:Rat)/3, 2/3], [1/2, 1/2]]) :
    (∀ p ∈ pmf, 0 < p) ∧ pmf.sum = 1 := by
  simp only [List.mem_cons, List.not_mem_nil, or_false] at h
  rcases h with rfl | rfl
  · refine ⟨?_, by norm_num⟩
    intro p hp
    simp only [List.mem_cons, List.not_mem_nil, or_false] at hp
    rcases hp with rfl | rfl <;> norm_num
  · refine ⟨?_, by norm_num⟩
    intro p hp
    simp only [List.mem_cons, List.not_mem_nil, or_false] at hp
    rcases hp with rfl | rfl <;> norm_num

theorem exFT_wf : WellFormed exFT exFCard where
  card_pos := exFCard_pos
  f_range := by
    intro v a b
    by_cases h0 : v = 0
    · subst h0; simp only [exFT, exFCard]; simp; omega
    · by_cases h1 : v = 1
      · subst h1; simp only [exFT, exFCard]; simp; omega
      · simp only [exFT, h0, h1, if_false]; exact exFCard_pos v
  noise_nonneg := fun pmf h p hp => le_of_lt ((exF_noise_mem h).1 p hp)
  noise_sum := fun pmf h => (exF_noise_mem h).2

theorem exFS_wf : WellFormed exFS exFCard where
  card_pos := exFCard_pos
  f_range := by
    intro v a b
    by_cases h0 : v = 0
    · subst h0; simp only [exFS, exFCard]; simp; omega
    · by_cases h1 : v = 1
      · subst h1; simp only [exFS, exFCard]; simp; omega
      · simp only [exFS, h0, h1, if_false]; exact exFCard_pos v
  noise_nonneg := fun pmf h p hp => le_of_lt ((exF_noise_mem h).1 p hp)
  noise_sum := fun pmf h => (exF_noise_mem h).2

/-- the only mechanism with an observed argument is that of `1`, which reads `0` -/
theorem exF_pa_mem {v p : Name} (h : p ∈ (if v = 1 then [0] else [] : List Name)) : v = 1 ∧ p = 0 := by
  split at h
  · rename_i hv; exact ⟨hv, by simpa using h⟩
  · cases h

theorem exF_lat_mem {v : Name} {j : Nat} (h : j ∈ (if v = 0 then [0] else if v = 1 then [1] else [] : List Nat)) :
    j = v ∧ j < 2 := by
  split at h
  · rename_i hv; subst hv; simp at h; omega
  · split at h
    · rename_i hv; subst hv; simp at h; omega
    · cases h

theorem exF_lat_nodup (v : Name) : (if v = 0 then [0] else if v = 1 then [1] else [] : List Nat).Nodup := by
  split
  · decide
  · split <;> decide

theorem exFT_compatible : Fscm.Compatible exFT exFG where
  perm := by
    have : exFG.nodes = [0, 1] := by decide
    rw [this]; exact List.Perm.refl _
  nodup := by decide
  pa_sub := by
    intro v p hp
    obtain ⟨rfl, rfl⟩ := exF_pa_mem hp
    decide
  topo := by
    intro l₁ v l₂ h p hp
    obtain ⟨rfl, rfl⟩ := exF_pa_mem hp
    simp only [exFT] at h
    match l₁, h with
    | [], h => simp at h
    | a :: rest, h =>
      simp only [List.cons_append, List.cons.injEq] at h
      rw [← h.1]; exact List.mem_cons_self
  lat_bi := by
    intro v w hvw h
    obtain ⟨j, h1, h2⟩ := h
    exact absurd ((exF_lat_mem h1).1.symm.trans (exF_lat_mem h2).1) hvw

theorem exFS_compatible : Fscm.Compatible exFS exFDomG where
  perm := by
    have : exFDomG.nodes = [0, 1, 200] := by decide
    rw [this]; decide
  nodup := by decide
  pa_sub := by
    intro v p hp
    obtain ⟨rfl, rfl⟩ := exF_pa_mem hp
    decide
  topo := by
    intro l₁ v l₂ h p hp
    obtain ⟨rfl, rfl⟩ := exF_pa_mem hp
    simp only [exFS] at h
    match l₁, h with
    | [], h => simp at h
    | [a], h => simp at h
    | a :: b :: rest, h =>
      simp only [List.cons_append, List.cons.injEq] at h
      rw [← h.2.1]; simp
  lat_bi := by
    intro v w hvw h
    obtain ⟨j, h1, h2⟩ := h
    exact absurd ((exF_lat_mem h1).1.symm.trans (exF_lat_mem h2).1) hvw

theorem exFT_proper : Fscm.Proper exFT exFCard 500 exFG where
  wf := exFT_wf
  compat := exFT_compatible
  base_gt := by decide
  lat_lt := fun v j hj => (exF_lat_mem hj).2
  lat_nodup := exF_lat_nodup
  normalised := fun pmf h => exF_noise_mem h
  kern_pos := by
    intro v hv σ
    by_cases hlt : σ v < exFCard v
    · simp only [exFT, List.mem_cons, List.not_mem_nil, or_false] at hv
      rcases hv with rfl | rfl
      · rw [exFT_kern0 σ (by simpa [exFCard] using hlt)]; split <;> norm_num
      · rw [exFT_kern1 σ (by simpa [exFCard] using hlt)]; norm_num
    · unfold Model.kernOf; rw [if_neg hlt]; exact zero_lt_one

theorem exFS_proper : Fscm.Proper exFS exFCard 500 exFDom.graph where
  wf := exFS_wf
  compat := exFS_compatible
  base_gt := by decide
  lat_lt := fun v j hj => (exF_lat_mem hj).2
  lat_nodup := exF_lat_nodup
  normalised := fun pmf h => exF_noise_mem h
  kern_pos := by
    intro v hv σ
    by_cases hlt : σ v < exFCard v
    · simp only [exFS, List.mem_cons, List.not_mem_nil, or_false] at hv
      rcases hv with rfl | rfl | rfl
      · rw [exFS_kern200 σ (by simpa [exFCard] using hlt)]; exact zero_lt_one
      · rw [exFS_kern0 σ (by simpa [exFCard] using hlt)]; split <;> norm_num
      · rw [exFS_kern1 σ (by simpa [exFCard] using hlt)]; norm_num
    · unfold Model.kernOf; rw [if_neg hlt]; exact zero_lt_one

def exFam : Fscm.FscmFamily :=
  { target := exFT, source := fun _ => exFS, card := exFCard, base := 500, targetTag := 1000 }

def exFGraphs : Option Name → MG Name
  | none => exFG
  | some _ => exFDom.graph

theorem exFDecls : declsOf [exFDom] = [{ tag := 1001, graph := exFDomG, differs := [0], sel := [200] }] := by
  have h1 : tagOf exFDom = 1001 := by decide
  have h2 : differsOf exFDom = [0] := by decide
  have h3 : exFDom.graph.nodes.filter isTnode = [200] := by decide
  show [declOf exFDom (tagOf exFDom)] = _
  unfold declOf
  rw [h1, h2, h3]
  rfl

theorem exF_agreesOutside : AgreesOutside exFT exFS [0] where
  noise := rfl
  pa := fun _ _ _ => rfl
  lat := fun _ _ _ => rfl
  f := by
    intro v hv hne
    simp only [exFT, List.mem_cons, List.not_mem_nil, or_false] at hv
    rcases hv with rfl | rfl
    · exact absurd List.mem_cons_self hne
    · rfl

theorem exF_selectionInert : SelectionInert exFS exFCard [200] where
  card_one := by intro t ht; rw [List.mem_singleton] at ht; subst ht; rfl
  no_pa := by intro t ht; rw [List.mem_singleton] at ht; subst ht; rfl
  no_lat := by intro t ht; rw [List.mem_singleton] at ht; subst ht; rfl
  unread := by
    intro v t ht h
    rw [List.mem_singleton] at ht; subst ht
    exact absurd (exF_pa_mem h).2 (by decide)

theorem exFam_compatible : exFam.CompatibleWith exFG exFGraphs (declsOf [exFDom]) where
  target := exFT_proper
  target_graph := rfl
  source := by
    intro d hd
    rw [exFDecls, List.mem_singleton] at hd
    subst hd
    exact ⟨exFS_proper, rfl, exF_agreesOutside, exF_selectionInert⟩

theorem exFDom_declared : DomainsDeclared [exFDom] where
  wf := by intro d hd; rw [List.mem_singleton] at hd; subst hd; exact MG.wf_fromEdges _ _ _
  topo_nodup := by intro d hd; rw [List.mem_singleton] at hd; subst hd; decide
  biT := by
    intro d hd a b hab
    rw [List.mem_singleton] at hd; subst hd
    have hab' : exFDomG.BiEdge a b := hab
    rw [exFDomG, MG.biEdge_fromEdges] at hab'
    simp at hab'
  pop := by intro d hd; rw [List.mem_singleton] at hd; subst hd; exact ⟨1001, rfl⟩

theorem exFDom_validated : ∀ d ∈ [exFDom], validateDomain exFG d = .ok () := by
  intro d hd; rw [List.mem_singleton] at hd; subst hd; decide +kernel

/-- the syntactic facts about the domain used by the soundness proof of Algorithm 4 -/
theorem exFDom_specOK : DomainsSpecOK [exFDom] :=
  domainsSpecOK_of_validated exFG [exFDom] exFDom_validated exFDom_declared

/-- `Y_x = y` -/
def exFEvent : Ctf.Event := [({ name := 1, ivs := [⟨0, false⟩] }, some ⟨1, false⟩)]

/-- `P^{1001}(Y | X)` -/
def exFExpr : Expr := .prob (some (Var.plain 1001)) [Var.plain 1] [Var.plain 0]

/-- the simplified event returned with the answer (the query itself) -/
def exFEv : Ctf.Event := [({ name := 1, ivs := [⟨0, false⟩] }, some ⟨1, false⟩)]

theorem exF_validated : validateU exFG [exFDom] exFEvent = .ok () := by decide +kernel

/-- the result is an answer `(expression, simplified event)` -/
def exFIsAnswer : Except Err (Option Answer) → Bool
  | .ok (some (_, some _)) => true
  | _ => false

/-- the result is `P^{p}(c | q)` with the event `ev` -/
def exFIsProb (p c q : Var) (ev : Ctf.Event) : Except Err (Option Answer) → Bool
  | .ok (some (.prob (some p') [c'] [q'], some ev')) => decide (p' = p) && decide (c' = c) && decide (q' = q) && decide (ev' = ev)
  | _ => false

theorem exFIsAnswer_iff (r : Except Err (Option Answer)) (h : exFIsAnswer r = true) :
    ∃ x ev, r = .ok (some (x, some ev)) := by
  unfold exFIsAnswer at h
  split at h
  · exact ⟨_, _, rfl⟩
  · cases h

theorem exFIsProb_eq (p c q : Var) (ev : Ctf.Event) (r : Except Err (Option Answer)) (h : exFIsProb p c q ev r = true) :
    r = .ok (some (.prob (some p) [c] [q], some ev)) := by
  unfold exFIsProb at h
  split at h
  · simp only [Bool.and_eq_true, decide_eq_true_eq] at h
    obtain ⟨⟨⟨rfl, rfl⟩, rfl⟩, rfl⟩ := h
    rfl
  · cases h

theorem exF_answered : ∃ x ev, ctfTRu exFG [exFDom] exFEvent = .ok (some (x, some ev)) :=
  exFIsAnswer_iff _ (by decide +kernel)

/-- **Algorithm 2 answers `P(Y_x = y) = P^{1001}(Y | X)`** -/
theorem exF_answer : ctfTRu exFG [exFDom] exFEvent = .ok (some (exFExpr, some exFEv)) :=
  exFIsProb_eq _ _ _ _ _ (by decide +kernel)

theorem exFEv_readable : Ctf.readableQuery exFEv = true := by decide
theorem exFEv_classes : Ctf.factorizeClasses exFG exFEv = .ok (false, false, false) := by decide
theorem exFEv_valued : ∀ p ∈ exFEv, p.2 ≠ none := by decide
theorem exFEvent_notSelf : ∀ p ∈ exFEvent, Ctf.selfIntervened p.1 = false := by decide
theorem exFEvent_plain : EventVarsPlain exFEvent := by unfold EventVarsPlain; decide

end Y0.CtfTr
