/-
  Y0.Lemmas.TrsoInit — the query built by `identify_target_outcomes` (`Y0.Model.Trso.initialQuery` over the diagrams of
  `surrogate_to_transport`) satisfies the target-phase invariant `TInv` of Y0.Lemmas.TrsoGraphInv, its carried expression
  is `Clean`, and the recursion budget `Query.fuel` exceeds the termination measure `mu`.

  Selection diagrams: `createTransportDiagram G ns` is well formed (`ctd_wf`) and, when the selection nodes `tnode s`
  are fresh (`ctd_ranked_of_fresh`; in particular when every user variable is a name below 200, `ctd_ranked`), ranked.

  The freshness hypothesis is necessary: for `G = 300 → 500` (no node is a selection node) the diagram that marks `300`
  gets the edge `tnode 300 = 500 → 300`, a cycle.  The model's convention (Y0.Model.Trso header) is that a user variable
  is a name `< 200`; that is the hypothesis `hsmall` below (it implies `hT`).
-/
import Y0.Lemmas.TrsoGraphInv
import Y0.Lemmas.TrsoClean
import Y0.Lemmas.IdRank

namespace Y0
namespace Trso
open TrDsl MG

/-! ### selection diagrams -/

theorem ctd_eq (G : MG Name) (ns : List Name) :
    createTransportDiagram G ns = ((nsort ns).map fun v => (tnode v, v)).foldl MG.addDi G := by
  unfold createTransportDiagram; rw [List.foldl_map]

/-- the diagram has the nodes of the graph, the marked variables and one selection node per marked variable -/
theorem ctd_mem_nodes (G : MG Name) (ns : List Name) (v : Name) :
    v ∈ (createTransportDiagram G ns).nodes ↔ v ∈ G.nodes ∨ ∃ s ∈ ns, v = tnode s ∨ v = s := by
  rw [ctd_eq, MG.mem_nodes_foldl_addDi]
  constructor
  · rintro (h | ⟨e, he, h⟩)
    · exact Or.inl h
    · rcases List.mem_map.1 he with ⟨s, hs, rfl⟩
      exact Or.inr ⟨s, (mem_nsort s ns).1 hs, h⟩
  · rintro (h | ⟨s, hs, h⟩)
    · exact Or.inl h
    · exact Or.inr ⟨(tnode s, s), List.mem_map.2 ⟨s, (mem_nsort s ns).2 hs, rfl⟩, h⟩

/-- its directed edges are those of the graph plus `T_s → s` for every marked `s` -/
theorem ctd_mem_di (G : MG Name) (ns : List Name) (x : Name × Name) :
    x ∈ (createTransportDiagram G ns).di ↔ x ∈ G.di ∨ ∃ s ∈ ns, x = (tnode s, s) := by
  rw [ctd_eq, MG.mem_di_foldl_addDi]
  constructor
  · rintro (h | h)
    · exact Or.inl h
    · rcases List.mem_map.1 h with ⟨s, hs, rfl⟩; exact Or.inr ⟨s, (mem_nsort s ns).1 hs, rfl⟩
  · rintro (h | ⟨s, hs, rfl⟩)
    · exact Or.inl h
    · exact Or.inr (List.mem_map.2 ⟨s, (mem_nsort s ns).2 hs, rfl⟩)

/-- its bidirected edges are exactly those of the graph -/
theorem ctd_bi (G : MG Name) (ns : List Name) : (createTransportDiagram G ns).bi = G.bi := by
  rw [ctd_eq, MG.bi_foldl_addDi]

/-- a selection diagram of a well-formed graph is well-formed -/
theorem ctd_wf {G : MG Name} (hG : G.WF) (ns : List Name) : (createTransportDiagram G ns).WF := by
  refine ⟨?_, ?_, ?_, ?_⟩
  · rw [ctd_eq]; exact nodup_foldl_addDi _ _ hG.nodup
  · rw [ctd_eq]; exact nodup_di_foldl_addDi _ _ hG.di_nodup
  · intro e he
    rcases (ctd_mem_di G ns e).1 he with h | ⟨s, hs, rfl⟩
    · exact ⟨(ctd_mem_nodes G ns _).2 (Or.inl (hG.di_mem e h).1), (ctd_mem_nodes G ns _).2 (Or.inl (hG.di_mem e h).2)⟩
    · exact ⟨(ctd_mem_nodes G ns _).2 (Or.inr ⟨s, hs, Or.inl rfl⟩), (ctd_mem_nodes G ns _).2 (Or.inr ⟨s, hs, Or.inr rfl⟩)⟩
  · intro e he
    rw [ctd_bi] at he
    exact ⟨(ctd_mem_nodes G ns _).2 (Or.inl (hG.bi_mem e he).1), (ctd_mem_nodes G ns _).2 (Or.inl (hG.bi_mem e he).2)⟩

/-- the diagram contains the graph -/
theorem ctd_sub (G : MG Name) (ns : List Name) :
    (∀ v ∈ G.nodes, v ∈ (createTransportDiagram G ns).nodes) ∧ (∀ e ∈ G.di, e ∈ (createTransportDiagram G ns).di) :=
  ⟨fun v hv => (ctd_mem_nodes G ns v).2 (Or.inl hv), fun e he => (ctd_mem_di G ns e).2 (Or.inl he)⟩

/-- a selection diagram whose marked variables are nodes and whose selection nodes are fresh is ranked (acyclic) -/
theorem ctd_ranked_of_fresh {G : MG Name} (hG : G.Ranked) (hWF : G.WF) (ns : List Name)
    (hns : ∀ s ∈ ns, s ∈ G.nodes) (hfresh : ∀ s ∈ ns, tnode s ∉ G.nodes) : (createTransportDiagram G ns).Ranked := by
  obtain ⟨r, hr⟩ := hG
  refine ⟨fun v => if v ∈ G.nodes then r v + 1 else 0, ?_⟩
  intro e he
  rcases (ctd_mem_di G ns e).1 he with h | ⟨s, hs, rfl⟩
  · have := hr e h
    simp only [(hWF.di_mem e h).1, (hWF.di_mem e h).2, ↓reduceIte]
    omega
  · simp only [hns s hs, hfresh s hs, ↓reduceIte]
    omega

/-- user variables below 200: the selection nodes are fresh -/
theorem tnode_fresh {G : MG Name} (hsmall : ∀ v ∈ G.nodes, v < 200) (s : Name) : tnode s ∉ G.nodes := by
  intro h
  have h2 : (200 + s : Nat) < 200 := hsmall _ h
  omega

/-- a selection diagram of a ranked (acyclic) well-formed graph over user variables (names below 200) is ranked -/
theorem ctd_ranked {G : MG Name} (hG : G.Ranked) (hT : ∀ v ∈ G.nodes, isTnode v = false) (hWF : G.WF)
    (ns : List Name) (hns : ∀ s ∈ ns, s ∈ G.nodes) (hsmall : ∀ v ∈ G.nodes, v < 200) :
    (createTransportDiagram G ns).Ranked :=
  let _ := hT
  ctd_ranked_of_fresh hG hWF ns hns (fun s _ => tnode_fresh hsmall s)

/-- user variables below 200 are not selection nodes -/
theorem noT_of_small {G : MG Name} (hsmall : ∀ v ∈ G.nodes, v < 200) : ∀ v ∈ G.nodes, isTnode v = false := by
  intro v hv
  have h3 : ¬ (200 : Nat) ≤ v := Nat.not_le.2 (hsmall v hv)
  simp [isTnode, h3]

/-- at most `2 * |V|` nodes -/
theorem ctd_length_le {G : MG Name} (ns : List Name) (hns : ∀ s ∈ ns, s ∈ G.nodes) :
    (createTransportDiagram G ns).nodes.length ≤ G.nodes.length + (nsort ns).length := by
  unfold createTransportDiagram
  have key : ∀ (l : List Name) (H : MG Name), (∀ s ∈ l, s ∈ H.nodes) →
      (l.foldl (fun g v => g.addDi (tnode v, v)) H).nodes.length ≤ H.nodes.length + l.length := by
    intro l
    induction l with
    | nil => intro H _; simp
    | cons a as ih =>
      intro H hl
      simp only [List.foldl_cons, List.length_cons]
      have h1 : (H.addDi (tnode a, a)).nodes.length ≤ H.nodes.length + 1 := by
        have ha : a ∈ H.nodes := hl a (by simp)
        unfold addDi addNode
        simp only
        split <;> split <;> (try split) <;> simp_all
      have h2 := ih (H.addDi (tnode a, a)) (fun s hs => by
        rw [mem_nodes_addDi]; exact Or.inl (hl s (List.mem_cons_of_mem _ hs)))
      omega
  exact key _ _ (fun s hs => hns s ((mem_nsort s ns).1 hs))

/-! ### `get_nodes_to_transport` -/

theorem desc_mem_nodes {G : MG Name} (hG : G.WF) {S : List Name} (hS : ∀ s ∈ S, s ∈ G.nodes) {v : Name}
    (h : G.Desc S v) : v ∈ G.nodes := by
  obtain ⟨s, hs, hp⟩ := h
  induction hp with
  | refl => exact hS s hs
  | tail _ hbc _ => exact (hG.di_mem _ hbc).2

/-- total on subsets of the nodes, and every marked variable is a node -/
theorem getNodesToTransport_ok {G : MG Name} (hG : G.WF) {Z W : List Name} (hZ : ∀ z ∈ Z, z ∈ G.nodes)
    (hW : ∀ w ∈ W, w ∈ G.nodes) : ∃ ns, getNodesToTransport G Z W = .ok ns ∧ ∀ s ∈ ns, s ∈ G.nodes := by
  unfold getNodesToTransport
  obtain ⟨a, ha⟩ := MG.ancestorsInclusive_total (G.removeInEdges Z) W
    (fun w hw => (MG.mem_nodes_removeInEdges G hG Z w).2 (hW w hw))
  obtain ⟨d, hd⟩ := MG.descendantsInclusive_total G Z hZ
  simp only [ha, hd, bind, Except.bind, pure, Except.pure]
  refine ⟨_, rfl, ?_⟩
  intro s hs
  rw [mem_nsort] at hs
  rcases List.mem_append.1 hs with h | h
  · exact desc_mem_nodes hG hZ ((MG.descendantsInclusive_spec G hG Z d hd s).1 (mem_diff'.1 h).1)
  · have h1 := (mem_diff'.1 h).1
    obtain ⟨c, hc, hsc⟩ := List.mem_flatten.1 h1
    exact (MG.districts_cover G hG s).2 ⟨c, (List.mem_filter.1 hc).1, hsc⟩

/-! ### validated input -/

theorem validInput_spec {G : MG Name} {Y X : List Name} {outcomes interventions : List (Pop × List Name)}
    (hv : validInput G Y X outcomes interventions = true) :
    (∀ y ∈ Y, y ∈ G.nodes) ∧ (∀ x ∈ X, x ∈ G.nodes) ∧ (∀ p ∈ outcomes, ∀ w ∈ p.2, w ∈ G.nodes) ∧
    (∀ p ∈ interventions, ∀ z ∈ p.2, z ∈ G.nodes) ∧ (∀ y ∈ Y, y ∉ X) ∧
    seteq' (outcomes.map (·.1)) (interventions.map (·.1)) = true ∧ G.nodes ≠ [] := by
  unfold validInput at hv
  simp only [Bool.and_eq_true] at hv
  obtain ⟨⟨⟨⟨⟨⟨h1, h2⟩, h3⟩, h4⟩, h5⟩, h6⟩, h7⟩ := hv
  refine ⟨by simpa using h1, by simpa using h2, ?_, ?_, ?_, h6, by simpa using h7⟩
  · intro p hp w hw
    have := List.all_eq_true.1 h3 w (List.mem_flatMap.2 ⟨p, hp, hw⟩)
    simpa using this
  · intro p hp z hz
    have := List.all_eq_true.1 h4 z (List.mem_flatMap.2 ⟨p, hp, hz⟩)
    simpa using this
  · intro y hy hx
    have : y ∈ inter' Y X := mem_inter'.2 ⟨hy, hx⟩
    have h5' : inter' Y X = [] := by simpa using h5
    rw [h5'] at this; cases this

theorem keys_of_seteq {outcomes interventions : List (Pop × List Name)}
    (h : seteq' (outcomes.map (·.1)) (interventions.map (·.1)) = true) {d : Pop} (hd : ∃ p ∈ outcomes, p.1 = d) :
    ∃ p ∈ interventions, p.1 = d := by
  obtain ⟨p, hp, rfl⟩ := hd
  simp only [seteq', subset', Bool.and_eq_true, List.all_eq_true, decide_eq_true_eq] at h
  have := h.1 p.1 (List.mem_map.2 ⟨p, hp, rfl⟩)
  obtain ⟨p', hp', h'⟩ := List.mem_map.1 this
  exact ⟨p', hp', h'⟩

/-! ### `surrogate_to_transport` -/

/-- the diagram of one source domain -/
def sttStep (G : MG Name) (interventions : List (Pop × List Name)) : Pop × List Name → Except Err (Pop × MG Name) :=
  fun (d, W) =>
    match interventions.find? (fun p => p.1 = d) with
    | none => Except.error (Err.internal "KeyError")
    | some (_, Z) => do
        let ns ← getNodesToTransport G Z W
        pure (d, createTransportDiagram G ns)

theorem surrogateToTransport_eq (G : MG Name) (outcomes interventions : List (Pop × List Name)) :
    surrogateToTransport G outcomes interventions =
      (if !seteq' (outcomes.map (·.1)) (interventions.map (·.1)) then .error (.invalidInput "ValueError")
      else do
        let gs ← outcomes.mapM (sttStep G interventions)
        pure (assign gs targetPop G)) := rfl

/-- one step succeeds on a declared domain, keeps the key and yields a diagram over nodes of the graph -/
theorem sttStep_ok {G : MG Name} (hG : G.WF) {interventions : List (Pop × List Name)}
    (hZ : ∀ p ∈ interventions, ∀ z ∈ p.2, z ∈ G.nodes) {p : Pop × List Name} (hW : ∀ w ∈ p.2, w ∈ G.nodes)
    (hk : ∃ p' ∈ interventions, p'.1 = p.1) :
    ∃ b, sttStep G interventions p = .ok b ∧ b.1 = p.1 ∧
      ∃ ns, (∀ s ∈ ns, s ∈ G.nodes) ∧ b.2 = createTransportDiagram G ns := by
  obtain ⟨d, W⟩ := p
  unfold sttStep
  simp only
  cases hf : interventions.find? (fun p => decide (p.1 = d)) with
  | none =>
    obtain ⟨p', hp', hd⟩ := hk
    have := List.find?_eq_none.1 hf p' hp'
    simp at hd
    simp [hd] at this
  | some pz =>
    obtain ⟨d', Z⟩ := pz
    have hmem : (d', Z) ∈ interventions := List.mem_of_find?_eq_some hf
    obtain ⟨ns, hns, hsub⟩ := getNodesToTransport_ok hG (hZ _ hmem) hW
    simp only [hns, bind, Except.bind, pure, Except.pure]
    exact ⟨_, rfl, rfl, ns, hsub, rfl⟩

theorem sttStep_spec {G : MG Name} (hG : G.WF) {interventions : List (Pop × List Name)}
    (hZ : ∀ p ∈ interventions, ∀ z ∈ p.2, z ∈ G.nodes) {p : Pop × List Name} (hW : ∀ w ∈ p.2, w ∈ G.nodes)
    (hk : ∃ p' ∈ interventions, p'.1 = p.1) {b : Pop × MG Name} (h : sttStep G interventions p = .ok b) :
    b.1 = p.1 ∧ ∃ ns, (∀ s ∈ ns, s ∈ G.nodes) ∧ b.2 = createTransportDiagram G ns := by
  obtain ⟨b', hb', h'⟩ := sttStep_ok hG hZ hW hk
  rw [h] at hb'; cases hb'; exact h'

/-- `surrogate_to_transport` succeeds on validated input -/
theorem surrogateToTransport_ok {G : MG Name} (hG : G.WF) {Y X : List Name} {outcomes interventions : List (Pop × List Name)}
    (hv : validInput G Y X outcomes interventions = true) :
    ∃ graphs, surrogateToTransport G outcomes interventions = .ok graphs := by
  obtain ⟨_, _, hW, hZ, _, hk, _⟩ := validInput_spec hv
  rw [surrogateToTransport_eq]
  simp only [hk, Bool.not_true, Bool.false_eq_true, ↓reduceIte]
  obtain ⟨gs, hgs⟩ := mapM_mem (f := sttStep G interventions) (l := outcomes) (fun p hp => by
    obtain ⟨b, hb, _⟩ := sttStep_ok hG hZ (hW p hp) (keys_of_seteq hk ⟨p, hp, rfl⟩)
    exact ⟨b, hb⟩)
  simp only [hgs, bind, Except.bind, pure, Except.pure]
  exact ⟨_, rfl⟩

/-- the shape of the result: the target's graph under `targetPop`, a selection diagram over nodes of the graph under
every other key, which is a key of `outcomes` -/
theorem surrogateToTransport_spec {G : MG Name} (hG : G.WF) {Y X : List Name} {outcomes interventions : List (Pop × List Name)}
    (hv : validInput G Y X outcomes interventions = true)
    {graphs : List (Pop × MG Name)} (hg : surrogateToTransport G outcomes interventions = .ok graphs) :
    lookup graphs targetPop = .ok G ∧
    ∀ p ∈ graphs, p = (targetPop, G) ∨
      ((∃ o ∈ outcomes, o.1 = p.1) ∧ ∃ ns, (∀ s ∈ ns, s ∈ G.nodes) ∧ p.2 = createTransportDiagram G ns) := by
  obtain ⟨_, _, hW, hZ, _, hk, _⟩ := validInput_spec hv
  rw [surrogateToTransport_eq] at hg
  simp only [hk, Bool.not_true, Bool.false_eq_true, ↓reduceIte] at hg
  obtain ⟨gs, hgs, hg⟩ := bind_ok hg
  simp only [pure, Except.pure, Except.ok.injEq] at hg
  subst hg
  refine ⟨lookup_assign_self, ?_⟩
  intro p hp
  rcases mem_assign hp with h | h
  · exact Or.inl h
  · obtain ⟨o, ho, hstep⟩ := mapM_ok hgs p h
    obtain ⟨h1, h2⟩ := sttStep_spec hG hZ (hW o ho) (keys_of_seteq hk ⟨o, ho, rfl⟩) hstep
    exact Or.inr ⟨⟨o, ho, h1.symm⟩, h2⟩

/-! ### the initial query -/

theorem le_foldl_max {l : List Nat} {x : Nat} (h : x ∈ l) : x ≤ l.foldl max 0 := by
  have key : ∀ (l : List Nat) (a : Nat), a ≤ l.foldl max a ∧ ∀ x ∈ l, x ≤ l.foldl max a := by
    intro l
    induction l with
    | nil => intro a; simp
    | cons b bs ih =>
      intro a
      simp only [List.foldl_cons, List.mem_cons]
      obtain ⟨h1, h2⟩ := ih (max a b)
      refine ⟨le_trans (Nat.le_max_left a b) h1, ?_⟩
      rintro x (rfl | hx)
      · exact le_trans (Nat.le_max_right a x) h1
      · exact h2 x hx
  exact (key l 0).2 x h

/-- the initial query satisfies the target-phase invariant, with `M` = the largest graph; the budget exceeds the measure;
the carried expression is clean.  `hsmall`: user variables are names below 200 (the model's naming convention; it makes
the selection nodes `200 + s` fresh, without which a diagram can be cyclic). -/
theorem initial_inv {G : MG Name} (hG : G.WF) (hA : G.Acyclic) (hT : ∀ v ∈ G.nodes, isTnode v = false)
    (hsmall : ∀ v ∈ G.nodes, v < 200)
    {Y X : List Name} {outcomes interventions : List (Pop × List Name)}
    (hv : validInput G Y X outcomes interventions = true) (hY : Y ≠ [])
    {graphs : List (Pop × MG Name)} (hg : surrogateToTransport G outcomes interventions = .ok graphs) :
    let q := initialQuery G Y X graphs interventions
    let M := (graphs.map (fun p => p.2.nodes.length)).foldl max 0
    TInv M q G ∧ mu M q G < q.fuel ∧ Clean q.expr := by
  intro q M
  obtain ⟨hYin, hXin, _, _, hXY, hk, _⟩ := validInput_spec hv
  obtain ⟨hlook, hshape⟩ := surrogateToTransport_spec hG hv hg
  have hR : G.Ranked := ranked_of_acyclic hG hA
  have hsub : ∀ p ∈ graphs, (∀ v ∈ G.nodes, v ∈ p.2.nodes) ∧ (∀ e ∈ G.di, e ∈ p.2.di) := by
    intro p hp
    rcases hshape p hp with rfl | ⟨_, ns, _, h⟩
    · exact ⟨fun _ h => h, fun _ h => h⟩
    · rw [h]; exact ctd_sub G ns
  have hsize : ∀ p ∈ graphs, p.2.nodes.length ≤ M := fun p hp =>
    le_foldl_max (List.mem_map.2 ⟨p, hp, rfl⟩)
  have hinv : TInv M q G := by
    refine ⟨hlook, rfl, rfl, ?_, ?_, hT, ?_, ?_, ?_, ?_, hsub, hsize, Or.inr ?_⟩
    · intro p hp
      rcases hshape p hp with rfl | ⟨_, ns, _, h⟩
      · exact hG
      · rw [h]; exact ctd_wf hG ns
    · intro p hp
      rcases hshape p hp with rfl | ⟨_, ns, hns, h⟩
      · exact hR
      · rw [h]; exact ctd_ranked hR hT hG ns hns hsmall
    · intro p hp y hy
      exact (hsub p hp).1 y (hYin y ((mem_nsort y Y).1 hy))
    · intro h
      cases Y with
      | nil => exact hY rfl
      | cons y ys =>
        have : y ∈ nsort (y :: ys) := (mem_nsort _ _).2 (by simp)
        rw [show q.Y = nsort (y :: ys) from rfl] at h
        rw [h] at this; cases this
    · intro x hx
      exact hXin x ((mem_nsort x X).1 hx)
    · intro y hy hx
      exact hXY y ((mem_nsort y Y).1 hy) ((mem_nsort y X).1 hx)
    · intro p hp hne
      rcases hshape p hp with rfl | ⟨ho, _⟩
      · exact absurd rfl hne
      · exact lookup_of_key (keys_of_seteq hk ho)
  refine ⟨hinv, ?_, clean_prob _ _ _⟩
  have hn : G.nodes.length ≤ M := hinv.sizeG
  have hd : (diff' G.nodes q.X).length ≤ G.nodes.length := diff_length_le _ _
  have hfuel : q.fuel = 4 * (M + 2) * (M + 2) := rfl
  rw [hfuel]
  unfold mu
  have h1 : G.nodes.length * (M + 2) ≤ M * (M + 2) := Nat.mul_le_mul_right _ hn
  have h2 : 4 * (M + 2) * (M + 2) = 4 * (M * (M + 2)) + 8 * M + 16 := by ring
  rw [h2]
  omega

theorem initial_noSurr {G : MG Name} {Y X : List Name} {graphs : List (Pop × MG Name)}
    {interventions : List (Pop × List Name)} (h : ∀ p ∈ interventions, p.2 = []) :
    NoSurr (initialQuery G Y X graphs interventions) := h

/-- on validated input `identify_target_outcomes` is `trso` on the initial query -/
theorem identify_eq_trso {sep : SepTest} {G : MG Name} {Y X : List Name} {outcomes interventions : List (Pop × List Name)}
    (hv : validInput G Y X outcomes interventions = true)
    {graphs : List (Pop × MG Name)} (hg : surrogateToTransport G outcomes interventions = .ok graphs) :
    identifyTargetOutcomes sep G Y X outcomes interventions = trso sep (initialQuery G Y X graphs interventions) := by
  unfold identifyTargetOutcomes
  simp [hv, hg]

end Trso
end Y0
