/-
  Y0.Lemmas.IdTotal — one pass through `identify` on a valid input: it does not fail internally, every
  recursive call it makes is again on a valid input and has a strictly smaller measure `(|V|, |V ∖ X|)`.
  These are the ingredients of `id_total` / `idAlg_measure_ok` (Props/C02).
-/
import Y0.Lemmas.IdVocab
import Y0.Lemmas.IdGraph

namespace Y0
open IdDsl IdAux MG

/-- the carried estimand is a probability term, a sum or a product (never a fraction or a constant) -/
def EstPlain : Expr → Prop
  | .prob _ _ _ => True
  | .sum _ _ => True
  | .prod _ => True
  | _ => False

/-- a valid input of the ID recursion: well-formed acyclic graph, non-empty outcomes inside the graph and
disjoint from the treatments -/
structure Valid (I : IdIn) : Prop where
  wf : I.G.WF
  ranked : I.G.Ranked
  ysub : ∀ y ∈ I.Y, y ∈ I.G.nodes
  yne : I.Y ≠ []
  disj : ∀ y ∈ I.Y, y ∉ I.X
  plain : EstPlain I.est

/-- a valid query of the property: well-formed acyclic graph, `Y` non-empty inside the graph, `X ∩ Y = ∅` -/
structure ValidQuery (G : MG Name) (X Y : List Name) : Prop where
  wf : G.WF
  ranked : G.Ranked
  ysub : ∀ y ∈ Y, y ∈ G.nodes
  yne : Y ≠ []
  disj : ∀ y ∈ Y, y ∉ X

/-- what the theorems assume about `graph.topological_sort()` (networkx): on a well-formed acyclic graph it
returns a list of exactly the nodes -/
structure TopoGood (topo : MG Name → Except Err (List Name)) : Prop where
  total : ∀ H : MG Name, H.WF → H.Ranked → ∃ o, topo H = .ok o
  nodes : ∀ H o, topo H = .ok o → ∀ v, v ∈ o ↔ v ∈ H.nodes

/-! ### DSL facts -/

theorem estPlain_sumSafe {e : Expr} (h : EstPlain e) (r : List Name) : EstPlain (sumSafe e r) := by
  unfold sumSafe
  split
  · exact h
  · split
    · exact h
    · trivial

theorem IdAux.sortNames_ne_nil {l : List Name} (h : l ≠ []) : sortNames l ≠ [] := by
  obtain ⟨x, hx⟩ := List.exists_mem_of_ne_nil _ h
  intro hn
  have := mem_sortNames.mpr hx
  rw [hn] at this
  cases this

theorem sumSafe_plain_eq {e : Expr} (h : EstPlain e) {r : List Name} (hr : r ≠ []) :
    ∃ rs, sumSafe e r = .sum e rs := by
  unfold sumSafe
  split
  · rename_i heq; exact absurd heq (sortNames_ne_nil hr)
  · split
    · rename_i hz
      cases e <;> simp_all [EstPlain, isZero]
    · exact ⟨_, rfl⟩

theorem IdAux.takeWhile_ne_length_lt {l : List Name} {v : Name} (hv : v ∈ l) :
    (l.takeWhile (· ≠ v)).length < l.length := by
  induction l with
  | nil => cases hv
  | cons a l ih =>
    by_cases h : a = v
    · simp [List.takeWhile, h]
    · have hv' : v ∈ l := by
        rcases List.mem_cons.mp hv with rfl | h'
        · exact absurd rfl h
        · exact h'
      have := ih hv'
      simp only [ne_eq, decide_not] at this
      simp [List.takeWhile, h]
      omega

theorem pParents_total {order : List Name} {est : Expr} {v : Name} (hv : v ∈ order) (hest : EstPlain est) :
    ∃ e, pParents order est v = .ok e ∧ isOne e = false ∧ isZero e = false := by
  unfold pParents orderIndex?
  simp only [hv, if_true, bind, Except.bind, pure, Except.pure]
  split
  · exact ⟨_, rfl, rfl, rfl⟩
  · set i := (order.takeWhile (· ≠ v)).length with hi
    have hdrop : order.drop i ≠ [] := by
      intro h
      have hlen : order.length ≤ i := List.drop_eq_nil_iff.mp h
      have := takeWhile_ne_length_lt hv
      omega
    obtain ⟨rs, hb⟩ := sumSafe_plain_eq hest hdrop
    have ha := estPlain_sumSafe hest (order.drop (i + 1))
    rw [hb]
    unfold div
    cases hA : sumSafe est (order.drop (i + 1)) with
    | prob a b c => exact ⟨_, rfl, rfl, rfl⟩
    | sum a b => exact ⟨_, rfl, rfl, rfl⟩
    | prod a => exact ⟨_, rfl, rfl, rfl⟩
    | frac a b => rw [hA] at ha; cases ha
    | one => rw [hA] at ha; cases ha
    | zero => rw [hA] at ha; cases ha
    | q a b => rw [hA] at ha; cases ha

theorem IdAux.mapM_ok_of_forall {α β ε : Type} (f : α → Except ε β) (l : List α)
    (h : ∀ a ∈ l, ∃ b, f a = .ok b) : ∃ r, l.mapM f = .ok r := by
  cases hm : l.mapM f with
  | ok r => exact ⟨r, rfl⟩
  | error e =>
    obtain ⟨a, ha, hfa⟩ := mapM_error f l e hm
    obtain ⟨b, hb⟩ := h a ha
    rw [hb] at hfa
    cases hfa

theorem IdAux.forall₂_length {α β : Type} {R : α → β → Prop} {l : List α} {r : List β} (h : List.Forall₂ R l r) :
    l.length = r.length := by
  induction h with
  | nil => rfl
  | cons _ _ ih => simp [ih]

theorem productSafe_eq_prod {fs : List Expr} (h : ∀ f ∈ fs, isOne f = false ∧ isZero f = false)
    (hlen : 2 ≤ fs.length) : ∃ l, productSafe fs = .prod l := by
  unfold productSafe
  have hfilter : fs.filter (fun e => !isOne e) = fs := by
    apply List.filter_eq_self.mpr
    intro a ha
    simp [(h a ha).1]
  simp only [hfilter]
  have hany : fs.any isZero = false := by
    apply Bool.eq_false_iff.mpr
    intro hc
    obtain ⟨a, ha, hz⟩ := List.any_eq_true.mp hc
    rw [(h a ha).2] at hz
    cases hz
  simp only [hany, Bool.false_eq_true, if_false]
  match fs, hlen with
  | a :: b :: rest, _ => exact ⟨_, rfl⟩

theorem productSafe_plain {fs : List Expr} (h : ∀ f ∈ fs, isOne f = false ∧ isZero f = false)
    (hlen : 2 ≤ fs.length) : EstPlain (productSafe fs) := by
  obtain ⟨l, hl⟩ := productSafe_eq_prod h hlen
  rw [hl]; trivial

/-! ### one pass on a valid input -/

section
variable {topo : MG Name → Except Err (List Name)} {I : IdIn}

theorem valid_gx_nodes (hv : Valid I) : ∀ y ∈ I.Y, y ∈ (I.G.removeNodes I.X).nodes := fun y hy =>
  (mem_nodes_removeNodes I.G hv.wf I.X y).mpr ⟨hv.ysub y hy, hv.disj y hy⟩

theorem valid_gx_ne (hv : Valid I) : (I.G.removeNodes I.X).nodes ≠ [] := by
  obtain ⟨y, hy⟩ := List.exists_mem_of_ne_nil _ hv.yne
  exact List.ne_nil_of_mem (valid_gx_nodes hv y hy)

theorem valid_nodes_ne (hv : Valid I) : I.G.nodes ≠ [] := by
  obtain ⟨y, hy⟩ := List.exists_mem_of_ne_nil _ hv.yne
  exact List.ne_nil_of_mem (hv.ysub y hy)

theorem IdAux.wf_removeNodes (G : MG Name) (S : List Name) : (G.removeNodes S).WF := wf_fromEdges _ _ _

/-- members of the single district of `G ∖ X` are exactly the nodes outside `X` -/
theorem single_gx (hv : Valid I) {S : List Name} (hS : (I.G.removeNodes I.X).districts = [S]) (v : Name) :
    v ∈ S ↔ v ∈ I.G.nodes ∧ v ∉ I.X := by
  rw [single_district_all (IdAux.wf_removeNodes _ _) hS v, mem_nodes_removeNodes I.G hv.wf]

/-- line 7's district: the single district `S` of `G ∖ X` lies inside one district of `G` -/
theorem exists_super_district (hv : Valid I) {S : List Name} (hS : (I.G.removeNodes I.X).districts = [S]) :
    ∃ D ∈ I.G.districts, ∀ v ∈ S, v ∈ D := by
  have hSm : S ∈ (I.G.removeNodes I.X).districts := by rw [hS]; simp
  obtain ⟨s, hs⟩ := List.exists_mem_of_ne_nil _ (districts_nonempty _ (IdAux.wf_removeNodes _ _) S hSm)
  have hsV : s ∈ I.G.nodes := ((single_gx hv hS s).mp hs).1
  obtain ⟨D, hD, hsD⟩ := (districts_cover I.G hv.wf s).mp hsV
  refine ⟨D, hD, fun v hvS => ?_⟩
  have h1 := (districts_spec _ (IdAux.wf_removeNodes _ _) S hSm s hs v).mp hvS
  have h2 : I.G.SameDistrict s v :=
    sameDistrict_mono (fun a b hab => ((biEdge_removeNodes I.G I.X a b).mp hab).1) h1
  exact (districts_spec I.G hv.wf D hD s hsD v).mpr h2

theorem line6_total (hv : Valid I) (ht : TopoGood topo) {S : List Name} (hS : ∀ v ∈ S, v ∈ I.G.nodes) :
    ∃ s, line6 topo I S = .ok s := by
  obtain ⟨order, ho⟩ := ht.total I.G hv.wf hv.ranked
  obtain ⟨fs, hfs⟩ := mapM_ok_of_forall (pParents order I.est) S (fun v hvS => by
    obtain ⟨e, he, _⟩ := pParents_total (order := order) ((ht.nodes _ _ ho v).mpr (hS v hvS)) hv.plain
    exact ⟨e, he⟩)
  refine ⟨.done (sumSafe (productSafe fs) (diff' S I.Y)), ?_⟩
  simp [line6, ho, hfs, bind, Except.bind, pure, Except.pure]

theorem line7_total (hv : Valid I) (ht : TopoGood topo) {S : List Name}
    (hS : (I.G.removeNodes I.X).districts = [S]) (hnot : ∀ D' ∈ I.G.districts, seteq' D' S = false) :
    ∃ s, line7 topo I S = .ok s := by
  obtain ⟨D, hD, hSD⟩ := exists_super_district hv hS
  have hprop : properSubset S D = true := by
    unfold properSubset
    have h1 : subset' S D = true := by
      unfold subset'; simpa using hSD
    have h2 : subset' D S = false := by
      cases h : subset' D S with
      | false => rfl
      | true =>
        have := hnot D hD
        unfold seteq' at this
        simp [h, h1] at this
    simp [h1, h2]
  unfold line7
  cases hf : I.G.districts.find? (fun D => properSubset S D) with
  | none =>
    have := List.find?_eq_none.mp hf D hD
    simp [hprop] at this
  | some D' =>
    have hD' : D' ∈ I.G.districts := List.mem_of_find?_eq_some hf
    obtain ⟨order, ho⟩ := ht.total I.G hv.wf hv.ranked
    obtain ⟨fs, hfs⟩ := mapM_ok_of_forall (pParents order I.est) D' (fun v hvD => by
      obtain ⟨e, he, _⟩ := pParents_total (order := order)
        ((ht.nodes _ _ ho v).mpr (mem_nodes_of_mem_district hv.wf hD' hvD)) hv.plain
      exact ⟨e, he⟩)
    refine ⟨.tail { G := I.G.subgraph D', X := inter' I.X D', Y := I.Y, est := productSafe fs }, ?_⟩
    simp [ho, hfs, bind, Except.bind, pure, Except.pure]

/-- on a valid input one pass either succeeds or refuses with `unidentifiable` -/
theorem step_error' (hv : Valid I) (ht : TopoGood topo) {e : Err} (h : step topo I = .error e) :
    e = .unidentifiable ∧ I.X ≠ [] ∧ I.G.districts.length = 1 ∧
      (I.G.removeNodes I.X).districts.length = 1 ∧ ∃ anc anc', Pre I anc anc' := by
  unfold step at h
  split at h
  · cases h
  · rename_i hXne
    obtain ⟨anc, hanc⟩ := ancestorsInclusive_total I.G I.Y hv.ysub
    rw [hanc] at h
    simp only at h
    split at h
    · cases h
    · rename_i hall
      obtain ⟨anc', hanc'⟩ := ancestorsInclusive_total (I.G.removeInEdges I.X) I.Y
        (fun y hy => (mem_nodes_removeInEdges I.G hv.wf I.X y).mpr (hv.ysub y hy))
      rw [hanc'] at h
      simp only at h
      split at h
      · cases h
      · rename_i hno
        unfold stepB at h
        simp only at h
        have hgx : (I.G.removeNodes I.X).isConnected = .ok ((I.G.removeNodes I.X).districts.length == 1) := by
          unfold MG.isConnected
          have := valid_gx_ne hv
          simp [this]
        have hg : I.G.isConnected = .ok (I.G.districts.length == 1) := by
          unfold MG.isConnected
          have := valid_nodes_ne hv
          simp [this]
        rw [hgx] at h
        split at h
        · rename_i hh; cases hh
        · cases h
        · rename_i hconn
          rw [hg] at h
          split at h
          · rename_i hh; cases hh
          · rename_i hconn2
            cases h
            simp only [Except.ok.injEq] at hconn hconn2
            exact ⟨rfl, by simpa using hXne, by simpa using hconn2, by simpa using hconn, anc, anc',
              ⟨by simpa using hXne, hanc, by simpa using hall, hanc', by simpa using hno⟩⟩
          · have hlen : (I.G.removeNodes I.X).districts.length = 1 := by
              simp only [Except.ok.injEq] at hconn
              simpa using hconn
            obtain ⟨S, hS⟩ : ∃ S, (I.G.removeNodes I.X).districts = [S] := by
              match hd : (I.G.removeNodes I.X).districts, hlen with
              | [S], _ => exact ⟨S, rfl⟩
            have hgs : getSingleDistrict (I.G.removeNodes I.X) = .ok S := by
              unfold getSingleDistrict; rw [hS]
            rw [hgs] at h
            simp only at h
            split at h
            · obtain ⟨s, hs⟩ := line6_total hv ht (S := S) (fun v hvS => ((single_gx hv hS v).mp hvS).1)
              rw [hs] at h; cases h
            · rename_i hany
              obtain ⟨s, hs⟩ := line7_total hv ht hS (fun D' hD' => by
                cases hq : seteq' D' S with
                | false => rfl
                | true => exact absurd (List.any_eq_true.mpr ⟨D', hD', hq⟩) hany)
              rw [hs] at h; cases h

theorem step_error (hv : Valid I) (ht : TopoGood topo) {e : Err} (h : step topo I = .error e) :
    e = .unidentifiable := (step_error' hv ht h).1

/-- what a successful pass hands to the recursion: valid inputs with a smaller measure -/
def GoodStep (I : IdIn) : Step → Prop
  | .done _ => True
  | .tail J => Valid J ∧ measureLt J.measure I.measure = true
  | .split Js _ => ∀ J ∈ Js, Valid J ∧ measureLt J.measure I.measure = true

theorem IdAux.measureLt_of_fst {a b : Nat × Nat} (h : a.1 < b.1) : measureLt a b = true := by
  simp [measureLt, h]

theorem IdAux.measureLt_of_snd {a b : Nat × Nat} (h1 : a.1 = b.1) (h2 : a.2 < b.2) : measureLt a b = true := by
  simp [measureLt, h1, h2]

theorem IdAux.two_le_length {l : List Name} {a b : Name} (ha : a ∈ l) (hb : b ∈ l) (hab : a ≠ b) : 2 ≤ l.length := by
  have hnd : [a, b].Nodup := by simp [hab]
  have hs : [a, b] ⊆ l := by
    intro x hx
    simp only [List.mem_cons, List.not_mem_nil, or_false] at hx
    rcases hx with rfl | rfl <;> assumption
  simpa using (List.subperm_of_subset hnd hs).length_le

theorem IdAux.mem_diff' {a : Name} {l m : List Name} : a ∈ diff' l m ↔ a ∈ l ∧ a ∉ m := by
  simp [diff']

theorem IdAux.mem_inter' {a : Name} {l m : List Name} : a ∈ inter' l m ↔ a ∈ l ∧ a ∈ m := by
  simp [inter']

theorem IdAux.mem_union' {a : Name} {l m : List Name} : a ∈ union' l m ↔ a ∈ l ∨ a ∈ m := by
  simp only [union', List.mem_append, List.mem_filter, decide_eq_true_eq]
  tauto

theorem IdAux.subset'_iff {l m : List Name} : subset' l m = true ↔ ∀ a ∈ l, a ∈ m := by
  simp [subset']

/-- line 7 replaces the estimand by a genuine product (at least two conditionals, none of them a constant) -/
theorem l7_productSafe_prod (hv : Valid I) {S D order : List Name} {fs : List Expr}
    (hS : (I.G.removeNodes I.X).districts = [S])
    (hfind : I.G.districts.find? (fun D => properSubset S D) = some D)
    (hf : D.mapM (pParents order I.est) = .ok fs) : ∃ l, productSafe fs = .prod l := by
  have hD : D ∈ I.G.districts := List.mem_of_find?_eq_some hfind
  have hprop : properSubset S D = true := by
    have := List.find?_some hfind
    simpa using this
  unfold properSubset at hprop
  simp only [Bool.and_eq_true, Bool.not_eq_true'] at hprop
  have hSD : ∀ v ∈ S, v ∈ D := subset'_iff.mp hprop.1
  have hF := (mapM_ok_iff _ _ _).mp hf
  apply productSafe_eq_prod
  · intro f hfm
    obtain ⟨v, _, hvf⟩ := forall₂_right hF f hfm
    obtain ⟨e, he, h1, h2⟩ := pParents_total (order := order) (pParents_ok hvf).1 hv.plain
    rw [hvf] at he
    cases he
    exact ⟨h1, h2⟩
  · rw [← forall₂_length hF]
    have hSm : S ∈ (I.G.removeNodes I.X).districts := by rw [hS]; simp
    obtain ⟨s, hs⟩ := List.exists_mem_of_ne_nil _ (districts_nonempty _ (IdAux.wf_removeNodes _ _) S hSm)
    have : ∃ d ∈ D, d ∉ S := by
      by_contra hc
      have : subset' D S = true := subset'_iff.mpr (fun a ha => by
        by_contra hn; exact hc ⟨a, ha, hn⟩)
      rw [this] at hprop
      cases hprop.2
    obtain ⟨d, hdD, hdS⟩ := this
    exact two_le_length (hSD s hs) hdD (fun e => hdS (e ▸ hs))

theorem step_good (hv : Valid I) {s : Step} (h : step topo I = .ok s) : GoodStep I s := by
  cases step_ok h with
  | l1 _ => trivial
  | l6 => trivial
  | l2 anc _ hanc hne =>
    refine ⟨⟨wf_subgraph _ _, hv.ranked.subgraph _, ?_, hv.yne, ?_, estPlain_sumSafe hv.plain _⟩, ?_⟩
    · intro y hy
      exact (mem_nodes_subgraph I.G anc y).mpr (ancestorsInclusive_self hv.wf hanc y hy)
    · intro y hy hyx
      exact hv.disj y hy (mem_inter'.mp hyx).1
    · apply measureLt_of_fst
      obtain ⟨b, hb⟩ := List.exists_mem_of_ne_nil _ hne
      obtain ⟨hbV, hbA⟩ := mem_diff'.mp hb
      exact length_lt_of_subset (wf_subgraph I.G anc).nodup
        (fun a ha => ancestorsInclusive_sub hv.wf hanc a ((mem_nodes_subgraph I.G anc a).mp ha)) hbV
        (fun hc => hbA ((mem_nodes_subgraph I.G anc b).mp hc))
  | l3 anc anc' _ _ _ hanc' hne =>
    have hself := ancestorsInclusive_self (wf_fromEdges _ _ _) hanc'
    refine ⟨⟨hv.wf, hv.ranked, hv.ysub, hv.yne, ?_, hv.plain⟩, ?_⟩
    · intro y hy hyx
      rcases mem_union'.mp hyx with h1 | h1
      · exact hv.disj y hy h1
      · exact (mem_diff'.mp h1).2 (hself y hy)
    · refine measureLt_of_snd (a := (line3 I _).measure) (b := I.measure) rfl ?_
      obtain ⟨b, hb⟩ := List.exists_mem_of_ne_nil _ hne
      have hbB := (mem_diff'.mp hb).1
      show (diff' I.G.nodes (union' I.X _)).length < (diff' I.G.nodes I.X).length
      refine length_lt_of_subset (hv.wf.nodup.filter _) ?_ hbB ?_
      · intro a ha
        obtain ⟨h1, h2⟩ := mem_diff'.mp ha
        exact mem_diff'.mpr ⟨h1, fun hc => h2 (mem_union'.mpr (Or.inl hc))⟩
      · intro hc
        exact (mem_diff'.mp hc).2 (mem_union'.mpr (Or.inr hb))
  | l4 anc anc' _ _ hlen =>
    intro J hJ
    simp only [List.mem_map] at hJ
    obtain ⟨S, hS, rfl⟩ := hJ
    have hwfx := IdAux.wf_removeNodes I.G I.X
    have hSV : ∀ v ∈ S, v ∈ I.G.nodes ∧ v ∉ I.X := fun v hvS =>
      (mem_nodes_removeNodes I.G hv.wf I.X v).mp (mem_nodes_of_mem_district hwfx hS hvS)
    refine ⟨⟨hv.wf, hv.ranked, fun y hy => (hSV y hy).1, districts_nonempty _ hwfx S hS, ?_, hv.plain⟩, ?_⟩
    · intro y hy hc
      exact (mem_diff'.mp hc).2 hy
    · refine measureLt_of_snd (a := IdIn.measure { G := I.G, X := diff' I.G.nodes S, Y := S, est := I.est })
        (b := I.measure) rfl ?_
      obtain ⟨D', hD', x, hxD', hxS⟩ := exists_other_district hwfx hS hlen
      obtain ⟨hxV, hxX⟩ := (mem_nodes_removeNodes I.G hv.wf I.X x).mp (mem_nodes_of_mem_district hwfx hD' hxD')
      show (diff' I.G.nodes (diff' I.G.nodes S)).length < (diff' I.G.nodes I.X).length
      refine length_lt_of_subset (hv.wf.nodup.filter _) ?_ (mem_diff'.mpr ⟨hxV, hxX⟩) ?_
      · intro a ha
        obtain ⟨h1, h2⟩ := mem_diff'.mp ha
        have haS : a ∈ S := by
          by_contra hc
          exact h2 (mem_diff'.mpr ⟨h1, hc⟩)
        exact mem_diff'.mpr ⟨h1, (hSV a haS).2⟩
      · intro hc
        obtain ⟨h1, h2⟩ := mem_diff'.mp hc
        exact h2 (mem_diff'.mpr ⟨h1, hxS⟩)
  | l7 anc anc' S D order fs _ _ _ hS hlen hnot hfind ho hf =>
    have hD : D ∈ I.G.districts := List.mem_of_find?_eq_some hfind
    have hprop : properSubset S D = true := by
      have := List.find?_some hfind
      simpa using this
    unfold properSubset at hprop
    simp only [Bool.and_eq_true, Bool.not_eq_true'] at hprop
    have hSD : ∀ v ∈ S, v ∈ D := subset'_iff.mp hprop.1
    have hDV : ∀ v ∈ D, v ∈ I.G.nodes := fun v hvD => mem_nodes_of_mem_district hv.wf hD hvD
    refine ⟨⟨wf_subgraph _ _, hv.ranked.subgraph _, ?_, hv.yne, ?_, ?_⟩, ?_⟩
    · intro y hy
      exact (mem_nodes_subgraph I.G D y).mpr
        (hSD y ((single_gx hv hS y).mpr ⟨hv.ysub y hy, hv.disj y hy⟩))
    · intro y hy hyx
      exact hv.disj y hy (mem_inter'.mp hyx).1
    · obtain ⟨l, hl⟩ := l7_productSafe_prod hv hS hfind hf
      rw [hl]; trivial
    · apply measureLt_of_fst
      obtain ⟨D', hD', x, hxD', hxD⟩ := exists_other_district hv.wf hD hlen
      exact length_lt_of_subset (wf_subgraph I.G D).nodup
        (fun a ha => hDV a ((mem_nodes_subgraph I.G D a).mp ha))
        (mem_nodes_of_mem_district hv.wf hD' hxD')
        (fun hc => hxD ((mem_nodes_subgraph I.G D x).mp hc))

end
end Y0
