/-
  Y0.Lemmas.TrsoSem — the semantic invariant of the TRSO recursion and the soundness of its lines 1, 2 and 3.

  A context `Ctx` fixes a positive model `M` compatible with the user's graph `G0` and a reading `leaf` of the leaves
  (Lemmas/TrsoSemDefs) — in the target domain the target model and the leaves as `Family.env` reads them, inside a
  source domain the model of that domain and the leaves read as what `activate_domain_and_interventions` will turn them
  into.  `SemInv ctx q G`: the carried expression of the query denotes the c-factor `Q[V_cur]` of `M` over the regular
  nodes of the current graph, and whenever it is syntactically a joint `P[pop](c)` the marginals of that joint are the
  marginals of `Q[V_cur]` (`JC`).  `Sound ctx q G e`: `e` denotes `Σ_{V_cur ∖ (X ∪ Y)} Q[V_cur ∖ X]` (`Spec`).
-/
import Y0.Lemmas.TrsoSemQ
import Y0.Lemmas.TrsoDenCanon
import Y0.Lemmas.TrsoSumND
import Y0.Lemmas.TrsoAll

namespace Y0
namespace Trso
open TrDsl MG IdAux

/-- a model, the user's graph, a reading of the leaves, and the names a joint may carry besides the current nodes -/
structure Ctx where
  M : Scm
  G0 : MG Name
  leaf : LeafFn
  S : LeafSem M.card leaf
  sctx : SCtx M G0
  ign : List Name

/-- the regular part of the current graph is an induced sub-graph of the user's graph -/
structure RSub (G0 G : MG Name) : Prop where
  nodes : ∀ v ∈ regularNodes G, v ∈ G0.nodes
  di : ∀ u v, u ∈ regularNodes G → v ∈ regularNodes G → u ∈ G0.parents v → G.DiEdge u v
  bi : ∀ u v, u ∈ regularNodes G → v ∈ regularNodes G → G0.hasBi u v = true → G.BiEdge u v

/-- what is known when the carried expression is the joint `P[pop](c)`: it carries every current node (and possibly
ignored names), leaves tagged with the current domain are admissible, and their marginals are those of `Q[V_cur]` -/
structure JC (ctx : Ctx) (q : Query) (G : MG Name) (c : List Var) : Prop where
  okW : ctx.S.okW (some (popVar q.domain)) []
  okN : ∀ v, (v ∈ regularNodes G ∨ v ∈ ctx.ign) → ctx.S.okN (some (popVar q.domain)) [] v
  cover : ∀ v ∈ regularNodes G, v ∈ vnames c
  within : ∀ n ∈ vnames c, n ∈ regularNodes G ∨ n ∈ ctx.ign
  plain : ∀ v ∈ c, v.ivs = [] ∧ v.star = none
  marg : ∀ S : List Name, (∀ n ∈ S, n ∈ regularNodes G ∨ n ∈ ctx.ign) → ∀ σ,
    ctx.S.Φ (some (popVar q.domain)) [] S σ =
      sumVars ctx.M.card ((regularNodes G).filter (· ∉ S)) (ctx.M.Q (regularNodes G)) σ

/-- every leaf has children of one name only (true of everything built from the conditionals of line 10) -/
def OneName : Option Var → List Var → List Var → Prop := fun _ c _ => ∀ v ∈ c, ∀ w ∈ c, v.name = w.name

theorem oneName_mono : LeafMono OneName := by
  intro pop c p c' p' h hc _ v hv w hw
  exact h v (hc v hv) w (hc w hw)

/-- **the semantic invariant** -/
structure SemInv (ctx : Ctx) (q : Query) (G : MG Name) : Prop where
  rsub : RSub ctx.G0 G
  good : Good ctx.S q.expr
  nd : SumND q.expr
  est : ∀ σ, denL ctx.M.card ctx.leaf q.expr σ = ctx.M.Q (regularNodes G) σ
  usum : ∀ v ∈ regularNodes G, ctx.S.U v
  ign : ∀ z ∈ ctx.ign, z ∉ regularNodes G
  shape : (∃ pop c, q.expr = .prob (some pop) c [] ∧ JC ctx q G c) ∨
    ((∀ pop c, q.expr ≠ .prob pop c []) ∧ Wf OneName (fun _ => True) q.expr)

/-- what a call has to return -/
def Sound (ctx : Ctx) (q : Query) (G : MG Name) (e : Expr) : Prop :=
  Good ctx.S e ∧ SumND e ∧ ∀ σ, denL ctx.M.card ctx.leaf e σ = Spec ctx.M (regularNodes G) q.X q.Y σ

/-! ### small facts -/

theorem regularNodes_nodup {G : MG Name} (hG : G.WF) : (regularNodes G).Nodup := hG.nodup.filter _

theorem nsort_nodup' (l : List Name) : (nsort l).Nodup := by
  unfold nsort
  exact (TrsoAux.ssort_perm _ _).nodup_iff.mpr (TrsoAux.nodup_dedup l)

/-- plain variables over current regular nodes are summable ranges -/
theorem SemInv.rng {ctx : Ctx} {q : Query} {G : MG Name} (h : SemInv ctx q G) {ns : List Name}
    (hns : ∀ n ∈ ns, n ∈ regularNodes G) : ∀ v ∈ plainVars ns, ctx.S.Rng v := by
  intro v hv
  rcases (mem_plainVars v ns).1 hv with ⟨n, hn, rfl⟩
  exact ⟨plainReg_plain (regular_notT (hns n hn)), h.usum n (hns n hn)⟩

/-- the sum over the sorted, duplicate-free version of a list of PLAIN variables is the sum over any duplicate-free
list of their names -/
theorem sumVars_sortVars_set (card : Name → Nat) {rs : List Var} {xs : List Name} (hplain : ∀ v ∈ rs, PlainReg v)
    (hxs : xs.Nodup) (h : ∀ n, n ∈ xs ↔ ∃ v ∈ rs, v.name = n) (f : Val → Rat) :
    sumVars card ((sortVars rs).map (·.name)) f = sumVars card xs f := by
  have hpl : ∀ v ∈ sortVars rs, v = Var.plain v.name := by
    intro v hv
    obtain ⟨h1, h2, h3, _⟩ := hplain v ((mem_sortVars v rs).1 hv)
    cases v
    simp only [Var.plain] at *
    subst h1 h2 h3
    rfl
  have hnd : ((sortVars rs).map (·.name)).Nodup := by
    rw [List.nodup_map_iff_inj_on (sortVars_nodup rs)]
    intro a ha b hb hab
    rw [hpl a ha, hpl b hb, hab]
  apply sumVars_congr_set card hnd hxs
  intro n
  rw [h n]
  simp only [List.mem_map, mem_sortVars]

theorem plainVars_plainReg {ns : List Name} (h : ∀ n ∈ ns, isTnode n = false) : ∀ v ∈ plainVars ns, PlainReg v :=
  plainVars_reg h

/-- the sum over `sortVars (plainVars ns)` (what `Sum.safe` iterates) is the sum over any duplicate-free list with the
members of `ns` -/
theorem sumVars_plainVars_set (card : Name → Nat) {ns xs : List Name} (hns : ∀ n ∈ ns, isTnode n = false)
    (hxs : xs.Nodup) (h : ∀ v, v ∈ ns ↔ v ∈ xs) (f : Val → Rat) :
    sumVars card ((sortVars (plainVars ns)).map (·.name)) f = sumVars card xs f := by
  apply sumVars_sortVars_set card (plainVars_reg hns) hxs
  intro n
  rw [← h n]
  constructor
  · intro hn; exact ⟨Var.plain n, (mem_plainVars _ ns).2 ⟨n, hn, rfl⟩, rfl⟩
  · rintro ⟨v, hv, rfl⟩
    obtain ⟨m, hm, rfl⟩ := (mem_plainVars v ns).1 hv
    exact hm

/-! ### line 1 -/

theorem sound_line1 {ctx : Ctx} {Mb : Nat} {q : Query} {G : MG Name} (hq : QInv Mb q G) (h : SemInv ctx q G)
    (hX : q.X.isEmpty = true) {e : Expr} (he : step1 q G = .ok (some e)) : Sound ctx q G e := by
  unfold step1 at he
  obtain ⟨e', he', h2⟩ := bind_ok he
  have : e' = e := by simpa [pure, Except.pure] using h2
  subst this
  have hV := regularNodes_nodup hq.wfG
  have hns : ∀ n ∈ diff' (regularNodes G) q.Y, n ∈ regularNodes G := fun n hn => (mem_diff'.1 hn).1
  have hr := h.rng hns
  have good1 : Good ctx.S (line1 q.Y q.expr G) := good_sumSafe ctx.S false h.good hr
  have nd1 : SumND (line1 q.Y q.expr G) := sumND_line1 h.nd
  refine ⟨good_canonicalize ctx.S good1 he', sumND_canonicalize nd1 he', fun σ => ?_⟩
  rw [denL_canonicalize ctx.S good1 nd1 he' σ]
  unfold line1
  rw [denL_sumSafe_false]
  have hXnil : q.X = [] := List.isEmpty_iff.1 hX
  rw [hXnil, spec_nil]
  rw [sumVars_plainVars_set ctx.M.card (fun n hn => regular_notT (hns n hn))
    (xs := (regularNodes G).filter (· ∉ q.Y)) (hV.filter _)
    (fun v => by simp [mem_diff', List.mem_filter])]
  exact congrFun (congrArg _ (funext h.est)) σ

/-! ### line 2 -/

/-- what line 2 hands to the recursion -/
theorem line2_shape' {q q' : Query} {G : MG Name} (hlook : lookup q.graphs q.domain = .ok G) {anc : List Name}
    (hanc : G.ancestorsInclusive q.Y = .ok anc) (hq' : line2 q anc = .ok q') :
    q'.X = inter' q.X anc ∧ q'.Y = q.Y ∧ q'.domain = q.domain ∧ q'.active = q.active ∧
    retag q.domain (sumSafe q.expr (plainVars (diff' (regularNodes G) anc)) true) = .ok q'.expr ∧
    lookup q'.graphs q'.domain = .ok (G.subgraph (nsort anc)) := by
  rw [line2_eq] at hq'
  obtain ⟨gs, hgs, hq'⟩ := bind_ok hq'
  obtain ⟨g, hg, hq'⟩ := bind_ok hq'
  obtain ⟨e, he, hq'⟩ := bind_ok hq'
  simp only [pure, Except.pure, Except.ok.injEq] at hq'
  subst hq'
  have hgG : g = G := by
    unfold Query.graph at hg
    rw [hlook] at hg
    exact (Except.ok.inj hg).symm
  subst hgG
  refine ⟨rfl, rfl, rfl, rfl, he, ?_⟩
  have hkey : ∀ p p', anc2 q.Y p = .ok p' → p'.1 = p.1 := by
    intro p p' hp
    obtain ⟨a, _, rfl⟩ := anc2_ok hp
    rfl
  obtain ⟨G', hG', hf⟩ := lookup_mapM hkey hgs hlook
  obtain ⟨a, ha, hpair⟩ := anc2_ok hf
  simp only at ha
  rw [hanc] at ha
  cases ha
  have hG'eq : G' = g.subgraph (nsort anc) := congrArg Prod.snd hpair
  subst hG'eq
  exact hG'

theorem mem_regular_subgraph {G : MG Name} {S : List Name} {v : Name} (hS : ∀ s ∈ S, s ∈ G.nodes) :
    v ∈ regularNodes (G.subgraph (nsort S)) ↔ v ∈ regularNodes G ∧ v ∈ S := by
  rw [mem_regularNodes, mem_regularNodes, mem_nodes_subgraph, mem_nsort]
  constructor
  · rintro ⟨h1, h2⟩; exact ⟨⟨hS v h1, h2⟩, h1⟩
  · rintro ⟨⟨_, h2⟩, h3⟩; exact ⟨h3, h2⟩

theorem RSub.subgraph {G0 G : MG Name} (h : RSub G0 G) {S : List Name} (hS : ∀ s ∈ S, s ∈ G.nodes) :
    RSub G0 (G.subgraph (nsort S)) := by
  refine ⟨fun v hv => h.nodes v ((mem_regular_subgraph hS).1 hv).1, ?_, ?_⟩
  · intro u v hu hv huv
    obtain ⟨hu1, hu2⟩ := (mem_regular_subgraph hS).1 hu
    obtain ⟨hv1, hv2⟩ := (mem_regular_subgraph hS).1 hv
    exact (diEdge_subgraph G _ u v).2 ⟨h.di u v hu1 hv1 huv, (mem_nsort _ _).2 hu2, (mem_nsort _ _).2 hv2⟩
  · intro u v hu hv huv
    obtain ⟨hu1, hu2⟩ := (mem_regular_subgraph hS).1 hu
    obtain ⟨hv1, hv2⟩ := (mem_regular_subgraph hS).1 hv
    exact (biEdge_subgraph G _ u v).2 ⟨h.bi u v hu1 hv1 huv, (mem_nsort _ _).2 hu2, (mem_nsort _ _).2 hv2⟩

theorem anc_closed' {G : MG Name} (hG : G.WF) {S A : List Name} (h : G.ancestorsInclusive S = .ok A) {a r : Name}
    (ha : a ∈ A) (hra : G.DiEdge r a) : r ∈ A := by
  obtain ⟨s, hs, has⟩ := (ancestorsInclusive_spec G hG S A h a).mp ha
  exact (ancestorsInclusive_spec G hG S A h r).mpr ⟨s, hs, .head hra has⟩

/-- summing `Q[V_cur]` over the current nodes that are not ancestors of the outcomes gives `Q[An(Y)]` -/
theorem Q_sum_nonanc {ctx : Ctx} {Mb : Nat} {q : Query} {G : MG Name} (hq : QInv Mb q G) (h : SemInv ctx q G)
    {anc : List Name} (hanc : G.ancestorsInclusive q.Y = .ok anc) :
    sumVars ctx.M.card ((regularNodes G).filter (fun v => !decide (v ∈ anc))) (ctx.M.Q (regularNodes G)) =
      ctx.M.Q (regularNodes (G.subgraph (nsort anc))) := by
  have hV := regularNodes_nodup hq.wfG
  have hancV : ∀ v ∈ anc, v ∈ G.nodes := ancestorsInclusive_sub hq.wfG hanc
  rw [Q_sum_closed ctx.sctx (regularNodes G) hV h.rsub.nodes (fun v => decide (v ∈ anc))]
  · apply ctx.M.Q_congr_set (hV.filter _) (regularNodes_nodup (wf_subgraph _ _))
    intro v
    rw [mem_regular_subgraph hancV]
    simp [List.mem_filter]
  · intro a ha hpa r hr hpr hra
    have : r ∈ anc := anc_closed' hq.wfG hanc (by simpa using hpa) (h.rsub.di r a hr ha hra)
    simp [this] at hpr

end Trso
end Y0
