/-
  Y0.Lemmas.TrsoSem — the semantic invariant of the TRSO recursion and the soundness of its lines 1, 2 and 3.

  A context `Ctx` fixes a positive model `M` compatible with the user's graph `G0` and a reading `leaf` of the leaves
  (Lemmas/TrsoSemDefs) — in the target domain the target model and the leaves as `Family.env` reads them, inside a
  source domain the model of that domain and the leaves read as what `activate_domain_and_interventions` will turn them
  into.  `SemInv ctx q G`: the carried expression of the query denotes the c-factor `Q[V_cur]` of `M` over the regular
  nodes of the current graph, and whenever it is syntactically a joint `P[pop](c)` the marginals of that joint are the
  marginals of `Q[V_cur]` (`JC`).  `Sound ctx q G e`: `e` denotes `Σ_{V_cur ∖ (X ∪ Y)} Q[V_cur ∖ X]` (`Spec`).
-/
import Y0.Lemmas.TrsoSemQ
import Y0.Lemmas.TrsoDenCanon
import Y0.Lemmas.TrsoSumND
import Y0.Lemmas.TrsoAll

namespace Y0
namespace Trso
open TrDsl MG IdAux

/-- a model, the user's graph, a reading of the leaves, and the names a joint may carry besides the current nodes -/
structure Ctx where
  M : Scm
  G0 : MG Name
  leaf : LeafFn
  S : LeafSem M.card leaf
  sctx : SCtx M G0
  ign : List Name
  /-- `mark d v`: the model of source domain `d` may differ from the target at `v` -/
  mark : Pop → Name → Prop
  /-- the domains the context has a model for -/
  dom : Pop → Prop := fun _ => True

/-- the regular part of the current graph is an induced sub-graph of the user's graph -/
structure RSub (G0 G : MG Name) : Prop where
  nodes : ∀ v ∈ regularNodes G, v ∈ G0.nodes
  di : ∀ u v, u ∈ regularNodes G → v ∈ regularNodes G → u ∈ G0.parents v → G.DiEdge u v
  bi : ∀ u v, u ∈ regularNodes G → v ∈ regularNodes G → G0.hasBi u v = true → G.BiEdge u v

/-- what is known when the carried expression is the joint `P[pop](c)`: it carries every current node (and possibly
ignored names), leaves tagged with the current domain are admissible, and their marginals are those of `Q[V_cur]` -/
structure JC (ctx : Ctx) (q : Query) (G : MG Name) (c : List Var) : Prop where
  okW : ctx.S.okW (some (popVar q.domain)) []
  okN : ∀ v, (v ∈ regularNodes G ∨ v ∈ ctx.ign) → ctx.S.okN (some (popVar q.domain)) [] v
  cover : ∀ v ∈ regularNodes G, v ∈ vnames c
  within : ∀ n ∈ vnames c, n ∈ regularNodes G ∨ n ∈ ctx.ign
  ignIn : ∀ z ∈ ctx.ign, z ∈ vnames c
  plain : ∀ v ∈ c, v.ivs = [] ∧ v.star = none ∧ v.isIv = false
  marg : ∀ S : List Name, (∀ n ∈ S, n ∈ regularNodes G ∨ n ∈ ctx.ign) → ∀ σ,
    ctx.S.Φ (some (popVar q.domain)) [] S σ =
      sumVars ctx.M.card ((regularNodes G).filter (· ∉ S)) (ctx.M.Q (regularNodes G)) σ
  /-- the children are a set (every constructor of the carried joint goes through `_upgrade_ordering`): together with
  `plain` their names are pairwise distinct, so the guard of the repaired `Sum.simplify` never fires on the carried joint -/
  nodup : c.Nodup

/-- plain variables without repetition have pairwise distinct names -/
theorem names_nodup_of_plain_nodup {c : List Var} (hp : ∀ v ∈ c, v.ivs = [] ∧ v.star = none ∧ v.isIv = false)
    (hn : c.Nodup) : (c.map (·.name)).Nodup := by
  refine (List.nodup_map_iff_inj_on hn).2 ?_
  intro a ha b hb hab
  obtain ⟨a1, a2, a3⟩ := hp a ha
  obtain ⟨b1, b2, b3⟩ := hp b hb
  cases a; cases b; simp_all

/-- every leaf has children of one name only (true of everything built from the conditionals of line 10) -/
def OneName : Option Var → List Var → List Var → Prop := fun _ c _ => ∀ v ∈ c, ∀ w ∈ c, v.name = w.name

theorem oneName_mono : LeafMono OneName := by
  intro pop c p c' p' h hc _ v hv w hw
  exact h v (hc v hv) w (hc w hw)

/-- what is known in the target domain while experiments are still usable (before any line 10): every diagram of the
query is an induced super-graph of the user's graph on its regular nodes, the current nodes are closed under parents,
the carried expression is still the joint, and every variable at which a source domain may differ still carries its
selection node in that domain's diagram -/
structure T0Inv (ctx : Ctx) (q : Query) (G : MG Name) : Prop where
  allsub : ∀ p ∈ q.graphs, RSub ctx.G0 p.2
  closed : ∀ a ∈ regularNodes G, ∀ r ∈ ctx.G0.parents a, r ∈ regularNodes G
  joint : ∃ pop c, q.expr = .prob (some pop) c []
  marks : ∀ p ∈ q.graphs, ∀ v, ctx.mark p.1 v → v ∈ regularNodes p.2 → (tnode v, v) ∈ p.2.di
  doms : ∀ p ∈ q.graphs, ctx.dom p.1

/-- **the semantic invariant** -/
structure SemInv (ctx : Ctx) (q : Query) (G : MG Name) : Prop where
  rsub : RSub ctx.G0 G
  good : Good ctx.S q.expr
  nd : SumND q.expr
  est : ∀ σ, denL ctx.M.card ctx.leaf q.expr σ = ctx.M.Q (regularNodes G) σ
  usum : ∀ v ∈ regularNodes G, ctx.S.U v
  ign : ∀ z ∈ ctx.ign, z ∉ regularNodes G
  shape : (∃ pop c, q.expr = .prob (some pop) c [] ∧ JC ctx q G c) ∨
    ((∀ pop c, q.expr ≠ .prob pop c []) ∧ Wf OneName (fun _ => True) q.expr)
  t0 : q.active = [] → q.surr ≠ [] → T0Inv ctx q G

/-- what a call has to return -/
def Sound (ctx : Ctx) (q : Query) (G : MG Name) (e : Expr) : Prop :=
  Good ctx.S e ∧ SumND e ∧ ∀ σ, denL ctx.M.card ctx.leaf e σ = Spec ctx.M (regularNodes G) q.X q.Y σ

/-! ### small facts -/

theorem regularNodes_nodup {G : MG Name} (hG : G.WF) : (regularNodes G).Nodup := hG.nodup.filter _

theorem nsort_nodup' (l : List Name) : (nsort l).Nodup := by
  unfold nsort
  exact (TrsoAux.ssort_perm _ _).nodup_iff.mpr (TrsoAux.nodup_dedup l)

/-- plain variables over current regular nodes are summable ranges -/
theorem SemInv.rng {ctx : Ctx} {q : Query} {G : MG Name} (h : SemInv ctx q G) {ns : List Name}
    (hns : ∀ n ∈ ns, n ∈ regularNodes G) : ∀ v ∈ plainVars ns, ctx.S.Rng v := by
  intro v hv
  rcases (mem_plainVars v ns).1 hv with ⟨n, hn, rfl⟩
  exact ⟨plainReg_plain (regular_notT (hns n hn)), h.usum n (hns n hn)⟩

/-- the sum over the sorted, duplicate-free version of a list of PLAIN variables is the sum over any duplicate-free
list of their names -/
theorem sumVars_sortVars_set (card : Name → Nat) {rs : List Var} {xs : List Name} (hplain : ∀ v ∈ rs, PlainReg v)
    (hxs : xs.Nodup) (h : ∀ n, n ∈ xs ↔ ∃ v ∈ rs, v.name = n) (f : Val → Rat) :
    sumVars card ((sortVars rs).map (·.name)) f = sumVars card xs f := by
  have hpl : ∀ v ∈ sortVars rs, v = Var.plain v.name := by
    intro v hv
    obtain ⟨h1, h2, h3, _⟩ := hplain v ((mem_sortVars v rs).1 hv)
    cases v
    simp only [Var.plain] at *
    subst h1 h2 h3
    rfl
  have hnd : ((sortVars rs).map (·.name)).Nodup := by
    rw [List.nodup_map_iff_inj_on (sortVars_nodup rs)]
    intro a ha b hb hab
    rw [hpl a ha, hpl b hb, hab]
  apply sumVars_congr_set card hnd hxs
  intro n
  rw [h n]
  simp only [List.mem_map, mem_sortVars]

theorem plainVars_plainReg {ns : List Name} (h : ∀ n ∈ ns, isTnode n = false) : ∀ v ∈ plainVars ns, PlainReg v :=
  plainVars_reg h

/-- the sum over `sortVars (plainVars ns)` (what `Sum.safe` iterates) is the sum over any duplicate-free list with the
members of `ns` -/
theorem sumVars_plainVars_set (card : Name → Nat) {ns xs : List Name} (hns : ∀ n ∈ ns, isTnode n = false)
    (hxs : xs.Nodup) (h : ∀ v, v ∈ ns ↔ v ∈ xs) (f : Val → Rat) :
    sumVars card ((sortVars (plainVars ns)).map (·.name)) f = sumVars card xs f := by
  apply sumVars_sortVars_set card (plainVars_reg hns) hxs
  intro n
  rw [← h n]
  constructor
  · intro hn; exact ⟨Var.plain n, (mem_plainVars _ ns).2 ⟨n, hn, rfl⟩, rfl⟩
  · rintro ⟨v, hv, rfl⟩
    obtain ⟨m, hm, rfl⟩ := (mem_plainVars v ns).1 hv
    exact hm

/-! ### line 1 -/

theorem sound_line1 {ctx : Ctx} {Mb : Nat} {q : Query} {G : MG Name} (hq : QInv Mb q G) (h : SemInv ctx q G)
    (hX : q.X.isEmpty = true) {e : Expr} (he : step1 q G = .ok (some e)) : Sound ctx q G e := by
  unfold step1 at he
  obtain ⟨e', he', h2⟩ := bind_ok he
  have : e' = e := by simpa [pure, Except.pure] using h2
  subst this
  have hV := regularNodes_nodup hq.wfG
  have hns : ∀ n ∈ diff' (regularNodes G) q.Y, n ∈ regularNodes G := fun n hn => (mem_diff'.1 hn).1
  have hr := h.rng hns
  have good1 : Good ctx.S (line1 q.Y q.expr G) := good_sumSafe ctx.S false h.good hr
  have nd1 : SumND (line1 q.Y q.expr G) := sumND_line1 h.nd
  refine ⟨good_canonicalize ctx.S good1 he', sumND_canonicalize nd1 he', fun σ => ?_⟩
  rw [denL_canonicalize ctx.S good1 nd1 he' σ]
  unfold line1
  rw [denL_sumSafe_false]
  have hXnil : q.X = [] := List.isEmpty_iff.1 hX
  rw [hXnil, spec_nil]
  rw [sumVars_plainVars_set ctx.M.card (fun n hn => regular_notT (hns n hn))
    (xs := (regularNodes G).filter (· ∉ q.Y)) (hV.filter _)
    (fun v => by simp [mem_diff', List.mem_filter])]
  exact congrFun (congrArg _ (funext h.est)) σ

/-! ### line 2 -/

/-- what line 2 hands to the recursion -/
theorem line2_shape' {q q' : Query} {G : MG Name} (hlook : lookup q.graphs q.domain = .ok G) {anc : List Name}
    (hanc : G.ancestorsInclusive q.Y = .ok anc) (hq' : line2 q anc = .ok q') :
    q'.X = inter' q.X anc ∧ q'.Y = q.Y ∧ q'.domain = q.domain ∧ q'.active = q.active ∧
    retag q.domain (sumSafe q.expr (plainVars (diff' (regularNodes G) anc)) true) = .ok q'.expr ∧
    lookup q'.graphs q'.domain = .ok (G.subgraph (nsort anc)) ∧ q'.surr = q.surr ∧
    ∀ p' ∈ q'.graphs, ∃ p ∈ q.graphs, ∃ a, p.2.ancestorsInclusive q.Y = .ok a ∧ p' = (p.1, p.2.subgraph (nsort a)) := by
  rw [line2_eq] at hq'
  obtain ⟨gs, hgs, hq'⟩ := bind_ok hq'
  obtain ⟨g, hg, hq'⟩ := bind_ok hq'
  obtain ⟨e, he, hq'⟩ := bind_ok hq'
  simp only [pure, Except.pure, Except.ok.injEq] at hq'
  subst hq'
  have hgG : g = G := by
    unfold Query.graph at hg
    rw [hlook] at hg
    exact (Except.ok.inj hg).symm
  subst hgG
  refine ⟨rfl, rfl, rfl, rfl, he, ?_, rfl, ?_⟩
  swap
  · intro p' hp'
    obtain ⟨p, hp, hpp⟩ := mapM_ok hgs p' hp'
    exact ⟨p, hp, anc2_ok hpp⟩
  have hkey : ∀ p p', anc2 q.Y p = .ok p' → p'.1 = p.1 := by
    intro p p' hp
    obtain ⟨a, _, rfl⟩ := anc2_ok hp
    rfl
  obtain ⟨G', hG', hf⟩ := lookup_mapM hkey hgs hlook
  obtain ⟨a, ha, hpair⟩ := anc2_ok hf
  simp only at ha
  rw [hanc] at ha
  cases ha
  have hG'eq : G' = g.subgraph (nsort anc) := congrArg Prod.snd hpair
  subst hG'eq
  exact hG'

theorem mem_regular_subgraph {G : MG Name} {S : List Name} {v : Name} (hS : ∀ s ∈ S, s ∈ G.nodes) :
    v ∈ regularNodes (G.subgraph (nsort S)) ↔ v ∈ regularNodes G ∧ v ∈ S := by
  rw [mem_regularNodes, mem_regularNodes, mem_nodes_subgraph, mem_nsort]
  constructor
  · rintro ⟨h1, h2⟩; exact ⟨⟨hS v h1, h2⟩, h1⟩
  · rintro ⟨⟨_, h2⟩, h3⟩; exact ⟨h3, h2⟩

theorem RSub.subgraph {G0 G : MG Name} (h : RSub G0 G) {S : List Name} (hS : ∀ s ∈ S, s ∈ G.nodes) :
    RSub G0 (G.subgraph (nsort S)) := by
  refine ⟨fun v hv => h.nodes v ((mem_regular_subgraph hS).1 hv).1, ?_, ?_⟩
  · intro u v hu hv huv
    obtain ⟨hu1, hu2⟩ := (mem_regular_subgraph hS).1 hu
    obtain ⟨hv1, hv2⟩ := (mem_regular_subgraph hS).1 hv
    exact (diEdge_subgraph G _ u v).2 ⟨h.di u v hu1 hv1 huv, (mem_nsort _ _).2 hu2, (mem_nsort _ _).2 hv2⟩
  · intro u v hu hv huv
    obtain ⟨hu1, hu2⟩ := (mem_regular_subgraph hS).1 hu
    obtain ⟨hv1, hv2⟩ := (mem_regular_subgraph hS).1 hv
    exact (biEdge_subgraph G _ u v).2 ⟨h.bi u v hu1 hv1 huv, (mem_nsort _ _).2 hu2, (mem_nsort _ _).2 hv2⟩

theorem anc_closed' {G : MG Name} (hG : G.WF) {S A : List Name} (h : G.ancestorsInclusive S = .ok A) {a r : Name}
    (ha : a ∈ A) (hra : G.DiEdge r a) : r ∈ A := by
  obtain ⟨s, hs, has⟩ := (ancestorsInclusive_spec G hG S A h a).mp ha
  exact (ancestorsInclusive_spec G hG S A h r).mpr ⟨s, hs, .head hra has⟩

/-- summing `Q[V_cur]` over the current nodes that are not ancestors of the outcomes gives `Q[An(Y)]` -/
theorem Q_sum_nonanc {ctx : Ctx} {Mb : Nat} {q : Query} {G : MG Name} (hq : QInv Mb q G) (h : SemInv ctx q G)
    {anc : List Name} (hanc : G.ancestorsInclusive q.Y = .ok anc) :
    sumVars ctx.M.card ((regularNodes G).filter (fun v => !decide (v ∈ anc))) (ctx.M.Q (regularNodes G)) =
      ctx.M.Q (regularNodes (G.subgraph (nsort anc))) := by
  have hV := regularNodes_nodup hq.wfG
  have hancV : ∀ v ∈ anc, v ∈ G.nodes := ancestorsInclusive_sub hq.wfG hanc
  rw [Q_sum_closed ctx.sctx (regularNodes G) hV h.rsub.nodes (fun v => decide (v ∈ anc))]
  · apply ctx.M.Q_congr_set (hV.filter _) (regularNodes_nodup (wf_subgraph _ _))
    intro v
    rw [mem_regular_subgraph hancV]
    simp [List.mem_filter]
  · intro a ha hpa r hr hpr hra
    have : r ∈ anc := anc_closed' hq.wfG hanc (by simpa using hpa) (h.rsub.di r a hr ha hra)
    simp [this] at hpr

theorem sumSafe_true_nonjoint {e : Expr} {r : List Var} (he : Clean e) (hr : r ≠ [])
    (hnj : ∀ pop c, e ≠ .prob pop c []) : sumSafe e r true = .sum e (sortVars r) := by
  unfold sumSafe
  have h1 : (sortVars r).isEmpty = false := by
    cases hs : sortVars r with
    | nil => exact absurd hs (sortVars_nonempty hr)
    | cons a as => rfl
  simp only [h1, clean_not_zero he, Bool.false_eq_true, if_false, if_true]
  unfold sumSimplify
  split
  · rename_i pop children
    exact absurd rfl (hnj pop children)
  · rfl

/-- `Sum.safe` of a joint does not collapse to `One()` while a child stays un-summed -/
theorem sumSafe_joint_ne_one (pop : Option Var) (c rs : List Var)
    (hy : ∃ n ∈ c.map (·.name), n ∉ rs.map (·.name)) : sumSafe (.prob pop c []) rs true ≠ .one := by
  obtain ⟨y, hyc, hyr⟩ := hy
  unfold sumSafe
  simp only []
  split
  · intro h; cases h
  · simp only [isZero, Bool.false_eq_true, if_false, if_true]
    unfold sumSimplify
    simp only []
    split
    · intro h; cases h
    split
    · rename_i hse
      exfalso
      have hsub : subset' ((childDict c).map (·.1)) ((sortVars rs).map (·.name)) = true := by
        simp only [seteq', Bool.and_eq_true] at hse
        exact hse.2
      have hyk : y ∈ (childDict c).map (·.1) := by
        rw [TrsoAux.mem_childDict_keys]
        obtain ⟨v, hv, rfl⟩ := List.mem_map.1 hyc
        exact ⟨v, hv, rfl⟩
      have := (TrsoAux.subset'_iff _ _).1 hsub y hyk
      apply hyr
      obtain ⟨v, hv, rfl⟩ := List.mem_map.1 this
      exact List.mem_map.2 ⟨v, (mem_sortVars v rs).1 hv, rfl⟩
    · split
      · intro h; cases h
      · split
        · intro h; cases h
        · intro h; cases h

/-- the joint clause for the current domain gives the value of a joint leaf tagged with that domain -/
theorem JC.leaf_val {ctx : Ctx} {q : Query} {G : MG Name} {c : List Var} (jc : JC ctx q G c) {c' : List Var}
    (hc' : ∀ v ∈ c', v.ivs = [] ∧ v.star = none ∧ v.isIv = false) (hin : ∀ n ∈ vnames c', n ∈ regularNodes G ∨ n ∈ ctx.ign) (σ : Val) :
    ctx.leaf (some (popVar q.domain)) c' [] σ =
      sumVars ctx.M.card ((regularNodes G).filter (· ∉ vnames c')) (ctx.M.Q (regularNodes G)) σ := by
  rw [ctx.S.leaf_eq (some (popVar q.domain)) [] c' [] jc.okW (by
    intro v hv
    rw [List.append_nil] at hv
    exact ⟨(hc' v hv).1, (hc' v hv).2.1, (hc' v hv).2.2, jc.okN v.name (hin v.name (List.mem_map_of_mem hv))⟩) σ]
  rw [List.append_nil]
  show _ / ctx.S.Φ (some (popVar q.domain)) [] [] σ = _
  rw [ctx.S.nil _ _ jc.okW σ, div_one]
  exact jc.marg (vnames c') hin σ

theorem JC.adm {ctx : Ctx} {q : Query} {G : MG Name} {c : List Var} (jc : JC ctx q G c) {c' p' : List Var}
    (hc' : ∀ v ∈ c' ++ p', v.ivs = [] ∧ v.star = none ∧ v.isIv = false) (hin : ∀ v ∈ c' ++ p', v.name ∈ regularNodes G ∨ v.name ∈ ctx.ign) :
    ctx.S.Adm (some (popVar q.domain)) c' p' :=
  ⟨[], jc.okW, fun v hv => ⟨(hc' v hv).1, (hc' v hv).2.1, (hc' v hv).2.2, jc.okN v.name (hin v hv)⟩⟩

/-- **line 2**: the query handed to the recursion satisfies the invariant again and asks for the same distribution -/
theorem sound_line2 {ctx : Ctx} {Mb : Nat} {q q' : Query} {G : MG Name} {anc : List Name} (hq : QInv Mb q G)
    (h : SemInv ctx q G) (hanc : G.ancestorsInclusive q.Y = .ok anc)
    (hne : (diff' (regularNodes G) anc).isEmpty = false) (hq' : line2 q anc = .ok q') :
    SemInv ctx q' (G.subgraph (nsort anc)) ∧
      ∀ σ, Spec ctx.M (regularNodes (G.subgraph (nsort anc))) q'.X q'.Y σ = Spec ctx.M (regularNodes G) q.X q.Y σ := by
  obtain ⟨hX', hY', hdom, hact, hret, _, hsurr, hgraphs⟩ := line2_shape' hq.look hanc hq'
  have hV := regularNodes_nodup hq.wfG
  have hV' : (regularNodes (G.subgraph (nsort anc))).Nodup := regularNodes_nodup (wf_subgraph _ _)
  have hancV : ∀ v ∈ anc, v ∈ G.nodes := ancestorsInclusive_sub hq.wfG hanc
  have hYanc : ∀ y ∈ q.Y, y ∈ anc := ancestorsInclusive_self hq.wfG hanc
  have hmem : ∀ v, v ∈ regularNodes (G.subgraph (nsort anc)) ↔ v ∈ regularNodes G ∧ v ∈ anc :=
    fun v => mem_regular_subgraph hancV
  have hRV : ∀ n ∈ diff' (regularNodes G) anc, n ∈ regularNodes G := fun n hn => (mem_diff'.1 hn).1
  have hrng := h.rng hRV
  set rs := plainVars (diff' (regularNodes G) anc) with hrs
  have hRne : rs ≠ [] := plainVars_nonempty (by
    intro h0; rw [h0] at hne; simp at hne)
  have goodS : Good ctx.S (sumSafe q.expr rs true) := good_sumSafe ctx.S true h.good hrng
  have ndS : SumND (sumSafe q.expr rs true) := sumND_sumSafe true h.nd
  have hQ := Q_sum_nonanc hq h hanc
  have denS : ∀ σ, denL ctx.M.card ctx.leaf (sumSafe q.expr rs true) σ =
      ctx.M.Q (regularNodes (G.subgraph (nsort anc))) σ := by
    intro σ
    rw [denL_sumSafe ctx.S true h.good hrng σ, ← hQ]
    rw [sumVars_plainVars_set ctx.M.card (fun n hn => regular_notT (hRV n hn))
      (xs := (regularNodes G).filter (fun v => !decide (v ∈ anc))) (hV.filter _)
      (fun v => by simp [mem_diff', List.mem_filter])]
    exact congrFun (congrArg _ (funext h.est)) σ
  have rsub' := h.rsub.subgraph hancV
  have usum' : ∀ v ∈ regularNodes (G.subgraph (nsort anc)), ctx.S.U v := fun v hv => h.usum v ((hmem v).1 hv).1
  have ign' : ∀ z ∈ ctx.ign, z ∉ regularNodes (G.subgraph (nsort anc)) := fun z hz hz' => h.ign z hz ((hmem z).1 hz').1
  -- the target-phase part of the invariant, given that the new carried expression is a joint again
  have t0core : q'.active = [] → q'.surr ≠ [] → (∃ pop c, q'.expr = .prob (some pop) c []) →
      T0Inv ctx q' (G.subgraph (nsort anc)) := by
    intro ha hs hj
    have t0 := h.t0 (hact ▸ ha) (hsurr ▸ hs)
    refine ⟨?_, ?_, hj, ?_, ?_⟩
    rotate_left 3
    · intro p' hp'
      obtain ⟨p, hp, a, _, rfl⟩ := hgraphs p' hp'
      exact t0.doms p hp
    · intro p' hp'
      obtain ⟨p, hp, a, hpa, rfl⟩ := hgraphs p' hp'
      exact (t0.allsub p hp).subgraph (ancestorsInclusive_sub (hq.wf p hp) hpa)
    · intro a ha' r hr
      obtain ⟨ha1, ha2⟩ := (hmem a).1 ha'
      have hr1 := t0.closed a ha1 r hr
      exact (hmem r).2 ⟨hr1, anc_closed' hq.wfG hanc ha2 (h.rsub.di r a hr1 ha1 hr)⟩
    · intro p' hp' v hmark hv
      obtain ⟨p, hp, a, hpa, rfl⟩ := hgraphs p' hp'
      have hsubN := ancestorsInclusive_sub (hq.wf p hp) hpa
      obtain ⟨hv1, hv2⟩ := (mem_regular_subgraph hsubN).1 hv
      have hedge : (tnode v, v) ∈ p.2.di := t0.marks p hp v hmark hv1
      have ht : tnode v ∈ a := anc_closed' (hq.wf p hp) hpa hv2 hedge
      exact (diEdge_subgraph p.2 _ (tnode v) v).2 ⟨hedge, (mem_nsort _ _).2 ht, (mem_nsort _ _).2 hv2⟩
  refine ⟨?_, fun σ => ?_⟩
  · rcases h.shape with ⟨pop, c, hexpr, jc⟩ | ⟨hnj, hwf⟩
    · -- the carried expression is a joint
      have hsub : ∀ v ∈ rs, v.name ∈ c.map (·.name) := by
        intro v hv
        obtain ⟨n, hn, rfl⟩ := (mem_plainVars v _).1 hv
        exact jc.cover n (hRV n hn)
      rw [hexpr] at hret goodS ndS denS
      rcases sumSafe_joint_sub (some pop) c rs (fun v hv => (hrng v hv).1)
        (names_nodup_of_plain_nodup jc.plain jc.nodup) hsub with h1 | ⟨c', hs, hc'c, hnames, hc'nd⟩
      · -- impossible: an outcome is a child of the joint that is not summed out
        exfalso
        obtain ⟨y, hy⟩ := List.exists_mem_of_ne_nil _ hq.Yne
        have hyV : y ∈ regularNodes G := mem_regularNodes.2 ⟨hq.YinG y hy, hq.YT y hy⟩
        refine sumSafe_joint_ne_one (some pop) c rs ⟨y, jc.cover y hyV, fun hyr => ?_⟩ h1
        obtain ⟨v, hv, hvy⟩ := List.mem_map.1 hyr
        obtain ⟨m, hm, rfl⟩ := (mem_plainVars v _).1 hv
        have : m = y := hvy
        subst this
        exact (mem_diff'.1 hm).2 (hYanc m hy)
      · rw [hs] at hret
        have he' : q'.expr = .prob (some (popVar q.domain)) c' [] := by simpa [retag] using hret.symm
        have hplain' : ∀ v ∈ c', v.ivs = [] ∧ v.star = none ∧ v.isIv = false := fun v hv => jc.plain v (hc'c v hv)
        have hR_notanc : ∀ n ∈ (rs.map (·.name)), n ∈ regularNodes G ∧ n ∉ anc := by
          intro n hn
          obtain ⟨v, hv, rfl⟩ := List.mem_map.1 hn
          obtain ⟨m, hm, rfl⟩ := (mem_plainVars v _).1 hv
          exact mem_diff'.1 hm
        have hR_mem : ∀ n, n ∈ regularNodes G → n ∉ anc → n ∈ rs.map (·.name) := by
          intro n h1 h2
          exact List.mem_map.2 ⟨Var.plain n, (mem_plainVars _ _).2 ⟨n, mem_diff'.2 ⟨h1, h2⟩, rfl⟩, rfl⟩
        have jc' : JC ctx q' (G.subgraph (nsort anc)) c' := by
          refine ⟨hdom ▸ jc.okW, fun v hv => hdom ▸ jc.okN v (hv.elim (fun a => Or.inl ((hmem v).1 a).1) Or.inr), ?_, ?_,
            ?_, hplain', ?_, hc'nd⟩
          pick_goal 3
          · intro z hz
            exact (hnames z).2 ⟨jc.ignIn z hz, fun hr => h.ign z hz (hR_notanc z hr).1⟩
          · intro v hv
            obtain ⟨hv1, hv2⟩ := (hmem v).1 hv
            exact (hnames v).2 ⟨jc.cover v hv1, fun hr => (hR_notanc v hr).2 hv2⟩
          · intro n hn
            obtain ⟨hn1, hn2⟩ := (hnames n).1 hn
            rcases jc.within n hn1 with hV1 | hI
            · by_cases ha : n ∈ anc
              · exact Or.inl ((hmem n).2 ⟨hV1, ha⟩)
              · exact absurd (hR_mem n hV1 ha) hn2
            · exact Or.inr hI
          · intro S hS σ
            rw [hdom, jc.marg S (fun n hn => (hS n hn).elim (fun a => Or.inl ((hmem n).1 a).1) Or.inr) σ]
            rw [sumVars_filter_split ctx.M.card ((regularNodes G).filter (· ∉ S)) (fun v => decide (v ∈ anc))]
            have e1 : sumVars ctx.M.card (((regularNodes G).filter (· ∉ S)).filter (fun v => !decide (v ∈ anc)))
                (ctx.M.Q (regularNodes G)) =
                sumVars ctx.M.card ((regularNodes G).filter (fun v => !decide (v ∈ anc))) (ctx.M.Q (regularNodes G)) := by
              apply sumVars_congr_set ctx.M.card ((hV.filter _).filter _) (hV.filter _)
              intro v
              simp only [List.mem_filter, decide_eq_true_eq, Bool.not_eq_true', decide_eq_false_iff_not]
              constructor
              · rintro ⟨⟨a, _⟩, b⟩; exact ⟨a, b⟩
              · rintro ⟨a, b⟩
                refine ⟨⟨a, fun hs => ?_⟩, b⟩
                rcases hS v hs with h1 | h1
                · exact b ((hmem v).1 h1).2
                · exact h.ign v h1 a
            rw [e1, hQ]
            refine congrFun (sumVars_congr_set ctx.M.card ((hV.filter _).filter _) (hV'.filter _) (fun v => ?_) _) σ
            simp only [List.mem_filter, decide_eq_true_eq, hmem v]
            constructor
            · rintro ⟨⟨a, b⟩, c⟩; exact ⟨⟨a, c⟩, b⟩
            · rintro ⟨⟨a, c⟩, b⟩; exact ⟨⟨a, b⟩, c⟩
        have hin' : ∀ n ∈ vnames c', n ∈ regularNodes (G.subgraph (nsort anc)) ∨ n ∈ ctx.ign := jc'.within
        have hadm : ctx.S.Adm (some (popVar q.domain)) c' [] := by
          have := jc'.adm (c' := c') (p' := []) (by simpa using hplain')
            (by intro v hv; rw [List.append_nil] at hv; exact hin' v.name (List.mem_map_of_mem hv))
          rwa [hdom] at this
        refine ⟨rsub', ?_, ?_, ?_, usum', ign', Or.inl ⟨popVar q.domain, c', he', jc'⟩,
          fun ha hs => t0core ha hs ⟨_, _, he'⟩⟩
        · rw [he']; exact ⟨trivial, hadm⟩
        · rw [he']; trivial
        · intro σ
          rw [he']
          show ctx.leaf (some (popVar q.domain)) c' [] σ = _
          have := jc'.leaf_val hplain' hin' σ
          rw [hdom] at this
          rw [this]
          have hnil : (regularNodes (G.subgraph (nsort anc))).filter (· ∉ vnames c') = [] := by
            apply List.filter_eq_nil_iff.mpr
            intro v hv
            simpa using jc'.cover v hv
          rw [hnil]
          rfl
    · -- the carried expression is not a joint: `Sum.safe` wraps it
      have hs := sumSafe_true_nonjoint h.good.1 hRne hnj
      rw [hs] at hret
      have he' : q'.expr = .sum q.expr (sortVars rs) := by simpa [retag] using hret.symm
      rw [hs] at goodS ndS denS
      refine ⟨rsub', he' ▸ goodS, he' ▸ ndS, he' ▸ denS, usum', ign',
        Or.inr ⟨fun pop c hc => (by rw [he'] at hc; cases hc), (by rw [he']; exact ⟨hwf, fun _ _ => trivial⟩)⟩, ?_⟩
      intro ha hs
      obtain ⟨pop, c, hj⟩ := (h.t0 (hact ▸ ha) (hsurr ▸ hs)).joint
      exact absurd hj (hnj pop c)
  · rw [hX', hY']
    apply spec_line2 ctx.sctx (regularNodes G) q.X q.Y _ _ hV h.rsub.nodes hV' (fun v => decide (v ∈ anc))
    · intro a ha hpa r hr hpr hra
      have : r ∈ anc := anc_closed' hq.wfG hanc (by simpa using hpa) (h.rsub.di r a hr ha hra)
      simp [this] at hpr
    · intro y hy; simpa using hYanc y hy
    · intro v; rw [hmem v]; simp
    · intro v hv
      rw [mem_inter']
      exact ⟨fun a => a.1, fun a => ⟨a, ((hmem v).1 hv).2⟩⟩

end Trso
end Y0
