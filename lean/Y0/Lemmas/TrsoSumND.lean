/-
  Y0.Lemmas.TrsoSumND — the data-structure invariant "every `Sum` ranges over a duplicate-free list" (`SumND`,
  Lemmas/TrsoSemDefs; Python: `Sum.ranges` is a `frozenset`) is preserved by every constructor / operator of
  Y0.Model.TrDsl, by `activate_domain_and_interventions` and by the expression-building blocks of the TRSO model.
-/
import Y0.Lemmas.TrsoSemDefs

namespace Y0
namespace Trso
open TrDsl

/-! ### helpers (the structural inductions, in `SumNDList` form; same case splits as the `wf_*` lemmas of
Lemmas/TrsoVocab) -/

namespace TrsoAux

theorem nodup_dedup {α} [DecidableEq α] : ∀ l : List α, (dedup' l).Nodup
  | [] => by simp [dedup']
  | x :: xs => by
    rw [dedup', List.nodup_cons]
    refine ⟨?_, (nodup_dedup xs).sublist List.filter_sublist⟩
    simp [List.mem_filter]

theorem nd_insertStable_perm {α} (lt : α → α → Bool) (x : α) (l : List α) : (insertStable lt x l).Perm (x :: l) := by
  induction l with
  | nil => simp [insertStable]
  | cons y ys ih =>
    unfold insertStable
    split
    · exact (List.Perm.cons y ih).trans (List.Perm.swap x y ys)
    · exact List.Perm.refl _

theorem nd_ssort_perm {α} (lt : α → α → Bool) (l : List α) : (ssort lt l).Perm l := by
  unfold ssort
  induction l with
  | nil => simp
  | cons x xs ih =>
    simp only [List.foldr]
    exact (nd_insertStable_perm lt x _).trans (List.Perm.cons x ih)

theorem nd_productSafe {es : List Expr} (h : SumNDList es) : SumND (productSafe es) := by
  unfold productSafe
  have hf : ∀ e ∈ es.filter (fun e => !isOne e), SumND e := by
    intro e he; exact (sumNDList_iff es).1 h e (List.mem_filter.1 he).1
  generalize es.filter (fun e => !isOne e) = fs at hf
  simp only []
  split
  · simp [SumND]
  · split
    · simp [SumND]
    · rename_i e0 _; exact hf e0 (by simp)
    · simp only [SumND]
      rw [sumNDList_iff]
      intro e he
      exact hf e (by simpa using he)

theorem nd_mkFrac {n d e : Expr} (hn : SumND n) (hd : SumND d) (h : mkFrac n d = .ok e) : SumND e := by
  unfold mkFrac at h
  split at h
  · cases h
  · cases h; exact ⟨hn, hd⟩

theorem nd_sumSimplify {e : Expr} {r : List Var} (he : SumND e) (hr : r.Nodup) : SumND (sumSimplify e r) := by
  unfold sumSimplify
  split
  · simp only []
    split
    · exact ⟨he, hr⟩
    split
    · simp [SumND]
    · split
      · simp only [SumND, true_and]
        exact hr.sublist List.filter_sublist
      · split
        · simp only [SumND]
        · simp only [SumND, true_and]
          exact hr.sublist List.filter_sublist
  · exact ⟨he, hr⟩

theorem sortVars_nodup_aux (vs : List Var) : (sortVars vs).Nodup :=
  (nd_ssort_perm _ _).nodup_iff.2 (nodup_dedup vs)

theorem nd_sumSafe {e : Expr} {r : List Var} (s : Bool) (he : SumND e) : SumND (sumSafe e r s) := by
  unfold sumSafe
  simp only []
  split
  · exact he
  · split
    · exact he
    · split
      · exact nd_sumSimplify he (sortVars_nodup_aux r)
      · exact ⟨he, sortVars_nodup_aux r⟩

theorem ndList_cons {e : Expr} {es : List Expr} (he : SumND e) (hes : SumNDList es) : SumNDList (e :: es) := ⟨he, hes⟩

theorem ndList_append {as bs : List Expr} (ha : SumNDList as) (hb : SumNDList bs) : SumNDList (as ++ bs) := by
  rw [sumNDList_iff] at *
  intro e he; rcases List.mem_append.1 he with h | h
  · exact ha e h
  · exact hb e h
theorem nd_mulF : ∀ (fuel : Nat) {a b e : Expr}, SumND a → SumND b → mulF fuel a b = .ok e → SumND e := by
  intro fuel
  induction fuel with
  | zero => intro a b e _ _ h; simp [mulF] at h
  | succ fuel ih =>
    intro a b e ha hb h
    unfold mulF at h
    -- a generic step for the `Fraction(x * n, d)` shape
    have fracStep : ∀ {x n d : Expr}, SumND x → SumND n → SumND d →
        (do mkFrac (← mulF fuel x n) d) = Except.ok e → SumND e := by
      intro x n d hx hn hd h
      cases hm : mulF fuel x n with
      | error err => simp [hm, bind, Except.bind] at h
      | ok m =>
        simp [hm, bind, Except.bind] at h
        exact nd_mkFrac (ih hx hn hm) hd h
    cases a with
    | one => simp at h; cases h; exact hb
    | zero => simp at h; cases h; trivial
    | prob pop c p =>
      cases b with
      | zero => simp at h; cases h; trivial
      | one => simp at h; cases h; exact ha
      | prod gs => simp at h; cases h; exact nd_productSafe (ndList_cons ha hb)
      | frac n d => simp only [] at h; exact fracStep ha hb.1 hb.2 h
      | prob _ _ _ => simp at h; cases h; exact nd_productSafe ⟨ha, hb, trivial⟩
      | sum _ _ => simp at h; cases h; exact nd_productSafe ⟨ha, hb, trivial⟩
      | q _ _ => simp at h; cases h; exact nd_productSafe ⟨ha, hb, trivial⟩
    | prod fs =>
      cases b with
      | zero => simp at h; cases h; trivial
      | prod gs => simp at h; cases h; exact nd_productSafe (ndList_append ha hb)
      | frac n d => simp only [] at h; exact fracStep ha hb.1 hb.2 h
      | one => simp at h; cases h; exact nd_productSafe (ndList_append ha ⟨hb, trivial⟩)
      | prob _ _ _ => simp at h; cases h; exact nd_productSafe (ndList_append ha ⟨hb, trivial⟩)
      | sum _ _ => simp at h; cases h; exact nd_productSafe (ndList_append ha ⟨hb, trivial⟩)
      | q _ _ => simp at h; cases h; exact nd_productSafe (ndList_append ha ⟨hb, trivial⟩)
    | sum s r =>
      cases b with
      | zero => simp at h; cases h; trivial
      | prod gs => simp at h; cases h; exact nd_productSafe (ndList_cons ha hb)
      | one => simp at h; cases h; exact nd_productSafe ⟨ha, hb, trivial⟩
      | frac _ _ => simp at h; cases h; exact nd_productSafe ⟨ha, hb, trivial⟩
      | prob _ _ _ => simp at h; cases h; exact nd_productSafe ⟨ha, hb, trivial⟩
      | sum _ _ => simp at h; cases h; exact nd_productSafe ⟨ha, hb, trivial⟩
      | q _ _ => simp at h; cases h; exact nd_productSafe ⟨ha, hb, trivial⟩
    | frac n d =>
      have other : ∀ {b : Expr}, SumND b → (do mkFrac (← mulF fuel n b) d) = Except.ok e → SumND e :=
        fun hb' h => fracStep ha.1 hb' ha.2 h
      cases b with
      | zero => simp at h; cases h; trivial
      | frac n' d' =>
        simp only [] at h
        cases h1 : mulF fuel n n' with
        | error err => simp [h1, bind, Except.bind] at h
        | ok m1 =>
          cases h2 : mulF fuel d d' with
          | error err => simp [h1, h2, bind, Except.bind] at h
          | ok m2 =>
            simp [h1, h2, bind, Except.bind] at h
            exact nd_mkFrac (ih ha.1 hb.1 h1) (ih ha.2 hb.2 h2) h
      | one => exact other hb h
      | prob _ _ _ => exact other hb h
      | prod _ => exact other hb h
      | sum _ _ => exact other hb h
      | q _ _ => exact other hb h
    | q dm cd =>
      cases b with
      | zero => simp at h; cases h; trivial
      | one => simp at h; cases h; exact ha
      | prod gs => simp at h; cases h; exact nd_productSafe (ndList_cons ha hb)
      | frac _ _ => simp at h; cases h; exact nd_productSafe ⟨ha, hb, trivial⟩
      | prob _ _ _ => simp at h; cases h; exact nd_productSafe ⟨ha, hb, trivial⟩
      | sum _ _ => simp at h; cases h; exact nd_productSafe ⟨ha, hb, trivial⟩
      | q _ _ => simp at h; cases h; exact nd_productSafe ⟨ha, hb, trivial⟩

theorem nd_mul {a b e : Expr} (ha : SumND a) (hb : SumND b) (h : mul a b = .ok e) : SumND e :=
  nd_mulF _ ha hb h

theorem nd_truediv {a b e : Expr} (ha : SumND a) (hb : SumND b) (h : truediv a b = .ok e) : SumND e := by
  unfold truediv at h
  have base : ∀ {a : Expr}, SumND a →
      (match b with
        | .one => Except.ok a
        | .frac n' d' => do mkFrac (← mul a d') n'
        | _ => mkFrac a b) = Except.ok e → SumND e := by
    intro a ha h
    cases b with
    | one => simp at h; cases h; exact ha
    | frac n' d' =>
      simp only [] at h
      cases hm : mul a d' with
      | error err => simp [hm, bind, Except.bind] at h
      | ok m => simp [hm, bind, Except.bind] at h; exact nd_mkFrac (nd_mul ha hb.2 hm) hb.1 h
    | zero => exact nd_mkFrac ha hb h
    | prob _ _ _ => exact nd_mkFrac ha hb h
    | prod _ => exact nd_mkFrac ha hb h
    | sum _ _ => exact nd_mkFrac ha hb h
    | q _ _ => exact nd_mkFrac ha hb h
  cases a with
  | zero => simp only [] at h; split at h <;> cases h; trivial
  | frac n d =>
    have fr : ∀ {b : Expr}, SumND b → (do mkFrac n (← mul d b)) = Except.ok e → SumND e := by
      intro b hb h
      cases hm : mul d b with
      | error err => simp [hm, bind, Except.bind] at h
      | ok m => simp [hm, bind, Except.bind] at h; exact nd_mkFrac ha.1 (nd_mul ha.2 hb hm) h
    cases b with
    | one => simp at h; cases h; exact ha
    | frac n' d' =>
      simp only [] at h
      cases h1 : mul n d' with
      | error err => simp [h1, bind, Except.bind] at h
      | ok m1 =>
        cases h2 : mul d n' with
        | error err => simp [h1, h2, bind, Except.bind] at h
        | ok m2 =>
          simp [h1, h2, bind, Except.bind] at h
          exact nd_mkFrac (nd_mul ha.1 hb.2 h1) (nd_mul ha.2 hb.1 h2) h
    | zero => exact fr hb h
    | prob _ _ _ => exact fr hb h
    | prod _ => exact fr hb h
    | sum _ _ => exact fr hb h
    | q _ _ => exact fr hb h
  | one => exact base ha h
  | prob _ _ _ => exact base ha h
  | prod _ => exact base ha h
  | sum _ _ => exact base ha h
  | q _ _ => exact base ha h

theorem nd_cancelParts : ∀ (num den : List Expr), SumNDList num → SumNDList den →
    SumNDList (cancelParts num den).1 ∧ SumNDList (cancelParts num den).2 := by
  intro num
  induction num with
  | nil => intro den _ hd; exact ⟨trivial, hd⟩
  | cons n ns ih =>
    intro den hn hd
    unfold cancelParts
    split
    · rename_i j _
      refine ih _ hn.2 ?_
      rw [sumNDList_iff] at hd ⊢
      intro e he; exact hd e (List.mem_of_mem_eraseIdx he)
    · have := ih den hn.2 hd
      exact ⟨⟨hn.1, this.1⟩, this.2⟩

theorem nd_simplifyParts {num den : List Expr} {e : Expr} (hn : SumNDList num) (hd : SumNDList den)
    (h : simplifyParts num den = .ok e) : SumND e := by
  unfold simplifyParts at h
  have hc := nd_cancelParts num den hn hd
  generalize cancelParts num den = c at h hc
  obtain ⟨n, d⟩ := c
  simp only [] at h hc
  split at h
  · exact nd_mkFrac (nd_productSafe hc.1) (nd_productSafe hc.2) h
  · split at h
    · cases h; exact nd_productSafe hc.1
    · split at h
      · exact nd_truediv (a := .one) trivial (nd_productSafe hc.2) h
      · cases h; trivial

theorem nd_fracSimplifyF : ∀ (fuel : Nat) {n d e : Expr}, SumND n → SumND d → fracSimplifyF fuel n d = .ok e → SumND e := by
  intro fuel
  induction fuel with
  | zero => intro n d e _ _ h; simp [fracSimplifyF] at h
  | succ fuel ih =>
    intro n d e hn hd h
    unfold fracSimplifyF at h
    split at h
    · cases h; exact hn
    · split at h
      · cases h; exact hn
      · split at h
        · split at h
          · rename_i n' d'
            split at h
            · cases h
            · exact ih hd.2 hd.1 h
          · cases h; exact ⟨hn, hd⟩
        · split at h
          · cases h; trivial
          · split at h
            · exact nd_simplifyParts hn hd h
            · exact nd_simplifyParts hn (ndList_cons hd (by simp [SumNDList])) h
            · exact nd_simplifyParts (ndList_cons hn (by simp [SumNDList])) hd h
            · cases h; exact ⟨hn, hd⟩

theorem nd_fracSimplify {n d e : Expr} (hn : SumND n) (hd : SumND d) (h : fracSimplify n d = .ok e) : SumND e :=
  nd_fracSimplifyF _ hn hd h

theorem nd_simplifyCast {x e : Expr} (hx : SumND x) (h : simplifyCast x = .ok e) : SumND e := by
  unfold simplifyCast at h
  split at h
  · exact nd_fracSimplify hx.1 hx.2 h
  · cases h; exact nd_sumSimplify hx.1 hx.2
  · cases h

mutual
theorem ndList_flattenExprs : ∀ (es : List Expr), SumNDList es → SumNDList (flattenExprs es)
  | [], _ => by simp [flattenExprs, SumNDList]
  | e :: es, h => by
    simp only [flattenExprs]
    exact ndList_append (ndList_flattenExpr e h.1) (ndList_flattenExprs es h.2)
theorem ndList_flattenExpr : ∀ (e : Expr), SumND e → SumNDList (flattenExpr e)
  | .prod gs, h => by simp only [flattenExpr]; exact ndList_flattenExprs gs h
  | .prob _ _ _, h => by simp only [flattenExpr]; exact ⟨h, trivial⟩
  | .sum _ _, h => by simp only [flattenExpr]; exact ⟨h, trivial⟩
  | .frac _ _, h => by simp only [flattenExpr]; exact ⟨h, trivial⟩
  | .one, h => by simp only [flattenExpr]; exact ⟨h, trivial⟩
  | .zero, h => by simp only [flattenExpr]; exact ⟨h, trivial⟩
  | .q _ _, h => by simp only [flattenExpr]; exact ⟨h, trivial⟩
end

theorem nd_postFrac {e : Expr} (h : SumND e) : SumND (postFrac e) := by
  unfold postFrac
  split
  · split
    · exact h.1
    · split
      · trivial
      · exact h
  · exact h

mutual
/-- `canonicalize` keeps the ranges duplicate free -/
theorem nd_canon : ∀ (x : Expr) (e : Expr), SumND x → canon x = .ok e → SumND e
  | .prob pop c p, e, hx, h => by
    simp [canon] at h; cases h
    trivial
  | .prod fs, e, hx, h => by
    simp only [canon, bind, Except.bind] at h
    split at h
    · cases h
    · rename_i es hes; cases h; exact nd_productSafe (ndList_flattenExprs es (nd_canonFlat fs es hx hes))
  | .sum x r, e, hx, h => by
    simp only [canon, bind, Except.bind] at h
    split at h
    · cases h
    · rename_i x' hx'; cases h; exact nd_sumSafe true (nd_canon x x' hx.1 hx')
  | .frac n d, e, hx, h => by
    simp only [canon, bind, Except.bind] at h
    split at h
    · cases h
    · rename_i n' hn'
      split at h
      · cases h
      · rename_i d' hd'
        simp only [pure, Except.pure] at h
        split at h
        · have he : n' = e := Except.ok.inj h
          subst he; exact nd_canon n n' hx.1 hn'
        · split at h
          · cases h; trivial
          · split at h
            · cases h
            · rename_i rv hrv
              cases h
              exact nd_postFrac (nd_truediv (nd_canon n n' hx.1 hn') (nd_canon d d' hx.2 hd') hrv)
  | .one, e, _, h => by simp [canon] at h; cases h; trivial
  | .zero, e, _, h => by simp [canon] at h; cases h; trivial
  | .q _ _, e, _, h => by simp [canon] at h
theorem nd_canonFlat : ∀ (xs es : List Expr), SumNDList xs → canonFlat xs = .ok es → SumNDList es
  | [], es, _, h => by simp [canonFlat] at h; cases h; trivial
  | .prod gs :: xs, es, hx, h => by
    simp only [canonFlat, bind, Except.bind] at h
    split at h
    · cases h
    · rename_i gs' hgs
      split at h
      · cases h
      · rename_i xs' hxs
        cases h
        exact ndList_append (nd_canonFlat gs gs' hx.1 hgs) (nd_canonFlat xs xs' hx.2 hxs)
  | .prob pop c p :: xs, es, hx, h => by
    simp only [canonFlat, bind, Except.bind] at h
    split at h
    · cases h
    · rename_i x' hx'
      split at h
      · cases h
      · rename_i xs' hxs
        cases h
        exact ⟨nd_canon _ x' hx.1 hx', nd_canonFlat xs xs' hx.2 hxs⟩
  | .sum x r :: xs, es, hx, h => by
    simp only [canonFlat, bind, Except.bind] at h
    split at h
    · cases h
    · rename_i x' hx'
      split at h
      · cases h
      · rename_i xs' hxs
        cases h
        exact ⟨nd_canon _ x' hx.1 hx', nd_canonFlat xs xs' hx.2 hxs⟩
  | .frac n d :: xs, es, hx, h => by
    simp only [canonFlat, bind, Except.bind] at h
    split at h
    · cases h
    · rename_i x' hx'
      split at h
      · cases h
      · rename_i xs' hxs
        cases h
        exact ⟨nd_canon _ x' hx.1 hx', nd_canonFlat xs xs' hx.2 hxs⟩
  | .one :: xs, es, hx, h => by
    simp only [canonFlat, bind, Except.bind] at h
    split at h
    · cases h
    · rename_i x' hx'
      split at h
      · cases h
      · rename_i xs' hxs
        cases h
        exact ⟨nd_canon _ x' hx.1 hx', nd_canonFlat xs xs' hx.2 hxs⟩
  | .zero :: xs, es, hx, h => by
    simp only [canonFlat, bind, Except.bind] at h
    split at h
    · cases h
    · rename_i x' hx'
      split at h
      · cases h
      · rename_i xs' hxs
        cases h
        exact ⟨nd_canon _ x' hx.1 hx', nd_canonFlat xs xs' hx.2 hxs⟩
  | .q a b :: xs, es, hx, h => by
    simp only [canonFlat, bind, Except.bind] at h
    split at h
    · cases h
    · rename_i x' hx'
      split at h
      · cases h
      · rename_i xs' hxs
        cases h
        exact ⟨nd_canon _ x' hx.1 hx', nd_canonFlat xs xs' hx.2 hxs⟩
end

theorem nd_canonicalize {x e : Expr} (hx : SumND x) (h : canonicalize x = .ok e) : SumND e :=
  nd_canon x e hx h

theorem nd_c14nSafe {x e : Option Expr} (hx : ∀ a, x = some a → SumND a)
    (h : c14nSafe x = .ok e) : ∀ a, e = some a → SumND a := by
  unfold c14nSafe at h
  cases x with
  | none => simp at h; cases h; intro a ha; cases ha
  | some x0 =>
    simp only [bind, Except.bind] at h
    split at h
    · cases h
    · rename_i e0 he0
      simp [pure, Except.pure] at h; cases h
      intro a ha; cases ha
      exact nd_canonicalize (hx x0 rfl) he0


mutual
theorem nd_activate (zs : List Name) (d : Pop) : ∀ (e e' : Expr), SumND e → activate zs d e = .ok e' → SumND e'
  | .prob none c p, e', _, h => by simp [activate] at h
  | .prob (some pop) c p, e', _, h => by
    simp only [activate] at h
    split at h
    · simp [pure, Except.pure] at h; subst h; trivial
    · obtain ⟨c', hc', h⟩ := bind_ok h
      obtain ⟨p', hp', h⟩ := bind_ok h
      simp [pure, Except.pure] at h; subst h
      trivial
  | .sum e r, e', hr, h => by
    simp only [activate] at h
    obtain ⟨a, ha, h⟩ := bind_ok h
    simp [pure, Except.pure] at h; subst h
    exact nd_sumSafe false (nd_activate zs d e a hr.1 ha)
  | .frac n dn, e', hr, h => by
    simp only [activate] at h
    obtain ⟨n', hn', h⟩ := bind_ok h
    obtain ⟨d', hd', h⟩ := bind_ok h
    obtain ⟨t, ht, h⟩ := bind_ok h
    have hwt : SumND t :=
      nd_truediv (nd_activate zs d n n' hr.1 hn') (nd_activate zs d dn d' hr.2 hd') ht
    split at h
    · exact nd_fracSimplify hwt.1 hwt.2 h
    · simp [pure, Except.pure] at h; subst h; exact hwt
  | .prod fs, e', hr, h => by
    simp only [activate] at h
    obtain ⟨fs', hfs', h⟩ := bind_ok h
    simp [pure, Except.pure] at h; subst h
    exact nd_productSafe (nd_activateList zs d fs fs' hr hfs')
  | .one, e', _, h => by simp [activate] at h
  | .zero, e', _, h => by simp [activate] at h
  | .q _ _, e', _, h => by simp [activate] at h
theorem nd_activateList (zs : List Name) (d : Pop) :
    ∀ (es es' : List Expr), SumNDList es → activate.activateList zs d es = .ok es' → SumNDList es'
  | [], es', _, h => by simp [activate.activateList] at h; subst h; trivial
  | e :: es, es', hr, h => by
    simp only [activate.activateList] at h
    obtain ⟨a, ha, h⟩ := bind_ok h
    obtain ⟨as, has, h⟩ := bind_ok h
    simp [pure, Except.pure] at h; subst h
    exact ⟨nd_activate zs d e a hr.1 ha, nd_activateList zs d es as hr.2 has⟩
end

theorem nd_ratioParts {e : Expr} (o : List Name) (i : Nat) (he : SumND e) :
    SumND (ratioParts e o i).1 ∧ SumND (ratioParts e o i).2 := by
  unfold ratioParts
  exact ⟨nd_sumSafe false he, nd_sumSafe false he⟩

end TrsoAux

open TrsoAux

/-! ### the statements -/

theorem sortVars_nodup (vs : List Var) : (sortVars vs).Nodup := sortVars_nodup_aux vs

theorem plainVars_nodup (ns : List Name) : (plainVars ns).Nodup := sortVars_nodup _

theorem sumND_productSafe {es : List Expr} (h : ∀ e ∈ es, SumND e) : SumND (productSafe es) :=
  nd_productSafe ((sumNDList_iff es).2 h)

theorem sumND_mkFrac {n d e : Expr} (hn : SumND n) (hd : SumND d) (h : mkFrac n d = .ok e) : SumND e :=
  nd_mkFrac hn hd h

theorem sumND_mul {a b e : Expr} (ha : SumND a) (hb : SumND b) (h : mul a b = .ok e) : SumND e :=
  nd_mul ha hb h

theorem sumND_truediv {a b e : Expr} (ha : SumND a) (hb : SumND b) (h : truediv a b = .ok e) : SumND e :=
  nd_truediv ha hb h

theorem sumND_fracSimplify {n d e : Expr} (hn : SumND n) (hd : SumND d) (h : fracSimplify n d = .ok e) : SumND e :=
  nd_fracSimplify hn hd h

theorem sumND_sumSimplify {e : Expr} {rs : List Var} (he : SumND e) (hr : rs.Nodup) : SumND (sumSimplify e rs) :=
  nd_sumSimplify he hr

theorem sumND_sumSafe {e : Expr} {rs : List Var} (b : Bool) (he : SumND e) : SumND (sumSafe e rs b) :=
  nd_sumSafe b he

theorem sumND_simplifyCast {x e : Expr} (hx : SumND x) (h : simplifyCast x = .ok e) : SumND e :=
  nd_simplifyCast hx h

theorem sumND_postFrac {e : Expr} (h : SumND e) : SumND (postFrac e) := nd_postFrac h

theorem sumNDList_flattenExprs {es : List Expr} (h : ∀ e ∈ es, SumND e) : ∀ e ∈ flattenExprs es, SumND e :=
  (sumNDList_iff _).1 (ndList_flattenExprs es ((sumNDList_iff es).2 h))

theorem sumND_canon {e e' : Expr} (he : SumND e) (h : canon e = .ok e') : SumND e' := nd_canon e e' he h

theorem sumND_canonicalize {e e' : Expr} (he : SumND e) (h : canonicalize e = .ok e') : SumND e' := sumND_canon he h

theorem sumND_c14nSafe {x y : Option Expr} (hx : ∀ a, x = some a → SumND a) (h : c14nSafe x = .ok y) :
    ∀ b, y = some b → SumND b := nd_c14nSafe hx h

theorem sumND_activate {zs : List Name} {d : Pop} {e e' : Expr} (he : SumND e) (h : activate zs d e = .ok e') :
    SumND e' := nd_activate zs d e e' he h

/-! ### the expression-building blocks of TRSO -/

theorem sumND_retag {dom : Pop} {e e' : Expr} (he : SumND e) (h : retag dom e = .ok e') : SumND e' := by
  unfold retag at h
  split at h
  · cases h; trivial
  · cases h
  · cases h; exact he

theorem sumND_line1 {Y : List Name} {e : Expr} {G : MG Name} (he : SumND e) : SumND (line1 Y e G) :=
  sumND_sumSafe false he

/-- the carried expression after line 2 -/
theorem sumND_line2 {q q' : Query} {anc : List Name} (he : SumND q.expr) (h : line2 q anc = .ok q') : SumND q'.expr := by
  unfold line2 at h
  obtain ⟨graphs, _, h⟩ := bind_ok h
  obtain ⟨g, _, h⟩ := bind_ok h
  obtain ⟨e2, he2, h⟩ := bind_ok h
  simp [pure, Except.pure] at h; subst h
  exact sumND_retag (nd_sumSafe true he) he2

theorem sumND_line9 {q : Query} {G : MG Name} {c : List Name} {e : Expr} (he : SumND q.expr) (h : line9 q G c = .ok e) :
    SumND e := by
  unfold line9 at h
  split at h
  · cases h
  · obtain ⟨order, _, h⟩ := bind_ok h
    obtain ⟨prod, hprod, h⟩ := bind_ok h
    obtain ⟨prod', hprod', h⟩ := bind_ok h
    simp [pure, Except.pure] at h; subst h
    have hstepok : ∀ (acc : Expr) (node : Name) (acc' : Expr), SumND acc →
        (do let i ← indexOf? order node
            let fr ← truediv (ratioParts q.expr order i).1 (ratioParts q.expr order i).2
            mul acc fr) = Except.ok acc' → SumND acc' := by
      intro acc node acc' hacc hs
      obtain ⟨i, _, hs⟩ := bind_ok hs
      have hp := nd_ratioParts order i he
      obtain ⟨fr, hfr, hs⟩ := bind_ok hs
      exact nd_mul hacc (nd_truediv hp.1 hp.2 hfr) hs
    have hP : SumND prod := foldlM_inv (fun x => SumND x) hprod trivial
      (fun acc a acc' _ hacc hs => hstepok acc a acc' hacc hs)
    exact nd_sumSafe false (nd_simplifyCast hP hprod')

theorem sumND_line10 {q q' : Query} {G : MG Name} {c : List Name} {s : List (Pop × List Name)} (he : SumND q.expr)
    (h : line10 q G c s = .ok q') : SumND q'.expr := by
  unfold line10 at h
  obtain ⟨order, _, h⟩ := bind_ok h
  simp only [] at h
  obtain ⟨factors, hfac, h⟩ := bind_ok h
  obtain ⟨e', he', h⟩ := bind_ok h
  simp [pure, Except.pure] at h; subst h
  simp only []
  refine sumND_canonicalize (sumND_productSafe ?_) he'
  intro f hf
  obtain ⟨node, _, hnode⟩ := mapM_ok hfac f hf
  unfold line10Factor at hnode
  obtain ⟨i, _, hnode⟩ := bind_ok hnode
  split at hnode
  · simp [pure, Except.pure] at hnode; subst hnode; trivial
  · have hp := nd_ratioParts order i he
    exact nd_truediv hp.1 hp.2 hnode

end Trso
end Y0
