/-
  Y0.Lemmas.DslEq — `Expr.eqb` (the model of dataclass `==`) decides equality.
-/
import Y0.Model.Dsl

namespace Y0

mutual
theorem Expr.eqb_sound : ∀ (a b : Expr), Expr.eqb a b = true → a = b
  | .prob p1 c1 a1, .prob p2 c2 a2, h => by
    simp only [Expr.eqb, Bool.and_eq_true, decide_eq_true_eq] at h
    obtain ⟨⟨h1, h2⟩, h3⟩ := h
    subst h1 h2 h3; rfl
  | .prod f, .prod g, h => by
    simp only [Expr.eqb] at h
    rw [Expr.eqbList_sound f g h]
  | .sum e r, .sum e' r', h => by
    simp only [Expr.eqb, Bool.and_eq_true, decide_eq_true_eq] at h
    rw [Expr.eqb_sound e e' h.1, h.2]
  | .frac n d, .frac n' d', h => by
    simp only [Expr.eqb, Bool.and_eq_true] at h
    rw [Expr.eqb_sound n n' h.1, Expr.eqb_sound d d' h.2]
  | .one, .one, _ => rfl
  | .zero, .zero, _ => rfl
  | .q d c, .q d' c', h => by
    simp only [Expr.eqb, Bool.and_eq_true, decide_eq_true_eq] at h
    rw [h.1, h.2]
  | .prob _ _ _, .prod _, h | .prob _ _ _, .sum _ _, h | .prob _ _ _, .frac _ _, h | .prob _ _ _, .one, h
  | .prob _ _ _, .zero, h | .prob _ _ _, .q _ _, h => by simp [Expr.eqb] at h
  | .prod _, .prob _ _ _, h | .prod _, .sum _ _, h | .prod _, .frac _ _, h | .prod _, .one, h
  | .prod _, .zero, h | .prod _, .q _ _, h => by simp [Expr.eqb] at h
  | .sum _ _, .prob _ _ _, h | .sum _ _, .prod _, h | .sum _ _, .frac _ _, h | .sum _ _, .one, h
  | .sum _ _, .zero, h | .sum _ _, .q _ _, h => by simp [Expr.eqb] at h
  | .frac _ _, .prob _ _ _, h | .frac _ _, .prod _, h | .frac _ _, .sum _ _, h | .frac _ _, .one, h
  | .frac _ _, .zero, h | .frac _ _, .q _ _, h => by simp [Expr.eqb] at h
  | .one, .prob _ _ _, h | .one, .prod _, h | .one, .sum _ _, h | .one, .frac _ _, h
  | .one, .zero, h | .one, .q _ _, h => by simp [Expr.eqb] at h
  | .zero, .prob _ _ _, h | .zero, .prod _, h | .zero, .sum _ _, h | .zero, .frac _ _, h
  | .zero, .one, h | .zero, .q _ _, h => by simp [Expr.eqb] at h
  | .q _ _, .prob _ _ _, h | .q _ _, .prod _, h | .q _ _, .sum _ _, h | .q _ _, .frac _ _, h
  | .q _ _, .one, h | .q _ _, .zero, h => by simp [Expr.eqb] at h
theorem Expr.eqbList_sound : ∀ (a b : List Expr), Expr.eqbList a b = true → a = b
  | [], [], _ => rfl
  | x :: xs, y :: ys, h => by
    simp only [Expr.eqbList, Bool.and_eq_true] at h
    rw [Expr.eqb_sound x y h.1, Expr.eqbList_sound xs ys h.2]
  | [], _ :: _, h => by simp [Expr.eqbList] at h
  | _ :: _, [], h => by simp [Expr.eqbList] at h
end

mutual
theorem Expr.eqb_refl : ∀ (a : Expr), Expr.eqb a a = true
  | .prob _ _ _ => by simp [Expr.eqb]
  | .prod f => by simp only [Expr.eqb]; exact Expr.eqbList_refl f
  | .sum e _ => by simp [Expr.eqb, Expr.eqb_refl e]
  | .frac n d => by simp [Expr.eqb, Expr.eqb_refl n, Expr.eqb_refl d]
  | .one => rfl
  | .zero => rfl
  | .q _ _ => by simp [Expr.eqb]
theorem Expr.eqbList_refl : ∀ (a : List Expr), Expr.eqbList a a = true
  | [] => rfl
  | x :: xs => by simp [Expr.eqbList, Expr.eqb_refl x, Expr.eqbList_refl xs]
end

theorem Expr.eqb_iff {a b : Expr} : Expr.eqb a b = true ↔ a = b :=
  ⟨Expr.eqb_sound a b, fun h => h ▸ Expr.eqb_refl a⟩

end Y0
