/-
  Y0.Lemmas.HedgeNonIdPeel — the arithmetic core of the hedge construction (Shpitser & Pearl 2006, Thm 4).

  Functions on `Z₂` are written in Fourier coordinates: the pair `g = (s, t)` stands for `c ↦ (s + (-1)^c t) / 2`
  (`ev g c`); convolution over `Z₂` is then the componentwise product of pairs, which is the monoid structure of `ℚ × ℚ`.

  `peel`: let a tree on the nodes `nodesOf es root` be given by a construction sequence `es` (the head `(c, p)` hangs the
  new leaf `c` on the older node `p`), with one binary variable `L c` per tree edge.  If node `i` contributes the factor
  `ev (g i) (e i + Σ_{edges at i} u)`, then summing all edge variables out leaves `ev (Π g i) (Σ e i)`:
  only the total parity survives.
-/
import Y0.Lemmas.Prob
import Mathlib.Tactic.Ring
import Mathlib.Tactic.Linarith
import Mathlib.Algebra.BigOperators.Group.List.Basic

namespace Y0
namespace NonId

/-- `(-1)^c` -/
def sgn (c : Nat) : Rat := if c % 2 = 0 then 1 else -1

/-- the function on `Z₂` with Fourier coordinates `g`, at `c mod 2` -/
def ev (g : Rat × Rat) (c : Nat) : Rat := (g.1 + sgn c * g.2) / 2

theorem sgn_add (a b : Nat) : sgn (a + b) = sgn a * sgn b := by
  unfold sgn
  rcases Nat.mod_two_eq_zero_or_one a with ha | ha <;> rcases Nat.mod_two_eq_zero_or_one b with hb | hb <;>
    simp [Nat.add_mod, ha, hb]

theorem sgn_zero : sgn 0 = 1 := by simp [sgn]
theorem sgn_one : sgn 1 = -1 := by simp [sgn]

theorem sgn_congr {a b : Nat} (h : a % 2 = b % 2) : sgn a = sgn b := by unfold sgn; rw [h]

theorem ev_congr (g : Rat × Rat) {a b : Nat} (h : a % 2 = b % 2) : ev g a = ev g b := by
  unfold ev; rw [sgn_congr h]

/-- summing a shared bit out of two factors convolves them -/
theorem ev_pair (g h : Rat × Rat) (c d : Nat) :
    ev g (c + 0) * ev h (d + 0) + ev g (c + 1) * ev h (d + 1) = ev (g * h) (c + d) := by
  simp only [ev, sgn_add, sgn_zero, sgn_one, Prod.fst_mul, Prod.snd_mul]
  ring

/-- the constant function 1 -/
theorem ev_const (c : Nat) : ev (2, 0) c = 1 := by simp [ev]

/-! ### products over a duplicate-free list with one distinguished member -/

theorem prod_map_ite_not_mem {M : Type} [CommMonoid M] (l : List Name) (p : Name) (A : M) (B : Name → M) (h : p ∉ l) :
    (l.map fun i => if i = p then A else B i).prod = (l.map B).prod := by
  congr 1
  apply List.map_congr_left
  intro i hi
  rw [if_neg (fun h' : i = p => h (h' ▸ hi))]

theorem prod_map_ite {M : Type} [CommMonoid M] (l : List Name) (hl : l.Nodup) (p : Name) (hp : p ∈ l) (A : M)
    (B : Name → M) : (l.map fun i => if i = p then A else B i).prod = A * (l.map fun i => if i = p then 1 else B i).prod := by
  induction l with
  | nil => cases hp
  | cons a l ih =>
    have hnd := List.nodup_cons.mp hl
    simp only [List.map_cons, List.prod_cons]
    by_cases ha : a = p
    · subst ha
      simp only [if_true, one_mul]
      rw [prod_map_ite_not_mem l a A B hnd.1, prod_map_ite_not_mem l a 1 B hnd.1]
    · have hp' : p ∈ l := by
        rcases List.mem_cons.mp hp with h | h
        · exact absurd h.symm ha
        · exact h
      rw [if_neg ha, if_neg ha, ih hnd.2 hp']
      rw [mul_left_comm]

theorem prod_map_ite_mul {M : Type} [CommMonoid M] (l : List Name) (hl : l.Nodup) (p : Name) (hp : p ∈ l) (A : M)
    (B : Name → M) : (l.map fun i => if i = p then A * B i else B i).prod = A * (l.map B).prod := by
  induction l with
  | nil => cases hp
  | cons a l ih =>
    have hnd := List.nodup_cons.mp hl
    simp only [List.map_cons, List.prod_cons]
    by_cases ha : a = p
    · subst ha
      simp only [if_true]
      have : (l.map fun i => if i = a then A * B i else B i) = l.map B := by
        apply List.map_congr_left
        intro i hi
        rw [if_neg (fun h' : i = a => hnd.1 (h' ▸ hi))]
      rw [this, mul_assoc]
    · have hp' : p ∈ l := by
        rcases List.mem_cons.mp hp with h | h
        · exact absurd h.symm ha
        · exact h
      rw [if_neg ha, ih hnd.2 hp', mul_left_comm]

theorem sum_map_ite_add (l : List Name) (hl : l.Nodup) (p : Name) (hp : p ∈ l) (A : Nat) (B : Name → Nat) :
    (l.map fun i => if i = p then A + B i else B i).sum = A + (l.map B).sum := by
  induction l with
  | nil => cases hp
  | cons a l ih =>
    have hnd := List.nodup_cons.mp hl
    simp only [List.map_cons, List.sum_cons]
    by_cases ha : a = p
    · subst ha
      simp only [if_true]
      have : (l.map fun i => if i = a then A + B i else B i) = l.map B := by
        apply List.map_congr_left
        intro i hi
        rw [if_neg (fun h' : i = a => hnd.1 (h' ▸ hi))]
      rw [this, Nat.add_assoc]
    · have hp' : p ∈ l := by
        rcases List.mem_cons.mp hp with h | h
        · exact absurd h.symm ha
        · exact h
      rw [if_neg ha, ih hnd.2 hp']
      omega

theorem prod_map_ite_mul' {M : Type} [CommMonoid M] (l : List Name) (hl : l.Nodup) (p : Name) (hp : p ∈ l) (A : M)
    (B : Name → M) : (l.map fun i => if i = p then A * B p else B i).prod = A * (l.map B).prod := by
  rw [← prod_map_ite_mul l hl p hp A B]
  refine congrArg List.prod (List.map_congr_left ?_)
  intro i _
  by_cases h : i = p
  · subst h; rfl
  · simp [h]

theorem sum_map_ite_add' (l : List Name) (hl : l.Nodup) (p : Name) (hp : p ∈ l) (A : Nat) (B : Name → Nat) :
    (l.map fun i => if i = p then A + B p else B i).sum = A + (l.map B).sum := by
  rw [← sum_map_ite_add l hl p hp A B]
  refine congrArg List.sum (List.map_congr_left ?_)
  intro i _
  by_cases h : i = p
  · subst h; rfl
  · simp [h]

/-! ### construction sequences of trees -/

/-- nodes of the tree built by `es` from `root`: the head of `es` is the leaf added last -/
def nodesOf (es : List (Name × Name)) (root : Name) : List Name := es.map Prod.fst ++ [root]

/-- `es` builds a tree from `root`: every step `(c, p)` hangs a new node `c` on a node `p` already present -/
def TreeSeq (root : Name) : List (Name × Name) → Prop
  | [] => True
  | e :: rest => TreeSeq root rest ∧ e.2 ∈ nodesOf rest root ∧ e.1 ∉ nodesOf rest root

/-- the edge variables: one per step, named after the node the step adds -/
def latsOf (L : Name → Name) (es : List (Name × Name)) : List Name := es.map fun e => L e.1

/-- the edge variables at node `i` -/
def latOfT (L : Name → Name) (es : List (Name × Name)) (i : Name) : List Name :=
  (es.filter fun e => e.1 = i ∨ e.2 = i).map fun e => L e.1

def NatIndep (e : Val → Nat) (u : Name) : Prop := ∀ (τ : Val) (k : Nat), e (τ.set u k) = e τ

theorem nodesOf_cons (e : Name × Name) (rest : List (Name × Name)) (root : Name) :
    nodesOf (e :: rest) root = e.1 :: nodesOf rest root := rfl

theorem TreeSeq.nodup {root : Name} : ∀ {es : List (Name × Name)}, TreeSeq root es → (nodesOf es root).Nodup
  | [], _ => by simp [nodesOf]
  | e :: rest, h => by
    rw [nodesOf_cons]
    exact List.nodup_cons.mpr ⟨h.2.2, TreeSeq.nodup h.1⟩

theorem TreeSeq.mem {root : Name} : ∀ {es : List (Name × Name)}, TreeSeq root es →
    ∀ e ∈ es, e.1 ∈ nodesOf es root ∧ e.2 ∈ nodesOf es root
  | [], _ => by simp
  | e :: rest, h => by
    intro e' he'
    rw [nodesOf_cons]
    rcases List.mem_cons.mp he' with rfl | h'
    · exact ⟨List.mem_cons_self .., List.mem_cons_of_mem _ h.2.1⟩
    · have := TreeSeq.mem h.1 e' h'
      exact ⟨List.mem_cons_of_mem _ this.1, List.mem_cons_of_mem _ this.2⟩

theorem latOfT_sub (L : Name → Name) (es : List (Name × Name)) (i : Name) : ∀ u ∈ latOfT L es i, u ∈ latsOf L es := by
  intro u hu
  obtain ⟨e, he, rfl⟩ := List.mem_map.mp hu
  exact List.mem_map.mpr ⟨e, (List.mem_filter.mp he).1, rfl⟩

theorem latOfT_not_node {root : Name} (L : Name → Name) {es : List (Name × Name)} (h : TreeSeq root es) {i : Name}
    (hi : i ∉ nodesOf es root) : latOfT L es i = [] := by
  unfold latOfT
  rw [List.filter_eq_nil_iff.mpr]
  · rfl
  · intro e he
    have := TreeSeq.mem h e he
    simp only [decide_eq_true_eq, not_or]
    exact ⟨fun h' => hi (h' ▸ this.1), fun h' => hi (h' ▸ this.2)⟩

/-- the integrand: node `i` contributes `ev (g i) (e i + Σ edge variables at i)` -/
def treeTerm (L : Name → Name) (root : Name) (es : List (Name × Name)) (g : Name → Rat × Rat) (e : Name → Val → Nat)
    (τ : Val) : Rat :=
  ((nodesOf es root).map fun i => ev (g i) (e i τ + ((latOfT L es i).map τ).sum)).prod

theorem map_set_of_not_mem (τ : Val) (u : Name) (k : Nat) (l : List Name) (h : u ∉ l) :
    l.map (τ.set u k) = l.map τ := by
  apply List.map_congr_left
  intro x hx
  exact Val.set_other τ k (fun h' => h (h' ▸ hx))

/-- summing out the edge variable of the last leaf `c` merges `c` into the node `p` it hangs on -/
theorem peel_step (card : Name → Nat) (L : Name → Name) (root : Name) (c p : Name) (rest : List (Name × Name))
    (ht : TreeSeq root ((c, p) :: rest)) (hL : (latsOf L ((c, p) :: rest)).Nodup) (hc : card (L c) = 2)
    (g : Name → Rat × Rat) (e : Name → Val → Nat) (he : ∀ i, NatIndep (e i) (L c)) (τ : Val) :
    sumVar card (L c) (treeTerm L root ((c, p) :: rest) g e) τ =
      treeTerm L root rest (fun i => if i = p then g c * g p else g i)
        (fun i τ => if i = p then e c τ + e p τ else e i τ) τ := by
  have hcN : c ∉ nodesOf rest root := ht.2.2
  have hpN : p ∈ nodesOf rest root := ht.2.1
  have hnd : (nodesOf rest root).Nodup := TreeSeq.nodup ht.1
  have hLc : L c ∉ latsOf L rest := (List.nodup_cons.mp hL).1
  -- the integrand at `τ[L c ↦ k]`
  have key : ∀ k : Nat, treeTerm L root ((c, p) :: rest) g e (τ.set (L c) k) =
      ev (g c) (e c τ + k) * ((nodesOf rest root).map fun i =>
        if i = p then ev (g p) (e p τ + ((latOfT L rest p).map τ).sum + k)
        else ev (g i) (e i τ + ((latOfT L rest i).map τ).sum)).prod := by
    intro k
    unfold treeTerm
    rw [nodesOf_cons, List.map_cons, List.prod_cons]
    congr 1
    · -- the leaf itself
      have h1 : latOfT L ((c, p) :: rest) c = [L c] := by
        have h0 := latOfT_not_node L ht.1 hcN
        unfold latOfT at h0 ⊢
        simp only [List.filter_cons, true_or, decide_true, if_true, List.map_cons, h0]
      rw [h1, he c]
      simp
    · refine congrArg List.prod (List.map_congr_left ?_)
      intro i hi
      have hic : ¬ c = i := fun h' => hcN (h' ▸ hi)
      have hrest : ((latOfT L rest i).map (τ.set (L c) k)) = (latOfT L rest i).map τ :=
        map_set_of_not_mem τ _ k _ (fun h' => hLc (latOfT_sub L rest i _ h'))
      by_cases hip : i = p
      · subst hip
        have h1 : latOfT L ((c, i) :: rest) i = L c :: latOfT L rest i := by
          unfold latOfT
          simp only [List.filter_cons, or_true, decide_true, if_true, List.map_cons]
        rw [if_pos rfl, h1, he i, List.map_cons, List.sum_cons, hrest, Val.set_same]
        congr 1
        omega
      · have h1 : latOfT L ((c, p) :: rest) i = latOfT L rest i := by
          unfold latOfT
          have : ¬ (c = i ∨ p = i) := fun h' => h'.elim hic (fun h'' => hip h''.symm)
          simp only [List.filter_cons, this, decide_false, Bool.false_eq_true, if_false]
        rw [if_neg hip, h1, he i, hrest]
  have hsum : sumVar card (L c) (treeTerm L root ((c, p) :: rest) g e) τ =
      treeTerm L root ((c, p) :: rest) g e (τ.set (L c) 0) + treeTerm L root ((c, p) :: rest) g e (τ.set (L c) 1) := by
    have : List.range 2 = [0, 1] := by decide
    simp [sumVar, sumRange, hc, this]
  rw [hsum, key 0, key 1]
  have e0 := fun k : Nat => prod_map_ite (nodesOf rest root) hnd p hpN
    (ev (g p) (e p τ + ((latOfT L rest p).map τ).sum + k))
    (fun i => ev (g i) (e i τ + ((latOfT L rest i).map τ).sum))
  rw [e0 0, e0 1]
  rw [← mul_assoc, ← mul_assoc, ← add_mul, ev_pair]
  unfold treeTerm
  have e1 := prod_map_ite (nodesOf rest root) hnd p hpN
    (ev (g c * g p) (e c τ + (e p τ + ((latOfT L rest p).map τ).sum)))
    (fun i => ev (g i) (e i τ + ((latOfT L rest i).map τ).sum))
  rw [← e1]
  refine congrArg List.prod (List.map_congr_left ?_)
  intro i _
  by_cases hip : i = p
  · subst hip
    simp only [if_true]
    apply ev_congr
    omega
  · simp only [if_neg hip]

/-- **peeling a tree**: summing all edge variables out leaves the convolution of the node functions at the total
parity of the node exponents -/
theorem peel (card : Name → Nat) (L : Name → Name) (root : Name) :
    ∀ (es : List (Name × Name)), TreeSeq root es → (latsOf L es).Nodup → (∀ u ∈ latsOf L es, card u = 2) →
    ∀ (g : Name → Rat × Rat) (e : Name → Val → Nat), (∀ i, ∀ u ∈ latsOf L es, NatIndep (e i) u) → ∀ σ : Val,
      sumVars card (latsOf L es) (treeTerm L root es g e) σ =
        ev ((nodesOf es root).map g).prod ((nodesOf es root).map fun i => e i σ).sum := by
  intro es
  induction es with
  | nil =>
    intro _ _ _ g e _ σ
    simp [latsOf, sumVars, treeTerm, nodesOf, latOfT]
  | cons cp rest ih =>
    obtain ⟨c, p⟩ := cp
    intro ht hL hc g e he σ
    have hL' : (latsOf L rest).Nodup := (List.nodup_cons.mp hL).2
    show sumVar card (L c) (sumVars card (latsOf L rest) (treeTerm L root ((c, p) :: rest) g e)) σ = _
    rw [sumVar_sumVars_comm]
    have hstep : sumVar card (L c) (treeTerm L root ((c, p) :: rest) g e) = _ :=
      funext fun τ => peel_step card L root c p rest ht hL (hc _ (List.mem_cons_self ..)) g e
        (fun i => he i _ (List.mem_cons_self ..)) τ
    rw [hstep, ih ht.1 hL' (fun u hu => hc u (List.mem_cons_of_mem _ hu))]
    · rw [nodesOf_cons, List.map_cons, List.prod_cons, List.map_cons, List.sum_cons]
      rw [prod_map_ite_mul' _ (TreeSeq.nodup ht.1) p ht.2.1 (g c) g,
        sum_map_ite_add' _ (TreeSeq.nodup ht.1) p ht.2.1 (e c σ) (fun i => e i σ)]
    · intro i u hu τ k
      have h1 := he i u (List.mem_cons_of_mem _ hu)
      have h2 := he c u (List.mem_cons_of_mem _ hu)
      have h3 := he p u (List.mem_cons_of_mem _ hu)
      show (if i = p then e c (τ.set u k) + e p (τ.set u k) else e i (τ.set u k)) = _
      rw [h1 τ k, h2 τ k, h3 τ k]

end NonId
end Y0
