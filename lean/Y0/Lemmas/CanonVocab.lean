/-
  Y0.Lemmas.CanonVocab — the canonicaliser invents no event variable: every variable in event position of the canonical
  form (children / parents of its leaves, WITH their subscripts) already occurs in event position in the input.
  Stated for an arbitrary predicate `P` on variables (`AllEv P e`: every event variable of `e` satisfies `P`):

      allEv_canonL : AllEv P e → canonL lvl e = .ok e' → AllEv P e'

  Consequence (`swOK_canonL`): a well-scoped single-world expression over the nodes of `G` (`Expr.swOK G`,
  Y0/Spec/SingleWorld.lean) has a canonical form of the same kind — the side condition `hsw'` of
  `canon_den_scm` / `canonical_of_sound` / `id_sound_canonical` is automatic.
-/
import Y0.Lemmas.CanonScope
import Y0.Spec.SingleWorld

namespace Y0
set_option linter.unusedVariables false
set_option linter.unusedTactic false
set_option linter.unreachableTactic false

/-- every variable in event position satisfies `P` -/
def AllEv (P : Var → Prop) (e : Expr) : Prop := ∀ v ∈ e.eventVars, P v

variable {P : Var → Prop}

theorem mem_eventVarsList {v : Var} : ∀ {fs : List Expr}, v ∈ Expr.eventVarsList fs ↔ ∃ f ∈ fs, v ∈ f.eventVars
  | [] => by simp [Expr.eventVarsList]
  | e :: es => by
    simp only [Expr.eventVarsList, List.mem_append, mem_eventVarsList (fs := es), List.mem_cons, exists_eq_or_imp]

theorem allEv_prod_iff {fs : List Expr} : AllEv P (.prod fs) ↔ ∀ e ∈ fs, AllEv P e := by
  unfold AllEv
  simp only [Expr.eventVars, mem_eventVarsList]
  constructor
  · intro h e he v hv; exact h v ⟨e, he, hv⟩
  · rintro h v ⟨e, he, hv⟩; exact h e he v hv

theorem allEv_frac_iff {n d : Expr} : AllEv P (.frac n d) ↔ AllEv P n ∧ AllEv P d := by
  unfold AllEv
  simp only [Expr.eventVars, List.mem_append]
  constructor
  · intro h; exact ⟨fun v hv => h v (Or.inl hv), fun v hv => h v (Or.inr hv)⟩
  · rintro ⟨h1, h2⟩ v (hv | hv)
    · exact h1 v hv
    · exact h2 v hv

theorem allEv_sum_iff {e : Expr} {r : List Var} : AllEv P (.sum e r) ↔ AllEv P e := by
  unfold AllEv; simp only [Expr.eventVars]

theorem allEv_prob_iff {pop : Option Var} {c p : List Var} : AllEv P (.prob pop c p) ↔ ∀ v ∈ c ++ p, P v := by
  unfold AllEv; simp only [Expr.eventVars]

@[simp] theorem allEv_one : AllEv P .one := by intro v hv; simp [Expr.eventVars] at hv
@[simp] theorem allEv_zero : AllEv P .zero := by intro v hv; simp [Expr.eventVars] at hv
@[simp] theorem allEv_q {d c : List Var} : AllEv P (.q d c) := by intro v hv; simp [Expr.eventVars] at hv

/-! ### Product.safe, flattening -/

theorem allEv_productSafe {es : List Expr} (h : ∀ e ∈ es, AllEv P e) : AllEv P (productSafe es) := by
  unfold productSafe
  simp only
  have hf : ∀ e ∈ es.filter (fun e => !e.isOne), AllEv P e := fun e he => h e (List.mem_filter.mp he).1
  generalize es.filter (fun e => !e.isOne) = l at hf
  split
  · exact allEv_zero
  · match l, hf with
    | [], _ => exact allEv_one
    | [e], hf => exact hf e (List.mem_singleton.mpr rfl)
    | a :: b :: r, hf =>
      exact allEv_prod_iff.mpr fun e he => hf e ((sortStable_perm _ _).subset he)

mutual
theorem allEv_flattenFactors : ∀ (es : List Expr), (∀ e ∈ es, AllEv P e) → ∀ e ∈ flattenFactors es, AllEv P e
  | [], _, e, he => by simp [flattenFactors] at he
  | a :: rest, h, e, he => by
    simp only [flattenFactors, List.mem_append] at he
    rcases he with he | he
    · exact allEv_flattenFactor a (h a List.mem_cons_self) e he
    · exact allEv_flattenFactors rest (fun x hx => h x (List.mem_cons_of_mem _ hx)) e he
theorem allEv_flattenFactor : ∀ (a : Expr), AllEv P a → ∀ e ∈ flattenFactor a, AllEv P e
  | .prod gs, h, e, he => by
    simp only [flattenFactor] at he
    exact allEv_flattenFactors gs (allEv_prod_iff.mp h) e he
  | .prob _ _ _, h, e, he => by simp only [flattenFactor, List.mem_singleton] at he; exact he ▸ h
  | .sum _ _, h, e, he => by simp only [flattenFactor, List.mem_singleton] at he; exact he ▸ h
  | .frac _ _, h, e, he => by simp only [flattenFactor, List.mem_singleton] at he; exact he ▸ h
  | .one, h, e, he => by simp only [flattenFactor, List.mem_singleton] at he; exact he ▸ h
  | .zero, h, e, he => by simp only [flattenFactor, List.mem_singleton] at he; exact he ▸ h
  | .q _ _, h, e, he => by simp only [flattenFactor, List.mem_singleton] at he; exact he ▸ h
end

/-! ### `*`, `/` -/

theorem allEv_mkFrac {n d c : Expr} (hn : AllEv P n) (hd : AllEv P d) (h : mkFrac n d = .ok c) : AllEv P c := by
  unfold mkFrac at h
  split at h
  · cases h
  · cases h; exact allEv_frac_iff.mpr ⟨hn, hd⟩

theorem allEv_pair {a b : Expr} (ha : AllEv P a) (hb : AllEv P b) : ∀ x ∈ [a, b], AllEv P x := by
  intro x hx
  simp only [List.mem_cons, List.not_mem_nil, or_false] at hx
  rcases hx with rfl | rfl <;> assumption

theorem allEv_snoc {fs : List Expr} {b : Expr} (ha : ∀ e ∈ fs, AllEv P e) (hb : AllEv P b) : ∀ x ∈ fs ++ [b], AllEv P x := by
  intro x hx
  simp only [List.mem_append, List.mem_singleton] at hx
  rcases hx with hx | rfl
  · exact ha x hx
  · exact hb

theorem allEv_append {fs gs : List Expr} (ha : ∀ e ∈ fs, AllEv P e) (hb : ∀ e ∈ gs, AllEv P e) :
    ∀ x ∈ fs ++ gs, AllEv P x := by
  intro x hx
  rcases List.mem_append.mp hx with hx | hx
  · exact ha x hx
  · exact hb x hx

theorem allEv_cons {a : Expr} {gs : List Expr} (ha : AllEv P a) (hb : ∀ e ∈ gs, AllEv P e) : ∀ x ∈ a :: gs, AllEv P x := by
  intro x hx
  rcases List.mem_cons.mp hx with rfl | hx
  · exact ha
  · exact hb x hx

theorem allEv_mulR (a : Expr) (ha : AllEv P a) : ∀ (b c : Expr), AllEv P b → Expr.mulR a b = .ok c → AllEv P c
  | .frac n d, c, hb, h => by
    have hnd := allEv_frac_iff.mp hb
    unfold Expr.mulR at h
    cases a with
    | sum e r => cases h; exact allEv_productSafe (allEv_pair ha hb)
    | prob pop ch pa =>
      obtain ⟨x, hx, hc⟩ := bind_ok h
      exact allEv_mkFrac (allEv_mulR _ ha n x hnd.1 hx) hnd.2 hc
    | prod fs =>
      obtain ⟨x, hx, hc⟩ := bind_ok h
      exact allEv_mkFrac (allEv_mulR _ ha n x hnd.1 hx) hnd.2 hc
    | frac n1 d1 =>
      obtain ⟨x, hx, hc⟩ := bind_ok h
      exact allEv_mkFrac (allEv_mulR _ ha n x hnd.1 hx) hnd.2 hc
    | one =>
      obtain ⟨x, hx, hc⟩ := bind_ok h
      exact allEv_mkFrac (allEv_mulR _ ha n x hnd.1 hx) hnd.2 hc
    | zero =>
      obtain ⟨x, hx, hc⟩ := bind_ok h
      exact allEv_mkFrac (allEv_mulR _ ha n x hnd.1 hx) hnd.2 hc
    | q dd cc =>
      obtain ⟨x, hx, hc⟩ := bind_ok h
      exact allEv_mkFrac (allEv_mulR _ ha n x hnd.1 hx) hnd.2 hc
  | .zero, c, hb, h => by
    unfold Expr.mulR at h
    cases a <;> cases h <;> first | exact allEv_zero | exact allEv_productSafe (allEv_pair ha hb)
  | .one, c, hb, h => by
    unfold Expr.mulR at h
    cases a <;> cases h <;> first
      | exact ha
      | exact allEv_productSafe (allEv_snoc (allEv_prod_iff.mp ha) hb)
      | exact allEv_productSafe (allEv_pair ha hb)
  | .prod gs, c, hb, h => by
    unfold Expr.mulR at h
    have hg := allEv_prod_iff.mp hb
    cases a <;> cases h <;> first
      | exact allEv_productSafe (allEv_append (allEv_prod_iff.mp ha) hg)
      | exact allEv_productSafe (allEv_cons ha hg)
  | .prob pop ch pa, c, hb, h => by
    unfold Expr.mulR at h
    cases a <;> cases h <;> first
      | exact allEv_productSafe (allEv_snoc (allEv_prod_iff.mp ha) hb)
      | exact allEv_productSafe (allEv_pair ha hb)
  | .sum e r, c, hb, h => by
    unfold Expr.mulR at h
    cases a <;> cases h <;> first
      | exact allEv_productSafe (allEv_snoc (allEv_prod_iff.mp ha) hb)
      | exact allEv_productSafe (allEv_pair ha hb)
  | .q dd cc, c, hb, h => by
    unfold Expr.mulR at h
    cases a <;> cases h <;> first
      | exact allEv_productSafe (allEv_snoc (allEv_prod_iff.mp ha) hb)
      | exact allEv_productSafe (allEv_pair ha hb)

theorem allEv_mul : ∀ (a b c : Expr), AllEv P a → AllEv P b → Expr.mul a b = .ok c → AllEv P c
  | .one, b, c, ha, hb, h => by unfold Expr.mul at h; cases h; exact hb
  | .zero, b, c, ha, hb, h => by unfold Expr.mul at h; cases h; exact allEv_zero
  | .frac n d, .zero, c, ha, hb, h => by unfold Expr.mul at h; cases h; exact allEv_zero
  | .frac n d, .frac n2 d2, c, ha, hb, h => by
    unfold Expr.mul at h
    obtain ⟨x, hx, h⟩ := bind_ok h
    obtain ⟨y, hy, hc⟩ := bind_ok h
    have h1 := allEv_frac_iff.mp ha
    have h2 := allEv_frac_iff.mp hb
    exact allEv_mkFrac (allEv_mul n n2 x h1.1 h2.1 hx) (allEv_mul d d2 y h1.2 h2.2 hy) hc
  | .frac n d, .one, c, ha, hb, h => by
    unfold Expr.mul at h
    obtain ⟨x, hx, hc⟩ := bind_ok h
    have h1 := allEv_frac_iff.mp ha
    exact allEv_mkFrac (allEv_mul n _ x h1.1 hb hx) h1.2 hc
  | .frac n d, .prob pop ch pa, c, ha, hb, h => by
    unfold Expr.mul at h
    obtain ⟨x, hx, hc⟩ := bind_ok h
    have h1 := allEv_frac_iff.mp ha
    exact allEv_mkFrac (allEv_mul n _ x h1.1 hb hx) h1.2 hc
  | .frac n d, .prod gs, c, ha, hb, h => by
    unfold Expr.mul at h
    obtain ⟨x, hx, hc⟩ := bind_ok h
    have h1 := allEv_frac_iff.mp ha
    exact allEv_mkFrac (allEv_mul n _ x h1.1 hb hx) h1.2 hc
  | .frac n d, .sum e r, c, ha, hb, h => by
    unfold Expr.mul at h
    obtain ⟨x, hx, hc⟩ := bind_ok h
    have h1 := allEv_frac_iff.mp ha
    exact allEv_mkFrac (allEv_mul n _ x h1.1 hb hx) h1.2 hc
  | .frac n d, .q dd cc, c, ha, hb, h => by
    unfold Expr.mul at h
    obtain ⟨x, hx, hc⟩ := bind_ok h
    have h1 := allEv_frac_iff.mp ha
    exact allEv_mkFrac (allEv_mul n _ x h1.1 hb hx) h1.2 hc
  | .prob pop ch pa, b, c, ha, hb, h => by unfold Expr.mul at h; exact allEv_mulR _ ha b c hb h
  | .prod fs, b, c, ha, hb, h => by unfold Expr.mul at h; exact allEv_mulR _ ha b c hb h
  | .sum e r, b, c, ha, hb, h => by unfold Expr.mul at h; exact allEv_mulR _ ha b c hb h
  | .q dd cc, b, c, ha, hb, h => by unfold Expr.mul at h; exact allEv_mulR _ ha b c hb h

theorem allEv_div (a b c : Expr) (ha : AllEv P a) (hb : AllEv P b) (h : Expr.div a b = .ok c) : AllEv P c := by
  cases a <;> cases b <;> simp only [Expr.div] at h <;>
  first
    | (cases h; first | exact ha | exact allEv_zero)
    | (exact allEv_mkFrac ha hb h)
    | (obtain ⟨x, hx, h⟩ := bind_ok h
       obtain ⟨y, hy, hc⟩ := bind_ok h
       have h1 := allEv_frac_iff.mp ha
       have h2 := allEv_frac_iff.mp hb
       exact allEv_mkFrac (allEv_mul _ _ x h1.1 h2.2 hx) (allEv_mul _ _ y h1.2 h2.1 hy) hc)
    | (obtain ⟨x, hx, hc⟩ := bind_ok h
       have h1 := allEv_frac_iff.mp ha
       exact allEv_mkFrac h1.1 (allEv_mul _ _ x h1.2 hb hx) hc)
    | (obtain ⟨x, hx, hc⟩ := bind_ok h
       have h2 := allEv_frac_iff.mp hb
       exact allEv_mkFrac (allEv_mul _ _ x ha h2.2 hx) h2.1 hc)
    | (split at h
       · cases h
       · cases h; exact allEv_zero)

/-! ### Sum.safe / Sum.simplify -/

theorem allEv_sumSafe0 {e : Expr} {r : List Var} (he : AllEv P e) : AllEv P (sumSafe0 e r) := by
  unfold sumSafe0
  simp only
  split
  · exact he
  · cases e <;> simp only <;> first
      | exact allEv_zero
      | exact allEv_sum_iff.mpr he

theorem mem_of_lastWithBase {c : List Var} {k v : Var} (h : lastWithBase c k = some v) : v ∈ c := by
  unfold lastWithBase at h
  exact (List.mem_filter.mp (List.mem_of_getLast? h)).1

/-- the children kept by `Sum.simplify` are children of the leaf -/
theorem allEv_subleaf {pop : Option Var} {c : List Var} (hc : ∀ v ∈ c, P v) (ks : List Var) :
    AllEv P (.prob pop (upgradeOrdering (ks.filterMap (lastWithBase c))) []) := by
  rw [allEv_prob_iff]
  intro v hv
  rw [List.append_nil, mem_upgradeOrdering, List.mem_filterMap] at hv
  obtain ⟨k, _, hk⟩ := hv
  exact hc v (mem_of_lastWithBase hk)

theorem allEv_sumSimplify {e : Expr} {rs : List Var} (he : AllEv P e) : AllEv P (sumSimplify e rs) := by
  unfold sumSimplify
  split
  · rename_i pop c
    have hc : ∀ v ∈ c, P v := by simpa using allEv_prob_iff.mp he
    simp only
    split
    · exact allEv_sum_iff.mpr he
    split
    · exact allEv_one
    · split
      · exact allEv_sumSafe0 allEv_one
      · split
        · exact allEv_subleaf hc _
        · exact allEv_sumSafe0 (allEv_subleaf hc _)
  · exact allEv_sum_iff.mpr he

theorem allEv_sumSafe {e : Expr} {r : List Var} (b : Bool) (he : AllEv P e) : AllEv P (sumSafe e r b) := by
  unfold sumSafe
  simp only
  split
  · exact he
  · cases e <;> simp only <;> first
      | exact allEv_zero
      | (split
         · exact allEv_sumSimplify he
         · exact allEv_sum_iff.mpr he)

/-! ### the canonicaliser -/

theorem allEv_postFrac {rv : Expr} (h : AllEv P rv) : AllEv P (postFrac rv) := by
  unfold postFrac
  split
  · rename_i a b
    have := allEv_frac_iff.mp h
    split
    · exact this.1
    · split
      · exact allEv_one
      · exact h
  · exact h

mutual
/-- **the canonical form has no new event variable** -/
theorem allEv_canonL {lvl : Name → Option Nat} : ∀ (e e' : Expr), AllEv P e → canonL lvl e = .ok e' → AllEv P e'
  | .prob pop c p, e', hw, h => by
    unfold canonL at h
    obtain ⟨c', hc, h⟩ := bind_ok h
    obtain ⟨p', hp, h⟩ := bind_ok h
    cases h
    rw [allEv_prob_iff] at hw ⊢
    intro v hv
    exact hw v (((sortVars_perm hc).append (sortVars_perm hp)).subset hv)
  | .sum e r, e', hw, h => by
    unfold canonL at h
    obtain ⟨x, hx, h⟩ := bind_ok h
    cases h
    exact allEv_sumSafe true (allEv_canonL e x (allEv_sum_iff.mp hw) hx)
  | .prod fs, e', hw, h => by
    unfold canonL at h
    obtain ⟨x, hx, h⟩ := bind_ok h
    cases h
    apply allEv_productSafe
    apply allEv_flattenFactors
    exact allEv_canonFactors fs x (allEv_prod_iff.mp hw) hx
  | .frac n d, e', hw, h => by
    unfold canonL at h
    obtain ⟨n', hn, h⟩ := bind_ok h
    obtain ⟨d', hd, h⟩ := bind_ok h
    have h12 := allEv_frac_iff.mp hw
    have hn' := allEv_canonL n n' h12.1 hn
    have hd' := allEv_canonL d d' h12.2 hd
    split at h
    · cases h; exact hn'
    · split at h
      · cases h; exact allEv_one
      · obtain ⟨rv, hrv, h⟩ := bind_ok h
        cases h
        exact allEv_postFrac (allEv_div _ _ _ hn' hd' hrv)
  | .one, e', hw, h => by unfold canonL at h; cases h; exact allEv_one
  | .zero, e', hw, h => by unfold canonL at h; cases h; exact allEv_zero
  | .q _ _, e', hw, h => by unfold canonL at h; cases h
theorem allEv_canonFactors {lvl : Name → Option Nat} : ∀ (fs fs' : List Expr),
    (∀ e ∈ fs, AllEv P e) → canonFactors lvl fs = .ok fs' → ∀ e ∈ fs', AllEv P e
  | [], fs', hw, h => by
    unfold canonFactors at h; cases h; intro e he; cases he
  | .prod gs :: rest, fs', hw, h => by
    unfold canonFactors at h
    obtain ⟨a, ha, h⟩ := bind_ok h
    obtain ⟨b, hb, h⟩ := bind_ok h
    cases h
    intro e he
    rcases List.mem_append.mp he with he | he
    · exact allEv_canonFactors gs a (allEv_prod_iff.mp (hw _ List.mem_cons_self)) ha e he
    · exact allEv_canonFactors rest b (fun x hx => hw x (List.mem_cons_of_mem _ hx)) hb e he
  | .prob pop c p :: rest, fs', hw, h => by
    unfold canonFactors at h
    obtain ⟨a, ha, h⟩ := bind_ok h
    obtain ⟨b, hb, h⟩ := bind_ok h
    cases h
    intro e he
    rcases List.mem_cons.mp he with rfl | he
    · exact allEv_canonL _ _ (hw _ List.mem_cons_self) ha
    · exact allEv_canonFactors rest b (fun x hx => hw x (List.mem_cons_of_mem _ hx)) hb e he
  | .sum e0 r :: rest, fs', hw, h => by
    unfold canonFactors at h
    obtain ⟨a, ha, h⟩ := bind_ok h
    obtain ⟨b, hb, h⟩ := bind_ok h
    cases h
    intro e he
    rcases List.mem_cons.mp he with rfl | he
    · exact allEv_canonL _ _ (hw _ List.mem_cons_self) ha
    · exact allEv_canonFactors rest b (fun x hx => hw x (List.mem_cons_of_mem _ hx)) hb e he
  | .frac n d :: rest, fs', hw, h => by
    unfold canonFactors at h
    obtain ⟨a, ha, h⟩ := bind_ok h
    obtain ⟨b, hb, h⟩ := bind_ok h
    cases h
    intro e he
    rcases List.mem_cons.mp he with rfl | he
    · exact allEv_canonL _ _ (hw _ List.mem_cons_self) ha
    · exact allEv_canonFactors rest b (fun x hx => hw x (List.mem_cons_of_mem _ hx)) hb e he
  | .one :: rest, fs', hw, h => by
    unfold canonFactors at h
    obtain ⟨a, ha, h⟩ := bind_ok h
    obtain ⟨b, hb, h⟩ := bind_ok h
    cases h
    intro e he
    rcases List.mem_cons.mp he with rfl | he
    · exact allEv_canonL _ _ (hw _ List.mem_cons_self) ha
    · exact allEv_canonFactors rest b (fun x hx => hw x (List.mem_cons_of_mem _ hx)) hb e he
  | .zero :: rest, fs', hw, h => by
    unfold canonFactors at h
    obtain ⟨a, ha, h⟩ := bind_ok h
    obtain ⟨b, hb, h⟩ := bind_ok h
    cases h
    intro e he
    rcases List.mem_cons.mp he with rfl | he
    · exact allEv_canonL _ _ (hw _ List.mem_cons_self) ha
    · exact allEv_canonFactors rest b (fun x hx => hw x (List.mem_cons_of_mem _ hx)) hb e he
  | .q dd cc :: rest, fs', hw, h => by
    unfold canonFactors at h
    obtain ⟨a, ha, h⟩ := bind_ok h
    unfold canonL at ha
    cases ha
end

/-! ### single-world expressions stay single-world -/

/-- the per-variable part of `swOK`: subscripts name pairwise distinct variables, the variable is a node -/
def VarSW (G : MG Name) (v : Var) : Prop := (v.ivs.map (·.name)).Nodup ∧ v.name ∈ G.nodes

mutual
theorem allEv_of_swOK {G : MG Name} : ∀ (e : Expr), e.swOK G = true → AllEv (VarSW G) e
  | .prob _ c p, h => by
    unfold Expr.swOK leafSW at h
    simp only [Bool.and_eq_true, List.all_eq_true, decide_eq_true_eq, namesNodup_iff] at h
    rw [allEv_prob_iff]
    intro v hv
    exact ⟨h.1.2 v hv, h.2 v hv⟩
  | .prod fs, h => allEv_prod_iff.mpr (allEvList_of_swOK fs (by simpa [Expr.swOK] using h))
  | .sum e _, h => allEv_sum_iff.mpr (allEv_of_swOK e (by simpa [Expr.swOK] using h))
  | .frac n d, h => by
    simp only [Expr.swOK, Bool.and_eq_true] at h
    exact allEv_frac_iff.mpr ⟨allEv_of_swOK n h.1, allEv_of_swOK d h.2⟩
  | .one, _ => allEv_one
  | .zero, _ => allEv_zero
  | .q _ _, _ => allEv_q
theorem allEvList_of_swOK {G : MG Name} : ∀ (fs : List Expr), Expr.swOKList G fs = true → ∀ e ∈ fs, AllEv (VarSW G) e
  | [], _ => by intro e he; cases he
  | a :: rest, h => by
    simp only [Expr.swOKList, Bool.and_eq_true] at h
    intro e he
    rcases List.mem_cons.mp he with he | he
    · rw [he]; exact allEv_of_swOK a h.1
    · exact allEvList_of_swOK rest h.2 e he
end

mutual
/-- a well-scoped expression (leaves in one world) whose event variables are fine is single-world over the nodes -/
theorem swOK_of_wss_allEv {G : MG Name} {S : List Name} : ∀ (e : Expr), Expr.wss S e = true → AllEv (VarSW G) e →
    e.swOK G = true
  | .prob _ c p, hw, ha => by
    have hleaf : LeafOKP S c p := leafOK_iff.mp (by simpa [Expr.wss] using hw)
    rw [allEv_prob_iff] at ha
    unfold Expr.swOK leafSW
    simp only [Bool.and_eq_true, List.all_eq_true, decide_eq_true_eq, namesNodup_iff]
    exact ⟨⟨hleaf.world, fun v hv => (ha v hv).1⟩, fun v hv => (ha v hv).2⟩
  | .prod fs, hw, ha => by
    simp only [Expr.swOK]
    exact swOKList_of_wss_allEv fs (wss_prod_iff.mp hw) (allEv_prod_iff.mp ha)
  | .sum e r, hw, ha => by
    simp only [Expr.swOK]
    exact swOK_of_wss_allEv e (wss_sum_iff.mp hw).2 (allEv_sum_iff.mp ha)
  | .frac n d, hw, ha => by
    have h1 := wss_frac_iff.mp hw
    have h2 := allEv_frac_iff.mp ha
    simp only [Expr.swOK, Bool.and_eq_true]
    exact ⟨swOK_of_wss_allEv n h1.1 h2.1, swOK_of_wss_allEv d h1.2 h2.2⟩
  | .one, _, _ => rfl
  | .zero, _, _ => rfl
  | .q _ _, _, _ => rfl
theorem swOKList_of_wss_allEv {G : MG Name} {S : List Name} : ∀ (fs : List Expr), (∀ e ∈ fs, Expr.wss S e = true) →
    (∀ e ∈ fs, AllEv (VarSW G) e) → Expr.swOKList G fs = true
  | [], _, _ => rfl
  | a :: rest, hw, ha => by
    simp only [Expr.swOKList, Bool.and_eq_true]
    exact ⟨swOK_of_wss_allEv a (hw a List.mem_cons_self) (ha a List.mem_cons_self),
      swOKList_of_wss_allEv rest (fun x hx => hw x (List.mem_cons_of_mem _ hx)) (fun x hx => ha x (List.mem_cons_of_mem _ hx))⟩
end

/-- **canonicalisation keeps single-world expressions single-world**: for a well-scoped `e`, `swOK G e` passes to the
canonical form -/
theorem swOK_canonL {G : MG Name} {S : List Name} {lvl : Name → Option Nat} {e e' : Expr} (hws : Expr.wss S e = true)
    (hsw : e.swOK G = true) (h : canonL lvl e = .ok e') : e'.swOK G = true :=
  swOK_of_wss_allEv e' (wss_canonL e e' hws h) (allEv_canonL e e' (allEv_of_swOK e hsw) h)

theorem swOK_canon {G : MG Name} {o : List Var} {e e' : Expr} (hws : WellScoped e = true) (hsw : e.swOK G = true)
    (h : canon o e = .ok e') : e'.swOK G = true := swOK_canonL hws hsw h

end Y0
