/-
  Y0.Lemmas.TrsoShapeCanon — `canonicalize` (Y0.Model.TrDsl.canon) preserves the shape invariant of
  Lemmas/TrsoShapeDefs: it never produces `One()` from an expression without `One()` whose iterated sums over joint
  leaves keep a child un-summed and whose fractions have parts of different value (in some reading of the leaves that
  satisfies the leaf laws).
-/
import Y0.Lemmas.TrsoShapeDefs

namespace Y0
namespace Trso
open TrDsl

variable {card : Name → Nat} {leaf : LeafFn}

/-! ### `Shape` of the composite nodes -/

theorem TrsoAux.sh_prod_iff (σ₀ : Val) (gs : List Expr) :
    Shape card leaf σ₀ (.prod gs) ↔ 2 ≤ gs.length ∧ ∀ g ∈ gs, Shape card leaf σ₀ g := by
  constructor
  · rintro ⟨h1, h2, h3, h4⟩
    simp only [NoOne, PW, ChainOK, FracNe] at h1 h2 h3 h4
    rw [noOneList_iff] at h1
    rw [pwList_iff] at h2
    rw [chainOKList_iff] at h3
    rw [fracNeList_iff] at h4
    exact ⟨h2.1, fun g hg => ⟨h1 g hg, h2.2 g hg, h3 g hg, h4 g hg⟩⟩
  · rintro ⟨hl, h⟩
    refine ⟨?_, ?_, ?_, ?_⟩
    · simp only [NoOne]; rw [noOneList_iff]; exact fun g hg => (h g hg).noOne
    · simp only [PW]; rw [pwList_iff]; exact ⟨hl, fun g hg => (h g hg).pw⟩
    · simp only [ChainOK]; rw [chainOKList_iff]; exact fun g hg => (h g hg).chain
    · simp only [FracNe]; rw [fracNeList_iff]; exact fun g hg => (h g hg).frac

theorem TrsoAux.sh_frac_iff (σ₀ : Val) (a b : Expr) :
    Shape card leaf σ₀ (.frac a b) ↔
      Shape card leaf σ₀ a ∧ Shape card leaf σ₀ b ∧ denL card leaf a σ₀ ≠ denL card leaf b σ₀ := by
  constructor
  · rintro ⟨h1, h2, h3, h4⟩
    simp only [NoOne, PW, ChainOK, FracNe] at h1 h2 h3 h4
    exact ⟨⟨h1.1, h2.1, h3.1, h4.1⟩, ⟨h1.2, h2.2, h3.2, h4.2.1⟩, h4.2.2⟩
  · rintro ⟨ha, hb, hne⟩
    refine ⟨?_, ?_, ?_, ?_⟩
    · simp only [NoOne]; exact ⟨ha.noOne, hb.noOne⟩
    · simp only [PW]; exact ⟨ha.pw, hb.pw⟩
    · simp only [ChainOK]; exact ⟨ha.chain, hb.chain⟩
    · simp only [FracNe]; exact ⟨ha.frac, hb.frac, hne⟩

theorem TrsoAux.sh_sum_iff (σ₀ : Val) (t : Expr) (r : List Var) :
    Shape card leaf σ₀ (.sum t r) ↔
      Shape card leaf σ₀ t ∧ ∀ c s, chain (.sum t r) = some (c, s) → ∃ n ∈ c.map (·.name), n ∉ s := by
  constructor
  · rintro ⟨h1, h2, h3, h4⟩
    simp only [NoOne, PW, ChainOK, FracNe] at h1 h2 h3 h4
    exact ⟨⟨h1, h2, h3.1, h4⟩, h3.2⟩
  · rintro ⟨ht, hc⟩
    refine ⟨?_, ?_, ?_, ?_⟩
    · simp only [NoOne]; exact ht.noOne
    · simp only [PW]; exact ht.pw
    · simp only [ChainOK]; exact ⟨ht.chain, hc⟩
    · simp only [FracNe]; exact ht.frac

theorem TrsoAux.sh_leaf (σ₀ : Val) (pop : Option Var) (c p : List Var) : Shape card leaf σ₀ (.prob pop c p) :=
  ⟨by simp [NoOne], by simp [PW], by simp [ChainOK], by simp [FracNe]⟩

theorem TrsoAux.sh_isOne {e : Expr} (h : NoOne e) : isOne e = false := by
  cases e <;> simp [isOne, NoOne] at h ⊢

/-- `Shape` of the canonical output never shows a fraction directly inside a fraction -/
def TrsoAux.sh_FracFlat : Expr → Prop
  | .frac a b => isFrac a = false ∧ isFrac b = false
  | _ => True

/-- the un-summed children of an iterated sum over a joint leaf are those of the input -/
def TrsoAux.sh_Link (t t' : Expr) : Prop :=
  ∀ c' s', chain t' = some (c', s') → ∃ c₀ s₀, chain t = some (c₀, s₀) ∧
    ∀ n, (n ∈ c'.map (·.name) ∧ n ∉ s') ↔ (n ∈ c₀.map (·.name) ∧ n ∉ s₀)

/-- what the induction over `canon` carries -/
structure TrsoAux.sh_Out (card : Name → Nat) (leaf : LeafFn) (σ₀ : Val) (e e' : Expr) : Prop where
  shape : Shape card leaf σ₀ e'
  flat : TrsoAux.sh_FracFlat e'
  link : TrsoAux.sh_Link e e'

/-! ### flattening and `Product.safe` -/

mutual
theorem TrsoAux.sh_flattenExprs (σ₀ : Val) : ∀ (es : List Expr), (∀ e ∈ es, Shape card leaf σ₀ e) →
    ∀ y ∈ flattenExprs es, Shape card leaf σ₀ y
  | [], _, y, hy => by simp [flattenExprs] at hy
  | e :: es, h, y, hy => by
    simp only [flattenExprs, List.mem_append] at hy
    rcases hy with hy | hy
    · exact TrsoAux.sh_flattenExpr σ₀ e (h e (by simp)) y hy
    · exact TrsoAux.sh_flattenExprs σ₀ es (fun x hx => h x (by simp [hx])) y hy
theorem TrsoAux.sh_flattenExpr (σ₀ : Val) : ∀ (e : Expr), Shape card leaf σ₀ e →
    ∀ y ∈ flattenExpr e, Shape card leaf σ₀ y
  | .prod gs, h, y, hy => by
    simp only [flattenExpr] at hy
    exact TrsoAux.sh_flattenExprs σ₀ gs ((TrsoAux.sh_prod_iff σ₀ gs).1 h).2 y hy
  | .prob _ _ _, h, y, hy => by simp only [flattenExpr, List.mem_singleton] at hy; subst hy; exact h
  | .sum _ _, h, y, hy => by simp only [flattenExpr, List.mem_singleton] at hy; subst hy; exact h
  | .frac _ _, h, y, hy => by simp only [flattenExpr, List.mem_singleton] at hy; subst hy; exact h
  | .one, h, y, hy => by simp only [flattenExpr, List.mem_singleton] at hy; subst hy; exact h
  | .zero, h, y, hy => by simp only [flattenExpr, List.mem_singleton] at hy; subst hy; exact h
  | .q _ _, h, y, hy => by simp only [flattenExpr, List.mem_singleton] at hy; subst hy; exact h
end

mutual
theorem TrsoAux.sh_len_flattenExprs : ∀ (es : List Expr), PWList es → es.length ≤ (flattenExprs es).length
  | [], _ => by simp
  | e :: es, h => by
    simp only [flattenExprs, List.length_append, List.length_cons]
    have h1 := TrsoAux.sh_len_flattenExpr e h.1
    have h2 := TrsoAux.sh_len_flattenExprs es h.2
    omega
theorem TrsoAux.sh_len_flattenExpr : ∀ (e : Expr), PW e → 1 ≤ (flattenExpr e).length
  | .prod gs, h => by
    simp only [flattenExpr]
    simp only [PW] at h
    have := TrsoAux.sh_len_flattenExprs gs h.2
    omega
  | .prob _ _ _, _ => by simp [flattenExpr]
  | .sum _ _, _ => by simp [flattenExpr]
  | .frac _ _, _ => by simp [flattenExpr]
  | .one, _ => by simp [flattenExpr]
  | .zero, _ => by simp [flattenExpr]
  | .q _ _, _ => by simp [flattenExpr]
end

/-- `Product.safe` of at least two factors, none `One()` or `Zero()`, is the sorted product -/
theorem TrsoAux.sh_productSafe_eq (L : List Expr) (h1 : ∀ g ∈ L, isOne g = false) (h0 : ∀ g ∈ L, isZero g = false)
    (hl : 2 ≤ L.length) : productSafe L = .prod (ssort exprLt L) := by
  unfold productSafe
  have hf : L.filter (fun e => !isOne e) = L := List.filter_eq_self.2 (by intro g hg; simp [h1 g hg])
  have hz : L.any isZero = false := by
    rw [List.any_eq_false]; intro g hg; simp [h0 g hg]
  simp only [hf, hz]
  match L, hl with
  | a :: b :: r, _ => simp

theorem TrsoAux.sh_productSafe (σ₀ : Val) (L : List Expr) (hs : ∀ g ∈ L, Shape card leaf σ₀ g)
    (hc : ∀ g ∈ L, Clean g) (hl : 2 ≤ L.length) :
    productSafe L = .prod (ssort exprLt L) ∧ Shape card leaf σ₀ (.prod (ssort exprLt L)) := by
  refine ⟨TrsoAux.sh_productSafe_eq L (fun g hg => TrsoAux.sh_isOne (hs g hg).noOne)
    (fun g hg => clean_not_zero (hc g hg)) hl, ?_⟩
  rw [TrsoAux.sh_prod_iff]
  refine ⟨?_, fun g hg => hs g (by simpa using hg)⟩
  rw [(TrsoAux.ssort_perm exprLt L).length_eq]; exact hl

/-- the factors `x * y` multiplies -/
def TrsoAux.sh_factors : Expr → List Expr
  | .prod fs => fs
  | e => [e]

theorem TrsoAux.sh_factors_shape (σ₀ : Val) {x : Expr} (hx : Shape card leaf σ₀ x) (cx : Clean x) :
    1 ≤ (TrsoAux.sh_factors x).length ∧ (∀ g ∈ TrsoAux.sh_factors x, Shape card leaf σ₀ g) ∧
      ∀ g ∈ TrsoAux.sh_factors x, Clean g := by
  cases x with
  | prod fs =>
    simp only [TrsoAux.sh_factors]
    have := (TrsoAux.sh_prod_iff σ₀ fs).1 hx
    exact ⟨by omega, this.2, (cleanList_iff fs).1 cx⟩
  | _ => simp only [TrsoAux.sh_factors, List.mem_singleton, List.length_singleton]
         exact ⟨Nat.le_refl _, fun g hg => hg ▸ hx, fun g hg => hg ▸ cx⟩

/-- `x * y` for two non-fractions -/
theorem TrsoAux.sh_mul_eq {x y : Expr} (nx : NoOne x) (ny : NoOne y) (cx : Clean x) (cy : Clean y)
    (fx : isFrac x = false) (fy : isFrac y = false) :
    mul x y = .ok (productSafe (TrsoAux.sh_factors x ++ TrsoAux.sh_factors y)) := by
  unfold mul
  generalize size x + size y = k
  cases x with
  | one => exact nx.elim
  | zero => exact cx.elim
  | q _ _ => exact cx.elim
  | frac _ _ => simp [isFrac] at fx
  | prob pop c p =>
    cases y with
    | one => exact ny.elim
    | zero => exact cy.elim
    | q _ _ => exact cy.elim
    | frac _ _ => simp [isFrac] at fy
    | _ => simp [mulF, TrsoAux.sh_factors]
  | prod fs =>
    cases y with
    | one => exact ny.elim
    | zero => exact cy.elim
    | q _ _ => exact cy.elim
    | frac _ _ => simp [isFrac] at fy
    | _ => simp [mulF, TrsoAux.sh_factors]
  | sum t r =>
    cases y with
    | one => exact ny.elim
    | zero => exact cy.elim
    | q _ _ => exact cy.elim
    | frac _ _ => simp [isFrac] at fy
    | _ => simp [mulF, TrsoAux.sh_factors]

theorem TrsoAux.sh_mul (σ₀ : Val) {x y : Expr} (hx : Shape card leaf σ₀ x) (hy : Shape card leaf σ₀ y)
    (cx : Clean x) (cy : Clean y) (fx : isFrac x = false) (fy : isFrac y = false) :
    ∃ gs, mul x y = .ok (.prod gs) ∧ Shape card leaf σ₀ (.prod gs) ∧ Clean (.prod gs) := by
  obtain ⟨lx, sx, ccx⟩ := TrsoAux.sh_factors_shape σ₀ hx cx
  obtain ⟨ly, sy, ccy⟩ := TrsoAux.sh_factors_shape σ₀ hy cy
  have hs : ∀ g ∈ TrsoAux.sh_factors x ++ TrsoAux.sh_factors y, Shape card leaf σ₀ g := by
    intro g hg; rcases List.mem_append.1 hg with h | h
    · exact sx g h
    · exact sy g h
  have hc : ∀ g ∈ TrsoAux.sh_factors x ++ TrsoAux.sh_factors y, Clean g := by
    intro g hg; rcases List.mem_append.1 hg with h | h
    · exact ccx g h
    · exact ccy g h
  obtain ⟨e1, e2⟩ := TrsoAux.sh_productSafe σ₀ _ hs hc (by rw [List.length_append]; omega)
  refine ⟨_, ?_, e2, ?_⟩
  · rw [TrsoAux.sh_mul_eq hx.noOne hy.noOne cx cy fx fy, e1]
  · simp only [Clean]; rw [cleanList_iff]; intro g hg; exact hc g (by simpa using hg)

/-- **`canonicalize` preserves the shape invariant** -/
theorem shape_canon (S : LeafSem card leaf) (σ₀ : Val) {e e' : Expr} (hg : Good S e) (hnd : SumND e)
    (hs : Shape card leaf σ₀ e) (h : canon e = .ok e') : Shape card leaf σ₀ e' := by
  sorry

theorem shape_canonicalize (S : LeafSem card leaf) (σ₀ : Val) {e e' : Expr} (hg : Good S e) (hnd : SumND e)
    (hs : Shape card leaf σ₀ e) (h : canonicalize e = .ok e') : Shape card leaf σ₀ e' :=
  shape_canon S σ₀ hg hnd hs h

/-- the canonical form of a product of at least two factors (none of them `One()`) is a product again -/
theorem canon_prod_isProd (S : LeafSem card leaf) (σ₀ : Val) {fs : List Expr} {e' : Expr} (hg : Good S (.prod fs))
    (hnd : SumND (.prod fs)) (hs : Shape card leaf σ₀ (.prod fs)) (h : canon (.prod fs) = .ok e') :
    ∃ gs, e' = .prod gs := by
  sorry

end Trso
end Y0
