/-
  Y0.Lemmas.TrsoShapeCanon — `canonicalize` (Y0.Model.TrDsl.canon) preserves the shape invariant of
  Lemmas/TrsoShapeDefs: it never produces `One()` from an expression without `One()` whose iterated sums over joint
  leaves keep a child un-summed and whose fractions have parts of different value (in some reading of the leaves that
  satisfies the leaf laws).
-/
import Y0.Lemmas.TrsoShapeDefs

namespace Y0
namespace Trso
open TrDsl

variable {card : Name → Nat} {leaf : LeafFn}

/-! ### `Shape` of the composite nodes -/

theorem TrsoAux.sh_prod_iff (σ₀ : Val) (gs : List Expr) :
    Shape card leaf σ₀ (.prod gs) ↔ 2 ≤ gs.length ∧ ∀ g ∈ gs, Shape card leaf σ₀ g := by
  constructor
  · rintro ⟨h1, h2, h3, h4⟩
    simp only [NoOne, PW, ChainOK, FracNe] at h1 h2 h3 h4
    rw [noOneList_iff] at h1
    rw [pwList_iff] at h2
    rw [chainOKList_iff] at h3
    rw [fracNeList_iff] at h4
    exact ⟨h2.1, fun g hg => ⟨h1 g hg, h2.2 g hg, h3 g hg, h4 g hg⟩⟩
  · rintro ⟨hl, h⟩
    refine ⟨?_, ?_, ?_, ?_⟩
    · simp only [NoOne]; rw [noOneList_iff]; exact fun g hg => (h g hg).noOne
    · simp only [PW]; rw [pwList_iff]; exact ⟨hl, fun g hg => (h g hg).pw⟩
    · simp only [ChainOK]; rw [chainOKList_iff]; exact fun g hg => (h g hg).chain
    · simp only [FracNe]; rw [fracNeList_iff]; exact fun g hg => (h g hg).frac

theorem TrsoAux.sh_frac_iff (σ₀ : Val) (a b : Expr) :
    Shape card leaf σ₀ (.frac a b) ↔
      Shape card leaf σ₀ a ∧ Shape card leaf σ₀ b ∧ denL card leaf a σ₀ ≠ denL card leaf b σ₀ := by
  constructor
  · rintro ⟨h1, h2, h3, h4⟩
    simp only [NoOne, PW, ChainOK, FracNe] at h1 h2 h3 h4
    exact ⟨⟨h1.1, h2.1, h3.1, h4.1⟩, ⟨h1.2, h2.2, h3.2, h4.2.1⟩, h4.2.2⟩
  · rintro ⟨ha, hb, hne⟩
    refine ⟨?_, ?_, ?_, ?_⟩
    · simp only [NoOne]; exact ⟨ha.noOne, hb.noOne⟩
    · simp only [PW]; exact ⟨ha.pw, hb.pw⟩
    · simp only [ChainOK]; exact ⟨ha.chain, hb.chain⟩
    · simp only [FracNe]; exact ⟨ha.frac, hb.frac, hne⟩

theorem TrsoAux.sh_sum_iff (σ₀ : Val) (t : Expr) (r : List Var) :
    Shape card leaf σ₀ (.sum t r) ↔
      Shape card leaf σ₀ t ∧ ∀ c s, chain (.sum t r) = some (c, s) → ∃ n ∈ c.map (·.name), n ∉ s := by
  constructor
  · rintro ⟨h1, h2, h3, h4⟩
    simp only [NoOne, PW, ChainOK, FracNe] at h1 h2 h3 h4
    exact ⟨⟨h1, h2, h3.1, h4⟩, h3.2⟩
  · rintro ⟨ht, hc⟩
    refine ⟨?_, ?_, ?_, ?_⟩
    · simp only [NoOne]; exact ht.noOne
    · simp only [PW]; exact ht.pw
    · simp only [ChainOK]; exact ⟨ht.chain, hc⟩
    · simp only [FracNe]; exact ht.frac

theorem TrsoAux.sh_leaf (σ₀ : Val) (pop : Option Var) (c p : List Var) : Shape card leaf σ₀ (.prob pop c p) :=
  ⟨by simp [NoOne], by simp [PW], by simp [ChainOK], by simp [FracNe]⟩

theorem TrsoAux.sh_isOne {e : Expr} (h : NoOne e) : isOne e = false := by
  cases e <;> simp [isOne, NoOne] at h ⊢

/-- `Shape` of the canonical output never shows a fraction directly inside a fraction -/
def TrsoAux.sh_FracFlat : Expr → Prop
  | .frac a b => isFrac a = false ∧ isFrac b = false
  | _ => True

/-- the un-summed children of an iterated sum over a joint leaf are those of the input -/
def TrsoAux.sh_Link (t t' : Expr) : Prop :=
  ∀ c' s', chain t' = some (c', s') → ∃ c₀ s₀, chain t = some (c₀, s₀) ∧
    ∀ n, (n ∈ c'.map (·.name) ∧ n ∉ s') ↔ (n ∈ c₀.map (·.name) ∧ n ∉ s₀)

/-- what the induction over `canon` carries -/
structure TrsoAux.sh_Out (card : Name → Nat) (leaf : LeafFn) (σ₀ : Val) (e e' : Expr) : Prop where
  shape : Shape card leaf σ₀ e'
  flat : TrsoAux.sh_FracFlat e'
  link : TrsoAux.sh_Link e e'

/-! ### flattening and `Product.safe` -/

mutual
theorem TrsoAux.sh_flattenExprs (σ₀ : Val) : ∀ (es : List Expr), (∀ e ∈ es, Shape card leaf σ₀ e) →
    ∀ y ∈ flattenExprs es, Shape card leaf σ₀ y
  | [], _, y, hy => by simp [flattenExprs] at hy
  | e :: es, h, y, hy => by
    simp only [flattenExprs, List.mem_append] at hy
    rcases hy with hy | hy
    · exact TrsoAux.sh_flattenExpr σ₀ e (h e (by simp)) y hy
    · exact TrsoAux.sh_flattenExprs σ₀ es (fun x hx => h x (by simp [hx])) y hy
theorem TrsoAux.sh_flattenExpr (σ₀ : Val) : ∀ (e : Expr), Shape card leaf σ₀ e →
    ∀ y ∈ flattenExpr e, Shape card leaf σ₀ y
  | .prod gs, h, y, hy => by
    simp only [flattenExpr] at hy
    exact TrsoAux.sh_flattenExprs σ₀ gs ((TrsoAux.sh_prod_iff σ₀ gs).1 h).2 y hy
  | .prob _ _ _, h, y, hy => by simp only [flattenExpr, List.mem_singleton] at hy; subst hy; exact h
  | .sum _ _, h, y, hy => by simp only [flattenExpr, List.mem_singleton] at hy; subst hy; exact h
  | .frac _ _, h, y, hy => by simp only [flattenExpr, List.mem_singleton] at hy; subst hy; exact h
  | .one, h, y, hy => by simp only [flattenExpr, List.mem_singleton] at hy; subst hy; exact h
  | .zero, h, y, hy => by simp only [flattenExpr, List.mem_singleton] at hy; subst hy; exact h
  | .q _ _, h, y, hy => by simp only [flattenExpr, List.mem_singleton] at hy; subst hy; exact h
end

mutual
theorem TrsoAux.sh_len_flattenExprs : ∀ (es : List Expr), PWList es → es.length ≤ (flattenExprs es).length
  | [], _ => by simp
  | e :: es, h => by
    simp only [flattenExprs, List.length_append, List.length_cons]
    have h1 := TrsoAux.sh_len_flattenExpr e h.1
    have h2 := TrsoAux.sh_len_flattenExprs es h.2
    omega
theorem TrsoAux.sh_len_flattenExpr : ∀ (e : Expr), PW e → 1 ≤ (flattenExpr e).length
  | .prod gs, h => by
    simp only [flattenExpr]
    simp only [PW] at h
    have := TrsoAux.sh_len_flattenExprs gs h.2
    omega
  | .prob _ _ _, _ => by simp [flattenExpr]
  | .sum _ _, _ => by simp [flattenExpr]
  | .frac _ _, _ => by simp [flattenExpr]
  | .one, _ => by simp [flattenExpr]
  | .zero, _ => by simp [flattenExpr]
  | .q _ _, _ => by simp [flattenExpr]
end

/-- `Product.safe` of at least two factors, none `One()` or `Zero()`, is the sorted product -/
theorem TrsoAux.sh_productSafe_eq (L : List Expr) (h1 : ∀ g ∈ L, isOne g = false) (h0 : ∀ g ∈ L, isZero g = false)
    (hl : 2 ≤ L.length) : productSafe L = .prod (ssort exprLt L) := by
  unfold productSafe
  have hf : L.filter (fun e => !isOne e) = L := List.filter_eq_self.2 (by intro g hg; simp [h1 g hg])
  have hz : L.any isZero = false := by
    rw [List.any_eq_false]; intro g hg; simp [h0 g hg]
  simp only [hf, hz]
  match L, hl with
  | a :: b :: r, _ => simp

theorem TrsoAux.sh_productSafe (σ₀ : Val) (L : List Expr) (hs : ∀ g ∈ L, Shape card leaf σ₀ g)
    (hc : ∀ g ∈ L, Clean g) (hl : 2 ≤ L.length) :
    productSafe L = .prod (ssort exprLt L) ∧ Shape card leaf σ₀ (.prod (ssort exprLt L)) := by
  refine ⟨TrsoAux.sh_productSafe_eq L (fun g hg => TrsoAux.sh_isOne (hs g hg).noOne)
    (fun g hg => clean_not_zero (hc g hg)) hl, ?_⟩
  rw [TrsoAux.sh_prod_iff]
  refine ⟨?_, fun g hg => hs g (by simpa using hg)⟩
  rw [(TrsoAux.ssort_perm exprLt L).length_eq]; exact hl

/-- the factors `x * y` multiplies -/
def TrsoAux.sh_factors : Expr → List Expr
  | .prod fs => fs
  | e => [e]

theorem TrsoAux.sh_factors_shape (σ₀ : Val) {x : Expr} (hx : Shape card leaf σ₀ x) (cx : Clean x) :
    1 ≤ (TrsoAux.sh_factors x).length ∧ (∀ g ∈ TrsoAux.sh_factors x, Shape card leaf σ₀ g) ∧
      ∀ g ∈ TrsoAux.sh_factors x, Clean g := by
  cases x with
  | prod fs =>
    simp only [TrsoAux.sh_factors]
    have := (TrsoAux.sh_prod_iff σ₀ fs).1 hx
    exact ⟨by omega, this.2, (cleanList_iff fs).1 cx⟩
  | _ => simp only [TrsoAux.sh_factors, List.mem_singleton, List.length_singleton]
         exact ⟨Nat.le_refl _, fun g hg => hg ▸ hx, fun g hg => hg ▸ cx⟩

/-- `x * y` for two non-fractions -/
theorem TrsoAux.sh_mul_eq {x y : Expr} (nx : NoOne x) (ny : NoOne y) (cx : Clean x) (cy : Clean y)
    (fx : isFrac x = false) (fy : isFrac y = false) :
    mul x y = .ok (productSafe (TrsoAux.sh_factors x ++ TrsoAux.sh_factors y)) := by
  unfold mul
  generalize size x + size y = k
  cases x with
  | one => exact nx.elim
  | zero => exact cx.elim
  | q _ _ => exact cx.elim
  | frac _ _ => simp [isFrac] at fx
  | prob pop c p =>
    cases y with
    | one => exact ny.elim
    | zero => exact cy.elim
    | q _ _ => exact cy.elim
    | frac _ _ => simp [isFrac] at fy
    | _ => simp [mulF, TrsoAux.sh_factors]
  | prod fs =>
    cases y with
    | one => exact ny.elim
    | zero => exact cy.elim
    | q _ _ => exact cy.elim
    | frac _ _ => simp [isFrac] at fy
    | _ => simp [mulF, TrsoAux.sh_factors]
  | sum t r =>
    cases y with
    | one => exact ny.elim
    | zero => exact cy.elim
    | q _ _ => exact cy.elim
    | frac _ _ => simp [isFrac] at fy
    | _ => simp [mulF, TrsoAux.sh_factors]

theorem TrsoAux.sh_mul (σ₀ : Val) {x y : Expr} (hx : Shape card leaf σ₀ x) (hy : Shape card leaf σ₀ y)
    (cx : Clean x) (cy : Clean y) (fx : isFrac x = false) (fy : isFrac y = false) :
    ∃ gs, mul x y = .ok (.prod gs) ∧ Shape card leaf σ₀ (.prod gs) ∧ Clean (.prod gs) := by
  obtain ⟨lx, sx, ccx⟩ := TrsoAux.sh_factors_shape σ₀ hx cx
  obtain ⟨ly, sy, ccy⟩ := TrsoAux.sh_factors_shape σ₀ hy cy
  have hs : ∀ g ∈ TrsoAux.sh_factors x ++ TrsoAux.sh_factors y, Shape card leaf σ₀ g := by
    intro g hg; rcases List.mem_append.1 hg with h | h
    · exact sx g h
    · exact sy g h
  have hc : ∀ g ∈ TrsoAux.sh_factors x ++ TrsoAux.sh_factors y, Clean g := by
    intro g hg; rcases List.mem_append.1 hg with h | h
    · exact ccx g h
    · exact ccy g h
  obtain ⟨e1, e2⟩ := TrsoAux.sh_productSafe σ₀ _ hs hc (by rw [List.length_append]; omega)
  refine ⟨_, ?_, e2, ?_⟩
  · rw [TrsoAux.sh_mul_eq hx.noOne hy.noOne cx cy fx fy, e1]
  · simp only [Clean]; rw [cleanList_iff]; intro g hg; exact hc g (by simpa using hg)

/-! ### `/` on canonical parts -/

theorem TrsoAux.sh_truediv (σ₀ : Val) {n' d' rv : Expr} (hn : Shape card leaf σ₀ n') (hd : Shape card leaf σ₀ d')
    (cn : Clean n') (cd : Clean d') (fn : TrsoAux.sh_FracFlat n') (fd : TrsoAux.sh_FracFlat d')
    (h : truediv n' d' = .ok rv) :
    ∃ a b, rv = .frac a b ∧ Shape card leaf σ₀ a ∧ Shape card leaf σ₀ b ∧ isFrac a = false ∧ isFrac b = false := by
  unfold truediv at h
  have base : ∀ {a : Expr}, Shape card leaf σ₀ a → Clean a → isFrac a = false →
      (match d' with
        | .one => Except.ok a
        | .frac n₂ d₂ => do mkFrac (← mul a d₂) n₂
        | _ => mkFrac a d') = Except.ok rv →
      ∃ a b, rv = .frac a b ∧ Shape card leaf σ₀ a ∧ Shape card leaf σ₀ b ∧ isFrac a = false ∧ isFrac b = false := by
    intro a ha ca fa h
    cases d' with
    | one => exact hd.noOne.elim
    | zero => exact cd.elim
    | q _ _ => exact cd.elim
    | frac n₂ d₂ =>
      obtain ⟨s1, s2, _⟩ := (TrsoAux.sh_frac_iff σ₀ n₂ d₂).1 hd
      obtain ⟨gs, hm, sg, cg⟩ := TrsoAux.sh_mul σ₀ ha s2 ca cd.2 fa fd.2
      simp only [hm, bind, Except.bind, mkFrac, clean_not_zero cd.1] at h
      cases h
      exact ⟨_, _, rfl, sg, s1, rfl, fd.1⟩
    | prob _ _ _ => simp only [mkFrac, isZero] at h; cases h; exact ⟨_, _, rfl, ha, hd, fa, rfl⟩
    | prod _ => simp only [mkFrac, isZero] at h; cases h; exact ⟨_, _, rfl, ha, hd, fa, rfl⟩
    | sum _ _ => simp only [mkFrac, isZero] at h; cases h; exact ⟨_, _, rfl, ha, hd, fa, rfl⟩
  cases n' with
  | zero => exact cn.elim
  | q _ _ => exact cn.elim
  | one => exact hn.noOne.elim
  | prob _ _ _ => exact base hn cn rfl h
  | prod _ => exact base hn cn rfl h
  | sum _ _ => exact base hn cn rfl h
  | frac a b =>
    obtain ⟨sa, sb, _⟩ := (TrsoAux.sh_frac_iff σ₀ a b).1 hn
    have fr : ∀ {y : Expr}, Shape card leaf σ₀ y → Clean y → isFrac y = false →
        (do mkFrac a (← mul b y)) = Except.ok rv →
        ∃ a b, rv = .frac a b ∧ Shape card leaf σ₀ a ∧ Shape card leaf σ₀ b ∧ isFrac a = false ∧ isFrac b = false := by
      intro y hy cy fy h
      obtain ⟨gs, hm, sg, cg⟩ := TrsoAux.sh_mul σ₀ sb hy cn.2 cy fn.2 fy
      simp only [hm, bind, Except.bind, mkFrac, isZero] at h
      cases h
      exact ⟨_, _, rfl, sa, sg, fn.1, rfl⟩
    cases d' with
    | one => exact hd.noOne.elim
    | zero => exact cd.elim
    | q _ _ => exact cd.elim
    | frac n₂ d₂ =>
      obtain ⟨s1, s2, _⟩ := (TrsoAux.sh_frac_iff σ₀ n₂ d₂).1 hd
      obtain ⟨g1, hm1, sg1, cg1⟩ := TrsoAux.sh_mul σ₀ sa s2 cn.1 cd.2 fn.1 fd.2
      obtain ⟨g2, hm2, sg2, cg2⟩ := TrsoAux.sh_mul σ₀ sb s1 cn.2 cd.1 fn.2 fd.1
      simp only [hm1, hm2, bind, Except.bind, mkFrac, isZero] at h
      cases h
      exact ⟨_, _, rfl, sg1, sg2, rfl, rfl⟩
    | prob _ _ _ => exact fr hd cd rfl h
    | prod _ => exact fr hd cd rfl h
    | sum _ _ => exact fr hd cd rfl h

/-- the fraction case once the parts are canonical: the re-check after the division keeps the fraction -/
theorem TrsoAux.sh_frac_out (S : LeafSem card leaf) (σ₀ : Val) {n d n' d' rv : Expr} (gn : Good S n) (gd : Good S d)
    (ndn : SumND n) (ndd : SumND d) (hn' : canon n = .ok n') (hd' : canon d = .ok d')
    (on : TrsoAux.sh_Out card leaf σ₀ n n') (od : TrsoAux.sh_Out card leaf σ₀ d d')
    (hne : denL card leaf n σ₀ ≠ denL card leaf d σ₀) (h : truediv n' d' = .ok rv) :
    TrsoAux.sh_Out card leaf σ₀ (.frac n d) (postFrac rv) := by
  have gn' : Good S n' := good_canonicalize S gn hn'
  have gd' : Good S d' := good_canonicalize S gd hd'
  have grv : Good S rv := good_truediv S gn' gd' h
  have hval : denL card leaf rv σ₀ = denL card leaf n σ₀ / denL card leaf d σ₀ := by
    rw [denL_truediv h, denL_canon S gn ndn hn', denL_canon S gd ndd hd']
  obtain ⟨a, b, rfl, sa, sb, fa, fb⟩ := TrsoAux.sh_truediv σ₀ on.shape od.shape gn'.1 gd'.1 on.flat od.flat h
  have pb : 0 < denL card leaf b σ₀ := good_pos S (e := b) ⟨grv.1.2, grv.2.2⟩ σ₀
  have pd : 0 < denL card leaf d σ₀ := good_pos S gd σ₀
  have hab : denL card leaf a σ₀ ≠ denL card leaf b σ₀ := by
    intro e
    rw [TrsoAux.denL_frac, e, div_self (ne_of_gt pb)] at hval
    exact hne ((div_eq_one_iff_eq (ne_of_gt pd)).1 hval.symm)
  have hpf : postFrac (.frac a b) = .frac a b := by
    simp only [postFrac, TrsoAux.sh_isOne sb.noOne]
    cases hq : exprEq a b with
    | true => exact absurd (congrArg (denL card leaf · σ₀) (exprEq_sound a b hq)) hab
    | false => simp
  rw [hpf]
  refine ⟨(TrsoAux.sh_frac_iff σ₀ a b).2 ⟨sa, sb, hab⟩, ⟨fa, fb⟩, ?_⟩
  intro c' s' hc
  simp [chain] at hc

/-! ### `Sum.simplify` -/

theorem TrsoAux.sh_sumSimplify_out (σ₀ : Val) {t t' : Expr} {r rs : List Var}
    (hrs : ∀ n, n ∈ rs.map (·.name) ↔ n ∈ r.map (·.name)) (ot : TrsoAux.sh_Out card leaf σ₀ t t')
    (hs : Shape card leaf σ₀ (.sum t r)) : TrsoAux.sh_Out card leaf σ₀ (.sum t r) (sumSimplify t' rs) := by
  obtain ⟨st, hck⟩ := (TrsoAux.sh_sum_iff σ₀ t r).1 hs
  -- the un-summed child that the input keeps
  have key : ∀ c' s', chain t' = some (c', s') → ∃ c₀ s₀, chain t = some (c₀, s₀) ∧
      (∀ n, (n ∈ c'.map (·.name) ∧ n ∉ s') ↔ (n ∈ c₀.map (·.name) ∧ n ∉ s₀)) ∧
      ∃ n ∈ c'.map (·.name), n ∉ s' ∧ n ∉ rs.map (·.name) := by
    intro c' s' hc
    obtain ⟨c₀, s₀, h1, h2⟩ := ot.link c' s' hc
    obtain ⟨n, hn, hns⟩ := hck c₀ (s₀ ++ r.map (·.name)) (by simp [chain, h1])
    have hns' : n ∉ s₀ ∧ n ∉ r.map (·.name) := by
      rw [List.mem_append, not_or] at hns; exact hns
    have := (h2 n).2 ⟨hn, hns'.1⟩
    exact ⟨c₀, s₀, h1, h2, n, this.1, this.2, by rw [hrs]; exact hns'.2⟩
  have hgen : TrsoAux.sh_Out card leaf σ₀ (.sum t r) (.sum t' rs) := by
      refine ⟨(TrsoAux.sh_sum_iff σ₀ _ _).2 ⟨ot.shape, ?_⟩, trivial, ?_⟩
      · intro c' s' hc
        simp only [chain, Option.map_eq_some_iff] at hc
        obtain ⟨p, hp, hpe⟩ := hc
        simp only [Prod.mk.injEq] at hpe
        obtain ⟨rfl, rfl⟩ := hpe
        obtain ⟨_, _, _, _, m, hm, hm1, hm2⟩ := key p.1 p.2 hp
        exact ⟨m, hm, by rw [List.mem_append, not_or]; exact ⟨hm1, hm2⟩⟩
      · intro c' s' hc
        simp only [chain, Option.map_eq_some_iff] at hc
        obtain ⟨p, hp, hpe⟩ := hc
        simp only [Prod.mk.injEq] at hpe
        obtain ⟨rfl, rfl⟩ := hpe
        obtain ⟨c₀, s₀, h1, h2, _⟩ := key p.1 p.2 hp
        refine ⟨c₀, s₀ ++ r.map (·.name), by simp [chain, h1], ?_⟩
        intro m
        have := h2 m
        rw [List.mem_append, not_or, List.mem_append, not_or, hrs m]
        tauto
  unfold sumSimplify
  split
  · rename_i pop c
    obtain ⟨c₀, s₀, h1, h2, n, hn, _, hnr⟩ := key c [] (by simp [chain])
    have hkeys : ∀ m, m ∈ (childDict c).map (·.1) ↔ m ∈ c.map (·.name) := by
      intro m; rw [TrsoAux.mem_childDict_keys]; simp
    have hin : chain (.sum t r) = some (c₀, s₀ ++ r.map (·.name)) := by simp [chain, h1]
    have h2' : ∀ m, m ∈ c.map (·.name) ↔ (m ∈ c₀.map (·.name) ∧ m ∉ s₀) := by
      intro m; have := h2 m; simpa using this
    simp only []
    split
    · exact hgen
    split
    · rename_i hse
      simp only [seteq', Bool.and_eq_true, TrsoAux.subset'_iff] at hse
      exact absurd (hse.2 n ((hkeys n).2 hn)) hnr
    · split
      · rename_i _ hsk
        rw [TrsoAux.subset'_iff] at hsk
        exact absurd (hsk n ((hkeys n).2 hn)) hnr
      · split
        · have hnames := fun m => TrsoAux.mem_kept_names c (fun p => decide (p.1 ∉ rs.map (·.name)))
            (fun n => n ∉ rs.map (·.name)) (by intro p; simp) m
          refine ⟨TrsoAux.sh_leaf σ₀ _ _ _, trivial, ?_⟩
          intro c' s' hc
          simp only [chain, Option.some.injEq, Prod.mk.injEq] at hc
          obtain ⟨rfl, rfl⟩ := hc
          refine ⟨c₀, _, hin, ?_⟩
          intro m
          have := hnames m
          simp only [vnames] at this
          rw [this, hkeys m, h2' m, hrs m, List.mem_append, not_or]
          simp only [List.not_mem_nil, not_false_eq_true, and_true]
          tauto
        · have hnames := fun m => TrsoAux.mem_kept_names c
            (fun p => decide (p.1 ∉ (rs.map (·.name)).filter (fun x => decide (x ∈ (childDict c).map (·.1)))))
            (fun n => n ∉ (rs.map (·.name)).filter (fun x => decide (x ∈ (childDict c).map (·.1))))
            (by intro p; simp) m
          have hnames' : ∀ m, m ∈ (sortVars (((childDict c).filter (fun p => decide (p.1 ∉ (rs.map (·.name)).filter
              (fun x => decide (x ∈ (childDict c).map (·.1)))))).map (·.2))).map (·.name) ↔
              m ∈ c.map (·.name) ∧ m ∉ rs.map (·.name) := by
            intro m
            have := hnames m
            simp only [vnames] at this
            rw [this, hkeys m]
            simp only [List.mem_filter, decide_eq_true_eq, hkeys m]
            tauto
          have hextra : ∀ m, m ∈ (rs.filter (fun r => decide (r.name ∉ (rs.map (·.name)).filter
              (fun x => decide (x ∈ (childDict c).map (·.1)))))).map (·.name) → m ∈ rs.map (·.name) := by
            intro m hm
            obtain ⟨v, hv, rfl⟩ := List.mem_map.1 hm
            exact List.mem_map.2 ⟨v, (List.mem_filter.1 hv).1, rfl⟩
          refine ⟨(TrsoAux.sh_sum_iff σ₀ _ _).2 ⟨TrsoAux.sh_leaf σ₀ _ _ _, ?_⟩, trivial, ?_⟩
          · intro c' s' hc
            simp only [chain, Option.map_some, Option.some.injEq, Prod.mk.injEq, List.nil_append] at hc
            obtain ⟨rfl, rfl⟩ := hc
            exact ⟨n, (hnames' n).2 ⟨hn, hnr⟩, fun hm => hnr (hextra n hm)⟩
          · intro c' s' hc
            simp only [chain, Option.map_some, Option.some.injEq, Prod.mk.injEq, List.nil_append] at hc
            obtain ⟨rfl, rfl⟩ := hc
            refine ⟨c₀, _, hin, ?_⟩
            intro m
            rw [hnames' m, h2' m, hrs m, List.mem_append, not_or]
            constructor
            · rintro ⟨⟨⟨a1, a2⟩, a3⟩, _⟩; exact ⟨a1, a2, a3⟩
            · rintro ⟨a1, a2, a3⟩
              exact ⟨⟨⟨a1, a2⟩, a3⟩, fun hm => a3 ((hrs m).1 (hextra m hm))⟩
  · exact hgen

theorem TrsoAux.sh_sumSafe_out (σ₀ : Val) {t t' : Expr} {r : List Var} (ct' : Clean t')
    (ot : TrsoAux.sh_Out card leaf σ₀ t t') (hs : Shape card leaf σ₀ (.sum t r)) :
    TrsoAux.sh_Out card leaf σ₀ (.sum t r) (sumSafe t' r true) := by
  unfold sumSafe
  simp only []
  split
  · rename_i hemp
    have h0 : sortVars r = [] := by simpa using hemp
    have hr : r = [] := by
      by_contra hne; exact sortVars_nonempty hne h0
    subst hr
    refine ⟨ot.shape, ot.flat, ?_⟩
    intro c' s' hc
    obtain ⟨c₀, s₀, h1, h2⟩ := ot.link c' s' hc
    exact ⟨c₀, s₀ ++ [], by simp [chain, h1], by simpa using h2⟩
  · simp only [clean_not_zero ct', Bool.false_eq_true, if_false, if_true]
    exact TrsoAux.sh_sumSimplify_out σ₀ (by intro n; simp) ot hs

/-! ### the induction over `canon` -/

theorem TrsoAux.sh_leaf_out (σ₀ : Val) (pop : Option Var) (c p : List Var) :
    TrsoAux.sh_Out card leaf σ₀ (.prob pop c p) (.prob pop (sortByName c) (sortByName p)) := by
  refine ⟨TrsoAux.sh_leaf σ₀ _ _ _, trivial, ?_⟩
  intro c' s' hc
  have hperm : (sortByName p).Perm p := TrsoAux.ssort_perm _ _
  cases hp : sortByName p with
  | nil =>
    rw [hp] at hc hperm
    have : p = [] := hperm.symm.eq_nil
    subst this
    simp only [chain, Option.some.injEq, Prod.mk.injEq] at hc
    obtain ⟨rfl, rfl⟩ := hc
    exact ⟨c, [], by simp [chain], by intro n; simp⟩
  | cons x xs => rw [hp] at hc; simp [chain] at hc

theorem TrsoAux.sh_prod_out (σ₀ : Val) (fs : List Expr) {es : List Expr} (hs : ∀ x ∈ es, Shape card leaf σ₀ x)
    (hc : CleanList es) (hl : 2 ≤ es.length) :
    (∃ gs, productSafe (flattenExprs es) = .prod gs) ∧
      TrsoAux.sh_Out card leaf σ₀ (.prod fs) (productSafe (flattenExprs es)) := by
  have hpw : PWList es := (pwList_iff es).2 (fun x hx => (hs x hx).pw)
  have len := TrsoAux.sh_len_flattenExprs es hpw
  obtain ⟨e1, e2⟩ := TrsoAux.sh_productSafe σ₀ (flattenExprs es) (TrsoAux.sh_flattenExprs σ₀ es hs)
    ((cleanList_iff _).1 (cleanList_flattenExprs es hc)) (by omega)
  rw [e1]
  exact ⟨⟨_, rfl⟩, e2, trivial, by intro c' s' hc; simp [chain] at hc⟩

theorem TrsoAux.sh_cons_step (σ₀ : Val) (e : Expr) {x' : Expr} {xs xs' : List Expr} (o : Shape card leaf σ₀ x')
    (h : (∀ x ∈ xs', Shape card leaf σ₀ x) ∧ xs.length ≤ xs'.length) :
    (∀ x ∈ x' :: xs', Shape card leaf σ₀ x) ∧ (e :: xs).length ≤ (x' :: xs').length := by
  refine ⟨?_, by simp only [List.length_cons]; omega⟩
  intro x hx
  rcases List.mem_cons.1 hx with rfl | hx
  · exact o
  · exact h.1 x hx

mutual
theorem TrsoAux.sh_canon_aux (S : LeafSem card leaf) (σ₀ : Val) : ∀ (e e' : Expr), Good S e → SumND e →
    Shape card leaf σ₀ e → canon e = .ok e' → TrsoAux.sh_Out card leaf σ₀ e e'
  | .prob pop c p, e', _, _, _, h => by
    simp [canon] at h; cases h
    exact TrsoAux.sh_leaf_out σ₀ pop c p
  | .prod fs, e', hg, hnd, hs, h => by
    simp only [canon, bind, Except.bind] at h
    split at h
    · cases h
    · rename_i es hes; cases h
      obtain ⟨hl, hsf⟩ := (TrsoAux.sh_prod_iff σ₀ fs).1 hs
      obtain ⟨h1, h2⟩ := TrsoAux.sh_canonFlat_aux S σ₀ fs es ⟨hg.1, hg.2⟩ hnd hsf hes
      obtain ⟨es', hes', ces⟩ := canonFlat_ok fs hg.1
      rw [hes] at hes'; cases hes'
      exact (TrsoAux.sh_prod_out σ₀ fs h1 ces (by omega)).2
  | .sum t r, e', hg, hnd, hs, h => by
    simp only [canon, bind, Except.bind] at h
    split at h
    · cases h
    · rename_i t' ht'; cases h
      have gt : Good S t := ⟨hg.1, hg.2.1⟩
      have gt' : Good S t' := good_canonicalize S gt ht'
      exact TrsoAux.sh_sumSafe_out σ₀ gt'.1
        (TrsoAux.sh_canon_aux S σ₀ t t' gt hnd.1 ((TrsoAux.sh_sum_iff σ₀ t r).1 hs).1 ht') hs
  | .frac n d, e', hg, hnd, hs, h => by
    simp only [canon, bind, Except.bind] at h
    split at h
    · cases h
    · rename_i n' hn'
      split at h
      · cases h
      · rename_i d' hd'
        simp only [pure, Except.pure] at h
        have gn : Good S n := ⟨hg.1.1, hg.2.1⟩
        have gd : Good S d := ⟨hg.1.2, hg.2.2⟩
        obtain ⟨sn, sd, hne⟩ := (TrsoAux.sh_frac_iff σ₀ n d).1 hs
        have on := TrsoAux.sh_canon_aux S σ₀ n n' gn hnd.1 sn hn'
        have od := TrsoAux.sh_canon_aux S σ₀ d d' gd hnd.2 sd hd'
        split at h
        · rename_i h1
          rw [TrsoAux.sh_isOne od.shape.noOne] at h1; cases h1
        · split at h
          · rename_i hq
            have heq := exprEq_sound n' d' hq
            exact absurd (by
              rw [← denL_canon S gn hnd.1 hn' σ₀, ← denL_canon S gd hnd.2 hd' σ₀, heq]) hne
          · split at h
            · cases h
            · rename_i rv hrv
              cases h
              exact TrsoAux.sh_frac_out S σ₀ gn gd hnd.1 hnd.2 hn' hd' on od hne hrv
  | .one, _, _, _, hs, _ => hs.noOne.elim
  | .zero, _, hg, _, _, _ => hg.1.elim
  | .q _ _, _, hg, _, _, _ => hg.1.elim
theorem TrsoAux.sh_canonFlat_aux (S : LeafSem card leaf) (σ₀ : Val) : ∀ (fs es : List Expr), GoodList S fs →
    SumNDList fs → (∀ x ∈ fs, Shape card leaf σ₀ x) → canonFlat fs = .ok es →
    (∀ x ∈ es, Shape card leaf σ₀ x) ∧ fs.length ≤ es.length
  | [], es, _, _, _, h => by simp [canonFlat] at h; cases h; simp
  | .prod gs :: xs, es, hg, hnd, hs, h => by
    simp only [canonFlat, bind, Except.bind] at h
    split at h
    · cases h
    · rename_i gs' hgs
      split at h
      · cases h
      · rename_i xs' hxs
        cases h
        obtain ⟨hl, hsg⟩ := (TrsoAux.sh_prod_iff σ₀ gs).1 (hs _ (by simp))
        obtain ⟨g1, g2⟩ := TrsoAux.sh_canonFlat_aux S σ₀ gs gs' ⟨hg.1.1, hg.2.1⟩ hnd.1 hsg hgs
        obtain ⟨h1, h2⟩ := TrsoAux.sh_canonFlat_aux S σ₀ xs xs' ⟨hg.1.2, hg.2.2⟩ hnd.2
          (fun x hx => hs x (by simp [hx])) hxs
        refine ⟨?_, by simp only [List.length_cons, List.length_append]; omega⟩
        intro x hx
        rcases List.mem_append.1 hx with hx | hx
        · exact g1 x hx
        · exact h1 x hx
  | .prob pop c p :: xs, es, hg, hnd, hs, h => by
    simp only [canonFlat, bind, Except.bind] at h
    split at h
    · cases h
    · rename_i x' hx'
      split at h
      · cases h
      · rename_i xs' hxs
        cases h
        exact TrsoAux.sh_cons_step σ₀ _
          (TrsoAux.sh_canon_aux S σ₀ _ x' ⟨hg.1.1, hg.2.1⟩ hnd.1 (hs _ (by simp)) hx').shape
          (TrsoAux.sh_canonFlat_aux S σ₀ xs xs' ⟨hg.1.2, hg.2.2⟩ hnd.2 (fun x hx => hs x (by simp [hx])) hxs)
  | .sum t r :: xs, es, hg, hnd, hs, h => by
    simp only [canonFlat, bind, Except.bind] at h
    split at h
    · cases h
    · rename_i x' hx'
      split at h
      · cases h
      · rename_i xs' hxs
        cases h
        exact TrsoAux.sh_cons_step σ₀ _
          (TrsoAux.sh_canon_aux S σ₀ _ x' ⟨hg.1.1, hg.2.1⟩ hnd.1 (hs _ (by simp)) hx').shape
          (TrsoAux.sh_canonFlat_aux S σ₀ xs xs' ⟨hg.1.2, hg.2.2⟩ hnd.2 (fun x hx => hs x (by simp [hx])) hxs)
  | .frac n d :: xs, es, hg, hnd, hs, h => by
    simp only [canonFlat, bind, Except.bind] at h
    split at h
    · cases h
    · rename_i x' hx'
      split at h
      · cases h
      · rename_i xs' hxs
        cases h
        exact TrsoAux.sh_cons_step σ₀ _
          (TrsoAux.sh_canon_aux S σ₀ _ x' ⟨hg.1.1, hg.2.1⟩ hnd.1 (hs _ (by simp)) hx').shape
          (TrsoAux.sh_canonFlat_aux S σ₀ xs xs' ⟨hg.1.2, hg.2.2⟩ hnd.2 (fun x hx => hs x (by simp [hx])) hxs)
  | .one :: _, _, _, _, hs, _ => (hs .one (by simp)).noOne.elim
  | .zero :: _, _, hg, _, _, _ => hg.1.1.elim
  | .q _ _ :: _, _, hg, _, _, _ => hg.1.1.elim
end

/-- **`canonicalize` preserves the shape invariant** -/
theorem shape_canon (S : LeafSem card leaf) (σ₀ : Val) {e e' : Expr} (hg : Good S e) (hnd : SumND e)
    (hs : Shape card leaf σ₀ e) (h : canon e = .ok e') : Shape card leaf σ₀ e' :=
  (TrsoAux.sh_canon_aux S σ₀ e e' hg hnd hs h).shape

theorem shape_canonicalize (S : LeafSem card leaf) (σ₀ : Val) {e e' : Expr} (hg : Good S e) (hnd : SumND e)
    (hs : Shape card leaf σ₀ e) (h : canonicalize e = .ok e') : Shape card leaf σ₀ e' :=
  shape_canon S σ₀ hg hnd hs h

/-- the canonical form of a product of at least two factors (none of them `One()`) is a product again -/
theorem canon_prod_isProd (S : LeafSem card leaf) (σ₀ : Val) {fs : List Expr} {e' : Expr} (hg : Good S (.prod fs))
    (hnd : SumND (.prod fs)) (hs : Shape card leaf σ₀ (.prod fs)) (h : canon (.prod fs) = .ok e') :
    ∃ gs, e' = .prod gs := by
  simp only [canon, bind, Except.bind] at h
  split at h
  · cases h
  · rename_i es hes; cases h
    obtain ⟨hl, hsf⟩ := (TrsoAux.sh_prod_iff σ₀ fs).1 hs
    obtain ⟨h1, h2⟩ := TrsoAux.sh_canonFlat_aux S σ₀ fs es ⟨hg.1, hg.2⟩ hnd hsf hes
    obtain ⟨es', hes', ces⟩ := canonFlat_ok fs hg.1
    rw [hes] at hes'; cases hes'
    exact (TrsoAux.sh_prod_out σ₀ fs h1 ces (by omega)).1

end Trso
end Y0
