/-
  Y0.Lemmas.LatentEvans — `evans_simplify`: the LV-DAG of an acyclic mixed graph is acyclic, marking
  extra nodes latent keeps it well formed, so the simplification applies.
-/
import Y0.Lemmas.LatentOfMG
import Y0.Lemmas.LatentSimplify

namespace Y0.LV
open MG Relation

theorem ofMG_acyclic (fresh : Nat → Nat) (hinj : Function.Injective fresh) (G : MG Nat) (hG : G.WF)
    (ha : G.Acyclic) : (ofMG fresh G).Acyclic := by
  obtain ⟨w, f, o, hed, _⟩ := ofMG_spec fresh hinj G hG
  have key : ∀ x y, TransGen (ofMG fresh G).Edge x y →
      (ofMG fresh G).Observed y ∧ (x ∈ G.nodes → TransGen G.DiEdge x y) := by
    intro x y h
    induction h with
    | single h =>
      exact ⟨⟨(w.edge_mem _ h).2, f _ h⟩, fun hx => .single ((hed _ _ hx).1 h)⟩
    | tail _ h ih =>
      exact ⟨⟨(w.edge_mem _ h).2, f _ h⟩, fun hx => (ih.2 hx).tail ((hed _ _ ((o _).1 ih.1)).1 h)⟩
  intro x h
  obtain ⟨h1, h2⟩ := key x x h
  exact ha x (h2 ((o x).1 h1))

theorem wf_markLatent (D : LV) (extra : List Nat) (hw : D.WF) : (D.markLatent extra).WF where
  nodes_nodup := hw.nodes_nodup
  edges_nodup := hw.edges_nodup
  edge_mem := hw.edge_mem
  latent_mem := by
    intro l hl
    simp only [markLatent, List.mem_append, List.mem_filter] at hl
    rcases hl with h | h
    · exact hw.latent_mem l h
    · exact h.1
  tagged := hw.tagged

theorem markLatent_nil (D : LV) : D.markLatent [] = D := by
  cases D; simp [markLatent]

end Y0.LV
