/-
  Y0.Lemmas.CfLemma24 — Lemma 24 of Shpitser & Pearl for the test AS CODED in cg.py (`lemma24Holds`), and with it the
  unconditional probability clauses of C18.

  Part 1 (this file, section A): structural facts about `mergePw` (node set, parents of the surviving nodes).
  Part 2 (section B): supports restricted to a set of variable names; relabelling preserves them.
  Part 3 (section C): the representation invariant — every parent of every un-intervened node of the current graph is
          represented by a parent node that takes the same value (wherever the conjuncts about EARLIER variables hold).
  Part 4 (section D): the test implies the conclusion of Lemma 24; the loop preserves everything.
-/
import Y0.Lemmas.CfCgSem
import Y0.Lemmas.CfBasic

namespace Y0
namespace Cf
open Fscm

/-! ## A. structure of `mergePw` -/

/-- no self loops (directed or bidirected) -/
def NoLoops (cf : MG Var) : Prop := (∀ e ∈ cf.di, e.1 ≠ e.2) ∧ (∀ e ∈ cf.bi, e.1 ≠ e.2)

theorem mergeOrder_ne (a b : Var) (hab : a ≠ b) : (mergeOrder a b).1 ≠ (mergeOrder a b).2 := by
  rcases mergeOrder_cases a b with h | h <;> rw [h]
  · exact hab
  · exact Ne.symm hab

theorem mergeOrder_mem (a b : Var) (cf : MG Var) (ha : a ∈ cf.nodes) (hb : b ∈ cf.nodes) :
    (mergeOrder a b).1 ∈ cf.nodes ∧ (mergeOrder a b).2 ∈ cf.nodes := by
  rcases mergeOrder_cases a b with h | h <;> rw [h]
  · exact ⟨ha, hb⟩
  · exact ⟨hb, ha⟩

/-- directed edges after the merge, with `n1 = kept`, `n2 = removed` -/
theorem mem_di_mergePw (cf : MG Var) (a b : Var) (x y : Var) :
    (x, y) ∈ (mergePw cf a b).1.di ↔
      ((x, y) ∈ cf.di ∧ x ≠ (mergeOrder a b).2 ∧ y ≠ (mergeOrder a b).2) ∨
      (x = (mergeOrder a b).1 ∧ ((mergeOrder a b).2, y) ∈ cf.di) := by
  rw [mergePw_graph, MG.mem_di_fromEdges]
  simp only [List.mem_append, List.mem_filter, List.mem_map, decide_eq_true_eq]
  constructor
  · rintro (⟨h, h1, h2⟩ | ⟨e, ⟨he, he1⟩, heq⟩)
    · exact Or.inl ⟨h, h1, h2⟩
    · simp only [Prod.mk.injEq] at heq
      obtain ⟨rfl, rfl⟩ := heq
      right
      refine ⟨rfl, ?_⟩
      rw [← he1]; exact he
  · rintro (⟨h, h1, h2⟩ | ⟨rfl, h⟩)
    · exact Or.inl ⟨h, h1, h2⟩
    · exact Or.inr ⟨((mergeOrder a b).2, y), ⟨h, rfl⟩, rfl⟩

theorem mem_nodes_mergePw (cf : MG Var) (hwf : cf.WF) (a b : Var) (ha : a ∈ cf.nodes) (hb : b ∈ cf.nodes) (x : Var)
    (hx : x ∈ (mergePw cf a b).1.nodes) : x ∈ cf.nodes := by
  obtain ⟨h1, _⟩ := mergeOrder_mem a b cf ha hb
  rw [mergePw_graph, MG.mem_nodes_fromEdges] at hx
  simp only [List.mem_append, List.mem_filter, List.mem_map] at hx
  rcases hx with ⟨hx, _⟩ | ⟨e, he, hxe⟩ | ⟨e, he, hxe⟩
  · exact hx
  · rcases he with ⟨he, _⟩ | ⟨e', ⟨he', _⟩, rfl⟩
    · rcases hxe with rfl | rfl
      · exact (hwf.di_mem e he).1
      · exact (hwf.di_mem e he).2
    · rcases hxe with rfl | rfl
      · exact h1
      · exact (hwf.di_mem e' he').2
  · rcases he with (⟨he, _⟩ | ⟨e', ⟨he', _⟩, rfl⟩) | ⟨e', ⟨he', _⟩, rfl⟩
    · rcases hxe with rfl | rfl
      · exact (hwf.bi_mem e he).1
      · exact (hwf.bi_mem e he).2
    · rcases hxe with rfl | rfl
      · exact h1
      · exact (hwf.bi_mem e' he').2
    · rcases hxe with rfl | rfl
      · exact (hwf.bi_mem e' he').1
      · exact h1

theorem removed_not_mem_mergePw (cf : MG Var) (hnl : NoLoops cf) (a b : Var) (hab : a ≠ b) :
    (mergeOrder a b).2 ∉ (mergePw cf a b).1.nodes := by
  have hne := mergeOrder_ne a b hab
  intro hx
  rw [mergePw_graph, MG.mem_nodes_fromEdges] at hx
  simp only [List.mem_append, List.mem_filter, List.mem_map, Bool.and_eq_true, decide_eq_true_eq] at hx
  rcases hx with ⟨_, h, _⟩ | ⟨e, he, hxe⟩ | ⟨e, he, hxe⟩
  · exact h rfl
  · rcases he with ⟨_, h1, h2⟩ | ⟨e', ⟨he', h1⟩, rfl⟩
    · rcases hxe with h | h
      · exact h1 h.symm
      · exact h2 h.symm
    · rcases hxe with h | h
      · exact hne h.symm
      · simp only at h
        exact hnl.1 e' he' (by rw [h1, ← h])
  · rcases he with (⟨_, h1, h2⟩ | ⟨e', ⟨he', h1, _⟩, rfl⟩) | ⟨e', ⟨he', h1, _⟩, rfl⟩
    · rcases hxe with h | h
      · exact h1 h.symm
      · exact h2 h.symm
    · rcases hxe with h | h
      · exact hne h.symm
      · simp only at h
        exact hnl.2 e' he' (by rw [h1, ← h])
    · rcases hxe with h | h
      · simp only at h
        exact hnl.2 e' he' (by rw [h1, ← h])
      · exact hne h.symm

theorem noLoops_mergePw (cf : MG Var) (hnl : NoLoops cf) (a b : Var)
    (hnoedge : ((mergeOrder a b).2, (mergeOrder a b).1) ∉ cf.di) : NoLoops (mergePw cf a b).1 := by
  constructor
  · intro e he
    have := (mem_di_mergePw cf a b e.1 e.2).1 (by simpa using he)
    rcases this with ⟨h, _, _⟩ | ⟨h1, h2⟩
    · exact hnl.1 e h
    · intro heq
      rw [← heq, h1] at h2
      exact hnoedge h2
  · intro e he
    rw [mergePw_graph] at he
    have he := MG.mem_bi_fromEdges_sub _ _ _ _ he
    simp only [List.mem_append, List.mem_filter, List.mem_map, decide_eq_true_eq] at he
    rcases he with (⟨h, _⟩ | ⟨e', ⟨_, _, h2⟩, rfl⟩) | ⟨e', ⟨_, _, h2⟩, rfl⟩
    · exact hnl.2 e h
    · exact fun h => h2 h.symm
    · exact h2

/-! ## B. supports restricted to a set of variable names -/

/-- all conjuncts about variables whose NAME satisfies `N` hold at `u` -/
def allHoldN (M : Model) (ν : BaseValues) (N : Name → Prop) (ev : Event) (u : NoisePoint) : Prop :=
  ∀ p ∈ ev, N p.1.name → holds M u (conjunctOf ν p) = true

theorem allHoldN_true (M : Model) (ν : BaseValues) (ev : Event) (u : NoisePoint) :
    allHoldN M ν (fun _ => True) ev u ↔ allHold M ν ev u := by
  simp [allHoldN, allHold]

/-- relabelling a conjunct from `elim` to `pref` (two copies of ONE variable) preserves every name-restricted support,
provided the two copies agree wherever the restricted remaining conjuncts hold (only needed when the variable is in `N`) -/
theorem allHoldN_updateEvent (M : Model) (ν : BaseValues) (N : Name → Prop) (ev : Event) (pref elim : Var)
    (hnd : ev.keys.Nodup) (hpe : pref ≠ elim) (hn : pref.name = elim.name) (hinc : isInconsistent ev pref elim = false)
    (hL : N pref.name → ∀ u, (∀ p ∈ ev, N p.1.name → p.1 ≠ pref → p.1 ≠ elim → holds M u (conjunctOf ν p) = true) →
      valueOf M ν u pref = valueOf M ν u elim)
    (u : NoisePoint) : allHoldN M ν N (updateEvent ev pref elim) u ↔ allHoldN M ν N ev u := by
  unfold updateEvent
  cases he : ev.get? elim with
  | none => exact Iff.rfl
  | some v =>
    simp only
    have hmem : ∀ p, p ∈ (ev.set pref v).erase elim ↔ (p ∈ ev ∧ p.1 ≠ pref ∧ p.1 ≠ elim) ∨ p = (pref, v) := by
      intro p
      rw [Event.mem_erase, Event.mem_set]
      constructor
      · rintro ⟨(⟨hp, h1⟩ | rfl), h2⟩
        · exact Or.inl ⟨hp, h1, h2⟩
        · exact Or.inr rfl
      · rintro (⟨hp, h1, h2⟩ | rfl)
        · exact ⟨Or.inl ⟨hp, h1⟩, h2⟩
        · exact ⟨Or.inr rfl, hpe⟩
    have helim : (elim, v) ∈ ev := Event.get?_mem he
    have hkeyE : ∀ p ∈ ev, p.1 = elim → p = (elim, v) := by
      intro p hp hk
      have := Event.get?_of_mem_nodup hnd hp
      rw [hk, he] at this
      rcases p with ⟨k, w⟩
      simp only at hk this
      subst hk
      simp only [Option.some.injEq] at this
      rw [this]
    have hkeyP : ∀ p ∈ ev, p.1 = pref → p.2 = v := by
      intro p hp hk
      have hg := Event.get?_of_mem_nodup hnd hp
      rw [hk] at hg
      unfold isInconsistent at hinc
      rw [hg, he] at hinc
      simpa using hinc
    constructor
    · intro h p hp hNp
      have hrest : ∀ q ∈ ev, N q.1.name → q.1 ≠ pref → q.1 ≠ elim → holds M u (conjunctOf ν q) = true :=
        fun q hq hNq h1 h2 => h q ((hmem q).2 (Or.inl ⟨hq, h1, h2⟩)) hNq
      by_cases h1 : p.1 = pref
      · have hNpref : N pref.name := by rw [← h1]; exact hNp
        have hpv : holds M u (conjunctOf ν (pref, v)) = true := h _ ((hmem _).2 (Or.inr rfl)) hNpref
        have : p = (pref, v) := by
          rcases p with ⟨k, w⟩
          simp only at h1
          have := hkeyP _ hp h1
          simp only at this
          rw [h1, this]
        rw [this]; exact hpv
      · by_cases h2 : p.1 = elim
        · have hNpref : N pref.name := by rw [hn, ← h2]; exact hNp
          have hpv : holds M u (conjunctOf ν (pref, v)) = true := h _ ((hmem _).2 (Or.inr rfl)) hNpref
          have heq := hL hNpref u hrest
          rw [hkeyE p hp h2]
          rw [holds_conjunctOf] at hpv ⊢
          rw [← heq]; exact hpv
        · exact hrest p hp hNp h1 h2
    · intro h p hp hNp
      rcases (hmem p).1 hp with ⟨hp', _, _⟩ | rfl
      · exact h p hp' hNp
      · have hrest : ∀ q ∈ ev, N q.1.name → q.1 ≠ pref → q.1 ≠ elim → holds M u (conjunctOf ν q) = true :=
          fun q hq hNq _ _ => h q hq hNq
        have heq := hL hNp u hrest
        have hev := h _ helim (by simp only; rw [← hn]; exact hNp)
        rw [holds_conjunctOf] at hev ⊢
        rw [heq]; exact hev

/-! ## C. the setting and the invariants -/

/-- `n` comes strictly before `v` in the processing order `topo` -/
def Before (topo : List Name) (v n : Name) : Prop := n ∈ topo.takeWhile (· ≠ v)

theorem before_ne {topo : List Name} {v n : Name} (h : Before topo v n) : n ≠ v := by
  unfold Before at h
  induction topo with
  | nil => simp at h
  | cons x xs ih =>
    simp only [List.takeWhile_cons] at h
    by_cases hxv : x = v
    · simp [hxv] at h
    · simp only [hxv, ne_eq, not_false_eq_true, decide_true, if_true] at h
      rcases List.mem_cons.1 h with rfl | h'
      · exact hxv
      · exact ih h'

theorem before_trans {topo : List Name} {v p n : Name} (hp : Before topo v p) (hn : Before topo p n) : Before topo v n := by
  unfold Before at *
  induction topo with
  | nil => simp at hn
  | cons x xs ih =>
    simp only [List.takeWhile_cons] at hp hn ⊢
    by_cases hxv : x = v
    · simp [hxv] at hp
    · simp only [hxv, ne_eq, not_false_eq_true, decide_true, if_true] at hp ⊢
      by_cases hxp : x = p
      · simp [hxp] at hn
      · simp only [hxp, ne_eq, not_false_eq_true, decide_true, if_true] at hn
        rcases List.mem_cons.1 hn with rfl | hn'
        · simp
        · rcases List.mem_cons.1 hp with rfl | hp'
          · exact absurd rfl hxp
          · exact List.mem_cons_of_mem _ (ih hp' hn')

/-- the fixed data of one run of the construction -/
structure Ctx where
  M : Model
  ν : BaseValues
  G : MG Name
  topo : List Name
  ev0 : Event

/-- where the conjuncts of the ORIGINAL event about variables processed strictly before `v` hold -/
def Ctx.Early (c : Ctx) (v : Name) (u : NoisePoint) : Prop := allHoldN c.M c.ν (Before c.topo v) c.ev0 u

/-- a set of names closed under "processed before" -/
def Ctx.PrefixClosed (c : Ctx) (N : Name → Prop) : Prop := ∀ v, N v → ∀ n, Before c.topo v n → N n

theorem Ctx.prefixClosed_before (c : Ctx) (v : Name) : c.PrefixClosed (Before c.topo v) :=
  fun _ hp _ hn => before_trans hp hn

/-- what we need from the model and the order: parents are processed before their children -/
structure Ctx.OK (c : Ctx) : Prop where
  compat : Compatible c.M c.G
  distinct : c.ν.Distinct
  parentsFirst : ∀ v, ∀ p ∈ c.M.pa v, Before c.topo v p

/-- a node of the parallel-worlds graph in canonical form: `Variable(name)` or `CounterfactualVariable(name, world)` over a
variable of the model with a consistent subscript set -/
structure NodeOK (c : Ctx) (x : Var) : Prop where
  star : x.star = none
  notIv : x.isIv = false
  inModel : x.name ∈ c.M.order
  subs : ConsistentSubs x.ivs

theorem NodeOK.ext {c : Ctx} {x y : Var} (hx : NodeOK c x) (hy : NodeOK c y) (hn : x.name = y.name) (hi : x.ivs = y.ivs) :
    x = y := by
  rcases x with ⟨n1, s1, i1, v1⟩
  rcases y with ⟨n2, s2, i2, v2⟩
  have h1 := hx.star; have h2 := hy.star; have h3 := hx.notIv; have h4 := hy.notIv
  simp only at hn hi h1 h2 h3 h4
  subst hn hi h1 h2 h3 h4
  rfl

/-- the representation invariant of the current graph -/
structure RepInv (c : Ctx) (cf : MG Var) : Prop where
  wf : cf.WF
  noLoops : NoLoops cf
  proj : EdgeProj c.G cf
  nodes : ∀ x ∈ cf.nodes, NodeOK c x
  uniq : ∀ x y a, (x, a) ∈ cf.di → (y, a) ∈ cf.di → x.name = y.name → x = y
  rep : ∀ a ∈ cf.nodes, isNotSelfIntervened a = true → ∀ p ∈ c.M.pa a.name,
    ∃ x, (x, a) ∈ cf.di ∧ x.name = p ∧ ∀ u, c.Early p u → valueOf c.M c.ν u x = solve c.M u (worldOf c.ν a.ivs) p

/-- the invariant of the current event -/
structure SupInv (c : Ctx) (ev : Event) : Prop where
  sup : ∀ N, c.PrefixClosed N → ∀ u, allHoldN c.M c.ν N ev u ↔ allHoldN c.M c.ν N c.ev0 u
  ok : EvOK ev

/-! ## D. the test of cg.py implies the conclusion of Lemma 24 -/

theorem forced_none_of_nsi (ν : BaseValues) (a : Var) (h : isNotSelfIntervened a = true) :
    forced (worldOf ν a.ivs) a.name = none := by
  unfold isNotSelfIntervened at h
  rw [List.all_eq_true] at h
  unfold forced worldOf
  simp only [Option.map_eq_none_iff, List.find?_eq_none, List.mem_map, decide_eq_true_eq]
  rintro _ ⟨i, hi, rfl⟩
  have := h i hi
  simpa using this

/-- a node whose own subscript set fixes it takes the subscript's value -/
theorem valueOf_forced (c : Ctx) (x : Var) (hx : NodeOK c x) (i : Iv) (hi : i ∈ x.ivs) (hn : i.name = x.name)
    (u : NoisePoint) : valueOf c.M c.ν u x = ivValue c.ν i := by
  unfold valueOf
  apply solve_forced c.M u _ x.name _ hx.inModel
  rw [← hn]
  exact forced_worldOf c.ν x.ivs i hi hx.subs

/-- **`nodes_attain_same_value` is sound**: two parent copies that pass the test take the same value wherever the conjuncts of
the current event about their variable hold -/
theorem nasv_sound (c : Ctx) (cf : MG Var) (ev : Event) (hok : EvOK ev) (x y : Var) (hx : NodeOK c x) (hy : NodeOK c y)
    (h : nodesAttainSameValue cf ev x y = true) (u : NoisePoint)
    (hu : ∀ q ∈ ev, q.1.name = x.name → holds c.M u (conjunctOf c.ν q) = true) :
    valueOf c.M c.ν u x = valueOf c.M c.ν u y := by
  unfold nodesAttainSameValue at h
  split at h
  · rename_i hxy; rw [hxy]
  · split at h
    · cases h
    · split at h
      · cases h
      · rename_i _ _ hname
        have hname : x.name = y.name := by simpa using hname
        cases hgx : ev.get? x with
        | some va =>
          have mx := Event.get?_mem hgx
          have hvx : valueOf c.M c.ν u x = ivValue c.ν va := (holds_conjunctOf _ _ _ _ _).1 (hu _ mx rfl)
          cases hgy : ev.get? y with
          | some vb =>
            simp only [hgx, hgy, decide_eq_true_eq] at h
            have my := Event.get?_mem hgy
            have hvy : valueOf c.M c.ν u y = ivValue c.ν vb := (holds_conjunctOf _ _ _ _ _).1 (hu _ my hname.symm)
            rw [hvx, hvy, h]
          | none =>
            simp only [hgx, hgy, Bool.and_eq_true, elem'_iff] at h
            have hva : va.name = y.name := by rw [hok.names _ mx]; exact hname
            rw [hvx, valueOf_forced c y hy va h.2 hva u]
        | none =>
          cases hgy : ev.get? y with
          | some vb =>
            simp only [hgx, hgy, Bool.and_eq_true, elem'_iff] at h
            have my := Event.get?_mem hgy
            have hvy : valueOf c.M c.ν u y = ivValue c.ν vb := (holds_conjunctOf _ _ _ _ _).1 (hu _ my hname.symm)
            have hvb : vb.name = x.name := by rw [hok.names _ my]; exact hname.symm
            rw [hvy, valueOf_forced c x hx vb h.2 hvb u]
          | none =>
            simp only [hgx, hgy, Bool.not_eq_eq_eq_not, Bool.not_true, Bool.or_eq_false_iff] at h
            have h1 : x.ivs = [] := by
              have := h.1; unfold Var.isCf at this; simpa using this
            have h2 : y.ivs = [] := by
              have := h.2; unfold Var.isCf at this; simpa using this
            rw [NodeOK.ext hx hy hname (by rw [h1, h2])]

/-! ### parents -/

theorem mem_parents_iff (cf : MG Var) (x a : Var) : x ∈ cf.parents a ↔ (x, a) ∈ cf.di := by
  simp only [MG.parents, List.mem_map, List.mem_filter, decide_eq_true_eq]
  constructor
  · rintro ⟨⟨y, z⟩, ⟨he, rfl⟩, rfl⟩; exact he
  · intro h; exact ⟨(x, a), ⟨h, rfl⟩, rfl⟩

theorem zip_partner {α β} : ∀ (l₁ : List α) (l₂ : List β), l₁.length = l₂.length → ∀ x ∈ l₁, ∃ y, (x, y) ∈ l₁.zip l₂
  | [], _, _, x, hx => by cases hx
  | a :: as, [], h, _, _ => by simp at h
  | a :: as, b :: bs, h, x, hx => by
    rcases List.mem_cons.1 hx with rfl | hx'
    · exact ⟨b, by simp⟩
    · obtain ⟨y, hy⟩ := zip_partner as bs (by simpa using h) x hx'
      exact ⟨y, by simp [hy]⟩

theorem mem_zip_right {α β} : ∀ (l₁ : List α) (l₂ : List β) (x : α) (y : β), (x, y) ∈ l₁.zip l₂ → y ∈ l₂
  | [], _, _, _, h => by simp at h
  | _ :: _, [], _, _, h => by simp at h
  | a :: as, b :: bs, x, y, h => by
    simp only [List.zip_cons_cons, List.mem_cons, Prod.mk.injEq] at h
    rcases h with ⟨_, rfl⟩ | h
    · simp
    · exact List.mem_cons_of_mem _ (mem_zip_right as bs x y h)

/-- from `parents_attain_same_values`: the parent of `a` and the parent of `b` that carry the same variable name are the same
node or pass `nodes_attain_same_value` -/
theorem parents_pair (c : Ctx) (cf : MG Var) (hinv : RepInv c cf) (ev : Event) (a b : Var)
    (h : parentsAttainSameValues cf ev a b = true) (xa xb : Var) (ha : (xa, a) ∈ cf.di) (hb : (xb, b) ∈ cf.di)
    (hn : xa.name = xb.name) : xa = xb ∨ nodesAttainSameValue cf ev xa xb = true := by
  unfold parentsAttainSameValues at h
  split at h
  · cases h
  · simp only at h
    have hxa : xa ∈ dedup' (cf.parents a) := by rw [mem_dedup', mem_parents_iff]; exact ha
    have hxb : xb ∈ dedup' (cf.parents b) := by rw [mem_dedup', mem_parents_iff]; exact hb
    -- if `xa` is also a parent of `b` it IS `xb`
    by_cases hxab : xa ∈ dedup' (cf.parents b)
    · left
      rw [mem_dedup', mem_parents_iff] at hxab
      exact hinv.uniq xa xb b hxab hb hn
    · right
      split at h
      · rename_i hset
        exfalso
        simp only [seteq', subset', Bool.and_eq_true, List.all_eq_true, decide_eq_true_eq] at hset
        exact hxab (hset.1 xa hxa)
      · split at h
        · cases h
        · rename_i hlen
          have hlen : (diff' (dedup' (cf.parents a)) (dedup' (cf.parents b))).length =
              (diff' (dedup' (cf.parents b)) (dedup' (cf.parents a))).length := by simpa using hlen
          have hra : xa ∈ sortByBase (diff' (dedup' (cf.parents a)) (dedup' (cf.parents b))) := by
            unfold sortByBase
            rw [mem_sortBy]
            simp only [diff', List.mem_filter, decide_eq_true_eq]
            exact ⟨hxa, hxab⟩
          obtain ⟨y, hy⟩ := zip_partner _ (sortByBase (diff' (dedup' (cf.parents b)) (dedup' (cf.parents a)))) (by
            unfold sortByBase; rw [length_sortBy, length_sortBy]; exact hlen) xa hra
          rw [List.all_eq_true] at h
          have hxy := h (xa, y) hy
          simp only at hxy
          -- `y` is a parent of `b` with the name of `xa`, hence `y = xb`
          have hyb : y ∈ dedup' (cf.parents b) := by
            have := mem_zip_right _ _ _ _ hy
            unfold sortByBase at this
            rw [mem_sortBy] at this
            simp only [diff', List.mem_filter] at this
            exact this.1
          rw [mem_dedup', mem_parents_iff] at hyb
          have hyname : xa.name = y.name := by
            unfold nodesAttainSameValue at hxy
            split at hxy
            · rename_i e; rw [e]
            · split at hxy
              · cases hxy
              · split at hxy
                · cases hxy
                · rename_i _ _ hne; simpa using hne
          have : y = xb := hinv.uniq y xb b hyb hb (by rw [← hyname, hn])
          rw [← this]; exact hxy

/-! ### the main step -/

theorem early_mono (c : Ctx) (hc : c.OK) (v p : Name) (hp : p ∈ c.M.pa v) (u : NoisePoint) (h : c.Early v u) :
    c.Early p u := by
  intro q hq hb
  exact h q hq (before_trans (hc.parentsFirst v p hp) hb)

theorem vsi_spec (c : Ctx) (x : Var) (hn : isNotSelfIntervened x = false) :
    ∃ i ∈ x.ivs, i.name = x.name ∧ valueOfSelfIntervention x = some i := by
  unfold isNotSelfIntervened at hn
  rw [List.all_eq_false] at hn
  obtain ⟨i, hi, hin⟩ := hn
  have hin : i.name = x.name := by simpa using hin
  have hcf : x.isCf = true := by
    unfold Var.isCf
    cases hiv : x.ivs with
    | nil => rw [hiv] at hi; cases hi
    | cons _ _ => rfl
  unfold valueOfSelfIntervention
  simp only [hcf, Bool.not_true, Bool.false_eq_true, if_false]
  by_cases h1 : elem' (⟨x.name, true⟩ : Iv) x.ivs = true
  · rw [if_pos h1]
    exact ⟨_, (elem'_iff _ _).1 h1, rfl, rfl⟩
  · rw [if_neg h1]
    by_cases h2 : elem' (⟨x.name, false⟩ : Iv) x.ivs = true
    · rw [if_pos h2]
      exact ⟨_, (elem'_iff _ _).1 h2, rfl, rfl⟩
    · exfalso
      rcases i with ⟨n, st⟩
      simp only at hin
      subst hin
      cases st
      · exact h2 ((elem'_iff _ _).2 hi)
      · exact h1 ((elem'_iff _ _).2 hi)

/-- **Lemma 24 for the test as coded.**  If `lemma_24_holds(cf_graph, event, a, b)` answers True in a state that satisfies the
invariants, then `a` and `b` take the same value at every noise point where the conjuncts of the original event about the
variables processed before theirs hold. -/
theorem lemma24_of_test (c : Ctx) (hc : c.OK) (cf : MG Var) (hinv : RepInv c cf) (ev : Event) (hev : SupInv c ev)
    (a b : Var) (h : lemma24Holds cf ev a b = true) (u : NoisePoint) (hu : c.Early a.name u) :
    valueOf c.M c.ν u a = valueOf c.M c.ν u b := by
  obtain ⟨ha, hb⟩ := lemma24Holds_nodes h
  have hname := lemma24Holds_names h
  have hnsi := lemma24Holds_nsi h
  have hA := hinv.nodes a ha
  have hB := hinv.nodes b hb
  have hpav : parentsAttainSameValues cf ev a b = true := by
    simp only [lemma24Holds, isPwEquivalent, Bool.and_eq_true] at h
    exact h.2.1.2
  have hdom : nodesHaveSameDomainOfValues cf a b = true := by
    simp only [lemma24Holds, isPwEquivalent, Bool.and_eq_true] at h
    exact h.2.2
  cases hna : isNotSelfIntervened a with
  | true =>
    have hnb : isNotSelfIntervened b = true := by rw [← hnsi]; exact hna
    unfold valueOf
    rw [← hname]
    apply solve_eq_of_parents_eq c.M hc.compat.topoOrder u _ _ a.name hA.inModel
      (forced_none_of_nsi c.ν a hna) (by rw [hname]; exact forced_none_of_nsi c.ν b hnb)
    intro p hp
    obtain ⟨xa, hxa, hxan, hxav⟩ := hinv.rep a ha hna p hp
    obtain ⟨xb, hxb, hxbn, hxbv⟩ := hinv.rep b hb hnb p (by rw [← hname]; exact hp)
    have hEp : c.Early p u := early_mono c hc a.name p hp u hu
    rw [← hxav u hEp, ← hxbv u hEp]
    rcases parents_pair c cf hinv ev a b hpav xa xb hxa hxb (by rw [hxan, hxbn]) with rfl | hnasv
    · rfl
    · have hXa := hinv.nodes xa (hinv.wf.di_mem _ hxa).1
      have hXb := hinv.nodes xb (hinv.wf.di_mem _ hxb).1
      apply nasv_sound c cf ev hev.ok xa xb hXa hXb hnasv u
      intro q hq hqn
      have hbef : Before c.topo a.name q.1.name := by
        rw [hqn, hxan]; exact hc.parentsFirst a.name p hp
      exact ((hev.sup (Before c.topo a.name) (c.prefixClosed_before a.name) u).2 hu) q hq hbef
  | false =>
    have hnb : isNotSelfIntervened b = false := by rw [← hnsi]; exact hna
    unfold nodesHaveSameDomainOfValues at hdom
    split at hdom
    · cases hdom
    · split at hdom
      · cases hdom
      · simp only [hna, hnb, Bool.and_self, Bool.false_eq_true, if_false, Bool.or_self, decide_eq_true_eq] at hdom
        obtain ⟨ia, hia, hian, hva⟩ := vsi_spec c a hna
        obtain ⟨ib, hib, hibn, hvb⟩ := vsi_spec c b hnb
        rw [hva, hvb, Option.some.injEq] at hdom
        subst hdom
        rw [valueOf_forced c a hA ia hia hian u, valueOf_forced c b hB ia hib hibn u]

/-! ## E. the invariants survive a merge -/

theorem repInv_mergePw (c : Ctx) (hGl : ∀ e ∈ c.G.di, e.1 ≠ e.2) (cf : MG Var) (hinv : RepInv c cf) (a b : Var)
    (hab : a ≠ b) (ha : a ∈ cf.nodes) (hb : b ∈ cf.nodes) (hname : a.name = b.name)
    (heq : ∀ u, c.Early a.name u → valueOf c.M c.ν u a = valueOf c.M c.ν u b) : RepInv c (mergePw cf a b).1 := by
  have hne := mergeOrder_ne a b hab
  have hmn := mergeOrder_names a b hname
  obtain ⟨hm1, hm2⟩ := mergeOrder_mem a b cf ha hb
  -- the two merged nodes agree on Early(name)
  have heq' : ∀ u, c.Early (mergeOrder a b).2.name u →
      valueOf c.M c.ν u (mergeOrder a b).1 = valueOf c.M c.ν u (mergeOrder a b).2 := by
    rcases mergeOrder_cases a b with h | h <;> rw [h]
    · intro u hu; simp only at hu ⊢; rw [← hname] at hu; exact heq u hu
    · intro u hu; simp only at hu ⊢; exact (heq u hu).symm
  have hnoedge : ((mergeOrder a b).2, (mergeOrder a b).1) ∉ cf.di := by
    intro he
    have := hinv.proj _ _ he
    exact hGl _ this (by simp only; rw [hmn])
  refine ⟨wf_mergePw cf a b, noLoops_mergePw cf hinv.noLoops a b hnoedge, edgeProj_mergePw hinv.proj a b hname, ?_, ?_, ?_⟩
  · intro x hx
    exact hinv.nodes x (mem_nodes_mergePw cf hinv.wf a b ha hb x hx)
  · intro x y z hx hy hxy
    rcases (mem_di_mergePw cf a b x z).1 hx with ⟨hx', hx2, _⟩ | ⟨rfl, hx'⟩
    · rcases (mem_di_mergePw cf a b y z).1 hy with ⟨hy', _, _⟩ | ⟨rfl, hy'⟩
      · exact hinv.uniq x y z hx' hy' hxy
      · exfalso
        exact hx2 (hinv.uniq x _ z hx' hy' (by rw [hxy, hmn]))
    · rcases (mem_di_mergePw cf a b y z).1 hy with ⟨hy', hy2, _⟩ | ⟨rfl, _⟩
      · exfalso
        exact hy2 (hinv.uniq y _ z hy' hx' (by rw [← hxy, hmn]))
      · rfl
  · intro z hz hnsi p hp
    have hz' := mem_nodes_mergePw cf hinv.wf a b ha hb z hz
    have hzne : z ≠ (mergeOrder a b).2 := fun h => removed_not_mem_mergePw cf hinv.noLoops a b hab (h ▸ hz)
    obtain ⟨x, hx, hxn, hxv⟩ := hinv.rep z hz' hnsi p hp
    by_cases hx2 : x = (mergeOrder a b).2
    · refine ⟨(mergeOrder a b).1, (mem_di_mergePw cf a b _ z).2 (Or.inr ⟨rfl, hx2 ▸ hx⟩), ?_, ?_⟩
      · rw [hmn, ← hx2]; exact hxn
      · intro u hu
        rw [heq' u (by rw [← hx2, hxn]; exact hu), ← hx2]
        exact hxv u hu
    · exact ⟨x, (mem_di_mergePw cf a b x z).2 (Or.inl ⟨hx, hx2, hzne⟩), hxn, hxv⟩

theorem supInv_updateEvent (c : Ctx) (ev : Event) (hev : SupInv c ev) (pref elim : Var) (hpe : pref ≠ elim)
    (hn : pref.name = elim.name) (hinc : isInconsistent ev pref elim = false)
    (heq : ∀ u, c.Early pref.name u → valueOf c.M c.ν u pref = valueOf c.M c.ν u elim) :
    SupInv c (updateEvent ev pref elim) := by
  refine ⟨?_, ⟨updateEvent_keys_nodup ev pref elim hev.ok.nodup, updateEvent_names ev pref elim hn hev.ok.names⟩⟩
  intro N hN u
  rw [allHoldN_updateEvent c.M c.ν N ev pref elim hev.ok.nodup hpe hn hinc ?_ u]
  · exact hev.sup N hN u
  · intro hNp u' hrest
    apply heq u'
    apply (hev.sup (Before c.topo pref.name) (c.prefixClosed_before pref.name) u').1
    intro q hq hb
    have hqn : q.1.name ≠ pref.name := before_ne hb
    exact hrest q hq (hN pref.name hNp _ hb) (fun h => hqn (by rw [h])) (fun h => hqn (by rw [h, hn]))

/-- the invariant of the loop state -/
def FullInv (c : Ctx) : St → Prop
  | .run cf ev => RepInv c cf ∧ SupInv c ev
  | .stop _ => probEvent c.M c.ν c.ev0 = 0

theorem fullInv_mergeStep (c : Ctx) (hc : c.OK) (hGl : ∀ e ∈ c.G.di, e.1 ≠ e.2) (st : St) (a b : Var) (hab : a ≠ b)
    (h : FullInv c st) : FullInv c (mergeStep st a b) := by
  unfold mergeStep
  cases st with
  | stop cf => exact h
  | run cf ev =>
    obtain ⟨hrep, hsup⟩ := h
    simp only
    split
    · rename_i h24
      obtain ⟨ha, hb⟩ := lemma24Holds_nodes h24
      have hname := lemma24Holds_names h24
      have heq := fun u hu => lemma24_of_test c hc cf hrep ev hsup a b h24 u hu
      -- the rest-based form used by the event lemmas
      have hL : Lemma24For c.M c.ν (ev, a, b) := by
        intro u hrest
        apply heq u
        apply (hsup.sup (Before c.topo a.name) (c.prefixClosed_before a.name) u).1
        intro q hq hbef
        have hqn : q.1.name ≠ a.name := before_ne hbef
        exact hrest q hq (fun h => hqn (by rw [h])) (fun h => hqn (by rw [h, hname]))
      split
      · rename_i hinc
        show probEvent c.M c.ν c.ev0 = 0
        have h0 := prob_zero_of_inconsistent c.M c.ν hc.distinct ev a b hinc hsup.ok.names hname hL
        rw [← h0]
        apply probEvent_congr
        intro u
        rw [← allHoldN_true, ← allHoldN_true]
        exact (hsup.sup (fun _ => True) (fun _ _ _ _ => trivial) u).symm
      · rename_i hinc
        have hinc' : isInconsistent ev a b = false := by simpa using hinc
        have hr1 : (mergePw cf a b).2.1 = (mergeOrder a b).1 := by unfold mergePw; rfl
        have hr2 : (mergePw cf a b).2.2 = (mergeOrder a b).2 := by unfold mergePw; rfl
        refine ⟨repInv_mergePw c hGl cf hrep a b hab ha hb hname heq, ?_⟩
        rw [hr1, hr2]
        rcases mergeOrder_cases a b with ho | ho
        · rw [ho]
          exact supInv_updateEvent c ev hsup a b hab hname hinc' heq
        · rw [ho]
          have hinc'' : isInconsistent ev b a = false := by rw [isInconsistent_symm]; exact hinc'
          exact supInv_updateEvent c ev hsup b a (Ne.symm hab) hname.symm hinc''
            (fun u hu => (heq u (by rw [hname]; exact hu)).symm)
    · exact ⟨hrep, hsup⟩

theorem fullInv_runPairs (c : Ctx) (hc : c.OK) (hGl : ∀ e ∈ c.G.di, e.1 ≠ e.2) (ps : List (Var × Var))
    (hne : ∀ p ∈ ps, p.1 ≠ p.2) (st : St) (h : FullInv c st) : FullInv c (runPairs st ps) := by
  induction ps generalizing st with
  | nil => exact h
  | cons p ps ih =>
    unfold runPairs
    simp only [List.foldl_cons]
    exact ih (fun q hq => hne q (by simp [hq])) _ (fullInv_mergeStep c hc hGl st p.1 p.2 (hne p (by simp)) h)

theorem mem_pairs_left {α} : ∀ (l : List α) (p : α × α), p ∈ pairs l → p.1 ∈ l
  | [], p, hp => by simp [pairs] at hp
  | x :: xs, p, hp => by
    simp only [pairs, List.mem_append, List.mem_map] at hp
    rcases hp with ⟨y, _, rfl⟩ | hp
    · simp
    · exact List.mem_cons_of_mem _ (mem_pairs_left xs p hp)

theorem mem_pairs_right {α} : ∀ (l : List α) (p : α × α), p ∈ pairs l → p.2 ∈ l
  | [], p, hp => by simp [pairs] at hp
  | x :: xs, p, hp => by
    simp only [pairs, List.mem_append, List.mem_map] at hp
    rcases hp with ⟨y, hy, rfl⟩ | hp
    · exact List.mem_cons_of_mem _ hy
    · exact List.mem_cons_of_mem _ (mem_pairs_right xs p hp)

/-! ## F. the parallel-worlds graph satisfies the invariant -/

/-- the graph handed to the merge loop (same as `cf0` of Props/C18) -/
def cfInit (G : MG Name) (ws : List World) : MG Var :=
  MG.fromEdges (makeParallelWorldsGraph G ws).nodes (makeParallelWorldsGraph G ws).di (makeParallelWorldsGraph G ws).bi

theorem mem_di_cfInit (G : MG Name) (ws : List World) (x y : Var) :
    (x, y) ∈ (cfInit G ws).di ↔
      (∃ e ∈ G.di, x = Var.plain e.1 ∧ y = Var.plain e.2) ∨
      (∃ w ∈ ws, ∃ e ∈ G.di, notIntervenedIn w e.2 = true ∧ x = atWorld e.1 w ∧ y = atWorld e.2 w) := by
  unfold cfInit makeParallelWorldsGraph
  rw [MG.mem_di_fromEdges, MG.mem_di_fromEdges]
  simp only [List.mem_append, List.mem_map, pwDirectedEdges, List.mem_flatMap, List.mem_filter, Prod.mk.injEq]
  constructor
  · rintro (⟨e, he, rfl, rfl⟩ | ⟨w, hw, e, ⟨he, hni⟩, rfl, rfl⟩)
    · exact Or.inl ⟨e, he, rfl, rfl⟩
    · exact Or.inr ⟨w, hw, e, he, hni, rfl, rfl⟩
  · rintro (⟨e, he, rfl, rfl⟩ | ⟨w, hw, e, he, hni, rfl, rfl⟩)
    · exact Or.inl ⟨e, he, rfl, rfl⟩
    · exact Or.inr ⟨w, hw, e, ⟨he, hni⟩, rfl, rfl⟩

theorem mem_biNbrs (G : MG Name) (u v : Name) (h : v ∈ G.biNbrs u) : (u, v) ∈ G.bi ∨ (v, u) ∈ G.bi := by
  unfold MG.biNbrs at h
  simp only [List.mem_flatMap, List.mem_append] at h
  obtain ⟨e, he, h1 | h2⟩ := h
  · split at h1
    · rename_i h; simp only [List.mem_singleton] at h1; left; rw [h1, ← h]; exact he
    · cases h1
  · split at h2
    · rename_i h; simp only [List.mem_singleton] at h2; right; rw [h2, ← h]; exact he
    · cases h2

/-- every bidirected edge offered to `from_edges` for the parallel-worlds graph joins two nodes of the canonical form, and
they are different -/
theorem pw_bi_forms (G : MG Name) (hG : G.WF) (hbl : ∀ e ∈ G.bi, e.1 ≠ e.2) (ws : List World) (hnd : ws.Nodup)
    (hne : ∀ w ∈ ws, w ≠ []) (e : Var × Var)
    (he : e ∈ G.bi.map (fun e => (Var.plain e.1, Var.plain e.2)) ++
      (stitchCounterfactualAndNeighbors G ws ++ stitchFactualAndDopplegangers G ws
        ++ stitchFactualAndDopplegangerNeighbors G ws
        ++ (if ws.length > 1 then
              stitchCounterfactualAndDopplegangers G ws ++ stitchCounterfactualAndDopplegangerNeighbors G ws
            else []))) :
    e.1 ≠ e.2 ∧
    (∀ z, z = e.1 ∨ z = e.2 → (∃ n ∈ G.nodes, z = Var.plain n) ∨ (∃ w ∈ ws, ∃ n ∈ G.nodes, z = atWorld n w)) := by
  have nbr : ∀ u v, v ∈ G.biNbrs u → v ≠ u ∧ v ∈ G.nodes := by
    intro u v h
    rcases mem_biNbrs G u v h with h | h
    · exact ⟨fun hv => hbl _ h (by simp [hv]), (hG.bi_mem _ h).2⟩
    · exact ⟨fun hv => hbl _ h (by simp [hv]), (hG.bi_mem _ h).1⟩
  have plain_ne_at : ∀ u v w, w ∈ ws → Var.plain u ≠ atWorld v w := by
    intro u v w hw h
    simp only [Var.plain, atWorld, Var.mk.injEq] at h
    exact hne w hw h.2.2.2.symm
  have at_ne_of_world : ∀ u v w1 w2, w1 ≠ w2 → atWorld u w1 ≠ atWorld v w2 := by
    intro u v w1 w2 hw h
    simp only [atWorld, Var.mk.injEq] at h
    exact hw h.2.2.2
  have at_ne_of_name : ∀ u v w, u ≠ v → atWorld u w ≠ atWorld v w := by
    intro u v w hw h
    simp only [atWorld, Var.mk.injEq] at h
    exact hw h.1
  simp only [List.mem_append, List.mem_map] at he
  rcases he with ⟨e', he', rfl⟩ | (((hc | hc) | hc) | hc)
  · refine ⟨?_, ?_⟩
    · intro h
      simp only [Var.plain, Var.mk.injEq] at h
      exact hbl e' he' h.1
    · rintro z (rfl | rfl)
      · exact Or.inl ⟨_, (hG.bi_mem _ he').1, rfl⟩
      · exact Or.inl ⟨_, (hG.bi_mem _ he').2, rfl⟩
  · simp only [stitchCounterfactualAndNeighbors, List.mem_flatMap, List.mem_map, List.mem_filter] at hc
    obtain ⟨w, hw, u, hu, v, ⟨hv, _⟩, rfl⟩ := hc
    obtain ⟨hvu, hvn⟩ := nbr u v hv
    refine ⟨at_ne_of_name v u w hvu, ?_⟩
    rintro z (rfl | rfl)
    · exact Or.inr ⟨w, hw, v, hvn, rfl⟩
    · exact Or.inr ⟨w, hw, u, hu, rfl⟩
  · simp only [stitchFactualAndDopplegangers, List.mem_flatMap, List.mem_map, List.mem_filter] at hc
    obtain ⟨w, hw, u, ⟨hu, _⟩, rfl⟩ := hc
    refine ⟨plain_ne_at u u w hw, ?_⟩
    rintro z (rfl | rfl)
    · exact Or.inl ⟨u, hu, rfl⟩
    · exact Or.inr ⟨w, hw, u, hu, rfl⟩
  · simp only [stitchFactualAndDopplegangerNeighbors, List.mem_flatMap, List.mem_map, List.mem_filter] at hc
    obtain ⟨w, hw, u, hu, v, ⟨hv, _⟩, rfl⟩ := hc
    obtain ⟨_, hvn⟩ := nbr u v hv
    refine ⟨plain_ne_at u v w hw, ?_⟩
    rintro z (rfl | rfl)
    · exact Or.inl ⟨u, hu, rfl⟩
    · exact Or.inr ⟨w, hw, v, hvn, rfl⟩
  · split at hc
    · simp only [List.mem_append] at hc
      rcases hc with hc | hc
      · simp only [stitchCounterfactualAndDopplegangers, List.mem_flatMap, List.mem_map, List.mem_filter] at hc
        obtain ⟨⟨w1, w2⟩, hp, u, ⟨hu, _⟩, rfl⟩ := hc
        have hw12 : w1 ≠ w2 := mem_pairs_ne ws hnd (w1, w2) hp
        have hw1 : w1 ∈ ws := mem_pairs_left ws (w1, w2) hp
        have hw2 : w2 ∈ ws := mem_pairs_right ws (w1, w2) hp
        refine ⟨at_ne_of_world u u w2 w1 (Ne.symm hw12), ?_⟩
        rintro z (rfl | rfl)
        · exact Or.inr ⟨w2, hw2, u, hu, rfl⟩
        · exact Or.inr ⟨w1, hw1, u, hu, rfl⟩
      · simp only [stitchCounterfactualAndDopplegangerNeighbors, List.mem_flatMap, List.mem_map, List.mem_filter] at hc
        obtain ⟨⟨w1, w2⟩, hp, u, hu, v, ⟨hv, _⟩, rfl⟩ := hc
        have hw12 : w1 ≠ w2 := mem_pairs_ne ws hnd (w1, w2) hp
        have hw1 : w1 ∈ ws := mem_pairs_left ws (w1, w2) hp
        have hw2 : w2 ∈ ws := mem_pairs_right ws (w1, w2) hp
        obtain ⟨_, hvn⟩ := nbr u v hv
        refine ⟨at_ne_of_world v u w2 w1 (Ne.symm hw12), ?_⟩
        rintro z (rfl | rfl)
        · exact Or.inr ⟨w2, hw2, v, hvn, rfl⟩
        · exact Or.inr ⟨w1, hw1, u, hu, rfl⟩
    · cases hc

/-- every node of the initial graph is `Variable(n)` or `n @ world` for a graph variable `n` and one of the worlds -/
theorem mem_nodes_cfInit (G : MG Name) (hG : G.WF) (hbl : ∀ e ∈ G.bi, e.1 ≠ e.2) (ws : List World) (hnd : ws.Nodup)
    (hne : ∀ w ∈ ws, w ≠ []) (x : Var) (hx : x ∈ (cfInit G ws).nodes) :
    (∃ n ∈ G.nodes, x = Var.plain n) ∨ (∃ w ∈ ws, ∃ n ∈ G.nodes, x = atWorld n w) := by
  -- nodes of the copy are nodes of the parallel-worlds graph
  have hpw : x ∈ (makeParallelWorldsGraph G ws).nodes := by
    have hwf : (makeParallelWorldsGraph G ws).WF := by unfold makeParallelWorldsGraph; exact MG.wf_fromEdges _ _ _
    unfold cfInit at hx
    rw [MG.mem_nodes_fromEdges] at hx
    rcases hx with hx | ⟨e, he, rfl | rfl⟩ | ⟨e, he, rfl | rfl⟩
    · exact hx
    · exact (hwf.di_mem e he).1
    · exact (hwf.di_mem e he).2
    · exact (hwf.bi_mem e he).1
    · exact (hwf.bi_mem e he).2
  unfold makeParallelWorldsGraph at hpw
  rw [MG.mem_nodes_fromEdges] at hpw
  rcases hpw with hx | ⟨e, he, hxe⟩ | ⟨e, he, hxe⟩
  · simp only [List.mem_append, List.mem_map, List.mem_flatMap] at hx
    rcases hx with ⟨n, hn, rfl⟩ | ⟨w, hw, n, hn, rfl⟩
    · exact Or.inl ⟨n, hn, rfl⟩
    · exact Or.inr ⟨w, hw, n, hn, rfl⟩
  · simp only [List.mem_append, List.mem_map, pwDirectedEdges, List.mem_flatMap, List.mem_filter] at he
    rcases he with ⟨e', he', rfl⟩ | ⟨w, hw, e', ⟨he', _⟩, rfl⟩
    · rcases hxe with rfl | rfl
      · exact Or.inl ⟨_, (hG.di_mem _ he').1, rfl⟩
      · exact Or.inl ⟨_, (hG.di_mem _ he').2, rfl⟩
    · rcases hxe with rfl | rfl
      · exact Or.inr ⟨w, hw, _, (hG.di_mem _ he').1, rfl⟩
      · exact Or.inr ⟨w, hw, _, (hG.di_mem _ he').2, rfl⟩
  · exact (pw_bi_forms G hG hbl ws hnd hne e he).2 x hxe

theorem repInv_cfInit (c : Ctx) (hc : c.OK) (hG : c.G.WF) (hdl : ∀ e ∈ c.G.di, e.1 ≠ e.2)
    (hbl : ∀ e ∈ c.G.bi, e.1 ≠ e.2) (ws : List World) (hnd : ws.Nodup) (hne : ∀ w ∈ ws, w ≠ [])
    (hcs : ∀ w ∈ ws, ConsistentSubs w) : RepInv c (cfInit c.G ws) := by
  have hmem : ∀ n, n ∈ c.G.nodes → n ∈ c.M.order := fun n hn => (hc.compat.perm.mem_iff).2 hn
  have hform := mem_nodes_cfInit c.G hG hbl ws hnd hne
  have at_inj : ∀ u v (w1 w2 : World), atWorld u w1 = atWorld v w2 → u = v ∧ w1 = w2 := by
    intro u v w1 w2 h
    simp only [atWorld, Var.mk.injEq] at h
    exact ⟨h.1, h.2.2.2⟩
  have plain_ne_at : ∀ u v w, w ∈ ws → Var.plain u ≠ atWorld v w := by
    intro u v w hw h
    simp only [Var.plain, atWorld, Var.mk.injEq] at h
    exact hne w hw h.2.2.2.symm
  refine ⟨by unfold cfInit; exact MG.wf_fromEdges _ _ _, ⟨?_, ?_⟩, ?_, ?_, ?_, ?_⟩
  · -- no directed self loop
    intro e he
    have := (mem_di_cfInit c.G ws e.1 e.2).1 (by simpa using he)
    rcases this with ⟨e', he', h1, h2⟩ | ⟨w, _, e', he', _, h1, h2⟩
    · intro h
      rw [h1, h2] at h
      simp only [Var.plain, Var.mk.injEq] at h
      exact hdl e' he' h.1
    · intro h
      rw [h1, h2] at h
      exact hdl e' he' (at_inj _ _ _ _ h).1
  · -- no bidirected self loop
    intro e he
    unfold cfInit at he
    have he := MG.mem_bi_fromEdges_sub _ _ _ _ he
    unfold makeParallelWorldsGraph at he
    have he := MG.mem_bi_fromEdges_sub _ _ _ _ he
    exact (pw_bi_forms c.G hG hbl ws hnd hne e he).1
  · unfold cfInit; exact edgeProj_copy (edgeProj_pw c.G ws)
  · intro x hx
    rcases hform x hx with ⟨n, hn, rfl⟩ | ⟨w, hw, n, hn, rfl⟩
    · exact ⟨rfl, rfl, hmem n hn, by intro i hi; cases hi⟩
    · exact ⟨rfl, rfl, hmem n hn, hcs w hw⟩
  · -- one parent per variable name
    intro x y a hx hy hxy
    rcases (mem_di_cfInit c.G ws x a).1 hx with ⟨e1, _, rfl, ha1⟩ | ⟨w1, hw1, e1, _, _, rfl, ha1⟩
    · rcases (mem_di_cfInit c.G ws y a).1 hy with ⟨e2, _, rfl, _⟩ | ⟨w2, hw2, e2, _, _, rfl, ha2⟩
      · simp only [Var.plain] at hxy ⊢
        rw [hxy]
      · exfalso
        rw [ha1] at ha2
        exact plain_ne_at _ _ _ hw2 ha2
    · rcases (mem_di_cfInit c.G ws y a).1 hy with ⟨e2, _, rfl, ha2⟩ | ⟨w2, hw2, e2, _, _, rfl, ha2⟩
      · exfalso
        rw [ha1] at ha2
        exact plain_ne_at _ _ _ hw1 ha2.symm
      · rw [ha1] at ha2
        have hw := (at_inj _ _ _ _ ha2).2
        simp only [atWorld] at hxy ⊢
        rw [hxy, hw]
  · -- parents are represented (exactly, before any merge)
    intro a ha hnsi p hp
    have hedge : (p, a.name) ∈ c.G.di := hc.compat.pa_sub a.name p hp
    rcases hform a ha with ⟨n, hn, rfl⟩ | ⟨w, hw, n, hn, rfl⟩
    · refine ⟨Var.plain p, (mem_di_cfInit c.G ws _ _).2 (Or.inl ⟨(p, n), hedge, rfl, rfl⟩), rfl, ?_⟩
      intro u _
      rfl
    · have hni : notIntervenedIn w n = true := by
        unfold isNotSelfIntervened at hnsi
        unfold notIntervenedIn
        rw [List.all_eq_true] at hnsi ⊢
        intro i hi
        exact hnsi i hi
      refine ⟨atWorld p w, (mem_di_cfInit c.G ws _ _).2 (Or.inr ⟨w, hw, (p, n), hedge, hni, rfl, rfl⟩), rfl, ?_⟩
      intro u _
      rfl

end Cf
end Y0
