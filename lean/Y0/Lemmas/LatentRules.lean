/-
  Y0.Lemmas.LatentRules — Evans' rules 2–4 (`remove_widow_latents` to a fixpoint,
  `remove_unidirectional_latents`, `remove_redundant_latents`): each preserves the latent projection;
  after rule 2 the graph is flat; after rule 4 it is `Simplified`.
-/
import Y0.Lemmas.LatentRule1

namespace Y0.LV
open Relation

/-! ### removing latent nodes: generic facts -/

theorem observed_removeNodes (D : LV) (S : List Nat) (hS : ∀ s ∈ S, s ∈ D.latent) (x : Nat) :
    (D.removeNodes S).Observed x ↔ D.Observed x := by
  simp only [Observed, mem_nodes_removeNodes, mem_latent_removeNodes, not_and, not_not]
  constructor
  · rintro ⟨⟨h1, h2⟩, h3⟩; exact ⟨h1, fun hl => h2 (h3 hl)⟩
  · rintro ⟨h1, h2⟩; exact ⟨⟨h1, fun hs => h2 (hS x hs)⟩, fun hl => absurd hl h2⟩

theorem acyclic_removeNodes (D : LV) (S : List Nat) (ha : D.Acyclic) : (D.removeNodes S).Acyclic := by
  intro x h
  exact ha x (TransGen.mono (fun a b hab => ((edge_removeNodes D S a b).1 hab).1) _ _ h)

theorem latPath_of_removeNodes (D : LV) (S : List Nat) {a b : Nat} (h : (D.removeNodes S).LatPath a b) :
    D.LatPath a b :=
  h.mono (fun _ _ he => ((edge_removeNodes D S _ _).1 he).1)
    (fun _ _ _ hl => ((mem_latent_removeNodes D S _).1 hl).1)

/-! ### rule 2: widows -/

/-- removing latents without children preserves the projection, whatever else the graph looks like -/
theorem removeWidows_sameProj (D : LV) (S : List Nat) (hS : ∀ s ∈ S, s ∈ D.latent)
    (hW : ∀ s ∈ S, ∀ c, ¬ D.Edge s c) : SameProj D (D.removeNodes S) := by
  have hobs := observed_removeNodes D S hS
  have hnS : ∀ x, D.Observed x → x ∉ S := fun x h hs => h.2 (hS x hs)
  have fwd : ∀ a b, D.LatPath a b → a ∉ S → b ∉ S → (D.removeNodes S).LatPath a b := by
    intro a b h
    induction h with
    | edge h => intro ha hb; exact .edge ((edge_removeNodes D S _ _).2 ⟨h, ha, hb⟩)
    | @cons a l b h hl hp ih =>
      intro ha hb
      obtain ⟨c, hc⟩ := hp.first
      have hlS : l ∉ S := fun hs => hW l hs c hc
      exact .cons ((edge_removeNodes D S _ _).2 ⟨h, ha, hlS⟩) ((mem_latent_removeNodes D S l).2 ⟨hl, hlS⟩)
        (ih hlS hb)
  refine ⟨hobs, fun u w => ?_, fun u w => ?_⟩
  · simp only [ProjDi, hobs]
    constructor
    · rintro ⟨h1, h2, h3⟩; exact ⟨h1, h2, latPath_of_removeNodes D S h3⟩
    · rintro ⟨h1, h2, h3⟩; exact ⟨h1, h2, fwd u w h3 (hnS u h1) (hnS w h2)⟩
  · simp only [ProjBi, hobs]
    constructor
    · rintro ⟨hn, h1, h2, l, hl, pu, pw⟩
      exact ⟨hn, h1, h2, l, ((mem_latent_removeNodes D S l).1 hl).1, latPath_of_removeNodes D S pu,
        latPath_of_removeNodes D S pw⟩
    · rintro ⟨hn, h1, h2, l, hl, pu, pw⟩
      obtain ⟨c, hc⟩ := pu.first
      have hlS : l ∉ S := fun hs => hW l hs c hc
      exact ⟨hn, h1, h2, l, (mem_latent_removeNodes D S l).2 ⟨hl, hlS⟩, fwd l u pu hlS (hnS u h1),
        fwd l w pw hlS (hnS w h2)⟩

theorem noParentOrChild_removeNodes (D : LV) (S : List Nat) (l : Nat) (h : NoParentOrChild D l) :
    NoParentOrChild (D.removeNodes S) l := by
  rcases h with h | h
  · exact Or.inl fun p hp => h p ((edge_removeNodes D S _ _).1 hp).1
  · exact Or.inr fun c hc => h c ((edge_removeNodes D S _ _).1 hc).1

/-- `iter_widow_latents` -/
theorem mem_widows (D : LV) (hw : D.WF) (ws : List Nat) (h : D.widows = .ok ws) (l : Nat) :
    l ∈ ws ↔ l ∈ D.latent ∧ ∀ c, ¬ D.Edge l c := by
  unfold widows at h
  cases hl : D.iterLatents with
  | error e => rw [hl] at h; cases h
  | ok ls =>
    rw [hl] at h
    have : ws = ls.filter (fun v => (D.children v).isEmpty) := by cases h; rfl
    subst this
    simp only [List.mem_filter, mem_iterLatents D hw ls hl, List.isEmpty_iff, children_eq_nil]

theorem removeWidowsLoop_spec :
    ∀ (fuel : Nat) (D : LV) (acc : List Nat) (D' : LV) (acc' : List Nat),
      removeWidowsLoop fuel D acc = .ok (D', acc') → D.WF → D.Acyclic →
      (∀ l ∈ D.latent, NoParentOrChild D l) → D.nodes.length < fuel →
      D'.WF ∧ D'.Acyclic ∧ SameProj D D' ∧ (∀ l ∈ D'.latent, NoParentOrChild D' l) ∧
      (∀ l ∈ D'.latent, ∃ c, D'.Edge l c) := by
  intro fuel
  induction fuel with
  | zero => intro D acc D' acc' _ _ _ _ hlt; omega
  | succ n ih =>
    intro D acc D' acc' h hw ha hnpc hlt
    simp only [removeWidowsLoop] at h
    cases hws : D.widows with
    | error e => rw [hws] at h; cases h
    | ok ws =>
      rw [hws] at h
      have hmem := mem_widows D hw ws hws
      by_cases hemp : ws.isEmpty
      · simp only [bind, Except.bind, hemp, if_true] at h
        have : D' = D := by cases h; rfl
        subst this
        refine ⟨hw, ha, SameProj.refl _, hnpc, fun l hl => ?_⟩
        by_contra hno
        have : l ∈ ws := (hmem l).2 ⟨hl, fun c hc => hno ⟨c, hc⟩⟩
        rw [List.isEmpty_iff] at hemp
        rw [hemp] at this
        cases this
      · simp only [bind, Except.bind, hemp, Bool.false_eq_true, if_false] at h
        have hS : ∀ s ∈ ws, s ∈ D.latent := fun s hs => ((hmem s).1 hs).1
        have hW : ∀ s ∈ ws, ∀ c, ¬ D.Edge s c := fun s hs => ((hmem s).1 hs).2
        obtain ⟨x, hx⟩ : ∃ x, x ∈ ws := by
          cases hws' : ws with
          | nil => simp [hws'] at hemp
          | cons x xs => exact ⟨x, by simp⟩
        have hlen := length_removeNodes_lt D ws x hx (hw.latent_mem x (hS x hx))
        obtain ⟨w', a', s', n', c'⟩ := ih (D.removeNodes ws) (acc ++ ws) D' acc' h (wf_removeNodes D ws hw)
          (acyclic_removeNodes D ws ha)
          (fun l hl => noParentOrChild_removeNodes D ws l (hnpc l ((mem_latent_removeNodes D ws l).1 hl).1))
          (by omega)
        exact ⟨w', a', (removeWidows_sameProj D ws hS hW).trans s', n', c'⟩

/-- **rules 1+2 make the graph flat** -/
theorem flat_of_noMiddle_noWidow (D : LV) (hnpc : ∀ l ∈ D.latent, NoParentOrChild D l)
    (hch : ∀ l ∈ D.latent, ∃ c, D.Edge l c) : D.Flat := by
  rintro ⟨a, b⟩ he hb
  rcases hnpc b hb with h | h
  · exact h a he
  · obtain ⟨c, hc⟩ := hch b hb
    exact h c hc

theorem removeWidowLatents_spec (D D' : LV) (ws : List Nat) (h : D.removeWidowLatents = .ok (D', ws))
    (hw : D.WF) (ha : D.Acyclic) (hnpc : ∀ l ∈ D.latent, NoParentOrChild D l) :
    D'.WF ∧ D'.Acyclic ∧ SameProj D D' ∧ D'.Flat ∧ (∀ l ∈ D'.latent, ∃ c, D'.Edge l c) := by
  obtain ⟨w', a', s', n', c'⟩ := removeWidowsLoop_spec _ D [] D' ws h hw ha hnpc (Nat.lt_succ_self _)
  exact ⟨w', a', s', flat_of_noMiddle_noWidow D' n' c', c'⟩

/-! ### rules 3 and 4 on a flat graph -/

theorem flat_removeNodes (D : LV) (S : List Nat) (hf : D.Flat) : (D.removeNodes S).Flat := by
  rintro ⟨a, b⟩ he hb
  have he' : (D.removeNodes S).Edge a b := he
  exact hf _ ((edge_removeNodes D S a b).1 he').1 ((mem_latent_removeNodes D S b).1 hb).1

/-- on a flat graph, removing latents whose pairs of children are covered by a surviving latent
preserves the projection -/
theorem removeLatents_sameProj_flat (D : LV) (hf : D.Flat) (S : List Nat) (hS : ∀ s ∈ S, s ∈ D.latent)
    (hcover : ∀ s ∈ S, ∀ u w, u ≠ w → D.Edge s u → D.Edge s w →
      ∃ r, r ∈ D.latent ∧ r ∉ S ∧ D.Edge r u ∧ D.Edge r w) :
    SameProj D (D.removeNodes S) := by
  have hobs := observed_removeNodes D S hS
  have hf' := flat_removeNodes D S hf
  have hnS : ∀ x, D.Observed x → x ∉ S := fun x h hs => h.2 (hS x hs)
  refine ⟨hobs, fun u w => ?_, fun u w => ?_⟩
  · simp only [ProjDi, hobs, latPath_flat hf, latPath_flat hf', edge_removeNodes]
    constructor
    · rintro ⟨h1, h2, h3, _⟩; exact ⟨h1, h2, h3⟩
    · rintro ⟨h1, h2, h3⟩; exact ⟨h1, h2, h3, hnS u h1, hnS w h2⟩
  · simp only [ProjBi, hobs, latPath_flat hf, latPath_flat hf', edge_removeNodes]
    constructor
    · rintro ⟨hn, h1, h2, l, hl, ⟨pu, _⟩, ⟨pw, _⟩⟩
      exact ⟨hn, h1, h2, l, ((mem_latent_removeNodes D S l).1 hl).1, pu, pw⟩
    · rintro ⟨hn, h1, h2, l, hl, pu, pw⟩
      refine ⟨hn, h1, h2, ?_⟩
      by_cases hlS : l ∈ S
      · obtain ⟨r, hr, hrS, ru, rw'⟩ := hcover l hlS u w hn pu pw
        exact ⟨r, (mem_latent_removeNodes D S r).2 ⟨hr, hrS⟩, ⟨ru, hrS, hnS u h1⟩, ⟨rw', hrS, hnS w h2⟩⟩
      · exact ⟨l, (mem_latent_removeNodes D S l).2 ⟨hl, hlS⟩, ⟨pu, hlS, hnS u h1⟩, ⟨pw, hlS, hnS w h2⟩⟩

/-- on a flat graph the children of a surviving latent are untouched by removing other latents -/
theorem children_removeNodes_flat (D : LV) (hf : D.Flat) (S : List Nat) (hS : ∀ s ∈ S, s ∈ D.latent)
    (l : Nat) (hl : l ∉ S) : (D.removeNodes S).children l = D.children l := by
  unfold children removeNodes
  simp only [List.filter_filter]
  congr 1
  apply List.filter_congr
  rintro ⟨a, b⟩ he
  by_cases hal : a = l
  · subst hal
    have hb : b ∉ S := fun hs => hf _ he (hS b hs)
    simp [hl, hb]
  · simp [hal]

theorem mem_unidirectional (D : LV) (hw : D.WF) (us : List Nat) (h : D.unidirectional = .ok us) (l : Nat) :
    l ∈ us ↔ l ∈ D.latent ∧ (D.children l).length = 1 := by
  unfold unidirectional at h
  cases hl : D.iterLatents with
  | error e => rw [hl] at h; cases h
  | ok ls =>
    rw [hl] at h
    have : us = ls.filter (fun v => (D.children v).length = 1) := by cases h; rfl
    subst this
    simp only [List.mem_filter, mem_iterLatents D hw ls hl, decide_eq_true_eq]

/-- **rule 3** -/
theorem removeUnidirectionalLatents_spec (D D' : LV) (us : List Nat)
    (h : D.removeUnidirectionalLatents = .ok (D', us)) (hw : D.WF) (hf : D.Flat)
    (hch : ∀ l ∈ D.latent, ∃ c, D.Edge l c) :
    D' = D.removeNodes us ∧ (∀ s ∈ us, s ∈ D.latent) ∧ SameProj D D' ∧
      ∀ l ∈ D'.latent, 2 ≤ (D'.children l).length := by
  unfold removeUnidirectionalLatents at h
  cases hu : D.unidirectional with
  | error e => rw [hu] at h; cases h
  | ok us' =>
    rw [hu] at h
    have hD : D' = D.removeNodes us' ∧ us = us' := by cases h; exact ⟨rfl, rfl⟩
    obtain ⟨rfl, rfl⟩ := hD
    have hmem := mem_unidirectional D hw us hu
    have hS : ∀ s ∈ us, s ∈ D.latent := fun s hs => ((hmem s).1 hs).1
    refine ⟨rfl, hS, removeLatents_sameProj_flat D hf us hS ?_, ?_⟩
    · intro s hs u w hn su sw
      have hlen := ((hmem s).1 hs).2
      have hu' := (mem_children D s u).2 su
      have hw' := (mem_children D s w).2 sw
      match hc : D.children s, hlen with
      | [c], _ =>
        rw [hc] at hu' hw'
        simp only [List.mem_singleton] at hu' hw'
        exact absurd (hu'.trans hw'.symm) hn
    · intro l hl
      rw [mem_latent_removeNodes] at hl
      rw [children_removeNodes_flat D hf us hS l hl.2]
      obtain ⟨c, hc⟩ := hch l hl.1
      have h1 : (D.children l).length ≠ 1 := fun h1 => hl.2 ((hmem l).2 ⟨hl.1, h1⟩)
      have h0 : (D.children l).length ≠ 0 := by
        intro h0
        have := (mem_children D l c).2 hc
        rw [List.length_eq_zero_iff.1 h0] at this
        cases this
      omega

/-! ### rule 4 -/

/-- `right` makes `left` redundant: same children and a smaller name, or strictly more children -/
def Dominates (D : LV) (r l : Nat) : Prop :=
  ((∀ c ∈ D.children l, c ∈ D.children r) ∧ (∀ c ∈ D.children r, c ∈ D.children l) ∧ r < l) ∨
  ((∀ c ∈ D.children l, c ∈ D.children r) ∧ ¬ ∀ c ∈ D.children r, c ∈ D.children l)

theorem mem_redundant (D : LV) (hw : D.WF) (rs : List Nat) (h : D.redundant = .ok rs) (l : Nat) :
    l ∈ rs ↔ l ∈ D.latent ∧ ∃ r ∈ D.latent, D.Dominates r l := by
  unfold redundant at h
  cases hl : D.iterLatents with
  | error e => rw [hl] at h; cases h
  | ok ls =>
    rw [hl] at h
    have hmem := mem_iterLatents D hw ls hl
    have : rs = ls.filter (fun l => ls.any (fun r =>
        (seteq' (D.children l) (D.children r) && decide (l > r)) ||
        (subset' (D.children l) (D.children r) && !subset' (D.children r) (D.children l)))) := by
      cases h; rfl
    subst this
    simp only [List.mem_filter, hmem, List.any_eq_true, Bool.or_eq_true, Bool.and_eq_true, seteq', subset',
      List.all_eq_true, decide_eq_true_eq, Bool.not_eq_true', Dominates, gt_iff_lt]
    constructor
    · rintro ⟨hl', r, hr, h | h⟩
      · exact ⟨hl', r, hr, Or.inl ⟨h.1.1, h.1.2, h.2⟩⟩
      · refine ⟨hl', r, hr, Or.inr ⟨h.1, ?_⟩⟩
        intro hall
        have := h.2
        rw [← Bool.not_eq_true, List.all_eq_true] at this
        exact this (fun c hc => by simpa using hall c hc)
    · rintro ⟨hl', r, hr, h | h⟩
      · exact ⟨hl', r, hr, Or.inl ⟨⟨h.1, h.2.1⟩, h.2.2⟩⟩
      · refine ⟨hl', r, hr, Or.inr ⟨h.1, ?_⟩⟩
        rw [← Bool.not_eq_true, List.all_eq_true]
        intro hall
        exact h.2 (fun c hc => by simpa using hall c hc)

theorem length_children_le (D : LV) (hw : D.WF) (l : Nat) : (D.children l).length ≤ D.nodes.length := by
  have hnd := nodup_children D hw.edges_nodup l
  have hsub : (D.children l).toFinset ⊆ D.nodes.toFinset := by
    intro c hc
    rw [List.mem_toFinset] at hc ⊢
    exact (hw.edge_mem _ ((mem_children D l c).1 hc)).2
  have := Finset.card_le_card hsub
  rw [List.toFinset_card_of_nodup hnd, List.toFinset_card_of_nodup hw.nodes_nodup] at this
  exact this

theorem length_children_mono (D : LV) (hw : D.WF) (l r : Nat) (h : ∀ c ∈ D.children l, c ∈ D.children r) :
    (D.children l).length ≤ (D.children r).length := by
  have h1 := nodup_children D hw.edges_nodup l
  have h2 := nodup_children D hw.edges_nodup r
  have hsub : (D.children l).toFinset ⊆ (D.children r).toFinset := by
    intro c hc
    rw [List.mem_toFinset] at hc ⊢
    exact h c hc
  have := Finset.card_le_card hsub
  rwa [List.toFinset_card_of_nodup h1, List.toFinset_card_of_nodup h2] at this

theorem length_children_strict (D : LV) (hw : D.WF) (l r : Nat) (h : ∀ c ∈ D.children l, c ∈ D.children r)
    (hn : ¬ ∀ c ∈ D.children r, c ∈ D.children l) : (D.children l).length < (D.children r).length := by
  have h1 := nodup_children D hw.edges_nodup l
  have h2 := nodup_children D hw.edges_nodup r
  have hsub : (D.children l).toFinset ⊂ (D.children r).toFinset := by
    constructor
    · intro c hc
      rw [List.mem_toFinset] at hc ⊢
      exact h c hc
    · intro hsup
      apply hn
      intro c hc
      have := hsup (List.mem_toFinset.2 hc)
      exact List.mem_toFinset.1 this
  have := Finset.card_lt_card hsub
  rwa [List.toFinset_card_of_nodup h1, List.toFinset_card_of_nodup h2] at this

/-- every latent is covered by a latent that is not redundant (a maximal element of the domination order) -/
theorem exists_cover (D : LV) (hw : D.WF) (rs : List Nat)
    (hmem : ∀ l, l ∈ rs ↔ l ∈ D.latent ∧ ∃ r ∈ D.latent, D.Dominates r l) :
    ∀ (k l : Nat), l ∈ D.latent → D.nodes.length - (D.children l).length ≤ k →
      ∃ r, r ∈ D.latent ∧ r ∉ rs ∧ ∀ c ∈ D.children l, c ∈ D.children r := by
  intro k
  induction k with
  | zero =>
    intro l
    induction l using Nat.strong_induction_on with
    | _ l ihl =>
      intro hl hk
      by_cases hlr : l ∈ rs
      · obtain ⟨_, r, hr, hdom⟩ := (hmem l).1 hlr
        rcases hdom with ⟨h1, _, h3⟩ | ⟨h1, h2⟩
        · have := length_children_mono D hw l r h1
          obtain ⟨r', hr', hr'S, hsub⟩ := ihl r h3 hr (by omega)
          exact ⟨r', hr', hr'S, fun c hc => hsub c (h1 c hc)⟩
        · have := length_children_strict D hw l r h1 h2
          have := length_children_le D hw r
          omega
      · exact ⟨l, hl, hlr, fun c hc => hc⟩
  | succ k ihk =>
    intro l
    induction l using Nat.strong_induction_on with
    | _ l ihl =>
      intro hl hk
      by_cases hlr : l ∈ rs
      · obtain ⟨_, r, hr, hdom⟩ := (hmem l).1 hlr
        rcases hdom with ⟨h1, _, h3⟩ | ⟨h1, h2⟩
        · have := length_children_mono D hw l r h1
          obtain ⟨r', hr', hr'S, hsub⟩ := ihl r h3 hr (by omega)
          exact ⟨r', hr', hr'S, fun c hc => hsub c (h1 c hc)⟩
        · have := length_children_strict D hw l r h1 h2
          have := length_children_le D hw r
          obtain ⟨r', hr', hr'S, hsub⟩ := ihk r hr (by omega)
          exact ⟨r', hr', hr'S, fun c hc => hsub c (h1 c hc)⟩
      · exact ⟨l, hl, hlr, fun c hc => hc⟩

/-- **rule 4** -/
theorem removeRedundantLatents_spec (D D' : LV) (rs : List Nat)
    (h : D.removeRedundantLatents = .ok (D', rs)) (hw : D.WF) (hf : D.Flat)
    (htwo : ∀ l ∈ D.latent, 2 ≤ (D.children l).length) :
    D' = D.removeNodes rs ∧ SameProj D D' ∧ D'.WF ∧ D'.Simplified := by
  unfold removeRedundantLatents at h
  cases hr : D.redundant with
  | error e => rw [hr] at h; cases h
  | ok rs' =>
    rw [hr] at h
    have hD : D' = D.removeNodes rs' ∧ rs = rs' := by cases h; exact ⟨rfl, rfl⟩
    obtain ⟨rfl, rfl⟩ := hD
    have hmem := mem_redundant D hw rs hr
    have hS : ∀ s ∈ rs, s ∈ D.latent := fun s hs => ((hmem s).1 hs).1
    have hch := children_removeNodes_flat D hf rs hS
    refine ⟨rfl, removeLatents_sameProj_flat D hf rs hS ?_, wf_removeNodes D rs hw,
      ⟨flat_removeNodes D rs hf, ?_, ?_⟩⟩
    · intro s hs u w _ su sw
      obtain ⟨r, hr', hrS, hsub⟩ := exists_cover D hw rs hmem _ s (hS s hs) (le_refl _)
      exact ⟨r, hr', hrS, (mem_children D r u).1 (hsub u ((mem_children D s u).2 su)),
        (mem_children D r w).1 (hsub w ((mem_children D s w).2 sw))⟩
    · intro l hl
      rw [mem_latent_removeNodes] at hl
      rw [hch l hl.2]
      exact htwo l hl.1
    · intro l hl r hr' hsub
      rw [mem_latent_removeNodes] at hl hr'
      rw [hch l hl.2, hch r hr'.2] at hsub ⊢
      have hnd : ¬ D.Dominates r l := fun hd => hl.2 ((hmem l).2 ⟨hl.1, r, hr'.1, hd⟩)
      have hsup : ∀ c ∈ D.children r, c ∈ D.children l := by
        by_contra hns
        exact hnd (Or.inr ⟨hsub, hns⟩)
      refine ⟨?_, hsup⟩
      by_contra hlt
      exact hnd (Or.inl ⟨hsub, hsup, by omega⟩)

end Y0.LV
