/-
  Y0.Lemmas.TianTotal — totality of the IDENTIFY model: under the preconditions of Tian & Pearl's IDENTIFY
  (`C ⊆ T ⊆ topo`, `G[T]` a single district, `C` bidirected-connected, `Q[T]` a Sum/Product/Fraction/Probability)
  the recursion never raises and never runs out of fuel: the answer is an expression or FAIL (`none`).
-/
import Y0.Lemmas.TianIdentify

namespace Y0
namespace TianTotal
open TianDsl Tian TianDen TianSpec TianGraph TianLemma1 TianIdentify MG

/-! ### graph facts -/

theorem sameDistrict_mono {G1 G2 : MG Name} (h : ∀ u v, G1.BiEdge u v → G2.BiEdge u v) {a b : Name}
    (hab : G1.SameDistrict a b) : G2.SameDistrict a b := by
  induction hab with
  | refl => exact .refl
  | tail _ hbc ih => exact ih.tail (h _ _ hbc)

/-- a graph all of whose nodes are bidirected-connected has at most one district -/
theorem districts_le_one (G : MG Name) (hG : G.WF)
    (hconn : ∀ u ∈ G.nodes, ∀ v ∈ G.nodes, G.SameDistrict u v) : G.districts.length ≤ 1 := by
  have hdis := districts_disjoint G hG
  cases hd : G.districts with
  | nil => simp
  | cons d1 rest =>
    cases rest with
    | nil => simp
    | cons d2 rest' =>
      exfalso
      rw [hd] at hdis
      have h12 := (List.pairwise_cons.mp hdis).1 d2 List.mem_cons_self
      have hd1 : d1 ∈ G.districts := by rw [hd]; simp
      have hd2 : d2 ∈ G.districts := by rw [hd]; simp
      obtain ⟨x, hx⟩ := List.exists_mem_of_ne_nil _ (districts_nonempty G hG d1 hd1)
      obtain ⟨y, hy⟩ := List.exists_mem_of_ne_nil _ (districts_nonempty G hG d2 hd2)
      have hxn : x ∈ G.nodes := (districts_cover G hG x).mpr ⟨d1, hd1, hx⟩
      have hyn : y ∈ G.nodes := (districts_cover G hG y).mpr ⟨d2, hd2, hy⟩
      have : y ∈ d1 := (districts_spec G hG d1 hd1 x hx y).mpr (hconn x hxn y hyn)
      exact h12 y this hy

/-- a district of `G[S]`, taken as a graph of its own, is a single district -/
theorem district_subgraph_le_one (G : MG Name) (S d : List Name) (hd : d ∈ (G.subgraph S).districts) :
    (G.subgraph d).districts.length ≤ 1 := by
  have hwf := wf_subgraph G S
  apply districts_le_one _ (wf_subgraph G d)
  intro u hu v hv
  rw [mem_nodes_subgraph] at hu hv
  have huv : (G.subgraph S).SameDistrict u v := (districts_spec _ hwf d hd u hu v).mp hv
  -- the connecting path stays inside the district
  have key : ∀ b, (G.subgraph S).SameDistrict u b → (G.subgraph d).SameDistrict u b ∧ b ∈ d := by
    intro b hb
    induction hb with
    | refl => exact ⟨.refl, hu⟩
    | tail hab hbc ih =>
      rename_i b c
      have hc : c ∈ d := (districts_spec _ hwf d hd u hu c).mpr (hab.tail hbc)
      refine ⟨ih.1.tail ?_, hc⟩
      exact (biEdge_subgraph G d b c).mpr ⟨((biEdge_subgraph G S b c).mp hbc).1, ih.2, hc⟩
  exact (key v huv).1

/-- a connected `C` inside `S` lies in one district of `G[S]` -/
theorem exists_district_of_connected (G : MG Name) (S C : List Name) (hCS : ∀ c ∈ C, c ∈ S) (c0 : Name) (hc0 : c0 ∈ C)
    (hconn : ∀ c1 ∈ C, ∀ c2 ∈ C, (G.subgraph C).SameDistrict c1 c2) :
    ∃ d ∈ (G.subgraph S).districts, subset' C d = true := by
  have hwf := wf_subgraph G S
  obtain ⟨d, hd, hc0d⟩ := (districts_cover _ hwf c0).mp ((mem_nodes_subgraph G S c0).mpr (hCS c0 hc0))
  refine ⟨d, hd, subset'_iff.mpr ?_⟩
  intro c hc
  apply (districts_spec _ hwf d hd c0 hc0d c).mpr
  apply sameDistrict_mono _ (hconn c0 hc0 c hc)
  intro u v huv
  have := (biEdge_subgraph G C u v).mp huv
  exact (biEdge_subgraph G S u v).mpr ⟨this.1, hCS u this.2.1, hCS v this.2.2⟩

theorem find_district (G : MG Name) (S C : List Name) (hCS : ∀ c ∈ C, c ∈ S) (c0 : Name) (hc0 : c0 ∈ C)
    (hconn : ∀ c1 ∈ C, ∀ c2 ∈ C, (G.subgraph C).SameDistrict c1 c2) :
    ∃ T', (G.subgraph S).districts.find? (fun d => subset' C d) = some T' := by
  obtain ⟨d, hd, hCd⟩ := exists_district_of_connected G S C hCS c0 hc0 hconn
  cases h : (G.subgraph S).districts.find? (fun d => subset' C d) with
  | some T' => exact ⟨T', rfl⟩
  | none =>
    have := List.find?_eq_none.mp h d hd
    simp [hCd] at this

/-- the measure of the recursion strictly decreases -/
theorem dedup_length_lt {T' A T : List Name} (hT'nd : T'.Nodup) (hT'A : ∀ v ∈ T', v ∈ A) (hAT : ∀ a ∈ A, a ∈ T)
    (hne : ¬ seteq' A T = true) : (dedup' T').length < (dedup' T).length := by
  rw [dedup'_eq_of_nodup _ hT'nd]
  have : ∃ t ∈ T, t ∉ A := by
    by_contra hcon
    apply hne
    apply seteq'_iff.mpr
    intro v
    constructor
    · exact hAT v
    · intro hv
      by_contra hvA
      exact hcon ⟨v, hv, hvA⟩
  obtain ⟨t, htT, htA⟩ := this
  have hnd : (t :: T').Nodup := List.nodup_cons.mpr ⟨fun h => htA (hT'A t h), hT'nd⟩
  have hsub : (t :: T') ⊆ dedup' T := by
    intro x hx
    rw [mem_dedup']
    rcases List.mem_cons.mp hx with rfl | hx
    · exact htT
    · exact hAT x (hT'A x hx)
  have := (List.Nodup.subperm hnd hsub).length_le
  simp only [List.length_cons] at this
  omega

/-! ### the constructors the c-factor routines return -/

def IsQExpr (e : Expr) : Prop := isFracProdSum e = true ∨ isProb e = true

theorem sumSafe_fps {q e : Expr} {rs : List Var} (hq : isFracProdSum q = true) (h : sumSafe q rs = .ok e) :
    isFracProdSum e = true := by
  unfold sumSafe at h
  simp only at h
  split at h
  · cases h; exact hq
  · split at h
    · cases h; exact hq
    · split at h
      · cases h
      · cases h; rfl

theorem not_one_zero_of_qexpr {e : Expr} (h : IsQExpr e) : isOne e = false ∧ isZero e = false := by
  cases e <;> simp_all [IsQExpr, isFracProdSum, isProb, isOne, isZero]

theorem productSafe_qexpr {fs : List Expr} (hne : fs ≠ []) (h : ∀ f ∈ fs, IsQExpr f) : IsQExpr (productSafe fs) := by
  have hfilter : fs.filter (fun e => !isOne e) = fs := by
    apply List.filter_eq_self.mpr
    intro f hf
    simp [(not_one_zero_of_qexpr (h f hf)).1]
  have hnz : fs.any isZero = false := by
    apply Bool.eq_false_iff.mpr
    intro hany
    rcases List.any_eq_true.mp hany with ⟨f, hf, hz⟩
    rw [(not_one_zero_of_qexpr (h f hf)).2] at hz
    cases hz
  unfold productSafe
  simp only [hfilter, hnz, Bool.false_eq_true, ↓reduceIte]
  match fs, hne, h with
  | [f], _, h => exact h f List.mem_cons_self
  | _ :: _ :: _, _, _ => exact Or.inl rfl

theorem lowIndex_some_fps {q e : Expr} {v : Name} {topo : List Name} (hq : isFracProdSum q = true)
    (h : lowIndex (some v) q topo = .ok e) : isFracProdSum e = true := by
  simp only [lowIndex] at h
  split at h
  · cases h
  · cases hj : indexOf topo v with
    | error err => rw [hj] at h; simp [bind, Except.bind] at h
    | ok j =>
      rw [hj] at h
      exact sumSafe_fps hq h

theorem lemma4_qexpr {q e : Expr} {D topo : List Name} (hD : D ≠ []) (hq : isFracProdSum q = true)
    (h : lemma4 D q topo = .ok e) : IsQExpr e := by
  unfold lemma4 at h
  cases hm : D.mapM (lemma4One q topo) with
  | error err => rw [hm] at h; simp [bind, Except.bind] at h
  | ok fs =>
    rw [hm] at h
    simp only [bind, Except.bind, pure, Except.pure] at h
    cases h
    have hall := mapM_ok_forall₂ _ _ _ hm
    apply productSafe_qexpr
    · intro h0
      have := hall.length_eq
      rw [h0] at this
      exact hD (List.length_eq_zero_iff.mp (by simpa using this))
    · intro f hf
      obtain ⟨v, _, hvf⟩ := forall₂_exists_left hall f hf
      left
      unfold lemma4One at hvf
      cases hi : indexOf topo v with
      | error err => rw [hi] at hvf; simp [bind, Except.bind] at hvf
      | ok i =>
        rw [hi] at hvf
        simp only [bind, Except.bind] at hvf
        unfold lemma4Factor at hvf
        cases hc : lowIndex (some v) q topo with
        | error err => rw [hc] at hvf; simp [bind, Except.bind] at hvf
        | ok cur =>
          rw [hc] at hvf
          simp only [bind, Except.bind] at hvf
          split at hvf
          · simp only [pure, Except.pure] at hvf; cases hvf; exact lowIndex_some_fps hq hc
          · split at hvf
            · cases hvf
            · rename_i u _
              cases hp : lowIndex (some u) q topo with
              | error err => rw [hp] at hvf; simp at hvf
              | ok prev =>
                rw [hp] at hvf
                simp only at hvf
                unfold mkFraction at hvf
                split at hvf
                · cases hvf
                · cases hvf; rfl

/-! ### Lemma 1 never fails on a non-empty district inside the order -/

theorem mkProb_ok (pop : Option Var) (d : Dist) (h : d.children ≠ []) : ∃ e, mkProb pop d = .ok e ∧ isProb e = true := by
  unfold mkProb
  cases pop with
  | some p => exact ⟨_, rfl, rfl⟩
  | none =>
    have : (sortedVariables d.children).isEmpty = false := by
      cases hs : sortedVariables d.children with
      | nil =>
        exfalso
        have := (sortStable_perm Var.keyLt d.children).length_eq
        unfold sortedVariables at hs
        rw [hs] at this
        exact h (List.length_eq_zero_iff.mp this.symm)
      | cons a l => rfl
    simp only [Dist.check, this, Bool.false_eq_true, ↓reduceIte, bind, Except.bind, pure, Except.pure]
    exact ⟨_, rfl, rfl⟩

theorem lemma1Factor_ok (pop : Option Var) (w : List (Name × Var)) (pa : List Var) (topo : List Name) (v : Name)
    (hv : v ∈ topo) : ∃ e, lemma1Factor pop w pa topo v = .ok e ∧ isProb e = true := by
  obtain ⟨i, hi⟩ := indexOf_ok_of_mem hv
  unfold lemma1Factor
  rw [hi]
  simp only [bind, Except.bind]
  cases pop with
  | some p => exact mkProb_ok _ _ (by simp)
  | none =>
    simp only [Dist.ofGiven, Dist.check, List.isEmpty_cons, Bool.false_eq_true, ↓reduceIte]
    exact mkProb_ok _ _ (by simp)

theorem lemma1_ok {pop : Option Var} {ch pa : List Var} {D topo : List Name} (hD : D ≠ [])
    (hsub : ∀ v ∈ D, v ∈ topo) : ∃ e, lemma1 D (.prob pop ch pa) topo = .ok e ∧ IsQExpr e := by
  obtain ⟨v0, hv0⟩ := List.exists_mem_of_ne_nil D hD
  have htopo : topo ≠ [] := fun h0 => by have := hsub v0 hv0; rw [h0] at this; cases this
  unfold lemma1
  have h1 : (D.isEmpty || topo.isEmpty) = false := by
    cases D <;> cases topo <;> simp_all
  have h2 : (D.any fun x => decide (x ∉ topo)) = false := by
    apply Bool.eq_false_iff.mpr
    intro hany
    rcases List.any_eq_true.mp hany with ⟨x, hx, hbad⟩
    simp only [decide_eq_true_eq] at hbad
    exact hbad (hsub x hx)
  simp only [h1, h2, Bool.false_eq_true, ↓reduceIte]
  obtain ⟨fs, hfs⟩ := mapM_ok_of_forall (lemma1Factor pop (world ch) pa topo) D
    (fun v hv => (lemma1Factor_ok pop (world ch) pa topo v (hsub v hv)).imp fun _ h => h.1)
  rw [hfs]
  refine ⟨_, rfl, ?_⟩
  have hall := mapM_ok_forall₂ _ _ _ hfs
  apply productSafe_qexpr
  · intro h0
    have := hall.length_eq
    rw [h0] at this
    exact hD (List.length_eq_zero_iff.mp (by simpa using this))
  · intro f hf
    obtain ⟨v, hv, hvf⟩ := forall₂_exists_left hall f hf
    obtain ⟨e, he, hp⟩ := lemma1Factor_ok pop (world ch) pa topo v (hsub v hv)
    rw [he] at hvf
    cases hvf
    exact Or.inr hp

theorem computeCFactor_ok {q : Expr} {D S topo : List Name} (hq : IsQExpr q) (hD : D ≠ [])
    (hsub : ∀ v ∈ D, v ∈ topo.filter (· ∈ S)) : ∃ e, computeCFactor D S q topo = .ok e ∧ IsQExpr e := by
  unfold computeCFactor
  simp only
  by_cases hfps : isFracProdSum q = true
  · simp only [hfps, ↓reduceIte]
    have hz : isZero q = false := (not_one_zero_of_qexpr hq).2
    obtain ⟨e, he⟩ := lemma4_ok (q := q) hsub hz
    exact ⟨e, he, lemma4_qexpr hD hfps he⟩
  · have hp : isProb q = true := by
      rcases hq with h | h
      · exact absurd h hfps
      · exact h
    simp only [hfps, Bool.false_eq_true, ↓reduceIte, hp, Bool.not_true]
    cases q with
    | prob pop ch pa => exact lemma1_ok hD hsub
    | _ => simp [isProb] at hp

/-! ### the expression for `Q[A]` -/

theorem ancestralProb_ok (pop : Option Var) (ch pa : List Var) (oA : List Name) (h : oA ≠ []) :
    ∃ e, ancestralProb pop ch pa oA = .ok e ∧ isProb e = true := by
  unfold ancestralProb
  cases hm : oA.map (inWorld (world ch)) with
  | nil => exact absurd (List.map_eq_nil_iff.mp hm) h
  | cons a as =>
    simp only
    have hne : upgradeOrdering (a :: as) ≠ [] := fun h0 => by
      have := upgradeOrdering_eq_nil.mp h0
      cases this
    have hemp : (upgradeOrdering (a :: as)).isEmpty = false := by
      cases hu : upgradeOrdering (a :: as) with
      | nil => exact absurd hu hne
      | cons x l => rfl
    simp only [Dist.ofJoint, Dist.check, hemp, Bool.false_eq_true, ↓reduceIte, bind, Except.bind, Dist.given]
    exact mkProb_ok _ _ (by simpa using hne)

theorem ancestralExpr_ok {q : Expr} (hq : IsQExpr q) (A T oA topo : List Name) (hoA : oA ≠ []) :
    ∃ e, ancestralExpr q A T oA topo = .ok e ∧ IsQExpr e := by
  unfold ancestralExpr
  by_cases hfps : isFracProdSum q = true
  · simp only [hfps, ↓reduceIte]
    obtain ⟨e, he⟩ := ancestralQ_ok A T q topo
    exact ⟨e, he, Or.inl (sumSafe_fps hfps he)⟩
  · have hp : isProb q = true := by
      rcases hq with h | h
      · exact absurd h hfps
      · exact h
    simp only [hfps, Bool.false_eq_true, ↓reduceIte]
    cases q with
    | prob pop ch pa =>
      obtain ⟨e, he, hpe⟩ := ancestralProb_ok pop ch pa oA hoA
      exact ⟨e, he, Or.inr hpe⟩
    | _ => simp [isProb] at hp

/-! ### totality -/

/-- **IDENTIFY is total** (fuel form): with enough fuel and the preconditions of the algorithm, the model returns
`some e` or `none`, never an error. -/
theorem identifyAux_total (G : MG Name) (topo C : List Name)
    (hconn : ∀ c1 ∈ C, ∀ c2 ∈ C, (G.subgraph C).SameDistrict c1 c2) :
    ∀ (fuel : Nat) (T : List Name) (q : Expr), (dedup' T).length < fuel → (∀ c ∈ C, c ∈ T) → (∀ t ∈ T, t ∈ topo) →
      (G.subgraph T).districts.length ≤ 1 → IsQExpr q →
      ∃ r, identifyAux G topo C fuel T q = .ok r := by
  intro fuel
  induction fuel with
  | zero => intro T q h; omega
  | succ fuel ih =>
    intro T q hfuel hCT hTt hdist hq
    simp only [identifyAux]
    have h1 : subset' C T = true := subset'_iff.mpr hCT
    have h2 : subset' T topo = true := subset'_iff.mpr hTt
    have h3 : ¬ (G.subgraph T).districts.length > 1 := by omega
    have h4 : (isFracProdSum q || isProb q) = true := by
      rcases hq with h | h <;> simp [h]
    simp only [h1, h2, h3, h4, Bool.not_true, Bool.false_eq_true, ↓reduceIte]
    obtain ⟨A, hA⟩ := anc_ok G C T hCT
    rw [hA]
    simp only [bind, Except.bind]
    obtain ⟨hCA, hAT, _⟩ := anc_facts G C T A hCT hA
    split
    · obtain ⟨r, hr⟩ := ancestralQ_ok A T q topo
      rw [hr]
      exact ⟨_, rfl⟩
    · rename_i hAC
      split
      · exact ⟨_, rfl⟩
      · rename_i hATne
        have h5 : (subset' C A && subset' A T) = true := by
          simp [subset'_iff.mpr hCA, subset'_iff.mpr hAT]
        simp only [h5, ↓reduceIte]
        -- `C` is not empty: `A ≠ C` although `C ⊆ A`, and every member of `A` is an ancestor of a member of `C`
        have hC0 : ∃ c0, c0 ∈ C := by
          have : ∃ a ∈ A, a ∉ C := by
            by_contra hcon
            apply hAC
            apply seteq'_iff.mpr
            intro v
            exact ⟨fun hv => by by_contra hvC; exact hcon ⟨v, hv, hvC⟩, hCA v⟩
          obtain ⟨a, ha, _⟩ := this
          obtain ⟨s, hs, _⟩ := (ancestorsInclusive_spec _ (wf_subgraph G T) C A hA a).mp ha
          exact ⟨s, hs⟩
        obtain ⟨c0, hc0⟩ := hC0
        have hCLA : ∀ c ∈ C, c ∈ topo.filter (· ∈ A) := by
          intro c hc
          exact List.mem_filter.mpr ⟨hTt c (hCT c hc), by simpa using hCA c hc⟩
        obtain ⟨T', hfind⟩ := find_district G (topo.filter (· ∈ A)) C hCLA c0 hc0 hconn
        rw [hfind]
        simp only
        have hT'mem := List.mem_of_find?_eq_some hfind
        have hCT'b := List.find?_some hfind
        obtain ⟨hT'nd, hT'A, _, hT'ne⟩ := district_facts G _ T' hT'mem
        have hoA : topo.filter (· ∈ A) ≠ [] := fun h0 => by
          have := hCLA c0 hc0
          rw [h0] at this
          cases this
        obtain ⟨qA, hqA, hqAq⟩ := ancestralExpr_ok hq A T (topo.filter (· ∈ A)) topo hoA
        rw [hqA]
        simp only
        obtain ⟨qT', hqT', hqT'q⟩ := computeCFactor_ok (S := A) (topo := topo) hqAq hT'ne hT'A
        rw [hqT']
        simp only
        apply ih T' qT'
        · have := dedup_length_lt hT'nd (fun v hv => by simpa using (List.mem_filter.mp (hT'A v hv)).2) hAT hATne
          omega
        · exact subset'_iff.mp hCT'b
        · exact fun t ht => (List.mem_filter.mp (hT'A t ht)).1
        · exact district_subgraph_le_one G _ T' hT'mem
        · exact hqT'q

end TianTotal
end Y0
