/-
  Y0.Lemmas.HedgeNonIdForest — parity bookkeeping of a forest: if every non-root node `p` of `T` has exactly one child
  `ch p ∈ T` and `par i` lists the non-root nodes whose child is `i`, then
      Σ_{i ∈ T} (σ i + Σ_{p ∈ par i} σ p)  ≡  Σ_{r ∈ R} σ r   (mod 2):
  every non-root value is counted twice.
-/
import Y0.Lemmas.HedgeNonIdQ

namespace Y0
namespace NonId

theorem sum_map_add {α : Type} (l : List α) (f g : α → Nat) :
    (l.map fun i => f i + g i).sum = (l.map f).sum + (l.map g).sum := by
  induction l with
  | nil => simp
  | cons a l ih => simp only [List.map_cons, List.sum_cons, ih]; omega

theorem sum_map_sum_comm {α β : Type} (l₁ : List α) (l₂ : List β) (f : α → β → Nat) :
    (l₁.map fun i => (l₂.map fun p => f i p).sum).sum = (l₂.map fun p => (l₁.map fun i => f i p).sum).sum := by
  induction l₁ with
  | nil => simp
  | cons a l ih =>
    simp only [List.map_cons, List.sum_cons, ih]
    rw [sum_map_add]

theorem sum_map_ite_eq (l : List Name) (hl : l.Nodup) (a : Name) (ha : a ∈ l) (x : Nat) :
    (l.map fun i => if a = i then x else 0).sum = x := by
  induction l with
  | nil => cases ha
  | cons b l ih =>
    have hnd := List.nodup_cons.mp hl
    simp only [List.map_cons, List.sum_cons]
    by_cases hab : a = b
    · subst hab
      have : (l.map fun i => if a = i then x else 0) = l.map fun _ => 0 := by
        apply List.map_congr_left
        intro i hi
        rw [if_neg (fun h' : a = i => hnd.1 (h' ▸ hi))]
      simp [this]
    · have ha' : a ∈ l := by
        rcases List.mem_cons.mp ha with h | h
        · exact absurd h hab
        · exact h
      rw [if_neg hab, ih hnd.2 ha']
      omega

theorem sum_filter_eq_sum_ite (q : Name → Bool) (f : Name → Nat) (l : List Name) :
    ((l.filter q).map f).sum = (l.map fun i => if q i = true then f i else 0).sum := by
  induction l with
  | nil => simp
  | cons a l ih =>
    by_cases h : q a = true
    · simp [h, ih]
    · have h' : q a = false := by simpa using h
      simp [h', ih]

theorem sum_filter_split (q : Name → Bool) (f : Name → Nat) (l : List Name) :
    (l.map f).sum = ((l.filter q).map f).sum + ((l.filter fun i => !q i).map f).sum := by
  induction l with
  | nil => simp
  | cons a l ih =>
    by_cases h : q a = true
    · simp [h, ih]; omega
    · have h' : q a = false := by simpa using h
      simp [h', ih]; omega

/-- parents in the forest given by the child map `ch`: the non-root nodes of `T` whose child is `i` -/
def forestPar (T Rl : List Name) (ch : Name → Name) (i : Name) : List Name :=
  T.filter fun p => decide (p ∉ Rl ∧ ch p = i)

/-- every non-root value is counted once as a parent -/
theorem forest_par_sum (T Rl : List Name) (ch : Name → Name) (hT : T.Nodup)
    (hch : ∀ p ∈ T, p ∉ Rl → ch p ∈ T) (σ : Val) :
    (T.map fun i => ((forestPar T Rl ch i).map σ).sum).sum = ((T.filter fun p => !decide (p ∈ Rl)).map σ).sum := by
  have h1 : ∀ i, ((forestPar T Rl ch i).map σ).sum =
      (T.map fun p => if (p ∉ Rl ∧ ch p = i) then σ p else 0).sum := by
    intro i
    unfold forestPar
    rw [sum_filter_eq_sum_ite]
    simp only [decide_eq_true_eq]
  simp only [h1]
  rw [sum_map_sum_comm, sum_filter_eq_sum_ite]
  refine congrArg List.sum (List.map_congr_left ?_)
  intro p hp
  by_cases hpR : p ∈ Rl
  · simp [hpR]
  · have := sum_map_ite_eq T hT (ch p) (hch p hp hpR) (σ p)
    simp only [hpR, not_false_eq_true, true_and, decide_false, Bool.not_false, if_true]
    exact this

/-- **parity of a forest**: the total exponent is the parity of the roots -/
theorem forest_parity (T Rl : List Name) (ch : Name → Name) (hT : T.Nodup) (hR : Rl.Nodup) (hRT : ∀ r ∈ Rl, r ∈ T)
    (hch : ∀ p ∈ T, p ∉ Rl → ch p ∈ T) (σ : Val) :
    (T.map fun i => σ i + ((forestPar T Rl ch i).map σ).sum).sum % 2 = (Rl.map σ).sum % 2 := by
  rw [sum_map_add T σ, forest_par_sum T Rl ch hT hch σ, sum_filter_split (fun p => decide (p ∈ Rl)) σ T]
  have hperm : (T.filter fun p => decide (p ∈ Rl)).Perm Rl := by
    apply (List.perm_ext_iff_of_nodup (hT.filter _) hR).mpr
    intro a
    simp only [List.mem_filter, decide_eq_true_eq]
    exact ⟨fun h => h.2, fun h => ⟨hRT a h, h⟩⟩
  rw [(hperm.map σ).sum_eq]
  omega

end NonId
end Y0
