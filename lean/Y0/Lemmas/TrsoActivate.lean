/-
  Y0.Lemmas.TrsoActivate — `activate_domain_and_interventions` (`Y0.Model.Trso.activate`) on a clean raw expression
  with a non-empty experiment: the only exception it can raise is the `NotImplementedError` of the `One()` branch;
  otherwise it returns a clean expression.

    interveneVar_ok / interveneVars_ok   `Variable.intervene` never raises on plain variables (non-empty experiment)
    activate_onlyNIE / activateList_onlyNIE
    activate_OnlyNIE                     the same in the `OnlyNIE` vocabulary of Y0.Lemmas.TrsoQInv
-/
import Y0.Lemmas.TrsoClean
import Y0.Lemmas.TrsoQInv
import Y0.Props.C06Transport

namespace Y0
namespace Trso
open TrDsl

/-! ### `Variable.intervene` on plain variables -/

/-- with a non-empty experiment the new subscript set is non-empty, and a plain variable is no counterfactual
variable, so neither `ValueError` can be raised -/
theorem interveneVar_ok {zs : List Name} (hz : zs ≠ []) {v : Var} (hv : PlainReg v) :
    ∃ v', interveneVar (zs.map Var.plain) v = .ok v' := by
  unfold interveneVar
  obtain ⟨h1, _, _, _⟩ := hv
  have hne : (ssort Iv.lt (dedup' (v.ivs ++ (zs.map Var.plain).map toIv))).isEmpty = false := by
    cases zs with
    | nil => exact absurd rfl hz
    | cons z zs' =>
      have hm : toIv (Var.plain z) ∈ ssort Iv.lt (dedup' (v.ivs ++ ((z :: zs').map Var.plain).map toIv)) := by
        simp
      cases hs : ssort Iv.lt (dedup' (v.ivs ++ ((z :: zs').map Var.plain).map toIv)) with
      | nil => rw [hs] at hm; cases hm
      | cons _ _ => rfl
  have hcf : v.isCf = false := by simp [Var.isCf, h1]
  simp only [hne, hcf, Bool.false_and, Bool.false_eq_true, if_false]
  exact ⟨_, rfl⟩

theorem interveneVars_ok {zs : List Name} (hz : zs ≠ []) {vs : List Var} (hv : ∀ v ∈ vs, PlainReg v) :
    ∃ vs', interveneVars (zs.map Var.plain) vs = .ok vs' := by
  obtain ⟨r, hr, _⟩ := mapM_ok_of (f := interveneVar (zs.map Var.plain)) (fun _ => True) vs
    (fun v hm => by obtain ⟨v', hv'⟩ := interveneVar_ok hz (hv v hm); exact ⟨v', hv', trivial⟩)
  exact ⟨r, hr⟩

/-! ### Except plumbing (either-ok-or-that-error direction) -/

/-- succeeds with a result in `P`, or raises `NotImplementedError` -/
def OkOrNIE {α} (P : α → Prop) (x : Except Err α) : Prop :=
  (∃ a, x = .ok a ∧ P a) ∨ x = .error (.internal "NotImplementedError")

theorem okOrNIE_bind {α β} {x : Except Err α} {f : α → Except Err β} {Q : α → Prop} {P : β → Prop}
    (hx : OkOrNIE Q x) (hf : ∀ a, Q a → OkOrNIE P (f a)) : OkOrNIE P (x >>= f) := by
  rcases hx with ⟨a, rfl, qa⟩ | rfl
  · exact hf a qa
  · exact Or.inr rfl

theorem okOrNIE_onlyNIE {α} {P : α → Prop} {x : Except Err α} (h : OkOrNIE P x) : OnlyNIE x := by
  rcases h with ⟨a, rfl, _⟩ | rfl
  · exact onlyNIE_ok a
  · intro e he; cases he; rfl

/-! ### `activate_domain_and_interventions` -/

mutual
/-- **`activate` raises nothing but `NotImplementedError`** (the `One()` branch) on a clean raw expression, and
returns a clean expression otherwise -/
theorem activate_onlyNIE {zs : List Name} {d : Pop} (hz : zs ≠ []) :
    ∀ (e : Expr), Clean e → Raw e →
      (∃ e', activate zs d e = .ok e' ∧ Clean e') ∨ activate zs d e = .error (.internal "NotImplementedError")
  | .prob none _ _, hc, _ => hc.elim
  | .prob (some pop) c p, _, hr => by
    refine Or.inl ?_
    simp only [activate]
    split
    · exact ⟨.one, rfl, trivial⟩
    · obtain ⟨c', hc'⟩ := interveneVars_ok hz
        (vs := sortVars (c.filter (fun v => !(zs.any fun z => decide (Var.plain z = v))))) (fun w hw => by
          have : w ∈ c := (List.mem_filter.1 ((mem_sortVars w _).1 hw)).1
          exact hr.2 w (List.mem_append.2 (Or.inl this)))
      obtain ⟨p', hp'⟩ := interveneVars_ok hz
        (vs := sortVars (p.filter (fun v => !(zs.any fun z => decide (Var.plain z = v))))) (fun w hw => by
          have : w ∈ p := (List.mem_filter.1 ((mem_sortVars w _).1 hw)).1
          exact hr.2 w (List.mem_append.2 (Or.inr this)))
      simp only [hc', hp', bind, Except.bind, pure, Except.pure]
      exact ⟨_, rfl, trivial⟩
  | .sum e r, hc, hr => by
    simp only [activate]
    exact okOrNIE_bind (Q := Clean) (activate_onlyNIE hz e hc hr.1)
      (fun a ha => Or.inl ⟨_, rfl, clean_sumSafe false ha⟩)
  | .frac n dn, hc, hr => by
    simp only [activate]
    refine okOrNIE_bind (Q := Clean) (activate_onlyNIE hz n hc.1 hr.1) (fun n' hn' => ?_)
    refine okOrNIE_bind (Q := Clean) (activate_onlyNIE hz dn hc.2 hr.2) (fun d' hd' => ?_)
    refine okOrNIE_bind (Q := Clean) (Or.inl (truediv_ok hn' hd')) (fun t ht => ?_)
    split
    · exact Or.inl (fracSimplify_ok ht.1 ht.2)
    · exact Or.inl ⟨_, rfl, ht⟩
  | .prod fs, hc, hr => by
    simp only [activate]
    exact okOrNIE_bind (Q := CleanList) (activateList_onlyNIE hz fs hc hr)
      (fun a ha => Or.inl ⟨_, rfl, clean_productSafe ha⟩)
  | .one, _, _ => Or.inr (by simp [activate])
  | .zero, hc, _ => hc.elim
  | .q _ _, hc, _ => hc.elim
theorem activateList_onlyNIE {zs : List Name} {d : Pop} (hz : zs ≠ []) :
    ∀ (es : List Expr), CleanList es → WfList RawLeaf PlainReg es →
      (∃ es', activate.activateList zs d es = .ok es' ∧ CleanList es') ∨
        activate.activateList zs d es = .error (.internal "NotImplementedError")
  | [], _, _ => Or.inl ⟨[], by simp [activate.activateList], trivial⟩
  | e :: es, hc, hr => by
    simp only [activate.activateList]
    refine okOrNIE_bind (Q := Clean) (activate_onlyNIE hz e hc.1 hr.1) (fun a ha => ?_)
    exact okOrNIE_bind (Q := CleanList) (activateList_onlyNIE hz es hc.2 hr.2)
      (fun as has => Or.inl ⟨_, rfl, ha, has⟩)
end

/-- the same in the vocabulary of Y0.Lemmas.TrsoQInv -/
theorem activate_OnlyNIE {zs : List Name} {d : Pop} (hz : zs ≠ []) {e : Expr} (hc : Clean e) (hr : Raw e) :
    OnlyNIE (activate zs d e) :=
  okOrNIE_onlyNIE (P := Clean) (activate_onlyNIE hz e hc hr)

end Trso
end Y0
