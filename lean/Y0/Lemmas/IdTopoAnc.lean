/-
  Y0.Lemmas.IdTopoAnc — an executable topological sorter that provably satisfies BOTH assumptions the theorems make
  about `graph.topological_sort()` (`TopoGood`: total on well-formed acyclic graphs; `TopoSound`: linear extension):
  sort the nodes by their number of ancestors, then check the answer.  Hence the hypotheses of `id_total`,
  `id_sound`, `idc_total`, … are jointly satisfiable for every graph.
-/
import Y0.Lemmas.IdTopo
import Y0.Lemmas.IdRank
import Y0.Lemmas.IdDen

namespace Y0
open MG IdAux

/-- any candidate order, accepted only if it is a valid topological order -/
def mkTopo (raw : MG Name → List Name) (H : MG Name) : Except Err (List Name) :=
  if validTopoB H (raw H) then .ok (raw H) else .error (.internal "NetworkXUnfeasible")

theorem mkTopo_sound (raw : MG Name → List Name) : TopoSound (mkTopo raw) := by
  have key : ∀ H o, mkTopo raw H = .ok o → validTopoB H o = true := by
    intro H o h
    unfold mkTopo at h
    split at h
    · rename_i hv; cases h; exact hv
    · cases h
  refine ⟨fun H o h => ?_, fun H o h v => ?_, fun H o h l1 l2 hsplit a ha r hr hra => ?_⟩
  · have := key H o h
    simp only [validTopoB, Bool.and_eq_true, decide_eq_true_eq] at this
    exact this.1.1.1
  · have := key H o h
    simp only [validTopoB, Bool.and_eq_true, decide_eq_true_eq, List.all_eq_true] at this
    exact ⟨fun hv => this.1.1.2 v hv, fun hv => this.1.2 v hv⟩
  · have := key H o h
    simp only [validTopoB, Bool.and_eq_true, decide_eq_true_eq, List.all_eq_true] at this
    have hnd : (l1 ++ l2).Nodup := hsplit ▸ this.1.1.1
    have hrl1 : r ∉ l1 := fun hc => (List.nodup_append.mp hnd).2.2 r hc r hr rfl
    have h1 := this.2 (r, a) hra
    simp only at h1
    rw [hsplit] at h1
    have h2 := posOf_lt_of_mem_left (l2 := l2) ha
    have h3 := posOf_ge_of_not_mem_left (l2 := l2) hrl1
    omega

theorem IdAux.perm_insertBy {α : Type} (lt : α → α → Bool) (x : α) (l : List α) : (insertBy lt x l).Perm (x :: l) := by
  induction l with
  | nil => simp [insertBy]
  | cons b l ih =>
    simp only [insertBy]
    split
    · exact ((List.Perm.cons b ih).trans (List.Perm.swap x b l))
    · exact List.Perm.refl _

/-- insertion sort by a key keeps the list sorted by that key -/
theorem sortBy_key_sorted (k : Name → Nat) (l : List Name) :
    (sortBy (fun a b => decide (k a < k b)) l).Pairwise (fun a b => k a ≤ k b) := by
  have ins : ∀ (x : Name) (l : List Name), l.Pairwise (fun a b => k a ≤ k b) →
      (insertBy (fun a b => decide (k a < k b)) x l).Pairwise (fun a b => k a ≤ k b) := by
    intro x l hl
    induction l with
    | nil => simp [insertBy]
    | cons y ys ih =>
      simp only [insertBy]
      have hy := List.pairwise_cons.mp hl
      split
      · rename_i hyx
        have hyx' : k y < k x := by simpa using hyx
        refine List.pairwise_cons.mpr ⟨?_, ih hy.2⟩
        intro b hb
        have hmem : b = x ∨ b ∈ ys := by
          have : b ∈ x :: ys := ((perm_insertBy _ x ys).subset hb)
          simpa using this
        rcases hmem with rfl | hb
        · omega
        · exact hy.1 b hb
      · rename_i hyx
        have hyx' : ¬ k y < k x := by simpa using hyx
        refine List.pairwise_cons.mpr ⟨?_, hl⟩
        intro b hb
        rcases List.mem_cons.mp hb with rfl | hb
        · omega
        · have := hy.1 b hb; omega
  induction l with
  | nil => simp [sortBy]
  | cons b l ih =>
    unfold sortBy at ih ⊢
    simp only [List.foldr_cons]
    exact ins b _ ih

/-- the nodes sorted by their number of ancestors -/
def rawAncOrder (H : MG Name) : List Name := sortBy (fun a b => decide (H.ancCount a < H.ancCount b)) H.nodes

/-- `topological_sort` realised by sorting on the number of ancestors (and checking the result) -/
def ancTopo : MG Name → Except Err (List Name) := mkTopo rawAncOrder

theorem ancTopo_sound : TopoSound ancTopo := mkTopo_sound _

theorem ancTopo_valid (H : MG Name) (hH : H.WF) (hr : H.Ranked) : validTopoB H (rawAncOrder H) = true := by
  have hperm : (rawAncOrder H).Perm H.nodes := perm_sortBy _ _
  have hnd : (rawAncOrder H).Nodup := hperm.nodup_iff.mpr hH.nodup
  have hsorted := sortBy_key_sorted H.ancCount H.nodes
  have hkey : ∀ e ∈ H.di, H.ancCount e.1 < H.ancCount e.2 := by
    -- the ancestor count is a rank function on a well-formed acyclic graph
    have hac := ranked_acyclic hr
    intro e he
    obtain ⟨hu, hv⟩ := hH.di_mem e he
    obtain ⟨Au, hAu⟩ := ancestorsInclusive_total H [e.1] (by simpa using hu)
    obtain ⟨Av, hAv⟩ := ancestorsInclusive_total H [e.2] (by simpa using hv)
    have huv : H.DiEdge e.1 e.2 := he
    simp only [ancCount, hAu, hAv]
    have specu := ancestorsInclusive_spec H hH [e.1] Au hAu
    have specv := ancestorsInclusive_spec H hH [e.2] Av hAv
    refine length_lt_of_subset (nodup_ancestorsInclusive hAu) ?_ ((specv e.2).mpr ⟨e.2, by simp, .refl⟩) ?_
    · intro x hx
      obtain ⟨s, hs, hxs⟩ := (specu x).mp hx
      simp only [List.mem_singleton] at hs
      subst hs
      exact (specv x).mpr ⟨e.2, by simp, hxs.tail huv⟩
    · intro hc
      obtain ⟨s, hs, hvs⟩ := (specu e.2).mp hc
      simp only [List.mem_singleton] at hs
      subst hs
      exact hac e.2 (Relation.TransGen.tail' hvs huv)
  simp only [validTopoB, Bool.and_eq_true, decide_eq_true_eq, List.all_eq_true]
  refine ⟨⟨⟨hnd, fun v hv => hperm.subset hv⟩, fun v hv => hperm.symm.subset hv⟩, ?_⟩
  intro e he
  obtain ⟨hu, hv⟩ := hH.di_mem e he
  have hlt := hkey e he
  have hvo : e.2 ∈ rawAncOrder H := hperm.symm.subset hv
  have huo : e.1 ∈ rawAncOrder H := hperm.symm.subset hu
  obtain ⟨l1, l2, hsplit, hvl1⟩ := exists_split_at hvo
  have hne : e.1 ≠ e.2 := fun h => by rw [h] at hlt; exact Nat.lt_irrefl _ hlt
  have hu12 : e.1 ∈ l1 ∨ e.1 ∈ l2 := by
    rw [hsplit] at huo
    simp only [List.mem_append, List.mem_cons] at huo
    rcases huo with h | h | h
    · exact Or.inl h
    · exact absurd h hne
    · exact Or.inr h
  rcases hu12 with h | h
  · have h1 : posOf (rawAncOrder H) e.1 < l1.length := by rw [hsplit]; exact posOf_lt_of_mem_left h
    have h2 : posOf (rawAncOrder H) e.2 = l1.length := by
      unfold posOf; rw [hsplit, takeWhile_ne_append hvl1]
    omega
  · exfalso
    have hs : (l1 ++ e.2 :: l2).Pairwise (fun a b => H.ancCount a ≤ H.ancCount b) := hsplit ▸ hsorted
    have := (List.pairwise_cons.mp (List.pairwise_append.mp hs).2.1).1 e.1 h
    omega

theorem ancTopo_good : TopoGood ancTopo := by
  refine ⟨fun H hH hr => ⟨rawAncOrder H, ?_⟩, fun H o h v => (ancTopo_sound.nodes H o h v)⟩
  unfold ancTopo mkTopo
  simp [ancTopo_valid H hH hr]

end Y0
