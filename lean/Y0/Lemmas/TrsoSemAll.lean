/-
  Y0.Lemmas.TrsoSemAll — soundness of the TRSO recursion for a CLASS of contexts at once (`trsoF_sound_engine`):
  if the carried expression denotes `Q[V_cur]` in every context of the class, every estimand the recursion returns
  denotes `Σ_{V_cur ∖ (X ∪ Y)} Q[V_cur ∖ X]` in every context of the class.  Lines 6/7 are a parameter (`H67`):
  in a run without usable experiments and inside a source domain `step67` returns nothing; in the target domain the
  hypothesis is discharged with the transport lemma (Lemmas/TrsoSemL6).

  Why a class: after line 10 the model decides SYNTACTICALLY (`carriedIsJoint`) whether the conditionals may be read
  off the carried joint.  That the canonical product built by line 10 is never again a bare joint is shown
  semantically, in a "coin" context of the class (all variables binary, all mechanisms uniform): a bare joint over one
  name has value 1 or 1/2 there, a c-factor of two or more nodes at most 1/4.
-/
import Y0.Lemmas.TrsoSem34
import Y0.Lemmas.TrsoSemRatio
import Mathlib.Tactic.NormNum

namespace Y0
namespace Trso
open TrDsl MG IdAux

/-- a context in which c-factors and one-name joints take coin values -/
structure Coin (ctx : Ctx) : Prop where
  Q : ∀ T : List Name, T.Nodup → (∀ v ∈ T, v ∈ ctx.G0.nodes) → ∀ σ, ctx.M.Q T σ = (1 / 2 : Rat) ^ T.length
  leaf : ∀ pop c, ctx.S.Adm pop c [] → OneName pop c [] →
    ∀ σ, ctx.leaf pop c [] σ = 1 ∨ ctx.leaf pop c [] σ = 1 / 2

/-- in a coin context an expression with one-name leaves that denotes the c-factor of two or more nodes is not a
bare joint -/
theorem notJoint_of_coin {ctx : Ctx} (hc : Coin ctx) {e : Expr} (hg : Good ctx.S e) (hw : Wf OneName (fun _ => True) e)
    {T : List Name} (hT : T.Nodup) (hTG : ∀ v ∈ T, v ∈ ctx.G0.nodes) (h2 : 2 ≤ T.length)
    (hest : ∀ σ, denL ctx.M.card ctx.leaf e σ = ctx.M.Q T σ) : ∀ pop c, e ≠ .prob pop c [] := by
  intro pop c he
  subst he
  have h1 := hest (fun _ => 0)
  rw [hc.Q T hT hTG] at h1
  have hle : (1 / 2 : Rat) ^ T.length ≤ (1 / 2 : Rat) ^ 2 :=
    pow_le_pow_of_le_one (by norm_num) (by norm_num) h2
  have hlt : (1 / 2 : Rat) ^ T.length < 1 / 2 := lt_of_le_of_lt hle (by norm_num)
  have h12 : ¬ (1 : Rat) < 1 / 2 := by norm_num
  have hadm : ctx.S.Adm pop c [] := hg.2
  have hone : OneName pop c [] := hw
  change ctx.leaf pop c [] (fun _ => 0) = _ at h1
  rcases hc.leaf pop c hadm hone (fun _ => 0) with h | h
  · rw [h] at h1; rw [← h1] at hlt; exact h12 hlt
  · rw [h] at h1; rw [← h1] at hlt; exact lt_irrefl _ hlt

/-- the invariant in every context of a class -/
def Inv (C : Ctx → Prop) (q : Query) (G : MG Name) : Prop := ∀ ctx, C ctx → SemInv ctx q G

/-- a side condition on (active interventions, domain, usable experiments) that the recursion maintains -/
def Stable (K : Query → Prop) : Prop :=
  ∀ q q', K q → q'.active = q.active → q'.domain = q.domain → (q'.surr = q.surr ∨ q'.surr = []) → K q'

/-- **the hook for lines 6 / 7**: whatever `step67` returns at a query that satisfies the invariants (lines 1-4 not
applicable) is sound in every context of the class -/
def H67 (sep : SepTest) (C : Ctx → Prop) (K : Query → Prop) (Mb : Nat) : Prop :=
  ∀ (fuel : Nat) (q : Query) (G : MG Name), QInv Mb q G → Inv C q G → K q → q.X.isEmpty = false →
    ∀ anc, G.ancestorsInclusive q.Y = .ok anc → (diff' (regularNodes G) anc).isEmpty = true →
    ∀ extra, noEffectOnOutcomes G q.X q.Y = .ok extra → extra.isEmpty = true →
    ¬ (G.removeNodes q.X).districts.length > 1 →
    ∀ e, step67 sep (trsoF sep fuel) q = .ok (some e) → ∀ ctx, C ctx → Sound ctx q G e

theorem seteq'_iff_mem {a b : List Name} : seteq' a b = true ↔ ∀ v, v ∈ a ↔ v ∈ b := by
  simp only [seteq', subset', Bool.and_eq_true, List.all_eq_true, decide_eq_true_eq]
  exact ⟨fun h v => ⟨h.1 v, h.2 v⟩, fun h => ⟨fun v => (h v).1, fun v => (h v).2⟩⟩

theorem forall₂_imp_mem {α β} {R S : α → β → Prop} : ∀ {l₁ : List α} {l₂ : List β}, List.Forall₂ R l₁ l₂ →
    (∀ a ∈ l₁, ∀ b, R a b → S a b) → List.Forall₂ S l₁ l₂
  | _, _, .nil, _ => .nil
  | _, _, .cons h t, hi =>
    .cons (hi _ List.mem_cons_self _ h) (forall₂_imp_mem t (fun a ha b => hi a (List.mem_cons_of_mem _ ha) b))

/-- `_c14n_safe` of a sound estimand is sound -/
theorem sound_c14n {ctx : Ctx} {q : Query} {G : MG Name} {o : Option Expr} {e : Expr}
    (ho : ∀ e1, o = some e1 → Sound ctx q G e1) (h : c14nSafe o = .ok (some e)) : Sound ctx q G e := by
  cases o with
  | none => simp [c14nSafe] at h
  | some e1 =>
    obtain ⟨g1, n1, d1⟩ := ho e1 rfl
    simp only [c14nSafe] at h
    obtain ⟨e2, he2, h⟩ := bind_ok h
    have : e2 = e := by simpa [pure, Except.pure] using h
    subst this
    exact ⟨good_canonicalize ctx.S g1 he2, sumND_canonicalize n1 he2,
      fun σ => by rw [denL_canonicalize ctx.S g1 n1 he2 σ, d1 σ]⟩

theorem Sound.congr {ctx : Ctx} {q s : Query} {G G' : MG Name} {e : Expr} (h : Sound ctx s G' e)
    (hs : ∀ σ, Spec ctx.M (regularNodes G') s.X s.Y σ = Spec ctx.M (regularNodes G) q.X q.Y σ) : Sound ctx q G e :=
  ⟨h.1, h.2.1, fun σ => by rw [h.2.2 σ, hs σ]⟩

/-- a duplicate-free list that contains a non-empty list and one more element has two elements -/
theorem two_le_length_of_ssub {c c' : List Name} (_hc' : c'.Nodup) (hne : c ≠ []) (hsub : ∀ v ∈ c, v ∈ c')
    (hns : ¬ ∀ v ∈ c', v ∈ c) : 2 ≤ c'.length := by
  obtain ⟨a, ha⟩ := List.exists_mem_of_ne_nil _ hne
  have ⟨b, hb, hbc⟩ : ∃ b, b ∈ c' ∧ b ∉ c := by
    by_contra hcon
    exact hns (fun v hv => by
      by_contra hv'
      exact hcon ⟨v, hv, hv'⟩)
  have hab : a ≠ b := fun e => hbc (e ▸ ha)
  have hsub2 : [a, b].Subperm c' := by
    apply List.subperm_of_subset (by simp [hab])
    intro x hx
    simp only [List.mem_cons, List.not_mem_nil, or_false] at hx
    rcases hx with rfl | rfl
    · exact hsub _ ha
    · exact hb
  simpa using hsub2.length_le

/-- **the recursion is sound in every context of the class** -/
theorem trsoF_sound_engine (sep : SepTest) (C : Ctx → Prop) {c₀ : Ctx} (h₀ : C c₀) (hcoin : Coin c₀)
    (K : Query → Prop) (hK : Stable K) (Mb : Nat) (h67 : H67 sep C K Mb) :
    ∀ (fuel : Nat) (q : Query) (G : MG Name), QInv Mb q G → Inv C q G → K q →
      ∀ e, trsoF sep fuel q = .ok (some e) → ∀ ctx, C ctx → Sound ctx q G e
  | 0, _, _, _, _, _, _, he, _, _ => by simp [trsoF] at he
  | fuel + 1, q, G, hq, hI, hKq, e, he, ctx, hctx => by
    have ih := trsoF_sound_engine sep C h₀ hcoin K hK Mb h67 fuel
    have h := hI ctx hctx
    have hclean : Clean q.expr := (hI c₀ h₀).good.1
    have hg : q.graph = .ok G := hq.look
    unfold trsoF at he
    rw [hg, ok_bind] at he
    split at he
    · -- line 1
      rename_i hX
      exact sound_line1 hq h hX he
    · rename_i hX
      have hXne : q.X.isEmpty = false := by simpa using hX
      obtain ⟨anc, hanc⟩ := hq.anc_ok
      rw [hanc, ok_bind] at he
      split at he
      · -- line 2
        rename_i hne
        have hne' : (diff' (regularNodes G) anc).isEmpty = false := by simpa using hne
        unfold step2 at he
        obtain ⟨q', hq', he2⟩ := bind_ok he
        obtain ⟨o, ho, he3⟩ := bind_ok he2
        clear he he2
        obtain ⟨q'', G'', hq'', hinv'', _, _, hsu, hac, hdo⟩ := qline2_ok hq hanc hne' (fun _ => True)
          (fun r => by obtain ⟨e', he', _⟩ := line2_expr_ok (dom := q.domain) (r := r) hclean; exact ⟨e', he', trivial⟩)
        have hqq : q'' = q' := by rw [hq'] at hq''; exact (Except.ok.inj hq'').symm
        subst hqq
        have hG'' : G'' = G.subgraph (nsort anc) := by
          have h1 := hinv''.look
          rw [(line2_shape' hq.look hanc hq').2.2.2.2.2.1] at h1
          exact (Except.ok.inj h1).symm
        subst hG''
        have hI' : Inv C q'' (G.subgraph (nsort anc)) := fun c hc => (sound_line2 hq (hI c hc) hanc hne' hq').1
        refine sound_c14n (fun e1 he1 => ?_) he3
        subst he1
        exact (ih q'' _ hinv'' hI' (hK q q'' hKq hac hdo (Or.inl hsu)) e1 ho ctx hctx).congr
          (sound_line2 hq h hanc hne' hq').2
      · rename_i hall0
        have hall : (diff' (regularNodes G) anc).isEmpty = true := by simpa using hall0
        obtain ⟨extra, hex⟩ := hq.noEffect_ok
        rw [hex, ok_bind] at he
        split at he
        · -- line 3
          rename_i hne
          have hne' : extra.isEmpty = false := by simpa using hne
          obtain ⟨hinv', _⟩ := qline3_inv hq hex hne'
          unfold step3 at he
          obtain ⟨o, ho, he⟩ := bind_ok he
          have hI' : Inv C (line3 q extra) G := fun c hc => (sound_line3 hq (hI c hc) hex).1
          refine sound_c14n (fun e1 he1 => ?_) he
          subst he1
          exact (ih _ _ hinv' hI' (hK q _ hKq rfl rfl (Or.inl rfl)) e1 ho ctx hctx).congr (sound_line3 hq h hex).2
        · rename_i hemp0
          have hemp : extra.isEmpty = true := by simpa using hemp0
          have hT := hq.tnodes_in_X hex hemp
          simp only [] at he
          split at he
          · -- line 4
            rename_i hlen
            have h4 := qline4_inv hq hT hlen
            unfold step4 at he
            obtain ⟨o, ho, he⟩ := bind_ok he
            cases o with
            | none => simp [pure, Except.pure] at he
            | some terms =>
              simp only [] at he
              obtain ⟨summand, hs, he⟩ := bind_ok he
              obtain ⟨e', he', he⟩ := bind_ok he
              have : e' = e := by simpa [pure, Except.pure] using he
              subst this
              have hF := collectTerms_some _ _ ho
              rw [List.forall₂_map_left_iff] at hF
              have hterms : List.Forall₂ (fun s t => Sound ctx s G t)
                  (line4 q G (G.removeNodes q.X).districts) terms := by
                refine forall₂_imp_mem hF (fun s hs t hst => ?_)
                obtain ⟨hinv', _, hexpr, hsu, hac⟩ := h4 s hs
                have hdom : s.domain = q.domain := by
                  unfold line4 at hs
                  obtain ⟨c, _, rfl⟩ := List.mem_map.1 hs
                  rfl
                have hgr : s.graphs = q.graphs := by
                  unfold line4 at hs
                  obtain ⟨c, _, rfl⟩ := List.mem_map.1 hs
                  rfl
                exact ih s G hinv' (fun c hc => (hI c hc).congr hexpr hdom hgr hac hsu)
                  (hK q s hKq hac hdom (Or.inl hsu)) t hst ctx hctx
              exact sound_line4 hq h hT hterms hs he'
          · -- lines 6-11
            rename_i hlen
            obtain ⟨via, hvia, he⟩ := bind_ok he
            cases via with
            | some e67 =>
              simp only [] at he
              obtain ⟨e', he', he⟩ := bind_ok he
              have : e' = e := by simpa [pure, Except.pure] using he
              subst this
              obtain ⟨g1, n1, d1⟩ := h67 fuel q G hq hI hKq hXne anc hanc hall extra hex hemp hlen e67 hvia ctx hctx
              exact ⟨good_canonicalize ctx.S g1 he', sumND_canonicalize n1 he',
                fun σ => by rw [denL_canonicalize ctx.S g1 n1 he' σ, d1 σ]⟩
            | none =>
              simp only [] at he
              unfold step811 at he
              split at he
              · cases he
              · rename_i hdl
                have hdne := hq.dwi_ne
                cases hd : (G.removeNodes q.X).districts with
                | nil => exact absurd hd hdne
                | cons c rest =>
                  have hrest : rest = [] := by
                    cases rest with
                    | nil => rfl
                    | cons a as => rw [hd] at hlen; simp at hlen
                  subst hrest
                  rw [hd] at he
                  obtain ⟨hcmem, hYc, hcne, hcT⟩ := hq.single_dwi hT hd
                  have hV := regularNodes_nodup hq.wfG
                  -- `V ∖ X` is the component `c`
                  have hVX : ∀ v, v ∈ (regularNodes G).filter (· ∉ q.X) ↔ v ∈ c := by
                    intro v
                    rw [List.mem_filter, hcmem v, mem_regularNodes]
                    simp only [decide_eq_true_eq]
                    exact ⟨fun a => ⟨a.1.1, a.2⟩, fun a => ⟨⟨a.1, hcT v ((hcmem v).2 a)⟩, a.2⟩⟩
                  simp only [] at he
                  split at he
                  · -- line 9
                    rename_i hany
                    obtain ⟨e9, he9, he⟩ := bind_ok he
                    obtain ⟨e', he', he⟩ := bind_ok he
                    have : e' = e := by simpa [pure, Except.pure] using he
                    subst this
                    -- `c` is (set-equal to) a district `d` of the current graph
                    obtain ⟨d, hdd, hdc⟩ := List.any_eq_true.1 hany
                    have hdc' : ∀ v, v ∈ d ↔ v ∈ c := seteq'_iff_mem.1 hdc
                    obtain ⟨g9, n9, d9⟩ := sound_line9_core hq h hdd hdc' hcT hcne he9
                    refine ⟨good_canonicalize ctx.S g9 he', sumND_canonicalize n9 he', fun σ => ?_⟩
                    rw [denL_canonicalize ctx.S g9 n9 he' σ, d9 σ]
                    unfold Spec
                    have hQ : ctx.M.Q (nsort c) = ctx.M.Q ((regularNodes G).filter (· ∉ q.X)) :=
                      ctx.M.Q_congr_set (nsort_nodup' c) (hV.filter _) (fun v => by rw [mem_nsort, hVX v])
                    rw [hQ]
                    refine congrFun (sumVars_congr_set ctx.M.card ((nsort_nodup' c).filter _) (hV.filter _)
                      (fun v => ?_) _) σ
                    have := hVX v
                    simp only [List.mem_filter, decide_eq_true_eq, mem_nsort, Bool.and_eq_true, Bool.decide_and] at this ⊢
                    constructor
                    · rintro ⟨a, b⟩; exact ⟨(this.2 a).1, (this.2 a).2, b⟩
                    · rintro ⟨a, b, c'⟩; exact ⟨this.1 ⟨a, b⟩, c'⟩
                  · -- line 10
                    rename_i hnany
                    obtain ⟨c', hfil, hc'd, hcc', hc'n, hc'T⟩ := hq.super_district hT hd
                    rw [hfil] at he
                    simp only [] at he
                    obtain ⟨o, ho, he⟩ := bind_ok he
                    obtain ⟨o', ho', hos⟩ := hq.line10Surr_ok hc'n
                    have hoo : o' = o := by rw [ho] at ho'; exact (Except.ok.inj ho').symm
                    subst hoo
                    cases o' with
                    | none => simp [pure, Except.pure] at he
                    | some s =>
                      simp only [] at he
                      obtain ⟨q', hq', he2⟩ := bind_ok he
                      obtain ⟨r, hr, he3⟩ := bind_ok he2
                      clear he he2
                      have hs := hos s rfl
                      obtain ⟨order, hord, hcomp⟩ := hq.order_ok
                      have hin : ∀ v ∈ nsort c', v ∈ order := fun v hv =>
                        hcomp v (hc'n v ((mem_nsort v c').1 hv)) (hc'T v ((mem_nsort v c').1 hv))
                      obtain ⟨q'', hq'', _, hX, hYq, hact, hdom, hsurr, hgr⟩ := line10_ok (s := s) hclean hord hin
                      have hqq : q'' = q' := by rw [hq'] at hq''; exact (Except.ok.inj hq'').symm
                      subst hqq
                      obtain ⟨hinv', _⟩ :=
                        qline10_inv hq hc'd (fun y hy => hcc' y (hYc y hy)) hc'T hdl hX hYq hact hdom hsurr hs hgr
                      have hc'nd : c'.Nodup := nodup_of_mem_districts hc'd
                      have hmem' : ∀ v, v ∈ regularNodes (G.subgraph (nsort c')) ↔ v ∈ c' := by
                        intro v
                        rw [mem_regular_subgraph hc'n]
                        exact ⟨fun a => a.2, fun a => ⟨mem_regularNodes.2 ⟨hc'n v a, hc'T v a⟩, a⟩⟩
                      have hV' : (regularNodes (G.subgraph (nsort c'))).Nodup := regularNodes_nodup (wf_subgraph _ _)
                      -- `c'` strictly contains `c`
                      have hc'big : 2 ≤ (nsort c').length := by
                        apply two_le_length_of_ssub (nsort_nodup' c') hcne
                          (fun v hv => (mem_nsort v c').2 (hcc' v hv))
                        intro hall'
                        apply hnany
                        apply List.any_eq_true.2
                        refine ⟨c', hc'd, seteq'_iff_mem.2 (fun v => ?_)⟩
                        exact ⟨fun a => hall' v ((mem_nsort v c').2 a), hcc' v⟩
                      -- the new carried expression is not a bare joint (coin context)
                      have hnj : ∀ pop cc, q''.expr ≠ .prob pop cc [] := by
                        obtain ⟨g0, _, w0, d0⟩ := sound_line10_core hq (hI c₀ h₀) hc'd hc'T hq'
                        exact notJoint_of_coin hcoin g0 w0 (nsort_nodup' c')
                          (fun v hv => (hI c₀ h₀).rsub.nodes v
                            (mem_regularNodes.2 ⟨hc'n v ((mem_nsort v c').1 hv), hc'T v ((mem_nsort v c').1 hv)⟩))
                          hc'big d0
                      have hI' : Inv C q'' (G.subgraph (nsort c')) := by
                        intro cx hcx
                        have hx := hI cx hcx
                        obtain ⟨gx, nx, wx, dx⟩ := sound_line10_core hq hx hc'd hc'T hq'
                        refine ⟨hx.rsub.subgraph hc'n, gx, nx, ?_, ?_, ?_, Or.inr ⟨hnj, wx⟩, ?_⟩
                        rotate_left 3
                        · -- after line 10 the target-phase clause is void
                          intro ha' hs'
                          exfalso
                          rcases hs with ⟨_, hne⟩ | ⟨hnil, _⟩
                          · exact hne (hact ▸ ha')
                          · exact hs' (hsurr.trans hnil)
                        · intro σ
                          rw [dx σ]
                          exact congrFun (cx.M.Q_congr_set (nsort_nodup' c') hV'
                            (fun v => by rw [mem_nsort, hmem' v])) σ
                        · intro v hv
                          exact hx.usum v ((mem_regular_subgraph hc'n).1 hv).1
                        · intro z hz hz'
                          exact hx.ign z hz ((mem_regular_subgraph hc'n).1 hz').1
                      refine sound_c14n (fun e1 he1 => ?_) he3
                      subst he1
                      have hKq' : K q'' := hK q q'' hKq hact hdom
                        (hs.elim (fun a => Or.inl (hsurr.trans a.1)) (fun a => Or.inr (hsurr.trans a.1)))
                      refine (ih q'' _ hinv' hI' hKq' e1 hr ctx hctx).congr (fun σ => ?_)
                      -- the same distribution: `c' ∖ (X ∩ c') = c = V ∖ X`
                      rw [hX, hYq]
                      unfold Spec
                      have hQ : ctx.M.Q ((regularNodes (G.subgraph (nsort c'))).filter (· ∉ inter' q.X c')) =
                          ctx.M.Q ((regularNodes G).filter (· ∉ q.X)) := by
                        apply ctx.M.Q_congr_set (hV'.filter _) (hV.filter _)
                        intro v
                        rw [hVX v, List.mem_filter, hmem' v]
                        simp only [decide_eq_true_eq, mem_inter', not_and]
                        constructor
                        · rintro ⟨a, b⟩
                          exact (hcmem v).2 ⟨hc'n v a, fun hx => b hx a⟩
                        · intro a
                          exact ⟨hcc' v a, fun hx _ => ((hcmem v).1 a).2 hx⟩
                      rw [hQ]
                      refine congrFun (sumVars_congr_set ctx.M.card (hV'.filter _) (hV.filter _) (fun v => ?_) _) σ
                      have h1 := hVX v
                      simp only [List.mem_filter, decide_eq_true_eq, Bool.and_eq_true, Bool.decide_and, hmem' v,
                        mem_inter', not_and] at h1 ⊢
                      constructor
                      · rintro ⟨a, b, cY⟩
                        have hvc : v ∈ c := (hcmem v).2 ⟨hc'n v a, fun hx => b hx a⟩
                        exact ⟨(h1.2 hvc).1, (h1.2 hvc).2, cY⟩
                      · rintro ⟨a, b, cY⟩
                        have hvc : v ∈ c := h1.1 ⟨a, b⟩
                        exact ⟨hcc' v hvc, fun hx _ => b hx, cY⟩

end Trso
end Y0
