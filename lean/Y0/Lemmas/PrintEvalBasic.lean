/-
  Y0.Lemmas.PrintEvalBasic — list facts behind "re-evaluating the printed form rebuilds the same object":
  a stable sort leaves a list without descents alone, de-duplication leaves a strictly increasing list alone,
  and the variable-level operators of `PyEval` on canonical variables.
-/
import Y0.Model.PyEval

namespace Y0
namespace PyEval

/-! ### sorting and de-duplication are the identity on canonical lists -/

theorem sortBy_cons {α} (lt : α → α → Bool) (x : α) (xs : List α) : sortBy lt (x :: xs) = insertBy lt x (sortBy lt xs) := rfl

theorem sortBy_fix {α} (lt : α → α → Bool) : ∀ l : List α, noDescent lt l = true → sortBy lt l = l
  | [], _ => rfl
  | [x], _ => rfl
  | x :: y :: r, h => by
    simp only [noDescent, Bool.and_eq_true, Bool.not_eq_true'] at h
    rw [sortBy_cons, sortBy_fix lt (y :: r) h.2]
    simp [insertBy, h.1]

theorem noDescent_of_incBy {α} (lt : α → α → Bool) (f : α → Nat) (hlt : ∀ a b, f a < f b → lt b a = false) :
    ∀ l : List α, incBy f l = true → noDescent lt l = true
  | [], _ => rfl
  | [x], _ => rfl
  | x :: y :: r, h => by
    simp only [incBy, Bool.and_eq_true, decide_eq_true_eq] at h
    simp [noDescent, hlt x y h.1, noDescent_of_incBy lt f hlt (y :: r) h.2]

theorem incBy_tail {α} (f : α → Nat) {x : α} {xs : List α} (h : incBy f (x :: xs) = true) : incBy f xs = true := by
  cases xs with
  | nil => rfl
  | cons y r =>
    simp only [incBy, Bool.and_eq_true] at h
    exact h.2

theorem incBy_lt_all {α} (f : α → Nat) : ∀ (x : α) (xs : List α), incBy f (x :: xs) = true → ∀ y ∈ xs, f x < f y
  | _, [], _, y, hy => by cases hy
  | x, z :: r, h, y, hy => by
    simp only [incBy, Bool.and_eq_true, decide_eq_true_eq] at h
    cases hy with
    | head => exact h.1
    | tail _ hy' => exact Nat.lt_trans h.1 (incBy_lt_all f z r h.2 y hy')

theorem dedup'_fix {α} [DecidableEq α] (f : α → Nat) : ∀ l : List α, incBy f l = true → dedup' l = l
  | [], _ => rfl
  | x :: xs, h => by
    have hall := incBy_lt_all f x xs h
    rw [dedup', dedup'_fix f xs (incBy_tail f h)]
    congr 1
    rw [List.filter_eq_self]
    intro y hy
    have := hall y hy
    simp only [ne_eq, decide_not, Bool.not_eq_true', decide_eq_false_iff_not]
    intro heq
    subst heq
    exact Nat.lt_irrefl _ this

theorem incBy_append_left {α} (f : α → Nat) : ∀ (l r : List α), incBy f (l ++ r) = true → incBy f l = true
  | [], _, _ => rfl
  | [x], _, _ => rfl
  | x :: y :: l, r, h => by
    simp only [List.cons_append, incBy, Bool.and_eq_true, decide_eq_true_eq] at h ⊢
    exact ⟨h.1, incBy_append_left f (y :: l) r h.2⟩

theorem incBy_map {α β} (f : β → Nat) (g : α → β) (f' : α → Nat) (hfg : ∀ a, f (g a) = f' a) :
    ∀ l : List α, incBy f (l.map g) = incBy f' l
  | [] => rfl
  | [x] => rfl
  | x :: y :: r => by
    simp only [List.map_cons, incBy, hfg]
    rw [← incBy_map f g f' hfg (y :: r)]
    rfl

/-! ### the orders used by the DSL agree with the order of names on lists that mention a name once -/

theorem keyLt_false_of_name_lt (a b : Var) (h : a.name < b.name) : Var.keyLt b a = false := by
  unfold Var.keyLt
  have h1 : ¬ (b.name < a.name) := Nat.lt_asymm h
  have h2 : ¬ (b.name = a.name) := fun e => by rw [e] at h; exact Nat.lt_irrefl _ h
  simp [h1, h2]

theorem ivLt_false_of_name_lt (a b : Iv) (h : a.name < b.name) : Iv.lt b a = false := by
  unfold Iv.lt
  have h1 : ¬ (b.name < a.name) := Nat.lt_asymm h
  have h2 : ¬ (b.name = a.name) := fun e => by rw [e] at h; exact Nat.lt_irrefl _ h
  simp [h1, h2]

theorem sortedVars_fix {l : List Var} (h : incBy Var.name l = true) : sortedVars l = l :=
  sortBy_fix _ l (noDescent_of_incBy _ Var.name keyLt_false_of_name_lt l h)

theorem upgradeOrdering_fix {l : List Var} (h : incBy Var.name l = true) : upgradeOrdering l = l := by
  unfold upgradeOrdering
  rw [dedup'_fix Var.name l h, sortedVars_fix h]

theorem normVars_fix {l : List Var} (h : incBy Var.name l = true) : normVars l = l := by
  unfold normVars
  rw [dedup'_fix Var.name l h]
  exact sortBy_fix _ l (noDescent_of_incBy _ Var.name keyLt_false_of_name_lt l h)

theorem byName_fix {l : List Var} (h : incBy Var.name l = true) : Print.byName l = l :=
  sortBy_fix _ l (noDescent_of_incBy _ Var.name (fun a b hab => by simpa using Nat.le_of_lt hab) l h)

theorem normIvs_fix {l : List Iv} (h : incBy Iv.name l = true) : Print.normIvs l = l := by
  unfold Print.normIvs
  rw [dedup'_fix Iv.name l h]
  exact sortBy_fix _ l (noDescent_of_incBy _ Iv.name ivLt_false_of_name_lt l h)

/-! ### `mapM` over values that are all variables -/

theorem mapM_asVar_vars (vs : List Var) : (vs.map Val.var).mapM asVar = .ok vs := by
  induction vs with
  | nil => rfl
  | cons v vs ih =>
    simp only [List.map_cons, List.mapM_cons, asVar, ih]
    rfl

end PyEval
end Y0
