/-
  Y0.Lemmas.CtfTrCondJ — what the answer of Algorithm 2 for the derived event `D_*` of Algorithm 3 denotes as a function
  of the valuation: the c-factor `Q[V(D_*)]` of the target model.

    `solve_factor_form_mech`   a ctf-factor-form variable `W_{pa_W}` whose subscripts are all read in `τ` takes the value
                               the mechanism of `W` computes from `τ` (it depends on the noise of `W` only);
    `dstar_facts_j`            `D_*` consists of ctf-factor-form variables (EXACTLY the parents as subscripts), none
                               self-intervened, values named after their variable, `V(D_*)` = `dNames`;
    `dstar_holds_iff`          noise point by noise point: the simplified, filled `D_*` holds under `ν_τ` iff every mechanism of
                               `V(D_*)`, fed `τ`, returns `τ`;
    `dstar_prob_eq_cfactor`    `P*_τ(simplify(D_*) = τ) = Q[V(D_*)](τ)`.
-/
import Y0.Lemmas.CtfTrCond
import Y0.Lemmas.CtfTrCondJSimplify
import Y0.Lemmas.CtfTrAlg3Simplify
import Y0.Lemmas.CtfTrCfactor
import Y0.Lemmas.CtfCompose
import Y0.Props.C09
import Y0.Lemmas.CtfTrExampleFamily

namespace Y0.CtfTr
open Fscm Ctf

/-! ### a factor-form variable read in `τ` -/

theorem forced_worldOf_nuOf (τ : Y0.Val) (S : List Iv) (a : Name) (x : Nat)
    (h : forced (worldOf (nuOf τ) S) a = some x) : x = τ a := by
  unfold forced worldOf at h
  induction S with
  | nil => simp at h
  | cons j js ih =>
    simp only [List.map_cons, List.find?_cons] at h
    by_cases hj : j.name = a
    · simp only [hj, decide_true, Option.map_some, Option.some.injEq] at h
      rw [← h, ← hj]
      rfl
    · simp only [hj, decide_false] at h
      exact ih h

/-- **a ctf-factor-form variable depends on its own noise only**: `W_{pa_W}` with every subscript read in `τ` is the
mechanism of `W` fed `τ` -/
theorem solve_factor_form_mech (M : Model) (G : MG Name) (hM : Compatible M G) (u : NoisePoint) (τ : Y0.Val) (v : Var)
    (hn : v.name ∈ M.order) (hself : v.name ∉ subNames v) (hpa : ∀ p, G.DiEdge p v.name → p ∈ subNames v) :
    solve M u (worldOf (nuOf τ) v.ivs) v.name = M.mech u τ v.name := by
  have hsub : ∀ p ∈ M.pa v.name, ∃ x, forced (worldOf (nuOf τ) v.ivs) p = some x := fun p hp =>
    forced_worldOf_mem (nuOf τ) v.ivs p (hpa p (hM.pa_sub v.name p hp))
  rw [solve_parents_forced M u _ v.name hM.nodup hM.topo hn (forced_worldOf_none (nuOf τ) v.ivs v.name hself) hsub]
  unfold Model.mech
  congr 1
  apply List.map_congr_left
  intro p hp
  obtain ⟨x, hx⟩ := hsub p hp
  rw [hx]
  exact forced_worldOf_nuOf τ v.ivs p x hx

/-! ### the derived event -/

/-- the entries of `D_*` (the proof of `dstar_plain`, Y0/Props/C09Sound.lean, with the ctf-factor form kept exact) -/
theorem dstar_facts_j (target : MG Name) (ds : List Domain) (o c : Event) (hv : validateC target ds o c = .ok ())
    (hwf : target.WF) (hplain : EventVarsPlain (o ++ c)) (dstar : Event) (dNames : List Name)
    (h2 : line2C target o c = .ok (dstar, dNames)) :
    (∀ p ∈ dstar, selfIntervened p.1 = false) ∧
      (∀ p ∈ dstar, ∀ i, p.2 = some i → i.name = p.1.name) ∧ dNames.Nodup ∧ (∀ n ∈ dNames, n ∈ target.nodes) ∧
      (∀ p ∈ dstar, ExactFactorForm target p.1) ∧ (∀ n, n ∈ dNames ↔ ∃ q ∈ dstar, q.1.name = n) := by
  obtain ⟨_, _, _, hnodes, hvm, hac, _⟩ := validateC_facts target ds o c hv
  have hloop : ∀ v, ¬ target.DiEdge v v := fun v hvv =>
    ((MG.isAcyclic_iff target hwf).1 hac) v (Relation.TransGen.single hvv)
  have hok : ∀ p ∈ o ++ c, VarOK target p.1 := by
    intro p hp
    refine ⟨hnodes p ?_, Or.inr ⟨(hplain p hp).2.1, (hplain p hp).1⟩⟩
    rcases List.mem_append.1 hp with h | h
    · exact List.mem_append_right _ h
    · exact List.mem_append_left _ h
  obtain ⟨lk, D, dstar', dNames', _, hrel, _, _, h2', hDn, hfacts⟩ := line2C_ok target hwf o c
    (fun p hp => hok p (List.mem_append_left _ hp)) (fun p hp => hok p (List.mem_append_right _ hp))
    (fun p hp => (hplain p (List.mem_append_left _ hp)).1)
  rw [h2] at h2'
  simp only [Except.ok.injEq, Prod.mk.injEq] at h2'
  obtain ⟨rfl, rfl⟩ := h2'
  refine ⟨?_, ?_, ?_, ?_, ?_, hfacts.mem_names⟩
  · intro q hq
    obtain ⟨_, _, _, _, hpar⟩ := hfacts.var hDn q hq
    simp only [selfIntervened, List.any_eq_false, beq_iff_eq]
    intro i hi hin
    have := hpar i hi
    rw [hin] at this
    exact hloop _ this
  · intro q hq i hi
    obtain ⟨p', hp', hpn', hpv', _⟩ := hfacts.value q hq i hi
    obtain ⟨p, hp, hpn0, hpv0⟩ := hrel.of_lk p' hp'
    have hpn : p.1.name = q.1.name := by rw [← hpn0, hpn']
    have hpv : p.2 = some i := by rw [← hpv0, hpv']
    have hm : valueMismatch (c ++ o) = false := hvm
    unfold valueMismatch at hm
    simp only [List.any_eq_false] at hm
    have := hm p (List.mem_append_right _ hp)
    rw [hpv] at this
    rw [← hpn]
    simpa using this
  · rw [hfacts.names]; exact nodup_dedup' _
  · intro n hn
    obtain ⟨q, hq, rfl⟩ := (hfacts.mem_names n).1 hn
    exact (hfacts.var hDn q hq).1
  · intro q hq
    obtain ⟨p, _, hc, _⟩ := hfacts.origin q hq
    exact (convertOne_spec' target p.1 q.1 hc).2.2.2.1

/-- every item of the event SIMPLIFY returns is the minimised copy of an item of the input with the same value -/
theorem simplify_item_origin (g : MG Name) (e ev : Event) (hs : simplify g e = .ok (some ev))
    (hrefl : ∀ p ∈ e, selfIntervened p.1 = false) :
    ∀ k x, (k, x) ∈ ev → ∃ v, (v, x) ∈ e ∧ minimize g v = .ok k := by
  unfold simplify at hs
  split at hs
  · simp [bind, Except.bind, throw, throwThe, MonadExceptOf.throw] at hs
  · simp only [bind, Except.bind] at hs
    cases hme : minimizeEvent g e with
    | error err => rw [hme] at hs; cases hs
    | ok me =>
      rw [hme] at hs
      simp only at hs
      have hmem := minimizeEvent_mem g e me hme
      have hrefl' : ∀ p ∈ me, selfIntervened p.1 = false := by
        rintro ⟨k, x⟩ hp
        obtain ⟨v, hv, hm⟩ := (hmem k x).1 hp
        exact minimize_not_self g v k hm (hrefl (v, x) hv)
      intro k x hp
      exact (hmem k x).1 (simplifyCore_sub me hrefl' ev hs k x hp)

/-! ### the event, noise point by noise point -/

/-- at every noise point: the simplified `D_*`, valueless items read at `τ`, holds under the value symbols `ν_τ` iff every
mechanism of `V(D_*)`, fed the values `τ` of its observed arguments, returns the value `τ` of its variable -/
theorem dstar_holds_iff (target : MG Name) (dstar simplified : Event) (dNames : List Name)
    (hs : simplify target dstar = .ok (some simplified))
    (hrefl : ∀ p ∈ dstar, selfIntervened p.1 = false)
    (hval : ∀ p ∈ dstar, ∀ i, p.2 = some i → i.name = p.1.name)
    (hnodes : ∀ n ∈ dNames, n ∈ target.nodes)
    (hff : ∀ p ∈ dstar, ExactFactorForm target p.1)
    (hnames : ∀ n, n ∈ dNames ↔ ∃ q ∈ dstar, q.1.name = n)
    (M : Fscm.Model) (hM : Fscm.Compatible M target) (τ : Y0.Val) (u : NoisePoint) :
    EventHolds M (nuOf τ) u (fillEvent simplified) ↔ ∀ n ∈ dNames, M.mech u τ n = τ n := by
  -- a variable of `D_*`, in its own world and in the world of its minimised copy
  have hvar : ∀ q ∈ dstar, ∀ k, minimize target q.1 = .ok k →
      solve M u (worldOf (nuOf τ) k.ivs) k.name = M.mech u τ q.1.name := by
    intro q hq k hk
    have hself : q.1.name ∉ subNames q.1 := by
      have := hrefl q hq
      simp only [selfIntervened, List.any_eq_false, beq_iff_eq] at this
      intro hmem
      obtain ⟨i, hi, hin⟩ := List.mem_map.1 hmem
      exact this i hi hin
    have hord : q.1.name ∈ M.order :=
      hM.perm.mem_iff.2 (hnodes _ ((hnames _).2 ⟨q, hq, rfl⟩))
    rw [← minimize_same_rv target q.1 k hk M hM (nuOf τ) u]
    exact solve_factor_form_mech M target hM u τ q.1 hord hself (fun p hp => (hff q hq p).2 hp)
  -- the values of the simplified event are named after their variables
  have hvalev : ∀ p ∈ simplified, ∀ i, p.2 = some i → i.name = p.1.name := by
    intro p hp i hi
    obtain ⟨q, hq, hqn, hqv⟩ := simplify_output_values target dstar simplified hs p hp
    rw [← hqn]
    exact hval q hq i (by rw [hqv]; exact hi)
  have hfill := fillEvent_values simplified hvalev
  constructor
  · intro h n hn
    obtain ⟨q, hq, rfl⟩ := (hnames n).1 hn
    obtain ⟨k, hk, x, hx⟩ := simplify_vars_cover target dstar simplified hs hrefl q hq
    have hkn : k.name = q.1.name := (minimize_wf target q.1 k hk).1
    cases x with
    | none =>
      have hmem : (k, (some ⟨k.name, false⟩ : Ctf.Val)) ∈ fillEvent simplified := by
        unfold fillEvent
        exact List.mem_map.2 ⟨(k, none), hx, rfl⟩
      have := h _ hmem ⟨k.name, false⟩ rfl
      rw [hvar q hq k hk] at this
      rw [this, ← hkn]
      rfl
    | some i =>
      have hmem : (k, (some i : Ctf.Val)) ∈ fillEvent simplified := by
        unfold fillEvent
        exact List.mem_map.2 ⟨(k, some i), hx, rfl⟩
      have := h _ hmem i rfl
      rw [hvar q hq k hk] at this
      rw [this, ← hkn, ← hvalev (k, some i) hx i rfl]
      rfl
  · intro h p hp i hi
    have hin := hfill p hp i hi
    unfold fillEvent at hp
    obtain ⟨p0, hp0, rfl⟩ := List.mem_map.1 hp
    obtain ⟨v, hv, hm⟩ := simplify_item_origin target dstar simplified hs hrefl p0.1 p0.2 hp0
    have hkn : p0.1.name = v.name := (minimize_wf target v p0.1 hm).1
    simp only at hin ⊢
    rw [hvar (v, p0.2) hv p0.1 hm, h v.name ((hnames _).2 ⟨(v, p0.2), hv, rfl⟩)]
    show τ v.name = τ i.name
    rw [hin, hkn]

/-! ### the theorem -/

/-- **the answer of Algorithm 2 for the derived event `D_*` denotes, as a function of the valuation, the c-factor of
`V(D_*)`** -/
theorem dstar_prob_eq_cfactor (target : MG Name) (ds : List Domain) (o c : Event)
    (hv : validateC target ds o c = .ok ()) (hwf : target.WF) (hplain : EventVarsPlain (o ++ c))
    (dstar : Event) (dNames : List Name) (h2 : line2C target o c = .ok (dstar, dNames))
    (q : Expr) (simplified : Event) (hu : ctfTRu target ds dstar = .ok (some (q, some simplified)))
    (M : Fscm.Model) (hM : Fscm.Compatible M target) (τ : Y0.Val) :
    probEventOpt M (nuOf τ) (fillEvent simplified) = M.cfactor dNames τ := by
  obtain ⟨hrefl, hval, _, hnodes, hff, hnames⟩ := dstar_facts_j target ds o c hv hwf hplain dstar dNames h2
  have hs := ctfTRu_event_is_simplified target ds dstar simplified q hu
  rw [cfactor_eq_local hM dNames (fun n hn => hM.perm.mem_iff.2 (hnodes n hn)) τ]
  unfold probEventOpt
  rw [Ctf.prob_eq_wsum]
  apply wsum_congr
  intro u
  apply congrArg ind
  apply Bool.eq_iff_iff.mpr
  rw [eventConjuncts_all,
    dstar_holds_iff target dstar simplified dNames hs hrefl hval hnodes hff hnames M hM τ u, List.all_eq_true]
  simp only [beq_iff_eq]

end Y0.CtfTr

/-! ### non-vacuity: `X → Y` (X=0, Y=1), the query `P(Y = y | X = x)`, the domain and the model of
Y0/Lemmas/CtfTrExampleFamily.lean: `D_* = {Y_x = y}`, `V(D_*) = {Y}` -/

namespace Y0.CtfTr
open Fscm Ctf

def exJO : Event := [(Var.plain 1, some ⟨1, false⟩)]
def exJC : Event := [(Var.plain 0, some ⟨0, false⟩)]

theorem exJ_validated : validateC exFG [exFDom] exJO exJC = .ok () := by decide +kernel
theorem exJ_line2 : line2C exFG exJO exJC = .ok (exFEvent, [1]) := by decide +kernel
theorem exJ_plain : EventVarsPlain (exJO ++ exJC) := by unfold EventVarsPlain; decide
theorem exJ_wf : exFG.WF := MG.wf_fromEdges _ _ _

-- every hypothesis of `dstar_prob_eq_cfactor` holds for this input: `P*_τ(Y_x = y) = Q[Y](τ)` in the model `exFT`
example (τ : Y0.Val) : probEventOpt exFT (nuOf τ) (fillEvent exFEv) = exFT.cfactor [1] τ :=
  dstar_prob_eq_cfactor exFG [exFDom] exJO exJC exJ_validated exJ_wf exJ_plain exFEvent [1] exJ_line2
    exFExpr exFEv exF_answer exFT exFT_compatible τ

end Y0.CtfTr
