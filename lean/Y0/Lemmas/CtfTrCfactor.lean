/-
  Y0.Lemmas.CtfTrCfactor — the c-factor `Q[C]` of a functional SCM (`Fscm.Model.cfactor`, Y0/Spec/CtfFamilySpec.lean):

    `toScm_Q_eq_cfactor`   it is the c-factor `Scm.Q C` of the induced semi-Markovian model;
    `cfactor_transport`    **the transportability lemma**: a source domain whose model agrees with the target's outside
                           `Δ` has the same `Q[C]` as the target for every `C` disjoint from `Δ`;
    `cfactor_eq_local`     it is the mass of the noise points at which every `W ∈ C` takes the value `τ W` when its own
                           mechanism is fed the values `τ` of its observed arguments (the form in which a ctf-factor
                           `P(⋀ W_{pa_W} = w)` appears in the factorisation theorem of C19).
-/
import Y0.Spec.CtfFamilySpec
import Y0.Lemmas.FscmToScm
import Y0.Lemmas.FscmToScmCompat
import Y0.Lemmas.CtfSplit

namespace Y0
namespace Fscm
open TianProb

variable {M : Model} {card : Name → Nat} {base : Nat} {G : MG Name}

theorem Proper.toScmOK (h : Proper M card base G) : ToScmOK M card base G :=
  ⟨h.wf, h.compat, h.base_gt, h.lat_lt, h.lat_nodup⟩

theorem Proper.scmCompatible (h : Proper M card base G) : (M.toScm card base).Compatible G :=
  toScm_compatible h.toScmOK h.normalised h.kern_pos

/-- the common form of both sides: the sum, over ALL named noise, of the weight times the structural-equation
indicators of `C` -/
def eqnSum (M : Model) (card : Name → Nat) (base : Nat) (C : List Name) (ρ : Val) : Rat :=
  sumVars (M.cardS card base) (noiseNames base M.noise.length)
    (fun τ => weightOf M.noise base τ * (C.map fun v => M.eqn base v τ).prod) ρ

theorem cfactor_eq_eqnSum (hOK : ToScmOK M card base G) (C : List Name) (hC : ∀ v ∈ C, v ∈ M.order) (ρ : Val) :
    M.cfactor C ρ = eqnSum M card base C ρ := by
  unfold Model.cfactor eqnSum
  exact prob_full hOK (M.order.filter fun x => decide (x ∉ C)) C (by
    intro v
    constructor
    · intro hv
      exact ⟨hC v hv, by simp [hv]⟩
    · rintro ⟨hvo, hvn⟩
      by_contra hvc
      exact hvn (List.mem_filter.mpr ⟨hvo, by simpa using hvc⟩)) ρ

/-- **the c-factor of the induced semi-Markovian model is the c-factor of the functional model** -/
theorem toScm_Q_eq_cfactor (hOK : ToScmOK M card base G) (C : List Name) (hCn : C.Nodup) (hC : ∀ v ∈ C, v ∈ M.order)
    (ρ : Val) (hρ : ∀ v ∈ C, ρ v < card v) : (M.toScm card base).Q C ρ = M.cfactor C ρ := by
  rw [toScm_Q hOK C hCn hC ρ hρ, cfactor_eq_eqnSum hOK C hC ρ]
  rfl

/-- **Transportability lemma.**  If the model `S` of a source domain agrees with the target model `T` outside `Δ`
(same exogenous distributions; same mechanism at every variable not in `Δ`), then every set `C` of target variables
that avoids `Δ` has the same c-factor in both domains. -/
theorem cfactor_transport {T S : Model} {G G' : MG Name} (hT : ToScmOK T card base G) (hS : ToScmOK S card base G')
    (Δ : List Name) (hag : AgreesOutside T S Δ) (C : List Name) (hCT : ∀ v ∈ C, v ∈ T.order)
    (hCS : ∀ v ∈ C, v ∈ S.order) (hΔ : ∀ v ∈ C, v ∉ Δ) (ρ : Val) : S.cfactor C ρ = T.cfactor C ρ := by
  rw [cfactor_eq_eqnSum hS C hCS ρ, cfactor_eq_eqnSum hT C hCT ρ]
  unfold eqnSum
  have hcard : S.cardS card base = T.cardS card base := by
    funext n
    unfold Model.cardS
    rw [hag.noise]
  rw [hcard, hag.noise]
  apply sumVars_congr
  intro τ
  congr 1
  congr 1
  apply List.map_congr_left
  intro v hv
  unfold Model.eqn
  rw [hag.pa v (hCT v hv) (hΔ v hv), hag.lat v (hCT v hv) (hΔ v hv), hag.f v (hCT v hv) (hΔ v hv)]

/-! ### the local form -/

/-- the value the mechanism of `w` returns at the noise point `u` when its observed arguments have their values in `τ` -/
def Model.mech (M : Model) (u : NoisePoint) (τ : Val) (w : Name) : Nat :=
  M.f w ((M.pa w).map τ) ((M.lat w).map fun j => u.getD j 0)

/-- at one noise point: every `v ∈ C` takes the value `ρ v` in the world `do(V ∖ C := ρ)` iff every mechanism of `C`,
fed `ρ`, returns `ρ v` -/
theorem solve_compl_iff (hM : Compatible M G) (C : List Name) (hC : ∀ v ∈ C, v ∈ M.order) (ρ : Val) (u : NoisePoint) :
    (∀ v ∈ C, solve M u (doAt (M.order.filter fun x => decide (x ∉ C)) ρ) v = ρ v) ↔
      (∀ v ∈ C, M.mech u ρ v = ρ v) := by
  set X := M.order.filter fun x => decide (x ∉ C) with hX
  have hXmem : ∀ v ∈ M.order, v ∈ X ↔ v ∉ C := by
    intro v hv
    rw [hX, List.mem_filter]
    simp [hv]
  have hforcedX : ∀ v, v ∈ X → forced (doAt X ρ) v = some (ρ v) := fun v hv => forced_doOf_mem ρ hv
  have hforcedC : ∀ v, v ∉ X → forced (doAt X ρ) v = none := fun v hv => forced_doOf_not_mem ρ hv
  have hiff := solve_eq_iff M u (doAt X ρ) hM.nodup hM.topo ρ (by
    intro v hv x hx
    by_cases hvX : v ∈ X
    · rw [hforcedX v hvX] at hx
      exact Option.some.inj hx
    · rw [hforcedC v hvX] at hx
      cases hx)
  constructor
  · intro h v hv
    have hvo := hC v hv
    have hvX : v ∉ X := fun hvX => ((hXmem v hvo).mp hvX) hv
    have := hiff.mp (fun w hw hf => by
      apply h w
      by_contra hwC
      rw [hforcedX w ((hXmem w hw).mpr hwC)] at hf
      cases hf) v hvo (hforcedC v hvX)
    exact this.symm
  · intro h v hv
    have hvo := hC v hv
    have hvX : v ∉ X := fun hvX => ((hXmem v hvo).mp hvX) hv
    apply hiff.mpr _ v hvo (hforcedC v hvX)
    intro w hw hf
    have hwC : w ∈ C := by
      by_contra hwC
      rw [hforcedX w ((hXmem w hw).mpr hwC)] at hf
      cases hf
    exact (h w hwC).symm

/-- **local form of the c-factor**: the mass of the noise points at which every mechanism of `C`, fed the values `τ`
of its observed arguments, returns the value `τ` of its variable -/
theorem cfactor_eq_local (hM : Compatible M G) (C : List Name) (hC : ∀ v ∈ C, v ∈ M.order) (ρ : Val) :
    M.cfactor C ρ = wsum M.noise (fun u => ind (C.all fun v => M.mech u ρ v == ρ v)) := by
  unfold Model.cfactor
  rw [Ctf.prob_eq_wsum]
  apply wsum_congr
  intro u
  apply congrArg ind
  apply Bool.eq_iff_iff.mpr
  rw [List.all_eq_true, List.all_eq_true]
  constructor
  · intro h v hv
    have h1 : ∀ v ∈ C, solve M u (doAt (M.order.filter fun x => decide (x ∉ C)) ρ) v = ρ v := by
      intro w hw
      have := h _ (List.mem_map.mpr ⟨w, hw, rfl⟩)
      simpa [holds] using this
    have := (solve_compl_iff hM C hC ρ u).mp h1 v hv
    simpa using this
  · intro h c hc
    obtain ⟨w, hw, rfl⟩ := List.mem_map.mp hc
    have h1 : ∀ v ∈ C, M.mech u ρ v = ρ v := by
      intro v hv
      simpa using h v hv
    have := (solve_compl_iff hM C hC ρ u).mpr h1 w hw
    simpa [holds] using this

end Fscm
end Y0
