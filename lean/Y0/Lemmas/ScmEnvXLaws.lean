/-
  Y0.Lemmas.ScmEnvXLaws — **`M.envX G` satisfies every law of `ProbFamily`** (`envX_probFamily`), for every
  semi-Markovian model `M` compatible with a well-formed acyclic graph `G`.

  `prX l = Π_{D ∈ worlds(l)} pw D (evOf D l)` (Y0/Spec/ScmEnvX.lean).  The laws inside one world are in
  Y0/Lemmas/ScmEnvXWorld.lean; here: the product over worlds may be taken over ANY duplicate-free list of canonical
  worlds that contains the worlds of `l` (`prX_eq_prod`, because `pw D [] = 1`), hence `prX` depends on `l` only as a
  set of atoms, and marginalising an atom of world `κ` touches the factor of `κ` only.
-/
import Y0.Lemmas.ScmEnvXWorld
import Mathlib.Algebra.BigOperators.Group.List.Basic
import Mathlib.Algebra.Order.BigOperators.GroupWithZero.List

namespace Y0
namespace Scm
open TianProb Fscm

variable {M : Scm} {G : MG Name}

/-! ### `udedup` -/

theorem mem_udedup {α} [DecidableEq α] {a : α} {l : List α} : a ∈ udedup l ↔ a ∈ l := by
  induction l with
  | nil => simp [udedup]
  | cons b l ih =>
    unfold udedup
    split
    · rename_i h
      rw [ih, List.mem_cons]
      constructor
      · exact Or.inr
      · rintro (rfl | h')
        · exact ih.mp h
        · exact h'
    · simp only [List.mem_cons, ih]

theorem nodup_udedup {α} [DecidableEq α] (l : List α) : (udedup l).Nodup := by
  induction l with
  | nil => simp [udedup]
  | cons b l ih =>
    unfold udedup
    split
    · exact ih
    · rename_i h
      exact List.nodup_cons.mpr ⟨h, ih⟩

/-! ### canonical worlds -/

theorem mem_kdos {card : Name → Nat} {d : List (Name × Nat)} {p : Name × Nat} :
    p ∈ kdos card G d ↔ p.1 ∈ G.nodes ∧ forced (normDo card d) p.1 = some p.2 := by
  unfold kdos
  simp only [List.mem_filterMap, Option.map_eq_some_iff]
  constructor
  · rintro ⟨v, hv, x, hx, rfl⟩
    exact ⟨hv, hx⟩
  · rintro ⟨hv, hx⟩
    exact ⟨p.1, hv, p.2, hx, rfl⟩

theorem kdos_canon (d : List (Name × Nat)) : CanonD M G (kdos M.card G d) := by
  refine ⟨fun p hp => (mem_kdos.mp hp).1, fun p hp => normDo_inRange (mem_kdos.mp hp).2, ?_⟩
  intro p hp q hq e
  have h1 := (mem_kdos.mp hp).2
  have h2 := (mem_kdos.mp hq).2
  rw [e, h2] at h1
  exact (Option.some.inj h1).symm

theorem kdos_perm (card : Name → Nat) (G : MG Name) {d d' : List (Name × Nat)} (h : d.Perm d') :
    kdos card G d = kdos card G d' := by
  unfold kdos
  apply List.filterMap_congr
  intro v _
  rw [forced_normDo_perm card h]

/-- the world of an atom -/
def akey (M : Scm) (G : MG Name) (a : Atom) : List (Name × Nat) := kdos M.card G a.dos

theorem prX_def (l : List Atom) :
    M.prX G l = ((udedup (l.map (akey M G))).map fun D => pw M G D (evOf M.card G D l)).prod := rfl

theorem mem_evOf {D : List (Name × Nat)} {l : List Atom} {p : Name × Nat} :
    p ∈ evOf M.card G D l ↔ ∃ a ∈ l, akey M G a = D ∧ (a.name, a.val) = p := by
  unfold evOf akey
  simp only [List.mem_map, List.mem_filter, decide_eq_true_eq]
  constructor
  · rintro ⟨a, ⟨h1, h2⟩, h3⟩; exact ⟨a, h1, h2, h3⟩
  · rintro ⟨a, h1, h2, h3⟩; exact ⟨a, ⟨h1, h2⟩, h3⟩

theorem evOf_nil_of_not_key {D : List (Name × Nat)} {l : List Atom} (h : D ∉ l.map (akey M G)) :
    evOf M.card G D l = [] := by
  apply List.eq_nil_iff_forall_not_mem.mpr
  intro p hp
  obtain ⟨a, ha, hk, _⟩ := mem_evOf.mp hp
  exact h (List.mem_map.mpr ⟨a, ha, hk⟩)

theorem evOf_cons (D : List (Name × Nat)) (a : Atom) (l : List Atom) :
    evOf M.card G D (a :: l) =
      if akey M G a = D then (a.name, a.val) :: evOf M.card G D l else evOf M.card G D l := by
  unfold evOf akey
  by_cases h : kdos M.card G a.dos = D
  · simp [h]
  · simp [h]

/-! ### products over worlds -/

theorem prod_map_eq_one {α} (g : α → Rat) (l : List α) (h : ∀ a ∈ l, g a = 1) : (l.map g).prod = 1 := by
  apply List.prod_eq_one
  intro x hx
  obtain ⟨a, ha, rfl⟩ := List.mem_map.mp hx
  exact h a ha

/-- a product over a duplicate-free list only depends on the members at which the factor is not 1 -/
theorem prod_congr_support {α} [DecidableEq α] (g : α → Rat) {ks ks' : List α} (h : ks.Nodup) (h' : ks'.Nodup)
    (hs : ∀ D, g D ≠ 1 → (D ∈ ks ↔ D ∈ ks')) : (ks.map g).prod = (ks'.map g).prod := by
  have split : ∀ l : List α, (l.map g).prod = ((l.filter fun D => decide (g D ≠ 1)).map g).prod := by
    intro l
    induction l with
    | nil => rfl
    | cons a l ih =>
      by_cases ha : g a = 1
      · rw [List.filter_cons_of_neg (by simpa using ha), List.map_cons, List.prod_cons, ha, one_mul, ih]
      · rw [List.filter_cons_of_pos (by simpa using ha), List.map_cons, List.prod_cons, List.map_cons, List.prod_cons, ih]
  rw [split ks, split ks']
  apply List.Perm.prod_eq
  apply List.Perm.map
  rw [List.perm_ext_iff_of_nodup (h.filter _) (h'.filter _)]
  intro D
  simp only [List.mem_filter, decide_eq_true_eq]
  constructor
  · rintro ⟨h1, h2⟩; exact ⟨(hs D h2).mp h1, h2⟩
  · rintro ⟨h1, h2⟩; exact ⟨(hs D h2).mpr h1, h2⟩

/-- the product may be taken over any duplicate-free list of canonical worlds containing the worlds of `l` -/
theorem prX_eq_prod (hC : XCtx M G) (l : List Atom) (ks : List (List (Name × Nat))) (hnd : ks.Nodup)
    (hcan : ∀ D ∈ ks, CanonD M G D) (hsub : ∀ a ∈ l, akey M G a ∈ ks) :
    M.prX G l = (ks.map fun D => pw M G D (evOf M.card G D l)).prod := by
  rw [prX_def]
  apply prod_congr_support _ (nodup_udedup _) hnd
  intro D hD
  rw [mem_udedup]
  constructor
  · intro h
    obtain ⟨a, ha, rfl⟩ := List.mem_map.mp h
    exact hsub a ha
  · intro h
    by_contra hn
    apply hD
    rw [evOf_nil_of_not_key hn]
    exact pw_nil hC (hcan D h)

/-! ### a conjunction is a set of atoms -/

theorem prX_congr_set (hC : XCtx M G) {l₁ l₂ : List Atom} (h : ∀ a, a ∈ l₁ ↔ a ∈ l₂) : M.prX G l₁ = M.prX G l₂ := by
  rw [prX_eq_prod hC l₂ (udedup (l₁.map (akey M G))) (nodup_udedup _)
    (fun D hD => by
      obtain ⟨a, _, rfl⟩ := List.mem_map.mp (mem_udedup.mp hD)
      exact kdos_canon _)
    (fun a ha => mem_udedup.mpr (List.mem_map_of_mem ((h a).mpr ha))), prX_def]
  congr 1
  apply List.map_congr_left
  intro D _
  apply pw_congr hC
  intro p
  simp only [mem_evOf]
  constructor
  · rintro ⟨a, ha, hk, hp⟩; exact ⟨a, (h a).mp ha, hk, hp⟩
  · rintro ⟨a, ha, hk, hp⟩; exact ⟨a, (h a).mpr ha, hk, hp⟩

/-- `prX` sees an atom only through its canonical world, its variable and its value -/
theorem prX_congr_key (a b : Atom) (l : List Atom) (hk : akey M G a = akey M G b) (hn : a.name = b.name)
    (hv : a.val = b.val) : M.prX G (a :: l) = M.prX G (b :: l) := by
  rw [prX_def, prX_def]
  simp only [List.map_cons, hk]
  congr 1
  apply List.map_congr_left
  intro D _
  rw [evOf_cons, evOf_cons, hk, hn, hv]

theorem prX_zero_of_factor {l : List Atom} {a : Atom} (ha : a ∈ l)
    (h : pw M G (akey M G a) (evOf M.card G (akey M G a) l) = 0) : M.prX G l = 0 := by
  rw [prX_def]
  apply List.prod_eq_zero
  rw [List.mem_map]
  exact ⟨akey M G a, mem_udedup.mpr (List.mem_map_of_mem ha), h⟩

/-! ### marginal consistency across worlds -/

theorem prX_marg (hC : XCtx M G) (x : Name) (dos : List (Name × Nat)) (l : List Atom) :
    sumRange (M.card x) (fun k => M.prX G (⟨x, dos, k⟩ :: l)) = M.prX G l := by
  set κ := kdos M.card G dos with hκ
  set ks := udedup (κ :: l.map (akey M G)) with hks
  have hnd : ks.Nodup := nodup_udedup _
  have hcan : ∀ D ∈ ks, CanonD M G D := by
    intro D hD
    rcases List.mem_cons.mp (mem_udedup.mp hD) with rfl | h
    · exact kdos_canon _
    · obtain ⟨a, _, rfl⟩ := List.mem_map.mp h
      exact kdos_canon _
  have hκks : κ ∈ ks := mem_udedup.mpr List.mem_cons_self
  have hsubl : ∀ a ∈ l, akey M G a ∈ ks := fun a ha => mem_udedup.mpr (List.mem_cons_of_mem _ (List.mem_map_of_mem ha))
  have hperm : ks.Perm (κ :: ks.erase κ) := List.perm_cons_erase hκks
  have hne : ∀ D ∈ ks.erase κ, D ≠ κ := fun D hD e => (hnd.mem_erase_iff.mp hD).1 e
  -- the factors of the other worlds
  set C := ((ks.erase κ).map fun D => pw M G D (evOf M.card G D l)).prod with hCdef
  have hterm : ∀ k, M.prX G (⟨x, dos, k⟩ :: l) = pw M G κ ((x, k) :: evOf M.card G κ l) * C := by
    intro k
    rw [prX_eq_prod hC _ ks hnd hcan (by
      intro a ha
      rcases List.mem_cons.mp ha with rfl | h
      · exact hκks
      · exact hsubl a h)]
    rw [(hperm.map _).prod_eq, List.map_cons, List.prod_cons]
    congr 1
    · rw [evOf_cons]
      simp [akey, hκ]
    · rw [hCdef]
      congr 1
      apply List.map_congr_left
      intro D hD
      rw [evOf_cons, if_neg]
      intro e
      exact hne D hD (by simpa [akey, hκ] using e.symm)
  have hrhs : M.prX G l = pw M G κ (evOf M.card G κ l) * C := by
    rw [prX_eq_prod hC l ks hnd hcan hsubl, (hperm.map _).prod_eq, List.map_cons, List.prod_cons]
  simp only [hterm]
  rw [hrhs, ← pw_marg hC (kdos_canon dos) x (evOf M.card G κ l)]
  simp only [sumRange_eq_sum]
  rw [Finset.sum_mul]

/-! ### the theorem -/

/-- **The total environment of every compatible semi-Markovian model satisfies all laws of `ProbFamily`.** -/
theorem envX_probFamily (hC : XCtx M G) : ProbFamily (M.envX G) where
  card_pos := hC.compat.card_pos
  pr_nil := fun _ => by simp [envX, prX_def, udedup]
  pr_nonneg := fun _ l => by
    show 0 ≤ M.prX G l
    rw [prX_def]
    apply List.prod_nonneg
    intro x hx
    obtain ⟨D, _, rfl⟩ := List.mem_map.mp hx
    exact pw_nonneg hC _ _
  pr_perm := fun _ l₁ l₂ h => prX_congr_set hC (fun a => h.mem_iff)
  pr_dup := fun _ a l => prX_congr_set hC (fun b => by simp)
  pr_dos_perm := fun _ a dos' l h =>
    prX_congr_key _ _ l (by simp only [akey]; exact (kdos_perm M.card G h).symm) rfl rfl
  pr_conflict := fun _ a b l h => by
    simp only [Atom.conflicts, Bool.and_eq_true, beq_iff_eq, bne_iff_ne, ne_eq] at h
    obtain ⟨⟨h1, h2⟩, h3⟩ := h
    show M.prX G (a :: b :: l) = 0
    apply prX_zero_of_factor (a := a) List.mem_cons_self
    apply pw_conflict (x := a.name) (k₁ := a.val) (k₂ := b.val) _ _ h3
    · exact mem_evOf.mpr ⟨a, List.mem_cons_self, rfl, rfl⟩
    · exact mem_evOf.mpr ⟨b, List.mem_cons_of_mem _ List.mem_cons_self, by simp [akey, h2], by rw [h1]⟩
  pr_marg := fun _ x dos l _ => prX_marg hC x dos l
  pr_range := fun _ a l h => by
    show M.prX G (a :: l) = 0
    apply prX_zero_of_factor (a := a) List.mem_cons_self
    exact pw_range (x := a.name) (k := a.val) (mem_evOf.mpr ⟨a, List.mem_cons_self, rfl, rfl⟩) h

end Scm
end Y0
