/-
  Y0.Lemmas.TrsoT610 — lines 6/7 and 8-11 of TRSO (`Y0.Model.Trso`) while the run is in the TARGET domain and no
  source domain declares an experiment: lines 6/7 fall through, the topological order of lines 9/10 exists, the
  district used by line 10 is unique, and line 10 hands a smaller query satisfying the invariant to the recursion.

  Built on the invariant `TInv` of `Y0.Lemmas.TrsoGraphInv`.
-/
import Y0.Lemmas.TrsoGraphInv
import Y0.Lemmas.TrsoClean

namespace Y0
namespace Trso
open TrDsl MG

/-! ### lines 6 / 7 -/

/-- a domain whose declared experiment is empty is never usable (the separation test is not evaluated) -/
theorem line6Helper_none {sep : SepTest} {q : Query} {d : Pop} {G : MG Name} (h : lookup q.surr d = .ok []) :
    line6Helper sep q d G = .ok none := by
  unfold line6Helper
  rw [h]
  simp [inter']

/-- when every source domain declares the empty experiment, line 6 proposes no sub-query -/
theorem line6_nil {sep : SepTest} {q : Query}
    (h : ∀ p ∈ q.graphs, p.1 ≠ targetPop → lookup q.surr p.1 = .ok []) : line6 sep q = .ok [] := by
  unfold line6
  obtain ⟨rs, hrs, hnone⟩ := mapM_ok_of (fun b : Pop × Option Query => b.2 = none)
    (f := fun (x : Pop × MG Name) => match x with
      | (d, g) => (do pure (d, ← line6Helper sep q d g) : Except Err (Pop × Option Query)))
    (q.graphs.filter (fun p => p.1 ≠ targetPop)) (by
      rintro ⟨d, g⟩ hp
      have hp' := List.mem_filter.1 hp
      have hne : d ≠ targetPop := by simpa using hp'.2
      have hl := h (d, g) hp'.1 hne
      refine ⟨(d, none), ?_, rfl⟩
      simp only [line6Helper_none (sep := sep) (G := g) hl]
      rfl)
  rw [hrs]
  show Except.ok (rs.filterMap _) = _
  congr 1
  apply List.filterMap_eq_nil_iff.2
  rintro ⟨d, o⟩ hm
  have : o = none := hnone _ hm
  subst this
  rfl

/-- with no declared experiment, lines 6/7 never use a source domain (and never call the separation test) -/
theorem step67_none {M q G} (sep : SepTest) (rec : Rec) (h : TInv M q G) (hs : NoSurr q) :
    step67 sep rec q = .ok none := by
  unfold step67
  split
  · rename_i hguard
    have hne : q.surr ≠ [] := by
      intro h0
      simp [h0] at hguard
    have hkeys := h.keys.resolve_left hne
    have hl : line6 sep q = .ok [] := by
      apply line6_nil
      intro p hp hpt
      obtain ⟨Z, hZ⟩ := hkeys p hp hpt
      have : Z = [] := hs _ (lookup_key hZ)
      rw [hZ, this]
    rw [hl]
    rfl
  · rfl

/-! ### the topological order of lines 9 / 10 -/

/-- the topological order used by lines 9/10 exists and lists every node of the current graph -/
theorem TInv.order_ok {M q G} (h : TInv M q G) :
    ∃ order, regularOrder G = .ok order ∧ ∀ v ∈ G.nodes, v ∈ order := by
  obtain ⟨l, hl⟩ := topologicalSort_total G h.wfG (MG.ranked_acyclic h.rkG)
  refine ⟨l.filter (fun n => !isTnode n), ?_, ?_⟩
  · unfold regularOrder
    rw [hl]
    rfl
  · intro v hv
    apply List.mem_filter.2
    refine ⟨MG.topologicalSort_complete G h.wfG l hl v hv, ?_⟩
    simp [h.noT v hv]

/-! ### the districts of lines 8-11 -/

/-- the single district `c` of `G ∖ X` consists of the nodes outside `X`, contains the outcomes and is non-empty -/
theorem TInv.single_dwi {M q G} (h : TInv M q G) {c : List Name} (hc : (G.removeNodes q.X).districts = [c]) :
    (∀ v, v ∈ c ↔ v ∈ G.nodes ∧ v ∉ q.X) ∧ (∀ y ∈ q.Y, y ∈ c) ∧ c ≠ [] := by
  have hm : ∀ v, v ∈ c ↔ v ∈ G.nodes ∧ v ∉ q.X := fun v => by
    rw [single_district_all (wf_removeNodes _ _) hc v, mem_nodes_removeNodes G h.wfG]
  have hY : ∀ y ∈ q.Y, y ∈ c := fun y hy => (hm y).2 ⟨h.YinG y hy, h.XY y hy⟩
  refine ⟨hm, hY, ?_⟩
  obtain ⟨y, hy⟩ := List.exists_mem_of_ne_nil _ h.Yne
  intro h0
  have := hY y hy
  rw [h0] at this
  simp at this

/-- a `filter` whose predicate holds for a member and for no two members at different positions is that member -/
theorem filter_eq_singleton_of_pairwise {α} {p : α → Bool} :
    ∀ {l : List α} {a : α}, a ∈ l → p a = true → l.Pairwise (fun x y => ¬ (p x = true ∧ p y = true)) →
      l.filter p = [a] := by
  intro l
  induction l with
  | nil => intro a ha; cases ha
  | cons b bs ih =>
    intro a ha hpa hpw
    obtain ⟨hb, hbs⟩ := List.pairwise_cons.1 hpw
    rcases List.mem_cons.1 ha with rfl | ha
    · have : bs.filter p = [] := by
        apply List.filter_eq_nil_iff.2
        intro y hy hpy
        exact hb y hy ⟨hpa, hpy⟩
      simp [hpa, this]
    · have hpb : p b = false := by
        cases hpb : p b with
        | false => rfl
        | true => exact absurd ⟨hpb, hpa⟩ (hb a ha)
      simp [hpb, ih ha hpa hbs]

/-- the districts of a well-formed graph that contain a given non-empty set: exactly the one that does -/
theorem districts_filter_subset {G : MG Name} (hG : G.WF) {c D : List Name} (hne : c ≠ []) (hD : D ∈ G.districts)
    (hcD : ∀ v ∈ c, v ∈ D) : G.districts.filter (fun d => subset' c d) = [D] := by
  obtain ⟨s, hs⟩ := List.exists_mem_of_ne_nil _ hne
  apply filter_eq_singleton_of_pairwise (p := fun d => subset' c d) hD (IdAux.subset'_iff.2 hcD)
  apply (districts_disjoint G hG).imp
  intro d₁ d₂ hdis hboth
  exact hdis s (IdAux.subset'_iff.1 hboth.1 s hs) (IdAux.subset'_iff.1 hboth.2 s hs)

/-- line 10: the district of `G` that contains `c` is unique, so the `filter` of the model returns exactly one -/
theorem TInv.super_district {M q G} (h : TInv M q G) {c : List Name} (hc : (G.removeNodes q.X).districts = [c]) :
    ∃ c', G.districts.filter (fun d => subset' c d) = [c'] ∧ c' ∈ G.districts ∧ (∀ v ∈ c, v ∈ c') ∧
      (∀ v ∈ c', v ∈ G.nodes) := by
  obtain ⟨hm, _, hne⟩ := h.single_dwi hc
  have hcm : c ∈ (G.removeNodes q.X).districts := by rw [hc]; simp
  obtain ⟨s, hs⟩ := List.exists_mem_of_ne_nil _ hne
  have hsV : s ∈ G.nodes := ((hm s).1 hs).1
  obtain ⟨D, hD, hsD⟩ := (districts_cover G h.wfG s).1 hsV
  have hcD : ∀ v ∈ c, v ∈ D := by
    intro v hv
    have h1 := (districts_spec _ (wf_removeNodes _ _) c hcm s hs v).1 hv
    have h2 : G.SameDistrict s v :=
      sameDistrict_mono (fun a b hab => ((biEdge_removeNodes G q.X a b).1 hab).1) h1
    exact (districts_spec G h.wfG D hD s hsD v).2 h2
  exact ⟨D, districts_filter_subset h.wfG hne hD hcD, hD, hcD,
    fun v hv => mem_nodes_of_mem_district h.wfG hD hv⟩

/-! ### line 10 -/

/-- line 10 keeps the invariant and makes the graph smaller
(`line10_inv` is already the name of the expression-level fact in `Y0.Lemmas.TrsoInv`) -/
theorem line10_tinv {M q G} (h : TInv M q G) {c' : List Name} (hc' : c' ∈ G.districts) (hY : ∀ y ∈ q.Y, y ∈ c')
    (hlen : ¬ G.districts.length ≤ 1) {q' : Query}
    (hX : q'.X = inter' q.X c') (hYq : q'.Y = q.Y) (hact : q'.active = q.active) (hdom : q'.domain = q.domain)
    (hsurr : q'.surr = []) (hgr : q'.graphs = assign q.graphs q.domain (G.subgraph (nsort c'))) :
    TInv M q' (G.subgraph (nsort c')) ∧ mu M q' (G.subgraph (nsort c')) < mu M q G := by
  have hcV : ∀ v ∈ c', v ∈ G.nodes := fun v hv => mem_nodes_of_mem_district h.wfG hc' hv
  have hSV : ∀ s ∈ nsort c', s ∈ G.nodes := fun s hs => hcV s ((mem_nsort s c').1 hs)
  have hmem : ∀ v, v ∈ (G.subgraph (nsort c')).nodes ↔ v ∈ c' := fun v => by
    rw [mem_nodes_subgraph, mem_nsort]
  have hcases : ∀ p ∈ q'.graphs, p = (q.domain, G.subgraph (nsort c')) ∨ p ∈ q.graphs := by
    intro p hp
    rw [hgr] at hp
    exact mem_assign hp
  constructor
  · refine
      { look := ?_, dom := ?_, act := ?_, wf := ?_, rk := ?_, noT := ?_, Yin := ?_, Yne := ?_, Xin := ?_, XY := ?_,
        sub := ?_, size := ?_, keys := Or.inl hsurr }
    · rw [hgr, hdom]; exact lookup_assign_self
    · rw [hdom]; exact h.dom
    · rw [hact]; exact h.act
    · intro p hp
      rcases hcases p hp with rfl | hp
      · exact wf_subgraph G _
      · exact h.wf p hp
    · intro p hp
      rcases hcases p hp with rfl | hp
      · exact Ranked.subgraph h.rkG _
      · exact h.rk p hp
    · intro v hv
      exact h.noT v (hcV v ((hmem v).1 hv))
    · intro p hp y hy
      rw [hYq] at hy
      rcases hcases p hp with rfl | hp
      · exact (hmem y).2 (hY y hy)
      · exact h.Yin p hp y hy
    · rw [hYq]; exact h.Yne
    · intro x hx
      rw [hX] at hx
      exact (hmem x).2 (mem_inter'.1 hx).2
    · intro y hy hyx
      rw [hYq] at hy
      rw [hX] at hyx
      exact h.XY y hy (mem_inter'.1 hyx).1
    · intro p hp
      rcases hcases p hp with rfl | hp
      · exact ⟨fun v hv => hv, fun e he => he⟩
      · refine ⟨fun v hv => (h.sub p hp).1 v (hcV v ((hmem v).1 hv)), fun e he => (h.sub p hp).2 e ?_⟩
        have : (G.subgraph (nsort c')).DiEdge e.1 e.2 := he
        exact ((diEdge_subgraph G _ e.1 e.2).1 this).1
    · intro p hp
      rcases hcases p hp with rfl | hp
      · exact Nat.le_trans (length_subgraph_le _ hSV) h.sizeG
      · exact h.size p hp
  · obtain ⟨D', hD', x, hxD', hxc⟩ := exists_other_district h.wfG hc' (by omega)
    have hxV : x ∈ G.nodes := mem_nodes_of_mem_district h.wfG hD' hxD'
    have hxS : x ∉ nsort c' := fun hx => hxc ((mem_nsort x c').1 hx)
    exact mu_lt_of_nodes h.sizeG (length_subgraph_lt _ hSV hxV hxS)

end Trso
end Y0
