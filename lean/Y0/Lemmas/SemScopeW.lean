/-
  Y0.Lemmas.SemScopeW — the WIDENED quantifier of C10 / C13: `WellScopedW`.

  `WellScoped` (SemScope.lean) keeps every leaf inside one world with pairwise distinct names.  Multi-world joints —
  P(Y @ +X, Y @ -X), the inputs and outputs of ID* and ctfTR — are ordinary y0 objects; `WellScopedW` admits them:

  WellScopedW e :=
    * every leaf P(c | p): at least one child; NOTHING is required of the worlds or of the names (children may sit in
      different worlds, several children may share a base variable, with the same or different value marks);
    * an unstarred intervention subscript `-X` of a leaf never names a variable of that leaf that is bound by a Sum of
      the expression (the Sum would bind the subscript together with the event value); starred subscripts `+X` read σ'
      and are never bound;
    * no `+X` event value whose name is bound by a Sum; no Q-factor; the ranges of every Sum are plain variables.

  `WellScoped e → WellScopedW e` (`wellScoped_imp_W`).  Core Lean only (executable: the driver exposes it so that the
  harness can compare it with `gen_expr.well_scoped_mw`).
-/
import Y0.Lemmas.SemScope

namespace Y0

/-- the widened leaf clause, relative to the set `S` of names bound by sums -/
def leafOKW (S : List Name) (c p : List Var) : Bool :=
  let vs := c ++ p
  !c.isEmpty
  && vs.all (fun v => vs.all (fun w => w.ivs.all (fun i => i.name != v.name || i.star || !S.contains v.name)))
  && vs.all (fun v => !(v.star == some true && S.contains v.name))

mutual
def Expr.wssW (S : List Name) : Expr → Bool
  | .prob _ c p => leafOKW S c p
  | .prod fs => Expr.wssWList S fs
  | .sum e r => rangesOK S r && Expr.wssW S e
  | .frac n d => Expr.wssW S n && Expr.wssW S d
  | .one => true
  | .zero => true
  | .q _ _ => false
def Expr.wssWList (S : List Name) : List Expr → Bool
  | [] => true
  | e :: es => Expr.wssW S e && Expr.wssWList S es
end

/-- the widened quantifier of C10 (multi-world joints, shared base variables) -/
def WellScopedW (e : Expr) : Bool := e.wssW e.rangeNames

end Y0
