/-
  Y0.Lemmas.TrsoVocab — the DSL constructors of Y0.Model.TrDsl only re-arrange the leaves and Sum ranges they are
  given: a predicate on leaves that is monotone in the variable lists (`LeafMono`) and a predicate on ranges are
  preserved by Product.safe, Sum.safe / Sum.simplify, `*`, `/`, Fraction.simplify and canonicalize.
  This is the engine of the vocabulary theorem (C06, transport clause) in Props/C06Transport.lean.
-/
import Y0.Model.TrDsl
import Y0.Lemmas.Graph

namespace Y0
namespace TrDsl

/-! ### stable sort keeps the elements -/

theorem mem_insertStable {α} (lt : α → α → Bool) (x a : α) (l : List α) :
    a ∈ insertStable lt x l ↔ a = x ∨ a ∈ l := by
  induction l with
  | nil => simp [insertStable]
  | cons y ys ih =>
    unfold insertStable
    split
    · simp [ih]; tauto
    · simp

@[simp] theorem mem_ssort {α} (lt : α → α → Bool) (a : α) (l : List α) : a ∈ ssort lt l ↔ a ∈ l := by
  unfold ssort
  induction l with
  | nil => simp
  | cons x xs ih => simp [List.foldr, mem_insertStable, ih]

@[simp] theorem mem_sortVars (v : Var) (l : List Var) : v ∈ sortVars l ↔ v ∈ l := by
  simp [sortVars]

@[simp] theorem mem_sortByName (v : Var) (l : List Var) : v ∈ sortByName l ↔ v ∈ l := by
  simp [sortByName]

theorem mem_plainVars (v : Var) (ns : List Name) : v ∈ plainVars ns ↔ ∃ n ∈ ns, v = Var.plain n := by
  simp [plainVars]; constructor
  · rintro ⟨n, hn, rfl⟩; exact ⟨n, hn, rfl⟩
  · rintro ⟨n, hn, rfl⟩; exact ⟨n, hn, rfl⟩

/-! ### well-formedness with respect to a leaf predicate and a range predicate -/

section
variable (L : Option Var → List Var → List Var → Prop) (R : Var → Prop)

mutual
/-- every leaf satisfies `L`, every Sum range satisfies `R` -/
def Wf : Expr → Prop
  | .prob pop c p => L pop c p
  | .prod fs => WfList fs
  | .sum e r => Wf e ∧ ∀ v ∈ r, R v
  | .frac n d => Wf n ∧ Wf d
  | .one => True
  | .zero => True
  | .q _ _ => True
def WfList : List Expr → Prop
  | [] => True
  | e :: es => Wf e ∧ WfList es
end

theorem wfList_iff (es : List Expr) : WfList L R es ↔ ∀ e ∈ es, Wf L R e := by
  induction es with
  | nil => simp [WfList]
  | cons e es ih => simp [WfList, ih]

/-- the leaf predicate only speaks about which variables occur (so it survives re-ordering and marginalisation) -/
def LeafMono : Prop :=
  ∀ pop c p c' p', L pop c p → (∀ v ∈ c', v ∈ c) → (∀ v ∈ p', v ∈ p) → L pop c' p'

variable {L R}

theorem wf_productSafe {es : List Expr} (h : WfList L R es) : Wf L R (productSafe es) := by
  unfold productSafe
  have hf : ∀ e ∈ es.filter (fun e => !isOne e), Wf L R e := by
    intro e he; exact (wfList_iff L R es).1 h e (List.mem_filter.1 he).1
  generalize es.filter (fun e => !isOne e) = fs at hf
  simp only []
  split
  · simp [Wf]
  · split
    · simp [Wf]
    · rename_i e0 _; exact hf e0 (by simp)
    · simp only [Wf]
      rw [wfList_iff]
      intro e he
      exact hf e (by simpa using he)

theorem wf_mkFrac {n d e : Expr} (hn : Wf L R n) (hd : Wf L R d) (h : mkFrac n d = .ok e) : Wf L R e := by
  unfold mkFrac at h
  split at h
  · cases h
  · cases h; exact ⟨hn, hd⟩

theorem childDict_val_mem (cs : List Var) : ∀ p ∈ childDict cs, p.2 ∈ cs := by
  unfold childDict
  suffices H : ∀ (acc : List (Name × Var)) (done : List Var), (∀ p ∈ acc, p.2 ∈ done ++ cs) →
      ∀ p ∈ cs.foldl (fun acc c =>
        if acc.any (fun p => p.1 = c.name) then acc.map (fun p => if p.1 = c.name then (p.1, c) else p)
        else acc ++ [(c.name, c)]) acc, p.2 ∈ done ++ cs by
    simpa using H [] [] (by simp)
  induction cs with
  | nil => intro acc done h; simpa using h
  | cons c cs ih =>
    intro acc done h
    simp only [List.foldl]
    have := ih (acc := if acc.any (fun p => p.1 = c.name) then acc.map (fun p => if p.1 = c.name then (p.1, c) else p)
        else acc ++ [(c.name, c)]) (done := done ++ [c]) (by
      intro p hp
      split at hp
      · rcases List.mem_map.1 hp with ⟨q, hq, rfl⟩
        split
        · simp
        · have := h q hq; simp at this ⊢; tauto
      · rcases List.mem_append.1 hp with hp | hp
        · have := h p hp; simp at this ⊢; tauto
        · simp at hp; subst hp; simp)
    simpa using this

theorem wf_sumSimplify (hm : LeafMono L) {e : Expr} {r : List Var} (he : Wf L R e) (hr : ∀ v ∈ r, R v) :
    Wf L R (sumSimplify e r) := by
  unfold sumSimplify
  split
  · rename_i pop children
    have he0 := he
    simp only [Wf] at he
    have hsub : ∀ (f : Name × Var → Bool), ∀ v ∈ sortVars (((childDict children).filter f).map (·.2)), v ∈ children := by
      intro f v hv
      simp only [mem_sortVars, List.mem_map, List.mem_filter] at hv
      rcases hv with ⟨p, ⟨hp, _⟩, rfl⟩
      exact childDict_val_mem children p hp
    simp only []
    split
    · exact ⟨he0, hr⟩
    split
    · simp [Wf]
    · split
      · simp only [Wf, true_and]
        intro v hv; exact hr v (List.mem_filter.1 hv).1
      · split
        · simp only [Wf]; exact hm _ _ _ _ _ he (hsub _) (by simp)
        · simp only [Wf]
          refine ⟨hm _ _ _ _ _ he (hsub _) (by simp), ?_⟩
          intro v hv; exact hr v (List.mem_filter.1 hv).1
  · exact ⟨he, hr⟩

theorem wf_sumSafe (hm : LeafMono L) {e : Expr} {r : List Var} (s : Bool) (he : Wf L R e) (hr : ∀ v ∈ r, R v) :
    Wf L R (sumSafe e r s) := by
  unfold sumSafe
  have hr' : ∀ v ∈ sortVars r, R v := fun v hv => hr v (by simpa using hv)
  simp only []
  split
  · exact he
  · split
    · exact he
    · split
      · exact wf_sumSimplify hm he hr'
      · exact ⟨he, hr'⟩

theorem wfList_cons {e : Expr} {es : List Expr} (he : Wf L R e) (hes : WfList L R es) : WfList L R (e :: es) := ⟨he, hes⟩

theorem wfList_append {as bs : List Expr} (ha : WfList L R as) (hb : WfList L R bs) : WfList L R (as ++ bs) := by
  rw [wfList_iff] at *
  intro e he; rcases List.mem_append.1 he with h | h
  · exact ha e h
  · exact hb e h

theorem wf_mulF : ∀ (fuel : Nat) {a b e : Expr}, Wf L R a → Wf L R b → mulF fuel a b = .ok e → Wf L R e := by
  intro fuel
  induction fuel with
  | zero => intro a b e _ _ h; simp [mulF] at h
  | succ fuel ih =>
    intro a b e ha hb h
    unfold mulF at h
    -- a generic step for the `Fraction(x * n, d)` shape
    have fracStep : ∀ {x n d : Expr}, Wf L R x → Wf L R n → Wf L R d →
        (do mkFrac (← mulF fuel x n) d) = Except.ok e → Wf L R e := by
      intro x n d hx hn hd h
      cases hm : mulF fuel x n with
      | error err => simp [hm, bind, Except.bind] at h
      | ok m =>
        simp [hm, bind, Except.bind] at h
        exact wf_mkFrac (ih hx hn hm) hd h
    cases a with
    | one => simp at h; cases h; exact hb
    | zero => simp at h; cases h; trivial
    | prob pop c p =>
      cases b with
      | zero => simp at h; cases h; trivial
      | one => simp at h; cases h; exact ha
      | prod gs => simp at h; cases h; exact wf_productSafe (wfList_cons ha hb)
      | frac n d => simp only [] at h; exact fracStep ha hb.1 hb.2 h
      | prob _ _ _ => simp at h; cases h; exact wf_productSafe ⟨ha, hb, trivial⟩
      | sum _ _ => simp at h; cases h; exact wf_productSafe ⟨ha, hb, trivial⟩
      | q _ _ => simp at h; cases h; exact wf_productSafe ⟨ha, hb, trivial⟩
    | prod fs =>
      cases b with
      | zero => simp at h; cases h; trivial
      | prod gs => simp at h; cases h; exact wf_productSafe (wfList_append ha hb)
      | frac n d => simp only [] at h; exact fracStep ha hb.1 hb.2 h
      | one => simp at h; cases h; exact wf_productSafe (wfList_append ha ⟨hb, trivial⟩)
      | prob _ _ _ => simp at h; cases h; exact wf_productSafe (wfList_append ha ⟨hb, trivial⟩)
      | sum _ _ => simp at h; cases h; exact wf_productSafe (wfList_append ha ⟨hb, trivial⟩)
      | q _ _ => simp at h; cases h; exact wf_productSafe (wfList_append ha ⟨hb, trivial⟩)
    | sum s r =>
      cases b with
      | zero => simp at h; cases h; trivial
      | prod gs => simp at h; cases h; exact wf_productSafe (wfList_cons ha hb)
      | one => simp at h; cases h; exact wf_productSafe ⟨ha, hb, trivial⟩
      | frac _ _ => simp at h; cases h; exact wf_productSafe ⟨ha, hb, trivial⟩
      | prob _ _ _ => simp at h; cases h; exact wf_productSafe ⟨ha, hb, trivial⟩
      | sum _ _ => simp at h; cases h; exact wf_productSafe ⟨ha, hb, trivial⟩
      | q _ _ => simp at h; cases h; exact wf_productSafe ⟨ha, hb, trivial⟩
    | frac n d =>
      have other : ∀ {b : Expr}, Wf L R b → (do mkFrac (← mulF fuel n b) d) = Except.ok e → Wf L R e :=
        fun hb' h => fracStep ha.1 hb' ha.2 h
      cases b with
      | zero => simp at h; cases h; trivial
      | frac n' d' =>
        simp only [] at h
        cases h1 : mulF fuel n n' with
        | error err => simp [h1, bind, Except.bind] at h
        | ok m1 =>
          cases h2 : mulF fuel d d' with
          | error err => simp [h1, h2, bind, Except.bind] at h
          | ok m2 =>
            simp [h1, h2, bind, Except.bind] at h
            exact wf_mkFrac (ih ha.1 hb.1 h1) (ih ha.2 hb.2 h2) h
      | one => exact other hb h
      | prob _ _ _ => exact other hb h
      | prod _ => exact other hb h
      | sum _ _ => exact other hb h
      | q _ _ => exact other hb h
    | q dm cd =>
      cases b with
      | zero => simp at h; cases h; trivial
      | one => simp at h; cases h; exact ha
      | prod gs => simp at h; cases h; exact wf_productSafe (wfList_cons ha hb)
      | frac _ _ => simp at h; cases h; exact wf_productSafe ⟨ha, hb, trivial⟩
      | prob _ _ _ => simp at h; cases h; exact wf_productSafe ⟨ha, hb, trivial⟩
      | sum _ _ => simp at h; cases h; exact wf_productSafe ⟨ha, hb, trivial⟩
      | q _ _ => simp at h; cases h; exact wf_productSafe ⟨ha, hb, trivial⟩

theorem wf_mul {a b e : Expr} (ha : Wf L R a) (hb : Wf L R b) (h : mul a b = .ok e) : Wf L R e :=
  wf_mulF _ ha hb h

theorem wf_truediv {a b e : Expr} (ha : Wf L R a) (hb : Wf L R b) (h : truediv a b = .ok e) : Wf L R e := by
  unfold truediv at h
  have base : ∀ {a : Expr}, Wf L R a →
      (match b with
        | .one => Except.ok a
        | .frac n' d' => do mkFrac (← mul a d') n'
        | _ => mkFrac a b) = Except.ok e → Wf L R e := by
    intro a ha h
    cases b with
    | one => simp at h; cases h; exact ha
    | frac n' d' =>
      simp only [] at h
      cases hm : mul a d' with
      | error err => simp [hm, bind, Except.bind] at h
      | ok m => simp [hm, bind, Except.bind] at h; exact wf_mkFrac (wf_mul ha hb.2 hm) hb.1 h
    | zero => exact wf_mkFrac ha hb h
    | prob _ _ _ => exact wf_mkFrac ha hb h
    | prod _ => exact wf_mkFrac ha hb h
    | sum _ _ => exact wf_mkFrac ha hb h
    | q _ _ => exact wf_mkFrac ha hb h
  cases a with
  | zero => simp only [] at h; split at h <;> cases h; trivial
  | frac n d =>
    have fr : ∀ {b : Expr}, Wf L R b → (do mkFrac n (← mul d b)) = Except.ok e → Wf L R e := by
      intro b hb h
      cases hm : mul d b with
      | error err => simp [hm, bind, Except.bind] at h
      | ok m => simp [hm, bind, Except.bind] at h; exact wf_mkFrac ha.1 (wf_mul ha.2 hb hm) h
    cases b with
    | one => simp at h; cases h; exact ha
    | frac n' d' =>
      simp only [] at h
      cases h1 : mul n d' with
      | error err => simp [h1, bind, Except.bind] at h
      | ok m1 =>
        cases h2 : mul d n' with
        | error err => simp [h1, h2, bind, Except.bind] at h
        | ok m2 =>
          simp [h1, h2, bind, Except.bind] at h
          exact wf_mkFrac (wf_mul ha.1 hb.2 h1) (wf_mul ha.2 hb.1 h2) h
    | zero => exact fr hb h
    | prob _ _ _ => exact fr hb h
    | prod _ => exact fr hb h
    | sum _ _ => exact fr hb h
    | q _ _ => exact fr hb h
  | one => exact base ha h
  | prob _ _ _ => exact base ha h
  | prod _ => exact base ha h
  | sum _ _ => exact base ha h
  | q _ _ => exact base ha h

theorem wf_cancelParts : ∀ (num den : List Expr), WfList L R num → WfList L R den →
    WfList L R (cancelParts num den).1 ∧ WfList L R (cancelParts num den).2 := by
  intro num
  induction num with
  | nil => intro den _ hd; exact ⟨trivial, hd⟩
  | cons n ns ih =>
    intro den hn hd
    unfold cancelParts
    split
    · rename_i j _
      refine ih _ hn.2 ?_
      rw [wfList_iff] at hd ⊢
      intro e he; exact hd e (List.mem_of_mem_eraseIdx he)
    · have := ih den hn.2 hd
      exact ⟨⟨hn.1, this.1⟩, this.2⟩

theorem wf_simplifyParts {num den : List Expr} {e : Expr} (hn : WfList L R num) (hd : WfList L R den)
    (h : simplifyParts num den = .ok e) : Wf L R e := by
  unfold simplifyParts at h
  have hc := wf_cancelParts num den hn hd
  generalize cancelParts num den = c at h hc
  obtain ⟨n, d⟩ := c
  simp only [] at h hc
  split at h
  · exact wf_mkFrac (wf_productSafe hc.1) (wf_productSafe hc.2) h
  · split at h
    · cases h; exact wf_productSafe hc.1
    · split at h
      · exact wf_truediv (a := .one) trivial (wf_productSafe hc.2) h
      · cases h; trivial

theorem wf_fracSimplifyF : ∀ (fuel : Nat) {n d e : Expr}, Wf L R n → Wf L R d → fracSimplifyF fuel n d = .ok e → Wf L R e := by
  intro fuel
  induction fuel with
  | zero => intro n d e _ _ h; simp [fracSimplifyF] at h
  | succ fuel ih =>
    intro n d e hn hd h
    unfold fracSimplifyF at h
    split at h
    · cases h; exact hn
    · split at h
      · cases h; exact hn
      · split at h
        · split at h
          · rename_i n' d'
            split at h
            · cases h
            · exact ih hd.2 hd.1 h
          · cases h; exact ⟨hn, hd⟩
        · split at h
          · cases h; trivial
          · split at h
            · exact wf_simplifyParts hn hd h
            · exact wf_simplifyParts hn (wfList_cons hd (by simp [WfList])) h
            · exact wf_simplifyParts (wfList_cons hn (by simp [WfList])) hd h
            · cases h; exact ⟨hn, hd⟩

theorem wf_fracSimplify {n d e : Expr} (hn : Wf L R n) (hd : Wf L R d) (h : fracSimplify n d = .ok e) : Wf L R e :=
  wf_fracSimplifyF _ hn hd h

theorem wf_simplifyCast (hm : LeafMono L) {x e : Expr} (hx : Wf L R x) (h : simplifyCast x = .ok e) : Wf L R e := by
  unfold simplifyCast at h
  split at h
  · exact wf_fracSimplify hx.1 hx.2 h
  · cases h; exact wf_sumSimplify hm hx.1 hx.2
  · cases h

mutual
theorem wfList_flattenExprs : ∀ (es : List Expr), WfList L R es → WfList L R (flattenExprs es)
  | [], _ => by simp [flattenExprs, WfList]
  | e :: es, h => by
    simp only [flattenExprs]
    exact wfList_append (wfList_flattenExpr e h.1) (wfList_flattenExprs es h.2)
theorem wfList_flattenExpr : ∀ (e : Expr), Wf L R e → WfList L R (flattenExpr e)
  | .prod gs, h => by simp only [flattenExpr]; exact wfList_flattenExprs gs h
  | .prob _ _ _, h => by simp only [flattenExpr]; exact ⟨h, trivial⟩
  | .sum _ _, h => by simp only [flattenExpr]; exact ⟨h, trivial⟩
  | .frac _ _, h => by simp only [flattenExpr]; exact ⟨h, trivial⟩
  | .one, h => by simp only [flattenExpr]; exact ⟨h, trivial⟩
  | .zero, h => by simp only [flattenExpr]; exact ⟨h, trivial⟩
  | .q _ _, h => by simp only [flattenExpr]; exact ⟨h, trivial⟩
end

theorem wf_postFrac {e : Expr} (h : Wf L R e) : Wf L R (postFrac e) := by
  unfold postFrac
  split
  · split
    · exact h.1
    · split
      · trivial
      · exact h
  · exact h

mutual
/-- `canonicalize` keeps the vocabulary -/
theorem wf_canon (hm : LeafMono L) : ∀ (x : Expr) (e : Expr), Wf L R x → canon x = .ok e → Wf L R e
  | .prob pop c p, e, hx, h => by
    simp [canon] at h; cases h
    exact hm _ _ _ _ _ hx (by simp) (by simp)
  | .prod fs, e, hx, h => by
    simp only [canon, bind, Except.bind] at h
    split at h
    · cases h
    · rename_i es hes; cases h; exact wf_productSafe (wfList_flattenExprs es (wf_canonFlat hm fs es hx hes))
  | .sum x r, e, hx, h => by
    simp only [canon, bind, Except.bind] at h
    split at h
    · cases h
    · rename_i x' hx'; cases h; exact wf_sumSafe hm true (wf_canon hm x x' hx.1 hx') hx.2
  | .frac n d, e, hx, h => by
    simp only [canon, bind, Except.bind] at h
    split at h
    · cases h
    · rename_i n' hn'
      split at h
      · cases h
      · rename_i d' hd'
        simp only [pure, Except.pure] at h
        split at h
        · have he : n' = e := Except.ok.inj h
          subst he; exact wf_canon hm n n' hx.1 hn'
        · split at h
          · cases h; trivial
          · split at h
            · cases h
            · rename_i rv hrv
              cases h
              exact wf_postFrac (wf_truediv (wf_canon hm n n' hx.1 hn') (wf_canon hm d d' hx.2 hd') hrv)
  | .one, e, _, h => by simp [canon] at h; cases h; trivial
  | .zero, e, _, h => by simp [canon] at h; cases h; trivial
  | .q _ _, e, _, h => by simp [canon] at h
theorem wf_canonFlat (hm : LeafMono L) : ∀ (xs es : List Expr), WfList L R xs → canonFlat xs = .ok es → WfList L R es
  | [], es, _, h => by simp [canonFlat] at h; cases h; trivial
  | .prod gs :: xs, es, hx, h => by
    simp only [canonFlat, bind, Except.bind] at h
    split at h
    · cases h
    · rename_i gs' hgs
      split at h
      · cases h
      · rename_i xs' hxs
        cases h
        exact wfList_append (wf_canonFlat hm gs gs' hx.1 hgs) (wf_canonFlat hm xs xs' hx.2 hxs)
  | .prob pop c p :: xs, es, hx, h => by
    simp only [canonFlat, bind, Except.bind] at h
    split at h
    · cases h
    · rename_i x' hx'
      split at h
      · cases h
      · rename_i xs' hxs
        cases h
        exact ⟨wf_canon hm _ x' hx.1 hx', wf_canonFlat hm xs xs' hx.2 hxs⟩
  | .sum x r :: xs, es, hx, h => by
    simp only [canonFlat, bind, Except.bind] at h
    split at h
    · cases h
    · rename_i x' hx'
      split at h
      · cases h
      · rename_i xs' hxs
        cases h
        exact ⟨wf_canon hm _ x' hx.1 hx', wf_canonFlat hm xs xs' hx.2 hxs⟩
  | .frac n d :: xs, es, hx, h => by
    simp only [canonFlat, bind, Except.bind] at h
    split at h
    · cases h
    · rename_i x' hx'
      split at h
      · cases h
      · rename_i xs' hxs
        cases h
        exact ⟨wf_canon hm _ x' hx.1 hx', wf_canonFlat hm xs xs' hx.2 hxs⟩
  | .one :: xs, es, hx, h => by
    simp only [canonFlat, bind, Except.bind] at h
    split at h
    · cases h
    · rename_i x' hx'
      split at h
      · cases h
      · rename_i xs' hxs
        cases h
        exact ⟨wf_canon hm _ x' hx.1 hx', wf_canonFlat hm xs xs' hx.2 hxs⟩
  | .zero :: xs, es, hx, h => by
    simp only [canonFlat, bind, Except.bind] at h
    split at h
    · cases h
    · rename_i x' hx'
      split at h
      · cases h
      · rename_i xs' hxs
        cases h
        exact ⟨wf_canon hm _ x' hx.1 hx', wf_canonFlat hm xs xs' hx.2 hxs⟩
  | .q a b :: xs, es, hx, h => by
    simp only [canonFlat, bind, Except.bind] at h
    split at h
    · cases h
    · rename_i x' hx'
      split at h
      · cases h
      · rename_i xs' hxs
        cases h
        exact ⟨wf_canon hm _ x' hx.1 hx', wf_canonFlat hm xs xs' hx.2 hxs⟩
end

theorem wf_canonicalize (hm : LeafMono L) {x e : Expr} (hx : Wf L R x) (h : canonicalize x = .ok e) : Wf L R e :=
  wf_canon hm x e hx h

theorem wf_c14nSafe (hm : LeafMono L) {x e : Option Expr} (hx : ∀ a, x = some a → Wf L R a)
    (h : c14nSafe x = .ok e) : ∀ a, e = some a → Wf L R a := by
  unfold c14nSafe at h
  cases x with
  | none => simp at h; cases h; intro a ha; cases ha
  | some x0 =>
    simp only [bind, Except.bind] at h
    split at h
    · cases h
    · rename_i e0 he0
      simp [pure, Except.pure] at h; cases h
      intro a ha; cases ha
      exact wf_canonicalize hm (hx x0 rfl) he0

end

/-! ### weakening the leaf predicate -/

mutual
theorem wf_mono {L L' : Option Var → List Var → List Var → Prop} {R : Var → Prop}
    (hl : ∀ pop c p, L pop c p → L' pop c p) : ∀ (e : Expr), Wf L R e → Wf L' R e
  | .prob pop c p, h => hl _ _ _ h
  | .prod fs, h => wfList_mono hl fs h
  | .sum e r, h => ⟨wf_mono hl e h.1, h.2⟩
  | .frac n d, h => ⟨wf_mono hl n h.1, wf_mono hl d h.2⟩
  | .one, _ => trivial
  | .zero, _ => trivial
  | .q _ _, _ => trivial
theorem wfList_mono {L L' : Option Var → List Var → List Var → Prop} {R : Var → Prop}
    (hl : ∀ pop c p, L pop c p → L' pop c p) : ∀ (es : List Expr), WfList L R es → WfList L' R es
  | [], _ => trivial
  | e :: es, h => ⟨wf_mono hl e h.1, wfList_mono hl es h.2⟩
end

end TrDsl
end Y0
