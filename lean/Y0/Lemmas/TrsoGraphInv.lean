/-
  Y0.Lemmas.TrsoGraphInv — the graph-level invariant of the TRSO recursion while it runs in the TARGET domain
  (`Y0.Model.Trso`), and what it buys: every lookup / ancestor computation / topological sort of one unfolding of
  `trsoF` succeeds, the queries handed to the recursive calls satisfy the invariant again, and a measure decreases.

  Used by Props/C05 (`trso_no_internal_error_no_surrogate`, `trso_no_surrogate_iff_id`).
-/
import Y0.Lemmas.TrsoInv
import Y0.Lemmas.IdTotal
import Y0.Lemmas.LatentTopo
import Y0.Lemmas.IdRank
import Y0.Lemmas.TrsoSep
import Y0.Props.C14
import Y0.Props.C06Transport

namespace Y0
namespace Trso
open TrDsl MG Relation

/-! ### association lists -/

theorem lookup_of_key {β} {l : List (Pop × β)} {d : Pop} (h : ∃ p ∈ l, p.1 = d) : ∃ b, lookup l d = .ok b := by
  unfold lookup
  cases hf : l.find? (fun p => p.1 = d) with
  | some p => exact ⟨p.2, rfl⟩
  | none =>
    obtain ⟨p, hp, hd⟩ := h
    have := List.find?_eq_none.1 hf p hp
    simp [hd] at this

theorem lookup_key {β} {l : List (Pop × β)} {d : Pop} {b : β} (h : lookup l d = .ok b) : (d, b) ∈ l :=
  lookup_mem h

theorem mem_assign {β} {l : List (Pop × β)} {d : Pop} {v : β} {p : Pop × β} (h : p ∈ assign l d v) :
    p = (d, v) ∨ p ∈ l := by
  unfold assign at h
  split at h
  · rcases List.mem_map.1 h with ⟨a, ha, rfl⟩
    split
    · exact Or.inl rfl
    · exact Or.inr ha
  · rcases List.mem_append.1 h with h | h
    · exact Or.inr h
    · simp at h; exact Or.inl h

theorem lookup_assign_self {β} {l : List (Pop × β)} {d : Pop} {v : β} : lookup (assign l d v) d = .ok v := by
  unfold assign
  split
  · rename_i hany
    induction l with
    | nil => simp at hany
    | cons a as ih =>
      simp only [List.map_cons]
      by_cases had : a.1 = d
      · simp [lookup, had]
      · have : as.any (fun p => decide (p.1 = d)) = true := by simpa [had] using hany
        have ih' := ih this
        unfold lookup at ih' ⊢
        simp only [had, ↓reduceIte, List.find?_cons, decide_false] at ih' ⊢
        exact ih'
  · rename_i hany
    unfold lookup
    have : l.find? (fun p => decide (p.1 = d)) = none := by
      apply List.find?_eq_none.2
      intro p hp hd
      apply hany
      exact List.any_eq_true.2 ⟨p, hp, hd⟩
    simp [List.find?_append, this]

/-- a key-preserving `mapM` commutes with `lookup` -/
theorem lookup_mapM {β} {f : Pop × β → Except Err (Pop × β)} (hkey : ∀ p p', f p = .ok p' → p'.1 = p.1) :
    ∀ {l l' : List (Pop × β)} {d : Pop} {b : β}, l.mapM f = .ok l' → lookup l d = .ok b →
      ∃ b', lookup l' d = .ok b' ∧ f (d, b) = .ok (d, b') := by
  intro l
  induction l with
  | nil => intro l' d b _ h; simp [lookup] at h
  | cons a as ih =>
    intro l' d b hm hl
    rw [List.mapM_cons] at hm
    obtain ⟨a', ha', hm⟩ := bind_ok hm
    obtain ⟨as', has', hm⟩ := bind_ok hm
    simp [pure, Except.pure] at hm; subst hm
    have hk := hkey a a' ha'
    by_cases had : a.1 = d
    · have hb : a = (d, b) := by
        unfold lookup at hl
        simp only [List.find?_cons, had, decide_true] at hl
        cases hl
        exact Prod.ext had rfl
      subst hb
      refine ⟨a'.2, ?_, ?_⟩
      · unfold lookup; simp [hk]
      · rw [ha']; congr 1; exact Prod.ext hk rfl
    · have hl' : lookup as d = .ok b := by
        unfold lookup at hl ⊢
        simpa [List.find?_cons, had] using hl
      obtain ⟨b', hb', hf⟩ := ih has' hl'
      refine ⟨b', ?_, hf⟩
      unfold lookup at hb' ⊢
      have : ¬ a'.1 = d := by rw [hk]; exact had
      simpa [List.find?_cons, this] using hb'

theorem mapM_mem {α β : Type} {f : α → Except Err β} {l : List α} (h : ∀ a ∈ l, ∃ b, f a = .ok b) :
    ∃ r, l.mapM f = .ok r :=
  IdAux.mapM_ok_of_forall f l h

/-! ### small list facts -/

theorem mem_diff' {a : Name} {l m : List Name} : a ∈ diff' l m ↔ a ∈ l ∧ a ∉ m := by simp [diff']
theorem mem_inter' {a : Name} {l m : List Name} : a ∈ inter' l m ↔ a ∈ l ∧ a ∈ m := by simp [inter']

theorem length_filter_lt_of_mem {l : List Name} {p q : Name → Bool} (hpq : ∀ a ∈ l, p a = true → q a = true)
    {w : Name} (hw : w ∈ l) (hq : q w = true) (hp : p w = false) : (l.filter p).length < (l.filter q).length := by
  obtain ⟨l1, l2, rfl⟩ := List.append_of_mem hw
  have h1 : List.countP p l1 ≤ List.countP q l1 :=
    List.countP_mono_left (fun x hx hpx => hpq x (List.mem_append_left _ hx) hpx)
  have h2 : List.countP p l2 ≤ List.countP q l2 :=
    List.countP_mono_left (fun x hx hpx => hpq x (List.mem_append_right _ (List.mem_cons_of_mem _ hx)) hpx)
  rw [← List.countP_eq_length_filter, ← List.countP_eq_length_filter]
  simp only [List.countP_append, List.countP_cons, hq, hp]
  simp
  omega

theorem regularNodes_eq_of_noT {G : MG Name} (h : ∀ v ∈ G.nodes, isTnode v = false) : regularNodes G = G.nodes := by
  unfold regularNodes
  apply List.filter_eq_self.2
  intro v hv; simp [h v hv]

theorem transportNodes_nil_of_noT {G : MG Name} (h : ∀ v ∈ G.nodes, isTnode v = false) : transportNodes G = [] := by
  unfold transportNodes
  apply List.filter_eq_nil_iff.2
  intro v hv; simp [h v hv]

/-! ### sub-graphs keep what the invariant needs -/

theorem ranked_of_acyclic {G : MG Name} (hG : G.WF) (h : G.Acyclic) : G.Ranked := MG.acyclic_ranked hG h

theorem length_subgraph_le {G : MG Name} (S : List Name) (hS : ∀ s ∈ S, s ∈ G.nodes) :
    (G.subgraph S).nodes.length ≤ G.nodes.length := by
  have hnd : (G.subgraph S).nodes.Nodup := (wf_subgraph G S).nodup
  have hsub : (G.subgraph S).nodes ⊆ G.nodes := by
    intro v hv
    have := (mem_nodes_subgraph G S v).1 hv
    exact hS v this
  exact (List.subperm_of_subset hnd hsub).length_le

theorem length_subgraph_lt {G : MG Name} (S : List Name) (hS : ∀ s ∈ S, s ∈ G.nodes) {w : Name}
    (hw : w ∈ G.nodes) (hwS : w ∉ S) : (G.subgraph S).nodes.length < G.nodes.length := by
  apply length_lt_of_subset (wf_subgraph G S).nodup _ hw
  · intro h; exact hwS ((mem_nodes_subgraph G S w).1 h)
  · intro v hv; exact hS v ((mem_nodes_subgraph G S v).1 hv)

/-! ### the invariant of a run that is still in the target domain -/

/-- the computation succeeds -/
def NoErr {α} (x : Except Err α) : Prop := ∃ a, x = .ok a

/-- Invariant of the queries met while TRSO runs in the TARGET domain (before any line 6); `G` is the current graph,
`M` a bound on the size of every graph of the query.
`surr`: either line 10 already cleared the experiments, or every source domain has a (possibly empty) declared
experiment set (`lookup` succeeds).  `NoSurr` below adds "all of them are empty". -/
structure TInv (M : Nat) (q : Query) (G : MG Name) : Prop where
  look : lookup q.graphs q.domain = .ok G
  dom : q.domain = targetPop
  act : q.active = []
  wf : ∀ p ∈ q.graphs, p.2.WF
  rk : ∀ p ∈ q.graphs, p.2.Ranked
  noT : ∀ v ∈ G.nodes, isTnode v = false
  Yin : ∀ p ∈ q.graphs, ∀ y ∈ q.Y, y ∈ p.2.nodes
  Yne : q.Y ≠ []
  Xin : ∀ x ∈ q.X, x ∈ G.nodes
  XY : ∀ y ∈ q.Y, y ∉ q.X
  sub : ∀ p ∈ q.graphs, (∀ v ∈ G.nodes, v ∈ p.2.nodes) ∧ (∀ e ∈ G.di, e ∈ p.2.di)
  size : ∀ p ∈ q.graphs, p.2.nodes.length ≤ M
  keys : q.surr = [] ∨ ∀ p ∈ q.graphs, p.1 ≠ targetPop → ∃ Z, lookup q.surr p.1 = .ok Z

/-- no source domain declares an experiment -/
def NoSurr (q : Query) : Prop := ∀ p ∈ q.surr, p.2 = []

/-- termination measure of the target phase: (number of nodes, number of nodes outside `X`), lexicographic -/
def mu (M : Nat) (q : Query) (G : MG Name) : Nat := G.nodes.length * (M + 2) + (diff' G.nodes q.X).length

theorem TInv.cur {M q G} (h : TInv M q G) : (q.domain, G) ∈ q.graphs := lookup_key h.look
theorem TInv.wfG {M q G} (h : TInv M q G) : G.WF := h.wf _ h.cur
theorem TInv.rkG {M q G} (h : TInv M q G) : G.Ranked := h.rk _ h.cur
theorem TInv.YinG {M q G} (h : TInv M q G) : ∀ y ∈ q.Y, y ∈ G.nodes := h.Yin _ h.cur
theorem TInv.sizeG {M q G} (h : TInv M q G) : G.nodes.length ≤ M := h.size _ h.cur

theorem diff_length_le (l m : List Name) : (diff' l m).length ≤ l.length := List.length_filter_le _ _

/-- the measure drops when the current graph loses a node -/
theorem mu_lt_of_nodes {M : Nat} {q q' : Query} {G G' : MG Name} (hG : G.nodes.length ≤ M)
    (h : G'.nodes.length < G.nodes.length) : mu M q' G' < mu M q G := by
  unfold mu
  have h1 := diff_length_le G'.nodes q'.X
  have h2 : (G'.nodes.length + 1) * (M + 2) ≤ G.nodes.length * (M + 2) := Nat.mul_le_mul_right _ h
  have : (G'.nodes.length + 1) * (M + 2) = G'.nodes.length * (M + 2) + (M + 2) := by ring
  omega

/-- the measure drops when the graph stays and `X` gains a node of the graph -/
theorem mu_lt_of_X {M : Nat} {q q' : Query} {G : MG Name}
    (h : (diff' G.nodes q'.X).length < (diff' G.nodes q.X).length) : mu M q' G < mu M q G := by
  unfold mu; omega

end Trso
end Y0
