/-
  Y0.Lemmas.CtfTrAlg3ErrQ — a LOWER bound on the variables of the expressions that Tian's IDENTIFY builds from a domain's
  distribution, and with it the fifth final check of Algorithm 3 for an outcome that is also a condition.

  The fifth final check of `ctfTR` wants every outcome's graph vertex among the variables of the returned expression.  For
  an outcome whose vertex is not a condition vertex the denominator sums over it.  For an outcome `Y_*` that shares its
  vertex `Y` with a condition, `Y` has to occur in `Q`, the expression of Algorithm 2 for `D*`.  It does when the domains'
  distributions are distributions over PLAIN variables (`PopsPlain`: the children of every `PopulationProbability` are
  plain `Variable`s, as in `PP[π](V)`):

    * Lemma 1 writes `Q[D] = Π_{v ∈ D} P(v | …)` with `v` itself as the child (`lemma1_has`);
    * Lemma 4, Lemma 3 and `Sum.safe` / `Product.safe` / `Fraction` never lose a variable (`sumSafe_sub`, `lemma4_sub`, …);
    * so IDENTIFY's answer for `C` inside `T` mentions every vertex of `C` (`identify_low`), Algorithm 4's answer mentions
      every vertex of the district (`sigmaTRDomain_low`), and `Q` mentions every vertex of every ctf-factor, in particular
      the vertex of every outcome that was found (`qCovers_of_popsPlain`).

  Without `PopsPlain` the claim is false: with `PP[π](X, Y, Y_x)` Lemma 1 writes the factor of `Y` in the world of `Y_x`
  and `Y` does not occur in `Q` (witness in Y0/Props/C09.lean §6, confirmed on the Python).
-/
import Y0.Lemmas.CtfTrAlg3Err

namespace Y0
namespace TianLow
open Tian TianDsl TianDen TianSpec TianGraph TianLemma1 TianIdentify TianTotal TianVoc MG

/-- every vertex of `N` occurs in `e` as a plain variable -/
def HasPlain (N : List Name) (e : Expr) : Prop := ∀ n ∈ N, Var.plain n ∈ Expr.iterVars e

/-- the children of a probability are plain variables -/
def PlainCh : Expr → Prop
  | .prob _ ch _ => ∀ x ∈ ch, x = Var.plain x.name
  | _ => True

theorem plainCh_of_fps {e : Expr} (h : isFracProdSum e = true) : PlainCh e := by
  cases e <;> simp_all [isFracProdSum, PlainCh]

theorem plain_mem_prob {p : Option Var} {ch pa : List Var} {v : Name} (h : Var.plain v ∈ ch) :
    Var.plain v ∈ Expr.iterVars (.prob p ch pa) := by
  rw [iterVars_prob, List.mem_flatMap]
  exact ⟨Var.plain v, List.mem_append_left _ h, by simp [Var.iterVars]⟩

theorem inWorld_plain (ch : List Var) (hch : ∀ x ∈ ch, x = Var.plain x.name) (v : Name) :
    inWorld (world ch) v = Var.plain v := by
  unfold inWorld
  split
  · rename_i p hf
    have hm := List.mem_reverse.1 (List.mem_of_find?_eq_some hf)
    have hp := List.find?_some hf
    unfold world at hm
    obtain ⟨c, hc, rfl⟩ := List.mem_map.1 hm
    simp only [beq_iff_eq] at hp
    simp only
    rw [hch c hc, hp]
  · rfl

theorem forall₂_exists_right' {α β} {R : α → β → Prop} : ∀ {l : List α} {fs : List β}, List.Forall₂ R l fs →
    ∀ a ∈ l, ∃ f ∈ fs, R a f
  | _, _, .nil, a, ha => by cases ha
  | _, _, .cons hab h, a, ha => by
    rcases List.mem_cons.mp ha with rfl | ha
    · exact ⟨_, List.mem_cons_self, hab⟩
    · obtain ⟨f, hf, haf⟩ := forall₂_exists_right' h a ha
      exact ⟨f, List.mem_cons_of_mem _ hf, haf⟩

/-! ### the constructors keep the variables of their arguments -/

theorem sumSafe_sub {q e : Expr} {rs : List Var} (h : TianDsl.sumSafe q rs = .ok e) :
    ∀ v ∈ Expr.iterVars q, v ∈ Expr.iterVars e := by
  unfold TianDsl.sumSafe at h
  simp only at h
  split at h
  · cases h; exact fun v hv => hv
  · split at h
    · cases h; exact fun v hv => hv
    · split at h
      · cases h
      · cases h
        intro v hv
        rw [iterVars_sum', List.mem_append]; exact Or.inl hv

theorem productSafe_sub {fs : List Expr} (h : ∀ f ∈ fs, IsQExpr f) :
    ∀ f ∈ fs, ∀ v ∈ Expr.iterVars f, v ∈ Expr.iterVars (TianDsl.productSafe fs) := by
  have hfilter : fs.filter (fun e => !TianDsl.isOne e) = fs := by
    apply List.filter_eq_self.mpr
    intro f hf
    simp [(not_one_zero_of_qexpr (h f hf)).1]
  have hnz : fs.any TianDsl.isZero = false := by
    apply Bool.eq_false_iff.mpr
    intro hany
    rcases List.any_eq_true.mp hany with ⟨f, hf, hz⟩
    rw [(not_one_zero_of_qexpr (h f hf)).2] at hz
    cases hz
  unfold TianDsl.productSafe
  simp only [hfilter, hnz, Bool.false_eq_true, ↓reduceIte]
  match fs, h with
  | [], _ => intro f hf; cases hf
  | [f0], _ =>
    intro f hf v hv
    simp only [List.mem_singleton] at hf
    subst hf; exact hv
  | f0 :: g0 :: rest, _ =>
    intro f hf v hv
    rw [iterVars_prod, mem_iterVarsList]
    exact ⟨f, (TianDen.sortStable_perm _ _).mem_iff.2 hf, hv⟩

theorem plainCh_productSafe {fs : List Expr} (h : ∀ f ∈ fs, IsQExpr f ∧ PlainCh f) : PlainCh (TianDsl.productSafe fs) := by
  have hfilter : fs.filter (fun e => !TianDsl.isOne e) = fs := by
    apply List.filter_eq_self.mpr
    intro f hf
    simp [(not_one_zero_of_qexpr (h f hf).1).1]
  have hnz : fs.any TianDsl.isZero = false := by
    apply Bool.eq_false_iff.mpr
    intro hany
    rcases List.any_eq_true.mp hany with ⟨f, hf, hz⟩
    rw [(not_one_zero_of_qexpr (h f hf).1).2] at hz
    cases hz
  unfold TianDsl.productSafe
  simp only [hfilter, hnz, Bool.false_eq_true, ↓reduceIte]
  match fs, h with
  | [], _ => trivial
  | [f0], h => exact (h f0 List.mem_cons_self).2
  | f0 :: g0 :: rest, _ => trivial

theorem mkProb_inv {pop : Option Var} {d : Dist} {e : Expr} (h : mkProb pop d = .ok e) :
    ∃ c' p', e = .prob pop c' p' ∧ ∀ x, x ∈ c' ↔ x ∈ d.children := by
  unfold mkProb at h
  cases pop with
  | some p =>
    simp only [pure, Except.pure, Except.ok.injEq] at h
    exact ⟨_, _, h.symm, fun x => Iff.rfl⟩
  | none =>
    simp only [Dist.check, bind, Except.bind] at h
    split at h
    · cases h
    · rename_i v heq
      split at heq
      · cases heq
      · cases heq
        simp only [pure, Except.pure, Except.ok.injEq] at h
        exact ⟨_, _, h.symm, fun x => mem_sortedVariables _ _⟩

/-! ### Lemma 1 -/

theorem lemma1Factor_has {pop : Option Var} {ch pa : List Var} {topo : List Name} {v : Name} {e : Expr}
    (hch : ∀ x ∈ ch, x = Var.plain x.name) (h : lemma1Factor pop (world ch) pa topo v = .ok e) :
    Var.plain v ∈ Expr.iterVars e ∧ isProb e = true ∧ PlainCh e := by
  unfold lemma1Factor at h
  cases hi : indexOf topo v with
  | error err => rw [hi] at h; simp [bind, Except.bind] at h
  | ok i =>
    rw [hi] at h
    simp only [bind, Except.bind] at h
    rw [inWorld_plain ch hch v] at h
    have key : ∀ d : Dist, d.children = [Var.plain v] → mkProb pop d = .ok e →
        Var.plain v ∈ Expr.iterVars e ∧ isProb e = true ∧ PlainCh e := by
      intro d hd hmk
      obtain ⟨c', p', rfl, hc'⟩ := mkProb_inv hmk
      refine ⟨plain_mem_prob ((hc' _).2 (by rw [hd]; simp)), rfl, ?_⟩
      intro x hx
      have := (hc' x).1 hx
      rw [hd] at this
      simp only [List.mem_singleton] at this
      subst this; rfl
    cases pop with
    | some p => exact key _ rfl h
    | none =>
      simp only [Dist.ofGiven, Dist.check, List.isEmpty_cons, Bool.false_eq_true, ↓reduceIte] at h
      exact key _ rfl h

theorem lemma1_has {pop : Option Var} {ch pa : List Var} {D topo : List Name} {e : Expr}
    (hch : ∀ x ∈ ch, x = Var.plain x.name) (h : lemma1 D (.prob pop ch pa) topo = .ok e) :
    HasPlain D e ∧ PlainCh e := by
  unfold lemma1 at h
  split at h
  · cases h
  · split at h
    · cases h
    · simp only [bind, Except.bind] at h
      cases hm : D.mapM (lemma1Factor pop (world ch) pa topo) with
      | error err => rw [hm] at h; cases h
      | ok fs =>
        rw [hm] at h
        simp only [pure, Except.pure, Except.ok.injEq] at h
        subst h
        have hall := mapM_ok_forall₂ _ _ _ hm
        have hfs : ∀ f ∈ fs, IsQExpr f ∧ PlainCh f := by
          intro f hf
          obtain ⟨v, _, hvf⟩ := forall₂_exists_left hall f hf
          obtain ⟨_, hp, hpc⟩ := lemma1Factor_has hch hvf
          exact ⟨Or.inr hp, hpc⟩
        refine ⟨?_, plainCh_productSafe hfs⟩
        intro n hn
        obtain ⟨f, hf, hnf⟩ := forall₂_exists_right' hall n hn
        exact productSafe_sub (fun f hf => (hfs f hf).1) f hf _ (lemma1Factor_has hch hnf).1

/-! ### Lemma 4 -/

theorem lowIndex_sub {q e : Expr} {v : Name} {topo : List Name} (h : lowIndex (some v) q topo = .ok e) :
    ∀ x ∈ Expr.iterVars q, x ∈ Expr.iterVars e := by
  simp only [lowIndex] at h
  split at h
  · cases h
  · cases hj : indexOf topo v with
    | error err => rw [hj] at h; simp [bind, Except.bind] at h
    | ok j =>
      rw [hj] at h
      exact sumSafe_sub h

theorem lemma4One_low {q e : Expr} {v : Name} {topo : List Name} (hq : isFracProdSum q = true)
    (h : lemma4One q topo v = .ok e) :
    isFracProdSum e = true ∧ ∀ x ∈ Expr.iterVars q, x ∈ Expr.iterVars e := by
  unfold lemma4One at h
  cases hi : indexOf topo v with
  | error err => rw [hi] at h; simp [bind, Except.bind] at h
  | ok i =>
    rw [hi] at h
    simp only [bind, Except.bind] at h
    unfold lemma4Factor at h
    cases hc : lowIndex (some v) q topo with
    | error err => rw [hc] at h; simp [bind, Except.bind] at h
    | ok cur =>
      rw [hc] at h
      simp only [bind, Except.bind] at h
      split at h
      · simp only [pure, Except.pure] at h; cases h
        exact ⟨lowIndex_some_fps hq hc, lowIndex_sub hc⟩
      · split at h
        · cases h
        · rename_i u _
          cases hp : lowIndex (some u) q topo with
          | error err => rw [hp] at h; simp at h
          | ok prev =>
            rw [hp] at h
            simp only at h
            unfold mkFraction at h
            split at h
            · cases h
            · cases h
              refine ⟨rfl, fun x hx => ?_⟩
              rw [iterVars_frac', List.mem_append]
              exact Or.inl (lowIndex_sub hc x hx)

theorem lemma4_low {q e : Expr} {D topo : List Name} (hD : D ≠ []) (hq : isFracProdSum q = true)
    (h : lemma4 D q topo = .ok e) : PlainCh e ∧ ∀ x ∈ Expr.iterVars q, x ∈ Expr.iterVars e := by
  unfold lemma4 at h
  cases hm : D.mapM (lemma4One q topo) with
  | error err => rw [hm] at h; simp [bind, Except.bind] at h
  | ok fs =>
    rw [hm] at h
    simp only [bind, Except.bind, pure, Except.pure] at h
    cases h
    have hall := mapM_ok_forall₂ _ _ _ hm
    have hfs : ∀ f ∈ fs, isFracProdSum f = true ∧ ∀ x ∈ Expr.iterVars q, x ∈ Expr.iterVars f := by
      intro f hf
      obtain ⟨v, _, hvf⟩ := forall₂_exists_left hall f hf
      exact lemma4One_low hq hvf
    refine ⟨plainCh_productSafe (fun f hf => ⟨Or.inl (hfs f hf).1, plainCh_of_fps (hfs f hf).1⟩), ?_⟩
    obtain ⟨v0, hv0⟩ := List.exists_mem_of_ne_nil D hD
    obtain ⟨f0, hf0, _⟩ := forall₂_exists_right' hall v0 hv0
    intro x hx
    exact productSafe_sub (fun f hf => Or.inl (hfs f hf).1) f0 hf0 x ((hfs f0 hf0).2 x hx)

/-! ### compute_c_factor, Lemma 3 -/

theorem computeCFactor_low {q e : Expr} {D H topo : List Name} (hqq : IsQExpr q) (hpc : PlainCh q)
    (hfps : isFracProdSum q = true → D ≠ [] ∧ HasPlain D q)
    (h : computeCFactor D H q topo = .ok e) : IsQExpr e ∧ HasPlain D e ∧ PlainCh e := by
  unfold computeCFactor at h
  simp only at h
  split at h
  · rename_i hf
    obtain ⟨hD, hhas⟩ := hfps hf
    obtain ⟨hp, hsub⟩ := lemma4_low hD hf h
    exact ⟨lemma4_qexpr hD hf h, fun n hn => hsub _ (hhas n hn), hp⟩
  · split at h
    · cases h
    · rename_i hf hp
      cases q with
      | prob pop ch pa =>
        obtain ⟨hhas, hpl⟩ := lemma1_has (by simpa [PlainCh] using hpc) h
        exact ⟨lemma1_qexpr h, hhas, hpl⟩
      | _ => simp [isProb] at hp

theorem ancestralExpr_low {q e : Expr} {A T oA topo : List Name} (hqq : IsQExpr q) (hpc : PlainCh q)
    (hT : HasPlain T q) (hAT : ∀ a ∈ A, a ∈ T) (hoA : ∀ a ∈ A, a ∈ oA) (hne : oA ≠ [])
    (h : ancestralExpr q A T oA topo = .ok e) : IsQExpr e ∧ HasPlain A e ∧ PlainCh e := by
  unfold ancestralExpr at h
  split at h
  · rename_i hf
    unfold ancestralQ at h
    exact ⟨sumSafe_qexpr hqq h, fun n hn => sumSafe_sub h _ (hT n (hAT n hn)), plainCh_of_fps (sumSafe_fps hf h)⟩
  · cases q with
    | prob pop ch pa =>
      have hch : ∀ x ∈ ch, x = Var.plain x.name := by simpa [PlainCh] using hpc
      simp only at h
      have hq' : IsQExpr e := by
        obtain ⟨e', he', hp⟩ := ancestralProb_ok pop ch pa oA hne
        rw [he'] at h; cases h
        exact Or.inr hp
      refine ⟨hq', ?_⟩
      unfold ancestralProb at h
      cases hm : oA.map (inWorld (world ch)) with
      | nil => rw [hm] at h; cases h
      | cons a as =>
        rw [hm] at h
        simp only [TianDsl.Dist.ofJoint, TianDsl.Dist.check, bind, Except.bind, TianDsl.Dist.given] at h
        split at h
        · cases h
        · rename_i d1 hd1
          split at hd1
          · cases hd1
          · cases hd1
            simp only at h
            split at h
            · cases h
            · rename_i d2 hd2
              split at hd2
              · cases hd2
              · cases hd2
                obtain ⟨c', p', rfl, hc'⟩ := mkProb_inv h
                simp only at hc'
                have hmem : ∀ x, x ∈ c' ↔ ∃ n ∈ oA, x = Var.plain n := by
                  intro x
                  rw [hc' x, TianDen.mem_upgradeOrdering, ← hm, List.mem_map]
                  constructor
                  · rintro ⟨n, hn, rfl⟩; exact ⟨n, hn, inWorld_plain ch hch n⟩
                  · rintro ⟨n, hn, rfl⟩; exact ⟨n, hn, inWorld_plain ch hch n⟩
                constructor
                · intro n hn
                  exact plain_mem_prob ((hmem _).2 ⟨n, hoA n hn, rfl⟩)
                · intro x hx
                  obtain ⟨n, _, rfl⟩ := (hmem x).1 hx
                  rfl
    | _ => cases h

/-! ### IDENTIFY -/

theorem identifyAux_low (G : MG Name) (topo C : List Name) :
    ∀ (fuel : Nat) (T : List Name) (q r : Expr), IsQExpr q → PlainCh q → HasPlain T q →
      identifyAux G topo C fuel T q = .ok (some r) → HasPlain C r := by
  intro fuel
  induction fuel with
  | zero => intro T q r _ _ _ h; simp [identifyAux] at h
  | succ fuel ih =>
    intro T q r hqq hpc hT h
    simp only [identifyAux] at h
    split at h
    · cases h
    rename_i hCT
    split at h
    · cases h
    rename_i hTt
    split at h
    · cases h
    split at h
    · cases h
    simp only [bind, Except.bind] at h
    cases hA : (G.subgraph T).ancestorsInclusive C with
    | error err => rw [hA] at h; cases h
    | ok A =>
      rw [hA] at h
      simp only at h
      have hCT' : ∀ c ∈ C, c ∈ T := TianGraph.subset'_iff.mp (by simpa using hCT)
      have hTt' : ∀ t ∈ T, t ∈ topo := TianGraph.subset'_iff.mp (by simpa using hTt)
      obtain ⟨_, hAT, _⟩ := anc_facts G C T A hCT' hA
      split at h
      · cases hr : ancestralQ A T q topo with
        | error err => rw [hr] at h; cases h
        | ok r' =>
          rw [hr] at h
          simp only [pure, Except.pure, Except.ok.injEq, Option.some.injEq] at h
          subst h
          unfold ancestralQ at hr
          exact fun n hn => sumSafe_sub hr _ (hT n (hCT' n hn))
      · split at h
        · simp [pure, Except.pure] at h
        · split at h
          · split at h
            · cases h
            · rename_i T' hfind
              have hT'mem := List.mem_of_find?_eq_some hfind
              have hCT'' : ∀ c ∈ C, c ∈ T' := TianGraph.subset'_iff.mp (by simpa using List.find?_some hfind)
              obtain ⟨_, hT'A, _, hT'ne⟩ := district_facts G _ T' hT'mem
              have hoA : ∀ a ∈ A, a ∈ topo.filter (· ∈ A) := by
                intro a ha
                exact List.mem_filter.2 ⟨hTt' a (hAT a ha), by simpa using ha⟩
              have hoAne : topo.filter (· ∈ A) ≠ [] := by
                obtain ⟨t, ht⟩ := List.exists_mem_of_ne_nil T' hT'ne
                intro h0
                have := hT'A t ht
                rw [h0] at this; cases this
              have hT'inA : ∀ t ∈ T', t ∈ A := by
                intro t ht
                have := (List.mem_filter.1 (hT'A t ht)).2
                simpa using this
              cases hqA : ancestralExpr q A T (topo.filter (· ∈ A)) topo with
              | error err => rw [hqA] at h; cases h
              | ok qA =>
                rw [hqA] at h
                simp only at h
                obtain ⟨hqqA, hhasA, hpcA⟩ := ancestralExpr_low hqq hpc hT hAT hoA hoAne hqA
                cases hqT : computeCFactor T' A qA topo with
                | error err => rw [hqT] at h; cases h
                | ok qT' =>
                  rw [hqT] at h
                  simp only at h
                  obtain ⟨h1, h2, h3⟩ := computeCFactor_low hqqA hpcA
                    (fun _ => ⟨hT'ne, fun n hn => hhasA n (hT'inA n hn)⟩) hqT
                  exact fun n hn => ih T' qT' r h1 h3 h2 h n hn
          · cases h

/-- **IDENTIFY's answer for `C` mentions every vertex of `C`**, when `Q[T]` does and probabilities are over plain
variables -/
theorem identify_low (G : MG Name) (C T : List Name) (q r : Expr) (topo : List Name) (hqq : IsQExpr q)
    (hpc : PlainCh q) (hT : HasPlain T q) (h : identify G C T q topo = .ok (some r)) : HasPlain C r :=
  identifyAux_low G topo C _ T q r hqq hpc hT h

end TianLow

namespace CtfTr
open Ctf Relation Y0.MG TianVoc TianLow
open Trso (isTnode tnode targetPop nsort mem_nsort)

/-- the domains' distributions are distributions over plain variables (the children of every `PopulationProbability`
are plain `Variable`s, as in `PP[π](V)`) -/
def PopsPlain (ds : List Domain) : Prop := ∀ d ∈ ds, PlainCh d.pop

/-! ### Algorithm 4 -/

theorem sigmaTRDomain_low (district : List Name) (d : Domain) (r : Expr) (hpc : PlainCh d.pop)
    (hpop : Tian.isProb d.pop = true) (h : sigmaTRDomain district d = .ok (some r)) :
    ∀ v ∈ district, Var.plain v ∈ Expr.iterVars r := by
  unfold sigmaTRDomain at h
  simp only [bind, Except.bind] at h
  cases hdsl : district.mapM d.graph.getDistrict with
  | error e => rw [hdsl] at h; cases h
  | ok dsl =>
    rw [hdsl] at h
    simp only at h
    split at h
    · cases h
    · cases hq : Tian.computeCFactor (nsort dsl.flatten) (regular d.graph) d.pop d.topo with
      | error e => rw [hq] at h; cases h
      | ok q =>
        rw [hq] at h
        simp only at h
        obtain ⟨h1, h2, h3⟩ := computeCFactor_low (Or.inr hpop) hpc
          (fun hf => by cases hp : d.pop <;> simp_all [Tian.isProb, Tian.isFracProdSum]) hq
        have := identify_low _ _ _ _ _ _ h1 h3 h2 h
        intro v hv
        exact this v ((mem_nsort _ _).2 hv)

theorem sigmaTR_low (district : List Name) : ∀ (ds : List Domain) (r : Expr),
    (∀ d ∈ ds, PlainCh d.pop ∧ Tian.isProb d.pop = true) →
    sigmaTR district ds = .ok (some r) → ∀ v ∈ district, Var.plain v ∈ Expr.iterVars r
  | [], r, _, h => by simp [sigmaTR] at h
  | d :: ds, r, hall, h => by
    have hrec : sigmaTR district ds = .ok (some r) → ∀ v ∈ district, Var.plain v ∈ Expr.iterVars r :=
      sigmaTR_low district ds r (fun d' hd' => hall d' (List.mem_cons_of_mem _ hd'))
    unfold sigmaTR at h
    split at h
    · split at h
      · cases h
      · rename_i e he
        cases h
        obtain ⟨h1, h2⟩ := hall d List.mem_cons_self
        exact sigmaTRDomain_low district d r h1 h2 he
      · exact hrec h
    · exact hrec h

/-- every ctf-factor of an answered transport loop has an expression that mentions all its vertices -/
theorem transportFactors_low (ds : List Domain) (hds : ∀ d ∈ ds, PlainCh d.pop ∧ Tian.isProb d.pop = true) :
    ∀ (fs : List Event) (qs : List Expr), transportFactors ds fs = .ok (some qs) →
      ∀ f ∈ fs, ∃ q ∈ qs, ∀ v ∈ dedup' (f.map (·.1.name)), Var.plain v ∈ Expr.iterVars q
  | [], qs, _ => by intro f hf; cases hf
  | f0 :: fs, qs, h => by
    simp only [transportFactors, bind, Except.bind] at h
    split at h
    · cases h
    · rename_i u hvd
      split at h
      · cases h
      · rename_i r hr
        cases r with
        | none => simp [pure, Except.pure] at h
        | some q0 =>
          simp only [] at h
          split at h
          · cases h
          · rename_i r' hr'
            cases r' with
            | none => simp [pure, Except.pure] at h
            | some qs' =>
              simp [pure, Except.pure] at h; subst h
              intro f hf
              rcases List.mem_cons.1 hf with rfl | hf
              · exact ⟨q0, List.mem_cons_self, sigmaTR_low _ ds q0 hds hr⟩
              · obtain ⟨q, hq, hqv⟩ := transportFactors_low ds hds fs qs' hr' f hf
                exact ⟨q, List.mem_cons_of_mem _ hq, hqv⟩

theorem trProductSafe_sub (qs : List Expr) (hq : ∀ q ∈ qs, TianTotal.IsQExpr q) :
    ∀ q ∈ qs, ∀ v ∈ Expr.iterVars q, v ∈ Expr.iterVars (TrDsl.productSafe qs) := by
  have hfilter : qs.filter (fun e => !TrDsl.isOne e) = qs := by
    apply List.filter_eq_self.mpr
    intro f hf
    simp [(trIsZero_of_qexpr (hq f hf)).2]
  have hnz : qs.any TrDsl.isZero = false := by
    apply Bool.eq_false_iff.mpr
    intro hany
    rcases List.any_eq_true.mp hany with ⟨f, hf, hz⟩
    rw [(trIsZero_of_qexpr (hq f hf)).1] at hz
    cases hz
  unfold TrDsl.productSafe
  simp only [hfilter, hnz, Bool.false_eq_true, ↓reduceIte]
  match qs, hq with
  | [], _ => intro q hq; cases hq
  | [f], _ =>
    intro q hq v hv
    simp only [List.mem_singleton] at hq
    subst hq; exact hv
  | f :: g :: rest, _ =>
    intro q hq v hv
    rw [iterVars_prod, mem_iterVarsList]
    exact ⟨q, (ssort_perm _ _).mem_iff.2 hq, hv⟩

/-! ### line 2 of Algorithm 2 covers the vertices of the event -/

theorem line2_cover (g : MG Name) (hg : g.WF) (ev anc : Event) (factors : List Event)
    (h : line2 g ev = .ok (anc, factors)) : ∀ p ∈ ev, ∃ f ∈ factors, ∃ x ∈ f, x.1.name = p.1.name := by
  rw [line2_eq] at h
  cases hD : ev.foldlM (ancStep g) [] with
  | error e => rw [hD] at h; cases h
  | ok D =>
  rw [hD] at h
  simp only [Except.bind] at h
  cases hcv : (withValues ev D).mapM (convStep g) with
  | error e => rw [hcv] at h; cases h
  | ok cv =>
  rw [hcv] at h
  simp only at h
  cases hfac : ctfFactorsValues (g.subgraph (dedup' (D.map (·.name)))) (dedup' cv) with
  | error e => rw [hfac] at h; cases h
  | ok factors' =>
  rw [hfac] at h
  simp only [Except.ok.injEq, Prod.mk.injEq] at h
  obtain ⟨_, hfeq⟩ := h
  subst hfeq
  obtain ⟨_, hgrp⟩ := ctfFactorsValues_unfold _ _ _ hfac
  obtain ⟨hcover, _⟩ := groupByDistrict_spec _ _ _ _ hgrp
  intro p hp
  obtain ⟨w, hw, hwn⟩ := ancestralSet_selfName g hg ev D hD p hp
  obtain ⟨pw, hpw, hpwK⟩ := withValues_cover ev D w hw
  obtain ⟨q, hq⟩ := mapM_ok_each _ _ _ hcv pw hpw
  have hqcv : q ∈ cv := (mapM_ok_mem _ _ _ hcv q).2 ⟨pw, hpw, hq⟩
  obtain ⟨hconv, _⟩ := convStep_ok g pw q hq
  obtain ⟨f, hf, hqf⟩ := (hcover q).2 (mem_dedup'.2 (mem_dedup'.2 hqcv))
  refine ⟨f, hf, q, hqf, ?_⟩
  rw [(convertOne_spec g pw.1 q.1 hconv).1, hpwK, hwn]

/-! ### `QCovers` for distributions over plain variables -/

/-- **the expression of Algorithm 2 for `D*` mentions the vertex of every outcome that was found**, when the domains'
distributions are over plain variables -/
theorem qCovers_of_popsPlain (target : MG Name) (ds : List Domain) (o c : Event)
    (hv : validateC target ds o c = .ok ()) (hwf : target.WF) (hdsWF : ∀ d ∈ ds, d.graph.WF)
    (hbiT : ∀ d ∈ ds, ∀ a b, d.graph.BiEdge a b → isTnode a = false) (hplain : EventVarsPlain (o ++ c))
    (hpp : PopsPlain ds) : QCovers target ds o c := by
  intro dstar dNames q simplified h2 hu p hp _
  obtain ⟨hstrict, _, _, hnodes, _, hac, _⟩ := validateC_facts target ds o c hv
  have hloop : ∀ v, ¬ target.DiEdge v v := fun v hvv =>
    ((isAcyclic_iff target hwf).1 hac) v (TransGen.single hvv)
  have hok : ∀ p ∈ o ++ c, VarOK target p.1 := by
    intro p hp
    refine ⟨hnodes p ?_, Or.inr ⟨(hplain p hp).2.1, (hplain p hp).1⟩⟩
    rcases List.mem_append.1 hp with h | h
    · exact List.mem_append_right _ h
    · exact List.mem_append_left _ h
  obtain ⟨lk, D, dstar', dNames', _, hrel, hfound, _, h2', hDn, hfacts⟩ := line2C_ok target hwf o c
    (fun p hp => hok p (List.mem_append_left _ hp)) (fun p hp => hok p (List.mem_append_right _ hp))
    (fun p hp => (hplain p (List.mem_append_left _ hp)).1)
  rw [h2] at h2'
  simp only [Except.ok.injEq, Prod.mk.injEq] at h2'
  obtain ⟨rfl, rfl⟩ := h2'
  obtain ⟨p', hp', hpn', hpv'⟩ := hrel.of_out p hp
  obtain ⟨r, hr, hrn', hrv'⟩ := hfacts.found p' hp' (hfound p' hp')
  have hrn : r.1.name = p.1.name := by rw [hrn', hpn']
  have hrv : r.2 = p.2 := by rw [hrv', hpv']
  obtain ⟨i, hi⟩ := Option.isSome_iff_exists.1 (hstrict p (List.mem_append_left _ hp))
  -- the pieces of the answer
  obtain ⟨hvU, hsimp, anc, factors, qs, hl2, htf, summed, _, hq⟩ := ctfTRu_answer_inv target ds dstar simplified q hu
  obtain ⟨hne, _, _, hseq, hvd⟩ := validateU_facts target ds dstar hvU
  have hffD : ∀ r ∈ dstar, FFVar target r.1 := by
    intro r hr
    obtain ⟨p, _, hc, _⟩ := hfacts.origin r hr
    exact convertOne_ffvar target p.1 r.1 hc
  have hrefl : ∀ r ∈ dstar, selfIntervened r.1 = false := by
    intro r hr
    cases hsi : selfIntervened r.1 with
    | false => rfl
    | true =>
      exfalso
      unfold selfIntervened at hsi
      obtain ⟨i, hi, hin⟩ := List.any_eq_true.1 hsi
      have : r.1.name ∈ subNames r.1 := List.mem_map.2 ⟨i, hi, by simpa using hin⟩
      exact hloop _ (((hffD r hr).exact r.1.name).1 this)
  -- the outcome survives SIMPLIFY
  obtain ⟨_, _, hkeep⟩ := simplify_sub target dstar simplified hsimp hrefl
  obtain ⟨k, hk, hks⟩ := hkeep r.1 i (by
    have : r = (r.1, some i) := by rw [← hi, ← hrv]
    rw [← this]; exact hr)
  have hkn : k.name = p.1.name := by rw [(minimize_wf target r.1 k hk).1, hrn]
  -- its vertex is in a ctf-factor, whose expression mentions it
  obtain ⟨f, hf, x, hxf, hxn⟩ := line2_cover target hwf simplified anc factors hl2 (k, some i) hks
  have hdsOK : ∀ d ∈ ds, PlainCh d.pop ∧ Tian.isProb d.pop = true := by
    intro d hd
    refine ⟨hpp d hd, ?_⟩
    obtain ⟨_, hpop⟩ := validateDomain_facts target d (hvd d hd)
    obtain ⟨v, hv⟩ := List.exists_mem_of_ne_nil _ hne
    have hvr : v ∈ regular d.graph := (TianGraph.seteq'_iff.1 (hseq d hd) v).1 hv
    simp only [List.all_eq_true] at hpop
    exact isProb_of_exprVarNames d.pop v (hpop v hvr)
  obtain ⟨qq, hqq, hqqv⟩ := transportFactors_low ds hdsOK factors qs htf f hf
  have hin : Var.plain p.1.name ∈ Expr.iterVars qq := by
    apply hqqv
    rw [mem_dedup', List.mem_map]
    exact ⟨x, hxf, by rw [hxn, hkn]⟩
  -- up through `Product.safe` and `Sum.safe`
  have hgood : ∀ q ∈ qs, TianTotal.IsQExpr q := by
    have hdsG : ∀ d ∈ ds, d.graph.WF ∧ (∀ a b, d.graph.BiEdge a b → isTnode a = false) ∧ Tian.isProb d.pop = true := by
      intro d hd
      exact ⟨hdsWF d hd, hbiT d hd, (hdsOK d hd).2⟩
    intro q' hq'
    obtain ⟨d, _, hg⟩ := transportFactors_good ds hdsG factors qs htf q' hq'
    exact hg.1
  rw [hq]
  exact iterVars_sub_sumSafe _ _ (trProductSafe_facts qs hgood).1 _ (trProductSafe_sub qs hgood qq hqq _ hin)

/-! ### the composition -/

/-- **no class hypothesis is needed for distributions over plain variables**: Algorithm 3 never raises after validation
(after `fix:` f335599 every outcome is found in the ancestral components under its lookup key) -/
theorem ctfTR_total_plain (target : MG Name) (ds : List Domain) (o c : Event)
    (hv : validateC target ds o c = .ok ()) (hwf : target.WF) (hds : ∀ d ∈ ds, d.graph.WF)
    (hdom : DomainsAgree target ds) (hplain : EventVarsPlain (o ++ c)) (hpp : PopsPlain ds) :
    ∀ err, ctfTR target ds o c ≠ .error err :=
  ctfTR_total_of_cover target ds o c hv hwf hds hdom hplain
    (qCovers_of_popsPlain target ds o c hv hwf hds (fun d hd => (hdom d hd).2) hplain hpp)
    (popsCover_of_validateC target ds o c hv)
    (qGood_holds target ds o c hv hwf hds (fun d hd => (hdom d hd).2) hplain)

/-- a decidable form of `PopsPlain` (for concrete inputs) -/
def popsPlainCheck (ds : List Domain) : Bool :=
  ds.all fun d => match d.pop with
    | .prob _ ch _ => ch.all fun x => decide (x = Var.plain x.name)
    | _ => true

theorem popsPlain_of_check (ds : List Domain) (h : popsPlainCheck ds = true) : PopsPlain ds := by
  intro d hd
  have := List.all_eq_true.1 h d hd
  cases hp : d.pop with
  | prob p ch pa =>
    rw [hp] at this
    simp only [List.all_eq_true, decide_eq_true_eq] at this
    exact this
  | _ => trivial

end CtfTr
end Y0
