/-
  Y0.Lemmas.CtfTrPops — the population vocabulary of Algorithm 4's output (C09).

    AllPop p e                every probability leaf of `e` carries the population tag `p` (and `e` has no Q-factor)
    den_congr_allPop          the denotation of such an expression depends on the environment only through the
                              cardinalities and the distribution of population `p`
    …_allPop                  closure of `AllPop p` under every constructor and routine of the Tian model
                              (mkProb, mkFraction, sumSafe, productSafe, lowIndex, Lemma 4, Lemma 1, computeCFactor,
                              Lemma 3, identifyAux, identify)
    sigmaTRDomain_allPop      one domain of Algorithm 4: the output speaks about the population of `d.pop` only
    sigmaTR_allPop            the loop: the output speaks about the population of the usable domain it came from
-/
import Y0.Model.CtfTr
import Y0.Spec.Sem
import Y0.Lemmas.SemBasic
import Y0.Lemmas.Prob
import Y0.Lemmas.TianExpr

namespace Y0
namespace CtfTr
open Tian

/-- every probability leaf of the expression carries the population tag `p`; no Q-factor occurs -/
inductive AllPop (p : Option Var) : Expr → Prop
  | prob (c pa : List Var) : AllPop p (.prob p c pa)
  | prod (fs : List Expr) : (∀ f ∈ fs, AllPop p f) → AllPop p (.prod fs)
  | sum (e : Expr) (r : List Var) : AllPop p e → AllPop p (.sum e r)
  | frac (n d : Expr) : AllPop p n → AllPop p d → AllPop p (.frac n d)
  | one : AllPop p .one
  | zero : AllPop p .zero

theorem allPop_prob_inv {p pop : Option Var} {c pa : List Var} (h : AllPop p (.prob pop c pa)) : pop = p := by
  cases h; rfl

theorem allPop_prod_inv {p : Option Var} {fs : List Expr} (h : AllPop p (.prod fs)) : ∀ f ∈ fs, AllPop p f := by
  cases h with
  | prod _ h => exact h

theorem allPop_sum_inv {p : Option Var} {e : Expr} {r : List Var} (h : AllPop p (.sum e r)) : AllPop p e := by
  cases h with
  | sum _ _ h => exact h

theorem allPop_frac_inv {p : Option Var} {n d : Expr} (h : AllPop p (.frac n d)) : AllPop p n ∧ AllPop p d := by
  cases h with
  | frac _ _ h1 h2 => exact ⟨h1, h2⟩

theorem allPop_q_inv {p : Option Var} {dom cod : List Var} (h : AllPop p (.q dom cod)) : False := by
  cases h

example : AllPop (some (Var.plain 7))
    (.frac (.sum (.prob (some (Var.plain 7)) [Var.plain 1, Var.plain 2] []) [Var.plain 2])
      (.prod [.prob (some (Var.plain 7)) [Var.plain 1] [Var.plain 2], .one])) :=
  .frac _ _ (.sum _ _ (.prob _ _)) (.prod _ (by
    intro f hf
    simp only [List.mem_cons, List.not_mem_nil, or_false] at hf
    rcases hf with rfl | rfl
    · exact .prob _ _
    · exact .one))

/-! ### the denotation reads the environment only at population `p` -/

mutual
/-- **an expression over population `p` denotes the same number in two environments that agree on the
cardinalities and on the distribution of population `p`** -/
theorem den_congr_allPop (env₁ env₂ : Env) (p : Option Var) (hcard : env₁.card = env₂.card)
    (hpr : env₁.pr (p.map (·.name)) = env₂.pr (p.map (·.name))) (σ' : Val) :
    ∀ e, AllPop p e → ∀ σ, den env₁ σ' e σ = den env₂ σ' e σ
  | .prob pop c pa, h, σ => by
    have hpop : pop = p := allPop_prob_inv h
    subst hpop
    simp only [den, hpr]
  | .prod fs, h, σ => by
    simp only [den]
    exact denProd_congr_allPop env₁ env₂ p hcard hpr σ' fs (allPop_prod_inv h) σ
  | .sum e r, h, σ => by
    simp only [den, hcard]
    exact sumVars_congr _ _ (fun τ => den_congr_allPop env₁ env₂ p hcard hpr σ' e (allPop_sum_inv h) τ) σ
  | .frac n d, h, σ => by
    simp only [den]
    rw [den_congr_allPop env₁ env₂ p hcard hpr σ' n (allPop_frac_inv h).1 σ,
      den_congr_allPop env₁ env₂ p hcard hpr σ' d (allPop_frac_inv h).2 σ]
  | .one, _, σ => by simp [den]
  | .zero, _, σ => by simp [den]
  | .q _ _, h, _ => (allPop_q_inv h).elim
theorem denProd_congr_allPop (env₁ env₂ : Env) (p : Option Var) (hcard : env₁.card = env₂.card)
    (hpr : env₁.pr (p.map (·.name)) = env₂.pr (p.map (·.name))) (σ' : Val) :
    ∀ fs : List Expr, (∀ f ∈ fs, AllPop p f) → ∀ σ, denProd env₁ σ' fs σ = denProd env₂ σ' fs σ
  | [], _, σ => by simp [denProd]
  | e :: es, h, σ => by
    simp only [denProd]
    rw [den_congr_allPop env₁ env₂ p hcard hpr σ' e (h e List.mem_cons_self) σ,
      denProd_congr_allPop env₁ env₂ p hcard hpr σ' es (fun f hf => h f (List.mem_cons_of_mem _ hf)) σ]
end

/-! ### the DSL constructors -/

theorem mkProb_allPop {pop : Option Var} {d : TianDsl.Dist} {e : Expr} (h : TianDsl.mkProb pop d = .ok e) :
    AllPop pop e := by
  cases pop with
  | none =>
    simp only [TianDsl.mkProb] at h
    obtain ⟨d', _, h⟩ := bind_ok h
    rw [← pure_ok h]
    exact .prob _ _
  | some p =>
    simp only [TianDsl.mkProb] at h
    rw [← pure_ok h]
    exact .prob _ _

theorem mkFraction_allPop {p : Option Var} {n d e : Expr} (hn : AllPop p n) (hd : AllPop p d)
    (h : TianDsl.mkFraction n d = .ok e) : AllPop p e := by
  unfold TianDsl.mkFraction at h
  split at h
  · cases h
  · cases h; exact .frac _ _ hn hd

theorem sumSafe_allPop {p : Option Var} {q e : Expr} {rs : List Var} (hq : AllPop p q)
    (h : TianDsl.sumSafe q rs = .ok e) : AllPop p e := by
  unfold TianDsl.sumSafe at h
  simp only at h
  split at h
  · cases h; exact hq
  · split at h
    · cases h; exact hq
    · split at h
      · cases h
      · cases h; exact .sum _ _ hq

theorem productSafe_allPop {p : Option Var} {fs : List Expr} (h : ∀ f ∈ fs, AllPop p f) :
    AllPop p (TianDsl.productSafe fs) := by
  have hfil : ∀ f ∈ fs.filter (fun e => !TianDsl.isOne e), AllPop p f :=
    fun f hf => h f (List.mem_filter.mp hf).1
  unfold TianDsl.productSafe
  simp only
  split
  · exact .zero
  · split
    · exact .one
    · rename_i e he
      exact hfil e (by rw [he]; simp)
    · refine .prod _ (fun f hf => hfil f ?_)
      exact (TianDen.sortStable_perm _ _).mem_iff.mp hf

/-! ### Equation 72, Lemma 4 -/

theorem lowIndex_allPop {p : Option Var} {vertex : Option Name} {q e : Expr} {topo : List Name} (hq : AllPop p q)
    (h : lowIndex vertex q topo = .ok e) : AllPop p e := by
  cases vertex with
  | none => simp only [lowIndex] at h; cases h; exact .one
  | some v =>
    simp only [lowIndex] at h
    split at h
    · cases h
    · obtain ⟨i, _, h⟩ := bind_ok h
      exact sumSafe_allPop hq h

theorem lemma4Factor_allPop {p : Option Var} {q e : Expr} {topo : List Name} {v : Name} {index : Nat}
    (hq : AllPop p q) (h : lemma4Factor q topo v index = .ok e) : AllPop p e := by
  unfold lemma4Factor at h
  obtain ⟨cur, hcur, h⟩ := bind_ok h
  have hc := lowIndex_allPop hq hcur
  split at h
  · rw [← pure_ok h]; exact hc
  · split at h
    · cases h
    · obtain ⟨prev, hprev, h⟩ := bind_ok h
      exact mkFraction_allPop hc (lowIndex_allPop hq hprev) h

theorem lemma4One_allPop {p : Option Var} {q e : Expr} {topo : List Name} {v : Name}
    (hq : AllPop p q) (h : lemma4One q topo v = .ok e) : AllPop p e := by
  unfold lemma4One at h
  obtain ⟨i, _, h⟩ := bind_ok h
  exact lemma4Factor_allPop hq h

theorem lemma4_allPop {p : Option Var} {district : List Name} {q e : Expr} {topo : List Name}
    (hq : AllPop p q) (h : lemma4 district q topo = .ok e) : AllPop p e := by
  unfold lemma4 at h
  obtain ⟨fs, hfs, h⟩ := bind_ok h
  rw [← pure_ok h]
  apply productSafe_allPop
  intro f hf
  obtain ⟨v, _, hvf⟩ := TianDen.forall₂_exists_left (TianDen.mapM_ok_forall₂ _ _ _ hfs) f hf
  exact lemma4One_allPop hq hvf

/-! ### Lemma 1 -/

theorem lemma1Factor_allPop {pop : Option Var} {w : List (Name × Var)} {parents : List Var} {topo : List Name}
    {v : Name} {e : Expr} (h : lemma1Factor pop w parents topo v = .ok e) : AllPop pop e := by
  unfold lemma1Factor at h
  obtain ⟨i, _, h⟩ := bind_ok h
  simp only at h
  split at h
  · exact mkProb_allPop h
  · obtain ⟨d, _, h⟩ := bind_ok h
    exact mkProb_allPop h

/-- Lemma 1 on `P_pop(children | parents)` builds probabilities of the same population -/
theorem lemma1_prob_allPop {pop : Option Var} {children parents : List Var} {district topo : List Name} {e : Expr}
    (h : lemma1 district (.prob pop children parents) topo = .ok e) : AllPop pop e := by
  unfold lemma1 at h
  split at h
  · cases h
  · split at h
    · cases h
    · simp only at h
      obtain ⟨fs, hfs, h⟩ := bind_ok h
      rw [← pure_ok h]
      apply productSafe_allPop
      intro f hf
      obtain ⟨v, _, hvf⟩ := TianDen.forall₂_exists_left (TianDen.mapM_ok_forall₂ _ _ _ hfs) f hf
      exact lemma1Factor_allPop hvf

theorem lemma1_allPop {p : Option Var} {district : List Name} {q e : Expr} {topo : List Name}
    (hq : AllPop p q) (h : lemma1 district q topo = .ok e) : AllPop p e := by
  cases q with
  | prob pop c pa =>
    have hpop : pop = p := allPop_prob_inv hq
    subst hpop
    exact lemma1_prob_allPop h
  | _ =>
    unfold lemma1 at h
    split at h
    · cases h
    · split at h
      · cases h
      · cases h

theorem computeCFactor_allPop {p : Option Var} {district H : List Name} {q e : Expr} {graphTopo : List Name}
    (hq : AllPop p q) (h : computeCFactor district H q graphTopo = .ok e) : AllPop p e := by
  unfold computeCFactor at h
  simp only at h
  split at h
  · exact lemma4_allPop hq h
  · split at h
    · cases h
    · exact lemma1_allPop hq h

/-! ### Lemma 3 and IDENTIFY -/

theorem ancestralQ_allPop {p : Option Var} {A H : List Name} {q e : Expr} {graphTopo : List Name}
    (hq : AllPop p q) (h : ancestralQ A H q graphTopo = .ok e) : AllPop p e := by
  unfold ancestralQ at h
  exact sumSafe_allPop hq h

/-- the marginal of `P_pop(children | parents)` on the ancestral set has the same population -/
theorem ancestralProb_allPop {pop : Option Var} {children parents : List Var} {orderedA : List Name} {e : Expr}
    (h : ancestralProb pop children parents orderedA = .ok e) : AllPop pop e := by
  unfold ancestralProb at h
  split at h
  · cases h
  · obtain ⟨d, _, h⟩ := bind_ok h
    obtain ⟨d2, _, h⟩ := bind_ok h
    exact mkProb_allPop h

theorem ancestralExpr_allPop {p : Option Var} {q e : Expr} {A T orderedA topo : List Name}
    (hq : AllPop p q) (h : ancestralExpr q A T orderedA topo = .ok e) : AllPop p e := by
  unfold ancestralExpr at h
  split at h
  · exact ancestralQ_allPop hq h
  · split at h
    · have hpop := allPop_prob_inv hq
      subst hpop
      exact ancestralProb_allPop h
    · cases h

theorem identifyAux_allPop {p : Option Var} (G : MG Name) (topo C : List Name) :
    ∀ (fuel : Nat) (T : List Name) (q e : Expr), AllPop p q →
      identifyAux G topo C fuel T q = .ok (some e) → AllPop p e := by
  intro fuel
  induction fuel with
  | zero => intro T q e _ h; simp [identifyAux] at h
  | succ fuel ih =>
    intro T q e hq h
    simp only [identifyAux] at h
    split at h
    · cases h
    · split at h
      · cases h
      · split at h
        · cases h
        · split at h
          · cases h
          · obtain ⟨A, _, h⟩ := bind_ok h
            split at h
            · obtain ⟨r, hr, h⟩ := bind_ok h
              have := pure_ok h
              cases this
              exact ancestralQ_allPop hq hr
            · split at h
              · have := pure_ok h
                cases this
              · split at h
                · split at h
                  · cases h
                  · rename_i T' _
                    obtain ⟨qA, hqA, h⟩ := bind_ok h
                    obtain ⟨qT', hqT', h⟩ := bind_ok h
                    exact ih T' qT' e
                      (computeCFactor_allPop (ancestralExpr_allPop hq hqA) hqT') h
                · cases h

theorem identify_allPop {p : Option Var} {G : MG Name} {C T : List Name} {q e : Expr} {topo : List Name}
    (hq : AllPop p q) (h : identify G C T q topo = .ok (some e)) : AllPop p e :=
  identifyAux_allPop G topo C _ T q e hq h

/-! ### Algorithm 4 -/

/-- **one domain of Algorithm 4 speaks about the population of the domain's distribution only** -/
theorem sigmaTRDomain_allPop (district : List Name) (d : Domain) (p : Option Var) (e : Expr)
    (hp : AllPop p d.pop) (h : sigmaTRDomain district d = .ok (some e)) : AllPop p e := by
  unfold sigmaTRDomain at h
  obtain ⟨ds, _, h⟩ := bind_ok h
  simp only at h
  split at h
  · obtain ⟨u, hu, _⟩ := bind_ok h
    cases hu
  · obtain ⟨q, hq, h⟩ := bind_ok h
    exact identify_allPop (computeCFactor_allPop hp hq) h

/-- the loop of Algorithm 4 returns what one usable domain returned (the induction of
`sigmaTR_uses_usable_domain`, Y0/Props/C09.lean, repeated here because that file imports this one) -/
theorem sigmaTR_some_of_domain (district : List Name) : ∀ (ds : List Domain) (e : Expr),
    sigmaTR district ds = .ok (some e) →
      ∃ d ∈ ds, domainUsable district d = true ∧ sigmaTRDomain district d = .ok (some e)
  | [], e, h => by simp [sigmaTR] at h
  | d :: ds, e, h => by
    unfold sigmaTR at h
    split at h
    · rename_i hu
      split at h
      · cases h
      · rename_i e' he; cases h; exact ⟨d, by simp, hu, he⟩
      · obtain ⟨d', hd', h1, h2⟩ := sigmaTR_some_of_domain district ds e h
        exact ⟨d', by simp [hd'], h1, h2⟩
    · obtain ⟨d', hd', h1, h2⟩ := sigmaTR_some_of_domain district ds e h
      exact ⟨d', by simp [hd'], h1, h2⟩

/-- **the loop of Algorithm 4**: the answer comes from a usable domain and speaks about the population of that
domain's distribution only -/
theorem sigmaTR_allPop (district : List Name) (ds : List Domain) (e : Expr)
    (h : sigmaTR district ds = .ok (some e)) :
    ∃ d ∈ ds, domainUsable district d = true ∧ sigmaTRDomain district d = .ok (some e) ∧
      ∀ p, AllPop p d.pop → AllPop p e := by
  obtain ⟨d, hd, hu, hs⟩ := sigmaTR_some_of_domain district ds e h
  exact ⟨d, hd, hu, hs, fun p hp => sigmaTRDomain_allPop district d p e hp hs⟩

/-- when every domain's distribution is over the same population `p`, so is the output of the loop -/
theorem sigmaTR_allPop_of_forall (district : List Name) (ds : List Domain) (p : Option Var) (e : Expr)
    (hp : ∀ d ∈ ds, AllPop p d.pop) (h : sigmaTR district ds = .ok (some e)) : AllPop p e := by
  obtain ⟨d, hd, _, _, hall⟩ := sigmaTR_allPop district ds e h
  exact hall p (hp d hd)

/-! ### the distributions of the harness: `P^{π_t}(V)` -/

theorem allPop_plainPop (t : Name) (cs : List Var) : AllPop (some (Var.plain t)) (.prob (some (Var.plain t)) cs []) :=
  .prob _ _

/-- a domain whose distribution is `P^{π_t}(cs)`: the output of Algorithm 4 is over population `π_t` -/
theorem sigmaTRDomain_allPop_plain (district : List Name) (d : Domain) (t : Name) (cs : List Var) (e : Expr)
    (hd : d.pop = .prob (some (Var.plain t)) cs []) (h : sigmaTRDomain district d = .ok (some e)) :
    AllPop (some (Var.plain t)) e :=
  sigmaTRDomain_allPop district d _ e (hd ▸ allPop_plainPop t cs) h

/-- … hence its denotation depends on the environment only through the cardinalities and `pr (some t)` -/
theorem sigmaTRDomain_den_congr_plain (district : List Name) (d : Domain) (t : Name) (cs : List Var) (e : Expr)
    (hd : d.pop = .prob (some (Var.plain t)) cs []) (h : sigmaTRDomain district d = .ok (some e))
    (env₁ env₂ : Env) (hcard : env₁.card = env₂.card) (hpr : env₁.pr (some t) = env₂.pr (some t)) (σ' σ : Val) :
    den env₁ σ' e σ = den env₂ σ' e σ :=
  den_congr_allPop env₁ env₂ (some (Var.plain t)) hcard hpr σ' e
    (sigmaTRDomain_allPop_plain district d t cs e hd h) σ

/-- a concrete instance of the hypotheses: the graph `1 → 2 → 3`, `1 ↔ 3` with distribution `P^{π_9}(1, 2, 3)`; the
district `{3}` is transported as `Σ_1 P^{π_9}(1) P^{π_9}(3 | 1, 2)` -/
def exampleDomain : Domain where
  graph := ⟨[1, 2, 3], [(1, 2), (2, 3)], [(1, 3)]⟩
  topo := [1, 2, 3]
  policy := []
  pop := .prob (some (Var.plain 9)) [Var.plain 1, Var.plain 2, Var.plain 3] []

example : sigmaTRDomain [3] exampleDomain = .ok (some (.sum (.prod
    [.prob (some (Var.plain 9)) [Var.plain 1] [],
     .prob (some (Var.plain 9)) [Var.plain 3] [Var.plain 1, Var.plain 2]]) [Var.plain 1])) := rfl

example : ∃ e, sigmaTRDomain [3] exampleDomain = .ok (some e) ∧ AllPop (some (Var.plain 9)) e :=
  ⟨_, rfl, sigmaTRDomain_allPop_plain [3] exampleDomain 9 _ _ rfl rfl⟩

end CtfTr
end Y0
