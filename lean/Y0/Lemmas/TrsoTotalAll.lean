/-
  Y0.Lemmas.TrsoTotalAll — **the TRSO recursion raises no exception at all** (`trsoF_total`): on every query reachable
  from `identify_target_outcomes` the model returns an estimand or "no estimand".  Lemmas/TrsoAll excludes every raise
  site except the `NotImplementedError` of `activate_domain_and_interventions` on `One()`; that one is excluded here: the
  estimand returned by a source-domain run contains no `One()` (`srcShape`, Lemmas/TrsoShapeAll — followed in the coin
  family, whose target / source contexts satisfy the semantic invariant), so activation succeeds
  (`activate_ok_of_noOne`).
-/
import Y0.Lemmas.TrsoShapeAll

namespace Y0
namespace Trso
open TrDsl MG IdAux

/-- returns (no exception), and what it returns is clean -/
def TOK (x : Except Err (Option Expr)) : Prop := ∃ o, x = .ok o ∧ ∀ e, o = some e → Clean e

theorem tok_c14n {x : Except Err (Option Expr)} (h : TOK x) : TOK (x >>= c14nSafe) := by
  obtain ⟨o, rfl, ho⟩ := h
  obtain ⟨y, hy, hyc, _⟩ := c14nSafe_ok (x := o) ho
  rw [ok_bind, hy]
  exact ⟨y, rfl, hyc⟩

theorem collectTerms_tok : ∀ (rs : List (Except Err (Option Expr))), (∀ r ∈ rs, TOK r) →
    ∃ o, collectTerms rs = .ok o ∧ ∀ ts, o = some ts → ∀ t ∈ ts, Clean t
  | [], _ => ⟨some [], rfl, fun ts hts t ht => by cases hts; cases ht⟩
  | r :: rs, h => by
    obtain ⟨o, rfl, ho⟩ := h r (by simp)
    obtain ⟨o', ho', hc'⟩ := collectTerms_tok rs (fun x hx => h x (List.mem_cons_of_mem _ hx))
    cases o with
    | none => exact ⟨none, by simp [collectTerms], fun ts hts => by cases hts⟩
    | some t =>
      cases o' with
      | none => exact ⟨none, by simp [collectTerms, ho', bind, Except.bind, pure, Except.pure], fun ts hts => by cases hts⟩
      | some ts' =>
        refine ⟨some (t :: ts'), by simp [collectTerms, ho', bind, Except.bind, pure, Except.pure], ?_⟩
        intro ts hts x hx
        cases hts
        rcases List.mem_cons.1 hx with rfl | hx
        · exact ho _ rfl
        · exact hc' ts' rfl x hx

section
variable (G0 : MG Name) (hG0 : G0.WF) (hr0 : G0.Ranked) (pops : List Name) (σ' : Val)

/-- the semantic invariants of the coin family along a run: target context while experiments are usable, source
context (with the shape of the carried expression) inside a source domain -/
def TSem (q : Query) (G : MG Name) : Prop :=
  (q.active = [] → q.surr ≠ [] → SemInv (famCtx (coinFam G0) G0 pops σ' (coinFam_ok G0 hG0 hr0 pops)) q G) ∧
  (q.active ≠ [] → ∃ (d : Pop) (hd : d ∈ pops) (zs : List Name) (hz : zs ≠ []), q.active = zs ∧
    SemInv (srcCtx (coinFam G0) G0 pops σ' (coinFam_ok G0 hG0 hr0 pops) d hd zs hz) q G ∧
    SrcCarried (srcCtx (coinFam G0) G0 pops σ' (coinFam_ok G0 hG0 hr0 pops) d hd zs hz) q G)

theorem coinM_srcCtx (d : Pop) (hd : d ∈ pops) (zs : List Name) (hz : zs ≠ []) :
    CoinM (srcCtx (coinFam G0) G0 pops σ' (coinFam_ok G0 hG0 hr0 pops) d hd zs hz) :=
  ⟨fun _ => rfl, fun T σ => coinScm_Q T σ⟩

/-- **no exception in any phase** -/
theorem trsoF_total (hsmall : ∀ v ∈ G0.nodes, v < 100) (Mb : Nat) :
    ∀ (fuel : Nat) (q : Query) (G : MG Name), QInv Mb q G → Clean q.expr → Raw q.expr → mu2 Mb q G < fuel →
      TSem G0 hG0 hr0 pops σ' q G → TOK (trsoF dSeparated fuel q)
  | 0, _, _, _, _, _, hmu, _ => absurd hmu (Nat.not_lt_zero _)
  | fuel + 1, q, G, h, hc, hr, hmu, hts => by
    have ih := trsoF_total hsmall Mb fuel
    have hg : q.graph = .ok G := h.look
    unfold trsoF
    rw [hg, ok_bind]
    split
    · -- line 1
      obtain ⟨e, he, hce⟩ := step1_ok (q := q) (G := G) hc
      rw [he]; exact ⟨some e, rfl, fun e' he' => by cases he'; exact hce⟩
    · obtain ⟨anc, hanc⟩ := h.anc_ok
      rw [hanc, ok_bind]
      split
      · -- line 2
        rename_i hne
        have hne' : (diff' (regularNodes G) anc).isEmpty = false := by simpa using hne
        obtain ⟨q', G', hq', hinv', hmu', hc', hsu, hac, _⟩ :=
          qline2_ok h hanc hne' Clean (fun r => line2_expr_ok hc)
        have hG' : G' = G.subgraph (nsort anc) := by
          have h1 := hinv'.look
          rw [(line2_shape' h.look hanc hq').2.2.2.2.2.1] at h1
          exact (Except.ok.inj h1).symm
        subst hG'
        unfold step2
        rw [hq', ok_bind]
        refine tok_c14n (ih q' _ hinv' hc' (raw_line2 hr hq') (by omega) ⟨?_, ?_⟩)
        · intro ha hs
          exact (sound_line2 h (hts.1 (hac ▸ ha) (hsu ▸ hs)) hanc hne' hq').1
        · intro ha
          obtain ⟨d, hd, zs, hz, hzs, hsem, hcar⟩ := hts.2 (hac ▸ ha)
          exact ⟨d, hd, zs, hz, hac.trans hzs, (sound_line2 h hsem hanc hne' hq').1,
            car_line2 h hsem hcar hz hanc hne' hq'⟩
      · obtain ⟨extra, hex⟩ := h.noEffect_ok
        rw [hex, ok_bind]
        split
        · -- line 3
          rename_i hne
          have hne' : extra.isEmpty = false := by simpa using hne
          obtain ⟨hinv', hmu'⟩ := qline3_inv h hex hne'
          unfold step3
          refine tok_c14n (ih (line3 q extra) G hinv' hc hr (by omega) ⟨?_, ?_⟩)
          · intro ha hs
            exact (sound_line3 h (hts.1 ha hs) hex).1
          · intro ha
            obtain ⟨d, hd, zs, hz, hzs, hsem, hcar⟩ := hts.2 ha
            exact ⟨d, hd, zs, hz, hzs, (sound_line3 h hsem hex).1, hcar.congr rfl⟩
        · rename_i hemp0
          have hemp : extra.isEmpty = true := by simpa using hemp0
          have hT := h.tnodes_in_X hex hemp
          simp only []
          split
          · -- line 4
            rename_i hlen
            have h4 := qline4_inv h hT hlen
            have hall : ∀ r ∈ (line4 q G (G.removeNodes q.X).districts).map (trsoF dSeparated fuel), TOK r := by
              intro r hr'
              obtain ⟨s, hs', rfl⟩ := List.mem_map.1 hr'
              obtain ⟨hinv', hmu', hexpr, hsu, hac⟩ := h4 s hs'
              have hdom : s.domain = q.domain := by
                unfold line4 at hs'
                obtain ⟨c, _, rfl⟩ := List.mem_map.1 hs'
                rfl
              have hgr : s.graphs = q.graphs := by
                unfold line4 at hs'
                obtain ⟨c, _, rfl⟩ := List.mem_map.1 hs'
                rfl
              refine ih s G hinv' (hexpr ▸ hc) (hexpr ▸ hr) (by omega) ⟨?_, ?_⟩
              · intro ha hs
                exact (hts.1 (hac ▸ ha) (hsu ▸ hs)).congr hexpr hdom hgr hac hsu
              · intro ha
                obtain ⟨d, hd, zs, hz, hzs, hsem, hcar⟩ := hts.2 (hac ▸ ha)
                exact ⟨d, hd, zs, hz, hac.trans hzs, hsem.congr hexpr hdom hgr hac hsu, hcar.congr hexpr⟩
            obtain ⟨o, ho, hoc⟩ := collectTerms_tok _ hall
            unfold step4
            rw [ho, ok_bind]
            cases o with
            | none => exact ⟨none, rfl, fun e he => by cases he⟩
            | some ts =>
              obtain ⟨e, he, hce⟩ := step4_tail_ok (terms := ts)
                (rs := plainVars (diff' (regularNodes G) (q.X ++ q.Y))) (hoc ts rfl)
              simp only []
              rw [he]
              exact ⟨some e, rfl, fun e' he' => by cases he'; exact hce⟩
          · -- lines 6-11
            rename_i hlen
            -- lines 6 / 7
            have h67 : ∃ via, step67 dSeparated (trsoF dSeparated fuel) q = .ok via ∧ ∀ e, via = some e → Clean e := by
              unfold step67
              split
              · rename_i hguard
                have hact : q.active = [] := by
                  have : q.active.isEmpty = true := by
                    cases hq : q.active.isEmpty <;> simp [hq] at hguard ⊢
                  simpa using this
                have hsurr : q.surr ≠ [] := by
                  intro hs; rw [hs] at hguard; simp at hguard
                have hT0 := hts.1 hact hsurr
                obtain ⟨subs, hsubs, hallsub⟩ := qline6_ok h hact hsurr hex hemp
                rw [hsubs, ok_bind]
                let F : Pop × Query → Except Err (Option Expr) := fun x => match x with
                    | (d, s) => do
                      match ← trsoF dSeparated fuel s with
                      | none => pure none
                      | some e => pure (some (← activate s.active d e))
                have hstep : ∀ p ∈ subs, ∃ b, F p = .ok b ∧ ∀ e, b = some e → Clean e := by
                  rintro ⟨d, s⟩ hp
                  show ∃ b, (do
                      match ← trsoF dSeparated fuel s with
                      | none => pure none
                      | some e => pure (some (← activate s.active d e)) : Except Err (Option Expr)) = .ok b ∧ _
                  obtain ⟨hexpr, hactive, G', hinv', hmu'⟩ := hallsub (d, s) hp
                  obtain ⟨Z, g, hpg, _, _, hneZ, htrue, hs⟩ := line6_mem' hsubs (d, s) hp
                  simp only [] at hexpr hactive hinv' hmu' hpg hs htrue
                  subst hs
                  have hG' : G' = g.removeNodes (inter' Z q.X) := by
                    have h1 := hinv'.look
                    have h2 : lookup (line6Query q d g Z).graphs (line6Query q d g Z).domain =
                        .ok (g.removeNodes (inter' Z q.X)) := lookup_assign_self
                    rw [h2] at h1
                    exact (Except.ok.inj h1).symm
                  subst hG'
                  have hd : d ∈ pops := (hT0.t0 hact hsurr).doms _ hpg
                  have hz : nsort (inter' Z q.X) ≠ [] := nsort_nonempty hneZ
                  have hsem := srcCtx_initial h hT0 hact hsurr hpg hd hneZ
                  -- the carried joint of the sub-query is in shape
                  have hcar : SrcCarried (srcCtx (coinFam G0) G0 pops σ' (coinFam_ok G0 hG0 hr0 pops) d hd
                      (nsort (inter' Z q.X)) hz) (line6Query q d g Z) (g.removeNodes (inter' Z q.X)) := by
                    rcases hsem.shape with ⟨pop, c, hexp, jc⟩ | ⟨hnj, _⟩
                    · refine ⟨hexp ▸ shape_leaf σz _ _ _, ?_, by rw [hexp]; rfl,
                        fun _ fs hfs => by rw [hexp] at hfs; cases hfs⟩
                      intro c0 s0 hcs
                      rw [hexp] at hcs
                      simp only [chain, Option.some.injEq, Prod.mk.injEq] at hcs
                      obtain ⟨rfl, rfl⟩ := hcs
                      obtain ⟨z, hzz⟩ := List.exists_mem_of_ne_nil _ hz
                      exact ⟨z, jc.ignIn z hzz, by simp, hzz⟩
                    · obtain ⟨pop, c, hj⟩ := (hT0.t0 hact hsurr).joint
                      exact absurd hj (hnj pop c)
                  have htsS : TSem G0 hG0 hr0 pops σ' (line6Query q d g Z) (g.removeNodes (inter' Z q.X)) :=
                    ⟨fun ha => absurd ha hactive, fun _ => ⟨d, hd, _, hz, rfl, hsem, hcar⟩⟩
                  obtain ⟨o, ho, hoc⟩ := ih _ _ hinv' (hexpr ▸ hc) (hexpr ▸ hr) (by omega) htsS
                  rw [ho, ok_bind]
                  cases o with
                  | none => exact ⟨none, rfl, fun e he => by cases he⟩
                  | some es =>
                    simp only []
                    have hraw : Raw es := trsoF_vocab_source dSeparated fuel _ es hactive (hexpr ▸ hr) ho
                    have hshape := srcShape _ (coinM_srcCtx G0 hG0 hr0 pops σ' d hd _ hz)
                      (coin_srcCtx G0 hG0 hr0 pops σ' d hd _ hz) hz Mb fuel _ _ hinv' hsem hactive hcar es ho
                    rcases activate_onlyNIE (zs := (line6Query q d g Z).active) (d := d) hactive es (hoc es rfl) hraw
                      with ⟨e', he', hce'⟩ | herr
                    · rw [he', ok_bind]
                      exact ⟨some e', rfl, fun e he => by cases he; exact hce'⟩
                    · obtain ⟨e', he'⟩ := activate_ok_of_noOne (zs := (line6Query q d g Z).active) (d := d) hactive
                        (hoc es rfl) hraw hshape.noOne
                      rw [he'] at herr
                      cases herr
                obtain ⟨rs, hrs⟩ := mapM_total (f := F) (fun p hp => (hstep p hp).imp fun b hb => hb.1)
                show ∃ via, (subs.mapM F >>= fun rs => (pure (rs.filterMap id).head? : Except Err (Option Expr))) =
                  .ok via ∧ _
                rw [hrs, ok_bind]
                refine ⟨(rs.filterMap id).head?, rfl, ?_⟩
                intro e he
                have hmem : e ∈ rs.filterMap id := List.mem_of_mem_head? he
                obtain ⟨o, ho, hoe⟩ := List.mem_filterMap.1 hmem
                obtain ⟨p, hp, hfp⟩ := mapM_ok hrs o ho
                obtain ⟨b, hb, hbc⟩ := hstep p hp
                rw [hfp] at hb
                cases hb
                exact hbc e hoe
              · exact ⟨none, rfl, fun e he => by cases he⟩
            obtain ⟨via, hvia, hviac⟩ := h67
            rw [hvia, ok_bind]
            cases via with
            | some e67 =>
              obtain ⟨e, he, hce⟩ := canonicalize_ok (hviac e67 rfl)
              simp only []
              rw [he, ok_bind]
              exact ⟨some e, rfl, fun e' he' => by cases he'; exact hce⟩
            | none =>
              simp only []
              unfold step811
              split
              · exact ⟨none, rfl, fun e he => by cases he⟩
              · rename_i hdl
                have hdl' : 1 < G.districts.length := by omega
                have hdne := h.dwi_ne
                cases hd : (G.removeNodes q.X).districts with
                | nil => exact absurd hd hdne
                | cons c rest =>
                  have hrest : rest = [] := by
                    cases rest with
                    | nil => rfl
                    | cons a as => rw [hd] at hlen; simp at hlen
                  subst hrest
                  obtain ⟨hcmem, hYc, hcne, hcT⟩ := h.single_dwi hT hd
                  obtain ⟨order, hord, hcomp⟩ := h.order_ok
                  simp only []
                  split
                  · -- line 9
                    have hin : ∀ v ∈ nsort c, v ∈ order := fun v hv =>
                      hcomp v ((hcmem v).1 ((mem_nsort v c).1 hv)).1 (hcT v ((mem_nsort v c).1 hv))
                    obtain ⟨e9, he9, hc9⟩ := line9_ok hc hord hin hcne
                    rw [he9, ok_bind]
                    obtain ⟨e, he, hce⟩ := canonicalize_ok hc9
                    rw [he, ok_bind]
                    exact ⟨some e, rfl, fun e' he' => by cases he'; exact hce⟩
                  · -- line 10
                    rename_i hnany
                    obtain ⟨c', hfil, hc'd, hcc', hc'n, hc'T⟩ := h.super_district hT hd
                    rw [hfil]
                    simp only []
                    obtain ⟨o, ho, hos⟩ := h.line10Surr_ok hc'n
                    rw [ho, ok_bind]
                    cases o with
                    | none => exact ⟨none, rfl, fun e he => by cases he⟩
                    | some s =>
                      simp only []
                      have hs := hos s rfl
                      have hin : ∀ v ∈ nsort c', v ∈ order := fun v hv =>
                        hcomp v (hc'n v ((mem_nsort v c').1 hv)) (hc'T v ((mem_nsort v c').1 hv))
                      obtain ⟨q', hq', hcq', hX, hYq, hact, hdom, hsurr, hgr⟩ := line10_ok (s := s) hc hord hin
                      rw [hq', ok_bind]
                      obtain ⟨hinv', hmu'⟩ :=
                        qline10_inv h hc'd (fun y hy => hcc' y (hYc y hy)) hc'T hdl hX hYq hact hdom hsurr hs hgr
                      have hs' : s = q.surr ∨ s = [] := hs.elim (fun a => Or.inl a.1) (fun a => Or.inr a.1)
                      have hc'big : 2 ≤ (nsort c').length := by
                        apply two_le_length_of_ssub (nsort_nodup' c') hcne
                          (fun v hv => (mem_nsort v c').2 (hcc' v hv))
                        intro hall'
                        apply hnany
                        apply List.any_eq_true.2
                        refine ⟨c', hc'd, seteq'_iff_mem.2 (fun v => ?_)⟩
                        exact ⟨fun a => hall' v ((mem_nsort v c').2 a), hcc' v⟩
                      refine tok_c14n (ih q' _ hinv' hcq' (raw_line10 hr hs' hq') (by omega) ⟨?_, ?_⟩)
                      · -- after line 10 in the target domain no experiment is usable any more
                        intro ha hsn
                        exfalso
                        rcases hs with ⟨_, hne⟩ | ⟨hnil, _⟩
                        · exact hne (hact ▸ ha)
                        · exact hsn (hsurr.trans hnil)
                      · intro ha
                        obtain ⟨d, hd0, zs, hz, hzs, hsem, hcar⟩ := hts.2 (hact ▸ ha)
                        obtain ⟨hcar', gs, hgs⟩ := car_line10 (coinM_srcCtx G0 hG0 hr0 pops σ' d hd0 zs hz) h hsem hcar
                          hdl' hc'd hc'T hc'big hq'
                        exact ⟨d, hd0, zs, hz, hact.trans hzs,
                          semInv_line10 h hsem hc'd hc'T hc'n hq' (fun pop cc hcc => by rw [hgs] at hcc; cases hcc)
                            (fun ha' _ => ha ha'), hcar'⟩

end

end Trso
end Y0
