/-
  Y0.Lemmas.IdHedgeTransport — Shpitser & Pearl 2006, Theorem 5 ("if ID fails, there is a hedge"), second half: a
  hedge `(F, F')` of a sub-problem the recursion passes to is — with the SAME vertex sets — a hedge of the problem the
  call was made on.  Line by line:

    line 2  (G[An(Y)], X ∩ An(Y), Y)   edges of a subgraph are edges of the graph; a node of An(Y) outside X ∩ An(Y) is
                                       outside X
    line 3  (G, X ∪ W, Y),  W = (V ∖ X) ∖ An(Y)_{G_X̄}   the roots are still ancestors of Y avoiding X; F meets X itself:
                                       otherwise a member of F ∩ W reaches a root inside F and from there Y, all along
                                       edges not pointing into X, i.e. it is in An(Y)_{G_X̄} and not in W
    line 4  (G, V ∖ S, S),  S a district of G ∖ X   F' ⊆ S ⊆ V ∖ X; the roots lie in S ⊆ An(Y)_{G_X̄} (line 3 did not
                                       fire); F meets X: otherwise F, connected by bidirected edges and containing
                                       F' ⊆ S, lies inside the district S of G ∖ X, but it meets V ∖ S
    line 7  (G[D], X ∩ D, Y)           as line 2

  Together with `line5_hedge` (the refusing sub-problem has the hedge `V`, `V ∖ X`) this gives `id_fail_hedge`.
-/
import Y0.Lemmas.IdHedge

namespace Y0
open IdDsl IdAux MG Relation

namespace IdAux

/-- the generic transport: same vertex sets, the edges used survive, the `X`-conditions are re-established -/
theorem hedge_transfer {G G' : MG Name} {X X' Y Y' : List Name} {F F' : Name → Prop}
    (h : G'.Hedge X' Y' F F')
    (hn : ∀ v, F v → v ∈ G.nodes)
    (hmeet : ∃ x ∈ X, F x)
    (havoid : ∀ v, F' v → v ∉ X)
    (hdi : ∀ a b, G'.DiEdge a b → G.DiEdge a b)
    (hbi : ∀ a b, G'.BiEdge a b → G.BiEdge a b)
    (hroot : ∀ r, F' r → (∃ y ∈ Y', ReflTransGen (fun a b => G'.DiEdge a b ∧ b ∉ X') r y) →
      ∃ y ∈ Y, ReflTransGen (fun a b => G.DiEdge a b ∧ b ∉ X) r y) :
    G.Hedge X Y F F' := by
  obtain ⟨R, hRF, hRY, hFR, hF'R⟩ := h.root
  refine ⟨h.sub, hn, hmeet, havoid, h.nonempty, ?_, ?_, R, hRF, fun r hr => hroot r (hRF r hr) (hRY r hr), ?_, ?_⟩
  · intro u v hu hv
    exact rtg_mono (fun a b hab => ⟨hbi a b hab.1, hab.2⟩) (h.connF u v hu hv)
  · intro u v hu hv
    exact rtg_mono (fun a b hab => ⟨hbi a b hab.1, hab.2⟩) (h.connF' u v hu hv)
  · intro v hv
    obtain ⟨r, hr, hvr⟩ := hFR v hv
    exact ⟨r, hr, rtg_mono (fun a b hab => ⟨hdi a b hab.1, hab.2⟩) hvr⟩
  · intro v hv
    obtain ⟨r, hr, hvr⟩ := hF'R v hv
    exact ⟨r, hr, rtg_mono (fun a b hab => ⟨hdi a b hab.1, hab.2⟩) hvr⟩

/-- lines 2 and 7: a hedge of the induced subgraph on `S` for the treatments `X ∩ S` is a hedge of the graph -/
theorem hedge_of_subgraph {G : MG Name} {X Y : List Name} {F F' : Name → Prop} (S : List Name)
    (hS : ∀ v ∈ S, v ∈ G.nodes) (h : (G.subgraph S).Hedge (inter' X S) Y F F') : G.Hedge X Y F F' := by
  have hFS : ∀ v, F v → v ∈ S := fun v hv => (mem_nodes_subgraph G S v).mp (h.nodes v hv)
  apply hedge_transfer h
  · exact fun v hv => hS v (hFS v hv)
  · obtain ⟨x, hx, hFx⟩ := h.meetsX
    exact ⟨x, (mem_inter'.mp hx).1, hFx⟩
  · intro v hv hvX
    exact h.avoidsX v hv (mem_inter'.mpr ⟨hvX, hFS v (h.sub v hv)⟩)
  · exact fun a b hab => ((diEdge_subgraph G S a b).mp hab).1
  · exact fun a b hab => ((biEdge_subgraph G S a b).mp hab).1
  · rintro r _ ⟨y, hy, hry⟩
    refine ⟨y, hy, rtg_mono (fun a b hab => ?_) hry⟩
    obtain ⟨hab', _, hbS⟩ := (diEdge_subgraph G S a b).mp hab.1
    exact ⟨hab', fun hbX => hab.2 (mem_inter'.mpr ⟨hbX, hbS⟩)⟩

end IdAux

section
variable {topo : MG Name → Except Err (List Name)} {I : IdIn}

/-- **one pass transports hedges upwards**: a hedge of any sub-problem a pass of `identify` recurses on is a hedge of
the problem itself (same vertex sets) -/
theorem step_hedge (hv : Valid I) {s : Step} (h : step topo I = .ok s) :
    match s with
    | .done _ => True
    | .tail J => ∀ F F', J.G.Hedge J.X J.Y F F' → I.G.Hedge I.X I.Y F F'
    | .split Js _ => ∀ J ∈ Js, ∀ F F', J.G.Hedge J.X J.Y F F' → I.G.Hedge I.X I.Y F F' := by
  have hwf := hv.wf
  cases step_ok h with
  | l1 _ => trivial
  | l6 => trivial
  | l2 anc _ hanc _ =>
    intro F F' hh
    exact hedge_of_subgraph anc (ancestorsInclusive_sub hwf hanc) hh
  | l3 anc anc' _ _ _ hanc' _ =>
    intro F F' hh
    have hwfi : (I.G.removeInEdges I.X).WF := wf_fromEdges _ _ _
    have hh' : I.G.Hedge (union' I.X (diff' (diff' I.G.nodes I.X) anc')) I.Y F F' := hh
    apply hedge_transfer hh' hh'.nodes
    · -- `F` meets `X` itself
      by_contra hc
      have hFX : ∀ v, F v → v ∉ I.X := fun v hFv hvX => hc ⟨v, hvX, hFv⟩
      obtain ⟨x, hx, hFx⟩ := hh'.meetsX
      rcases mem_union'.mp hx with hxX | hxW
      · exact hFX x hFx hxX
      · obtain ⟨R, hRF, hRY, hFR, _⟩ := hh'.root
        obtain ⟨r, hr, hxr⟩ := hFR x hFx
        obtain ⟨y, hy, hry⟩ := hRY r hr
        have h1 : ReflTransGen (I.G.removeInEdges I.X).DiEdge x r :=
          rtg_mono (fun a b hab => (diEdge_removeInEdges I.G I.X a b).mpr ⟨hab.1, hFX b hab.2.2⟩) hxr
        have h2 : ReflTransGen (I.G.removeInEdges I.X).DiEdge r y :=
          rtg_mono (fun a b hab => (diEdge_removeInEdges I.G I.X a b).mpr
            ⟨hab.1, fun hb => hab.2 (mem_union'.mpr (Or.inl hb))⟩) hry
        exact (mem_diff'.mp hxW).2 ((ancestorsInclusive_spec _ hwfi I.Y anc' hanc' x).mpr ⟨y, hy, h1.trans h2⟩)
    · exact fun v hv hvX => hh'.avoidsX v hv (mem_union'.mpr (Or.inl hvX))
    · exact fun _ _ hab => hab
    · exact fun _ _ hab => hab
    · rintro r _ ⟨y, hy, hry⟩
      exact ⟨y, hy, rtg_mono (fun a b hab => ⟨hab.1, fun hb => hab.2 (mem_union'.mpr (Or.inl hb))⟩) hry⟩
  | l4 anc anc' hpre _ _ =>
    intro J hJ F F' hh
    simp only [List.mem_map] at hJ
    obtain ⟨S, hS, rfl⟩ := hJ
    have hwfx := IdAux.wf_removeNodes I.G I.X
    have hwfi : (I.G.removeInEdges I.X).WF := wf_fromEdges _ _ _
    have hh' : I.G.Hedge (diff' I.G.nodes S) S F F' := hh
    have hSV : ∀ v ∈ S, v ∈ I.G.nodes ∧ v ∉ I.X := fun v hvS =>
      (mem_nodes_removeNodes I.G hwf I.X v).mp (mem_nodes_of_mem_district hwfx hS hvS)
    have hF'S : ∀ v, F' v → v ∈ S := by
      intro v hF'v
      by_contra hc
      exact hh'.avoidsX v hF'v (mem_diff'.mpr ⟨hh'.nodes v (hh'.sub v hF'v), hc⟩)
    apply hedge_transfer hh' hh'.nodes
    · -- `F` meets `X`
      by_contra hc
      have hFX : ∀ v, F v → v ∉ I.X := fun v hFv hvX => hc ⟨v, hvX, hFv⟩
      obtain ⟨x, hx, hFx⟩ := hh'.meetsX
      obtain ⟨v0, hv0⟩ := hh'.nonempty
      have hconn := hh'.connF v0 x (hh'.sub v0 hv0) hFx
      have hsd : (I.G.removeNodes I.X).SameDistrict v0 x :=
        rtg_mono (fun a b hab => (biEdge_removeNodes I.G I.X a b).mpr ⟨hab.1, hFX a hab.2.1, hFX b hab.2.2⟩) hconn
      exact (mem_diff'.mp hx).2 ((districts_spec _ hwfx S hS v0 (hF'S v0 hv0) x).mpr hsd)
    · exact fun v hF'v => (hSV v (hF'S v hF'v)).2
    · exact fun _ _ hab => hab
    · exact fun _ _ hab => hab
    · intro r hr _
      have hrS := hSV r (hF'S r hr)
      have hranc' : r ∈ anc' := by
        by_contra hc
        have : r ∈ diff' (diff' I.G.nodes I.X) anc' := mem_diff'.mpr ⟨mem_diff'.mpr hrS, hc⟩
        rw [hpre.hno] at this
        cases this
      obtain ⟨y, hy, hry⟩ := (ancestorsInclusive_spec _ hwfi I.Y anc' hpre.hanc' r).mp hranc'
      exact ⟨y, hy, rtg_mono (fun a b hab => (diEdge_removeInEdges I.G I.X a b).mp hab) hry⟩
  | l7 anc anc' S D order fs _ _ _ _ _ _ hfind _ _ =>
    intro F F' hh
    have hD : D ∈ I.G.districts := List.mem_of_find?_eq_some hfind
    exact hedge_of_subgraph D (fun v hvD => mem_nodes_of_mem_district hwf hD hvD) hh

/-- hedges travel from every sub-problem the recursion reaches back to the problem it started from -/
theorem reach_hedge {I J : IdIn} (hr : Reach topo I J) (hv : Valid I) {F F' : Name → Prop}
    (hh : J.G.Hedge J.X J.Y F F') : I.G.Hedge I.X I.Y F F' := by
  induction hr with
  | refl _ => exact hh
  | tail hs _ ih =>
    exact step_hedge hv hs F F' (ih (step_good hv hs).1 hh)
  | split hs hJ _ ih =>
    exact step_hedge hv hs _ hJ F F' (ih (step_good hv hs _ hJ).1 hh)

end
end Y0
