/-
  Y0.Lemmas.TianExpr — the denotation of the expressions built by `lowIndex`, `lemma4` and `ancestralQ`
  (Y0.Model.Tian) as iterated sums / ratios of the denotation of the given expression; valid in every environment.
-/
import Y0.Lemmas.TianDen

namespace Y0
namespace TianDen
open TianDsl Tian

/-! ### `topo.index(v)` as a split of the list -/

theorem indexOf_split {topo : List Name} {v : Name} {i : Nat} (h : indexOf topo v = .ok i) :
    ∃ p s, topo = p ++ v :: s ∧ v ∉ p ∧ i = p.length := by
  induction topo generalizing i with
  | nil => simp [indexOf] at h
  | cons x xs ih =>
    unfold indexOf at h
    rw [List.findIdx?_cons] at h
    by_cases hx : (x == v) = true
    · simp only [hx, ↓reduceIte] at h
      cases h
      have : x = v := by simpa using hx
      subst this
      exact ⟨[], xs, rfl, by simp, rfl⟩
    · simp only [hx, Bool.false_eq_true, ↓reduceIte] at h
      cases hf : xs.findIdx? (· == v) with
      | none => simp [hf] at h
      | some j =>
        simp only [hf, Option.map_some] at h
        cases h
        have hj : indexOf xs v = .ok j := by unfold indexOf; rw [hf]
        rcases ih hj with ⟨p, s, e1, e2, e3⟩
        refine ⟨x :: p, s, by rw [e1]; rfl, ?_, by simp [e3]⟩
        intro hm
        rcases List.mem_cons.mp hm with e | hm
        · exact hx (by simp [e])
        · exact e2 hm

theorem indexOf_of_split {p s : List Name} {v : Name} (h : v ∉ p) : indexOf (p ++ v :: s) v = .ok p.length := by
  induction p with
  | nil => simp [indexOf, List.findIdx?_cons]
  | cons x xs ih =>
    have hx : (x == v) = false := by
      have : x ≠ v := fun e => h (by simp [e])
      simpa using this
    have := ih (fun hm => h (List.mem_cons_of_mem _ hm))
    unfold indexOf at this ⊢
    rw [List.cons_append, List.findIdx?_cons]
    simp only [hx, Bool.false_eq_true, ↓reduceIte]
    cases hf : (xs ++ v :: s).findIdx? (· == v) with
    | none => simp [hf] at this
    | some j =>
      simp only [hf] at this
      cases this
      simp

theorem indexOf_ok_of_mem {topo : List Name} {v : Name} (h : v ∈ topo) : ∃ i, indexOf topo v = .ok i := by
  induction topo with
  | nil => cases h
  | cons x xs ih =>
    by_cases e : x = v
    · subst e; exact ⟨0, by simp [indexOf, List.findIdx?_cons]⟩
    · rcases List.mem_cons.mp h with e' | hm
      · exact absurd e'.symm e
      · rcases ih hm with ⟨i, hi⟩
        rcases indexOf_split hi with ⟨p, s, e1, e2, _⟩
        refine ⟨(x :: p).length, ?_⟩
        rw [e1, ← List.cons_append]
        apply indexOf_of_split
        intro hm'
        rcases List.mem_cons.mp hm' with e' | hm'
        · exact e e'.symm
        · exact e2 hm'

theorem drop_len_succ (p : List Name) (v : Name) (s : List Name) : (p ++ v :: s).drop (p.length + 1) = s := by
  induction p with
  | nil => rfl
  | cons x xs ih => simp

variable (env : Env) (σ' : Val)

/-! ### Equation 72 -/

/-- `Q[H^(i)]` as built by the code denotes `Σ_{h ∖ h^(i)}` of the given expression -/
theorem den_lowIndex_some {q e : Expr} {p s : List Name} {v : Name} (hnd : (p ++ v :: s).Nodup)
    (h : lowIndex (some v) q (p ++ v :: s) = .ok e) :
    den env σ' e = sumVars env.card s (den env σ' q) := by
  have hvp : v ∉ p := by
    intro hm
    have := (List.nodup_append.mp hnd).2.2 v hm v (by simp)
    exact this rfl
  unfold lowIndex at h
  simp only [List.mem_append, List.mem_cons, true_or, or_true, not_true_eq_false, ↓reduceIte] at h
  rw [indexOf_of_split hvp] at h
  simp only [bind, Except.bind] at h
  have hdrop : (p ++ v :: s).drop (p.length + 1) = s := drop_len_succ p v s
  rw [hdrop] at h
  have hs : s.Nodup := ((List.nodup_append.mp hnd).2.1).of_cons
  exact den_sumSafe_vars env σ' hs h

theorem lowIndex_some_ok (q : Expr) {topo : List Name} {v : Name} (hv : v ∈ topo) :
    ∃ e, lowIndex (some v) q topo = .ok e := by
  rcases indexOf_ok_of_mem hv with ⟨i, hi⟩
  unfold lowIndex
  simp only [hv, not_true_eq_false, ↓reduceIte, hi, bind, Except.bind]
  exact sumSafe_vars_ok _ _

/-! ### Lemma 4 (ii): the ratio the code builds for one vertex -/

/-- `Σ_{>v} f / Σ_{≥v} f` for `topo = p ++ v :: s`, with the code's convention that the first variable of the order
gets no denominator (`Q[H^(0)] = 1`) -/
def ratio (card : Name → Nat) (f : Val → Rat) (p : List Name) (v : Name) (s : List Name) (σ : Val) : Rat :=
  if p = [] then sumVars card s f σ else sumVars card s f σ / sumVars card (v :: s) f σ

theorem den_lemma4Factor {q e : Expr} {p s : List Name} {v : Name} (hnd : (p ++ v :: s).Nodup)
    (h : lemma4Factor q (p ++ v :: s) v p.length = .ok e) (σ : Val) :
    den env σ' e σ = ratio env.card (den env σ' q) p v s σ := by
  unfold lemma4Factor at h
  cases hc : lowIndex (some v) q (p ++ v :: s) with
  | error err => simp [hc, bind, Except.bind] at h
  | ok cur =>
    have hcur := den_lowIndex_some env σ' hnd hc
    simp only [hc, bind, Except.bind] at h
    by_cases hp : p = []
    · subst hp
      simp only [List.length_nil, BEq.rfl, ↓reduceIte, pure, Except.pure] at h
      cases h
      simp [ratio, hcur]
    · -- `p = p' ++ [u]`: the previous vertex is `u`, and `Σ_{>u} = Σ_{≥v}`
      obtain ⟨p', u, rfl⟩ : ∃ p' u, p = p' ++ [u] := ⟨p.dropLast, p.getLast hp, (List.dropLast_append_getLast hp).symm⟩
      have hlen : (p' ++ [u]).length - 1 = p'.length := by simp
      have hne : ((p' ++ [u]).length == 0) = false := by simp
      simp only [hne, Bool.false_eq_true, ↓reduceIte, hlen] at h
      have hget : (p' ++ [u] ++ v :: s)[p'.length]? = some u := by
        rw [List.append_assoc, List.getElem?_append_right (Nat.le_refl _)]
        simp
      rw [hget] at h
      simp only at h
      have hnd' : (p' ++ u :: (v :: s)).Nodup := by simpa [List.append_assoc] using hnd
      have hrew : p' ++ [u] ++ v :: s = p' ++ u :: (v :: s) := by simp [List.append_assoc]
      rw [hrew] at h
      cases hpv : lowIndex (some u) q (p' ++ u :: (v :: s)) with
      | error err => simp [hpv] at h
      | ok prev =>
        have hprev := den_lowIndex_some env σ' hnd' hpv
        simp only [hpv] at h
        have := den_mkFraction env σ' h σ
        rw [this, hcur, hprev]
        simp [ratio]

/-! ### `mapM` in `Except` -/

theorem mapM_ok_forall₂ {α β} (g : α → Except Err β) :
    ∀ (l : List α) (fs : List β), l.mapM g = .ok fs → List.Forall₂ (fun a b => g a = .ok b) l fs
  | [], fs, h => by
    simp only [List.mapM_nil, pure, Except.pure] at h
    cases h; exact List.Forall₂.nil
  | a :: l, fs, h => by
    rw [List.mapM_cons] at h
    cases ha : g a with
    | error e => simp [ha, bind, Except.bind] at h
    | ok b =>
      cases hl : l.mapM g with
      | error e => simp [ha, hl, bind, Except.bind] at h
      | ok bs =>
        simp only [ha, hl, bind, Except.bind, pure, Except.pure] at h
        cases h
        exact List.Forall₂.cons ha (mapM_ok_forall₂ g l bs hl)

theorem forall₂_mem {α β} {R : α → β → Prop} : ∀ {l : List α} {fs : List β}, List.Forall₂ R l fs →
    List.Forall₂ (fun a b => a ∈ l ∧ R a b) l fs
  | _, _, .nil => .nil
  | _, _, .cons hab h => .cons ⟨List.mem_cons_self, hab⟩
      ((forall₂_mem h).imp fun _ _ hh => ⟨List.mem_cons_of_mem _ hh.1, hh.2⟩)

theorem forall₂_exists_left {α β} {R : α → β → Prop} : ∀ {l : List α} {fs : List β}, List.Forall₂ R l fs →
    ∀ f ∈ fs, ∃ a ∈ l, R a f
  | _, _, .nil, f, hf => by cases hf
  | _, _, .cons hab h, f, hf => by
    rcases List.mem_cons.mp hf with rfl | hf
    · exact ⟨_, List.mem_cons_self, hab⟩
    · obtain ⟨a, ha, haf⟩ := forall₂_exists_left h f hf
      exact ⟨a, List.mem_cons_of_mem _ ha, haf⟩

theorem mapM_ok_of_forall {α β} (g : α → Except Err β) :
    ∀ (l : List α), (∀ a ∈ l, ∃ b, g a = .ok b) → ∃ fs, l.mapM g = .ok fs
  | [], _ => ⟨[], rfl⟩
  | a :: l, h => by
    rcases h a List.mem_cons_self with ⟨b, hb⟩
    rcases mapM_ok_of_forall g l (fun x hx => h x (List.mem_cons_of_mem _ hx)) with ⟨bs, hbs⟩
    exact ⟨b :: bs, by rw [List.mapM_cons]; simp [hb, hbs, bind, Except.bind, pure, Except.pure]⟩

theorem prod_of_forall₂ {α β} (F : α → Rat) (D : β → Rat) {l : List α} {fs : List β}
    (h : List.Forall₂ (fun a b => D b = F a) l fs) : (fs.map D).prod = (l.map F).prod := by
  induction h with
  | nil => rfl
  | cons hab _ ih => simp only [List.map_cons, List.prod_cons, hab, ih]

/-- the position of `v` in a duplicate-free list as a split -/
theorem split_of_mem {topo : List Name} {v : Name} (hv : v ∈ topo) :
    ∃ p s, topo = p ++ v :: s ∧ v ∉ p := by
  rcases indexOf_ok_of_mem hv with ⟨i, hi⟩
  rcases indexOf_split hi with ⟨p, s, e1, e2, _⟩
  exact ⟨p, s, e1, e2⟩

/-- **Lemma 4 (ii), expression level.**  The product built by
`compute_c_factor_marginalizing_over_topological_successors` denotes `Π_{v ∈ district} Σ_{>v} q / Σ_{≥v} q`. -/
theorem den_lemma4 {q e : Expr} {district topo : List Name} (hnd : topo.Nodup)
    (h : lemma4 district q topo = .ok e) (σ : Val)
    (R : Name → Rat)
    (hR : ∀ v p s, topo = p ++ v :: s → R v = ratio env.card (den env σ' q) p v s σ) :
    den env σ' e σ = (district.map R).prod := by
  unfold lemma4 at h
  cases hm : district.mapM (lemma4One q topo) with
  | error err => rw [hm] at h; simp [bind, Except.bind] at h
  | ok fs =>
    rw [hm] at h
    simp only [bind, Except.bind, pure, Except.pure] at h
    cases h
    rw [den_productSafe]
    apply prod_of_forall₂ R (fun e => den env σ' e σ)
    have := mapM_ok_forall₂ _ _ _ hm
    refine this.imp ?_
    intro v f hvf
    unfold lemma4One at hvf
    cases hi : indexOf topo v with
    | error err => rw [hi] at hvf; simp [bind, Except.bind] at hvf
    | ok i =>
      rw [hi] at hvf
      simp only [bind, Except.bind] at hvf
      rcases indexOf_split hi with ⟨p, s, e1, _, e3⟩
      subst e3
      subst e1
      rw [den_lemma4Factor env σ' hnd hvf σ, hR v p s rfl]

/-- `lemma4` succeeds whenever the district lies inside the order and the expression is not `Zero` -/
theorem lemma4_ok {q : Expr} {district topo : List Name} (hsub : ∀ v ∈ district, v ∈ topo) (hq : isZero q = false) :
    ∃ e, lemma4 district q topo = .ok e := by
  unfold lemma4
  have : ∃ fs, district.mapM (lemma4One q topo) = .ok fs := by
    apply mapM_ok_of_forall
    intro v hv
    rcases indexOf_ok_of_mem (hsub v hv) with ⟨i, hi⟩
    rcases indexOf_split hi with ⟨p, s, e1, e2, e3⟩
    unfold lemma4One
    rw [hi]
    simp only [bind, Except.bind]
    unfold lemma4Factor
    rcases lowIndex_some_ok q (hsub v hv) with ⟨cur, hc⟩
    simp only [hc, bind, Except.bind]
    by_cases h0 : (i == 0) = true
    · simp [h0, pure, Except.pure]
    · simp only [h0, Bool.false_eq_true, ↓reduceIte]
      have hi0 : i ≠ 0 := by simpa using h0
      have hlt : i - 1 < topo.length := by
        rw [e1, e3]; simp; omega
      rw [List.getElem?_eq_getElem hlt]
      simp only
      rcases lowIndex_some_ok q (List.getElem_mem hlt) with ⟨prev, hp⟩
      rw [hp]
      simp only
      unfold mkFraction
      -- the denominator is `Sum.safe(q, …)`, which is `Zero` only when `q` is
      have hz : isZero prev = false := by
        unfold lowIndex at hp
        simp only [List.getElem_mem hlt, not_true_eq_false, ↓reduceIte] at hp
        cases hj : indexOf topo topo[i - 1] with
        | error err => simp [hj, bind, Except.bind] at hp
        | ok j =>
          simp only [hj, bind, Except.bind] at hp
          unfold sumSafe at hp
          simp only at hp
          split at hp
          · cases hp; exact hq
          · split at hp
            · rename_i hz; rw [hq] at hz; cases hz
            · split at hp
              · cases hp
              · cases hp; rfl
      simp [hz]
  rcases this with ⟨fs, hfs⟩
  rw [hfs]
  exact ⟨_, rfl⟩

/-! ### Lemma 3 -/

theorem den_ancestralQ {q e : Expr} {A H topo : List Name} (hnd : topo.Nodup)
    (h : ancestralQ A H q topo = .ok e) :
    den env σ' e = sumVars env.card (topo.filter (fun v => v ∈ H ∧ v ∉ A)) (den env σ' q) :=
  den_sumSafe_vars env σ' (hnd.filter _) h

theorem ancestralQ_ok (A H : List Name) (q : Expr) (topo : List Name) : ∃ e, ancestralQ A H q topo = .ok e :=
  sumSafe_vars_ok _ _

end TianDen
end Y0
