/-
  Y0.Lemmas.CfIdcTermB — building blocks of the termination proof of IDC*'s line-4 recursion for inputs in which an outcome and
  a condition may be copies of one variable:

  A. `reassoc_general`  what `get_new_outcomes_and_conditions` returns, for ALL inputs: two dicts of keys of the new event; the
                        new outcomes are named like old outcomes, the new conditions like old conditions
  B. `exchangeOutcomes_spec`, `interveneWith_spec`  the exchange only adds the subscript to (some) outcome keys
  C. `rule2_name_free`  `cf_rule_2_of_do_calculus_applies` never accepts a condition that has the variable name of an outcome
                        (not self-intervened keys): copies of one variable are adjacent (`cg_dop`) and
                        adjacent nodes are not d-separated (`MG.dSeparated_ne_true_of_adjacent`)
-/
import Y0.Lemmas.CfIdcDop
import Y0.Lemmas.CfIdcSep

namespace Y0
namespace Cf
open MG Fscm

/-! ### A. the re-association, in general -/

theorem mem_addKeys (new : Event) (want : Var → Bool) (keys : List Var) (acc : Event) (p : Var × Iv)
    (hp : p ∈ addKeys acc new keys want) : p ∈ acc ∨ p ∈ new := by
  unfold addKeys at hp
  induction keys generalizing acc with
  | nil => exact Or.inl hp
  | cons x xs ih =>
    simp only [List.foldl_cons] at hp
    rcases ih _ hp with h | h
    · split at h
      · split at h
        · rename_i v hv
          rcases Event.mem_set.1 h with ⟨h1, _⟩ | rfl
          · exact Or.inl h1
          · exact Or.inr (Event.get?_mem hv)
        · exact Or.inl h
      · exact Or.inl h
    · exact Or.inr h

theorem mem_remaining (new old : Event) (p : Var × Iv) (hp : p ∈ (remainingAndMissing new old).1) : p ∈ old := by
  unfold remainingAndMissing at hp
  exact (List.mem_filter.1 hp).1

/-- a key of the new event that is not an old key cannot exist when all old keys with its name are still keys of the new event
(the counterfactual graph construction never increases the number of keys with a given name) -/
theorem no_extra_key {new E : Event}
    (hcnt : ∀ p : Name → Bool, new.keys.countP (fun k => p k.name) ≤ E.keys.countP (fun k => p k.name))
    (hE : E.keys.Nodup) (k : Var) (hkn : k ∈ new.keys) (hkE : k ∉ E.keys)
    (hall : ∀ x ∈ E.keys, x.name = k.name → x ∈ new.keys) : False := by
  let pn : Name → Bool := fun n => decide (n = k.name)
  have h1 := hcnt pn
  rw [List.countP_eq_length_filter, List.countP_eq_length_filter] at h1
  have h2 : (k :: E.keys.filter (fun x => pn x.name)).length ≤ (new.keys.filter (fun x => pn x.name)).length := by
    apply length_le_of_nodup_subset
    · refine List.nodup_cons.2 ⟨?_, hE.filter _⟩
      intro hmem
      exact hkE (List.mem_filter.1 hmem).1
    · intro x hx
      rcases List.mem_cons.1 hx with rfl | hx
      · exact List.mem_filter.2 ⟨hkn, by simp [pn]⟩
      · rw [List.mem_filter] at hx
        exact List.mem_filter.2 ⟨hall x hx.1 (by simpa [pn] using hx.2), hx.2⟩
  simp only [List.length_cons] at h2
  omega

theorem mem_keys_ofList_append (O C : Event) (x : Var) :
    x ∈ (Event.ofList (O ++ C)).keys ↔ x ∈ O.keys ∨ x ∈ C.keys := by
  rw [mem_keys_ofList]
  simp only [List.mem_append, mem_keys_iff']
  constructor
  · rintro ⟨p, hp | hp, rfl⟩
    · exact Or.inl ⟨p, hp, rfl⟩
    · exact Or.inr ⟨p, hp, rfl⟩
  · rintro (⟨p, hp, rfl⟩ | ⟨p, hp, rfl⟩)
    · exact ⟨p, Or.inl hp, rfl⟩
    · exact ⟨p, Or.inr hp, rfl⟩

/-- **`get_new_outcomes_and_conditions` on any input**: two dicts of keys of the new event, the outcomes named like old outcomes,
the conditions named like old conditions; every entry is an old entry or an entry of the new event -/
theorem reassoc_general {kordf : List Var → List Var} (hk : SubsetOrder kordf) (new O C : Event)
    (hcnt : ∀ p : Name → Bool, new.keys.countP (fun k => p k.name) ≤
      (Event.ofList (O ++ C)).keys.countP (fun k => p k.name))
    (hO : O.keys.Nodup) (hC : C.keys.Nodup) :
    (newOutcomesAndConditions kordf new O C).1.keys.Nodup ∧
    (newOutcomesAndConditions kordf new O C).2.keys.Nodup ∧
    (∀ k ∈ (newOutcomesAndConditions kordf new O C).1.keys, k ∈ new.keys ∧ k.name ∈ O.keys.map (·.name)) ∧
    (∀ k ∈ (newOutcomesAndConditions kordf new O C).2.keys, k ∈ new.keys ∧ k.name ∈ C.keys.map (·.name)) ∧
    (∀ p ∈ (newOutcomesAndConditions kordf new O C).1, p ∈ O ∨ p ∈ new) ∧
    (∀ p ∈ (newOutcomesAndConditions kordf new O C).2, p ∈ C ∨ p ∈ new) := by
  have hE := (Event.ofList_spec (O ++ C)).1
  have hEmem := mem_keys_ofList_append O C
  have hOname : ∀ k ∈ O.keys, k.name ∈ O.keys.map (·.name) := fun k hk' => List.mem_map.2 ⟨k, hk', rfl⟩
  have hCname : ∀ k ∈ C.keys, k.name ∈ C.keys.map (·.name) := fun k hk' => List.mem_map.2 ⟨k, hk', rfl⟩
  have hremC := remaining_keys_sub new C
  have hremO := remaining_keys_sub new O
  have hremCnd := remaining_keys_nodup new C hC
  have hremOnd := remaining_keys_nodup new O hO
  have hnk := fun k => newKeys_spec (new := new) (O := O) (C := C) hk k
  -- a new key is named like an old outcome when every old condition is still there, and vice versa
  have hnameO : (∀ k ∈ C.keys, k ∈ new.keys) → ∀ k, k ∈ new.keys → k ∉ O.keys → k ∉ C.keys → k.name ∈ O.keys.map (·.name) := by
    intro hall k hkn hkO hkC
    by_contra hname
    refine no_extra_key hcnt hE k hkn (fun hm => ?_) ?_
    · rcases (hEmem k).1 hm with h | h
      · exact hkO h
      · exact hkC h
    · intro x hx hxn
      rcases (hEmem x).1 hx with h | h
      · exact absurd (hxn ▸ hOname x h) hname
      · exact hall x h
  have hnameC : (∀ k ∈ O.keys, k ∈ new.keys) → ∀ k, k ∈ new.keys → k ∉ O.keys → k ∉ C.keys → k.name ∈ C.keys.map (·.name) := by
    intro hall k hkn hkO hkC
    by_contra hname
    refine no_extra_key hcnt hE k hkn (fun hm => ?_) ?_
    · rcases (hEmem k).1 hm with h | h
      · exact hkO h
      · exact hkC h
    · intro x hx hxn
      rcases (hEmem x).1 hx with h | h
      · exact hall x h
      · exact absurd (hxn ▸ hCname x h) hname
  have hremOfacts : ∀ k ∈ (remainingAndMissing new O).1.keys, k ∈ new.keys ∧ k.name ∈ O.keys.map (·.name) :=
    fun k hk' => ⟨(hremO k hk').2, hOname k (hremO k hk').1⟩
  have hremCfacts : ∀ k ∈ (remainingAndMissing new C).1.keys, k ∈ new.keys ∧ k.name ∈ C.keys.map (·.name) :=
    fun k hk' => ⟨(hremC k hk').2, hCname k (hremC k hk').1⟩
  have hremOent : ∀ p ∈ (remainingAndMissing new O).1, p ∈ O ∨ p ∈ new := fun p hp => Or.inl (mem_remaining new O p hp)
  have hremCent : ∀ p ∈ (remainingAndMissing new C).1, p ∈ C ∨ p ∈ new := fun p hp => Or.inl (mem_remaining new C p hp)
  have haddent : ∀ (acc : Event) (old : Event) keys want, (∀ p ∈ acc, p ∈ old ∨ p ∈ new) →
      ∀ p ∈ addKeys acc new keys want, p ∈ old ∨ p ∈ new := by
    intro acc old keys want hacc p hp
    rcases mem_addKeys new want keys acc p hp with h | h
    · exact hacc p h
    · exact Or.inr h
  unfold newOutcomesAndConditions
  simp only
  split
  · -- both missing: new keys are distributed by name
    refine ⟨addKeys_keys_nodup _ _ _ _ hremOnd, addKeys_keys_nodup _ _ _ _ hremCnd, ?_, ?_,
      haddent _ O _ _ hremOent, haddent _ C _ _ hremCent⟩
    · intro k hk'
      rcases mem_addKeys_keys _ _ _ _ _ hk' with h | ⟨_, h2, h3⟩
      · exact hremOfacts k h
      · refine ⟨h3, ?_⟩
        simp only [List.any_eq_true, beq_iff_eq] at h2
        obtain ⟨q, hq, hqn⟩ := h2
        rw [← hqn]
        exact hOname _ ((mem_keys_iff' _ _).2 ⟨q, missing_keys_sub new O q hq, rfl⟩)
    · intro k hk'
      rcases mem_addKeys_keys _ _ _ _ _ hk' with h | ⟨_, h2, h3⟩
      · exact hremCfacts k h
      · refine ⟨h3, ?_⟩
        simp only [List.any_eq_true, beq_iff_eq] at h2
        obtain ⟨q, hq, hqn⟩ := h2
        rw [← hqn]
        exact hCname _ ((mem_keys_iff' _ _).2 ⟨q, missing_keys_sub new C q hq, rfl⟩)
  · rename_i hboth
    split
    · -- only outcomes missing: every old condition is still there
      rename_i hmO
      have hmC : (remainingAndMissing new C).2.isEmpty = true := by
        simp only [Bool.and_eq_true, Bool.not_eq_true', not_and, Bool.not_eq_false] at hboth hmO
        exact hboth hmO
      have hall := missing_empty new C hmC
      refine ⟨addKeys_keys_nodup _ _ _ _ hremOnd, hremCnd, ?_, hremCfacts, haddent _ O _ _ hremOent, hremCent⟩
      intro k hk'
      rcases mem_addKeys_keys _ _ _ _ _ hk' with h | ⟨h1, _, _⟩
      · exact hremOfacts k h
      · obtain ⟨a, b, c⟩ := hnk k h1
        exact ⟨a, hnameO hall k a b c⟩
    · rename_i hmO
      have hmO' : (remainingAndMissing new O).2.isEmpty = true := by simpa using hmO
      have hallO := missing_empty new O hmO'
      split
      · -- only conditions missing: every old outcome is still there
        refine ⟨hremOnd, addKeys_keys_nodup _ _ _ _ hremCnd, hremOfacts, ?_, hremOent, haddent _ C _ _ hremCent⟩
        intro k hk'
        rcases mem_addKeys_keys _ _ _ _ _ hk' with h | ⟨h1, _, _⟩
        · exact hremCfacts k h
        · obtain ⟨a, b, c⟩ := hnk k h1
          exact ⟨a, hnameC hallO k a b c⟩
      · exact ⟨hremOnd, hremCnd, hremOfacts, hremCfacts, hremOent, hremCent⟩

/-- without conditions there is nothing to exchange: the re-association returns no condition -/
theorem reassoc_no_conditions (kordf : List Var → List Var) (new O : Event) :
    (newOutcomesAndConditions kordf new O []).2 = [] := by
  unfold newOutcomesAndConditions remainingAndMissing
  simp only [List.filter_nil, List.isEmpty_nil, Bool.not_true, Bool.and_false, Bool.false_eq_true, if_false]
  split <;> rfl

/-! ### B. the exchange -/

theorem interveneWith_spec (o : Var) (val : Iv) (k : Var) (h : interveneWith o val = .ok k) :
    k.name = o.name ∧ k.star = o.star ∧ (o.isIv = false → k.isIv = false) ∧
    (∀ i ∈ k.ivs, i ∈ o.ivs ∨ i = val) ∧ ConsistentSubs k.ivs := by
  unfold interveneWith at h
  split at h
  · simp only at h
    split at h
    · cases h
    · rename_i hov
      simp only [Except.ok.injEq] at h
      subst h
      refine ⟨rfl, rfl, fun h => h, ?_, ?_⟩
      · intro i hi
        have := (mem_ivsCanon _ i).1 hi
        simpa using this
      · intro i hi j hj hn
        have hs : i.star = j.star := by
          by_contra hne
          apply hov
          simp only [overlapping, List.any_eq_true, Bool.and_eq_true, beq_iff_eq, bne_iff_ne, ne_eq]
          exact ⟨i, hi, j, hj, hn, hne⟩
        rcases i with ⟨n1, s1⟩
        rcases j with ⟨n2, s2⟩
        simp only at hn hs
        rw [hn, hs]
  · simp only [Except.ok.injEq] at h
    subst h
    refine ⟨rfl, rfl, fun _ => rfl, ?_, ?_⟩
    · intro i hi
      simp only [List.mem_singleton] at hi
      exact Or.inr hi
    · intro i hi j hj _
      simp only [List.mem_singleton] at hi hj
      rw [hi, hj]

/-- every entry of the exchanged outcomes comes from an old entry whose key was kept or re-subscripted -/
theorem exchangeOutcomes_spec (cf : MG Var) (outcomes : Event) (c : Var) (val : Iv) (no' : Event)
    (h : exchangeOutcomes cf outcomes c val = .ok no') :
    no'.keys.Nodup ∧ ∀ q ∈ no', ∃ p ∈ outcomes, q.2 = p.2 ∧ (q.1 = p.1 ∨ interveneWith p.1 val = .ok q.1) := by
  unfold exchangeOutcomes at h
  simp only [bind, Except.bind, pure, Except.pure] at h
  split at h
  · cases h
  · rename_i ps hps
    simp only [Except.ok.injEq] at h
    subst h
    refine ⟨(Event.ofList_spec ps).1, ?_⟩
    intro q hq
    have hq' := (Event.ofList_spec ps).2 q hq
    obtain ⟨p, hp, hfp⟩ := mapM_ok_mem_idc _ _ _ hps q hq'
    refine ⟨p, hp, ?_⟩
    unfold exchangeKey at hfp
    simp only [bind, Except.bind, pure, Except.pure] at hfp
    cases ha : cf.ancestorsInclusive [p.1] with
    | error e => rw [ha] at hfp; cases hfp
    | ok anc =>
      rw [ha] at hfp
      simp only at hfp
      split at hfp
      · cases hi : interveneWith p.1 val with
        | error e => rw [hi] at hfp; cases hfp
        | ok k' =>
          rw [hi] at hfp
          simp only [Except.ok.injEq] at hfp
          subst hfp
          exact ⟨rfl, Or.inr rfl⟩
      · simp only [Except.ok.injEq] at hfp
        subst hfp
        exact ⟨rfl, Or.inl rfl⟩

/-! ### C. rule 2 never accepts a condition named like an outcome -/

theorem firstExchangeableIn_rule2 (cf : MG Var) (os all : List Var) : ∀ (cs : List Var) (c : Var),
    firstExchangeableIn cf os all cs = .ok (some c) → rule2Applies cf os c (all.filter (fun k => k ≠ c)) = .ok true
  | [], c, h => by simp [firstExchangeableIn] at h
  | x :: xs, c, h => by
    unfold firstExchangeableIn at h
    simp only [bind, Except.bind, pure, Except.pure] at h
    cases hr : rule2Applies cf os x (all.filter (fun k => k ≠ x)) with
    | error e => rw [hr] at h; cases h
    | ok b =>
      rw [hr] at h
      cases b with
      | true =>
        simp only [if_true, Except.ok.injEq, Option.some.injEq] at h
        subst h
        exact hr
      | false =>
        simp only [Bool.false_eq_true, if_false] at h
        exact firstExchangeableIn_rule2 cf os all xs c h

theorem firstExchangeable_rule2 (cf : MG Var) (os : List Var) (cs : List Var) (c : Var)
    (h : firstExchangeable cf os cs = .ok (some c)) : rule2Applies cf os c (cs.filter (fun k => k ≠ c)) = .ok true :=
  firstExchangeableIn_rule2 cf os cs cs c h

/-- **rule 2 of the do-calculus, as tested on the counterfactual graph, never applies to a condition that is a copy of an
outcome variable** (keys not self-intervened) -/
theorem rule2_name_free {ordf : List World → List World} (hord : PermOrder ordf) {G : MG Name} (hG : G.WF)
    (hdl : ∀ e ∈ G.di, e.1 ≠ e.2) (hbl : ∀ e ∈ G.bi, e.1 ≠ e.2) {ev : Event} (hev : EvOK ev)
    (hk : ∀ k ∈ ev.keys, KeyOK G k) {g : MG Var} {nev : Event}
    (hcg : makeCounterfactualGraph ordf G ev = .ok (g, some nev)) (os : List Var) (c : Var)
    (others : List Var) (hr : rule2Applies g os c others = .ok true) (o : Var) (ho : o ∈ os) (hon : o ∈ nev.keys) (hcn : c ∈ nev.keys)
    (hno : isNotSelfIntervened o = true) (hnc : isNotSelfIntervened c = true) :
    o.name ≠ c.name := by
  intro hname
  unfold rule2Applies at hr
  have hd := allSeparated_true _ _ _ _ hr o ho
  refine MG.dSeparated_ne_true_of_adjacent _ (MG.wf_removeOutEdges _ _) o c _ ?_ ?_ ?_ hd
  · intro hm
    have := (List.mem_filter.1 hm).2
    simp at this
  · intro hm
    have := (List.mem_filter.1 hm).2
    simp at this
  · by_cases hoc : o = c
    · exact Or.inl hoc
    · right
      rw [MG.biEdge_removeOutEdges]
      exact cg_dop hord hG hdl hbl hev hk hcg o hon c hcn hno hnc hoc hname

end Cf
end Y0
