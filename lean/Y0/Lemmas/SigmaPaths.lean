/-
  Y0.Lemmas.SigmaPaths — the depth-first enumeration `simplePathsU` (model of `nx.all_simple_paths`) returns exactly
  the simple paths from `a` to `t` (`IsSimplePath`), given fuel exceeding the number of nodes; simple paths reverse.
-/
import Y0.Model.Sigma
import Y0.Lemmas.Graph
import Mathlib.Data.List.Chain
import Mathlib.Data.List.Nodup
import Mathlib.Data.List.Perm.Subperm

namespace Y0.MG
variable {α : Type} [DecidableEq α]

/-- `q` leads from `cur` to `t` along `next`, never revisiting `cur`, the nodes of `vis`, or itself -/
inductive Trail (next : α → List α) (t : α) : List α → α → List α → Prop where
  | done {vis : List α} : Trail next t vis t [t]
  | step {vis : List α} {cur c : α} {q : List α} : cur ≠ t → c ∈ next cur → c ∉ cur :: vis →
      Trail next t (cur :: vis) c q → Trail next t vis cur (cur :: q)

theorem trail_of_mem_simplePathsU (next : α → List α) (t : α) (fuel : Nat) (vis : List α) (cur : α) (r : List α)
    (h : r ∈ simplePathsU next t fuel vis cur) : ∃ q, Trail next t vis cur q ∧ r = vis.reverse ++ q := by
  induction fuel generalizing vis cur with
  | zero => simp [simplePathsU] at h
  | succ n ih =>
    simp only [simplePathsU] at h
    split at h
    · rename_i hct
      subst hct
      simp only [List.mem_singleton] at h
      exact ⟨[cur], .done, by simp [h]⟩
    · rename_i hct
      simp only [List.mem_flatMap, List.mem_filter, decide_eq_true_eq] at h
      obtain ⟨c, ⟨hc, hcv⟩, hr⟩ := h
      obtain ⟨q, hq, rfl⟩ := ih (cur :: vis) c hr
      exact ⟨cur :: q, .step hct hc hcv hq, by simp⟩

theorem mem_simplePathsU_of_trail (next : α → List α) (t : α) (vis : List α) (cur : α) (q : List α)
    (h : Trail next t vis cur q) : ∀ fuel, q.length ≤ fuel → vis.reverse ++ q ∈ simplePathsU next t fuel vis cur := by
  induction h with
  | @done vis =>
    intro fuel hf
    cases fuel with
    | zero => simp at hf
    | succ n => simp [simplePathsU]
  | @step vis cur c q hct hc hcv _ ih =>
    intro fuel hf
    cases fuel with
    | zero => simp at hf
    | succ n =>
      simp only [simplePathsU, hct, if_false, List.mem_flatMap, List.mem_filter, decide_eq_true_eq]
      refine ⟨c, ⟨hc, hcv⟩, ?_⟩
      have := ih n (by simp at hf; omega)
      simpa using this

/-- a simple path from `a` to `t`: starts at `a`, ends at `t`, no node twice, consecutive nodes linked by `next` -/
def IsSimplePath (next : α → List α) (a t : α) (q : List α) : Prop :=
  q.head? = some a ∧ q.getLast? = some t ∧ q.Nodup ∧ List.IsChain (fun x y => y ∈ next x) q

theorem trail_facts {next : α → List α} {t : α} {vis : List α} {cur : α} {q : List α}
    (h : Trail next t vis cur q) :
    q.head? = some cur ∧ q.getLast? = some t ∧ q.Nodup ∧ List.IsChain (fun x y => y ∈ next x) q ∧
      ∀ x ∈ q.tail, x ∉ cur :: vis := by
  induction h with
  | done => simp
  | @step vis cur c q hct hc hcv _ ih =>
    obtain ⟨hh, hl, hn, hch, hav⟩ := ih
    have hq : q ≠ [] := by rintro rfl; simp at hh
    obtain ⟨c', q', rfl⟩ := List.exists_cons_of_ne_nil hq
    simp only [List.head?_cons, Option.some.injEq] at hh
    subst hh
    have hall : ∀ x ∈ c' :: q', x ∉ cur :: vis := by
      intro x hx
      rcases List.mem_cons.1 hx with rfl | hx
      · exact hcv
      · exact fun hxv => hav x hx (List.mem_cons_of_mem _ hxv)
    refine ⟨rfl, by simpa [List.getLast?_cons_cons] using hl, ?_, ?_, ?_⟩
    · rw [List.nodup_cons]
      exact ⟨fun hx => hall cur hx (by simp), hn⟩
    · exact List.IsChain.cons_cons hc hch
    · intro x hx hxv
      exact hall x hx (List.mem_cons_of_mem _ (by
        rcases List.mem_cons.1 hxv with rfl | h'
        · exact absurd hx (fun hx => hall x hx (by simp))
        · exact h'))

theorem trail_of_facts {next : α → List α} {t : α} (q : List α) :
    ∀ (vis : List α) (cur : α), q.head? = some cur → q.getLast? = some t → q.Nodup →
      List.IsChain (fun x y => y ∈ next x) q → (∀ x ∈ q.tail, x ∉ vis) → Trail next t vis cur q := by
  induction q with
  | nil => intro vis cur hh; simp at hh
  | cons x q ih =>
    intro vis cur hh hl hn hch hav
    simp only [List.head?_cons, Option.some.injEq] at hh
    subst hh
    cases q with
    | nil =>
      simp only [List.getLast?_singleton, Option.some.injEq] at hl
      subst hl
      exact .done
    | cons c rest =>
      rw [List.nodup_cons] at hn
      rw [List.isChain_cons_cons] at hch
      have hlast : (c :: rest).getLast? = some t := by simpa [List.getLast?_cons_cons] using hl
      have hxt : x ≠ t := by
        rintro rfl
        exact hn.1 (List.mem_of_getLast? hlast)
      refine .step hxt hch.1 ?_ (ih (x :: vis) c rfl hlast hn.2 hch.2 ?_)
      · intro hc
        rcases List.mem_cons.1 hc with rfl | hc
        · exact hn.1 (by simp)
        · exact hav c (by simp) hc
      · intro y hy hyv
        rcases List.mem_cons.1 hyv with rfl | hyv
        · exact hn.1 (List.mem_cons_of_mem _ hy)
        · exact hav y (by simp [List.mem_of_mem_tail hy]) hyv

/-- the enumeration from `a` lists simple paths from `a` to `t` only … -/
theorem isSimplePath_of_mem (next : α → List α) (a t : α) (fuel : Nat) (q : List α)
    (h : q ∈ simplePathsU next t fuel [] a) : IsSimplePath next a t q := by
  obtain ⟨q', hq', rfl⟩ := trail_of_mem_simplePathsU next t fuel [] a q h
  obtain ⟨h1, h2, h3, h4, _⟩ := trail_facts hq'
  exact ⟨by simpa using h1, by simpa using h2, by simpa using h3, by simpa using h4⟩

/-- … and, with enough fuel, all of them -/
theorem mem_of_isSimplePath (next : α → List α) (a t : α) (fuel : Nat) (q : List α)
    (h : IsSimplePath next a t q) (hf : q.length ≤ fuel) : q ∈ simplePathsU next t fuel [] a := by
  obtain ⟨h1, h2, h3, h4⟩ := h
  have := mem_simplePathsU_of_trail next t [] a q (trail_of_facts q [] a h1 h2 h3 h4 (by simp)) fuel hf
  simpa using this

/-- reversing a simple path of a symmetric neighbourhood relation -/
theorem isSimplePath_reverse (next : α → List α) (hsym : ∀ x y, y ∈ next x → x ∈ next y) (a t : α) (q : List α)
    (h : IsSimplePath next a t q) : IsSimplePath next t a q.reverse := by
  obtain ⟨h1, h2, h3, h4⟩ := h
  refine ⟨by simpa using h2, by simpa using h1, List.nodup_reverse.2 h3, ?_⟩
  rw [List.isChain_reverse]
  exact h4.imp (fun x y hxy => hsym x y hxy)

/-- every node of a simple path starting inside a set closed under `next` lies in that set -/
theorem isSimplePath_subset (next : α → List α) (S : List α) (hS : ∀ x ∈ S, ∀ y ∈ next x, y ∈ S) (a t : α)
    (q : List α) (h : IsSimplePath next a t q) (ha : a ∈ S) : ∀ x ∈ q, x ∈ S := by
  obtain ⟨h1, -, -, h4⟩ := h
  induction q generalizing a with
  | nil => simp
  | cons y q ih =>
    simp only [List.head?_cons, Option.some.injEq] at h1
    subst h1
    intro x hx
    rcases List.mem_cons.1 hx with rfl | hx
    · exact ha
    · cases q with
      | nil => simp at hx
      | cons c rest =>
        rw [List.isChain_cons_cons] at h4
        exact ih c (hS y ha c h4.1) rfl h4.2 x hx

theorem isSimplePath_length_le (next : α → List α) (S : List α) (hS : ∀ x ∈ S, ∀ y ∈ next x, y ∈ S) (a t : α)
    (q : List α) (h : IsSimplePath next a t q) (ha : a ∈ S) : q.length ≤ S.length :=
  (List.subperm_of_subset h.2.2.1 (fun x hx => isSimplePath_subset next S hS a t q h ha x hx)).length_le

end Y0.MG
