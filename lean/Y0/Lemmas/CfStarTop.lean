/-
  Y0.Lemmas.CfStarTop — the top-level call of ID* on a single-world event, and soundness under the LITERAL reading.

  * `idStarFuel_top_shape` : after lines 1–3 the answer is `One()` or what lines 4–9 say about the event without its tautologies
  * `Clean2`               : when line 6 fires at the top, no starred-valued key is a parent (in `G`) of a non-self-intervened node of
                             the counterfactual graph (else F10/M1) and no node of the graph is self-intervened on a starred
                             subscript (else F10/M2)
  * `idStarFuel_sound_lit` : for a single-world event (any polarity) satisfying `Clean2`, the estimand under the literal reading
                             `cden2` (outcome variables take the event's values, `-X` is the literal `x` unless bound by a `Sum`, `+X` is
                             the literal `x'`) EQUALS P(event)
-/
import Y0.Lemmas.CfStarSubs

namespace Y0.Cf
open Relation MG Fscm

/-! ## the shape of the top-level call -/

theorem removeTautologies_eq_of_eqv (ev : Event) (hok : EvOK ev) (h3 : Event.eqv (removeTautologies ev) ev = true) :
    removeTautologies ev = ev := by
  unfold removeTautologies
  apply List.filter_eq_self.2
  intro p hp
  have hkey : ∃ q ∈ removeTautologies ev, q.1 = p.1 := by
    unfold Event.eqv at h3
    simp only [Bool.and_eq_true, List.all_eq_true] at h3
    have := h3.2 p hp
    cases hg : (removeTautologies ev).get? p.1 with
    | none => rw [hg] at this; cases this
    | some v => exact ⟨(p.1, v), Event.get?_mem hg, rfl⟩
  obtain ⟨q, hq, hqk⟩ := hkey
  unfold removeTautologies at hq
  rw [List.mem_filter] at hq
  have hqp : q = p := by
    have h1 := Event.get?_of_mem_nodup hok.nodup hq.1
    have h2' := Event.get?_of_mem_nodup hok.nodup hp
    rw [hqk, h2'] at h1
    rcases q with ⟨a, b⟩; rcases p with ⟨c, d⟩
    simp only at hqk h1
    subst hqk
    simp only [Option.some.injEq] at h1
    rw [h1]
  subst hqp
  exact hq.2

theorem removeTautologies_idem'' (ev : Event) : removeTautologies (removeTautologies ev) = removeTautologies ev := by
  unfold removeTautologies
  rw [List.filter_filter]
  congr 1
  funext p
  simp

/-- **lines 1–3 at the top.**  On a non-violating event, ID* with `fuel` units exhausts its fuel, or answers `One()` (all
conjuncts were tautologies), or answers what lines 4–9 say about the event without its tautologies (the recursive calls having
some fuel `f`). -/
theorem idStarFuel_top_shape (ordf : List World → List World) (dordf : List Var → List Var) (G : MG Name) (ev : Event)
    (hviol : violatesEffectiveness ev = false) (hok : EvOK ev) (hne : ev ≠ []) (fuel : Nat) :
    idStarFuel ordf dordf G fuel ev = .error (.internal "fuel") ∨
    (removeTautologies ev = [] ∧ idStarFuel ordf dordf G fuel ev = .ok .one) ∨
    ∃ f, removeTautologies ev ≠ [] ∧
      idStarFuel ordf dordf G fuel ev = idStarLines4to9 ordf dordf G (idStarFuel ordf dordf G f) (removeTautologies ev) := by
  have hemp : ev.isEmpty = false := by cases ev with | nil => exact absurd rfl hne | cons _ _ => rfl
  cases fuel with
  | zero => left; rfl
  | succ fuel =>
    simp only [idStarFuel]
    unfold idStarBody
    rw [hemp, hviol]
    simp only [Bool.false_eq_true, ↓reduceIte]
    split
    · -- line 3 fires
      cases fuel with
      | zero => left; rfl
      | succ fuel =>
        simp only [idStarFuel]
        unfold idStarBody
        rw [violates_removeTautologies' ev hviol, removeTautologies_idem'',
          eqv_self _ (evOK_removeTautologies ev hok).nodup]
        simp only [Bool.false_eq_true, ↓reduceIte, Bool.not_true]
        split
        · rename_i h0
          right; left
          exact ⟨by simpa using h0, rfl⟩
        · rename_i h0
          right; right
          exact ⟨fuel, by intro h1; rw [h1] at h0; simp at h0, rfl⟩
    · rename_i h3
      have heq := removeTautologies_eq_of_eqv ev hok (eqv_true_of_not _ _ h3)
      right; right
      exact ⟨fuel, by rw [heq]; exact hne, by rw [heq]⟩

/-! ## soundness under the literal reading -/

/-- the values the event gives its variables: `x'` to a key with a starred value and to a variable with a starred subscript, `x`
to every other variable -/
def evVal (ν : BaseValues) (s : Name → Bool) (w : World) : Valuation :=
  fun n => if s n || w.any (fun i => i.name == n && i.star) then ν n true else ν n false

/-- **when line 6 keeps the polarities**: if the counterfactual graph of the event has several districts, no key with a starred
value is a parent (in `G`) of a non-self-intervened node of the graph, and no node of the graph is self-intervened on a starred
subscript -/
def Clean2 (ordf : List World → List World) (G : MG Name) (w : World) (s : Name → Bool) (ev : Event) : Prop :=
  ∀ g nev, makeCounterfactualGraph ordf G ev = .ok (g, some nev) → isConnected (nsiSubgraph g) = .ok false →
    (∀ k ∈ nev.keys, s k.name = true → ∀ n ∈ (nsiSubgraph g).nodes, (k.name, n.name) ∉ G.di) ∧
    (∀ n ∈ g.nodes, isNotSelfIntervened n = false → ∀ i ∈ w, i.name = n.name → i.star = false)

theorem probEvent_congr_nu (M : Model) (ν₁ ν₂ : BaseValues) (ev : Event)
    (h : ∀ p ∈ ev, conjunctOf ν₁ p = conjunctOf ν₂ p) : probEvent M ν₁ ev = probEvent M ν₂ ev := by
  unfold probEvent
  rw [List.map_congr_left h]

section
variable (M : Model) (ν : BaseValues) (dom : Name → Nat) {G : MG Name}

/-- facts about the values `evVal` on a non-violating single-world event -/
theorem evVal_facts {w : World} {s : Name → Bool} {ev : Event} (hfr : Frag2 G w s ev) (hsk : SKeys s ev)
    (hviol : violatesEffectiveness ev = false) (hwc : ConsistentSubs w) :
    (∀ i ∈ w, i.star = false → evVal ν s w i.name = ν i.name false) ∧
    (∀ i ∈ w, i.star = true → evVal ν s w i.name = ν i.name true) ∧
    (∀ k ∈ ev.keys, evVal ν s w k.name = ν k.name (s k.name)) := by
  -- a key named in the world carries the polarity the world gives it
  have hself : ∀ k ∈ ev.keys, ∀ i ∈ w, i.name = k.name → i.star = s k.name := by
    intro k hk i hi hin
    obtain ⟨v, hv⟩ := (mem_keys_iff ev k).1 hk
    have hval : v = ⟨k.name, s k.name⟩ := hfr.vals _ hv
    have hivs : k.ivs = w := by rw [hfr.keysIn k hk]; rfl
    unfold violatesEffectiveness at hviol
    rw [List.any_eq_false] at hviol
    have := hviol (k, v) hv
    simp only [Bool.and_eq_true, List.any_eq_true, beq_iff_eq, bne_iff_ne, ne_eq, not_and, not_exists, not_not] at this
    have hcf : k.isCf = true := by
      unfold Var.isCf
      rw [hivs]
      cases w with
      | nil => cases hi
      | cons _ _ => rfl
    have := this hcf i (hivs ▸ hi) (by rw [hval]; exact hin)
    rw [this, hval]
  have hany : ∀ n b, (w.any (fun i => i.name == n && i.star) = b) → b = true → ∃ i ∈ w, i.name = n ∧ i.star = true := by
    intro n b hb hbt
    rw [hbt] at hb
    rw [List.any_eq_true] at hb
    obtain ⟨i, hi, h⟩ := hb
    simp only [Bool.and_eq_true, beq_iff_eq] at h
    exact ⟨i, hi, h.1, h.2⟩
  refine ⟨?_, ?_, ?_⟩
  · intro i hi his
    unfold evVal
    have h1 : s i.name = false := by
      cases hs : s i.name with
      | false => rfl
      | true =>
        obtain ⟨k, hk, hkn⟩ := List.mem_map.1 (hsk i.name hs)
        have := hself k hk i hi hkn.symm
        rw [his, hkn, hs] at this
        cases this
    have h2 : w.any (fun j => j.name == i.name && j.star) = false := by
      cases hb : w.any (fun j => j.name == i.name && j.star) with
      | false => rfl
      | true =>
        obtain ⟨j, hj, hjn, hjs⟩ := hany i.name true hb rfl
        have := hwc j hj i hi hjn
        rw [this, his] at hjs
        cases hjs
    simp [h1, h2]
  · intro i hi his
    unfold evVal
    have : w.any (fun j => j.name == i.name && j.star) = true := by
      rw [List.any_eq_true]
      exact ⟨i, hi, by simp [his]⟩
    simp [this]
  · intro k hk
    unfold evVal
    cases hs : s k.name with
    | true => simp
    | false =>
      have h2 : w.any (fun j => j.name == k.name && j.star) = false := by
        cases hb : w.any (fun j => j.name == k.name && j.star) with
        | false => rfl
        | true =>
          obtain ⟨j, hj, hjn, hjs⟩ := hany k.name true hb rfl
          have := hself k hk j hj hjn
          rw [hjs, hs] at this
          cases this
      simp [h2]

/-- reading the event with `evVal` for the unstarred symbols is reading it with `ν` -/
theorem probEvent_evVal {w : World} {s : Name → Bool} {ev : Event} (hfr : Frag2 G w s ev) (hsk : SKeys s ev)
    (hviol : violatesEffectiveness ev = false) (hwc : ConsistentSubs w) :
    probEvent M (nuOf ν (evVal ν s w)) ev = probEvent M ν ev := by
  obtain ⟨hu, _, hkv⟩ := evVal_facts ν hfr hsk hviol hwc
  apply probEvent_congr_nu
  intro p hp
  have hk : p.1 ∈ ev.keys := (mem_keys_iff ev p.1).2 ⟨p.2, hp⟩
  have hivs : p.1.ivs = w := by rw [hfr.keysIn p.1 hk]; rfl
  have hval : p.2 = ⟨p.1.name, s p.1.name⟩ := hfr.vals p hp
  unfold conjunctOf
  congr 1
  · rw [hivs]
    unfold worldOf
    apply List.map_congr_left
    intro i hi
    cases his : i.star with
    | false => simp [ivValue, nuOf, his, hu i hi his]
    | true => simp [ivValue, nuOf, his]
  · rw [hval]
    cases hs : s p.1.name with
    | false =>
      have := hkv p.1 hk
      rw [hs] at this
      simp [ivValue, nuOf, this]
    | true => simp [ivValue, nuOf]

/-- **ID\* is sound under the literal reading** on a single-world event (any polarity) that satisfies `Clean2` -/
theorem idStarFuel_sound_lit (hM : Compatible M G) (hn : ∀ pmf ∈ M.noise, pmf.sum = 1)
    (hdom : ∀ v ps us, M.f v ps us < dom v) (hG : G.WF) (hdl : ∀ e ∈ G.di, e.1 ≠ e.2) (hbl : ∀ e ∈ G.bi, e.1 ≠ e.2)
    {ordf : List World → List World} (hord : PermOrder ordf) {dordf : List Var → List Var} (hdo : PermDistrict dordf)
    (w : World) (s : Name → Bool) (ev : Event) (hne : ev ≠ []) (hfr : Frag2 G w s ev) (hsk : SKeys s ev)
    (hviol : violatesEffectiveness ev = false) (hclean : Clean2 ordf G w s (removeTautologies ev))
    (fuel : Nat) (e : Expr) (h : idStarFuel ordf dordf G fuel ev = .ok e) :
    cden2 M ν dom e (evVal ν s w) (fun n => ν n false) = probEvent M ν ev := by
  have hwc := frag2_consistent hfr hne
  obtain ⟨hu, hst, hkv⟩ := evVal_facts ν hfr hsk hviol hwc
  -- the conflating reading is right (Lemmas/CfFragC.lean) …
  have hA := idStarFuel_sound_sw M ν dom hM hn hdom hG hdl hbl hord hdo fuel w s ev e hfr hsk hviol h (evVal ν s w)
    (fun k hk hs => by rw [hkv k hk, hs]) hst
  rw [probEvent_evVal M ν hfr hsk hviol hwc] at hA
  rw [← hA]
  -- … and no unstarred subscript of the estimand names a variable the two readings read differently
  apply cden2_eq_cden
  set Safe : Name → Prop := fun X => evVal ν s w X = ν X false with hSafe
  show ∀ X ∈ allSubs e, Safe X
  rcases idStarFuel_top_shape ordf dordf G ev hviol hfr.good.ok hne fuel with hf | ⟨_, h1⟩ | ⟨f, hne', hrun⟩
  · rw [hf] at h; cases h
  · rw [h1] at h
    simp only [Except.ok.injEq] at h
    subst h
    intro X hX
    simp [allSubs] at hX
  · rw [hrun] at h
    set ev' := removeTautologies ev with hev'
    have hfr' : Frag2 G w (restrictS s ev') ev' := frag2_restrictS (frag2_removeTautologies hfr)
    have hviol' := violates_removeTautologies' ev hviol
    have hk' : KeysNSI ev' := keysNSI_of_lines123 ev' hne' hviol'
      (by rw [hev', removeTautologies_idem'']; exact eqv_self _ (evOK_removeTautologies ev hfr.good.ok).nodup)
      (evOK_removeTautologies ev hfr.good.ok)
    refine lines4to9_allSubs hG hdl hbl hord hdo _
      (fun w' s' x e' hfrx hskx hsub hx => idStarFuel_allSubs_sub hG hdl hbl hord hdo f w' s' x e' hfrx hskx hsub hx)
      w _ ev' hfr' (sKeys_restrictS s ev') hk' hu ?_ e h
    intro g nev hcg hconn
    obtain ⟨hc1, hc2⟩ := hclean g nev hcg hconn
    obtain ⟨nev', hnev', facts⟩ := frag_facts hord hG hdl hbl hfr' hne' hcg
    refine ⟨?_, fun k hk hs n hn => hc1 k hk (restrictS_true hs) n hn, hc2⟩
    intro n hn hs
    obtain ⟨hng, hnnsi⟩ := (mem_nsiSubgraph_iff g n).1 hn
    have hnw : n.name ∉ w.map (·.name) := facts.notW n hng hnnsi
    -- `s` itself is false at `n`: a starred-valued key of `ev` that line 3 removed is named in the world
    have hsn : s n.name = false := by
      cases hs' : s n.name with
      | false => rfl
      | true =>
        exfalso
        obtain ⟨k, hk, hkn⟩ := List.mem_map.1 (hsk n.name hs')
        by_cases hk' : k ∈ ev'.keys
        · have := restrictS_eq_of_key (s := s) hk'
          rw [hkn, hs, hs'] at this
          cases this
        · -- removed by line 3: redundant, hence self-intervened
          obtain ⟨v, hv⟩ := (mem_keys_iff ev k).1 hk
          have hred : isRedundant k v = true := by
            by_contra hnr
            apply hk'
            refine (mem_keys_iff ev' k).2 ⟨v, ?_⟩
            rw [hev']
            unfold removeTautologies
            rw [List.mem_filter]
            exact ⟨hv, by simpa using hnr⟩
          unfold isRedundant at hred
          simp only [Bool.and_eq_true, List.any_eq_true, beq_iff_eq] at hred
          obtain ⟨_, i, hi, hin, _⟩ := hred
          have hivs : k.ivs = w := by rw [hfr.keysIn k hk]; rfl
          rw [hivs] at hi
          apply hnw
          rw [← hkn, ← hfr.good.ok.names _ hv, ← hin]
          exact List.mem_map.2 ⟨i, hi, rfl⟩
    show evVal ν s w n.name = ν n.name false
    unfold evVal
    have h2 : w.any (fun j => j.name == n.name && j.star) = false := by
      rw [List.any_eq_false]
      intro j hj
      simp only [Bool.and_eq_true, beq_iff_eq, not_and]
      intro hjn
      exact absurd (List.mem_map.2 ⟨j, hj, hjn⟩) hnw
    simp [hsn, h2]

end

end Y0.Cf
