/-
  Y0.Lemmas.TrsoSemDefs — the semantic vocabulary of the soundness proof of TRSO (C05 `trso_sound`).

  * `denL card leaf e σ` — the denotation of an expression with the meaning of the LEAVES abstracted into a function
    `leaf pop children parents σ`.  `den env σ'` (Y0/Spec/Sem.lean) is the instance `envLeaf env σ'` on expressions
    without `QFactor` (`den_eq_denL`).  A second instance reads every leaf as the leaf that
    `activate_domain_and_interventions` would turn it into; that is how the carried expression of a source-domain run
    is given its meaning before the activation has happened.
  * `LeafSem card leaf` — what the proof needs to know about the leaves: every admissible leaf (all variables in one
    world `w`, un-starred, names allowed for that world) is a conditional `Φ(c ∪ p) / Φ(p)` of a positive set function
    `Φ pop w` that is total (`Φ ∅ = 1`), depends on its argument as a SET, and is marginalised by summing out a name.
    Instances: a compatible `Family` (Lemmas/TrsoFamEnv), its activated reading.
  * `SumND e` — every `Sum` node ranges over a duplicate-free list (the model's lists stand for `frozenset`s).
  * `Good S e` — `e` is clean (population-tagged leaves, no `Zero()`, no `QFactor`), every leaf is admissible, every
    `Sum` range is a plain regular variable that may be summed (`S.U`).  All operators of Y0.Model.TrDsl preserve it
    (Lemmas/TrsoVocab, TrsoClean) and it implies positivity of the denotation of every sub-expression.
-/
import Y0.Lemmas.TrsoClean
import Y0.Lemmas.Prob
import Y0.Spec.Sem

namespace Y0
namespace Trso
open TrDsl

/-- the meaning of a leaf `P[pop](children | parents)` as a function of the value assignment -/
abbrev LeafFn := Option Var → List Var → List Var → Val → Rat

mutual
/-- denotation of an expression relative to a meaning of its leaves (a `QFactor` denotes 0: none occurs) -/
def denL (card : Name → Nat) (leaf : LeafFn) : Expr → Val → Rat
  | .prob pop c p, σ => leaf pop c p σ
  | .prod fs, σ => denLProd card leaf fs σ
  | .sum e r, σ => sumVars card (r.map (·.name)) (fun τ => denL card leaf e τ) σ
  | .frac n d, σ => denL card leaf n σ / denL card leaf d σ
  | .one, _ => 1
  | .zero, _ => 0
  | .q _ _, _ => 0
def denLProd (card : Name → Nat) (leaf : LeafFn) : List Expr → Val → Rat
  | [], _ => 1
  | e :: es, σ => denL card leaf e σ * denLProd card leaf es σ
end

/-- the leaves as `den env σ'` reads them -/
def envLeaf (env : Env) (σ' : Val) : LeafFn := fun pop c p σ =>
  env.pr (pop.map (·.name)) ((c ++ p).map (Var.atom σ σ')) / env.pr (pop.map (·.name)) (p.map (Var.atom σ σ'))

mutual
/-- no `QFactor` -/
def QFree : Expr → Prop
  | .prod fs => QFreeList fs
  | .sum e _ => QFree e
  | .frac n d => QFree n ∧ QFree d
  | .q _ _ => False
  | _ => True
def QFreeList : List Expr → Prop
  | [] => True
  | e :: es => QFree e ∧ QFreeList es
end

mutual
theorem den_eq_denL (env : Env) (σ' : Val) : ∀ (e : Expr), QFree e → ∀ σ, den env σ' e σ = denL env.card (envLeaf env σ') e σ
  | .prob _ _ _, _, σ => by simp [den, denL, envLeaf]
  | .prod fs, h, σ => by simp only [den, denL]; exact denProd_eq_denLProd env σ' fs h σ
  | .sum e r, h, σ => by
    simp only [den, denL]
    congr 1
    funext τ
    exact den_eq_denL env σ' e h τ
  | .frac n d, h, σ => by simp only [den, denL]; rw [den_eq_denL env σ' n h.1 σ, den_eq_denL env σ' d h.2 σ]
  | .one, _, _ => by simp [den, denL]
  | .zero, _, _ => by simp [den, denL]
  | .q _ _, h, _ => h.elim
theorem denProd_eq_denLProd (env : Env) (σ' : Val) : ∀ (fs : List Expr), QFreeList fs →
    ∀ σ, denProd env σ' fs σ = denLProd env.card (envLeaf env σ') fs σ
  | [], _, _ => by simp [denProd, denLProd]
  | e :: es, h, σ => by
    simp only [denProd, denLProd]
    rw [den_eq_denL env σ' e h.1 σ, denProd_eq_denLProd env σ' es h.2 σ]
end

mutual
theorem qfree_of_clean : ∀ (e : Expr), Clean e → QFree e
  | .prob (some _) _ _, _ => trivial
  | .prob none _ _, h => h.elim
  | .prod fs, h => qfreeList_of_clean fs h
  | .sum e _, h => qfree_of_clean e h
  | .frac n d, h => ⟨qfree_of_clean n h.1, qfree_of_clean d h.2⟩
  | .one, _ => trivial
  | .zero, h => h.elim
  | .q _ _, h => h.elim
theorem qfreeList_of_clean : ∀ (es : List Expr), CleanList es → QFreeList es
  | [], _ => trivial
  | e :: es, h => ⟨qfree_of_clean e h.1, qfreeList_of_clean es h.2⟩
end

/-- `den` of a clean expression is `denL` at the leaves of the environment -/
theorem den_eq_denL_of_clean (env : Env) (σ' : Val) {e : Expr} (h : Clean e) (σ : Val) :
    den env σ' e σ = denL env.card (envLeaf env σ') e σ := den_eq_denL env σ' e (qfree_of_clean e h) σ

mutual
/-- every `Sum` ranges over a duplicate-free list of variables (Python: `ranges` is a `frozenset`) -/
def SumND : Expr → Prop
  | .prod fs => SumNDList fs
  | .sum e r => SumND e ∧ r.Nodup
  | .frac n d => SumND n ∧ SumND d
  | _ => True
def SumNDList : List Expr → Prop
  | [] => True
  | e :: es => SumND e ∧ SumNDList es
end

theorem sumNDList_iff (es : List Expr) : SumNDList es ↔ ∀ e ∈ es, SumND e := by
  induction es with
  | nil => simp [SumNDList]
  | cons e es ih => simp [SumNDList, ih]

/-! ### what is assumed about the leaves -/

/-- the base names of a list of variables -/
abbrev vnames (vs : List Var) : List Name := vs.map (·.name)

/-- **the leaf laws.**  Every leaf whose variables all carry the subscripts `w` (an admissible world `okW pop w`), are
un-starred and have names allowed for that world (`okN`) denotes `Φ pop w (children ∪ parents) / Φ pop w parents`
where `Φ pop w` is a positive, total set function that sums out (`marg`) over the names that may be summed (`U`). -/
structure LeafSem (card : Name → Nat) (leaf : LeafFn) where
  okW : Option Var → List Iv → Prop
  okN : Option Var → List Iv → Name → Prop
  U : Name → Prop
  Φ : Option Var → List Iv → List Name → Val → Rat
  card_pos : ∀ x, 0 < card x
  leaf_eq : ∀ pop w c p, okW pop w → (∀ v ∈ c ++ p, v.ivs = w ∧ v.star = none ∧ v.isIv = false ∧ okN pop w v.name) →
    ∀ σ, leaf pop c p σ = Φ pop w (vnames (c ++ p)) σ / Φ pop w (vnames p) σ
  nil : ∀ pop w, okW pop w → ∀ σ, Φ pop w [] σ = 1
  congr : ∀ pop w E E', (∀ v, v ∈ E ↔ v ∈ E') → Φ pop w E = Φ pop w E'
  pos : ∀ pop w E, okW pop w → ∀ σ, 0 < Φ pop w E σ
  marg : ∀ pop w x E, okW pop w → okN pop w x → U x → x ∉ E → ∀ σ, sumVar card x (Φ pop w (x :: E)) σ = Φ pop w E σ

variable {card : Name → Nat} {leaf : LeafFn}

/-- admissible leaves: all variables in one admissible world, un-starred, with allowed names -/
def LeafSem.Adm (S : LeafSem card leaf) (pop : Option Var) (c p : List Var) : Prop :=
  ∃ w, S.okW pop w ∧ ∀ v ∈ c ++ p, v.ivs = w ∧ v.star = none ∧ v.isIv = false ∧ S.okN pop w v.name

theorem LeafSem.adm_mono (S : LeafSem card leaf) : LeafMono S.Adm := by
  intro pop c p c' p' ⟨w, hw, h⟩ hc hp
  refine ⟨w, hw, fun v hv => ?_⟩
  rcases List.mem_append.1 hv with hv | hv
  · exact h v (List.mem_append_left _ (hc v hv))
  · exact h v (List.mem_append_right _ (hp v hv))

/-- a `Sum` range: a plain regular variable whose name may be summed -/
def LeafSem.Rng (S : LeafSem card leaf) (v : Var) : Prop := PlainReg v ∧ S.U v.name

/-- clean, admissible leaves, summable ranges -/
def Good (S : LeafSem card leaf) (e : Expr) : Prop := Clean e ∧ Wf S.Adm S.Rng e

def GoodList (S : LeafSem card leaf) (es : List Expr) : Prop := CleanList es ∧ WfList S.Adm S.Rng es

theorem goodList_iff (S : LeafSem card leaf) (es : List Expr) : GoodList S es ↔ ∀ e ∈ es, Good S e := by
  unfold GoodList Good
  rw [cleanList_iff, wfList_iff]
  constructor
  · rintro ⟨h1, h2⟩ e he; exact ⟨h1 e he, h2 e he⟩
  · intro h; exact ⟨fun e he => (h e he).1, fun e he => (h e he).2⟩

end Trso
end Y0
