/-
  Y0.Lemmas.SepSort — `sortLe` (the model of Python's `sorted` on names) sorts, permutes, is idempotent.
-/
import Y0.Model.Sep
import Y0.Lemmas.Graph
import Mathlib.Data.List.Perm.Basic
import Mathlib.Data.List.Nodup

namespace Y0

theorem insertLe_perm (x : Nat) (l : List Nat) : (insertLe x l).Perm (x :: l) := by
  induction l with
  | nil => simp [insertLe]
  | cons y ys ih =>
    simp only [insertLe]
    split
    · exact List.Perm.refl _
    · exact (List.Perm.cons y ih).trans (List.Perm.swap x y ys)

theorem sortLe_perm (l : List Nat) : (sortLe l).Perm l := by
  induction l with
  | nil => simp [sortLe]
  | cons x xs ih =>
    have : sortLe (x :: xs) = insertLe x (sortLe xs) := rfl
    rw [this]
    exact (insertLe_perm x _).trans (List.Perm.cons x ih)

@[simp] theorem mem_sortLe {l : List Nat} {x : Nat} : x ∈ sortLe l ↔ x ∈ l := (sortLe_perm l).mem_iff

theorem insertLe_sorted (x : Nat) (l : List Nat) (h : l.Pairwise (· ≤ ·)) :
    (insertLe x l).Pairwise (· ≤ ·) := by
  induction l with
  | nil => simp [insertLe]
  | cons y ys ih =>
    simp only [insertLe]
    rw [List.pairwise_cons] at h
    split
    · rename_i hxy
      rw [List.pairwise_cons]
      refine ⟨?_, List.pairwise_cons.2 h⟩
      intro z hz
      rcases List.mem_cons.1 hz with rfl | hz
      · exact hxy
      · exact Nat.le_trans hxy (h.1 z hz)
    · rename_i hxy
      rw [List.pairwise_cons]
      refine ⟨?_, ih h.2⟩
      intro z hz
      rcases List.mem_cons.1 ((insertLe_perm x ys).mem_iff.1 hz) with rfl | hz
      · omega
      · exact h.1 z hz

theorem sortLe_sorted (l : List Nat) : (sortLe l).Pairwise (· ≤ ·) := by
  induction l with
  | nil => simp [sortLe]
  | cons x xs ih => exact insertLe_sorted x _ ih

theorem insertLe_of_le_all (x : Nat) (l : List Nat) (h : ∀ y ∈ l, x ≤ y) : insertLe x l = x :: l := by
  cases l with
  | nil => rfl
  | cons y ys => simp [insertLe, h y (by simp)]

theorem sortLe_of_sorted (l : List Nat) (h : l.Pairwise (· ≤ ·)) : sortLe l = l := by
  induction l with
  | nil => rfl
  | cons x xs ih =>
    rw [List.pairwise_cons] at h
    have : sortLe (x :: xs) = insertLe x (sortLe xs) := rfl
    rw [this, ih h.2, insertLe_of_le_all x xs h.1]

theorem sortLe_idem (l : List Nat) : sortLe (sortLe l) = sortLe l := sortLe_of_sorted _ (sortLe_sorted l)

theorem sortLe_nodup (l : List Nat) (h : l.Nodup) : (sortLe l).Nodup := (sortLe_perm l).nodup_iff.2 h

/-- a strictly increasing list: sorted and duplicate free -/
theorem sortLe_dedup_strict (l : List Nat) : (sortLe (dedup' l)).Pairwise (· < ·) := by
  have h1 := sortLe_sorted (dedup' l)
  have h2 := sortLe_nodup _ (nodup_dedup' l)
  have h3 : (sortLe (dedup' l)).Pairwise (· ≠ ·) := h2
  exact (h1.and h3).imp (fun ⟨h, h'⟩ => Nat.lt_of_le_of_ne h h')

end Y0
