/-
  Y0.Lemmas.IdStep — inversion of one pass through `identify` (`Y0.step`): which line fired and with what data.
  Every later development about ID (totality, vocabulary, soundness) starts from `step_ok`.
-/
import Y0.Lemmas.IdUnfold

namespace Y0
open IdDsl IdAux

/-- lines 1-3 did not fire: `X ≠ ∅`, `V = An(Y)_G`, `V ∖ X ⊆ An(Y)` in `G` with the edges into `X` removed -/
structure Pre (I : IdIn) (anc anc' : List Name) : Prop where
  hX : I.X ≠ []
  hanc : I.G.ancestorsInclusive I.Y = .ok anc
  hall : diff' I.G.nodes anc = []
  hanc' : (I.G.removeInEdges I.X).ancestorsInclusive I.Y = .ok anc'
  hno : diff' (diff' I.G.nodes I.X) anc' = []

/-- the successful outcomes of one pass through `identify` -/
inductive StepCase (topo : MG Name → Except Err (List Name)) (I : IdIn) : Step → Prop
  | l1 : I.X = [] → StepCase topo I (.done (sumSafe I.est (diff' I.G.nodes I.Y)))
  | l2 (anc : List Name) : I.X ≠ [] → I.G.ancestorsInclusive I.Y = .ok anc → diff' I.G.nodes anc ≠ [] →
      StepCase topo I (.tail (line2 I anc))
  | l3 (anc anc' : List Name) : I.X ≠ [] → I.G.ancestorsInclusive I.Y = .ok anc → diff' I.G.nodes anc = [] →
      (I.G.removeInEdges I.X).ancestorsInclusive I.Y = .ok anc' →
      diff' (diff' I.G.nodes I.X) anc' ≠ [] →
      StepCase topo I (.tail (line3 I (diff' (diff' I.G.nodes I.X) anc')))
  | l4 (anc anc' : List Name) : Pre I anc anc' → (I.G.removeNodes I.X).nodes ≠ [] →
      (I.G.removeNodes I.X).districts.length ≠ 1 →
      StepCase topo I (line4 I (I.G.removeNodes I.X).districts)
  | l6 (anc anc' S D order : List Name) (fs : List Expr) : Pre I anc anc' → (I.G.removeNodes I.X).nodes ≠ [] →
      I.G.nodes ≠ [] → (I.G.removeNodes I.X).districts = [S] → I.G.districts.length ≠ 1 →
      D ∈ I.G.districts → seteq' D S = true → topo I.G = .ok order → S.mapM (pParents order I.est) = .ok fs →
      StepCase topo I (.done (sumSafe (productSafe fs) (diff' S I.Y)))
  | l7 (anc anc' S D order : List Name) (fs : List Expr) : Pre I anc anc' → (I.G.removeNodes I.X).nodes ≠ [] →
      I.G.nodes ≠ [] → (I.G.removeNodes I.X).districts = [S] → I.G.districts.length ≠ 1 →
      (∀ D' ∈ I.G.districts, seteq' D' S = false) →
      I.G.districts.find? (fun D => properSubset S D) = some D →
      topo I.G = .ok order → D.mapM (pParents order I.est) = .ok fs →
      StepCase topo I (.tail { G := I.G.subgraph D, X := inter' I.X D, Y := I.Y, est := productSafe fs })

theorem isConnected_ok {G : MG Name} {b : Bool} (h : G.isConnected = .ok b) :
    G.nodes ≠ [] ∧ b = (G.districts.length == 1) := by
  unfold MG.isConnected at h
  split at h
  · cases h
  · rename_i hne
    simp only [Except.ok.injEq] at h
    exact ⟨by simpa using hne, h.symm⟩

theorem getSingleDistrict_ok {G : MG Name} {S : List Name} (h : getSingleDistrict G = .ok S) :
    G.districts = [S] := by
  unfold getSingleDistrict at h
  split at h
  · rename_i d hd; simp only [Except.ok.injEq] at h; subst h; exact hd
  · cases h

theorem line6_ok {topo : MG Name → Except Err (List Name)} {I : IdIn} {S : List Name} {s : Step}
    (h : line6 topo I S = .ok s) :
    ∃ order fs, topo I.G = .ok order ∧ S.mapM (pParents order I.est) = .ok fs ∧
      s = .done (sumSafe (productSafe fs) (diff' S I.Y)) := by
  unfold line6 at h
  simp only [bind, Except.bind, pure, Except.pure] at h
  cases ho : topo I.G with
  | error e => rw [ho] at h; cases h
  | ok order =>
    rw [ho] at h
    simp only at h
    cases hf : S.mapM (pParents order I.est) with
    | error e => rw [hf] at h; cases h
    | ok fs =>
      rw [hf] at h
      simp only [Except.ok.injEq] at h
      exact ⟨order, fs, rfl, hf, h.symm⟩

theorem line7_ok {topo : MG Name → Except Err (List Name)} {I : IdIn} {S : List Name} {s : Step}
    (h : line7 topo I S = .ok s) :
    ∃ D order fs, I.G.districts.find? (fun D => properSubset S D) = some D ∧ topo I.G = .ok order ∧
      D.mapM (pParents order I.est) = .ok fs ∧
      s = .tail { G := I.G.subgraph D, X := inter' I.X D, Y := I.Y, est := productSafe fs } := by
  unfold line7 at h
  split at h
  · rename_i D hD
    simp only [bind, Except.bind, pure, Except.pure] at h
    cases ho : topo I.G with
    | error e => rw [ho] at h; cases h
    | ok order =>
      rw [ho] at h
      simp only at h
      cases hf : D.mapM (pParents order I.est) with
      | error e => rw [hf] at h; cases h
      | ok fs =>
        rw [hf] at h
        simp only [Except.ok.injEq] at h
        exact ⟨D, order, fs, hD, rfl, hf, h.symm⟩
  · cases h

theorem stepB_ok {topo : MG Name → Except Err (List Name)} {I : IdIn} {s : Step} {anc anc' : List Name}
    (hpre : Pre I anc anc') (h : stepB topo I = .ok s) : StepCase topo I s := by
  unfold stepB at h
  simp only at h
  split at h
  · cases h
  · rename_i hc
    obtain ⟨hne, hb⟩ := isConnected_ok hc
    simp only [Except.ok.injEq] at h
    subst h
    exact .l4 anc anc' hpre hne (by simpa using hb.symm)
  · rename_i hc
    obtain ⟨hne, hb⟩ := isConnected_ok hc
    split at h
    · cases h
    · cases h
    · rename_i hc2
      obtain ⟨hne2, hb2⟩ := isConnected_ok hc2
      split at h
      · cases h
      · rename_i S hS
        have hS' := getSingleDistrict_ok hS
        split at h
        · rename_i hany
          obtain ⟨order, fs, ho, hf, rfl⟩ := line6_ok h
          obtain ⟨D, hD, hDS⟩ := List.any_eq_true.mp hany
          exact .l6 anc anc' S D order fs hpre hne hne2 hS' (by simpa using hb2.symm) hD hDS ho hf
        · rename_i hany
          obtain ⟨D, order, fs, hD, ho, hf, rfl⟩ := line7_ok h
          refine .l7 anc anc' S D order fs hpre hne hne2 hS' (by simpa using hb2.symm) ?_ hD ho hf
          intro D' hD'
          cases hs : seteq' D' S with
          | false => rfl
          | true => exact absurd (List.any_eq_true.mpr ⟨D', hD', hs⟩) hany

theorem step_ok {topo : MG Name → Except Err (List Name)} {I : IdIn} {s : Step}
    (h : step topo I = .ok s) : StepCase topo I s := by
  unfold step at h
  split at h
  · rename_i hX
    simp only [Except.ok.injEq] at h
    subst h
    exact .l1 (by simpa using hX)
  · rename_i hX
    have hX' : I.X ≠ [] := by simpa using hX
    split at h
    · cases h
    · rename_i anc hanc
      split at h
      · rename_i hd
        simp only [Except.ok.injEq] at h
        subst h
        exact .l2 anc hX' hanc (by simpa using hd)
      · rename_i hd
        have hd' : diff' I.G.nodes anc = [] := by simpa using hd
        split at h
        · cases h
        · rename_i anc' hanc'
          simp only at h
          split at h
          · rename_i hn
            simp only [Except.ok.injEq] at h
            subst h
            exact .l3 anc anc' hX' hanc hd' hanc' (by simpa using hn)
          · rename_i hn
            exact stepB_ok ⟨hX', hanc, hd', hanc', by simpa using hn⟩ h

end Y0
