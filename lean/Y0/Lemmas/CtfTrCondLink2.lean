/-
  Y0.Lemmas.CtfTrCondLink2 — the members of the ancestral sets of a conditional query in the class `ctfTRSoundClass`,
  each looked at in the full world of its root, satisfy the hypotheses `CondSem` of the semantic core
  (Y0/Lemmas/CtfTrCondSem.lean): `condSem_of_link`.
-/
import Y0.Lemmas.CtfTrCondLink
import Y0.Lemmas.CtfTrFactorSum
import Y0.Lemmas.DslList

namespace Y0.CtfTr
open Fscm Ctf Relation Y0.MG

/-- the queried variables as items: vertex and world -/
def rootItems (ν : BaseValues) (e : Event) : List Item := e.map fun p => (p.1.name, worldOf ν p.1.ivs)

/-- the members of the ancestral sets, each in the full world of its root -/
def setItems (ν : BaseValues) (roots : List Var) (sets : List (List Var)) : List Item :=
  (roots.zip sets).flatMap fun rs => rs.2.map fun w => (w.name, worldOf ν rs.1.ivs)

theorem mem_setItems (ν : BaseValues) (roots : List Var) (sets : List (List Var)) (i : Item) :
    i ∈ setItems ν roots sets ↔ ∃ rs ∈ roots.zip sets, ∃ w ∈ rs.2, i = (w.name, worldOf ν rs.1.ivs) := by
  unfold setItems
  simp only [List.mem_flatMap, List.mem_map]
  constructor
  · rintro ⟨rs, hrs, w, hw, rfl⟩; exact ⟨rs, hrs, w, hw, rfl⟩
  · rintro ⟨rs, hrs, w, hw, rfl⟩; exact ⟨rs, hrs, w, hw, rfl⟩

theorem forced_worldOf_isSome (ν : BaseValues) (S : List Iv) (a : Name) :
    (forced (worldOf ν S) a).isSome = true ↔ a ∈ S.map (·.name) := by
  constructor
  · intro h
    by_contra hn
    rw [forced_worldOf_none ν S a hn] at h
    cases h
  · intro h
    obtain ⟨x, hx⟩ := forced_worldOf_mem ν S a h
    rw [hx]; rfl

/-- everything the link needs, bundled -/
structure LinkData (g : MG Name) (o c : Event) (sets comps : List (List Var)) (M : Model) (ν : BaseValues)
    (σ : Y0.Val) : Prop where
  hg : g.WF
  cls : LinkClass g o c comps
  l1 : Line1 g o c sets comps
  hM : Compatible M g
  nodes : ∀ p ∈ o ++ c, p.1.name ∈ g.nodes
  read : EventReading ν σ (o ++ c)

namespace LinkData
variable {g : MG Name} {o c : Event} {sets comps : List (List Var)} {M : Model} {ν : BaseValues} {σ : Y0.Val}

/-- the facts about one root and its ancestral set -/
theorem root (L : LinkData g o c sets comps M ν σ) (rs : Var × List Var)
    (hrs : rs ∈ (unionVars (eventVars c) (eventVars o)).zip sets) :
    ∃ (cs : List Name) (p : Var × Ctf.Val), p ∈ o ++ c ∧ p.1 = rs.1 ∧ rs.2 ∈ sets ∧
      (∀ w ∈ rs.2, IsCtfAncestor (g.removeOutEdges cs) rs.1 w) ∧
      (∀ w, IsCtfAncestor (g.removeOutEdges cs) rs.1 w → ∃ w' ∈ rs.2, SameVar w' w) ∧
      (∀ n ∈ cs, ∃ x ∈ eventVars c, ∃ m, minimize g x = .ok m ∧ m.name = n ∧ IsCtfAncestor g rs.1 m) := by
  obtain ⟨cs, hs, hc, hcut⟩ := root_facts g L.hg (eventVars c) rs.1 rs.2 (L.l1.each rs hrs)
  have hmem := List.of_mem_zip (show (rs.1, rs.2) ∈ _ from hrs)
  obtain ⟨p, hp, hpr⟩ := (mem_roots o c rs.1).1 hmem.1
  exact ⟨cs, p, hp, hpr, hmem.2, hs, hc, hcut⟩

theorem member_node (L : LinkData g o c sets comps M ν σ) (r : Var) (hr : r.name ∈ g.nodes) (cs : List Name) (w : Var)
    (hw : IsCtfAncestor (g.removeOutEdges cs) r w) : w.name ∈ g.nodes := by
  have := ancUnder_mem_nodes (g.removeOutEdges cs) (wf_fromEdges _ _ _) (subNames r) r.name w.name
    ((mem_nodes_removeOutEdges g L.hg cs r.name).2 hr) hw.1
  exact (mem_nodes_removeOutEdges g L.hg cs w.name).1 this

/-- a member of a set is a member of the flattened components -/
theorem member_flat (L : LinkData g o c sets comps M ν σ) (t : List Var) (ht : t ∈ sets) (w : Var) (hw : w ∈ t) :
    w ∈ comps.flatten := by
  obtain ⟨C, hC, hwC⟩ := L.l1.cover t ht w hw
  exact List.mem_flatten.2 ⟨C, hC, hwC⟩

/-- **the members of the ancestral sets satisfy the hypotheses of the semantic core** -/
theorem condSem (L : LinkData g o c sets comps M ν σ) :
    CondSem M σ (setItems ν (unionVars (eventVars c) (eventVars o)) sets) (rootItems ν (o ++ c)) (rootItems ν c)
      (diff' (dedup' ((setItems ν (unionVars (eventVars c) (eventVars o)) sets).map (·.1)))
        ((rootItems ν (o ++ c)).map (·.1))) where
  nodup := L.hM.nodup
  topo := L.hM.topo
  mem := by
    intro i hi
    obtain ⟨rs, hrs, w, hw, rfl⟩ := (mem_setItems ν _ sets i).1 hi
    obtain ⟨cs, p, hp, hpr, _, hs, _, _⟩ := L.root rs hrs
    have hrn : rs.1.name ∈ g.nodes := by rw [← hpr]; exact L.nodes p hp
    have hself : rs.1.name ∉ subNames rs.1 := by rw [← hpr]; exact L.cls.noSelf p hp
    refine ⟨(L.hM.perm.mem_iff).2 (L.member_node rs.1 hrn cs w (hs w hw)), ?_⟩
    exact forced_worldOf_none ν rs.1.ivs w.name (ctfAnc_not_sub (g.removeOutEdges cs) rs.1 hself w (hs w hw))
  root := by
    intro j hj
    obtain ⟨p, hp, rfl⟩ := List.mem_map.1 hj
    have hpr : p.1 ∈ unionVars (eventVars c) (eventVars o) := (mem_roots o c p.1).2 ⟨p, hp, rfl⟩
    obtain ⟨A, hA⟩ := exists_zip_left _ sets L.l1.len p.1 hpr
    obtain ⟨cs, _, _, _, _, _, hc, _⟩ := L.root (p.1, A) hA
    obtain ⟨w, hw, hwn⟩ := root_self g p.1 A cs hc
    exact (mem_setItems ν _ sets _).2 ⟨(p.1, A), hA, w, hw, by rw [hwn]⟩
  cond := by
    intro j hj
    obtain ⟨p, hp, rfl⟩ := List.mem_map.1 hj
    exact List.mem_map.2 ⟨p, List.mem_append_right _ hp, rfl⟩
  range_iff := by
    intro n
    rw [mem_diff', mem_dedup', List.mem_map, List.mem_map]
  lit := by
    intro i hi p hp x hx
    obtain ⟨rs, hrs, w, hw, rfl⟩ := (mem_setItems ν _ sets i).1 hi
    obtain ⟨cs, p0, hp0, hpr, _, _, _, _⟩ := L.root rs hrs
    simp only at hx hp
    have hmem : p ∈ rs.1.ivs.map (·.name) := forced_worldOf_some_mem ν rs.1.ivs p x hx
    obtain ⟨iv, hiv, hivn⟩ := List.mem_map.1 hmem
    have hcons : ConsistentSubs rs.1.ivs := by rw [← hpr]; exact L.cls.cons p0 hp0
    have hval : x = ivValue ν iv := by
      have := forced_worldOf ν rs.1.ivs iv hiv hcons
      rw [hivn, hx] at this
      exact Option.some.inj this
    have hiv0 : iv ∈ p0.1.ivs := by rw [hpr]; exact hiv
    refine ⟨?_, ?_⟩
    · rw [hval, ← hivn]
      exact (L.read.sub p0 hp0 iv hiv0).symm
    · rw [mem_diff', mem_dedup', List.mem_map]
      rintro ⟨⟨j, hj, hjn⟩, hnot⟩
      obtain ⟨rs', hrs', w', hw', rfl⟩ := (mem_setItems ν _ sets j).1 hj
      have hz := List.of_mem_zip (show (rs'.1, rs'.2) ∈ _ from hrs')
      have hflat := L.member_flat rs'.2 hz.2 w' hw'
      have := L.cls.lit p0 hp0 iv hiv0 ⟨w', hflat, by rw [hivn]; exact hjn⟩
      unfold eventNames at this
      rw [mem_dedup', List.mem_map] at this
      obtain ⟨q, hq, hqn⟩ := this
      apply hnot
      refine List.mem_map.2 ⟨(q.1.name, worldOf ν q.1.ivs), List.mem_map.2 ⟨q, List.mem_append_right _ hq, rfl⟩, ?_⟩
      rw [← hivn]; exact hqn
  parents := by
    intro i hi p hp hnone
    obtain ⟨rs, hrs, w, hw, rfl⟩ := (mem_setItems ν _ sets i).1 hi
    obtain ⟨cs, p0, hp0, hpr, _, hs, hc, hcut⟩ := L.root rs hrs
    simp only at hnone hp
    have hedge : g.DiEdge p w.name := L.hM.pa_sub w.name p hp
    have hcons : ConsistentSubs rs.1.ivs := by rw [← hpr]; exact L.cls.cons p0 hp0
    rcases root_parent g rs.1 rs.2 cs hs hc w hw p hedge with h1 | h2 | h3
    · obtain ⟨x, hx⟩ := forced_worldOf_mem ν rs.1.ivs p h1
      rw [hx] at hnone; cases hnone
    · left
      obtain ⟨x, hx, hxn, hsame⟩ := root_cut_sameRV g (eventVars c) rs.1 p hcons (hcut p h2) M L.hM ν
      obtain ⟨q, hq, rfl⟩ := (mem_eventVars c x).1 hx
      exact ⟨(q.1.name, worldOf ν q.1.ivs), List.mem_map.2 ⟨q, hq, rfl⟩, hxn, hsame⟩
    · right
      obtain ⟨w', hw', hn'⟩ := h3
      exact (mem_setItems ν _ sets _).2 ⟨rs, hrs, w', hw', by rw [hn']⟩
  oneWorld := by
    intro i hi j hj hij p hp
    obtain ⟨rs, hrs, w, hw, rfl⟩ := (mem_setItems ν _ sets i).1 hi
    obtain ⟨rs', hrs', w', hw', rfl⟩ := (mem_setItems ν _ sets j).1 hj
    obtain ⟨cs, p0, hp0, hpr, hset, hs, _, hcut⟩ := L.root rs hrs
    obtain ⟨cs', p0', hp0', hpr', hset', hs', _, hcut'⟩ := L.root rs' hrs'
    simp only at hij hp ⊢
    have hww : w = w' := L.cls.oneWorld w (L.member_flat rs.2 hset w hw) w' (L.member_flat rs'.2 hset' w' hw') hij
    subst hww
    have hedge : g.DiEdge p w.name := L.hM.pa_sub w.name p hp
    have hself : rs.1.name ∉ subNames rs.1 := by rw [← hpr]; exact L.cls.noSelf p0 hp0
    have hself' : rs'.1.name ∉ subNames rs'.1 := by rw [← hpr']; exact L.cls.noSelf p0' hp0'
    have e1 := root_sub_iff g rs.1 rs.2 cs hself hs
      (fun n hn => by obtain ⟨_, _, m, _, hmn, hm⟩ := hcut n hn; exact ⟨m, hmn, hm⟩) w hw p hedge
    have e2 := root_sub_iff g rs'.1 rs'.2 cs' hself' hs'
      (fun n hn => by obtain ⟨_, _, m, _, hmn, hm⟩ := hcut' n hn; exact ⟨m, hmn, hm⟩) w hw' p hedge
    rw [Bool.eq_iff_iff, forced_worldOf_isSome, forced_worldOf_isSome]
    exact e1.trans e2.symm

end LinkData

end Y0.CtfTr
