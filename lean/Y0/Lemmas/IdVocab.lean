/-
  Y0.Lemmas.IdVocab — the vocabulary predicate of property C06 for ID / IDC (`ObsOnly`) and its preservation
  by the DSL constructors of Y0.Model.IdDsl.
-/
import Y0.Lemmas.IdStep
import Mathlib.Data.List.Basic

namespace Y0
open IdDsl IdAux

/-- a plain variable (no star, not an intervention, no subscripts) whose name is in `V` -/
def Var.PlainIn (V : List Name) (v : Var) : Prop := v = Var.plain v.name ∧ v.name ∈ V

/-- `e` contains only observational probability terms `P(children | parents)` over variables of `V`: no population
tag, no intervention subscripts, no starred or counterfactual variables, sums range over variables of `V`, no
Q-factors -/
inductive ObsOnly (V : List Name) : Expr → Prop
  | prob (c p : List Var) : (∀ v ∈ c, v.PlainIn V) → (∀ v ∈ p, v.PlainIn V) → ObsOnly V (.prob none c p)
  | prod (fs : List Expr) : (∀ f ∈ fs, ObsOnly V f) → ObsOnly V (.prod fs)
  | sum (e : Expr) (r : List Var) : ObsOnly V e → (∀ v ∈ r, v.PlainIn V) → ObsOnly V (.sum e r)
  | frac (n d : Expr) : ObsOnly V n → ObsOnly V d → ObsOnly V (.frac n d)
  | one : ObsOnly V .one
  | zero : ObsOnly V .zero

theorem IdAux.mem_insertNat {x y : Name} {l : List Name} : y ∈ insertNat x l ↔ y = x ∨ y ∈ l := by
  induction l with
  | nil => simp [insertNat]
  | cons a l ih =>
    simp only [insertNat]
    split
    · simp
    · split
      · rename_i h; subst h; simp
      · simp only [List.mem_cons, ih]; tauto

theorem IdAux.mem_sortNames {y : Name} {l : List Name} : y ∈ sortNames l ↔ y ∈ l := by
  induction l with
  | nil => simp [sortNames]
  | cons a l ih =>
    unfold sortNames at ih ⊢
    simp only [List.foldr_cons, mem_insertNat, ih, List.mem_cons]

theorem IdAux.plainIn_of_mem_plainVars {V l : List Name} (h : ∀ x ∈ l, x ∈ V) :
    ∀ v ∈ (sortNames l).map Var.plain, v.PlainIn V := by
  intro v hv
  simp only [List.mem_map] at hv
  obtain ⟨x, hx, rfl⟩ := hv
  exact ⟨rfl, h x (mem_sortNames.mp hx)⟩

theorem IdAux.mem_sortBy {α : Type} (lt : α → α → Bool) (l : List α) (a : α) : a ∈ sortBy lt l ↔ a ∈ l := by
  have ins : ∀ (x : α) (l : List α), a ∈ insertBy lt x l ↔ a = x ∨ a ∈ l := by
    intro x l
    induction l with
    | nil => simp [insertBy]
    | cons b l ih =>
      simp only [insertBy]
      split
      · simp only [List.mem_cons, ih]; tauto
      · simp
  induction l with
  | nil => simp [sortBy]
  | cons b l ih =>
    unfold sortBy at ih ⊢
    simp only [List.foldr_cons, ins, ih, List.mem_cons]

variable {V : List Name}

theorem obsOnly_sumSafe {e : Expr} {r : List Name} (he : ObsOnly V e) (hr : ∀ x ∈ r, x ∈ V) :
    ObsOnly V (sumSafe e r) := by
  unfold sumSafe
  split
  · exact he
  · rename_i a as heq
    split
    · exact he
    · refine .sum e _ he ?_
      rw [← heq]
      exact plainIn_of_mem_plainVars hr

theorem obsOnly_productSafe {es : List Expr} (h : ∀ e ∈ es, ObsOnly V e) : ObsOnly V (productSafe es) := by
  unfold productSafe
  simp only
  split
  · exact .zero
  · split
    · exact .one
    · rename_i e heq
      have : e ∈ es.filter (fun e => !isOne e) := by rw [heq]; simp
      exact h e (List.mem_filter.mp this).1
    · refine .prod _ ?_
      intro f hf
      rw [IdAux.mem_sortBy] at hf
      exact h f (List.mem_filter.mp hf).1

theorem obsOnly_pCond {child : Name} {parents : List Name} (hc : child ∈ V) (hp : ∀ x ∈ parents, x ∈ V) :
    ObsOnly V (pCond child parents) := by
  unfold pCond plainVars
  refine .prob _ _ ?_ (plainIn_of_mem_plainVars hp)
  intro v hv
  simp only [List.mem_singleton] at hv
  subst hv
  exact ⟨rfl, hc⟩

theorem obsOnly_pJoint {nodes : List Name} {e : Expr} (h : pJoint nodes = .ok e) (hV : ∀ x ∈ nodes, x ∈ V) :
    ObsOnly V e := by
  unfold pJoint at h
  split at h
  · cases h
  · simp only [Except.ok.injEq] at h
    subst h
    exact .prob _ _ (plainIn_of_mem_plainVars hV) (by simp)

theorem obsOnly_mkFrac {n d e : Expr} (h : mkFrac n d = .ok e) (hn : ObsOnly V n) (hd : ObsOnly V d) :
    ObsOnly V e := by
  unfold mkFrac at h
  split at h
  · cases h
  · simp only [Except.ok.injEq] at h; subst h; exact .frac _ _ hn hd

theorem IdAux.bind_ok {ε α β : Type} {x : Except ε α} {f : α → Except ε β} {b : β} (h : (x >>= f) = .ok b) :
    ∃ a, x = .ok a ∧ f a = .ok b := by
  cases x with
  | error e => cases h
  | ok a => exact ⟨a, rfl, h⟩

theorem obsOnly_prod_inv {es : List Expr} (h : ObsOnly V (.prod es)) : ∀ f ∈ es, ObsOnly V f := by
  cases h with | prod _ h => exact h
theorem obsOnly_frac_inv {n d : Expr} (h : ObsOnly V (.frac n d)) : ObsOnly V n ∧ ObsOnly V d := by
  cases h with | frac _ _ h1 h2 => exact ⟨h1, h2⟩

theorem obsOnly_mul (a b : Expr) : ∀ e, mul a b = .ok e → ObsOnly V a → ObsOnly V b → ObsOnly V e := by
  fun_induction mul a b
  all_goals (intro e h ha hb)
  all_goals first
    | (cases h
       first
        | exact hb
        | exact ha
        | exact .zero
        | (apply obsOnly_productSafe
           intro f hf
           simp only [List.mem_append, List.mem_cons, List.mem_singleton, List.not_mem_nil, or_false] at hf
           rcases hf with hf | hf | hf <;>
             first
              | (subst hf; assumption)
              | exact obsOnly_prod_inv ha f hf
              | exact obsOnly_prod_inv hb f hf)
        | (apply obsOnly_productSafe
           intro f hf
           simp only [List.mem_append, List.mem_cons, List.mem_singleton, List.not_mem_nil, or_false] at hf
           rcases hf with hf | hf <;>
             first
              | (subst hf; assumption)
              | exact obsOnly_prod_inv ha f hf
              | exact obsOnly_prod_inv hb f hf))
    | skip
  · rename_i ih2 ih1
    obtain ⟨x, hx, h⟩ := bind_ok h
    obtain ⟨y, hy, h⟩ := bind_ok h
    exact obsOnly_mkFrac h (ih2 x hx (obsOnly_frac_inv ha).1 (obsOnly_frac_inv hb).1)
      (ih1 y hy (obsOnly_frac_inv ha).2 (obsOnly_frac_inv hb).2)
  · rename_i ih1
    obtain ⟨x, hx, h⟩ := bind_ok h
    exact obsOnly_mkFrac h (ih1 x hx (obsOnly_frac_inv ha).1 hb) (obsOnly_frac_inv ha).2
  all_goals
    (rename_i ih1
     obtain ⟨x, hx, h⟩ := bind_ok h
     exact obsOnly_mkFrac h (ih1 x hx ha (obsOnly_frac_inv hb).1) (obsOnly_frac_inv hb).2)
theorem obsOnly_div (a b e : Expr) (h : div a b = .ok e) (ha : ObsOnly V a) (hb : ObsOnly V b) : ObsOnly V e := by
  unfold div at h
  split at h
  · rename_i n d
    split at h
    · cases h; exact ha
    · rename_i n2 d2
      obtain ⟨x, hx, h⟩ := bind_ok h
      obtain ⟨y, hy, h⟩ := bind_ok h
      exact obsOnly_mkFrac h (obsOnly_mul _ _ x hx (obsOnly_frac_inv ha).1 (obsOnly_frac_inv hb).2)
        (obsOnly_mul _ _ y hy (obsOnly_frac_inv ha).2 (obsOnly_frac_inv hb).1)
    · obtain ⟨x, hx, h⟩ := bind_ok h
      exact obsOnly_mkFrac h (obsOnly_frac_inv ha).1 (obsOnly_mul _ _ x hx (obsOnly_frac_inv ha).2 hb)
  · split at h
    · cases h
    · cases h; exact .zero
  · split at h
    · cases h; exact ha
    · rename_i n2 d2
      obtain ⟨x, hx, h⟩ := bind_ok h
      exact obsOnly_mkFrac h (obsOnly_mul _ _ x hx ha (obsOnly_frac_inv hb).2) (obsOnly_frac_inv hb).1
    · exact obsOnly_mkFrac h ha hb


theorem orderIndex?_ok {order : List Name} {v : Name} {i : Nat} (h : orderIndex? order v = .ok i) :
    v ∈ order ∧ i = (order.takeWhile (· ≠ v)).length := by
  unfold orderIndex? at h
  split at h
  · rename_i hv; simp only [Except.ok.injEq] at h; exact ⟨hv, h.symm⟩
  · cases h

theorem pParents_ok {order : List Name} {est : Expr} {child : Name} {e : Expr}
    (h : pParents order est child = .ok e) :
    child ∈ order ∧ ∃ i, i = (order.takeWhile (· ≠ child)).length ∧
      ((isObsMarginal est = true ∧ e = pCond child (order.take i)) ∨
       (isObsMarginal est = false ∧
          div (sumSafe est (order.drop (i + 1))) (sumSafe est (order.drop i)) = .ok e)) := by
  unfold pParents at h
  obtain ⟨i, hi, h⟩ := bind_ok h
  obtain ⟨hc, hi'⟩ := orderIndex?_ok hi
  refine ⟨hc, i, hi', ?_⟩
  split at h
  · rename_i hm
    simp only [pure, Except.pure, Except.ok.injEq] at h
    exact Or.inl ⟨hm, h.symm⟩
  · rename_i hm
    exact Or.inr ⟨by simpa using hm, h⟩

theorem obsOnly_pParents {order : List Name} {est : Expr} {child : Name} {e : Expr}
    (h : pParents order est child = .ok e) (ho : ∀ v ∈ order, v ∈ V) (hest : ObsOnly V est) : ObsOnly V e := by
  obtain ⟨hc, i, _, h | h⟩ := pParents_ok h
  · rw [h.2]
    exact obsOnly_pCond (ho _ hc) (fun x hx => ho x (List.mem_of_mem_take hx))
  · exact obsOnly_div _ _ _ h.2
      (obsOnly_sumSafe hest (fun x hx => ho x (List.mem_of_mem_drop hx)))
      (obsOnly_sumSafe hest (fun x hx => ho x (List.mem_of_mem_drop hx)))

theorem IdAux.forall₂_right {α β : Type} {R : α → β → Prop} {l : List α} {r : List β} (h : List.Forall₂ R l r) :
    ∀ b ∈ r, ∃ a ∈ l, R a b := by
  induction h with
  | nil => simp
  | cons h1 _ ih =>
    intro b hb
    rcases List.mem_cons.mp hb with rfl | hb
    · exact ⟨_, List.mem_cons_self, h1⟩
    · obtain ⟨a, ha, hab⟩ := ih b hb
      exact ⟨a, List.mem_cons_of_mem _ ha, hab⟩

theorem IdAux.forall₂_left {α β : Type} {R : α → β → Prop} {l : List α} {r : List β} (h : List.Forall₂ R l r) :
    ∀ a ∈ l, ∃ b ∈ r, R a b := by
  induction h with
  | nil => simp
  | cons h1 _ ih =>
    intro a ha
    rcases List.mem_cons.mp ha with rfl | ha
    · exact ⟨_, List.mem_cons_self, h1⟩
    · obtain ⟨b, hb, hab⟩ := ih a ha
      exact ⟨b, List.mem_cons_of_mem _ hb, hab⟩

theorem mapM_pParents_ok {order : List Name} {est : Expr} {S : List Name} {fs : List Expr}
    (h : S.mapM (pParents order est) = .ok fs) (ho : ∀ v ∈ order, v ∈ V) (hest : ObsOnly V est) :
    (∀ v ∈ S, v ∈ order) ∧ ∀ f ∈ fs, ObsOnly V f := by
  have hf := (mapM_ok_iff _ _ _).mp h
  constructor
  · intro v hv
    obtain ⟨e, _, he⟩ := forall₂_left hf v hv
    exact (pParents_ok he).1
  · intro f hfm
    obtain ⟨v, _, hv⟩ := forall₂_right hf f hfm
    exact obsOnly_pParents hv ho hest

end Y0
