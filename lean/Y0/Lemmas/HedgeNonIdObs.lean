/-
  Y0.Lemmas.HedgeNonIdObs — the value of a purely observational expression (`ObsOnly`) in the family of a model depends
  on the model only through its observational joint: the step from `id_sound` to "identifiable".
-/
import Y0.Spec.Identifiable
import Y0.Lemmas.IdVocab
import Y0.Lemmas.IdObs

namespace Y0
namespace NonId
open IdDsl IdAux

theorem sumVars_card_congr {c₁ c₂ : Name → Nat} (xs : List Name) (h : ∀ x ∈ xs, c₁ x = c₂ x) (f : Val → Rat) :
    sumVars c₁ xs f = sumVars c₂ xs f := by
  induction xs generalizing f with
  | nil => rfl
  | cons x xs ih =>
    funext σ
    simp only [sumVars, sumVar]
    rw [h x (List.mem_cons_self ..), ih (fun y hy => h y (List.mem_cons_of_mem _ hy))]

theorem inRange_set {card : Name → Nat} {V : List Name} {σ : Val} (hσ : ∀ v ∈ V, σ v < card v) {x : Name} {k : Nat}
    (hk : k < card x) : ∀ v ∈ V, σ.set x k v < card v := by
  intro v hv
  by_cases h : v = x
  · subst h; rw [Val.set_same]; exact hk
  · rw [Val.set_other σ k h]; exact hσ v hv

/-- iterated sums only look at assignments in range -/
theorem sumVars_congr_inRange (card : Name → Nat) (V xs : List Name) {f g : Val → Rat}
    (h : ∀ τ, (∀ v ∈ V, τ v < card v) → f τ = g τ) (σ : Val) (hσ : ∀ v ∈ V, σ v < card v) :
    sumVars card xs f σ = sumVars card xs g σ := by
  induction xs generalizing σ with
  | nil => exact h σ hσ
  | cons x xs ih =>
    simp only [sumVars]
    apply sumVar_congr
    intro k hk
    exact ih _ (inRange_set hσ hk)

variable {G : MG Name} {M₁ M₂ : Scm}

theorem ObsEquiv.inRange (he : ObsEquiv G M₁ M₂) {σ : Val} (hσ : M₁.InRange G σ) : M₂.InRange G σ :=
  fun v hv => he.card_eq v hv ▸ hσ v hv

theorem obsMarg_congr (he : ObsEquiv G M₁ M₂) (S : List Name) (σ : Val) (hσ : M₁.InRange G σ) :
    M₁.obsMarg G S σ = M₂.obsMarg G S σ := by
  unfold Scm.obsMarg
  rw [← sumVars_card_congr _ (fun x hx => he.card_eq x (List.mem_filter.mp hx).1)]
  exact sumVars_congr_inRange M₁.card G.nodes _ he.obs_eq σ hσ

theorem atoms_plain (σ σ' : Val) (l : List Var) (h : ∀ v ∈ l, v.PlainIn G.nodes) :
    l.map (Var.atom σ σ') = (l.map (·.name)).map fun n => Var.atom σ σ' (Var.plain n) := by
  rw [List.map_map]
  apply List.map_congr_left
  intro v hv
  have := (h v hv).1
  simp only [Function.comp]
  rw [← this]

theorem prAtoms_obs_congr (h₁ : M₁.Compatible G) (h₂ : M₂.Compatible G) (hG : G.WF) (hr : G.Ranked)
    (he : ObsEquiv G M₁ M₂) (σ σ' : Val) (hσ : M₁.InRange G σ) (l : List Var) (h : ∀ v ∈ l, v.PlainIn G.nodes) :
    M₁.prAtoms G (l.map (Var.atom σ σ')) = M₂.prAtoms G (l.map (Var.atom σ σ')) := by
  rw [atoms_plain σ σ' l h, Scm.prAtoms_plain h₁ hG hr, Scm.prAtoms_plain h₂ hG hr]
  exact obsMarg_congr he _ σ hσ

/-- the value of an observational expression is a function of the observational joint -/
theorem den_obs_congr (h₁ : M₁.Compatible G) (h₂ : M₂.Compatible G) (hG : G.WF) (hr : G.Ranked)
    (he : ObsEquiv G M₁ M₂) (σ' : Val) (e : Expr) (ho : ObsOnly G.nodes e) :
    ∀ σ, M₁.InRange G σ → den (M₁.env G) σ' e σ = den (M₂.env G) σ' e σ := by
  induction ho with
  | prob c p hc hp =>
    intro σ hσ
    simp only [den, Option.map_none, Scm.env]
    rw [prAtoms_obs_congr h₁ h₂ hG hr he σ σ' hσ (c ++ p) (by
        intro v hv; rcases List.mem_append.mp hv with h | h; exact hc v h; exact hp v h),
      prAtoms_obs_congr h₁ h₂ hG hr he σ σ' hσ p hp]
  | prod fs _ ih =>
    intro σ hσ
    rw [den_prod_eq, den_prod_eq]
    congr 1
    apply List.map_congr_left
    intro f hf
    exact ih f hf σ hσ
  | sum e r _ hr' ih =>
    intro σ hσ
    simp only [den]
    have hc : sumVars (M₁.env G).card (r.map (·.name)) = sumVars (M₂.env G).card (r.map (·.name)) := by
      funext f
      apply sumVars_card_congr
      intro x hx
      obtain ⟨v, hv, rfl⟩ := List.mem_map.mp hx
      exact he.card_eq _ (hr' v hv).2
    rw [← hc]
    exact sumVars_congr_inRange M₁.card G.nodes _ ih σ hσ
  | frac n d _ _ ihn ihd =>
    intro σ hσ
    simp only [den]
    rw [ihn σ hσ, ihd σ hσ]
  | one => intro σ _; simp [den]
  | zero => intro σ _; simp [den]

end NonId
end Y0
