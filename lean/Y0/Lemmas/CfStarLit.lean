/-
  Y0.Lemmas.CfStarLit — the LITERAL reading of an ID* estimand (the reading property C07 states: "read with the event's own
  values for its outcome variables and literal values for intervention subscripts"), next to the conflating reading `cden` of
  Lemmas/CfDen.lean, and when the two coincide.

  `cden2 M ν dom e σo σs`:  `σo` gives the value of every OUTCOME variable (initially the event's values), `σs` the value an
  unstarred SUBSCRIPT `-X` denotes (initially the literal `x`); a `Sum` over `Z` re-binds BOTH at `Z` (the summation variable
  binds the outcome `Z` and the subscripts `-Z` in its scope); a starred subscript `+X` is the literal `x'`.
  `cden` is the special case `σo = σs`: there `-X` denotes the current value of the outcome `X`.

  `cden2_eq_cden`: the two readings agree on an estimand none of whose unstarred subscripts (`allSubs`) names a variable on
  which `σo` and `σs` differ.  F10/M1 and F10/M2 (known_findings.jsonl) are exactly the estimands where they differ.
-/
import Y0.Lemmas.CfDen

namespace Y0.Cf
open Fscm

/-- the conjunct a child of a leaf stands for under the literal reading -/
def leafConj2 (ν : BaseValues) (σo σs : Valuation) (c : Var) : Conjunct :=
  { var := c.name, world := worldOf (nuOf ν σs) c.ivs, val := σo c.name }

/-- simultaneous assignments to the outcome reading and the subscript reading -/
def assignments2 (dom : Name → Nat) : List Name → Valuation → Valuation → List (Valuation × Valuation)
  | [], σo, σs => [(σo, σs)]
  | r :: rs, σo, σs => (List.range (dom r)).flatMap fun x => assignments2 dom rs (update σo r x) (update σs r x)

def sumOver2 (dom : Name → Nat) (rs : List Name) (F : Valuation → Valuation → Rat) (σo σs : Valuation) : Rat :=
  ((assignments2 dom rs σo σs).map fun p => F p.1 p.2).sum

mutual
/-- the literal reading of an estimand -/
def cden2 (M : Model) (ν : BaseValues) (dom : Name → Nat) : Expr → Valuation → Valuation → Rat
  | .prob _ cs _, σo, σs => prob M (cs.map (leafConj2 ν σo σs))
  | .prod fs, σo, σs => cden2Prod M ν dom fs σo σs
  | .sum e rs, σo, σs => sumOver2 dom (rs.map (·.name)) (fun τo τs => cden2 M ν dom e τo τs) σo σs
  | .frac n d, σo, σs => cden2 M ν dom n σo σs / cden2 M ν dom d σo σs
  | .one, _, _ => 1
  | .zero, _, _ => 0
  | .q _ _, _, _ => 0
def cden2Prod (M : Model) (ν : BaseValues) (dom : Name → Nat) : List Expr → Valuation → Valuation → Rat
  | [], _, _ => 1
  | e :: es, σo, σs => cden2 M ν dom e σo σs * cden2Prod M ν dom es σo σs
end

mutual
/-- the names of all unstarred subscripts of an estimand -/
def allSubs : Expr → List Name
  | .prob _ cs _ => cs.flatMap fun c => (c.ivs.filter fun i => !i.star).map (·.name)
  | .prod fs => allSubsL fs
  | .sum e _ => allSubs e
  | .frac n d => allSubs n ++ allSubs d
  | .one => []
  | .zero => []
  | .q _ _ => []
def allSubsL : List Expr → List Name
  | [] => []
  | e :: es => allSubs e ++ allSubsL es
end

theorem mem_allSubsL (fs : List Expr) (X : Name) : X ∈ allSubsL fs ↔ ∃ f ∈ fs, X ∈ allSubs f := by
  induction fs with
  | nil => simp [allSubsL]
  | cons f fs ih => simp [allSubsL, ih]

/-! ## the two readings agree when no subscript names a variable they read differently -/

theorem assignments2_fst (dom : Name → Nat) (rs : List Name) (σo σs : Valuation) :
    (assignments2 dom rs σo σs).map (·.1) = assignments dom rs σo := by
  induction rs generalizing σo σs with
  | nil => rfl
  | cons r rs ih =>
    simp only [assignments2, assignments, List.map_flatMap]
    congr 1
    funext x
    exact ih _ _

theorem assignments2_agree (dom : Name → Nat) (rs : List Name) (σo σs : Valuation) (p : Valuation × Valuation)
    (hp : p ∈ assignments2 dom rs σo σs) (X : Name) (h : σo X = σs X) : p.1 X = p.2 X := by
  induction rs generalizing σo σs with
  | nil =>
    simp only [assignments2, List.mem_singleton] at hp
    subst hp
    exact h
  | cons r rs ih =>
    simp only [assignments2, List.mem_flatMap, List.mem_range] at hp
    obtain ⟨x, _, hx⟩ := hp
    apply ih _ _ hx
    unfold update
    split
    · rfl
    · exact h

theorem sumOver2_eq (dom : Name → Nat) (rs : List Name) (F : Valuation → Valuation → Rat) (F' : Valuation → Rat)
    (σo σs : Valuation) (h : ∀ p ∈ assignments2 dom rs σo σs, F p.1 p.2 = F' p.1) :
    sumOver2 dom rs F σo σs = sumOver dom rs F' σo := by
  unfold sumOver2 sumOver
  rw [List.map_congr_left h, ← assignments2_fst dom rs σo σs, List.map_map]
  rfl

theorem leafConj2_eq (ν : BaseValues) (σo σs : Valuation) (c : Var)
    (h : ∀ i ∈ c.ivs, i.star = false → σo i.name = σs i.name) : leafConj2 ν σo σs c = leafConj ν σo c := by
  unfold leafConj2 leafConj conjunctOf
  simp only [ivValue, nuOf]
  congr 1
  unfold worldOf
  apply List.map_congr_left
  intro i hi
  cases hs : i.star with
  | false => simp [ivValue, nuOf, hs, h i hi hs]
  | true => simp [ivValue, nuOf, hs]

mutual
theorem cden2_eq_cden (M : Model) (ν : BaseValues) (dom : Name → Nat) :
    ∀ (e : Expr) (σo σs : Valuation), (∀ X ∈ allSubs e, σo X = σs X) → cden2 M ν dom e σo σs = cden M ν dom e σo
  | .prob _ cs _, σo, σs, h => by
    simp only [cden2, cden]
    congr 1
    apply List.map_congr_left
    intro c hc
    apply leafConj2_eq
    intro i hi hs
    apply h
    simp only [allSubs, List.mem_flatMap, List.mem_map, List.mem_filter]
    exact ⟨c, hc, i, ⟨hi, by simp [hs]⟩, rfl⟩
  | .prod fs, σo, σs, h => by
    simp only [cden2, cden]
    exact cden2Prod_eq_cdenProd M ν dom fs σo σs (fun X hX => h X (by simpa [allSubs] using hX))
  | .sum e rs, σo, σs, h => by
    simp only [cden2, cden]
    apply sumOver2_eq
    intro p hp
    apply cden2_eq_cden M ν dom e p.1 p.2
    intro X hX
    exact assignments2_agree dom _ σo σs p hp X (h X (by simpa [allSubs] using hX))
  | .frac n d, σo, σs, h => by
    simp only [cden2, cden]
    rw [cden2_eq_cden M ν dom n σo σs (fun X hX => h X (by simp [allSubs, hX])),
      cden2_eq_cden M ν dom d σo σs (fun X hX => h X (by simp [allSubs, hX]))]
  | .one, _, _, _ => by simp [cden2, cden]
  | .zero, _, _, _ => by simp [cden2, cden]
  | .q _ _, _, _, _ => by simp [cden2, cden]
theorem cden2Prod_eq_cdenProd (M : Model) (ν : BaseValues) (dom : Name → Nat) :
    ∀ (fs : List Expr) (σo σs : Valuation), (∀ X ∈ allSubsL fs, σo X = σs X) →
      cden2Prod M ν dom fs σo σs = cdenProd M ν dom fs σo
  | [], _, _, _ => by simp [cden2Prod, cdenProd]
  | e :: es, σo, σs, h => by
    simp only [cden2Prod, cdenProd]
    rw [cden2_eq_cden M ν dom e σo σs (fun X hX => h X (by simp [allSubsL, hX])),
      cden2Prod_eq_cdenProd M ν dom es σo σs (fun X hX => h X (by simp [allSubsL, hX]))]
end

/-! ## the subscripts of what the DSL constructors build -/

theorem allSubs_productSafe (fs : List Expr) (X : Name) (h : X ∈ allSubs (productSafe fs)) : ∃ f ∈ fs, X ∈ allSubs f := by
  unfold productSafe at h
  simp only at h
  split at h
  · simp [allSubs] at h
  · split at h
    · simp [allSubs] at h
    · rename_i e heq
      have : e ∈ fs.filter (fun e => !isOneE e) := by rw [heq]; simp
      exact ⟨e, (List.mem_filter.1 this).1, h⟩
    · simp only [allSubs] at h
      obtain ⟨f, hf, hX⟩ := (mem_allSubsL _ X).1 h
      exact ⟨f, (List.mem_filter.1 hf).1, hX⟩

theorem allSubs_sumSafe (e : Expr) (rs : List Name) (X : Name) (h : X ∈ allSubs (sumSafe e rs)) : X ∈ allSubs e := by
  unfold sumSafe at h
  simp only at h
  split at h
  · exact h
  · split at h
    · exact h
    · simpa [allSubs] using h

theorem allSubs_probSafe (bases : List Name) (ivs : List Iv) (e : Expr) (h : probSafe bases ivs = .ok e) (X : Name)
    (hX : X ∈ allSubs e) : ∃ i ∈ ivs, i.star = false ∧ i.name = X := by
  unfold probSafe at h
  simp only at h
  split at h
  · cases h
  · split at h
    · simp only [Except.ok.injEq] at h
      subst h
      simp only [allSubs, List.mem_flatMap, List.mem_map, List.mem_filter] at hX
      obtain ⟨c, hc, i, ⟨hi, _⟩, _⟩ := hX
      unfold upgradeOrdering at hc
      rw [mem_sortBy, mem_dedup'] at hc
      obtain ⟨n, _, rfl⟩ := List.mem_map.1 hc
      simp [Var.plain] at hi
    · simp only [Except.ok.injEq] at h
      subst h
      simp only [allSubs, List.mem_flatMap, List.mem_map, List.mem_filter] at hX
      obtain ⟨c, hc, i, ⟨hi, hs⟩, rfl⟩ := hX
      obtain ⟨c', _, rfl⟩ := hc
      simp only [interveneBase] at hi
      unfold ivsCanon at hi
      rw [mem_sortBy, mem_dedup'] at hi
      exact ⟨i, hi, by simpa using hs, rfl⟩

end Y0.Cf
