/-
  Y0.Lemmas.CfCgSem — the probability clauses of C18, relative to Lemma 24.

  The merge loop of `make_counterfactual_graph` performs a sequence of merges `(event_k, a_k, b_k)` (each licensed by the
  syntactic test `lemma24Holds`).  `Lemma24For M ν (ev, a, b)` says what Shpitser–Pearl's Lemma 24 concludes for one such
  merge: wherever the OTHER conjuncts of the current event hold, `a` and `b` take the same value.  Under that hypothesis
  for every merge that is actually performed (`cgTrace`), the relabelled event has the same probability as the original
  and 'inconsistent' is only reported for probability-zero events.  What is NOT proved is Lemma 24 itself for the test as
  coded.
-/
import Y0.Lemmas.CfGraph
import Y0.Lemmas.CfFscm

namespace Y0
namespace Cf
open Fscm

/-! ### events as association lists -/

theorem Event.get?_mem {ev : Event} {k : Var} {v : Iv} (h : ev.get? k = some v) : (k, v) ∈ ev := by
  unfold Event.get? at h
  cases hf : ev.find? (fun p => p.1 = k) with
  | none => simp [hf] at h
  | some p =>
    simp only [hf, Option.map_some, Option.some.injEq] at h
    have hp := List.find?_some hf
    have hm := List.mem_of_find?_eq_some hf
    simp only [decide_eq_true_eq] at hp
    rcases p with ⟨k', v'⟩
    simp only at hp h
    subst hp; subst h
    exact hm

theorem Event.get?_of_mem_nodup {ev : Event} (hnd : ev.keys.Nodup) {p : Var × Iv} (hp : p ∈ ev) :
    ev.get? p.1 = some p.2 := by
  induction ev with
  | nil => cases hp
  | cons q qs ih =>
    simp only [Event.keys, List.map_cons, List.nodup_cons, List.mem_map, not_exists, not_and] at hnd
    unfold Event.get?
    simp only [List.find?_cons]
    rcases List.mem_cons.1 hp with rfl | hp'
    · simp
    · have hne : ¬ q.1 = p.1 := fun h => hnd.1 p hp' h.symm
      simp only [hne, decide_false]
      exact ih hnd.2 hp'

theorem Event.get?_none_iff {ev : Event} {k : Var} : ev.get? k = none ↔ ∀ p ∈ ev, p.1 ≠ k := by
  unfold Event.get?
  simp only [Option.map_eq_none_iff, List.find?_eq_none, decide_eq_true_eq]

theorem Event.has_iff {ev : Event} {k : Var} : ev.has k = true ↔ ∃ p ∈ ev, p.1 = k := by
  simp [Event.has]

theorem Event.mem_set {ev : Event} {k : Var} {v : Iv} {p : Var × Iv} :
    p ∈ ev.set k v ↔ (p ∈ ev ∧ p.1 ≠ k) ∨ (p = (k, v)) := by
  unfold Event.set
  split
  · rename_i hhas
    obtain ⟨q, hq, hqk⟩ := Event.has_iff.1 hhas
    simp only [List.mem_map]
    constructor
    · rintro ⟨r, hr, rfl⟩
      by_cases hrk : r.1 = k
      · simp [hrk]
      · simp [hrk, hr]
    · rintro (⟨hp, hpk⟩ | rfl)
      · exact ⟨p, hp, by simp [hpk]⟩
      · exact ⟨q, hq, by simp [hqk]⟩
  · rename_i hhas
    have hno : ∀ q ∈ ev, q.1 ≠ k := by
      intro q hq hqk
      exact hhas (Event.has_iff.2 ⟨q, hq, hqk⟩)
    simp only [List.mem_append, List.mem_singleton]
    constructor
    · rintro (hp | rfl)
      · exact Or.inl ⟨hp, hno p hp⟩
      · exact Or.inr rfl
    · rintro (⟨hp, _⟩ | rfl)
      · exact Or.inl hp
      · exact Or.inr rfl

theorem Event.mem_erase {ev : Event} {k : Var} {p : Var × Iv} : p ∈ ev.erase k ↔ p ∈ ev ∧ p.1 ≠ k := by
  simp [Event.erase]

theorem Event.keys_set_nodup {ev : Event} (hnd : ev.keys.Nodup) (k : Var) (v : Iv) : (ev.set k v).keys.Nodup := by
  unfold Event.set
  split
  · have : (ev.map (fun p => if p.1 = k then (k, v) else p)).map (·.1) = ev.map (·.1) := by
      rw [List.map_map]
      apply List.map_congr_left
      intro p _
      by_cases h : p.1 = k <;> simp [h]
    simpa [Event.keys, this] using hnd
  · rename_i hhas
    have hno : k ∉ ev.keys := by
      intro hk
      simp only [Event.keys, List.mem_map] at hk
      obtain ⟨q, hq, hqk⟩ := hk
      exact hhas (Event.has_iff.2 ⟨q, hq, hqk⟩)
    simp only [Event.keys, List.map_append, List.map_cons, List.map_nil]
    exact List.Nodup.append hnd (by simp) (by simpa [Event.keys] using hno)

theorem Event.keys_erase_nodup {ev : Event} (hnd : ev.keys.Nodup) (k : Var) : (ev.erase k).keys.Nodup := by
  unfold Event.erase Event.keys
  exact (List.Nodup.sublist (List.Sublist.map _ List.filter_sublist) hnd)

/-! ### semantics of an event -/

/-- all conjuncts of the event hold at the noise point `u` -/
def allHold (M : Model) (ν : BaseValues) (ev : Event) (u : NoisePoint) : Prop :=
  ∀ p ∈ ev, holds M u (conjunctOf ν p) = true

theorem all_holds_iff (M : Model) (ν : BaseValues) (ev : Event) (u : NoisePoint) :
    (ev.map (conjunctOf ν)).all (holds M u) = true ↔ allHold M ν ev u := by
  simp [allHold, List.all_eq_true]

theorem probEvent_congr (M : Model) (ν : BaseValues) (ev ev' : Event) (h : ∀ u, allHold M ν ev u ↔ allHold M ν ev' u) :
    probEvent M ν ev = probEvent M ν ev' := by
  unfold probEvent
  apply prob_congr
  intro u
  rw [Bool.eq_iff_iff, all_holds_iff, all_holds_iff]
  exact h u

/-- value of the counterfactual variable `a` (a node of the parallel-worlds graph) at the noise point `u` -/
def valueOf (M : Model) (ν : BaseValues) (u : NoisePoint) (a : Var) : Nat := solve M u (worldOf ν a.ivs) a.name

theorem holds_conjunctOf (M : Model) (ν : BaseValues) (u : NoisePoint) (a : Var) (v : Iv) :
    holds M u (conjunctOf ν (a, v)) = true ↔ valueOf M ν u a = ivValue ν v := by
  simp [holds, conjunctOf, valueOf]

/-- **What Lemma 24 asserts for one merge**: wherever the conjuncts of the event other than those about `a` and `b` hold,
`a` and `b` take the same value. -/
def Lemma24For (M : Model) (ν : BaseValues) (t : Event × Var × Var) : Prop :=
  ∀ u, (∀ p ∈ t.1, p.1 ≠ t.2.1 → p.1 ≠ t.2.2 → holds M u (conjunctOf ν p) = true) →
    valueOf M ν u t.2.1 = valueOf M ν u t.2.2

theorem Lemma24For.symm {M : Model} {ν : BaseValues} {ev : Event} {a b : Var} (h : Lemma24For M ν (ev, a, b)) :
    Lemma24For M ν (ev, b, a) := by
  intro u hu
  exact (h u (fun p hp h1 h2 => hu p hp h2 h1)).symm

theorem isInconsistent_symm (ev : Event) (a b : Var) : isInconsistent ev a b = isInconsistent ev b a := by
  unfold isInconsistent
  cases ev.get? a <;> cases ev.get? b <;> simp [eq_comm]

/-- **Relabelling preserves the support.**  `update_event` after a merge licensed by Lemma 24, consistent values. -/
theorem allHold_updateEvent (M : Model) (ν : BaseValues) (ev : Event) (pref elim : Var) (hnd : ev.keys.Nodup)
    (hpe : pref ≠ elim) (hinc : isInconsistent ev pref elim = false) (hL : Lemma24For M ν (ev, pref, elim))
    (u : NoisePoint) : allHold M ν (updateEvent ev pref elim) u ↔ allHold M ν ev u := by
  unfold updateEvent
  cases he : ev.get? elim with
  | none => exact Iff.rfl
  | some v =>
    simp only
    have hmem : ∀ p, p ∈ (ev.set pref v).erase elim ↔ (p ∈ ev ∧ p.1 ≠ pref ∧ p.1 ≠ elim) ∨ p = (pref, v) := by
      intro p
      rw [Event.mem_erase, Event.mem_set]
      constructor
      · rintro ⟨(⟨hp, h1⟩ | rfl), h2⟩
        · exact Or.inl ⟨hp, h1, h2⟩
        · exact Or.inr rfl
      · rintro (⟨hp, h1, h2⟩ | rfl)
        · exact ⟨Or.inl ⟨hp, h1⟩, h2⟩
        · exact ⟨Or.inr rfl, hpe⟩
    have helim : (elim, v) ∈ ev := Event.get?_mem he
    -- entries with key `elim` / `pref` in `ev`
    have hkeyE : ∀ p ∈ ev, p.1 = elim → p = (elim, v) := by
      intro p hp hk
      have := Event.get?_of_mem_nodup hnd hp
      rw [hk, he] at this
      rcases p with ⟨k, w⟩
      simp only at hk this
      subst hk
      simp only [Option.some.injEq] at this
      rw [this]
    have hkeyP : ∀ p ∈ ev, p.1 = pref → p.2 = v := by
      intro p hp hk
      have hg := Event.get?_of_mem_nodup hnd hp
      rw [hk] at hg
      unfold isInconsistent at hinc
      rw [hg, he] at hinc
      simpa using hinc
    constructor
    · intro h p hp
      have hrest : ∀ q ∈ ev, q.1 ≠ pref → q.1 ≠ elim → holds M u (conjunctOf ν q) = true :=
        fun q hq h1 h2 => h q ((hmem q).2 (Or.inl ⟨hq, h1, h2⟩))
      have hpv : holds M u (conjunctOf ν (pref, v)) = true := h _ ((hmem _).2 (Or.inr rfl))
      have heq := hL u hrest
      by_cases h1 : p.1 = pref
      · have : p = (pref, v) := by
          rcases p with ⟨k, w⟩
          simp only at h1
          have := hkeyP _ hp h1
          simp only at this
          rw [h1, this]
        rw [this]; exact hpv
      · by_cases h2 : p.1 = elim
        · rw [hkeyE p hp h2]
          rw [holds_conjunctOf] at hpv ⊢
          simp only at heq
          rw [← heq]; exact hpv
        · exact hrest p hp h1 h2
    · intro h p hp
      rcases (hmem p).1 hp with ⟨hp', _, _⟩ | rfl
      · exact h p hp'
      · have hrest : ∀ q ∈ ev, q.1 ≠ pref → q.1 ≠ elim → holds M u (conjunctOf ν q) = true :=
          fun q hq _ _ => h q hq
        have heq := hL u hrest
        have hev := h _ helim
        rw [holds_conjunctOf] at hev ⊢
        simp only at heq
        rw [heq]; exact hev

theorem updateEvent_keys_nodup (ev : Event) (pref elim : Var) (hnd : ev.keys.Nodup) :
    (updateEvent ev pref elim).keys.Nodup := by
  unfold updateEvent
  cases ev.get? elim with
  | none => exact hnd
  | some v => exact Event.keys_erase_nodup (Event.keys_set_nodup hnd pref v) elim

theorem updateEvent_names (ev : Event) (pref elim : Var) (hn : pref.name = elim.name)
    (hwf : ∀ p ∈ ev, p.2.name = p.1.name) : ∀ p ∈ updateEvent ev pref elim, p.2.name = p.1.name := by
  unfold updateEvent
  cases he : ev.get? elim with
  | none => exact hwf
  | some v =>
    intro p hp
    simp only at hp
    rw [Event.mem_erase, Event.mem_set] at hp
    rcases hp with ⟨⟨hp, _⟩ | rfl, _⟩
    · exact hwf p hp
    · have := hwf _ (Event.get?_mem he)
      simp only at this ⊢
      rw [this, hn]

/-! ### the merge loop as one fold over pairs, its trace -/

/-- the pairs tested for one node, in the order of `nodeStep` -/
def nodePairs (ws : List World) (n : Name) : List (Var × Var) :=
  ws.map (fun w => (Var.plain n, atWorld n w)) ++
    (if ws.length > 1 then (pairs ws).map (fun p => (atWorld n p.1, atWorld n p.2)) else [])

def allPairs (ws : List World) (topo : List Name) : List (Var × Var) := topo.flatMap (nodePairs ws)

def runPairs (st : St) (ps : List (Var × Var)) : St := ps.foldl (fun st p => mergeStep st p.1 p.2) st

theorem nodeStep_eq (ws : List World) (st : St) (n : Name) : nodeStep ws st n = runPairs st (nodePairs ws n) := by
  unfold nodeStep runPairs nodePairs
  simp only [List.foldl_append, List.foldl_map]
  split
  · simp only [List.foldl_map]
  · simp only [List.foldl_nil]

theorem mergeLoop_eq (ws : List World) (topo : List Name) (st : St) :
    mergeLoop ws topo st = runPairs st (allPairs ws topo) := by
  unfold mergeLoop allPairs
  induction topo generalizing st with
  | nil => rfl
  | cons n ns ih =>
    simp only [List.foldl_cons, List.flatMap_cons]
    rw [ih, nodeStep_eq]
    unfold runPairs
    rw [List.foldl_append]

/-- the merge performed by one step, if any -/
def stepTrace (st : St) (a b : Var) : List (Event × Var × Var) :=
  match st with
  | .run cf ev => if lemma24Holds cf ev a b then [(ev, a, b)] else []
  | .stop _ => []

/-- all merges performed while running through the pairs -/
def traceOf : St → List (Var × Var) → List (Event × Var × Var)
  | _, [] => []
  | st, p :: ps => stepTrace st p.1 p.2 ++ traceOf (mergeStep st p.1 p.2) ps

/-- the semantic invariant of the loop w.r.t. the original event `ev0` -/
def SemInv (M : Model) (ν : BaseValues) (ev0 : Event) : St → Prop
  | .run _ ev => (∀ u, allHold M ν ev u ↔ allHold M ν ev0 u) ∧ ev.keys.Nodup ∧ (∀ p ∈ ev, p.2.name = p.1.name)
  | .stop _ => probEvent M ν ev0 = 0

theorem prob_zero_of_inconsistent (M : Model) (ν : BaseValues) (hν : ν.Distinct) (ev : Event) (a b : Var)
    (hinc : isInconsistent ev a b = true) (hwf : ∀ p ∈ ev, p.2.name = p.1.name) (hname : a.name = b.name)
    (hL : Lemma24For M ν (ev, a, b)) : probEvent M ν ev = 0 := by
  unfold isInconsistent at hinc
  cases ha : ev.get? a with
  | none => simp [ha] at hinc
  | some va =>
    cases hb : ev.get? b with
    | none => simp [ha, hb] at hinc
    | some vb =>
      simp only [ha, hb, ne_eq, decide_eq_true_eq] at hinc
      have ma := Event.get?_mem ha
      have mb := Event.get?_mem hb
      unfold probEvent
      apply prob_zero_of_conflict M _ (conjunctOf ν (a, va)) (conjunctOf ν (b, vb))
        (List.mem_map.2 ⟨_, ma, rfl⟩) (List.mem_map.2 ⟨_, mb, rfl⟩)
      · intro u hu
        rw [all_holds_iff] at hu
        exact hL u (fun p hp _ _ => hu p hp)
      · have na : va.name = a.name := hwf _ ma
        have nb : vb.name = b.name := hwf _ mb
        simp only [conjunctOf, ivValue]
        intro heq
        apply hinc
        rcases va with ⟨n1, s1⟩
        rcases vb with ⟨n2, s2⟩
        simp only at na nb heq
        have hn : n1 = n2 := by rw [na, nb, hname]
        subst hn
        congr
        by_contra hs
        cases s1 <;> cases s2
        · exact hs rfl
        · exact hν n1 heq
        · exact hν n1 heq.symm
        · exact hs rfl

theorem semInv_mergeStep (M : Model) (ν : BaseValues) (hν : ν.Distinct) (ev0 : Event) (st : St) (a b : Var)
    (hab : a ≠ b) (hinv : SemInv M ν ev0 st) (hL : ∀ t ∈ stepTrace st a b, Lemma24For M ν t) :
    SemInv M ν ev0 (mergeStep st a b) := by
  unfold mergeStep
  cases st with
  | stop cf => exact hinv
  | run cf ev =>
    simp only
    obtain ⟨hsup, hnd, hwf⟩ := hinv
    split
    · rename_i h24
      have hn := lemma24Holds_names h24
      have hLab : Lemma24For M ν (ev, a, b) := hL _ (by simp [stepTrace, h24])
      split
      · rename_i hinc
        -- 'inconsistent'
        show probEvent M ν ev0 = 0
        rw [← probEvent_congr M ν ev ev0 hsup]
        exact prob_zero_of_inconsistent M ν hν ev a b hinc hwf hn hLab
      · rename_i hinc
        have hinc' : isInconsistent ev a b = false := by simpa using hinc
        have hr1 : (mergePw cf a b).2.1 = (mergeOrder a b).1 := by unfold mergePw; rfl
        have hr2 : (mergePw cf a b).2.2 = (mergeOrder a b).2 := by unfold mergePw; rfl
        rw [hr1, hr2]
        rcases mergeOrder_cases a b with ho | ho
        · rw [ho]
          exact ⟨fun u => (allHold_updateEvent M ν ev a b hnd hab hinc' hLab u).trans (hsup u),
            updateEvent_keys_nodup ev a b hnd, updateEvent_names ev a b hn hwf⟩
        · rw [ho]
          have hinc'' : isInconsistent ev b a = false := by rw [isInconsistent_symm]; exact hinc'
          exact ⟨fun u => (allHold_updateEvent M ν ev b a hnd (Ne.symm hab) hinc'' hLab.symm u).trans (hsup u),
            updateEvent_keys_nodup ev b a hnd, updateEvent_names ev b a hn.symm hwf⟩
    · exact ⟨hsup, hnd, hwf⟩

theorem semInv_runPairs (M : Model) (ν : BaseValues) (hν : ν.Distinct) (ev0 : Event) (ps : List (Var × Var))
    (hne : ∀ p ∈ ps, p.1 ≠ p.2) (st : St) (hinv : SemInv M ν ev0 st)
    (hL : ∀ t ∈ traceOf st ps, Lemma24For M ν t) : SemInv M ν ev0 (runPairs st ps) := by
  induction ps generalizing st with
  | nil => exact hinv
  | cons p ps ih =>
    unfold runPairs
    simp only [List.foldl_cons]
    apply ih (fun q hq => hne q (by simp [hq]))
    · exact semInv_mergeStep M ν hν ev0 st p.1 p.2 (hne p (by simp)) hinv
        (fun t ht => hL t (by simp [traceOf, ht]))
    · intro t ht
      exact hL t (by simp [traceOf, ht])

/-! ### the pairs of the loop are pairs of distinct nodes -/

theorem mem_pairs_ne {α} : ∀ (l : List α), l.Nodup → ∀ p ∈ pairs l, p.1 ≠ p.2
  | [], _, p, hp => by simp [pairs] at hp
  | x :: xs, hnd, p, hp => by
    simp only [pairs, List.mem_append, List.mem_map] at hp
    rcases hp with ⟨y, hy, rfl⟩ | hp
    · intro h
      simp only at h
      subst h
      exact (List.nodup_cons.1 hnd).1 hy
    · exact mem_pairs_ne xs (List.nodup_cons.1 hnd).2 p hp

theorem allPairs_ne (ws : List World) (hnd : ws.Nodup) (hne : ∀ w ∈ ws, w ≠ []) (topo : List Name) :
    ∀ p ∈ allPairs ws topo, p.1 ≠ p.2 := by
  intro p hp
  simp only [allPairs, List.mem_flatMap, nodePairs, List.mem_append, List.mem_map] at hp
  obtain ⟨n, _, hp⟩ := hp
  rcases hp with ⟨w, hw, rfl⟩ | hp
  · intro h
    simp only [Var.plain, atWorld, Var.mk.injEq] at h
    exact hne w hw h.2.2.2.symm
  · split at hp
    · simp only [List.mem_map] at hp
      obtain ⟨q, hq, rfl⟩ := hp
      intro h
      simp only [atWorld, Var.mk.injEq] at h
      exact mem_pairs_ne ws hnd q hq h.2.2.2
    · cases hp

end Cf
end Y0
