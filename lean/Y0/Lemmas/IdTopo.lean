/-
  Y0.Lemmas.IdTopo — a topological sorter that satisfies `TopoSound` by construction: the model of networkx's
  `topological_sort` (Kahn, Y0.Model.Graph) followed by a decidable check of its answer.  It shows that the
  assumption made about `topo` in the theorems of C01/C03/C06 is satisfiable by an executable function (and, on
  every graph the correspondence check has seen, it returns exactly what the unchecked model returns).
-/
import Y0.Lemmas.IdSoundA

namespace Y0
open MG IdAux

def posOf (o : List Name) (v : Name) : Nat := (o.takeWhile (· ≠ v)).length

/-- `o` is a duplicate-free list of exactly the nodes of `H` in which every edge goes forward -/
def validTopoB (H : MG Name) (o : List Name) : Bool :=
  decide o.Nodup && o.all (fun v => decide (v ∈ H.nodes)) && H.nodes.all (fun v => decide (v ∈ o)) &&
    H.di.all (fun e => decide (posOf o e.1 < posOf o e.2))

/-- Kahn's algorithm (the model of `graph.topological_sort()`) with its answer checked -/
def checkedTopo (H : MG Name) : Except Err (List Name) :=
  match H.topologicalSort with
  | .ok o => if validTopoB H o then .ok o else .error (.internal "NetworkXUnfeasible")
  | .error e => .error e

theorem IdAux.posOf_lt_of_mem_left {l1 l2 : List Name} {a : Name} (ha : a ∈ l1) : posOf (l1 ++ l2) a < l1.length := by
  unfold posOf
  induction l1 with
  | nil => cases ha
  | cons b l ih =>
    by_cases h : b = a
    · simp [List.takeWhile, h]
    · have ha' : a ∈ l := by
        rcases List.mem_cons.mp ha with rfl | h'
        · exact absurd rfl h
        · exact h'
      have := ih ha'
      simp only [ne_eq, decide_not] at this
      simp [List.takeWhile, h]
      omega

theorem IdAux.posOf_ge_of_not_mem_left {l1 l2 : List Name} {r : Name} (hr : r ∉ l1) : l1.length ≤ posOf (l1 ++ l2) r := by
  unfold posOf
  induction l1 with
  | nil => simp
  | cons b l ih =>
    have hb : b ≠ r := fun e => hr (e ▸ List.mem_cons_self)
    have := ih (fun h => hr (List.mem_cons_of_mem _ h))
    simp only [ne_eq, decide_not] at this
    simp [List.takeWhile, hb]
    omega

theorem checkedTopo_sound : TopoSound checkedTopo := by
  have key : ∀ H o, checkedTopo H = .ok o → validTopoB H o = true := by
    intro H o h
    unfold checkedTopo at h
    split at h
    · split at h
      · rename_i hv; cases h; exact hv
      · cases h
    · cases h
  refine ⟨fun H o h => ?_, fun H o h v => ?_, fun H o h l1 l2 hsplit a ha r hr hra => ?_⟩
  · have := key H o h
    simp only [validTopoB, Bool.and_eq_true, decide_eq_true_eq] at this
    exact this.1.1.1
  · have := key H o h
    simp only [validTopoB, Bool.and_eq_true, decide_eq_true_eq, List.all_eq_true] at this
    exact ⟨fun hv => this.1.1.2 v hv, fun hv => this.1.2 v hv⟩
  · have := key H o h
    simp only [validTopoB, Bool.and_eq_true, decide_eq_true_eq, List.all_eq_true] at this
    have hnd : (l1 ++ l2).Nodup := hsplit ▸ this.1.1.1
    have hrl1 : r ∉ l1 := fun hc => (List.nodup_append.mp hnd).2.2 r hc r hr rfl
    have h1 := this.2 (r, a) hra
    simp only at h1
    rw [hsplit] at h1
    have h2 := posOf_lt_of_mem_left (l2 := l2) ha
    have h3 := posOf_ge_of_not_mem_left (l2 := l2) hrl1
    omega

end Y0
