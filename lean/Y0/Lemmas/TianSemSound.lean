/-
  Y0.Lemmas.TianSemSound — soundness of the Lemma-1 branch, of `compute_c_factor` and of the IDENTIFY recursion under
  the weaker shape hypothesis `ProbShapeIn` (Y0/Spec/TianSpec.lean): the invariant of the recursion is "the carried
  expression denotes Q[T] in the model at hand and, when it is a probability, satisfies `ProbShapeIn`".
  Same proofs as Y0.Lemmas.TianSound / TianIdentify, with the probability calculus of Y0.Lemmas.TianSemCalc: wherever
  the given probability denotes a c-factor it is positive, hence read by some assignment `ρ`.
-/
import Y0.Lemmas.TianSemCalc
import Y0.Lemmas.TianIdentify

namespace Y0
namespace TianSem
open TianDsl Tian TianDen TianSpec TianSound TianGraph TianLemma1 TianIdentify

variable {M : Scm} {G : MG Name}

/-- a probability of the weaker shape that denotes a c-factor is read by some assignment, at every `σ` -/
theorem reads_of_denotes (hM : M.Compatible G) {σ' : Val} {pop : Option Var} {ch pa : List Var}
    {H : List Name} {w : List Iv} (hs : SShape G ch pa H w) (hH : H ≠ []) (hsub : ∀ x ∈ H, x ∈ G.nodes)
    (hq : ∀ σ, den (M.env G) σ' (.prob pop ch pa) σ = M.Q H σ) (σ : Val) :
    ∃ ρ, Reads ρ σ σ' w (ch ++ pa) := by
  apply den_ne_zero_reads (M := M) (G := G) σ σ' pop (by simp [hs.ch_ne hH]) hs.world
  rw [hq σ]
  exact ne_of_gt (Scm.Q_pos hM H hsub σ)

/-- **Lemma 1 (i) is sound** for a probability `P_w(H ∪ E | Z)` of the weaker shape that denotes `Q[H]` -/
theorem lemma1_sound (hM : M.Compatible G) (hG : G.WF) (hrank : G.Ranked) (σ' : Val)
    (H : List Name) (hnd : H.Nodup) (hsub : ∀ v ∈ H, v ∈ G.nodes) (htopo : TopoOrdered G H)
    (D : List Name) (hDnd : D.Nodup) (hDH : ∀ v ∈ D, v ∈ H) (hclosed : BiClosedIn G D H)
    (pop : Option Var) (ch pa : List Var) (e : Expr) (hshape : ProbShapeIn G (.prob pop ch pa) H)
    (hq : ∀ σ, den (M.env G) σ' (.prob pop ch pa) σ = M.Q H σ)
    (h : lemma1 D (.prob pop ch pa) H = .ok e) (σ : Val) : den (M.env G) σ' e σ = M.Q D σ := by
  obtain ⟨w, hs⟩ := sshape_of_probShapeIn hshape
  have hHne : H ≠ [] := by
    intro h0; subst h0
    simp [lemma1] at h
  obtain ⟨ρ, hr⟩ := reads_of_denotes hM hs hHne hsub hq σ
  rw [den_lemma1 hM hG hs hnd hsub h hr (qRatio M H σ)
    (fun v p s e => qRatio_eq_ratio hM hrank σ' H hnd hsub _ hq σ v p s e)]
  exact qRatio_prod hM hG hrank H hnd hsub htopo D hDnd hDH hclosed σ

/-- **`compute_c_factor` is sound** under the weaker shape -/
theorem computeCFactor_sound (hM : M.Compatible G) (hG : G.WF) (hrank : G.Ranked) (σ' : Val)
    (topo S : List Name) (htnd : topo.Nodup) (hord : TopoOrdered G topo)
    (hsub : ∀ v ∈ topo.filter (· ∈ S), v ∈ G.nodes)
    (D : List Name) (hDnd : D.Nodup) (hDH : ∀ v ∈ D, v ∈ topo.filter (· ∈ S))
    (hclosed : BiClosedIn G D (topo.filter (· ∈ S)))
    (q e : Expr) (hshape : ProbShapeIn G q (topo.filter (· ∈ S)))
    (hq : ∀ σ, den (M.env G) σ' q σ = M.Q (topo.filter (· ∈ S)) σ)
    (h : computeCFactor D S q topo = .ok e) (σ : Val) : den (M.env G) σ' e σ = M.Q D σ := by
  unfold computeCFactor at h
  simp only at h
  split at h
  · exact lemma4_sound hM hG hrank σ' _ (htnd.filter _) hsub (TianGraph.topoOrdered_filter hord _) D hDnd hDH hclosed
      q e hq h σ
  · split at h
    · cases h
    · rename_i hprob
      cases q with
      | prob pop ch pa =>
        exact lemma1_sound hM hG hrank σ' _ (htnd.filter _) hsub (TianGraph.topoOrdered_filter hord _) D hDnd hDH
          hclosed pop ch pa e hshape hq h σ
      | _ => simp [isProb] at hprob

theorem probShapeIn_of_not_prob {e : Expr} {H : List Name} (h : isProb e = false) : ProbShapeIn G e H := by
  cases e with
  | prob pop c p => simp [isProb] at h
  | _ => trivial

theorem probShapeIn_congr {q : Expr} {H H' : List Name} (hp : H.Perm H') (h : ProbShapeIn G q H) :
    ProbShapeIn G q H' := by
  cases q with
  | prob pop ch pa =>
    obtain ⟨w, h1, h2, h3, h4, h5, h6⟩ := h
    exact ⟨w, fun x hx => h1 x (hp.mem_iff.mpr hx),
      fun c hc => (h2 c hc).imp (fun hm => hp.mem_iff.mp hm) id, h3,
      fun c hc hm => h4 c hc (hp.mem_iff.mpr hm),
      fun i hi hm => h5 i hi (hp.mem_iff.mpr hm),
      fun p hp' hm => h6 p hp' (hp.mem_iff.mpr hm)⟩
  | _ => trivial

/-- when Lemma 1 returns a bare probability (a one-variable district) it has the weaker shape `P_w(v | …)` -/
theorem lemma1_probShapeIn {pop : Option Var} {ch pa : List Var} {H D : List Name} {w : List Iv} {e : Expr}
    (hs : SShape G ch pa H w) (hDH : ∀ v ∈ D, v ∈ H)
    (h : lemma1 D (.prob pop ch pa) H = .ok e) (D' : List Name) (hD' : D.Perm D') :
    ProbShapeIn G e D' := by
  by_cases hpe : isProb e = false
  · exact probShapeIn_of_not_prob hpe
  · unfold lemma1 at h
    split at h
    · cases h
    · split at h
      · cases h
      · simp only at h
        cases hm : D.mapM (lemma1Factor pop (world ch) pa H) with
        | error err => rw [hm] at h; simp [bind, Except.bind] at h
        | ok fs =>
          rw [hm] at h
          simp only [bind, Except.bind, pure, Except.pure] at h
          cases h
          have hall := mapM_ok_forall₂ _ _ _ hm
          have hfs : ∀ f ∈ fs, isProb f = true := by
            intro f hf
            obtain ⟨v, hv, hvf⟩ := forall₂_exists_left hall f hf
            obtain ⟨p, s, e1, hvp⟩ := split_of_mem (hDH v hv)
            subst e1
            obtain ⟨P', rfl, _⟩ := lemma1Factor_shape hvp hvf
            rfl
          have hfilter : fs.filter (fun e => !isOne e) = fs := by
            apply List.filter_eq_self.mpr
            intro f hf
            have := hfs f hf
            cases f <;> simp_all [isProb, isOne]
          have hnz : fs.any isZero = false := by
            apply Bool.eq_false_iff.mpr
            intro hany
            rcases List.any_eq_true.mp hany with ⟨f, hf, hz⟩
            have := hfs f hf
            cases f <;> simp_all [isProb, isZero]
          unfold productSafe at hpe ⊢
          simp only [hfilter, hnz, Bool.false_eq_true, ↓reduceIte] at hpe ⊢
          cases fs with
          | nil => simp [isProb] at hpe
          | cons f fs' =>
            cases fs' with
            | cons g gs => simp [isProb] at hpe
            | nil =>
              simp only
              have hlen := hall.length_eq
              obtain ⟨v, rfl⟩ := List.length_eq_one_iff.mp (by simpa using hlen)
              obtain ⟨v', hv', hvf⟩ := forall₂_exists_left hall f List.mem_cons_self
              have : v' = v := by simpa using hv'
              subst this
              obtain ⟨p, s, e1, hvp⟩ := split_of_mem (hDH v' List.mem_cons_self)
              obtain ⟨P', rfl, hP, _⟩ := lemma1Factor_shape (by exact hvp) (e1 ▸ hvf)
              have hD'eq : D' = [v'] := List.perm_singleton.mp hD'.symm
              subst hD'eq
              have hvH : v' ∈ H := hDH v' List.mem_cons_self
              have hnames : ∀ n ∈ H, n ∈ ch.map (·.name) := fun n hn => hs.covers n hn
              have hvw : inWorld (world ch) v' ∈ ch := inWorld_mem (hnames v' hvH)
              refine ⟨w, ?_, ?_, ?_, ?_, ?_, ?_⟩
              · intro h hh
                rw [List.mem_singleton.mp hh]
                simp [inWorld_name]
              · intro c hc
                left
                rw [List.mem_singleton.mp hc]
                simp [inWorld_name]
              · intro x hx
                rcases List.mem_append.mp hx with hx | hx
                · rw [List.mem_singleton.mp hx]
                  exact hs.world _ (List.mem_append_left _ hvw)
                · rcases (hP x).mp hx with hx | hx
                  · exact hs.world _ (List.mem_append_right _ hx)
                  · rcases List.mem_map.mp hx with ⟨n, hn, rfl⟩
                    exact hs.world _ (List.mem_append_left _ (inWorld_mem (hnames n (by rw [e1]; simp [hn]))))
              · intro c hc _
                rw [List.mem_singleton.mp hc]
                exact hs.unstar _ hvw (by rw [inWorld_name]; exact hvH)
              · intro i hi hm
                exact hs.ivs i hi (List.mem_singleton.mp hm ▸ hvH)
              · intro x hx
                rcases (hP x).mp hx with hx | hx
                · intro hm
                  exact (hs.parents x hx) (List.mem_singleton.mp hm ▸ hvH)
                · rcases List.mem_map.mp hx with ⟨n, hn, rfl⟩
                  rw [inWorld_name]
                  intro hm
                  exact hvp (List.mem_singleton.mp hm ▸ hn)

/-- the probability of the ancestral set built from a probability `P_w(T ∪ E | Z)` of the weaker shape -/
theorem ancestralProb_inv (hM : M.Compatible G) (hG : G.WF) (hrank : G.Ranked) (σ' : Val) (topo A T : List Name)
    (htnd : topo.Nodup) (hAT : ∀ a ∈ A, a ∈ T) (hT : ∀ t ∈ T, t ∈ G.nodes) (hanc : AncestralIn G A T)
    (pop : Option Var) (ch pa : List Var) (qA : Expr)
    (hshape : ProbShapeIn G (.prob pop ch pa) (topo.filter (· ∈ T)))
    (hq : ∀ σ, den (M.env G) σ' (.prob pop ch pa) σ = M.Q (topo.filter (· ∈ T)) σ)
    (h : ancestralProb pop ch pa (topo.filter (· ∈ A)) = .ok qA) :
    (∀ σ, den (M.env G) σ' qA σ = M.Q (topo.filter (· ∈ A)) σ) ∧
      ProbShapeIn G qA (topo.filter (· ∈ A)) := by
  obtain ⟨w, hs⟩ := sshape_of_probShapeIn hshape
  have hoAne : topo.filter (· ∈ A) ≠ [] := by
    intro h0
    rw [h0] at h
    simp [ancestralProb] at h
  have hAH : ∀ a ∈ topo.filter (· ∈ A), a ∈ topo.filter (· ∈ T) := by
    intro a ha
    have := List.mem_filter.mp ha
    exact List.mem_filter.mpr ⟨this.1, by simpa using hAT a (by simpa using this.2)⟩
  have hsubT : ∀ x ∈ topo.filter (· ∈ T), x ∈ G.nodes :=
    fun x hx => hT x (by simpa using (List.mem_filter.mp hx).2)
  have hTne : topo.filter (· ∈ T) ≠ [] := by
    cases hl : topo.filter (· ∈ A) with
    | nil => exact absurd hl hoAne
    | cons a l =>
      intro h0
      have := hAH a (by rw [hl]; simp)
      rw [h0] at this; cases this
  constructor
  · intro σ
    obtain ⟨ρ, hr⟩ := reads_of_denotes hM hs hTne hsubT hq σ
    have := den_ancestralProb hM hG (R := topo.filter (fun v => v ∈ T ∧ v ∉ A)) hs hsubT
      (htnd.filter _) hoAne (htnd.filter _)
      (by
        intro x
        simp only [List.mem_filter, decide_eq_true_eq]
        constructor
        · rintro ⟨hxt, hx⟩
          by_cases hxA : x ∈ A
          · exact Or.inl ⟨hxt, hxA⟩
          · exact Or.inr ⟨hxt, hx, hxA⟩
        · rintro (⟨hxt, hx⟩ | ⟨hxt, hx, _⟩)
          · exact ⟨hxt, hAT x hx⟩
          · exact ⟨hxt, hx⟩)
      (by
        intro x hx hx'
        have h1 := (List.mem_filter.mp hx).2
        have h2 := (List.mem_filter.mp hx').2
        simp only [decide_eq_true_eq] at h1 h2
        exact h1.2 h2)
      h hr
    rw [this, funext hq]
    exact congrFun (sumVars_Q_anc hM hrank A T topo hAT hT hanc htnd) σ
  · obtain ⟨c, P', rfl, hs', _, _, _⟩ := ancestralProb_sshape hs (htnd.filter _) hAH h
    exact hs'.probShapeIn

/-- **IDENTIFY is sound under the weaker shape** (fuel form) -/
theorem identifyAux_sound (hM : M.Compatible G) (hG : G.WF) (hrank : G.Ranked) (σ' : Val)
    (topo : List Name) (htnd : topo.Nodup) (hord : TopoOrdered G topo) (C : List Name) :
    ∀ (fuel : Nat) (T : List Name) (q : Expr), (∀ t ∈ T, t ∈ G.nodes) →
      ProbShapeIn G q (topo.filter (· ∈ T)) →
      (∀ σ, den (M.env G) σ' q σ = M.Q (topo.filter (· ∈ T)) σ) →
      ∀ e, identifyAux G topo C fuel T q = .ok (some e) →
      ∀ σ, den (M.env G) σ' e σ = M.Q (topo.filter (· ∈ C)) σ := by
  intro fuel
  induction fuel with
  | zero => intro T q _ _ _ e h; simp [identifyAux] at h
  | succ fuel ih =>
    intro T q hT hshape hq e h σ
    simp only [identifyAux] at h
    split at h
    · cases h
    · rename_i hCT
      split at h
      · cases h
      · split at h
        · cases h
        · split at h
          · cases h
          · have hCT' : ∀ c ∈ C, c ∈ T := subset'_iff.mp (by simpa using hCT)
            cases hA : (G.subgraph T).ancestorsInclusive C with
            | error err => rw [hA] at h; simp [bind, Except.bind] at h
            | ok A =>
              rw [hA] at h
              simp only [bind, Except.bind] at h
              obtain ⟨hCA, hAT, hanc⟩ := anc_facts G C T A hCT' hA
              split at h
              · rename_i hAC
                cases hr : ancestralQ A T q topo with
                | error err => rw [hr] at h; simp at h
                | ok r =>
                  rw [hr] at h
                  simp only [pure, Except.pure] at h
                  cases h
                  rw [ancestralQ_inv hM hrank σ' topo A T htnd hAT hT hanc q e hq hr σ,
                    filter_congr_mem (seteq'_iff.mp hAC)]
              · split at h
                · simp [pure, Except.pure] at h
                · split at h
                  · split at h
                    · cases h
                    · rename_i T' hfind
                      have hT'mem : T' ∈ (G.subgraph (topo.filter (· ∈ A))).districts :=
                        List.mem_of_find?_eq_some hfind
                      obtain ⟨hT'nd, hT'A, hT'closed, _⟩ := district_facts G _ T' hT'mem
                      have hLA : ∀ v ∈ topo.filter (· ∈ A), v ∈ G.nodes := by
                        intro v hv
                        exact hT v (hAT v (by simpa using (List.mem_filter.mp hv).2))
                      have hqA : ∀ qA, ancestralExpr q A T (topo.filter (· ∈ A)) topo = .ok qA →
                          (∀ σ, den (M.env G) σ' qA σ = M.Q (topo.filter (· ∈ A)) σ) ∧
                            ProbShapeIn G qA (topo.filter (· ∈ A)) := by
                        intro qA hqA
                        unfold ancestralExpr at hqA
                        split at hqA
                        · rename_i hfps
                          refine ⟨ancestralQ_inv hM hrank σ' topo A T htnd hAT hT hanc q qA hq hqA, ?_⟩
                          exact probShapeIn_of_not_prob (sumSafe_not_prob (isProb_of_fps hfps) hqA)
                        · split at hqA
                          · exact ancestralProb_inv hM hG hrank σ' topo A T htnd hAT hT hanc _ _ _ qA hshape hq hqA
                          · cases hqA
                      cases hqA' : ancestralExpr q A T (topo.filter (· ∈ A)) topo with
                      | error err => rw [hqA'] at h; simp at h
                      | ok qA =>
                        rw [hqA'] at h
                        simp only at h
                        obtain ⟨hdenA, hshapeA⟩ := hqA qA hqA'
                        cases hc : computeCFactor T' A qA topo with
                        | error err => rw [hc] at h; simp at h
                        | ok qT' =>
                          rw [hc] at h
                          simp only at h
                          have hT'sub : ∀ v ∈ T', v ∈ topo.filter (· ∈ A) := hT'A
                          have hdenT' : ∀ σ, den (M.env G) σ' qT' σ = M.Q T' σ :=
                            computeCFactor_sound hM hG hrank σ' topo A htnd hord hLA T' hT'nd hT'sub hT'closed
                              qA qT' hshapeA hdenA hc
                          have hT'topo : ∀ v ∈ T', v ∈ topo := fun v hv => (List.mem_filter.mp (hT'A v hv)).1
                          have hperm : (topo.filter (· ∈ T')).Perm T' := filter_perm_of_nodup hT'nd htnd hT'topo
                          apply ih T' qT' (fun t ht => hLA t (hT'A t ht)) _ _ e h σ
                          · unfold computeCFactor at hc
                            simp only at hc
                            split at hc
                            · rename_i hfps
                              exact probShapeIn_of_not_prob (lemma4_not_prob (isProb_of_fps hfps) hc)
                            · split at hc
                              · cases hc
                              · rename_i hprob
                                cases qA with
                                | prob pop ch pa =>
                                  obtain ⟨w, hs⟩ := sshape_of_probShapeIn hshapeA
                                  exact lemma1_probShapeIn hs hT'sub hc _ hperm.symm
                                | _ => simp [isProb] at hprob
                          · intro τ
                            rw [hdenT' τ, Scm.Q_perm M hperm]
                  · cases h

end TianSem
end Y0
