/-
  Y0.Lemmas.CfIdcRule2 — rule 2 of the do-calculus (marginal form) for FUNCTIONAL SCMs, by an argument on the noise space;
  no positivity of any kernel is used.

      P(Y = y, X = x) = P(Y_x = y) · P(X = x)

  whenever, in the ADMG `G` the model is compatible with,
    `A` = the variables that reach an outcome by a directed path on which no edge LEAVES `X`     (ancestors in G with the
          edges leaving X removed),
    `B` = the variables that reach `X` by a directed path
  are disjoint and no bidirected edge joins `A` and `B` (what "Y d-separated from X in G_{\underline X}" with an empty
  conditioning set says).  Proof:
    * consistency: at a noise point with `X(u) = x` the world `do(X = x)` has the same solution as the factual world;
    * `Y_x` reads the noise only through the exogenous arguments of `A`, `X` only through those of `B` (`solve_dependsOn_closed`);
    * these coordinate sets are disjoint (`Compatible.lat_bi`), and the noise measure is a product (`mass_indep`).
-/
import Y0.Lemmas.CfProb
import Mathlib.Logic.Relation
import Y0.Lemmas.CfFscm

namespace Y0.Fscm

/-- induction along the evaluation order: parents first -/
theorem topo_induction (M : Model) (hM : TopoOrder M) (P : Name → Prop)
    (h : ∀ v ∈ M.order, (∀ p ∈ M.pa v, P p) → P v) : ∀ v ∈ M.order, P v := by
  suffices H : ∀ (n : Nat) (l₁ l₂ : List Name), l₁.length = n → M.order = l₁ ++ l₂ → ∀ v ∈ l₁, P v by
    intro v hv
    exact H M.order.length M.order [] rfl (by simp) v hv
  intro n
  induction n with
  | zero =>
    intro l₁ l₂ hl _ v hv
    have : l₁ = [] := List.length_eq_zero_iff.1 hl
    subst this
    cases hv
  | succ n ih =>
    intro l₁ l₂ hl hord v hv
    rcases List.eq_nil_or_concat l₁ with h0 | ⟨l₁', a, h1⟩
    · subst h0; cases hl
    · rw [List.concat_eq_append] at h1
      subst h1
      have hlen : l₁'.length = n := by simpa using hl
      have hord' : M.order = l₁' ++ a :: l₂ := by simpa using hord
      have hprev := ih l₁' (a :: l₂) hlen hord'
      rcases List.mem_append.1 hv with hv | hv
      · exact hprev v hv
      · simp only [List.mem_singleton] at hv
        subst hv
        apply h v (by rw [hord']; simp)
        intro p hp
        exact hprev p (hM.2 l₁' v l₂ hord' p hp)

theorem solve_not_mem (M : Model) (u : NoisePoint) (d : Do) (v : Name) (hv : v ∉ M.order) : solve M u d v = 0 := by
  unfold solve
  rw [foldl_step_not_mem M u d M.order _ v hv]

/-- **the solution on a parent-closed set reads the noise only through the exogenous arguments of its unforced members** -/
theorem solve_dependsOn_closed (M : Model) (hM : TopoOrder M) (d : Do) (S : Name → Prop)
    (hS : ∀ v, S v → forced d v = none → ∀ p ∈ M.pa v, S p) (u u' : NoisePoint)
    (huu : ∀ j, (∃ s, S s ∧ forced d s = none ∧ j ∈ M.lat s) → u.getD j 0 = u'.getD j 0) :
    ∀ v, S v → solve M u d v = solve M u' d v := by
  intro v hSv
  by_cases hv : v ∈ M.order
  · revert hSv
    refine topo_induction M hM (fun v => S v → solve M u d v = solve M u' d v) ?_ v hv
    intro v hv ih hSv
    cases hf : forced d v with
    | some x => rw [solve_forced M u d v x hv hf, solve_forced M u' d v x hv hf]
    | none =>
      rw [solve_unforced M hM u d v hv hf, solve_unforced M hM u' d v hv hf]
      congr 1
      · exact List.map_congr_left (fun p hp => ih p hp (hS v hSv hf p hp))
      · exact List.map_congr_left (fun j hj => huu j ⟨v, hSv, hf, hj⟩)
  · rw [solve_not_mem M u d v hv, solve_not_mem M u' d v hv]

theorem forced_single (X : Name) (x : Nat) (v : Name) :
    forced [(X, x)] v = if X = v then some x else none := by
  unfold forced
  by_cases h : X = v <;> simp [List.find?, h]

theorem forced_nil (v : Name) : forced [] v = none := rfl

/-- **consistency**: at a noise point where `X` takes the value `x`, intervening `do(X = x)` changes nothing -/
theorem solve_consistency (M : Model) (hM : TopoOrder M) (u : NoisePoint) (X : Name) (x : Nat)
    (hx : solve M u [] X = x) : ∀ v, solve M u [(X, x)] v = solve M u [] v := by
  intro v
  by_cases hv : v ∈ M.order
  · refine topo_induction M hM (fun v => solve M u [(X, x)] v = solve M u [] v) ?_ v hv
    intro v hv ih
    by_cases hvX : X = v
    · subst hvX
      rw [solve_forced M u [(X, x)] X x hv (by rw [forced_single]; simp), hx]
    · have hf : forced [(X, x)] v = none := by rw [forced_single]; simp [hvX]
      rw [solve_unforced M hM u _ v hv hf, solve_unforced M hM u [] v hv (forced_nil v)]
      congr 1
      exact List.map_congr_left ih
  · rw [solve_not_mem M u _ v hv, solve_not_mem M u _ v hv]

/-- two worlds that force the same values on a parent-closed set have the same solution there -/
theorem solve_agree_closed (M : Model) (hM : TopoOrder M) (u : NoisePoint) (d₁ d₂ : Do) (S : Name → Prop)
    (hforced : ∀ a, S a → forced d₁ a = forced d₂ a)
    (hcl : ∀ a, S a → forced d₁ a = none → ∀ p ∈ M.pa a, S p) :
    ∀ a, S a → solve M u d₁ a = solve M u d₂ a := by
  intro v hSv
  by_cases hv : v ∈ M.order
  · revert hSv
    refine topo_induction M hM (fun v => S v → solve M u d₁ v = solve M u d₂ v) ?_ v hv
    intro v hv ih hSv
    cases hf : forced d₁ v with
    | some x => rw [solve_forced M u d₁ v x hv hf, solve_forced M u d₂ v x hv (by rw [← hforced v hSv, hf])]
    | none =>
      rw [solve_unforced M hM u d₁ v hv hf, solve_unforced M hM u d₂ v hv (by rw [← hforced v hSv, hf])]
      congr 1
      exact List.map_congr_left (fun p hp => ih p hp (hcl v hSv hf p hp))
  · rw [solve_not_mem M u d₁ v hv, solve_not_mem M u d₂ v hv]

/-- a variable that does not descend from `X` is the same random variable under `do(X = x)` -/
theorem solve_nondescendant (M : Model) (G : MG Name) (hM : Compatible M G) (u : NoisePoint) (X : Name) (x : Nat) (y : Name)
    (hnd : ¬ Relation.ReflTransGen (fun a b => (a, b) ∈ G.di) X y) : solve M u [(X, x)] y = solve M u [] y := by
  apply solve_agree_closed M hM.topoOrder u [(X, x)] [] (fun v => Relation.ReflTransGen (fun a b => (a, b) ∈ G.di) v y)
  · intro a ha
    rw [forced_single, forced_nil, if_neg]
    intro h
    exact hnd (h ▸ ha)
  · intro a ha _ p hp
    exact Relation.ReflTransGen.head (hM.pa_sub a p hp) ha
  · exact .refl

theorem DependsOn.all {α : Type} (E : α → NoisePoint → Bool) (I : Nat → Prop) (l : List α)
    (h : ∀ a ∈ l, DependsOn (E a) I) : DependsOn (fun u => l.all fun a => E a u) I := by
  intro u u' huu
  apply Bool.eq_iff_iff.2
  simp only [List.all_eq_true]
  constructor
  · intro hh a ha; rw [← h a ha u u' huu]; exact hh a ha
  · intro hh a ha; rw [h a ha u u' huu]; exact hh a ha

/-- **Rule 2, marginal form, for functional SCMs.**  `Ys` : the outcome variables with their values; `A` ⊇ the outcome
variables, closed under the parents other than `X`; `B` ∋ `X`, closed under parents; `A` and `B` disjoint and not joined by
a bidirected edge. -/
theorem prob_exchange_marginal (M : Model) (G : MG Name) (hM : Compatible M G) (hn : ∀ pmf ∈ M.noise, pmf.sum = 1)
    (X : Name) (x : Nat) (Ys : List (Name × Nat)) (A B : Name → Prop)
    (hA : ∀ y ∈ Ys, A y.1) (hAcl : ∀ v, A v → ∀ p, (p, v) ∈ G.di → p ≠ X → A p)
    (hB : B X) (hBcl : ∀ v, B v → ∀ p, (p, v) ∈ G.di → B p)
    (hdisj : ∀ v, A v → B v → False) (hbi : ∀ v w, A v → B w → ¬ ((v, w) ∈ G.bi ∨ (w, v) ∈ G.bi)) :
    prob M ((Ys.map fun (y : Name × Nat) => (⟨y.1, [], y.2⟩ : Conjunct)) ++ [⟨X, [], x⟩]) =
      prob M (Ys.map fun (y : Name × Nat) => (⟨y.1, [(X, x)], y.2⟩ : Conjunct)) * prob M [⟨X, [], x⟩] := by
  have hT := hM.topoOrder
  rw [prob_eq_mass, prob_eq_mass, prob_eq_mass]
  set EA : NoisePoint → Bool := fun u => (Ys.map fun (y : Name × Nat) => (⟨y.1, [(X, x)], y.2⟩ : Conjunct)).all (holds M u) with hEA
  set EB : NoisePoint → Bool := fun u => [(⟨X, [], x⟩ : Conjunct)].all (holds M u) with hEB
  have hcongr : ∀ u, ((Ys.map fun (y : Name × Nat) => (⟨y.1, [], y.2⟩ : Conjunct)) ++ [(⟨X, [], x⟩ : Conjunct)]).all (holds M u) =
      (EA u && EB u) := by
    intro u
    simp only [hEA, hEB, List.all_append, List.all_map]
    by_cases hx : solve M u [] X = x
    · congr 1
      apply List.all_congr rfl
      intro y
      simp only [Function.comp, holds]
      rw [solve_consistency M hT u X x hx]
    · have : [(⟨X, [], x⟩ : Conjunct)].all (holds M u) = false := by simp [holds, hx]
      rw [this, Bool.and_false, Bool.and_false]
  rw [mass_congr M.noise hcongr]
  apply mass_indep M.noise hn EA EB (fun j => ∃ s, A s ∧ j ∈ M.lat s) (fun j => ∃ s, B s ∧ j ∈ M.lat s)
  · -- `Y_x` reads the noise through `A` only
    show DependsOn (fun u => (Ys.map fun (y : Name × Nat) => (⟨y.1, [(X, x)], y.2⟩ : Conjunct)).all fun c => holds M u c) _
    apply DependsOn.all (fun (c : Conjunct) u => holds M u c)
    intro c hc
    obtain ⟨y, hy, rfl⟩ := List.mem_map.1 hc
    intro u u' huu
    simp only [holds]
    rw [solve_dependsOn_closed M hT [(X, x)] (fun v => A v ∨ v = X) ?_ u u' ?_ y.1 (Or.inl (hA y hy))]
    · intro v hv hf p hp
      have hvX : ¬ X = v := by
        intro h; rw [forced_single, if_pos h] at hf; cases hf
      rcases hv with hv | hv
      · by_cases hpX : p = X
        · exact Or.inr hpX
        · exact Or.inl (hAcl v hv p (hM.pa_sub v p hp) hpX)
      · exact absurd hv.symm hvX
    · rintro j ⟨s, hs, hf, hj⟩
      have hsX : ¬ X = s := by
        intro h; rw [forced_single, if_pos h] at hf; cases hf
      rcases hs with hs | hs
      · exact huu j ⟨s, hs, hj⟩
      · exact absurd hs.symm hsX
  · -- `X` reads the noise through `B` only
    intro u u' huu
    simp only [hEB, List.all_cons, List.all_nil, Bool.and_true, holds]
    rw [solve_dependsOn_closed M hT [] B ?_ u u' ?_ X hB]
    · intro v hv _ p hp
      exact hBcl v hv p (hM.pa_sub v p hp)
    · rintro j ⟨s, hs, _, hj⟩
      exact huu j ⟨s, hs, hj⟩
  · rintro j ⟨s, hs, hjs⟩ ⟨t, ht, hjt⟩
    have hst : s ≠ t := fun h => hdisj s hs (h ▸ ht)
    exact hbi s t hs ht (hM.lat_bi s t hst ⟨j, hjs, hjt⟩)

end Y0.Fscm
