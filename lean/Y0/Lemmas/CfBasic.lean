/-
  Y0.Lemmas.CfBasic — small facts shared by the cf lemma files (no dependency on Props, so that Props/C18 can import the
  Lemma-24 development): sorting helpers, well-formed event dicts, the self-intervention status of merged nodes.
-/
import Y0.Lemmas.CfGraph

namespace Y0
open MG

/-! ### generic list facts -/

theorem length_insertBy {α} (lt : α → α → Bool) (x : α) (l : List α) : (insertBy lt x l).length = l.length + 1 := by
  induction l with
  | nil => rfl
  | cons y ys ih =>
    simp only [insertBy]
    split <;> simp [ih]

theorem length_sortBy {α} (lt : α → α → Bool) (l : List α) : (sortBy lt l).length = l.length := by
  induction l with
  | nil => rfl
  | cons x xs ih => simp [sortBy, List.foldr_cons, length_insertBy] at ih ⊢; exact ih

theorem mem_insertBy {α} (lt : α → α → Bool) (x a : α) (l : List α) : a ∈ insertBy lt x l ↔ a = x ∨ a ∈ l := by
  induction l with
  | nil => simp [insertBy]
  | cons y ys ih =>
    simp only [insertBy]
    split
    · simp only [List.mem_cons, ih]; tauto
    · simp

theorem mem_sortBy {α} (lt : α → α → Bool) (a : α) (l : List α) : a ∈ sortBy lt l ↔ a ∈ l := by
  induction l with
  | nil => simp [sortBy]
  | cons x xs ih =>
    have : sortBy lt (x :: xs) = insertBy lt x (sortBy lt xs) := rfl
    rw [this, mem_insertBy, ih]; simp

theorem dedup'_ne_nil {α} [DecidableEq α] (l : List α) (h : l ≠ []) : dedup' l ≠ [] := by
  cases l with
  | nil => exact absurd rfl h
  | cons x xs => simp [dedup']

namespace Cf

/-- a well-formed event dict: no repeated key, every value named after its variable -/
structure EvOK (ev : Event) : Prop where
  nodup : ev.keys.Nodup
  names : ∀ p ∈ ev, p.2.name = p.1.name

theorem lemma24Holds_nsi {cf : MG Var} {ev : Event} {a b : Var} (h : lemma24Holds cf ev a b = true) :
    isNotSelfIntervened a = isNotSelfIntervened b := by
  simp only [lemma24Holds, isPwEquivalent, hasSameFunction, Bool.and_eq_true, beq_iff_eq] at h
  exact h.2.1.1.2

end Cf
end Y0
