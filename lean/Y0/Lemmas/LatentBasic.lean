/-
  Y0.Lemmas.LatentBasic — membership characterisations of the LV-DAG mutators
  (`add_node`, `add_edge`, `remove_nodes_from`) and the path calculus of `LatPath`.
-/
import Y0.Spec.LatentSpec
import Y0.Lemmas.Graph

namespace Y0.LV
open Relation

/-! ### `parents` / `children` -/

theorem mem_parents (D : LV) (v p : Nat) : p ∈ D.parents v ↔ D.Edge p v := by
  simp only [parents, List.mem_map, List.mem_filter, decide_eq_true_eq, Edge]
  constructor
  · rintro ⟨⟨a, b⟩, ⟨h, rfl⟩, rfl⟩; exact h
  · intro h; exact ⟨(p, v), ⟨h, rfl⟩, rfl⟩

theorem mem_children (D : LV) (v c : Nat) : c ∈ D.children v ↔ D.Edge v c := by
  simp only [children, List.mem_map, List.mem_filter, decide_eq_true_eq, Edge]
  constructor
  · rintro ⟨⟨a, b⟩, ⟨h, rfl⟩, rfl⟩; exact h
  · intro h; exact ⟨(v, c), ⟨h, rfl⟩, rfl⟩

theorem nodup_children (D : LV) (h : D.edges.Nodup) (v : Nat) : (D.children v).Nodup := by
  unfold children
  refine List.Nodup.map_on ?_ (h.filter _)
  rintro ⟨a, b⟩ ha ⟨c, d⟩ hc hbd
  simp only [List.mem_filter, decide_eq_true_eq] at ha hc
  obtain ⟨_, rfl⟩ := ha
  obtain ⟨_, rfl⟩ := hc
  simp only at hbd
  rw [hbd]

theorem parents_eq_nil (D : LV) (v : Nat) : D.parents v = [] ↔ ∀ p, ¬ D.Edge p v := by
  rw [List.eq_nil_iff_forall_not_mem]
  exact forall_congr' fun p => by rw [mem_parents]

theorem children_eq_nil (D : LV) (v : Nat) : D.children v = [] ↔ ∀ c, ¬ D.Edge v c := by
  rw [List.eq_nil_iff_forall_not_mem]
  exact forall_congr' fun c => by rw [mem_children]

/-! ### `removeNodes` -/

@[simp] theorem mem_nodes_removeNodes (D : LV) (S : List Nat) (x : Nat) :
    x ∈ (D.removeNodes S).nodes ↔ x ∈ D.nodes ∧ x ∉ S := by simp [removeNodes]

@[simp] theorem mem_latent_removeNodes (D : LV) (S : List Nat) (x : Nat) :
    x ∈ (D.removeNodes S).latent ↔ x ∈ D.latent ∧ x ∉ S := by simp [removeNodes]

@[simp] theorem edge_removeNodes (D : LV) (S : List Nat) (a b : Nat) :
    (D.removeNodes S).Edge a b ↔ D.Edge a b ∧ a ∉ S ∧ b ∉ S := by simp [removeNodes, Edge]

theorem removeNodes_nil (D : LV) : D.removeNodes [] = D := by
  cases D; simp [removeNodes]

theorem wf_removeNodes (D : LV) (S : List Nat) (h : D.WF) : (D.removeNodes S).WF where
  nodes_nodup := h.nodes_nodup.filter _
  edges_nodup := h.edges_nodup.filter _
  edge_mem := by
    rintro ⟨a, b⟩ he
    have he' : (D.removeNodes S).Edge a b := he
    rw [edge_removeNodes] at he'
    have := h.edge_mem (a, b) he'.1
    simp only [mem_nodes_removeNodes]
    exact ⟨⟨this.1, he'.2.1⟩, ⟨this.2, he'.2.2⟩⟩
  latent_mem := by
    intro l hl
    rw [mem_latent_removeNodes] at hl
    rw [mem_nodes_removeNodes]
    exact ⟨h.latent_mem l hl.1, hl.2⟩
  tagged := by simp [removeNodes, h.tagged]

theorem length_removeNodes_lt (D : LV) (S : List Nat) (x : Nat) (hx : x ∈ S) (hxn : x ∈ D.nodes) :
    (D.removeNodes S).nodes.length < D.nodes.length := by
  simp only [removeNodes]
  apply List.length_filter_lt_length_iff_exists.2
  exact ⟨x, hxn, by simpa using hx⟩

/-! ### `addPlainNode`, `addLatentNode`, `addEdge` -/

theorem addPlainNode_of_mem (D : LV) (n : Nat) (h : n ∈ D.nodes) : D.addPlainNode n = D := by
  simp [addPlainNode, h]

/-- when both endpoints exist, `add_edge` only touches the edge list -/
theorem addEdge_of_mem (D : LV) (e : Nat × Nat) (h1 : e.1 ∈ D.nodes) (h2 : e.2 ∈ D.nodes) :
    D.addEdge e = { D with edges := if e ∈ D.edges then D.edges else D.edges ++ [e] } := by
  simp only [addEdge, addPlainNode_of_mem D e.1 h1, addPlainNode_of_mem D e.2 h2]
  split <;> rfl

theorem nodes_addEdge_of_mem (D : LV) (e : Nat × Nat) (h1 : e.1 ∈ D.nodes) (h2 : e.2 ∈ D.nodes) :
    (D.addEdge e).nodes = D.nodes := by rw [addEdge_of_mem D e h1 h2]
theorem latent_addEdge_of_mem (D : LV) (e : Nat × Nat) (h1 : e.1 ∈ D.nodes) (h2 : e.2 ∈ D.nodes) :
    (D.addEdge e).latent = D.latent := by rw [addEdge_of_mem D e h1 h2]
theorem untagged_addEdge_of_mem (D : LV) (e : Nat × Nat) (h1 : e.1 ∈ D.nodes) (h2 : e.2 ∈ D.nodes) :
    (D.addEdge e).untagged = D.untagged := by rw [addEdge_of_mem D e h1 h2]

theorem mem_edges_addEdge_of_mem (D : LV) (e x : Nat × Nat) (h1 : e.1 ∈ D.nodes) (h2 : e.2 ∈ D.nodes) :
    x ∈ (D.addEdge e).edges ↔ x ∈ D.edges ∨ x = e := by
  rw [addEdge_of_mem D e h1 h2]
  simp only
  split
  · constructor
    · exact Or.inl
    · rintro (h | rfl) <;> assumption
  · simp

theorem nodup_edges_addEdge_of_mem (D : LV) (e : Nat × Nat) (h1 : e.1 ∈ D.nodes) (h2 : e.2 ∈ D.nodes)
    (h : D.edges.Nodup) : (D.addEdge e).edges.Nodup := by
  rw [addEdge_of_mem D e h1 h2]
  simp only
  split
  · exact h
  · rename_i hne
    exact List.Nodup.append h (by simp) (by simp_all)

/-- a batch of edges between existing nodes -/
theorem foldl_addEdge_of_mem (es : List (Nat × Nat)) (D : LV)
    (hes : ∀ e ∈ es, e.1 ∈ D.nodes ∧ e.2 ∈ D.nodes) :
    (es.foldl addEdge D).nodes = D.nodes ∧ (es.foldl addEdge D).latent = D.latent ∧
    (es.foldl addEdge D).untagged = D.untagged ∧
    (∀ x, x ∈ (es.foldl addEdge D).edges ↔ x ∈ D.edges ∨ x ∈ es) ∧
    (D.edges.Nodup → (es.foldl addEdge D).edges.Nodup) := by
  induction es generalizing D with
  | nil => simp
  | cons e es ih =>
    have h1 := (hes e (by simp)).1
    have h2 := (hes e (by simp)).2
    have hn := nodes_addEdge_of_mem D e h1 h2
    have ih' := ih (D.addEdge e) (by
      intro e' he'
      rw [hn]
      exact hes e' (by simp [he']))
    simp only [List.foldl_cons]
    refine ⟨ih'.1.trans hn, ih'.2.1.trans (latent_addEdge_of_mem D e h1 h2),
      ih'.2.2.1.trans (untagged_addEdge_of_mem D e h1 h2), ?_, ?_⟩
    · intro x
      rw [ih'.2.2.2.1 x, mem_edges_addEdge_of_mem D e x h1 h2]
      simp only [List.mem_cons]
      tauto
    · intro hnd
      exact ih'.2.2.2.2 (nodup_edges_addEdge_of_mem D e h1 h2 hnd)

@[simp] theorem mem_nodes_addLatentNode (D : LV) (n x : Nat) :
    x ∈ (D.addLatentNode n).nodes ↔ x ∈ D.nodes ∨ x = n := by
  simp only [addLatentNode]
  split
  · constructor
    · exact Or.inl
    · rintro (h | rfl) <;> assumption
  · simp

@[simp] theorem mem_latent_addLatentNode (D : LV) (n x : Nat) :
    x ∈ (D.addLatentNode n).latent ↔ x ∈ D.latent ∨ x = n := by
  simp only [addLatentNode]
  split
  · constructor
    · exact Or.inl
    · rintro (h | rfl) <;> assumption
  · simp

@[simp] theorem edges_addLatentNode (D : LV) (n : Nat) : (D.addLatentNode n).edges = D.edges := rfl

theorem untagged_addLatentNode (D : LV) (n : Nat) (h : D.untagged = []) :
    (D.addLatentNode n).untagged = [] := by simp [addLatentNode, h]

theorem nodup_nodes_addLatentNode (D : LV) (n : Nat) (h : D.nodes.Nodup) :
    (D.addLatentNode n).nodes.Nodup := by
  simp only [addLatentNode]
  split
  · exact h
  · exact List.Nodup.append h (by simp) (by simp_all)

/-! ### `LatPath` calculus -/

/-- paths compose through a latent node -/
theorem LatPath.trans {D : LV} {a l b : Nat} (h1 : D.LatPath a l) (hl : D.Latent l) (h2 : D.LatPath l b) :
    D.LatPath a b := by
  induction h1 with
  | edge h => exact .cons h hl h2
  | cons h hl' _ ih => exact .cons h hl' (ih hl h2)

/-- a path is in particular a non-empty chain of edges -/
theorem LatPath.transGen {D : LV} {a b : Nat} (h : D.LatPath a b) : TransGen D.Edge a b := by
  induction h with
  | edge h => exact .single h
  | cons h _ _ ih => exact .head h ih

/-- first edge of a path -/
theorem LatPath.first {D : LV} {a b : Nat} (h : D.LatPath a b) : ∃ c, D.Edge a c := by
  cases h with
  | edge h => exact ⟨_, h⟩
  | cons h _ _ => exact ⟨_, h⟩

/-- last edge of a path -/
theorem LatPath.last {D : LV} {a b : Nat} (h : D.LatPath a b) : ∃ c, D.Edge c b := by
  induction h with
  | edge h => exact ⟨_, h⟩
  | cons _ _ _ ih => exact ih

/-- in a flat graph a latent-only path is a single edge -/
theorem latPath_flat {D : LV} (hf : D.Flat) {a b : Nat} : D.LatPath a b ↔ D.Edge a b := by
  constructor
  · intro h
    cases h with
    | edge h => exact h
    | cons h hl _ => exact absurd hl (hf _ h)
  · exact .edge

/-- paths only depend on the edge relation and the latent tags along the way -/
theorem LatPath.mono {D D' : LV} {a b : Nat} (h : D.LatPath a b)
    (he : ∀ x y, D.Edge x y → D'.Edge x y) (hl : ∀ x y, D.Edge x y → D.Latent y → D'.Latent y) :
    D'.LatPath a b := by
  induction h with
  | edge h => exact .edge (he _ _ h)
  | cons h hlat _ ih => exact .cons (he _ _ h) (hl _ _ h hlat) ih

/-- a graph whose edges all increase some rank is acyclic -/
theorem acyclic_of_rank (D : LV) (f : Nat → Nat) (h : ∀ e ∈ D.edges, f e.1 < f e.2) : D.Acyclic := by
  have key : ∀ x y, TransGen D.Edge x y → f x < f y := by
    intro x y hxy
    induction hxy with
    | single hab => exact h _ hab
    | tail _ hbc ih => exact Nat.lt_trans ih (h _ hbc)
  intro v hv
  exact Nat.lt_irrefl _ (key v v hv)

end Y0.LV
