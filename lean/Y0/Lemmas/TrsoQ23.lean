/-
  Y0.Lemmas.TrsoQ23 — lines 2 and 3 of the TRSO recursion (`Y0.Model.Trso`) under the all-phase invariant `QInv`
  (`Y0.Lemmas.TrsoQInv`): the graph-level steps succeed, the query handed to the recursive call satisfies `QInv`
  again and the measure `mu2` decreases.  The `TInv` versions are in `Y0.Lemmas.TrsoT234`.
-/
import Y0.Lemmas.TrsoQInv
import Y0.Lemmas.TrsoT234

namespace Y0
namespace Trso
open TrDsl MG Relation

/-! ### small facts -/

theorem length_filter_le_of_imp {l : List Name} {p q : Name → Bool} (hpq : ∀ a ∈ l, p a = true → q a = true) :
    (l.filter p).length ≤ (l.filter q).length := by
  rw [← List.countP_eq_length_filter, ← List.countP_eq_length_filter]
  exact List.countP_mono_left hpq

theorem mem_regularNodes {G : MG Name} {v : Name} : v ∈ regularNodes G ↔ v ∈ G.nodes ∧ isTnode v = false := by
  unfold regularNodes; simp [List.mem_filter]

theorem mem_transportNodes {G : MG Name} {v : Name} : v ∈ transportNodes G ↔ v ∈ G.nodes ∧ isTnode v = true := by
  unfold transportNodes; simp [List.mem_filter]

/-! ### directed paths that start at a regular node -/

/-- a directed path that starts at a regular node only uses edges with a regular source (selection nodes have no
parents), so it survives in every graph that contains those edges -/
theorem reach_reg {G H : MG Name} (htpl : ∀ e ∈ G.di, isTnode e.2 = false)
    (hsub : ∀ e ∈ G.di, isTnode e.1 = false → e ∈ H.di) {v s : Name} (hv : isTnode v = false)
    (h : ReflTransGen G.DiEdge v s) : ReflTransGen H.DiEdge v s := by
  revert hv
  refine ReflTransGen.head_induction_on (motive := fun a _ => isTnode a = false → ReflTransGen H.DiEdge a s) h ?_ ?_
  · intro _; exact .refl
  · intro a c hac _ ih ha
    have hac' : (a, c) ∈ G.di := hac
    exact ReflTransGen.head (hsub (a, c) hac' ha) (ih (htpl (a, c) hac'))

theorem Anc_reg {G H : MG Name} (htpl : ∀ e ∈ G.di, isTnode e.2 = false)
    (hsub : ∀ e ∈ G.di, isTnode e.1 = false → e ∈ H.di) {S : List Name} {v : Name} (hv : isTnode v = false)
    (h : G.Anc S v) : H.Anc S v := by
  obtain ⟨s, hs, hp⟩ := h
  exact ⟨s, hs, reach_reg htpl hsub hv hp⟩

/-- the regular part of a sub-graph is contained in a sub-graph of a graph containing the regular part -/
theorem regsub_subgraph {G H : MG Name} {a b : List Name} (htpl : ∀ e ∈ G.di, isTnode e.2 = false)
    (hsub : ∀ e ∈ G.di, isTnode e.1 = false → e ∈ H.di) (hab : ∀ v, isTnode v = false → v ∈ a → v ∈ b) :
    (∀ v ∈ (G.subgraph a).nodes, isTnode v = false → v ∈ (H.subgraph b).nodes) ∧
    (∀ e ∈ (G.subgraph a).di, isTnode e.1 = false → e ∈ (H.subgraph b).di) := by
  constructor
  · intro v hv hr
    exact (mem_nodes_subgraph _ _ _).2 (hab v hr ((mem_nodes_subgraph _ _ _).1 hv))
  · rintro ⟨u, v⟩ he hr
    have he' : (G.subgraph a).DiEdge u v := he
    obtain ⟨h1, h2, h3⟩ := (diEdge_subgraph _ _ _ _).1 he'
    have h1' : (u, v) ∈ G.di := h1
    exact (diEdge_subgraph _ _ _ _).2 ⟨hsub _ h1' hr, hab u hr h2, hab v (htpl _ h1') h3⟩

theorem tpl_subgraph {G : MG Name} (S : List Name) (htpl : ∀ e ∈ G.di, isTnode e.2 = false) :
    ∀ e ∈ (G.subgraph S).di, isTnode e.2 = false := by
  rintro ⟨u, v⟩ he
  have he' : (G.subgraph S).DiEdge u v := he
  exact htpl (u, v) ((diEdge_subgraph _ _ _ _).1 he').1

theorem tbi_subgraph {G : MG Name} (S : List Name) (htbi : ∀ e ∈ G.bi, isTnode e.1 = false ∧ isTnode e.2 = false) :
    ∀ e ∈ (G.subgraph S).bi, isTnode e.1 = false ∧ isTnode e.2 = false := by
  intro e he
  unfold subgraph at he
  exact htbi e (List.mem_filter.1 (mem_bi_fromEdges_sub _ _ _ _ he)).1

/-- ancestral sub-graphs of graphs with the same regular part have the same regular part -/
theorem RegEq.anc_subgraph {g G : MG Name} (hg : g.WF) (hG : G.WF) (h : RegEq g G)
    (htg : ∀ e ∈ g.di, isTnode e.2 = false) (htG : ∀ e ∈ G.di, isTnode e.2 = false) {Y a A : List Name}
    (ha : g.ancestorsInclusive Y = .ok a) (hA : G.ancestorsInclusive Y = .ok A) :
    RegEq (g.subgraph (nsort a)) (G.subgraph (nsort A)) := by
  have hsa := ancestorsInclusive_spec g hg Y a ha
  have hsA := ancestorsInclusive_spec G hG Y A hA
  have h1 : ∀ e ∈ g.di, isTnode e.1 = false → e ∈ G.di := fun e he hr => (h.2 e hr).1 he
  have h2 : ∀ e ∈ G.di, isTnode e.1 = false → e ∈ g.di := fun e he hr => (h.2 e hr).2 he
  have hab : ∀ v, isTnode v = false → v ∈ nsort a → v ∈ nsort A := fun v hr hv =>
    (mem_nsort _ _).2 ((hsA v).2 (Anc_reg htg h1 hr ((hsa v).1 ((mem_nsort _ _).1 hv))))
  have hba : ∀ v, isTnode v = false → v ∈ nsort A → v ∈ nsort a := fun v hr hv =>
    (mem_nsort _ _).2 ((hsa v).2 (Anc_reg htG h2 hr ((hsA v).1 ((mem_nsort _ _).1 hv))))
  have r1 := regsub_subgraph htg h1 hab
  have r2 := regsub_subgraph htG h2 hba
  exact ⟨fun v hr => ⟨fun hv => r1.1 v hv hr, fun hv => r2.1 v hv hr⟩,
    fun e hr => ⟨fun he => r1.2 e he hr, fun he => r2.2 e he hr⟩⟩

/-! ### line 2 -/

theorem QInv.anc_ok {M q G} (h : QInv M q G) : ∃ anc, G.ancestorsInclusive q.Y = .ok anc :=
  ancestorsInclusive_total G q.Y h.YinG

/-- line 2: all graph-level steps succeed; the DSL step is a hypothesis (`hdsl`) -/
theorem qline2_ok {M q G} (h : QInv M q G) {anc : List Name} (hanc : G.ancestorsInclusive q.Y = .ok anc)
    (hne : (diff' (regularNodes G) anc).isEmpty = false) (P : Expr → Prop)
    (hdsl : ∀ r, ∃ e', retag q.domain (sumSafe q.expr r true) = .ok e' ∧ P e') :
    ∃ q' G', line2 q anc = .ok q' ∧ QInv M q' G' ∧ mu2 M q' G' < mu2 M q G ∧ P q'.expr ∧
      q'.surr = q.surr ∧ q'.active = q.active ∧ q'.domain = q.domain := by
  obtain ⟨gs, hgs⟩ := mapM_mem (f := anc2 q.Y) (l := q.graphs) (fun p hp => anc2_total (h.Yin p hp))
  obtain ⟨e', he', hP⟩ := hdsl (plainVars (diff' (regularNodes G) anc))
  have hkey : ∀ p p', anc2 q.Y p = .ok p' → p'.1 = p.1 := by
    intro p p' hp
    obtain ⟨a, _, rfl⟩ := anc2_ok hp
    rfl
  obtain ⟨G', hG', hf⟩ := lookup_mapM hkey hgs h.look
  obtain ⟨a, ha, hpair⟩ := anc2_ok hf
  simp only at ha
  rw [hanc] at ha
  cases ha
  have hG'eq : G' = G.subgraph (nsort anc) := congrArg Prod.snd hpair
  subst hG'eq
  -- every new graph is the ancestral subgraph of an old one
  have hnew : ∀ p' ∈ gs, ∃ p ∈ q.graphs, ∃ a, p.2.ancestorsInclusive q.Y = .ok a ∧
      p' = (p.1, p.2.subgraph (nsort a)) := by
    intro p' hp'
    obtain ⟨p, hp, hpp⟩ := mapM_ok hgs p' hp'
    exact ⟨p, hp, anc2_ok hpp⟩
  have hancG : ∀ v, v ∈ anc ↔ G.Anc q.Y v := ancestorsInclusive_spec G h.wfG q.Y anc hanc
  have hancN : ∀ s ∈ nsort anc, s ∈ G.nodes := fun s hs =>
    ancestorsInclusive_sub h.wfG hanc s ((mem_nsort _ _).1 hs)
  refine ⟨{ q with X := inter' q.X anc, graphs := gs, expr := e' }, G.subgraph (nsort anc), ?_, ?_, ?_, hP,
    rfl, rfl, rfl⟩
  · rw [line2_eq, hgs]
    show (do
      let g ← q.graph
      let e ← retag q.domain (sumSafe q.expr (plainVars (diff' (regularNodes g) anc)) true)
      pure ({ q with X := inter' q.X anc, graphs := gs, expr := e } : Query)) = _
    unfold Query.graph
    rw [h.look]
    show (do
      let e ← retag q.domain (sumSafe q.expr (plainVars (diff' (regularNodes G) anc)) true)
      pure ({ q with X := inter' q.X anc, graphs := gs, expr := e } : Query)) = _
    rw [he']
    rfl
  · refine
      { look := hG', wf := ?_, rk := ?_, tpl := ?_, tbi := ?_, Yin := ?_, YT := h.YT, Yne := h.Yne, Xin := ?_,
        XY := ?_, sub := ?_, size := ?_, phase := ?_ }
    · intro p' hp'
      obtain ⟨p, _, a, _, rfl⟩ := hnew p' hp'
      exact wf_subgraph _ _
    · intro p' hp'
      obtain ⟨p, hp, a, _, rfl⟩ := hnew p' hp'
      exact (h.rk p hp).subgraph _
    · intro p' hp'
      obtain ⟨p, hp, a, _, rfl⟩ := hnew p' hp'
      exact tpl_subgraph _ (h.tpl p hp)
    · intro p' hp'
      obtain ⟨p, hp, a, _, rfl⟩ := hnew p' hp'
      exact tbi_subgraph _ (h.tbi p hp)
    · intro p' hp' y hy
      obtain ⟨p, hp, a, ha, rfl⟩ := hnew p' hp'
      exact (mem_nodes_subgraph _ _ _).2 ((mem_nsort _ _).2 (ancestorsInclusive_self (h.wf p hp) ha y hy))
    · intro x hx
      have hx' : x ∈ q.X ∧ x ∈ anc := mem_inter'.1 hx
      exact (mem_nodes_subgraph _ _ _).2 ((mem_nsort _ _).2 hx'.2)
    · intro y hy hyx
      have hx' : y ∈ q.X ∧ y ∈ anc := mem_inter'.1 hyx
      exact h.XY y hy hx'.1
    · intro p' hp'
      obtain ⟨p, hp, a, ha, rfl⟩ := hnew p' hp'
      have hspec := ancestorsInclusive_spec p.2 (h.wf p hp) q.Y a ha
      have hsubp := h.sub p hp
      apply regsub_subgraph h.tplG hsubp.2
      intro v hr hv
      have hv1 : G.Anc q.Y v := (hancG v).1 ((mem_nsort _ _).1 hv)
      exact (mem_nsort _ _).2 ((hspec v).2 (Anc_reg h.tplG hsubp.2 hr hv1))
    · intro p' hp'
      obtain ⟨p, hp, a, ha, rfl⟩ := hnew p' hp'
      refine le_trans (length_subgraph_le _ ?_) (h.size p hp)
      intro s hs
      exact ancestorsInclusive_sub (h.wf p hp) ha s ((mem_nsort _ _).1 hs)
    · rcases h.phase with ⟨hact, hdom, hnoT, hs⟩ | ⟨hact, hS⟩
      · refine Or.inl ⟨hact, hdom, ?_, ?_⟩
        · intro v hv
          exact hnoT v (hancN v ((mem_nodes_subgraph _ _ _).1 hv))
        · rcases hs with hs | ⟨hk, hreg⟩
          · exact Or.inl hs
          · refine Or.inr ⟨?_, ?_⟩
            · intro p' hp' hne'
              obtain ⟨p, hp, a, _, rfl⟩ := hnew p' hp'
              exact hk p hp hne'
            · intro p' hp'
              obtain ⟨p, hp, a, ha, rfl⟩ := hnew p' hp'
              exact (hreg p hp).anc_subgraph (h.wf p hp) h.wfG (h.tpl p hp) h.tplG ha hanc
      · refine Or.inr ⟨hact, ?_⟩
        rintro ⟨t, v⟩ he ht
        have he' : (G.subgraph (nsort anc)).DiEdge t v := he
        obtain ⟨h1, _, h3⟩ := (diEdge_subgraph _ _ _ _).1 he'
        exact mem_inter'.2 ⟨hS (t, v) h1 ht, (mem_nsort _ _).1 h3⟩
  · obtain ⟨w, hw⟩ := exists_mem_of_isEmpty_false hne
    have hw' : w ∈ regularNodes G ∧ w ∉ anc := mem_diff'.1 hw
    apply mu2_lt_of_nodes h.sizeG
    · exact length_subgraph_lt _ hancN (regularNodes_sub hw'.1) (fun hc => hw'.2 ((mem_nsort _ _).1 hc))
    · exact Nat.le_refl (flag q)

/-! ### line 3 -/

theorem QInv.noEffect_ok {M q G} (h : QInv M q G) : ∃ extra, noEffectOnOutcomes G q.X q.Y = .ok extra := by
  have hY : ∀ y ∈ q.Y, y ∈ (G.removeInEdges q.X).nodes := fun y hy =>
    (mem_nodes_removeInEdges G h.wfG q.X y).2 (h.YinG y hy)
  obtain ⟨a, ha⟩ := ancestorsInclusive_total _ q.Y hY
  unfold noEffectOnOutcomes
  rw [ha]
  exact ⟨_, rfl⟩

/-- exactly what `noEffectOnOutcomes` returns -/
theorem noEffect_mem {G : MG Name} {X Y extra : List Name} (hex : noEffectOnOutcomes G X Y = .ok extra) (v : Name) :
    v ∈ extra ↔ v ∈ G.nodes ∧ v ∉ X ∧ ¬ (G.removeInEdges X).Anc Y v := by
  unfold noEffectOnOutcomes at hex
  obtain ⟨a, ha, hex⟩ := bind_ok hex
  simp only [pure, Except.pure, Except.ok.injEq] at hex
  subst hex
  have hspec := ancestorsInclusive_spec _ (wf_removeInEdges G X) Y a ha v
  rw [← hspec]
  simp [List.mem_filter]

/-- a selection node outside `X` is not an ancestor of the outcomes once the edges into `X` are cut (all its
children are in `X`) -/
theorem tnode_not_anc {G : MG Name} {X Y : List Name} (hS : ∀ e ∈ G.di, isTnode e.1 = true → e.2 ∈ X)
    (hYT : ∀ y ∈ Y, isTnode y = false) {t : Name} (ht : isTnode t = true) : ¬ (G.removeInEdges X).Anc Y t := by
  rintro ⟨y, hy, hp⟩
  rcases ReflTransGen.cases_head hp with rfl | ⟨c, htc, _⟩
  · rw [hYT _ hy] at ht; cases ht
  · obtain ⟨h1, h2⟩ := (diEdge_removeInEdges _ _ _ _).1 htc
    exact h2 (hS (t, c) h1 ht)

/-- every selection node of the current graph is in `X` or is returned by `noEffectOnOutcomes` -/
theorem QInv.tnode_X_or_extra {M q G} (h : QInv M q G) {extra : List Name}
    (hex : noEffectOnOutcomes G q.X q.Y = .ok extra) {t : Name} (htG : t ∈ G.nodes) (ht : isTnode t = true) :
    t ∈ q.X ∨ t ∈ extra := by
  by_cases hx : t ∈ q.X
  · exact Or.inl hx
  · refine Or.inr ((noEffect_mem hex t).2 ⟨htG, hx, ?_⟩)
    rcases h.phase with ⟨_, _, hnoT, _⟩ | ⟨_, hS⟩
    · rw [hnoT t htG] at ht; cases ht
    · exact tnode_not_anc hS h.YT ht

/-- when line 3 has nothing to add, every selection node of the current graph is a target intervention -/
theorem QInv.tnodes_in_X {M q G} (h : QInv M q G) {extra : List Name}
    (hex : noEffectOnOutcomes G q.X q.Y = .ok extra) (hemp : extra.isEmpty = true) :
    ∀ t ∈ G.nodes, isTnode t = true → t ∈ q.X := by
  intro t htG ht
  rcases h.tnode_X_or_extra hex htG ht with hx | hx
  · exact hx
  · have : extra = [] := List.isEmpty_iff.1 hemp
    rw [this] at hx
    cases hx

theorem qline3_inv {M q G} (h : QInv M q G) {extra : List Name} (hex : noEffectOnOutcomes G q.X q.Y = .ok extra)
    (hne : extra.isEmpty = false) :
    QInv M (line3 q extra) G ∧ mu2 M (line3 q extra) G < mu2 M q G := by
  have hsp := noEffect_spec hex
  have hX : ∀ x, x ∈ (line3 q extra).X ↔ x ∈ q.X ∨ x ∈ extra := by
    intro x
    show x ∈ nsort (q.X ++ extra) ↔ _
    rw [mem_nsort, List.mem_append]
  constructor
  · refine
      { look := h.look, wf := h.wf, rk := h.rk, tpl := h.tpl, tbi := h.tbi, Yin := h.Yin, YT := h.YT, Yne := h.Yne,
        Xin := ?_, XY := ?_, sub := h.sub, size := h.size, phase := ?_ }
    · intro x hx
      rcases (hX x).1 hx with hx | hx
      · exact h.Xin x hx
      · exact (hsp x hx).1
    · intro y hy hyx
      have hy' : y ∈ q.Y := hy
      rcases (hX y).1 hyx with hx | hx
      · exact h.XY y hy' hx
      · exact (hsp y hx).2.2 hy'
    · rcases h.phase with hT | ⟨hact, hS⟩
      · exact Or.inl hT
      · exact Or.inr ⟨hact, fun e he ht => (hX e.2).2 (Or.inl (hS e he ht))⟩
  · -- after line 3 every selection node is a target intervention
    have hind' : ind (line3 q extra) G = 0 := by
      unfold ind
      rw [if_pos]
      apply List.all_eq_true.2
      intro t ht
      have ht' := mem_transportNodes.1 ht
      exact decide_eq_true ((hX t).2 (h.tnode_X_or_extra hex ht'.1 ht'.2))
    have hle : ∀ a ∈ regularNodes G, (fun x => decide (x ∉ (line3 q extra).X)) a = true →
        (fun x => decide (x ∉ q.X)) a = true := by
      intro a _ ha
      have ha' : a ∉ (line3 q extra).X := by simpa using ha
      have : a ∉ q.X := fun hc => ha' ((hX a).2 (Or.inl hc))
      simpa using this
    apply mu2_lt_of_low (by rfl)
    rw [hind']
    by_cases hreg : ∃ w ∈ extra, isTnode w = false
    · obtain ⟨w, hw, hwr⟩ := hreg
      have hlt : (diff' (regularNodes G) (line3 q extra).X).length < (diff' (regularNodes G) q.X).length := by
        unfold diff'
        apply length_filter_lt_of_mem (w := w) hle (mem_regularNodes.2 ⟨(hsp w hw).1, hwr⟩)
        · simpa using (hsp w hw).2.1
        · have : w ∈ (line3 q extra).X := (hX w).2 (Or.inr hw)
          simpa using this
      omega
    · have hle' : (diff' (regularNodes G) (line3 q extra).X).length ≤ (diff' (regularNodes G) q.X).length := by
        unfold diff'
        exact length_filter_le_of_imp hle
      obtain ⟨w, hw⟩ := exists_mem_of_isEmpty_false hne
      have hwt : isTnode w = true := by
        cases hc : isTnode w with
        | true => rfl
        | false => exact absurd ⟨w, hw, hc⟩ hreg
      have hind : ind q G = 1 := by
        unfold ind
        rw [if_neg]
        intro hall
        have := List.all_eq_true.1 hall w (mem_transportNodes.2 ⟨(hsp w hw).1, hwt⟩)
        exact (hsp w hw).2.1 (of_decide_eq_true this)
      omega

end Trso
end Y0
