/-
  Y0.Lemmas.TrsoT234 — lines 2, 3 and 4 of the TRSO recursion (`Y0.Model.Trso`) in the TARGET phase: every graph-level
  step succeeds, the queries handed to the recursive calls satisfy the invariant `TInv` again and the measure `mu`
  decreases (`Y0.Lemmas.TrsoGraphInv`).
-/
import Y0.Lemmas.TrsoGraphInv

namespace Y0
namespace Trso
open TrDsl MG Relation

/-! ### small facts -/

theorem exists_mem_of_isEmpty_false {α} {l : List α} (h : l.isEmpty = false) : ∃ a, a ∈ l := by
  cases l with
  | nil => simp at h
  | cons a as => exact ⟨a, List.mem_cons_self⟩

theorem regularNodes_sub {G : MG Name} {v : Name} (h : v ∈ regularNodes G) : v ∈ G.nodes := by
  unfold regularNodes at h; exact (List.mem_filter.1 h).1

/-! ### line 2 -/

theorem TInv.anc_ok {M q G} (h : TInv M q G) : ∃ anc, G.ancestorsInclusive q.Y = .ok anc :=
  ancestorsInclusive_total G q.Y h.YinG

/-- the per-graph step of line 2 -/
def anc2 (Y : List Name) (p : Pop × MG Name) : Except Err (Pop × MG Name) := do
  let a ← p.2.ancestorsInclusive Y
  pure (p.1, p.2.subgraph (nsort a))

theorem line2_eq (q : Query) (anc : List Name) : line2 q anc = (do
    let graphs ← q.graphs.mapM (anc2 q.Y)
    let g ← q.graph
    let e ← retag q.domain (sumSafe q.expr (plainVars (diff' (regularNodes g) anc)) true)
    pure { q with X := inter' q.X anc, graphs := graphs, expr := e }) := rfl

theorem anc2_ok {Y : List Name} {p p' : Pop × MG Name} (h : anc2 Y p = .ok p') :
    ∃ a, p.2.ancestorsInclusive Y = .ok a ∧ p' = (p.1, p.2.subgraph (nsort a)) := by
  unfold anc2 at h
  obtain ⟨a, ha, h⟩ := bind_ok h
  simp only [pure, Except.pure, Except.ok.injEq] at h
  exact ⟨a, ha, h.symm⟩

theorem anc2_total {Y : List Name} {p : Pop × MG Name} (h : ∀ y ∈ Y, y ∈ p.2.nodes) : ∃ b, anc2 Y p = .ok b := by
  obtain ⟨a, ha⟩ := ancestorsInclusive_total p.2 Y h
  exact ⟨(p.1, p.2.subgraph (nsort a)), by unfold anc2; rw [ha]; rfl⟩

/-- ancestors in a graph with fewer edges are ancestors -/
theorem Anc_mono {G H : MG Name} (hle : ∀ e ∈ G.di, e ∈ H.di) {S : List Name} {v : Name} (h : G.Anc S v) :
    H.Anc S v := by
  obtain ⟨s, hs, hp⟩ := h
  refine ⟨s, hs, ?_⟩
  have hle' : G.DiEdge ≤ H.DiEdge := fun a b hab => hle (a, b) hab
  exact ReflTransGen.mono hle' _ _ hp

/-- line 2: all graph-level steps succeed; the DSL step is a hypothesis (`hdsl`) -/
theorem line2_ok {M q G} (h : TInv M q G) {anc : List Name} (hanc : G.ancestorsInclusive q.Y = .ok anc)
    (hne : (diff' (regularNodes G) anc).isEmpty = false) (P : Expr → Prop)
    (hdsl : ∀ r, ∃ e', retag q.domain (sumSafe q.expr r true) = .ok e' ∧ P e') :
    ∃ q' G', line2 q anc = .ok q' ∧ TInv M q' G' ∧ mu M q' G' < mu M q G ∧ P q'.expr ∧ q'.surr = q.surr := by
  obtain ⟨gs, hgs⟩ := mapM_mem (f := anc2 q.Y) (l := q.graphs) (fun p hp => anc2_total (h.Yin p hp))
  obtain ⟨e', he', hP⟩ := hdsl (plainVars (diff' (regularNodes G) anc))
  have hkey : ∀ p p', anc2 q.Y p = .ok p' → p'.1 = p.1 := by
    intro p p' hp
    obtain ⟨a, _, rfl⟩ := anc2_ok hp
    rfl
  obtain ⟨G', hG', hf⟩ := lookup_mapM hkey hgs h.look
  obtain ⟨a, ha, hpair⟩ := anc2_ok hf
  simp only at ha
  rw [hanc] at ha
  cases ha
  have hG'eq : G' = G.subgraph (nsort anc) := congrArg Prod.snd hpair
  subst hG'eq
  -- every new graph is the ancestral subgraph of an old one
  have hnew : ∀ p' ∈ gs, ∃ p ∈ q.graphs, ∃ a, p.2.ancestorsInclusive q.Y = .ok a ∧
      p' = (p.1, p.2.subgraph (nsort a)) := by
    intro p' hp'
    obtain ⟨p, hp, hpp⟩ := mapM_ok hgs p' hp'
    exact ⟨p, hp, anc2_ok hpp⟩
  have hancG : ∀ v, v ∈ anc ↔ G.Anc q.Y v := ancestorsInclusive_spec G h.wfG q.Y anc hanc
  have hancN : ∀ s ∈ nsort anc, s ∈ G.nodes := fun s hs =>
    ancestorsInclusive_sub h.wfG hanc s ((mem_nsort _ _).1 hs)
  refine ⟨{ q with X := inter' q.X anc, graphs := gs, expr := e' }, G.subgraph (nsort anc), ?_, ?_, ?_, hP, rfl⟩
  · rw [line2_eq, hgs]
    show (do
      let g ← q.graph
      let e ← retag q.domain (sumSafe q.expr (plainVars (diff' (regularNodes g) anc)) true)
      pure ({ q with X := inter' q.X anc, graphs := gs, expr := e } : Query)) = _
    unfold Query.graph
    rw [h.look]
    show (do
      let e ← retag q.domain (sumSafe q.expr (plainVars (diff' (regularNodes G) anc)) true)
      pure ({ q with X := inter' q.X anc, graphs := gs, expr := e } : Query)) = _
    rw [he']
    rfl
  · refine
      { look := hG', dom := h.dom, act := h.act, wf := ?_, rk := ?_, noT := ?_, Yin := ?_, Yne := h.Yne, Xin := ?_,
        XY := ?_, sub := ?_, size := ?_, keys := ?_ }
    · intro p' hp'
      obtain ⟨p, _, a, _, rfl⟩ := hnew p' hp'
      exact wf_subgraph _ _
    · intro p' hp'
      obtain ⟨p, hp, a, _, rfl⟩ := hnew p' hp'
      exact (h.rk p hp).subgraph _
    · intro v hv
      exact h.noT v (hancN v ((mem_nodes_subgraph _ _ _).1 hv))
    · intro p' hp' y hy
      obtain ⟨p, hp, a, ha, rfl⟩ := hnew p' hp'
      exact (mem_nodes_subgraph _ _ _).2 ((mem_nsort _ _).2 (ancestorsInclusive_self (h.wf p hp) ha y hy))
    · intro x hx
      have hx' : x ∈ q.X ∧ x ∈ anc := mem_inter'.1 hx
      exact (mem_nodes_subgraph _ _ _).2 ((mem_nsort _ _).2 hx'.2)
    · intro y hy hyx
      have hx' : y ∈ q.X ∧ y ∈ anc := mem_inter'.1 hyx
      exact h.XY y hy hx'.1
    · intro p' hp'
      obtain ⟨p, hp, a, ha, rfl⟩ := hnew p' hp'
      have hspec := ancestorsInclusive_spec p.2 (h.wf p hp) q.Y a ha
      have hsubp := h.sub p hp
      have hmemA : ∀ v ∈ nsort anc, v ∈ nsort a := by
        intro v hv
        have hv1 : G.Anc q.Y v := (hancG v).1 ((mem_nsort _ _).1 hv)
        exact (mem_nsort _ _).2 ((hspec v).2 (Anc_mono hsubp.2 hv1))
      constructor
      · intro v hv
        exact (mem_nodes_subgraph _ _ _).2 (hmemA v ((mem_nodes_subgraph _ _ _).1 hv))
      · rintro ⟨u, v⟩ he
        have he' : (G.subgraph (nsort anc)).DiEdge u v := he
        obtain ⟨h1, h2, h3⟩ := (diEdge_subgraph _ _ _ _).1 he'
        exact (diEdge_subgraph _ _ _ _).2 ⟨hsubp.2 _ h1, hmemA u h2, hmemA v h3⟩
    · intro p' hp'
      obtain ⟨p, hp, a, ha, rfl⟩ := hnew p' hp'
      refine le_trans (length_subgraph_le _ ?_) (h.size p hp)
      intro s hs
      exact ancestorsInclusive_sub (h.wf p hp) ha s ((mem_nsort _ _).1 hs)
    · rcases h.keys with hk | hk
      · exact Or.inl hk
      · refine Or.inr ?_
        intro p' hp' hne'
        obtain ⟨p, hp, a, _, rfl⟩ := hnew p' hp'
        exact hk p hp hne'
  · obtain ⟨w, hw⟩ := exists_mem_of_isEmpty_false hne
    have hw' : w ∈ regularNodes G ∧ w ∉ anc := mem_diff'.1 hw
    apply mu_lt_of_nodes h.sizeG
    exact length_subgraph_lt _ hancN (regularNodes_sub hw'.1) (fun hc => hw'.2 ((mem_nsort _ _).1 hc))

/-! ### line 3 -/

theorem TInv.noEffect_ok {M q G} (h : TInv M q G) : ∃ extra, noEffectOnOutcomes G q.X q.Y = .ok extra := by
  have hY : ∀ y ∈ q.Y, y ∈ (G.removeInEdges q.X).nodes := fun y hy =>
    (mem_nodes_removeInEdges G h.wfG q.X y).2 (h.YinG y hy)
  obtain ⟨a, ha⟩ := ancestorsInclusive_total _ q.Y hY
  unfold noEffectOnOutcomes
  rw [ha]
  exact ⟨_, rfl⟩

/-- what `noEffectOnOutcomes` returns: nodes of `G` outside `X` and outside a set that contains `Y` -/
theorem noEffect_spec {G : MG Name} {X Y extra : List Name} (hex : noEffectOnOutcomes G X Y = .ok extra) :
    ∀ v ∈ extra, v ∈ G.nodes ∧ v ∉ X ∧ v ∉ Y := by
  unfold noEffectOnOutcomes at hex
  obtain ⟨a, ha, hex⟩ := bind_ok hex
  simp only [pure, Except.pure, Except.ok.injEq] at hex
  subst hex
  intro v hv
  have hv' := List.mem_filter.1 hv
  have hd : v ∉ X ∧ v ∉ a := by simpa using hv'.2
  exact ⟨hv'.1, hd.1, fun hy => hd.2 (ancestorsInclusive_self (wf_removeInEdges G X) ha v hy)⟩

theorem line3_inv {M q G} (h : TInv M q G) {extra : List Name} (hex : noEffectOnOutcomes G q.X q.Y = .ok extra)
    (hne : extra.isEmpty = false) :
    TInv M (line3 q extra) G ∧ mu M (line3 q extra) G < mu M q G := by
  have hsp := noEffect_spec hex
  have hX : ∀ x, x ∈ (line3 q extra).X ↔ x ∈ q.X ∨ x ∈ extra := by
    intro x
    show x ∈ nsort (q.X ++ extra) ↔ _
    rw [mem_nsort, List.mem_append]
  constructor
  · refine
      { look := h.look, dom := h.dom, act := h.act, wf := h.wf, rk := h.rk, noT := h.noT, Yin := h.Yin, Yne := h.Yne,
        Xin := ?_, XY := ?_, sub := h.sub, size := h.size, keys := h.keys }
    · intro x hx
      rcases (hX x).1 hx with hx | hx
      · exact h.Xin x hx
      · exact (hsp x hx).1
    · intro y hy hyx
      have hy' : y ∈ q.Y := hy
      rcases (hX y).1 hyx with hx | hx
      · exact h.XY y hy' hx
      · exact (hsp y hx).2.2 hy'
  · obtain ⟨w, hw⟩ := exists_mem_of_isEmpty_false hne
    apply mu_lt_of_X
    unfold diff'
    apply length_filter_lt_of_mem (w := w) _ (hsp w hw).1
    · simpa using (hsp w hw).2.1
    · have : w ∈ (line3 q extra).X := (hX w).2 (Or.inr hw)
      simpa using this
    · intro a _ ha
      have ha' : a ∉ (line3 q extra).X := by simpa using ha
      have : a ∉ q.X := fun hc => ha' ((hX a).2 (Or.inl hc))
      simpa using this

/-! ### line 4 -/

/-- the graph without the interventions has at least one district (the outcomes are there) -/
theorem TInv.dwi_ne {M q G} (h : TInv M q G) : (G.removeNodes q.X).districts ≠ [] := by
  obtain ⟨y, hy⟩ := List.exists_mem_of_ne_nil _ h.Yne
  have hyH : y ∈ (G.removeNodes q.X).nodes := (mem_nodes_removeNodes G h.wfG q.X y).2 ⟨h.YinG y hy, h.XY y hy⟩
  obtain ⟨d, hd, _⟩ := (districts_cover _ (wf_removeNodes G q.X) y).1 hyH
  intro hn
  rw [hn] at hd
  cases hd

theorem line4_inv {M q G} (h : TInv M q G) (hlen : (G.removeNodes q.X).districts.length > 1) :
    ∀ s ∈ line4 q G (G.removeNodes q.X).districts,
      TInv M s G ∧ mu M s G < mu M q G ∧ s.expr = q.expr ∧ s.surr = q.surr := by
  intro s hs
  unfold line4 at hs
  obtain ⟨c, hc, rfl⟩ := List.mem_map.1 hs
  have hH := wf_removeNodes G q.X
  have hreg := regularNodes_eq_of_noT h.noT
  have hcH : ∀ v ∈ c, v ∈ G.nodes ∧ v ∉ q.X := fun v hv =>
    (mem_nodes_removeNodes G h.wfG q.X v).1 ((districts_cover _ hH v).2 ⟨c, hc, hv⟩)
  refine ⟨?_, ?_, rfl, rfl⟩
  · refine
      { look := h.look, dom := h.dom, act := h.act, wf := h.wf, rk := h.rk, noT := h.noT, Yin := ?_, Yne := ?_,
        Xin := ?_, XY := ?_, sub := h.sub, size := h.size, keys := h.keys }
    · intro p hp y hy
      have hy' : y ∈ c := (mem_nsort _ _).1 hy
      exact (h.sub p hp).1 y (hcH y hy').1
    · exact nsort_ne_nil (districts_nonempty _ hH c hc)
    · intro x hx
      have hx' : x ∈ regularNodes G ∧ x ∉ c := mem_diff'.1 hx
      exact regularNodes_sub hx'.1
    · intro y hy hyx
      have hy' : y ∈ c := (mem_nsort _ _).1 hy
      have hx' : y ∈ regularNodes G ∧ y ∉ c := mem_diff'.1 hyx
      exact hx'.2 hy'
  · obtain ⟨D', hD', w, hwD, hwc⟩ := exists_other_district hH hc (by omega)
    have hwH : w ∈ G.nodes ∧ w ∉ q.X :=
      (mem_nodes_removeNodes G h.wfG q.X w).1 ((districts_cover _ hH w).2 ⟨D', hD', hwD⟩)
    apply mu_lt_of_X
    show (diff' G.nodes (diff' (regularNodes G) c)).length < _
    rw [hreg]
    unfold diff'
    apply length_filter_lt_of_mem (w := w) _ hwH.1
    · simpa using hwH.2
    · have : w ∈ G.nodes.filter (fun x => decide (x ∉ c)) := List.mem_filter.2 ⟨hwH.1, by simpa using hwc⟩
      simpa using this
    · intro a haG ha
      have ha' : a ∉ G.nodes ∨ a ∈ c := by simpa using ha
      have hac : a ∈ c := ha'.resolve_left (fun hn => hn haG)
      simpa using (hcH a hac).2

end Trso
end Y0
