/-
  Y0.Lemmas.SepDag — m-connection in a mixed graph is d-connection in its canonical DAG
  (every bidirected edge `u ↔ v` replaced by `u ← ℓ → v` with a fresh latent `ℓ`), for walks:
  `u ↔ v` is traded for the fork `u ← ℓ → v` whose middle node is a non-collider outside `C`, and back.
  (A walk of the DAG may bounce `u ← ℓ → u`; the mixed-graph walk simply stays at `u`.)
-/
import Y0.Lemmas.SepPath

namespace Y0.MG
variable {α : Type}
open Relation

/-! ### edges of the canonical DAG -/

theorem dag_di_obs_obs (G : MG α) (u v : α) : G.dagOf.DiEdge (.obs u) (.obs v) ↔ G.DiEdge u v := by
  simp only [DiEdge, dagOf, List.mem_append, List.mem_map, List.mem_flatMap, List.mem_cons, Prod.mk.injEq,
    LNode.obs.injEq, List.not_mem_nil, or_false]
  constructor
  · rintro (⟨⟨x, y⟩, he, rfl, rfl⟩ | ⟨e, _, h | h⟩)
    · exact he
    · exact absurd h.1 (by simp)
    · exact absurd h.1 (by simp)
  · intro h; exact Or.inl ⟨(u, v), h, rfl, rfl⟩

theorem dag_di_from_obs (G : MG α) (u : α) (n : LNode α) (h : G.dagOf.DiEdge (.obs u) n) :
    ∃ v, n = .obs v ∧ G.DiEdge u v := by
  simp only [DiEdge, dagOf, List.mem_append, List.mem_map, List.mem_flatMap, List.mem_cons, Prod.mk.injEq,
    List.not_mem_nil, or_false] at h
  rcases h with ⟨⟨x, y⟩, he, h1, h2⟩ | ⟨e, _, h | h⟩
  · simp only [LNode.obs.injEq] at h1
    subst h1
    exact ⟨y, h2.symm, he⟩
  · exact absurd h.1 (by simp)
  · exact absurd h.1 (by simp)

theorem dag_di_lat (G : MG α) (e : α × α) (n : LNode α) :
    G.dagOf.DiEdge (.lat e) n ↔ e ∈ G.bi ∧ (n = .obs e.1 ∨ n = .obs e.2) := by
  simp only [DiEdge, dagOf, List.mem_append, List.mem_map, List.mem_flatMap, List.mem_cons, Prod.mk.injEq,
    List.not_mem_nil, or_false]
  constructor
  · rintro (⟨x, _, h, _⟩ | ⟨e', he', h | h⟩)
    · exact absurd h (by simp)
    · simp only [LNode.lat.injEq] at h
      obtain ⟨rfl, rfl⟩ := h
      exact ⟨he', Or.inl rfl⟩
    · simp only [LNode.lat.injEq] at h
      obtain ⟨rfl, rfl⟩ := h
      exact ⟨he', Or.inr rfl⟩
  · rintro ⟨he, rfl | rfl⟩
    · exact Or.inr ⟨e, he, Or.inl ⟨rfl, rfl⟩⟩
    · exact Or.inr ⟨e, he, Or.inr ⟨rfl, rfl⟩⟩

theorem dag_di_to_lat (G : MG α) (n : LNode α) (e : α × α) : ¬ G.dagOf.DiEdge n (.lat e) := by
  simp only [DiEdge, dagOf, List.mem_append, List.mem_map, List.mem_flatMap, List.mem_cons, Prod.mk.injEq,
    List.not_mem_nil, or_false]
  rintro (⟨x, _, _, h⟩ | ⟨e', _, h | h⟩)
  · exact absurd h (by simp)
  · exact absurd h.2 (by simp)
  · exact absurd h.2 (by simp)

theorem dag_no_bi (G : MG α) (x y : LNode α) : ¬ G.dagOf.BiEdge x y := by
  simp [BiEdge, dagOf]

/-! ### ancestors -/

theorem dag_rtg_from_obs (G : MG α) (y : α) (n : LNode α) (h : ReflTransGen G.dagOf.DiEdge (.obs y) n) :
    ∃ z, n = .obs z ∧ ReflTransGen G.DiEdge y z := by
  induction h with
  | refl => exact ⟨y, rfl, .refl⟩
  | tail _ hbc ih =>
    obtain ⟨z, rfl, hyz⟩ := ih
    obtain ⟨v, rfl, hzv⟩ := dag_di_from_obs G z _ hbc
    exact ⟨v, rfl, hyz.tail hzv⟩

theorem dag_rtg_of_rtg (G : MG α) {y z : α} (h : ReflTransGen G.DiEdge y z) :
    ReflTransGen G.dagOf.DiEdge (.obs y) (.obs z) := by
  induction h with
  | refl => exact .refl
  | tail _ hbc ih => exact ih.tail ((dag_di_obs_obs G _ _).2 hbc)

theorem dag_anc_obs (G : MG α) (C : List α) (y : α) : G.dagOf.Anc (C.map .obs) (.obs y) ↔ G.Anc C y := by
  constructor
  · rintro ⟨s, hs, h⟩
    obtain ⟨c, hc, rfl⟩ := List.mem_map.1 hs
    obtain ⟨z, hz, hyz⟩ := dag_rtg_from_obs G y _ h
    cases hz
    exact ⟨c, hc, hyz⟩
  · rintro ⟨c, hc, h⟩
    exact ⟨.obs c, List.mem_map.2 ⟨c, hc, rfl⟩, dag_rtg_of_rtg G h⟩

theorem dag_obs_mem (C : List α) (y : α) : (LNode.obs y) ∈ C.map LNode.obs ↔ y ∈ C := by
  simp

theorem dag_lat_not_mem (C : List α) (e : α × α) : (LNode.lat e) ∉ C.map LNode.obs := by
  simp

/-! ### mixed graph → DAG -/

theorem dag_mwalk_of_mwalk (G : MG α) (C : List α) (a : α) {y : α} {m : Option Mark}
    (hw : G.MWalk C a y m) : G.dagOf.MWalk (C.map .obs) (.obs a) (.obs y) m := by
  induction hw with
  | nil => exact .nil
  | @snoc y z m my mz _ he c1 c2 ih =>
    have c1' : m = some Mark.head ∧ my = Mark.head → G.dagOf.Anc (C.map .obs) (.obs y) :=
      fun h => (dag_anc_obs G C y).2 (c1 h)
    have c2' : m ≠ none → ¬ (m = some Mark.head ∧ my = Mark.head) → (LNode.obs y) ∉ C.map LNode.obs :=
      fun h1 h2 => fun hmem => c2 h1 h2 ((dag_obs_mem C y).1 hmem)
    cases he with
    | fwd h => exact .snoc ih (.fwd ((dag_di_obs_obs G y z).2 h)) c1' c2'
    | bwd h => exact .snoc ih (.bwd ((dag_di_obs_obs G z y).2 h)) c1' c2'
    | bi h =>
      -- y ↔ z becomes y ← ℓ → z
      obtain ⟨e, he, hy, hz⟩ : ∃ e : α × α, e ∈ G.bi ∧ (LNode.obs y = .obs e.1 ∨ LNode.obs y = .obs e.2) ∧
          (LNode.obs z = .obs e.1 ∨ LNode.obs z = .obs e.2) := by
        rcases h with h | h
        · exact ⟨(y, z), h, Or.inl rfl, Or.inr rfl⟩
        · exact ⟨(z, y), h, Or.inr rfl, Or.inl rfl⟩
      have h1 : G.dagOf.MWalk (C.map .obs) (.obs a) (.lat e) (some .tail) :=
        .snoc ih (.bwd ((dag_di_lat G e _).2 ⟨he, hy⟩)) c1' c2'
      exact .snoc h1 (.fwd ((dag_di_lat G e _).2 ⟨he, hz⟩)) (fun h => by cases h.2)
        (fun _ _ => dag_lat_not_mem C e)

/-! ### DAG → mixed graph -/

/-- the conditions for leaving `y` with mark `mu` on a walk that arrived with mark `m` -/
def LeaveOk (G : MG α) (C : List α) (y : α) (m : Option Mark) (mu : Mark) : Prop :=
  (m = some .head ∧ mu = .head → G.Anc C y) ∧ (m ≠ none → ¬ (m = some .head ∧ mu = .head) → y ∉ C)

/-- what a walk of the canonical DAG from `obs a` to a node `n` means in the mixed graph -/
def DagInv (G : MG α) (C : List α) (a : α) : LNode α → Option Mark → Prop
  | .obs y, m => ∃ m', G.MWalk C a y m' ∧ ∀ mu, LeaveOk G C y m mu → LeaveOk G C y m' mu
  | .lat e, _ => e ∈ G.bi ∧ ∃ y m', (y = e.1 ∨ y = e.2) ∧ G.MWalk C a y m' ∧ LeaveOk G C y m' .head

theorem dag_inv (G : MG α) (C : List α) (a : α) {n : LNode α} {m : Option Mark}
    (hw : G.dagOf.MWalk (C.map .obs) (.obs a) n m) : DagInv G C a n m := by
  induction hw with
  | nil => exact ⟨none, .nil, fun _ h => h⟩
  | @snoc n n' m mu mz _ he c1 c2 ih =>
    cases n with
    | obs y =>
      obtain ⟨m', hw', himp⟩ := ih
      have hleave : LeaveOk G C y m' mu :=
        himp mu ⟨fun h => (dag_anc_obs G C y).1 (c1 h), fun h1 h2 hy => c2 h1 h2 ((dag_obs_mem C y).2 hy)⟩
      cases he with
      | fwd h =>
        obtain ⟨z, rfl, hyz⟩ := dag_di_from_obs G y _ h
        exact ⟨some .head, .snoc hw' (.fwd hyz) hleave.1 hleave.2, fun _ h => h⟩
      | bwd h =>
        cases n' with
        | obs z =>
          exact ⟨some .tail, .snoc hw' (.bwd ((dag_di_obs_obs G z y).1 h)) hleave.1 hleave.2, fun _ h => h⟩
        | lat e =>
          obtain ⟨he, hy⟩ := (dag_di_lat G e _).1 h
          refine ⟨he, y, m', ?_, hw', hleave⟩
          rcases hy with hy | hy
          · exact Or.inl (LNode.obs.inj hy)
          · exact Or.inr (LNode.obs.inj hy)
      | bi h => exact absurd h (dag_no_bi G _ _)
    | lat e =>
      obtain ⟨hebi, y, m', hy, hw', hleave⟩ := ih
      cases he with
      | fwd h =>
        obtain ⟨_, hn'⟩ := (dag_di_lat G e _).1 h
        obtain ⟨w, rfl, hw⟩ : ∃ w, n' = .obs w ∧ (w = e.1 ∨ w = e.2) := by
          rcases hn' with rfl | rfl
          · exact ⟨e.1, rfl, Or.inl rfl⟩
          · exact ⟨e.2, rfl, Or.inr rfl⟩
        by_cases hwy : w = y
        · -- bounced back to `y`: stay there
          subst hwy
          refine ⟨m', hw', fun mu' hD => ⟨fun h => hleave.1 ⟨h.1, rfl⟩, fun h1 h2 => ?_⟩⟩
          by_cases hm' : m' = some .head
          · exact hD.2 (by simp) (fun hc => h2 ⟨hm', hc.2⟩)
          · exact hleave.2 h1 (fun hc => hm' hc.1)
        · have hbi : G.BiEdge y w := by
            rcases e with ⟨e1, e2⟩
            simp only at hy hw
            rcases hy with rfl | rfl <;> rcases hw with rfl | rfl
            · exact absurd rfl hwy
            · exact Or.inl hebi
            · exact Or.inr hebi
            · exact absurd rfl hwy
          exact ⟨some .head, .snoc hw' (.bi hbi) hleave.1 hleave.2, fun _ h => h⟩
      | bwd h => exact absurd h (dag_di_to_lat G _ e)
      | bi h => exact absurd h (dag_no_bi G _ _)

theorem mwalk_of_dag_mwalk (G : MG α) (C : List α) (a b : α) {m : Option Mark}
    (hw : G.dagOf.MWalk (C.map .obs) (.obs a) (.obs b) m) : ∃ m', G.MWalk C a b m' := by
  obtain ⟨m', hw', _⟩ := dag_inv G C a hw
  exact ⟨m', hw'⟩

/-- walk form: m-connection in `G` is d-connection in the canonical DAG -/
theorem mwalk_iff_dag_mwalk (G : MG α) (C : List α) (a b : α) :
    (∃ m, G.MWalk C a b m) ↔ ∃ m, G.dagOf.MWalk (C.map .obs) (.obs a) (.obs b) m :=
  ⟨fun ⟨m, h⟩ => ⟨m, dag_mwalk_of_mwalk G C a h⟩, fun ⟨_, h⟩ => mwalk_of_dag_mwalk G C a b h⟩

/-- **path form**: an m-connecting path in the ADMG exists iff a d-connecting path exists in the canonical DAG -/
theorem mconnPath_iff_dconnCanonical (G : MG α) (C : List α) (a b : α) (hab : a ≠ b) :
    G.MConnPath a b C ↔ G.DConnCanonical a b C := by
  have hab' : (LNode.obs a) ≠ .obs b := fun h => hab (LNode.obs.inj h)
  unfold DConnCanonical
  rw [mconnPath_iff_mconnWalk G C a b hab, mconnPath_iff_mconnWalk _ _ _ _ hab',
    mconnWalk_iff_mwalk G C a b hab, mconnWalk_iff_mwalk _ _ _ _ hab', mwalk_iff_dag_mwalk,
    dag_obs_mem, dag_obs_mem]

end Y0.MG
