/-
  Y0.Lemmas.HedgeNonIdBow — the bow arc `X → Y`, `X ↔ Y` (nodes 0, 1): two explicit positive binary models with the same
  observational joint and different `P(y | do(x))` (ε-perturbed parity construction, ε = 1/4).

    latent `U` (name 2) fair;  `X = U` w.p. 3/4;
    M¹ : `Y = X xor U` w.p. 3/4          M² : `Y = 0` w.p. 5/8 whatever `X`, `U`
    P¹(x, y) = P²(x, y) = 1/2 · (5/8, 3/8);     P¹(y = 0 | do(x)) = 1/2  ≠  5/8 = P²(y = 0 | do(x)).
-/
import Y0.Spec.Identifiable
import Y0.Lemmas.Prob
import Mathlib.Tactic.NormNum
import Mathlib.Tactic.FieldSimp

namespace Y0
namespace NonId

/-- the bow arc graph -/
def bowG : MG Name := MG.fromEdges [0, 1] [(0, 1)] [(0, 1)]

theorem bowG_nodes : bowG.nodes = [0, 1] := by decide

/-- `a` when `p` is even, `b` otherwise -/
def byParity (p : Nat) (a b : Rat) : Rat := if p % 2 = 0 then a else b

theorem byParity_pos {p : Nat} {a b : Rat} (ha : 0 < a) (hb : 0 < b) : 0 < byParity p a b := by
  unfold byParity; split <;> assumption

/-- M¹: `X = U`, `Y = X xor U`, each with probability 3/4 -/
def bow1 : Scm :=
  { card := fun _ => 2, lat := [2], prior := fun _ _ => 1 / 2, latOf := fun _ => [2],
    kern := fun v σ =>
      if v = 0 then byParity (σ 0 + σ 2) (3 / 4) (1 / 4)
      else byParity (σ 1 + σ 0 + σ 2) (3 / 4) (1 / 4) }

/-- M²: `X = U` with probability 3/4, `Y = 0` with probability 5/8 independently -/
def bow2 : Scm :=
  { card := fun _ => 2, lat := [2], prior := fun _ _ => 1 / 2, latOf := fun _ => [2],
    kern := fun v σ =>
      if v = 0 then byParity (σ 0 + σ 2) (3 / 4) (1 / 4)
      else byParity (σ 1) (5 / 8) (3 / 8) }

theorem mem_bow {v : Name} (hv : v ∈ bowG.nodes) : v = 0 ∨ v = 1 := by
  rw [bowG_nodes] at hv; simpa using hv

theorem byParity_add_one (p : Nat) (a b : Rat) : byParity (p + 1) a b = byParity p b a := by
  unfold byParity
  rcases Nat.mod_two_eq_zero_or_one p with h | h <;> simp [Nat.add_mod, h]

theorem byParity_congr {p q : Nat} (h : p % 2 = q % 2) (a b : Rat) : byParity p a b = byParity q a b := by
  unfold byParity; rw [h]

theorem bow_compat_aux (M : Scm) (hc : M.card = fun _ => 2) (hl : M.lat = [2]) (hp : M.prior = fun _ _ => 1 / 2)
    (ho : M.latOf = fun _ => [2])
    (hdep : ∀ v ∈ bowG.nodes, DependsOnly (M.kern v) (v :: bowG.parents v ++ [2]))
    (hpos : ∀ v ∈ bowG.nodes, ∀ σ, 0 < M.kern v σ)
    (hsum : ∀ v ∈ bowG.nodes, ∀ σ : Val, M.kern v (σ.set v 0) + M.kern v (σ.set v 1) = 1) : M.Compatible bowG := by
  refine ⟨fun _ => by simp [hc], by simp [hl], ?_, ?_, ?_, ?_, ?_, hpos, ?_, ?_⟩
  · intro u hu; rw [hl] at hu; rw [bowG_nodes]; simp at hu; subst hu; decide
  · intro u _ k; rw [hp]; norm_num
  · intro u _; rw [hp, hc]; simp [sumRange]; norm_num
  · intro v u hu; rw [ho] at hu; rw [hl]; exact hu
  · intro v hv; rw [ho]; exact hdep v hv
  · intro v hv σ
    rw [hc]
    simp only [sumVar, sumRange]
    have : List.range 2 = [0, 1] := by decide
    rw [this]
    simp only [List.map_cons, List.map_nil, List.sum_cons, List.sum_nil, add_zero]
    exact hsum v hv σ
  · intro v hv w hw hne _
    rcases mem_bow hv with rfl | rfl <;> rcases mem_bow hw with rfl | rfl
    · exact absurd rfl hne
    · decide
    · decide
    · exact absurd rfl hne

theorem bow_parents0 : bowG.parents 0 = [] := by decide
theorem bow_parents1 : bowG.parents 1 = [0] := by decide

theorem bow1_compatible : bow1.Compatible bowG := by
  apply bow_compat_aux bow1 rfl rfl rfl rfl
  · intro v hv σ τ h
    rcases mem_bow hv with rfl | rfl
    · rw [bow_parents0] at h
      simp only [bow1, if_true]
      rw [h 0 (by simp), h 2 (by simp)]
    · rw [bow_parents1] at h
      simp only [bow1, if_neg (by decide : ¬ (1 : Name) = 0)]
      rw [h 0 (by simp), h 1 (by simp), h 2 (by simp)]
  · intro v _ σ
    simp only [bow1]
    split <;> exact byParity_pos (by norm_num) (by norm_num)
  · intro v hv σ
    rcases mem_bow hv with rfl | rfl
    · simp only [bow1, if_true, Val.set, if_neg (by decide : ¬ (2 : Name) = 0)]
      rw [show 1 + σ 2 = σ 2 + 1 by omega, byParity_add_one, Nat.zero_add]
      unfold byParity; split <;> norm_num
    · simp only [bow1, if_neg (by decide : ¬ (1 : Name) = 0), Val.set, if_true,
        if_neg (by decide : ¬ (2 : Name) = 1), if_neg (by decide : ¬ (0 : Name) = 1)]
      rw [show 1 + σ 0 + σ 2 = (0 + σ 0 + σ 2) + 1 by omega, byParity_add_one]
      unfold byParity; split <;> norm_num

theorem bow2_compatible : bow2.Compatible bowG := by
  apply bow_compat_aux bow2 rfl rfl rfl rfl
  · intro v hv σ τ h
    rcases mem_bow hv with rfl | rfl
    · rw [bow_parents0] at h
      simp only [bow2, if_true]
      rw [h 0 (by simp), h 2 (by simp)]
    · simp only [bow2, if_neg (by decide : ¬ (1 : Name) = 0)]
      rw [h 1 (by simp)]
  · intro v _ σ
    simp only [bow2]
    split <;> exact byParity_pos (by norm_num) (by norm_num)
  · intro v hv σ
    rcases mem_bow hv with rfl | rfl
    · simp only [bow2, if_true, Val.set, if_neg (by decide : ¬ (2 : Name) = 0)]
      rw [show 1 + σ 2 = σ 2 + 1 by omega, byParity_add_one, Nat.zero_add]
      unfold byParity; split <;> norm_num
    · simp only [bow2, if_neg (by decide : ¬ (1 : Name) = 0), Val.set, if_true]
      unfold byParity; norm_num

theorem range2 : List.range 2 = [0, 1] := by decide

/-- the common observational joint: `X` fair, `Y = 0` w.p. 5/8 independently -/
theorem bow1_obs (σ : Val) : bow1.obs bowG σ = 1 / 2 * byParity (σ 1) (5 / 8) (3 / 8) := by
  simp only [Scm.obs, Scm.Q, bowG_nodes, bow1, sumVars, sumVar, sumRange, range2, Scm.weight, List.map_cons,
    List.map_nil, List.prod_cons, List.prod_nil, List.sum_cons, List.sum_nil, Val.set,
    if_neg (by decide : ¬ (0 : Name) = 2), if_neg (by decide : ¬ (1 : Name) = 2),
    if_true, if_neg (by decide : ¬ (1 : Name) = 0)]
  unfold byParity
  rcases Nat.mod_two_eq_zero_or_one (σ 0) with h0 | h0 <;> rcases Nat.mod_two_eq_zero_or_one (σ 1) with h1 | h1 <;>
    simp [Nat.add_mod, h0, h1] <;> norm_num

theorem bow2_obs (σ : Val) : bow2.obs bowG σ = 1 / 2 * byParity (σ 1) (5 / 8) (3 / 8) := by
  simp only [Scm.obs, Scm.Q, bowG_nodes, bow2, sumVars, sumVar, sumRange, range2, Scm.weight, List.map_cons,
    List.map_nil, List.prod_cons, List.prod_nil, List.sum_cons, List.sum_nil, Val.set,
    if_neg (by decide : ¬ (0 : Name) = 2), if_neg (by decide : ¬ (1 : Name) = 2),
    if_true, if_neg (by decide : ¬ (1 : Name) = 0)]
  unfold byParity
  rcases Nat.mod_two_eq_zero_or_one (σ 0) with h0 | h0 <;> rcases Nat.mod_two_eq_zero_or_one (σ 1) with h1 | h1 <;>
    simp [Nat.add_mod, h0, h1] <;> norm_num

theorem bow_filter1 : bowG.nodes.filter (fun v => v ∉ [0] ∧ v ∉ [1]) = [] := by decide
theorem bow_filter2 : bowG.nodes.filter (· ∉ [0]) = [1] := by decide

/-- in M¹ intervening on `X` makes `Y` a fair coin -/
theorem bow1_do (σ : Val) : bow1.doProb bowG [0] [1] σ = 1 / 2 := by
  simp only [Scm.doProb, bow_filter1, bow_filter2, Scm.Q, bow1, sumVars, sumVar, sumRange, range2, Scm.weight,
    List.map_cons, List.map_nil, List.prod_cons, List.prod_nil, List.sum_cons, List.sum_nil, Val.set,
    if_neg (by decide : ¬ (0 : Name) = 2), if_neg (by decide : ¬ (1 : Name) = 2),
    if_neg (by decide : ¬ (1 : Name) = 0)]
  unfold byParity
  rcases Nat.mod_two_eq_zero_or_one (σ 0) with h0 | h0 <;> rcases Nat.mod_two_eq_zero_or_one (σ 1) with h1 | h1 <;>
    simp [Nat.add_mod, h0, h1] <;> norm_num

/-- in M² it does nothing -/
theorem bow2_do (σ : Val) : bow2.doProb bowG [0] [1] σ = byParity (σ 1) (5 / 8) (3 / 8) := by
  simp only [Scm.doProb, bow_filter1, bow_filter2, Scm.Q, bow2, sumVars, sumVar, sumRange, range2, Scm.weight,
    List.map_cons, List.map_nil, List.prod_cons, List.prod_nil, List.sum_cons, List.sum_nil, Val.set,
    if_neg (by decide : ¬ (0 : Name) = 2), if_neg (by decide : ¬ (1 : Name) = 2),
    if_neg (by decide : ¬ (1 : Name) = 0)]
  unfold byParity
  split <;> norm_num

theorem bow_witness : NonIdWitness bowG [0] [1] bow1 bow2 (fun _ => 0) := by
  refine ⟨bow1_compatible, bow2_compatible, ⟨fun _ _ => rfl, fun σ _ => by rw [bow1_obs, bow2_obs]⟩,
    fun _ _ => by simp [bow1], ?_⟩
  rw [bow1_do, bow2_do]
  unfold byParity
  norm_num

/-- **the bow arc**: `P(y | do(x))` is not identifiable in `X → Y`, `X ↔ Y` -/
theorem bow_not_identifiable : ¬ Identifiable bowG [0] [1] := bow_witness.not_identifiable

end NonId
end Y0
