/-
  Y0.Lemmas.CfNsi — the counterfactual graph ID* works on is never null: after lines 1–3 every event variable is
  not self-intervened, the merge loop keeps that (merged nodes have the same self-intervention status), so the
  non-self-intervened part of the returned graph contains an event variable.  This removes
  `NetworkXPointlessConcept` (`nx.is_connected` on the null graph) from the error taxonomy of ID*.
-/
import Y0.Lemmas.CfCgSem
import Y0.Lemmas.CfIdStar
import Y0.Lemmas.CfBasic

namespace Y0
namespace Cf

/-- every event variable is not self-intervened, and there is one -/
def KeysNSI (ev : Event) : Prop := ev ≠ [] ∧ ∀ p ∈ ev, isNotSelfIntervened p.1 = true

theorem keysNSI_updateEvent (ev : Event) (pref elim : Var) (hpe : pref ≠ elim)
    (hnsi : isNotSelfIntervened pref = isNotSelfIntervened elim) (h : KeysNSI ev) : KeysNSI (updateEvent ev pref elim) := by
  unfold updateEvent
  cases he : ev.get? elim with
  | none => exact h
  | some v =>
    simp only
    constructor
    · intro h0
      have : (pref, v) ∈ (ev.set pref v).erase elim := by
        rw [Event.mem_erase, Event.mem_set]
        exact ⟨Or.inr rfl, hpe⟩
      rw [h0] at this
      cases this
    · intro p hp
      rw [Event.mem_erase, Event.mem_set] at hp
      rcases hp with ⟨⟨hp, _⟩ | rfl, _⟩
      · exact h.2 p hp
      · simp only
        rw [hnsi]
        exact h.2 _ (Event.get?_mem he)

/-- the structural invariant of the loop on the event: non-empty, all keys not self-intervened, well-formed dict -/
def EvInv : St → Prop
  | .run _ ev => KeysNSI ev ∧ EvOK ev
  | .stop _ => True

theorem evInv_mergeStep (st : St) (a b : Var) (hab : a ≠ b) (h : EvInv st) : EvInv (mergeStep st a b) := by
  unfold mergeStep
  cases st with
  | stop cf => trivial
  | run cf ev =>
    simp only
    split
    · rename_i h24
      split
      · trivial
      · have hn := lemma24Holds_names h24
        have hs := lemma24Holds_nsi h24
        have hr1 : (mergePw cf a b).2.1 = (mergeOrder a b).1 := by unfold mergePw; rfl
        have hr2 : (mergePw cf a b).2.2 = (mergeOrder a b).2 := by unfold mergePw; rfl
        show EvInv (.run _ _)
        rw [hr1, hr2]
        rcases mergeOrder_cases a b with ho | ho
        · rw [ho]
          exact ⟨keysNSI_updateEvent ev a b hab hs h.1,
            ⟨updateEvent_keys_nodup ev a b h.2.nodup, updateEvent_names ev a b hn h.2.names⟩⟩
        · rw [ho]
          exact ⟨keysNSI_updateEvent ev b a (Ne.symm hab) hs.symm h.1,
            ⟨updateEvent_keys_nodup ev b a h.2.nodup, updateEvent_names ev b a hn.symm h.2.names⟩⟩
    · exact h

theorem evInv_runPairs (ps : List (Var × Var)) (hne : ∀ p ∈ ps, p.1 ≠ p.2) (st : St) (h : EvInv st) :
    EvInv (runPairs st ps) := by
  induction ps generalizing st with
  | nil => exact h
  | cons p ps ih =>
    unfold runPairs
    simp only [List.foldl_cons]
    exact ih (fun q hq => hne q (by simp [hq])) _ (evInv_mergeStep st p.1 p.2 (hne p (by simp)) h)

/-- worlds are iterated as a duplicate-free list of non-empty subscript sets -/
def GoodOrder (ordf : List World → List World) : Prop :=
  ∀ vs : List Var, (ordf (extractInterventions vs)).Nodup ∧ ∀ w ∈ ordf (extractInterventions vs), w ≠ []

theorem cg_event_inv {ordf : List World → List World} (hord : GoodOrder ordf) {G : MG Name} {ev nev : Event} {g : MG Var}
    (h : makeCounterfactualGraph ordf G ev = .ok (g, some nev)) (hk : KeysNSI ev) (hok : EvOK ev) :
    KeysNSI nev ∧ EvOK nev := by
  obtain ⟨topo, cf', anc, _, hl, _, _⟩ := cg_some_shape h
  have : EvInv (loopResult ordf G ev topo) := by
    unfold loopResult
    rw [mergeLoop_eq]
    exact evInv_runPairs _ (allPairs_ne _ (hord ev.keys).1 (hord ev.keys).2 topo) _ ⟨hk, hok⟩
  rw [hl] at this
  exact this

/-- the non-self-intervened part of the counterfactual graph is not the null graph -/
theorem cg_nsi_nonempty {ordf : List World → List World} (hord : GoodOrder ordf) {G : MG Name} {ev nev : Event} {g : MG Var}
    (h : makeCounterfactualGraph ordf G ev = .ok (g, some nev)) (hk : KeysNSI ev) (hok : EvOK ev) :
    (nsiSubgraph g).nodes ≠ [] := by
  obtain ⟨⟨hne, hnsi⟩, _⟩ := cg_event_inv hord h hk hok
  cases hnev : nev with
  | nil => exact absurd hnev hne
  | cons p ps =>
    have hp : p ∈ nev := by rw [hnev]; simp
    have hkn : p.1 ∈ g.nodes := cg_event_in_nodes h p.1 (by simp [Event.keys]; exact ⟨p.2, hp⟩)
    have : p.1 ∈ (nsiSubgraph g).nodes := by
      unfold nsiSubgraph
      rw [MG.mem_nodes_subgraph, List.mem_filter]
      exact ⟨hkn, hnsi p hp⟩
    intro h0
    rw [h0] at this
    cases this

/-! ### lines 1–3 establish the invariant -/

theorem keysNSI_of_lines123 (ev : Event) (hne : ev ≠ []) (h2 : violatesEffectiveness ev = false)
    (h3 : Event.eqv (removeTautologies ev) ev = true) (hok : EvOK ev) : KeysNSI ev := by
  refine ⟨hne, ?_⟩
  intro p hp
  -- `p` is not redundant: its key survives in the reduced event, whose entries are entries of `ev`
  have hkey : ∃ q ∈ removeTautologies ev, q.1 = p.1 := by
    unfold Event.eqv at h3
    simp only [Bool.and_eq_true, List.all_eq_true] at h3
    have := h3.2 p hp
    cases hg : (removeTautologies ev).get? p.1 with
    | none => rw [hg] at this; cases this
    | some v => exact ⟨(p.1, v), Event.get?_mem hg, rfl⟩
  obtain ⟨q, hq, hqk⟩ := hkey
  unfold removeTautologies at hq
  rw [List.mem_filter] at hq
  have hqp : q = p := by
    have h1 := Event.get?_of_mem_nodup hok.nodup hq.1
    have h2' := Event.get?_of_mem_nodup hok.nodup hp
    rw [hqk, h2'] at h1
    rcases q with ⟨a, b⟩; rcases p with ⟨c, d⟩
    simp only at hqk h1
    subst hqk
    simp only [Option.some.injEq] at h1
    rw [h1]
  subst hqp
  have hnr : isRedundant q.1 q.2 = false := by simpa using hq.2
  have hnv : ∀ i ∈ q.1.ivs, ¬ (i.name = q.2.name ∧ i.star ≠ q.2.star) ∨ q.1.isCf = false := by
    intro i hi
    unfold violatesEffectiveness at h2
    rw [List.any_eq_false] at h2
    have := h2 q hq.1
    simp only [Bool.and_eq_true, List.any_eq_true, beq_iff_eq, bne_iff_ne, ne_eq, not_and, not_exists] at this
    by_cases hcf : q.1.isCf = true
    · left
      intro ⟨h1, h2''⟩
      exact this hcf i hi h1 h2''
    · right; simpa using hcf
  unfold isNotSelfIntervened
  rw [List.all_eq_true]
  intro i hi
  simp only [ne_eq, decide_eq_true_eq]
  intro hin
  have hcf : q.1.isCf = true := by
    unfold Var.isCf
    cases hiv : q.1.ivs with
    | nil => rw [hiv] at hi; cases hi
    | cons _ _ => rfl
  have hname : i.name = q.2.name := by rw [hin, hok.names q hq.1]
  by_cases hst : i.star = q.2.star
  · -- redundant
    unfold isRedundant at hnr
    simp only [hcf, Bool.true_and, List.any_eq_false, Bool.and_eq_true, beq_iff_eq, not_and] at hnr
    exact hnr i hi hname hst
  · rcases hnv i hi with h | h
    · exact h ⟨hname, hst⟩
    · rw [hcf] at h; cases h

/-! ### recursion inputs stay well formed -/

theorem evOK_removeTautologies (ev : Event) (h : EvOK ev) : EvOK (removeTautologies ev) := by
  unfold removeTautologies
  exact ⟨List.Nodup.sublist (List.Sublist.map _ List.filter_sublist) h.nodup,
    fun p hp => h.names p (List.mem_filter.1 hp).1⟩

theorem Event.ofList_spec (l : List (Var × Iv)) :
    (Event.ofList l).keys.Nodup ∧ ∀ p ∈ Event.ofList l, p ∈ l := by
  unfold Event.ofList
  suffices H : ∀ (acc : Event), acc.keys.Nodup →
      ((l.foldl (fun acc p => Event.set acc p.1 p.2) acc).keys.Nodup ∧
        ∀ p ∈ l.foldl (fun acc p => Event.set acc p.1 p.2) acc, p ∈ acc ∨ p ∈ l) by
    obtain ⟨h1, h2⟩ := H [] (by simp [Event.keys])
    exact ⟨h1, fun p hp => (h2 p hp).resolve_left (by simp)⟩
  induction l with
  | nil => intro acc h; exact ⟨h, fun p hp => Or.inl hp⟩
  | cons q qs ih =>
    intro acc h
    simp only [List.foldl_cons]
    obtain ⟨h1, h2⟩ := ih (acc.set q.1 q.2) (Event.keys_set_nodup h q.1 q.2)
    refine ⟨h1, fun p hp => ?_⟩
    rcases h2 p hp with hp' | hp'
    · rw [Event.mem_set] at hp'
      rcases hp' with ⟨hp', _⟩ | rfl
      · exact Or.inl hp'
      · exact Or.inr (by simp)
    · exact Or.inr (by simp [hp'])

theorem nodeEvent_name (n : Var) (ev : Event) (h : EvOK ev) : (nodeEvent n ev).name = n.name := by
  unfold nodeEvent
  cases hg : ev.get? n with
  | none => rfl
  | some v => exact h.names _ (Event.get?_mem hg)

theorem evOK_eventsOfDistrict (cf : MG Var) (d : List Var) (ev r : Event) (hev : EvOK ev)
    (h : eventsOfDistrict cf d ev = .ok r) : EvOK r := by
  unfold eventsOfDistrict at h
  cases hp : cf.markovPillow d with
  | error e => rw [hp] at h; cases h
  | ok pillow =>
    rw [hp] at h
    simp only [bind, Except.bind, pure, Except.pure] at h
    split at h
    · simp only [Except.ok.injEq] at h
      subst h
      obtain ⟨h1, h2⟩ := Event.ofList_spec (d.map fun n => (Var.plain n.name, nodeEvent n ev))
      refine ⟨h1, fun p hp' => ?_⟩
      obtain ⟨n, _, rfl⟩ := List.mem_map.1 (h2 p hp')
      exact nodeEvent_name n ev hev
    · simp only [Except.ok.injEq] at h
      subst h
      obtain ⟨h1, h2⟩ := Event.ofList_spec
        (d.map fun n => (interveneBase n.name (toInterventions pillow), nodeEvent n ev))
      refine ⟨h1, fun p hp' => ?_⟩
      obtain ⟨n, _, rfl⟩ := List.mem_map.1 (h2 p hp')
      exact nodeEvent_name n ev hev

theorem evOK_eventsOfEachDistrict (dordf : List Var → List Var) (cf : MG Var) (ev : Event) (evs : List Event)
    (hev : EvOK ev) (h : eventsOfEachDistrict dordf cf ev = .ok evs) : ∀ e ∈ evs, EvOK e := by
  unfold eventsOfEachDistrict at h
  intro e he
  obtain ⟨d, _, hd⟩ := mapM_ok_mem _ _ _ h e he
  exact evOK_eventsOfDistrict cf (dordf d) ev e hev hd

/-! ### the sharpened error taxonomy -/

/-- the only errors left: the documented refusal and the model's recursion bound -/
def AllowedErr' (e : Err) : Prop := e = .unidentifiable ∨ e = .internal "fuel"

theorem eqv_true_of_not (a b : Event) (h : ¬ ((!Event.eqv a b) = true)) : Event.eqv a b = true := by
  simpa using h

theorem lines4to9_error' {ordf : List World → List World} (hord : GoodOrder ordf) {dordf : List Var → List Var}
    (hdo : SubsetOrder dordf) (G : MG Name) (rec : Event → Except Err Expr)
    (hrec : ∀ ev' e', EvOK ev' → rec ev' = .error e' → AllowedErr' e')
    (topo : List Name) (hG : G.topologicalSort = .ok topo) (ev : Event) (hk : KeysNSI ev) (hok : EvOK ev) (e : Err)
    (h : idStarLines4to9 ordf dordf G rec ev = .error e) : AllowedErr' e := by
  unfold49 at h
  cases hcg : makeCounterfactualGraph ordf G ev with
  | error err =>
    rw [(cg_error_iff_cyclic ordf G ev err).1 hcg] at hG
    cases hG
  | ok v =>
    rw [hcg] at h
    simp only at h
    rcases v with ⟨cf, new⟩
    cases new with
    | none => cases h
    | some nev =>
      simp only at h
      have hnonempty := cg_nsi_nonempty hord hcg hk hok
      have hnevok := (cg_event_inv hord hcg hk hok).2
      cases hc : isConnected (nsiSubgraph cf) with
      | error err =>
        exfalso
        unfold isConnected at hc
        rw [if_neg (by simpa using hnonempty)] at hc
        cases hc
      | ok c =>
        rw [hc] at h
        simp only at h
        obtain ⟨hne, hcv⟩ := isConnected_ok _ _ hc
        split at h
        · rename_i hnc
          obtain ⟨evs, hevs, hlen⟩ := eventsOfEachDistrict_ok hdo cf nev
          rw [hevs] at h
          simp only at h
          have h2 : 2 ≤ evs.length := by
            rw [hlen]
            apply districts_ge_two _ (wf_nsiSubgraph cf) hne
            intro h1
            rw [hcv] at hnc
            simp [h1] at hnc
          split at h
          · omega
          · cases hm : evs.mapM rec with
            | error err =>
              rw [hm] at h
              simp only [Except.error.injEq] at h
              subst h
              obtain ⟨x, hx, hxe⟩ := mapM_error _ _ _ hm
              exact hrec x _ (evOK_eventsOfEachDistrict dordf cf nev evs hnevok hevs x hx) hxe
            | ok fs => rw [hm] at h; cases h
        · split at h
          · simp only [Except.error.injEq] at h
            exact Or.inl h.symm
          · obtain ⟨e9, he9⟩ := line9_ok _ hne
            rw [he9] at h
            cases h

theorem body_error' {ordf : List World → List World} (hord : GoodOrder ordf) {dordf : List Var → List Var}
    (hdo : SubsetOrder dordf) (G : MG Name) (rec : Event → Except Err Expr)
    (hrec : ∀ ev' e', EvOK ev' → rec ev' = .error e' → AllowedErr' e')
    (topo : List Name) (hG : G.topologicalSort = .ok topo) (ev : Event) (hok : EvOK ev) (e : Err)
    (h : idStarBody ordf dordf G rec ev = .error e) : AllowedErr' e := by
  unfold idStarBody at h
  split at h
  · cases h
  · rename_i hne
    split at h
    · cases h
    · rename_i h2
      split at h
      · exact hrec _ _ (evOK_removeTautologies ev hok) h
      · rename_i h3
        have hk : KeysNSI ev := keysNSI_of_lines123 ev (by intro h0; simp [h0] at hne) (by simpa using h2)
          (eqv_true_of_not _ _ h3) hok
        exact lines4to9_error' hord hdo G rec hrec topo hG ev hk hok e h

theorem idStarFuel_error' {ordf : List World → List World} (hord : GoodOrder ordf) {dordf : List Var → List Var}
    (hdo : SubsetOrder dordf) (G : MG Name) (topo : List Name) (hG : G.topologicalSort = .ok topo) (fuel : Nat)
    (ev : Event) (hok : EvOK ev) (e : Err) (h : idStarFuel ordf dordf G fuel ev = .error e) : AllowedErr' e := by
  induction fuel generalizing ev e with
  | zero =>
    simp only [idStarFuel, Except.error.injEq] at h
    exact Or.inr h.symm
  | succ n ih =>
    simp only [idStarFuel] at h
    exact body_error' hord hdo G _ (fun ev' e' hok' he' => ih ev' hok' e' he') topo hG ev hok e h

end Cf
end Y0
