/-
  Y0.Lemmas.TrsoAll — every phase of a TRSO run (target domain, source domain after line 6): no lookup, separation
  test, topological sort, expression operator or budget failure; the ONLY error that can come out is the
  `NotImplementedError` that `activate_domain_and_interventions` raises when it meets `One()`.
-/
import Y0.Lemmas.TrsoPlumb
import Y0.Lemmas.TrsoQ23
import Y0.Lemmas.TrsoQ410
import Y0.Lemmas.TrsoQ6
import Y0.Lemmas.TrsoActivate
import Y0.Lemmas.TrsoQInit

namespace Y0
namespace Trso
open TrDsl MG

/-- lines 6/7 in any phase, given the recursive calls are good -/
theorem step67_good2 {M : Nat} {fuel : Nat}
    (ih : ∀ (q : Query) (G : MG Name), QInv M q G → Clean q.expr → Raw q.expr → mu2 M q G < fuel →
      Good2 (trsoF dSeparated fuel q))
    {q : Query} {G : MG Name} (h : QInv M q G) (hc : Clean q.expr) (hr : Raw q.expr) (hmu : mu2 M q G < fuel + 1)
    {extra : List Name} (hex : noEffectOnOutcomes G q.X q.Y = .ok extra) (hemp : extra.isEmpty = true) :
    Good2 (step67 dSeparated (trsoF dSeparated fuel) q) := by
  unfold step67
  split
  · rename_i hguard
    have hact : q.active = [] := by
      have : q.active.isEmpty = true := by
        cases hq : q.active.isEmpty <;> simp [hq] at hguard ⊢
      simpa using this
    have hsurr : q.surr ≠ [] := by
      intro hs; rw [hs] at hguard; simp at hguard
    obtain ⟨subs, hsubs, hall⟩ := qline6_ok h hact hsurr hex hemp
    rw [hsubs, ok_bind]
    have key := mapM_onlyNIE (f := fun (x : Pop × Query) => match x with
        | (d, s) => do
          match ← trsoF dSeparated fuel s with
          | none => pure none
          | some e => pure (some (← activate s.active d e))) (P := fun o => ∀ e, o = some e → Clean e) subs
      (fun p hp => by
        obtain ⟨hexpr, hactive, G', hinv', hmu'⟩ := hall p hp
        obtain ⟨d, s⟩ := p
        simp only [] at hexpr hactive hinv' hmu' ⊢
        have hg := ih s G' hinv' (hexpr ▸ hc) (hexpr ▸ hr) (by omega)
        refine onlyNIE_bind_post (P := fun o => ∀ e, o = some e → Clean e ∧ Raw e) hg.1
          (fun o ho e he => ⟨hg.2 e (by rw [ho, he]),
            trsoF_vocab_source dSeparated fuel s e hactive (hexpr ▸ hr) (by rw [ho, he])⟩) (fun o ho => ?_)
        cases o with
        | none => exact ⟨onlyNIE_ok _, by intro b hb e he; simp [pure, Except.pure] at hb; subst hb; cases he⟩
        | some e =>
          obtain ⟨hce, hre⟩ := ho e rfl
          rcases activate_onlyNIE (zs := s.active) (d := d) hactive e hce hre with ⟨e', he', hce'⟩ | herr
          · simp only [he', ok_bind]
            exact ⟨onlyNIE_ok _, by
              intro b hb x hx; simp [pure, Except.pure] at hb; subst hb; cases hx; exact hce'⟩
          · simp only [herr]
            exact ⟨by intro e' he'; simp [bind, Except.bind] at he'; exact he'.symm ▸ rfl, by
              intro b hb; simp [bind, Except.bind] at hb⟩)
    have k := onlyNIE_bind_post (f := fun rs => (pure (rs.filterMap id).head? : Except Err (Option Expr)))
      (P := fun (rs : List (Option Expr)) => ∀ o ∈ rs, ∀ e, o = some e → Clean e)
      (Q := fun o => ∀ e, o = some e → Clean e) key.1 key.2 (fun rs hrs => by
        refine ⟨onlyNIE_ok _, ?_⟩
        intro b hb e he
        have hb' : (rs.filterMap id).head? = b := Except.ok.inj hb
        subst hb'
        have hmem : e ∈ rs.filterMap id := List.mem_of_mem_head? he
        obtain ⟨o, ho, hoe⟩ := List.mem_filterMap.1 hmem
        exact hrs o ho e hoe)
    exact ⟨k.1, fun e he => k.2 (some e) he e rfl⟩
  · exact good2_none

/-- **Every phase.**  Under the all-phase invariant, with a clean raw carried expression and a measure below the budget,
the recursion can only fail with the `NotImplementedError` of `activate`, and an estimand it returns is clean. -/
theorem trsoF_all_good (M : Nat) :
    ∀ (fuel : Nat) (q : Query) (G : MG Name), QInv M q G → Clean q.expr → Raw q.expr → mu2 M q G < fuel →
      Good2 (trsoF dSeparated fuel q)
  | 0, _, _, _, _, _, hmu => absurd hmu (Nat.not_lt_zero _)
  | fuel + 1, q, G, h, hc, hr, hmu => by
    have ih := trsoF_all_good M fuel
    have hg : q.graph = .ok G := h.look
    unfold trsoF
    rw [hg, ok_bind]
    split
    · -- line 1
      obtain ⟨e, he, hce⟩ := step1_ok (q := q) (G := G) hc
      rw [he]; exact good2_some hce
    · obtain ⟨anc, hanc⟩ := h.anc_ok
      rw [hanc, ok_bind]
      split
      · -- line 2
        rename_i hne
        have hne' : (diff' (regularNodes G) anc).isEmpty = false := by simpa using hne
        obtain ⟨q', G', hq', hinv', hmu', hc', _, _, _⟩ :=
          qline2_ok h hanc hne' Clean (fun r => line2_expr_ok hc)
        unfold step2
        rw [hq', ok_bind]
        exact good2_c14n (ih q' G' hinv' hc' (raw_line2 hr hq') (by omega))
      · obtain ⟨extra, hex⟩ := h.noEffect_ok
        rw [hex, ok_bind]
        split
        · -- line 3
          rename_i hne
          have hne' : extra.isEmpty = false := by simpa using hne
          obtain ⟨hinv', hmu'⟩ := qline3_inv h hex hne'
          unfold step3
          exact good2_c14n (ih (line3 q extra) G hinv' hc hr (by omega))
        · rename_i hemp0
          have hemp : extra.isEmpty = true := by simpa using hemp0
          have hT := h.tnodes_in_X hex hemp
          simp only []
          split
          · -- line 4
            rename_i hlen
            have h4 := qline4_inv h hT hlen
            have hall : ∀ r ∈ (line4 q G (G.removeNodes q.X).districts).map (trsoF dSeparated fuel), Good2 r := by
              intro r hr'
              obtain ⟨s, hs', rfl⟩ := List.mem_map.1 hr'
              obtain ⟨hinv', hmu', hexpr, _, _⟩ := h4 s hs'
              exact ih s G hinv' (hexpr ▸ hc) (hexpr ▸ hr) (by omega)
            have hct := collectTerms_good2 _ hall
            unfold step4
            refine onlyNIE_bind_post (P := fun o => ∀ ts, o = some ts → ∀ t ∈ ts, Clean t)
              (Q := fun o => ∀ e, o = some e → Clean e) hct.1 (fun o ho ts hts => hct.2 ts (by rw [ho, hts]))
              (fun o ho => ?_) |> fun k => ⟨k.1, fun e he => k.2 (some e) he e rfl⟩
            cases o with
            | none => exact ⟨onlyNIE_ok _, by intro b hb e he; simp [pure, Except.pure] at hb; subst hb; cases he⟩
            | some ts =>
              obtain ⟨e, he, hce⟩ := step4_tail_ok (terms := ts)
                (rs := plainVars (diff' (regularNodes G) (q.X ++ q.Y))) (ho ts rfl)
              simp only []
              rw [he]
              exact ⟨onlyNIE_ok _, by intro b hb x hx; cases hb; cases hx; exact hce⟩
          · -- lines 6-11
            rename_i hlen
            have h67 := step67_good2 ih h hc hr hmu hex hemp
            refine onlyNIE_bind_post (P := fun o => ∀ e, o = some e → Clean e)
              (Q := fun o => ∀ e, o = some e → Clean e) h67.1 (fun o ho e he => h67.2 e (by rw [ho, he]))
              (fun via hvia => ?_) |> fun k => ⟨k.1, fun e he => k.2 (some e) he e rfl⟩
            cases via with
            | some e67 =>
              obtain ⟨e, he, hce⟩ := canonicalize_ok (hvia e67 rfl)
              simp only []
              rw [he, ok_bind]
              exact ⟨onlyNIE_ok _, by intro b hb x hx; simp [pure, Except.pure] at hb; subst hb; cases hx; exact hce⟩
            | none =>
              simp only []
              have hgoal : Good2 (step811 (trsoF dSeparated fuel) q G (G.removeNodes q.X).districts) := by
                unfold step811
                split
                · exact good2_none
                · rename_i hdl
                  have hdne := h.dwi_ne
                  cases hd : (G.removeNodes q.X).districts with
                  | nil => exact absurd hd hdne
                  | cons c rest =>
                    have hrest : rest = [] := by
                      cases rest with
                      | nil => rfl
                      | cons a as => rw [hd] at hlen; simp at hlen
                    subst hrest
                    obtain ⟨hcmem, hYc, hcne, hcT⟩ := h.single_dwi hT hd
                    obtain ⟨order, hord, hcomp⟩ := h.order_ok
                    simp only []
                    split
                    · -- line 9
                      have hin : ∀ v ∈ nsort c, v ∈ order := fun v hv =>
                        hcomp v ((hcmem v).1 ((mem_nsort v c).1 hv)).1 (hcT v ((mem_nsort v c).1 hv))
                      obtain ⟨e9, he9, hc9⟩ := line9_ok hc hord hin hcne
                      rw [he9, ok_bind]
                      obtain ⟨e, he, hce⟩ := canonicalize_ok hc9
                      rw [he, ok_bind]
                      exact good2_some hce
                    · -- line 10
                      obtain ⟨c', hfil, hc'd, hcc', hc'n, hc'T⟩ := h.super_district hT hd
                      rw [hfil]
                      simp only []
                      obtain ⟨o, ho, hos⟩ := h.line10Surr_ok hc'n
                      rw [ho, ok_bind]
                      cases o with
                      | none => exact good2_none
                      | some s =>
                        simp only []
                        have hs := hos s rfl
                        have hin : ∀ v ∈ nsort c', v ∈ order := fun v hv =>
                          hcomp v (hc'n v ((mem_nsort v c').1 hv)) (hc'T v ((mem_nsort v c').1 hv))
                        obtain ⟨q', hq', hcq', hX, hYq, hact, hdom, hsurr, hgr⟩ := line10_ok (s := s) hc hord hin
                        rw [hq', ok_bind]
                        obtain ⟨hinv', hmu'⟩ :=
                          qline10_inv h hc'd (fun y hy => hcc' y (hYc y hy)) hc'T hdl hX hYq hact hdom hsurr hs hgr
                        have hs' : s = q.surr ∨ s = [] := hs.elim (fun a => Or.inl a.1) (fun a => Or.inr a.1)
                        exact good2_c14n (ih q' _ hinv' hcq' (raw_line10 hr hs' hq') (by omega))
              exact ⟨hgoal.1, fun b hb e he => hgoal.2 e (by rw [hb, he])⟩

end Trso
end Y0
