/-
  Y0.Lemmas.TrsoAll — every phase of a TRSO run (target domain, source domain after line 6): no lookup, separation
  test, topological sort, expression operator or budget failure; the ONLY error that can come out is the
  `NotImplementedError` that `activate_domain_and_interventions` raises when it meets `One()`.
-/
import Y0.Lemmas.TrsoPlumb
import Y0.Lemmas.TrsoQ23
import Y0.Lemmas.TrsoQ410
import Y0.Lemmas.TrsoQ6
import Y0.Lemmas.TrsoActivate
import Y0.Lemmas.TrsoQInit

namespace Y0
namespace Trso
open TrDsl MG

/-- lines 6/7 in any phase, given the recursive calls are good -/
theorem step67_good2 {M : Nat} {fuel : Nat}
    (ih : ∀ (q : Query) (G : MG Name), QInv M q G → Clean q.expr → Raw q.expr → mu2 M q G < fuel →
      Good2 (trsoF dSeparated fuel q))
    {q : Query} {G : MG Name} (h : QInv M q G) (hc : Clean q.expr) (hr : Raw q.expr) (hmu : mu2 M q G < fuel + 1)
    {extra : List Name} (hex : noEffectOnOutcomes G q.X q.Y = .ok extra) (hemp : extra.isEmpty = true) :
    Good2 (step67 dSeparated (trsoF dSeparated fuel) q) := by
  unfold step67
  split
  · rename_i hguard
    have hact : q.active = [] := by
      have : q.active.isEmpty = true := by
        cases hq : q.active.isEmpty <;> simp [hq] at hguard ⊢
      simpa using this
    have hsurr : q.surr ≠ [] := by
      intro hs; rw [hs] at hguard; simp at hguard
    obtain ⟨subs, hsubs, hall⟩ := qline6_ok h hact hsurr hex hemp
    rw [hsubs, ok_bind]
    have key := mapM_onlyNIE (f := fun (p : Pop × Query) => do
        match ← trsoF dSeparated fuel p.2 with
        | none => pure none
        | some e => pure (some (← activate p.2.active p.1 e))) (P := fun o => ∀ e, o = some e → Clean e) subs
      (fun p hp => by
        obtain ⟨hexpr, hactive, G', hinv', hmu'⟩ := hall p hp
        have hg := ih p.2 G' hinv' (hexpr ▸ hc) (hexpr ▸ hr) (by omega)
        refine onlyNIE_bind_post (P := fun o => ∀ e, o = some e → Clean e ∧ Raw e) hg.1
          (fun o ho e he => ⟨hg.2 e (by rw [ho, he]),
            trsoF_vocab_source dSeparated fuel p.2 e hactive (hexpr ▸ hr) (by rw [ho, he])⟩) (fun o ho => ?_)
        cases o with
        | none => exact ⟨onlyNIE_ok _, by intro b hb e he; simp [pure, Except.pure] at hb; subst hb; cases he⟩
        | some e =>
          obtain ⟨hce, hre⟩ := ho e rfl
          rcases activate_onlyNIE (zs := p.2.active) (d := p.1) hactive e hce hre with ⟨e', he', hce'⟩ | herr
          · simp only [he', ok_bind]
            exact ⟨onlyNIE_ok _, by
              intro b hb x hx; simp [pure, Except.pure] at hb; subst hb; cases hx; exact hce'⟩
          · simp only [herr]
            exact ⟨by intro e' he'; simp [bind, Except.bind] at he'; exact he'.symm ▸ rfl, by
              intro b hb; simp [bind, Except.bind] at hb⟩)
    refine onlyNIE_bind_post (P := fun rs => ∀ o ∈ rs, ∀ e, o = some e → Clean e)
      (Q := fun o => ∀ e, o = some e → Clean e) key.1 key.2 (fun rs hrs => ?_) |> fun k =>
        ⟨k.1, fun e he => k.2 (some e) he e rfl⟩
    refine ⟨onlyNIE_ok _, ?_⟩
    intro b hb e he
    simp [pure, Except.pure] at hb; subst hb
    have hmem : some e ∈ rs.filterMap id := List.mem_of_mem_head? he
    have : some e ∈ rs := by simpa using hmem
    exact hrs _ this e rfl
  · exact good2_none

end Trso
end Y0
