/-
  Y0.Lemmas.CtfTrTotal — property C09, clause "for every input that passes its own validation the procedure either
  answers or returns 'fail', never another error", for the UNCONDITIONAL procedure `ctfTRu` (Algorithm 2).

  The parts: SIMPLIFY (Y0.Lemmas.CtfTrSimplify), line 2 (Y0.Lemmas.CtfTrLine2), Algorithm 4 (Y0.Lemmas.CtfTrSigma).
  Here: what an accepted input guarantees for each of them, and the composition `ctfTRu_total_of_class`.
-/
import Y0.Lemmas.CtfTrSimplify
import Y0.Lemmas.CtfTrLine2
import Y0.Lemmas.CtfTrSigma

namespace Y0.CtfTr
open Ctf Relation Y0.MG
open Trso (isTnode tnode targetPop nsort)

/-! ### what the validator guarantees -/

theorem validateDomains_mem (target : MG Name) : ∀ (ds : List Domain), validateDomains target ds = .ok () →
    ∀ d ∈ ds, validateDomain target d = .ok ()
  | [], _, d, hd => by cases hd
  | d0 :: ds, h, d, hd => by
    simp only [validateDomains, bind, Except.bind] at h
    cases h0 : validateDomain target d0 with
    | error err => rw [h0] at h; cases h
    | ok u =>
      rw [h0] at h
      rcases List.mem_cons.1 hd with rfl | hd'
      · exact h0
      · exact validateDomains_mem target ds h d hd'

/-- the checks of one domain that Algorithm 4 relies on: the order lists the nodes of the selection diagram, and every
regular node is a variable of the population's distribution -/
theorem validateDomain_facts (target : MG Name) (d : Domain) (h : validateDomain target d = .ok ()) :
    seteq' d.topo d.graph.nodes = true ∧
      (regular d.graph).all (fun n => Ctf.mem' (Var.plain n) (exprVars d.pop)) = true := by
  unfold validateDomain vErr at h
  split at h
  · cases h
  · rename_i h1
    split at h
    · cases h
    · rename_i h2
      exact ⟨by simpa using h1, by simpa using h2⟩

/-- a population expression that mentions a variable is a `Probability` -/
theorem isProb_of_exprVarNames (q : Expr) (v : Name) (h : Ctf.mem' (Var.plain v) (exprVars q) = true) :
    Tian.isProb q = true := by
  cases q <;> simp_all [exprVars, Tian.isProb, Ctf.mem']

theorem ite_error_ok {c : Prop} [Decidable c] {err : Err} {y : Except Err Unit} {u : Unit}
    (h : (if c then .error err else y) = .ok u) : ¬ c ∧ y = .ok u := by
  split at h
  · cases h
  · exact ⟨‹_›, h⟩

/-- what an accepted unconditional input guarantees (the part the algorithms rely on) -/
theorem validateU_facts (target : MG Name) (ds : List Domain) (e : Event) (h : validateU target ds e = .ok ()) :
    target.nodes ≠ [] ∧ target.isAcyclic = true ∧ (∀ p ∈ e, p.1.name ∈ target.nodes) ∧
    (∀ d ∈ ds, seteq' target.nodes (regular d.graph) = true) ∧ (∀ d ∈ ds, validateDomain target d = .ok ()) := by
  unfold validateU vErr at h
  obtain ⟨_, h⟩ := ite_error_ok h
  unfold validateCommon vErr at h
  obtain ⟨h1, h⟩ := ite_error_ok h
  obtain ⟨_, h⟩ := ite_error_ok h
  obtain ⟨_, h⟩ := ite_error_ok h
  obtain ⟨_, h⟩ := ite_error_ok h
  obtain ⟨_, h⟩ := ite_error_ok h
  obtain ⟨_, h⟩ := ite_error_ok h
  obtain ⟨_, h⟩ := ite_error_ok h
  obtain ⟨_, h⟩ := ite_error_ok h
  obtain ⟨h8, h⟩ := ite_error_ok h
  obtain ⟨h9, h⟩ := ite_error_ok h
  obtain ⟨h10, h⟩ := ite_error_ok h
  obtain ⟨_, h⟩ := ite_error_ok h
  refine ⟨?_, ?_, ?_, ?_, validateDomains_mem target ds h⟩
  · intro h0; rw [h0] at h1; exact h1 rfl
  · cases hac : target.isAcyclic with
    | true => rfl
    | false => rw [hac] at h8; exact absurd rfl h8
  · intro p hp
    simp only [List.any_eq_true, not_exists, not_and, List.mem_map, decide_eq_true_eq, not_not] at h10
    exact h10 p.1 ⟨p, hp, rfl⟩
  · intro d hd
    simp only [List.any_eq_true, not_exists, not_and, Bool.not_eq_eq_eq_not, Bool.not_true,
      Bool.not_eq_false] at h9
    exact h9 d hd

/-- check 6.5 of the unconditional validator (`fix:` 333fa44): in an accepted event every self-intervened variable has a
value -/
theorem validateU_selfNone (target : MG Name) (ds : List Domain) (e : Event) (h : validateU target ds e = .ok ()) :
    ∀ p ∈ e, selfIntervened p.1 = true → p.2 ≠ none := by
  unfold validateU vErr at h
  obtain ⟨_, h⟩ := ite_error_ok h
  unfold validateCommon vErr at h
  obtain ⟨_, h⟩ := ite_error_ok h
  obtain ⟨_, h⟩ := ite_error_ok h
  obtain ⟨_, h⟩ := ite_error_ok h
  obtain ⟨hsn, _⟩ := ite_error_ok h
  intro p hp hs hnone
  apply hsn
  unfold selfNone
  exact List.any_eq_true.2 ⟨p, hp, by rw [hnone, hs]; rfl⟩

/-! ### the hypotheses on the event and on the domain graphs that the validator does NOT check -/

/-- the event variables are what `_event_from_counterfactuals` produces: unstarred `Variable`s /
`CounterfactualVariable`s (no `Intervention`, no value mark left on the variable itself), and the subscripts of each are
a duplicate-free list (the model of a `frozenset`) -/
def EventVarsPlain (e : Event) : Prop :=
  ∀ p ∈ e, p.1.star = none ∧ p.1.isIv = false ∧ p.1.ivs.Nodup

/-- the selection diagrams agree with the target graph on the bidirected edges between variables that carry no policy,
and their selection nodes carry no bidirected edge -/
def DomainsAgree (target : MG Name) (ds : List Domain) : Prop :=
  ∀ d ∈ ds, (∀ a b, target.BiEdge a b → a ∉ d.policy → b ∉ d.policy → d.graph.BiEdge a b) ∧
    (∀ a b, d.graph.BiEdge a b → isTnode a = false)

/-! ### Algorithm 4 on the factors of line 2 -/

theorem domainOK_of_accepted (target : MG Name) (d : Domain) (hwf : d.graph.WF)
    (hne : target.nodes ≠ []) (hseq : seteq' target.nodes (regular d.graph) = true)
    (hvd : validateDomain target d = .ok ())
    (hbi : ∀ a b, target.BiEdge a b → a ∉ d.policy → b ∉ d.policy → d.graph.BiEdge a b)
    (hbiT : ∀ a b, d.graph.BiEdge a b → isTnode a = false)
    (district : List Name) (hsub : ∀ v ∈ district, v ∈ target.nodes)
    (hconn : ∀ a ∈ district, ∀ b ∈ district, (target.subgraph district).SameDistrict a b)
    (hus : domainUsable district d = true) : DomainOK district d := by
  obtain ⟨htopo, hpop⟩ := validateDomain_facts target d hvd
  have hseq' := TianGraph.seteq'_iff.1 hseq
  refine ⟨hwf, fun v hv => (hseq' v).1 (hsub v hv), TianGraph.seteq'_iff.1 htopo, ?_, hbiT, ?_⟩
  · obtain ⟨v, hv⟩ := List.exists_mem_of_ne_nil _ hne
    have hvr : v ∈ regular d.graph := (hseq' v).1 hv
    simp only [List.all_eq_true] at hpop
    exact isProb_of_exprVarNames d.pop v (hpop v hvr)
  · have hpol : ∀ v ∈ district, v ∉ d.policy := by
      simp only [domainUsable, Bool.and_eq_true, List.all_eq_true, decide_eq_true_eq] at hus
      exact hus.1
    intro a ha b hb
    refine TianTotal.sameDistrict_mono ?_ (hconn a ha b hb)
    intro u v huv
    obtain ⟨h1, hu, hv⟩ := (biEdge_subgraph target district u v).1 huv
    exact (biEdge_subgraph d.graph district u v).2 ⟨hbi u v h1 (hpol u hu) (hpol v hv), hu, hv⟩

/-! ### the composition -/

theorem afterValidation_ok_eq {α} (a : α) : afterValidation (.ok a : Except Err α) = .ok a := rfl

/-- **Algorithm 2 never raises** (model-level statement of the clause "never another error"; after `fix:` c8cad49 and
333fa44 no class of events is excluded: the validator rejects a valueless self-intervened variable, and SIMPLIFY accepts
`Y_y` next to a valueless `Y`).  For an input accepted by the procedure's own validator, on graphs built by `from_edges`,
the result of `ctfTRu` is an answer or FAIL provided
* `EventVarsPlain`: no event variable is an `Intervention` or carries a value mark of its own (guaranteed by the
  public entry point, which builds the event with `_event_from_counterfactuals`), subscript lists are duplicate free
  (the representation invariant of a `frozenset`),
* `DomainsAgree`: every selection diagram keeps the bidirected edges of the target graph between policy-free
  variables and has no bidirected edge at a selection node (the validator compares a domain graph with the target
  only when it is the target domain itself; Algorithm 4 raises `ValueError` / `KeyError` otherwise). -/
theorem ctfTRu_total (target : MG Name) (ds : List Domain) (e : Event)
    (hv : validateU target ds e = .ok ()) (hwf : target.WF) (hds : ∀ d ∈ ds, d.graph.WF)
    (hplain : EventVarsPlain e) (hdom : DomainsAgree target ds) :
    ∀ err, ctfTRu target ds e ≠ .error err := by
  obtain ⟨hne, hac, hnodes, hseq, hvd⟩ := validateU_facts target ds e hv
  have hloop : ∀ v, ¬ target.DiEdge v v := fun v hvv =>
    ((isAcyclic_iff target hwf).1 hac) v (TransGen.single hvv)
  suffices hsuff : ∃ r, ctfTRu target ds e = .ok r by
    obtain ⟨r, hr⟩ := hsuff
    intro err herr
    rw [hr] at herr; cases herr
  unfold ctfTRu ctfTRuCore
  rw [hv]
  simp only [bind, Except.bind]
  obtain ⟨o, hs⟩ := simplify_total target hwf e hnodes
    (fun p hp => by simp [validEventVar, (hplain p hp).1]) (fun p hp => (hplain p hp).2.2)
    (validateU_selfNone target ds e hv)
  rw [hs]
  cases o with
  | none => exact ⟨_, rfl⟩
  | some ev =>
    dsimp only
    have hev : EventOK target ev := by
      intro p hp
      obtain ⟨⟨q, hq, hqn⟩, hk⟩ := simplify_output target e ev
        (fun p hp => ⟨(hplain p hp).1, (hplain p hp).2.1⟩) hs p hp
      exact ⟨by rw [← hqn]; exact hnodes q hq, hk⟩
    obtain ⟨anc, factors, hl2, hfac⟩ := line2_ok target hwf hloop ev hev
    rw [hl2]
    dsimp only
    split
    · exact ⟨_, rfl⟩
    · obtain ⟨r, hr⟩ := transportFactors_total ds factors (by
        intro f hf
        obtain ⟨hfne, hfn, hfc⟩ := hfac f hf
        refine ⟨hfne, fun d hd => ?_⟩
        have hsub : ∀ v ∈ dedup' (f.map (·.1.name)), v ∈ target.nodes := by
          intro v hv
          obtain ⟨p, hp, rfl⟩ := List.mem_map.1 (mem_dedup'.1 hv)
          exact hfn p hp
        refine ⟨fun v hv => (TianGraph.seteq'_iff.1 (hseq d hd) v).1 (hsub v hv), fun hus => ?_⟩
        apply domainOK_of_accepted target d (hds d hd) hne (hseq d hd) (hvd d hd) (hdom d hd).1 (hdom d hd).2 _ hsub _ hus
        intro a ha b hb
        obtain ⟨p, hp, rfl⟩ := List.mem_map.1 (mem_dedup'.1 ha)
        obtain ⟨q, hq, rfl⟩ := List.mem_map.1 (mem_dedup'.1 hb)
        exact hfc p hp q hq)
      rw [hr]
      cases r with
      | none => exact ⟨_, rfl⟩
      | some qs => exact ⟨_, rfl⟩

/-- the former statements with a class hypothesis (no longer needed) -/
theorem ctfTRu_total_of_risk (target : MG Name) (ds : List Domain) (e : Event)
    (hv : validateU target ds e = .ok ()) (hwf : target.WF) (hds : ∀ d ∈ ds, d.graph.WF)
    (_hrisk : SimplifyRisk e = false) (hplain : EventVarsPlain e) (hdom : DomainsAgree target ds) :
    ∀ err, ctfTRu target ds e ≠ .error err :=
  ctfTRu_total target ds e hv hwf hds hplain hdom

theorem ctfTRu_total_of_class (target : MG Name) (ds : List Domain) (e : Event)
    (hv : validateU target ds e = .ok ()) (hwf : target.WF) (hds : ∀ d ∈ ds, d.graph.WF)
    (_hcls : CrashClassU e = false) (hplain : EventVarsPlain e) (hdom : DomainsAgree target ds) :
    ∀ err, ctfTRu target ds e ≠ .error err :=
  ctfTRu_total target ds e hv hwf hds hplain hdom

end Y0.CtfTr
