/-
  Y0.Lemmas.PrintExpr — the printed form of every well-formed expression parses (in the model of Python's
  grammar) to the operator tree of the object, by induction over expressions.
-/
import Y0.Lemmas.PrintAst

namespace Y0
namespace Print
open PyParse

/-! ### chains at the `* / @` level -/

theorem chainToks_append (xs ys : List ChainItem) : chainToks (xs ++ ys) = chainToks xs ++ chainToks ys := by
  induction xs with
  | nil => rfl
  | cons x xs ih => simp [chainToks, ih]

theorem chainAst_append (a : Ast) (xs ys : List ChainItem) : chainAst a (xs ++ ys) = chainAst (chainAst a xs) ys := by
  induction xs generalizing a with
  | nil => rfl
  | cons x xs ih => simp [chainAst, ih]

/-- `ts` is `x₀ op₁ x₁ op₂ x₂ …` with `factor`s `xᵢ` and operators of the `* / @` level, and `a` is its
left-nested tree -/
def TermChain (ts : List Tok) (a : Ast) : Prop :=
  ∃ first a1 items, ts = first ++ chainToks items ∧ ParsesAt 4 first a1 ∧
    (∀ it ∈ items, binInfo it.tok = some (it.op, 3) ∧ ParsesAt 4 it.toks it.ast) ∧ chainAst a1 items = a

theorem TermChain.of_unary {ts a} (h : UnaryParses ts a) : TermChain ts a :=
  ⟨ts, a, [], by simp [chainToks], ParsesAt.of_unary h, by simp, rfl⟩

theorem TermChain.parses {ts a} (h : TermChain ts a) : ParsesAt 3 ts a := by
  obtain ⟨first, a1, items, rfl, hf, hi, rfl⟩ := h
  exact ParsesAt.chain (by omega) hf items hi

theorem TermChain.snoc {ts a t op ts' b} (h : TermChain ts a) (ht : binInfo t = some (op, 3)) (hb : ParsesAt 4 ts' b) :
    TermChain (ts ++ t :: ts') (.bin op a b) := by
  obtain ⟨first, a1, items, rfl, hf, hi, rfl⟩ := h
  refine ⟨first, a1, items ++ [⟨t, op, ts', b⟩], ?_, hf, ?_, ?_⟩
  · simp [chainToks_append, chainToks]
  · intro it hit
    rcases List.mem_append.mp hit with h | h
    · exact hi it h
    · simp at h; subst h; exact ⟨ht, hb⟩
  · simp [chainAst_append, chainAst]

/-! ### products -/

/-- ` * f₁ * f₂ …` -/
def starChain : List Expr → List Tok
  | [] => []
  | g :: gs => .star :: exprM .full g ++ starChain gs

theorem exprs_cons (f : Expr) (gs : List Expr) : exprs (f :: gs) = exprM .full f ++ starChain gs := by
  induction gs generalizing f with
  | nil => simp [exprs, starChain]
  | cons g gs ih => rw [exprs, ih g, starChain]; simp

theorem termChain_starChain (gs : List Expr) (hg : ∀ g ∈ gs, UnaryParses (exprM .full g) (astOf g)) :
    ∀ ts a, TermChain ts a → TermChain (ts ++ starChain gs) (gs.foldl (fun acc g => .bin .mul acc (astOf g)) a) := by
  induction gs with
  | nil => intro ts a h; simpa [starChain] using h
  | cons g gs ih =>
    intro ts a h
    have h1 := h.snoc (t := .star) (op := .mul) rfl (ParsesAt.of_unary (hg g (by simp)))
    have h2 := ih (fun x hx => hg x (by simp [hx])) _ _ h1
    simpa [starChain, List.append_assoc] using h2

theorem termChain_exprs (f : Expr) (gs : List Expr) (hg : ∀ g ∈ f :: gs, UnaryParses (exprM .full g) (astOf g)) :
    TermChain (exprs (f :: gs)) (mulChain (astOfs (f :: gs))) := by
  rw [exprs_cons]
  have := termChain_starChain gs (fun g h => hg g (by simp [h])) _ _ (TermChain.of_unary (hg f (by simp)))
  simpa [mulChain, astOfs, astOfs_eq_map, List.foldl_map] using this

/-! ### sorted ranges stay non-empty -/

theorem insertBy_ne_nil {α} (lt : α → α → Bool) (x : α) (l : List α) : insertBy lt x l ≠ [] := by
  cases l with
  | nil => simp [insertBy]
  | cons y ys => simp only [insertBy]; split <;> simp

theorem sortBy_ne_nil {α} (lt : α → α → Bool) {l : List α} (h : l ≠ []) : sortBy lt l ≠ [] := by
  cases l with
  | nil => exact absurd rfl h
  | cons x xs => simpa [sortBy] using insertBy_ne_nil lt x _

theorem byName_ne_nil {vs : List Var} (h : vs.isEmpty = false) : byName vs ≠ [] :=
  sortBy_ne_nil _ (by intro h0; simp [h0] at h)

theorem vars_head {vs : List Var} (h : vs ≠ []) : ∃ t ts, vars vs = t :: ts ∧ t ≠ .rpar := by
  cases vs with
  | nil => exact absurd rfl h
  | cons x xs =>
    obtain ⟨t, ts, hv, ht⟩ := var_head x
    cases xs with
    | nil => exact ⟨t, ts, by simpa [vars, sepBy] using hv, ht⟩
    | cons y ys => exact ⟨t, ts ++ .comma :: sepBy .comma ((y :: ys).map var), by simp [vars, sepBy, hv], ht⟩

/-! ### the first token of a printed expression is never a closing parenthesis -/

theorem probHead_cons (pop : Option Var) : ∃ k ts, probHead pop = .kw k :: ts := by
  cases pop <;> simp [probHead]

theorem exprM_head : ∀ e, wf e = true → ∀ m, ∃ t ts, exprM m e = t :: ts ∧ t ≠ .rpar := by
  apply Expr.ind
  · intro pop c p _ m
    obtain ⟨k, ts, hk⟩ := probHead_cons pop
    simp only [exprM, prob]
    split <;> exact ⟨_, _, by rw [hk]; rfl, by simp⟩
  · intro fs ih hw m
    simp only [wf, Bool.and_eq_true, decide_eq_true_eq] at hw
    obtain ⟨hlen, hfs⟩ := hw
    by_cases hm : m = .denom
    · exact ⟨.lpar, exprs fs ++ [.rpar], by simp [exprM, hm, paren], by simp⟩
    · cases fs with
      | nil => simp at hlen
      | cons f gs =>
        have hf := (wfFactors_iff _).mp hfs f (by simp)
        obtain ⟨t, ts, ht, hne⟩ := ih f (by simp) hf.1 .full
        exact ⟨t, ts ++ starChain gs, by simp [exprM, hm, exprs_cons, ht], hne⟩
  · intro e rs _ _ m
    simp only [exprM]
    split <;> exact ⟨_, _, rfl, by simp⟩
  · intro n d _ _ _ m
    simp only [exprM, paren]
    split <;> exact ⟨_, _, rfl, by simp⟩
  · intro _ m; exact ⟨_, _, rfl, by simp⟩
  · intro _ m; exact ⟨_, _, rfl, by simp⟩
  · intro d c _ m; exact ⟨_, _, rfl, by simp⟩

/-! ### the main induction -/

/-- what the induction carries for a well-formed `e`: its full print is a `* /` chain of factors with the object's
tree, and every print that is not a bare product is a single `factor` -/
def Reads (e : Expr) : Prop :=
  TermChain (exprM .full e) (astOf e) ∧
  ∀ m, (isProd e = false ∨ m = .denom) → UnaryParses (exprM m e) (astOf e)

theorem exprM_prod_ne_denom {m : Mode} (fs : List Expr) (h : m ≠ .denom) : exprM m (.prod fs) = exprs fs := by
  simp [exprM, h]

theorem Reads.parses {e} (h : Reads e) (m : Mode) : ParsesAt 3 (exprM m e) (astOf e) := by
  by_cases hp : isProd e = false
  · exact (h.2 m (Or.inl hp)).at 3 (by omega)
  · by_cases hm : m = .denom
    · exact (h.2 m (Or.inr hm)).at 3 (by omega)
    · cases e <;> simp [isProd] at hp
      rename_i fs
      have : exprM m (.prod fs) = exprM .full (.prod fs) := by
        rw [exprM_prod_ne_denom fs hm, exprM_prod_ne_denom fs (by simp)]
      rw [this]
      exact h.1.parses

theorem unary_paren_of_parses {ts a} (h : ParsesAt 3 ts a) : UnaryParses (paren ts) a := by
  have := UnaryParses.paren (ListParses.single (h.lift_to (Nat.zero_le _) (by omega)))
  simpa [paren, tupleOf] using this

theorem reads_all : ∀ e, wf e = true → Reads e := by
  apply Expr.ind
  · -- Probability / PopulationProbability
    intro pop c p hw
    have hc : c ≠ [] := by intro h0; simp [wf, h0] at hw
    have hu := unary_prob pop c p hc
    exact ⟨TermChain.of_unary (by simpa [exprM, astOf] using hu), fun m _ => by simpa [exprM, astOf] using hu⟩
  · -- Product
    intro fs ih hw
    simp only [wf, Bool.and_eq_true, decide_eq_true_eq] at hw
    obtain ⟨hlen, hfs⟩ := hw
    have hall := (wfFactors_iff _).mp hfs
    cases fs with
    | nil => simp at hlen
    | cons f gs =>
      have hu : ∀ g ∈ f :: gs, UnaryParses (exprM .full g) (astOf g) :=
        fun g hg => (ih g hg (hall g hg).1).2 .full (Or.inl (hall g hg).2)
      have hc := termChain_exprs f gs hu
      refine ⟨by simpa [exprM, astOf] using hc, ?_⟩
      intro m hm
      rcases hm with hm | hm
      · simp [isProd] at hm
      · subst hm
        have := unary_paren_of_parses hc.parses
        simpa [exprM, astOf] using this
  · -- Sum
    intro e rs ih hw
    simp only [wf, Bool.and_eq_true, Bool.not_eq_true'] at hw
    obtain ⟨hrs, hwe⟩ := hw
    have hre := ih hwe
    have hbn := byName_ne_nil hrs
    have hsub : (PostItem.sub (vars (byName rs)) ((byName rs).map astVar)).Ok := listParses_vars _ hbn
    have hcall : (PostItem.call (exprM .bare e) [astOf e]).Ok :=
      ⟨ListParses.single ((hre.parses .bare).lift_to (Nat.zero_le _) (by omega)), exprM_head e hwe .bare⟩
    have hu := UnaryParses.kw .Sum [PostItem.sub (vars (byName rs)) ((byName rs).map astVar),
      PostItem.call (exprM .bare e) [astOf e]] (by
        intro it hit
        simp at hit
        rcases hit with h | h
        · subst h; exact hsub
        · subst h; exact hcall)
    have hu' : ∀ m, UnaryParses (exprM m (.sum e rs)) (astOf (.sum e rs)) := by
      intro m
      simpa [exprM, hrs, astOf, postToks, PostItem.toks, postAst, PostItem.apply, paren] using hu
    exact ⟨TermChain.of_unary (hu' .full), fun m _ => hu' m⟩
  · -- Fraction
    intro n d ihn ihd hw
    simp only [wf, Bool.and_eq_true] at hw
    have hn := ihn hw.1
    have hd := ihd hw.2
    have hinner : TermChain (exprM .full n ++ .slash :: exprM .denom d) (.bin .div (astOf n) (astOf d)) :=
      hn.1.snoc rfl (ParsesAt.of_unary (hd.2 .denom (Or.inr rfl)))
    have h1 := unary_paren_of_parses hinner.parses
    have h2 := unary_paren_of_parses (h1.at 3 (by omega))
    have hu' : ∀ m, UnaryParses (exprM m (.frac n d)) (astOf (.frac n d)) := by
      intro m
      by_cases hm : m = .bare
      · simpa [exprM, hm, astOf] using h1
      · simpa [exprM, hm, astOf] using h2
    exact ⟨TermChain.of_unary (hu' .full), fun m _ => hu' m⟩
  · -- One
    intro _
    have hu := UnaryParses.kw .One [PostItem.callEmpty] (by simp [PostItem.Ok])
    have hu' : ∀ m, UnaryParses (exprM m .one) (astOf .one) := by
      intro m; simpa [exprM, astOf, postToks, PostItem.toks, postAst, PostItem.apply] using hu
    exact ⟨TermChain.of_unary (hu' .full), fun m _ => hu' m⟩
  · -- Zero
    intro _
    have hu := UnaryParses.kw .Zero [PostItem.callEmpty] (by simp [PostItem.Ok])
    have hu' : ∀ m, UnaryParses (exprM m .zero) (astOf .zero) := by
      intro m; simpa [exprM, astOf, postToks, PostItem.toks, postAst, PostItem.apply] using hu
    exact ⟨TermChain.of_unary (hu' .full), fun m _ => hu' m⟩
  · -- QFactor
    intro dom cod hw
    simp only [wf, Bool.and_eq_true, Bool.not_eq_true'] at hw
    have hd := byName_ne_nil hw.1
    have hc := byName_ne_nil hw.2
    have hu := UnaryParses.kw .Q [PostItem.sub (vars (byName cod)) ((byName cod).map astVar),
      PostItem.call (vars (byName dom)) ((byName dom).map astVar)] (by
        intro it hit
        simp at hit
        rcases hit with h | h
        · subst h; exact listParses_vars _ hc
        · subst h; exact ⟨listParses_vars _ hd, vars_head hd⟩)
    have hu' : ∀ m, UnaryParses (exprM m (.q dom cod)) (astOf (.q dom cod)) := by
      intro m
      simpa [exprM, astOf, postToks, PostItem.toks, postAst, PostItem.apply, paren] using hu
    exact ⟨TermChain.of_unary (hu' .full), fun m _ => hu' m⟩

end Print
end Y0
