/-
  Y0.Lemmas.TianSemCalc — the probability calculus of the Lemma-1 branch (Y0.Lemmas.TianLemma1) for a probability
  `q = P_w(H ∪ E | Z)` under the weaker shape `ProbShapeIn` (starred subscripts / parents / redundant children
  allowed, redundant children may be non-nodes): with an assignment `ρ` that reads the variables of `q` at `(σ, σ')`,

      den (P_w(v | Z ∪ pred(v))) σ =  Σ_{>v} den q σ / Σ_{≥v} den q σ      (`den_lemma1`)
      den (P_w(A | Z)) σ           =  Σ_{H ∖ A} den q σ                     (`den_ancestralProb`)

  Sums over members of `H` commute with reading because the members of `H` occur only un-starred and only as children.
-/
import Y0.Lemmas.TianSemWorld
import Y0.Lemmas.TianLemma1

namespace Y0
namespace TianSem
open TianDsl Tian TianDen TianSpec TianProb TianLemma1

variable {M : Scm} {G : MG Name}

/-- the data of `ProbShapeIn` for `q = P_w(H ∪ E | Z)` -/
structure SShape (G : MG Name) (ch pa : List Var) (H : List Name) (w : List Iv) : Prop where
  covers : ∀ h ∈ H, h ∈ ch.map (·.name)
  extras : ∀ c ∈ ch, c.name ∈ H ∨ c.name ∈ pa.map (·.name) ∨ c.name ∈ w.map (·.name) ∨ c.name ∉ G.nodes
  world : ∀ v ∈ ch ++ pa, v.ivs = w
  unstar : ∀ c ∈ ch, c.name ∈ H → c.star ≠ some true
  ivs : ∀ i ∈ w, i.name ∉ H
  parents : ∀ p ∈ pa, p.name ∉ H

theorem sshape_of_probShapeIn {pop : Option Var} {ch pa : List Var} {H : List Name}
    (h : ProbShapeIn G (.prob pop ch pa) H) : ∃ w, SShape G ch pa H w := by
  obtain ⟨w, h1, h2, h3, h4, h5, h6⟩ := h
  exact ⟨w, ⟨h1, h2, h3, h4, h5, h6⟩⟩

theorem SShape.probShapeIn {pop : Option Var} {ch pa : List Var} {H : List Name} {w : List Iv}
    (h : SShape G ch pa H w) : ProbShapeIn G (.prob pop ch pa) H :=
  ⟨w, h.covers, h.extras, h.world, h.unstar, h.ivs, h.parents⟩

theorem SShape.ch_ne {ch pa : List Var} {H : List Name} {w : List Iv} (hs : SShape G ch pa H w) (hH : H ≠ []) :
    ch ≠ [] := by
  intro h0; subst h0
  cases H with
  | nil => exact hH rfl
  | cons a l => have := hs.covers a List.mem_cons_self; simp at this

/-- reading is preserved when a member of `H` changes -/
theorem SShape.reads_set {ch pa : List Var} {H : List Name} {w : List Iv} (hs : SShape G ch pa H w)
    {ρ σ σ' : Val} (hr : Reads ρ σ σ' w (ch ++ pa)) {y : Name} (hy : y ∈ H) (k : Nat) :
    Reads (ρ.set y k) (σ.set y k) σ' w (ch ++ pa) := by
  apply hr.set y k
  · intro i hi e
    exact hs.ivs i hi (e ▸ hy)
  · intro v hv e
    rcases List.mem_append.mp hv with hv | hv
    · exact hs.unstar v hv (e ▸ hy)
    · exact absurd (e ▸ hy) (hs.parents v hv)

/-- sums of `den q` over members of `H` are sums of its `F`-form at `ρ` -/
theorem SShape.sumVars_den {ch pa : List Var} {H : List Name} {w : List Iv} (hs : SShape G ch pa H w)
    (σ' : Val) (f g : Val → Rat) (hfg : ∀ σ ρ, Reads ρ σ σ' w (ch ++ pa) → f σ = g ρ)
    (ys : List Name) (hys : ∀ y ∈ ys, y ∈ H) {σ ρ : Val} (hr : Reads ρ σ σ' w (ch ++ pa)) :
    sumVars M.card ys f σ = sumVars M.card ys g ρ :=
  sumVars_rel M.card f g (fun σ ρ => Reads ρ σ σ' w (ch ++ pa)) ys hfg
    (fun _ _ h y hy k => hs.reads_set h (hys y hy) k) σ ρ hr

/-- `den (P_w(H ∪ E | Z)) σ = F X (H ∪ Z) ρ / (1 or F X Z ρ)` -/
theorem den_sshape (hM : M.Compatible G) (hG : G.WF) {ρ σ σ' : Val} {pop : Option Var} {ch pa : List Var}
    {H : List Name} {w : List Iv} (hs : SShape G ch pa H w) (hH : H ≠ [])
    (hr : Reads ρ σ σ' w (ch ++ pa)) :
    den (M.env G) σ' (.prob pop ch pa) σ =
      F M G (w.map (·.name)) (H ++ pa.map (·.name)) ρ /
        (if pa.isEmpty then 1 else F M G (w.map (·.name)) (pa.map (·.name)) ρ) := by
  rw [den_prob_reads hM hG pop (hs.ch_ne hH) hs.world hr]
  congr 1
  · apply congrFun
    apply F_congr_nodes
    intro v hvN hvX
    simp only [List.map_append, List.mem_append]
    constructor
    · rintro (h | h)
      · rcases List.mem_map.mp h with ⟨c, hc', rfl⟩
        rcases hs.extras c hc' with h' | h' | h' | h'
        · exact Or.inl h'
        · exact Or.inr h'
        · exact absurd h' hvX
        · exact absurd hvN h'
      · exact Or.inr h
    · rintro (h | h)
      · exact Or.inl (hs.covers v h)
      · exact Or.inr h
  · cases pa <;> simp

/-- **the Lemma-4 ratio of the `F`-form** (the computation of `TianLemma1.ratio_prob`, at any assignment) -/
theorem ratio_F (hM : M.Compatible G) (hG : G.WF) (X Z H : List Name) (c : Bool) (hnd : H.Nodup)
    (hsub : ∀ x ∈ H, x ∈ G.nodes) (hXH : ∀ x ∈ H, x ∉ X) (hZH : ∀ x ∈ H, x ∉ Z)
    {p s : List Name} {v : Name} (e : H = p ++ v :: s) (ρ : Val) :
    ratio M.card (fun τ => F M G X (H ++ Z) τ / (if c then 1 else F M G X Z τ)) p v s ρ =
      F M G X (v :: (p ++ Z)) ρ / (if c && p.isEmpty then 1 else F M G X (p ++ Z) ρ) := by
  obtain ⟨hvp, hvs, hsp, hsnd, hvsnd⟩ := split_facts e hnd
  have hmemH : ∀ x, x ∈ H ↔ x ∈ p ∨ x = v ∨ x ∈ s := by
    intro x; rw [e]; simp only [List.mem_append, List.mem_cons]
  have h1 : sumVars M.card s (fun τ => F M G X (H ++ Z) τ / (if c then 1 else F M G X Z τ)) ρ =
      F M G X (v :: (p ++ Z)) ρ / (if c then 1 else F M G X Z ρ) := by
    have hc : F M G X (H ++ Z) = F M G X (s ++ (v :: (p ++ Z))) := by
      apply F_congr; intro x
      simp only [List.mem_append, List.mem_cons, hmemH]; tauto
    rw [hc]
    apply sumVars_F_div hG X Z s _ c ρ hsnd
    · intro y hy
      have hyH : y ∈ H := (hmemH y).mpr (Or.inr (Or.inr hy))
      refine ⟨hsub y hyH, hXH y hyH, ?_⟩
      simp only [List.mem_cons, List.mem_append, not_or]
      exact ⟨(hsp y hy).2, (hsp y hy).1, hZH y hyH⟩
    · intro z hz; simp [hz]
  have h2 : sumVars M.card (v :: s) (fun τ => F M G X (H ++ Z) τ / (if c then 1 else F M G X Z τ)) ρ =
      F M G X (p ++ Z) ρ / (if c then 1 else F M G X Z ρ) := by
    have hc : F M G X (H ++ Z) = F M G X ((v :: s) ++ (p ++ Z)) := by
      apply F_congr; intro x
      simp only [List.mem_append, List.mem_cons, hmemH]; tauto
    rw [hc]
    apply sumVars_F_div hG X Z (v :: s) _ c ρ hvsnd
    · intro y hy
      have hyH : y ∈ H := (hmemH y).mpr (by rcases List.mem_cons.mp hy with h | h <;> simp [h])
      refine ⟨hsub y hyH, hXH y hyH, ?_⟩
      simp only [List.mem_append, not_or]
      refine ⟨?_, hZH y hyH⟩
      rcases List.mem_cons.mp hy with rfl | h
      · exact hvp
      · exact (hsp y h).1
    · intro z hz; simp [hz]
  unfold ratio
  by_cases hp : p = []
  · subst hp
    simp only [↓reduceIte, h1, List.nil_append, List.isEmpty_nil, Bool.and_true]
  · simp only [hp, ↓reduceIte, h1, h2]
    have hpe : p.isEmpty = false := by cases p <;> simp_all
    simp only [hpe, Bool.and_false, Bool.false_eq_true, ↓reduceIte]
    have hD : (if c then (1 : Rat) else F M G X Z ρ) ≠ 0 := by
      split
      · exact one_ne_zero
      · exact ne_of_gt (F_pos hM X Z ρ)
    rw [div_div_div_cancel_right₀ hD]

theorem SShape.disj {ch pa : List Var} {H : List Name} {w : List Iv} (hs : SShape G ch pa H w) :
    (∀ x ∈ H, x ∉ w.map (·.name)) ∧ (∀ x ∈ H, x ∉ pa.map (·.name)) := by
  constructor
  · intro x hx hxX
    rcases List.mem_map.mp hxX with ⟨i, hi, rfl⟩
    exact hs.ivs i hi hx
  · intro x hx hxZ
    rcases List.mem_map.mp hxZ with ⟨q, hq, rfl⟩
    exact hs.parents q hq hx

/-- the Lemma-4 ratio of `q`, read at `ρ` -/
theorem ratio_prob (hM : M.Compatible G) (hG : G.WF) {ρ σ σ' : Val} {pop : Option Var} {ch pa : List Var}
    {H : List Name} {w : List Iv} (hs : SShape G ch pa H w) (hnd : H.Nodup) (hsub : ∀ x ∈ H, x ∈ G.nodes)
    {p s : List Name} {v : Name} (e : H = p ++ v :: s) (hr : Reads ρ σ σ' w (ch ++ pa)) :
    ratio M.card (den (M.env G) σ' (.prob pop ch pa)) p v s σ =
      F M G (w.map (·.name)) (v :: (p ++ pa.map (·.name))) ρ /
        (if pa.isEmpty && p.isEmpty then 1 else F M G (w.map (·.name)) (p ++ pa.map (·.name)) ρ) := by
  have hHne : H ≠ [] := by rw [e]; simp
  rw [← ratio_F hM hG _ _ H pa.isEmpty hnd hsub hs.disj.1 hs.disj.2 e ρ]
  have hfg : ∀ σ ρ, Reads ρ σ σ' w (ch ++ pa) → den (M.env G) σ' (.prob pop ch pa) σ =
      (fun τ => F M G (w.map (·.name)) (H ++ pa.map (·.name)) τ /
        (if pa.isEmpty then 1 else F M G (w.map (·.name)) (pa.map (·.name)) τ)) ρ :=
    fun σ ρ h => den_sshape hM hG hs hHne h
  unfold ratio
  rw [hs.sumVars_den σ' _ _ hfg s (fun y hy => by rw [e]; simp [hy]) hr,
    hs.sumVars_den σ' _ _ hfg (v :: s) (fun y hy => by
      rw [e]; rcases List.mem_cons.mp hy with h | h <;> simp [h]) hr]

/-- what one factor of Lemma 1 denotes -/
theorem den_lemma1Factor (hM : M.Compatible G) (hG : G.WF) {ρ σ σ' : Val} {pop : Option Var} {ch pa : List Var}
    {H : List Name} {w : List Iv} (hs : SShape G ch pa H w) {p s : List Name} {v : Name} (e : H = p ++ v :: s)
    (hvp : v ∉ p) (hr : Reads ρ σ σ' w (ch ++ pa)) {f : Expr}
    (h : lemma1Factor pop (world ch) pa H v = .ok f) :
    den (M.env G) σ' f σ =
      F M G (w.map (·.name)) (v :: (p ++ pa.map (·.name))) ρ /
        (if pa.isEmpty && p.isEmpty then 1 else F M G (w.map (·.name)) (p ++ pa.map (·.name)) ρ) := by
  subst e
  obtain ⟨P', rfl, hP, hPnil⟩ := lemma1Factor_shape hvp h
  have hnames : ∀ n ∈ p ++ v :: s, n ∈ ch.map (·.name) := fun n hn => hs.covers n hn
  have hvw : inWorld (world ch) v ∈ ch := inWorld_mem (hnames v (by simp))
  have hsubvars : ∀ x ∈ [inWorld (world ch) v] ++ P', x ∈ ch ++ pa := by
    intro x hx
    rcases List.mem_append.mp hx with hx | hx
    · rw [List.mem_singleton.mp hx]; exact List.mem_append_left _ hvw
    · rcases (hP x).mp hx with hx | hx
      · exact List.mem_append_right _ hx
      · rcases List.mem_map.mp hx with ⟨n, hn, rfl⟩
        exact List.mem_append_left _ (inWorld_mem (hnames n (by simp [hn])))
  rw [den_prob_reads hM hG pop (by simp) (fun x hx => hs.world x (hsubvars x hx)) (hr.mono hsubvars)]
  have hPn : ∀ x, x ∈ P'.map (·.name) ↔ x ∈ p ++ pa.map (·.name) := by
    intro x
    simp only [List.mem_map, List.mem_append]
    constructor
    · rintro ⟨y, hy, rfl⟩
      rcases (hP y).mp hy with hy | hy
      · exact Or.inr ⟨y, hy, rfl⟩
      · rcases List.mem_map.mp hy with ⟨n, hn, rfl⟩
        exact Or.inl (by rw [inWorld_name]; exact hn)
    · rintro (hx | ⟨y, hy, rfl⟩)
      · exact ⟨inWorld (world ch) x, (hP _).mpr (Or.inr (List.mem_map.mpr ⟨x, hx, rfl⟩)), inWorld_name ch x⟩
      · exact ⟨y, (hP y).mpr (Or.inl hy), rfl⟩
  congr 1
  · apply congrFun
    apply F_congr
    intro x
    simp only [List.map_cons, List.cons_append, List.nil_append, List.mem_cons, inWorld_name, hPn x]
  · by_cases h0 : P' = []
    · have := hPnil.mp h0
      simp [h0, this.1, this.2]
    · have hne : ¬ (pa = [] ∧ p = []) := fun hh => h0 (hPnil.mpr hh)
      have : (pa.isEmpty && p.isEmpty) = false := by
        cases pa <;> cases p <;> simp_all
      simp only [h0, ↓reduceIte, this, Bool.false_eq_true]
      apply congrFun
      exact F_congr _ hPn

/-- **Lemma 1 (i), expression level**, for the weaker shape: the product built by
`compute_c_factor_conditioning_on_topological_predecessors` denotes the Lemma-4 product of ratios of `q`, at every
assignment where `q` is read by some `ρ` (in particular wherever `q` is not 0). -/
theorem den_lemma1 (hM : M.Compatible G) (hG : G.WF) {ρ σ σ' : Val} {pop : Option Var} {ch pa : List Var}
    {H : List Name} {w : List Iv} (hs : SShape G ch pa H w) (hnd : H.Nodup)
    (hsub : ∀ x ∈ H, x ∈ G.nodes) {district : List Name} {e : Expr}
    (h : lemma1 district (.prob pop ch pa) H = .ok e) (hr : Reads ρ σ σ' w (ch ++ pa)) (R : Name → Rat)
    (hR : ∀ v p s, H = p ++ v :: s → R v = ratio M.card (den (M.env G) σ' (.prob pop ch pa)) p v s σ) :
    den (M.env G) σ' e σ = (district.map R).prod := by
  unfold lemma1 at h
  split at h
  · cases h
  · split at h
    · cases h
    · rename_i hmem
      simp only at h
      cases hm : district.mapM (lemma1Factor pop (world ch) pa H) with
      | error err => rw [hm] at h; simp [bind, Except.bind] at h
      | ok fs =>
        rw [hm] at h
        simp only [bind, Except.bind, pure, Except.pure] at h
        cases h
        rw [den_productSafe]
        apply prod_of_forall₂ R (fun e => den (M.env G) σ' e σ)
        refine (forall₂_mem (mapM_ok_forall₂ _ _ _ hm)).imp ?_
        rintro v f ⟨hvd, hvf⟩
        have hvH : v ∈ H := by
          by_contra hv
          exact hmem (List.any_eq_true.mpr ⟨v, hvd, by simpa using hv⟩)
        obtain ⟨p, s, e1, hvp⟩ := split_of_mem hvH
        rw [den_lemma1Factor hM hG hs e1 hvp hr hvf, hR v p s e1, ratio_prob hM hG hs hnd hsub e1 hr]

/-! ### the probability of the ancestral set built by IDENTIFY -/

/-- `P_w(A | Z)` built from `q = P_w(H ∪ E | Z)` has the shape again, now for `A`, and its variables are variables
of `q` -/
theorem ancestralProb_sshape {pop : Option Var} {ch pa : List Var} {H oA : List Name} {e : Expr} {w : List Iv}
    (hs : SShape G ch pa H w) (hoA : oA.Nodup) (hAH : ∀ a ∈ oA, a ∈ H)
    (h : ancestralProb pop ch pa oA = .ok e) :
    ∃ c P', e = .prob pop c P' ∧ SShape G c P' oA w ∧ (P'.isEmpty = pa.isEmpty) ∧
      (∀ x, x ∈ P'.map (·.name) ↔ x ∈ pa.map (·.name)) ∧ (∀ x ∈ c ++ P', x ∈ ch ++ pa) := by
  obtain ⟨c, P', rfl, hc, hP, hPnil⟩ := ancestralProb_shape h
  rw [dedup'_eq_of_nodup _ (nodup_map_inWorld ch hoA)] at hc
  have hcn : (c.map (·.name)).Perm oA := by
    have := hc.map (·.name)
    rwa [map_inWorld_names] at this
  have hcch : ∀ x ∈ c, x ∈ ch := by
    intro x hx
    rcases List.mem_map.mp (hc.mem_iff.mp hx) with ⟨n, hn, rfl⟩
    exact inWorld_mem (hs.covers _ (hAH n hn))
  have hsubvars : ∀ x ∈ c ++ P', x ∈ ch ++ pa := by
    intro x hx
    rcases List.mem_append.mp hx with hx | hx
    · exact List.mem_append_left _ (hcch x hx)
    · exact List.mem_append_right _ ((hP x).mp hx)
  refine ⟨c, P', rfl, ⟨?_, ?_, ?_, ?_, ?_, ?_⟩, ?_, ?_, hsubvars⟩
  · exact fun a ha => hcn.mem_iff.mpr ha
  · exact fun x hx => Or.inl (hcn.mem_iff.mp (List.mem_map.mpr ⟨x, hx, rfl⟩))
  · exact fun x hx => hs.world x (hsubvars x hx)
  · intro x hx hxA
    exact hs.unstar x (hcch x hx) (hAH _ hxA)
  · intro i hi hm
    exact hs.ivs i hi (hAH _ hm)
  · intro p hp hm
    exact hs.parents p ((hP p).mp hp) (hAH _ hm)
  · cases hP' : P' with
    | nil => have := hPnil.mp hP'; simp [this]
    | cons a l =>
      cases hpa : pa with
      | nil => have := hPnil.mpr hpa; rw [hP'] at this; cases this
      | cons b m => rfl
  · intro x
    simp only [List.mem_map]
    constructor
    · rintro ⟨y, hy, rfl⟩; exact ⟨y, (hP y).mp hy, rfl⟩
    · rintro ⟨y, hy, rfl⟩; exact ⟨y, (hP y).mpr hy, rfl⟩

/-- **Lemma 3 for a single-world probability** of the weaker shape: `P_w(A | Z) = Σ_{H ∖ A} P_w(H ∪ E | Z)` wherever
`q` is read by some `ρ` -/
theorem den_ancestralProb (hM : M.Compatible G) (hG : G.WF) {ρ σ σ' : Val} {pop : Option Var} {ch pa : List Var}
    {H oA R : List Name} {w : List Iv} (hs : SShape G ch pa H w) (hsub : ∀ x ∈ H, x ∈ G.nodes)
    (hoA : oA.Nodup) (hoAne : oA ≠ []) (hR : R.Nodup)
    (hcover : ∀ x, x ∈ H ↔ x ∈ oA ∨ x ∈ R) (hdisj : ∀ x ∈ R, x ∉ oA)
    {e : Expr} (h : ancestralProb pop ch pa oA = .ok e) (hr : Reads ρ σ σ' w (ch ++ pa)) :
    den (M.env G) σ' e σ = sumVars M.card R (den (M.env G) σ' (.prob pop ch pa)) σ := by
  have hAH : ∀ a ∈ oA, a ∈ H := fun a ha => (hcover a).mpr (Or.inl ha)
  have hHne : H ≠ [] := by
    cases oA with
    | nil => exact absurd rfl hoAne
    | cons a l => intro h0; have := hAH a List.mem_cons_self; rw [h0] at this; cases this
  obtain ⟨c, P', rfl, hs', hemp, hnames, hsubvars⟩ := ancestralProb_sshape hs hoA hAH h
  set X := w.map (·.name) with hX
  set Z := pa.map (·.name) with hZ
  rw [den_sshape hM hG hs' hoAne (hr.mono hsubvars)]
  have hfg : ∀ σ ρ, Reads ρ σ σ' w (ch ++ pa) → den (M.env G) σ' (.prob pop ch pa) σ =
      (fun τ => F M G X (H ++ Z) τ / (if pa.isEmpty then 1 else F M G X Z τ)) ρ :=
    fun σ ρ h => den_sshape hM hG hs hHne h
  rw [hs.sumVars_den σ' _ _ hfg R (fun y hy => (hcover y).mpr (Or.inr hy)) hr]
  have hc : F M G X (H ++ Z) = F M G X (R ++ (oA ++ Z)) := by
    apply F_congr; intro x
    simp only [List.mem_append, hcover]; tauto
  rw [hc, sumVars_F_div hG X Z R (oA ++ Z) pa.isEmpty ρ hR]
  · rw [hemp]
    congr 1
    · apply congrFun
      apply F_congr
      intro x
      simp only [List.mem_append, hnames x, hZ]
    · split
      · rfl
      · apply congrFun
        exact F_congr _ hnames
  · intro y hy
    have hyH : y ∈ H := (hcover y).mpr (Or.inr hy)
    refine ⟨hsub y hyH, hs.disj.1 y hyH, ?_⟩
    simp only [List.mem_append, not_or]
    exact ⟨hdisj y hy, hs.disj.2 y hyH⟩
  · intro z hz; simp [hz]

end TianSem
end Y0
