/-
  Y0.Lemmas.IdSoundA — ingredients of the soundness proof of ID (C01): the invariant carried by the recursion,
  marginalisation of c-factors along ancestral sets inside an induced sub-graph, products of c-factors of districts,
  and the denotation of `p_parents`.
-/
import Y0.Lemmas.IdObs

namespace Y0
open IdDsl IdAux MG

/-- the model, the user's graph and what is assumed about them -/
structure SCtx (M : Scm) (G0 : MG Name) : Prop where
  hM : M.Compatible G0
  hG0 : G0.WF
  hrank : G0.Ranked

/-- `H` contains every edge of `G0` between its own nodes (it is an induced sub-graph on a subset of the nodes) -/
structure Sub (G0 H : MG Name) : Prop where
  nodes : ∀ v ∈ H.nodes, v ∈ G0.nodes
  di : ∀ u v, u ∈ H.nodes → v ∈ H.nodes → G0.DiEdge u v → H.DiEdge u v
  bi : ∀ u v, u ∈ H.nodes → v ∈ H.nodes → G0.BiEdge u v → H.BiEdge u v

theorem Sub.refl (G0 : MG Name) : Sub G0 G0 := ⟨fun _ h => h, fun _ _ _ _ h => h, fun _ _ _ _ h => h⟩

theorem Sub.subgraph {G0 H : MG Name} (h : Sub G0 H) (S : List Name) (hS : ∀ v ∈ S, v ∈ H.nodes) :
    Sub G0 (H.subgraph S) := by
  refine ⟨fun v hv => h.nodes v (hS v ((mem_nodes_subgraph H S v).mp hv)), ?_, ?_⟩
  · intro u v hu hv huv
    rw [mem_nodes_subgraph] at hu hv
    exact (diEdge_subgraph H S u v).mpr ⟨h.di u v (hS u hu) (hS v hv) huv, hu, hv⟩
  · intro u v hu hv huv
    rw [mem_nodes_subgraph] at hu hv
    exact (biEdge_subgraph H S u v).mpr ⟨h.bi u v (hS u hu) (hS v hv) huv, hu, hv⟩

/-- what soundness assumes about `graph.topological_sort()`: a duplicate-free list of exactly the nodes in which
no later element is a parent of an earlier one -/
structure TopoSound (topo : MG Name → Except Err (List Name)) : Prop where
  nodup : ∀ H o, topo H = .ok o → o.Nodup
  nodes : ∀ H o, topo H = .ok o → ∀ v, v ∈ o ↔ v ∈ H.nodes
  order : ∀ H o, topo H = .ok o → ∀ l1 l2, o = l1 ++ l2 → ∀ a ∈ l1, ∀ r ∈ l2, ¬ H.DiEdge r a

section
variable {M : Scm} {G0 : MG Name}

/-- Tian–Pearl Lemma 3 inside an induced sub-graph `H`: summing `Q[T]` over the part of `T` outside a set `p`
that is closed under parents within `T` -/
theorem Q_sum_filter (ctx : SCtx M G0) {H : MG Name} (hsub : Sub G0 H) (T : List Name) (hT : T.Nodup)
    (hTV : ∀ v ∈ T, v ∈ H.nodes) (p : Name → Bool)
    (hanc : ∀ a ∈ T, p a = true → ∀ r ∈ T, p r = false → ¬ H.DiEdge r a) :
    sumVars M.card (T.filter (fun v => !p v)) (M.Q T) = M.Q (T.filter p) := by
  rw [M.Q_perm (List.filter_append_perm p T).symm]
  apply Scm.Q_ancestral ctx.hM ctx.hrank
  · exact (List.filter_append_perm p T).nodup_iff.mpr hT
  · intro v hv
    rcases List.mem_append.mp hv with h | h <;> exact hsub.nodes v (hTV v (List.mem_filter.mp h).1)
  · intro a ha r hr hpa
    obtain ⟨haT, hpa'⟩ := List.mem_filter.mp ha
    obtain ⟨hrT, hpr⟩ := List.mem_filter.mp hr
    exact hanc a haT hpa' r hrT (by simpa using hpr)
      (hsub.di r a (hTV r hrT) (hTV a haT) (MG.mem_parents.mp hpa))

/-- the product of the c-factors of pairwise latent-disjoint blocks is the c-factor of their union -/
theorem Q_flatten (ctx : SCtx M G0) (ds : List (List Name)) (hsub : ∀ d ∈ ds, ∀ v ∈ d, v ∈ G0.nodes)
    (hsep : ds.Pairwise (fun d1 d2 => ∀ v ∈ d1, ∀ w ∈ d2, ∀ u, u ∈ M.latOf v → u ∉ M.latOf w)) (σ : Val) :
    (ds.map fun d => M.Q d σ).prod = M.Q ds.flatten σ := by
  induction ds with
  | nil => simp [Scm.Q_nil ctx.hM]
  | cons d ds ih =>
    simp only [List.map_cons, List.prod_cons, List.flatten_cons]
    rw [ih (fun d' hd' => hsub d' (List.mem_cons_of_mem _ hd')) (List.pairwise_cons.mp hsep).2]
    symm
    apply Scm.Q_split ctx.hM ctx.hG0 (hsub d List.mem_cons_self)
    · intro v hv
      obtain ⟨d', hd', hvd'⟩ := List.mem_flatten.mp hv
      exact hsub d' (List.mem_cons_of_mem _ hd') v hvd'
    · intro v hv w hw
      obtain ⟨d', hd', hwd'⟩ := List.mem_flatten.mp hw
      exact (List.pairwise_cons.mp hsep).1 d' hd' v hv w hwd'

end

/-! ### list facts about the position of a node in the order -/

theorem IdAux.takeWhile_ne_append {l1 l2 : List Name} {v : Name} (hv : v ∉ l1) :
    (l1 ++ v :: l2).takeWhile (· ≠ v) = l1 := by
  induction l1 with
  | nil => simp [List.takeWhile]
  | cons a l ih =>
    have ha : a ≠ v := fun e => hv (e ▸ List.mem_cons_self)
    have hl : v ∉ l := fun h => hv (List.mem_cons_of_mem _ h)
    have := ih hl
    simp only [ne_eq, decide_not] at this
    simp [List.takeWhile, ha, this]

theorem IdAux.exists_split_at {order : List Name} {v : Name} (hv : v ∈ order) :
    ∃ l1 l2, order = l1 ++ v :: l2 ∧ v ∉ l1 := by
  induction order with
  | nil => cases hv
  | cons a l ih =>
    by_cases h : a = v
    · exact ⟨[], l, by simp [h], by simp⟩
    · have hv' : v ∈ l := by
        rcases List.mem_cons.mp hv with rfl | h'
        · exact absurd rfl h
        · exact h'
      obtain ⟨l1, l2, hl, hn⟩ := ih hv'
      refine ⟨a :: l1, l2, by simp [hl], ?_⟩
      intro hc
      rcases List.mem_cons.mp hc with rfl | hc
      · exact h rfl
      · exact hn hc

/-- the index used by `p_parents` splits the order at the node -/
theorem IdAux.order_split {order l1 l2 : List Name} {v : Name} (h : order = l1 ++ v :: l2) (hv : v ∉ l1) :
    let i := (order.takeWhile (· ≠ v)).length
    order.take i = l1 ∧ order.drop i = v :: l2 ∧ order.drop (i + 1) = l2 := by
  subst h
  simp only [takeWhile_ne_append hv]
  refine ⟨by simp, by simp, ?_⟩
  rw [show l1.length + 1 = (l1 ++ [v]).length by simp, show l1 ++ v :: l2 = (l1 ++ [v]) ++ l2 by simp]
  exact List.drop_left' rfl

end Y0
