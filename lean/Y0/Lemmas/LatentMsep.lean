/-
  Y0.Lemmas.LatentMsep — d-connection among observed nodes inside an LV-DAG equals m-connection in its
  latent projection.  First for flat LV-DAGs (a latent on a walk is always passed as `c ← l → c'`, which
  is the bidirected edge `c ↔ c'`), then for every well-formed acyclic LV-DAG by simplifying it first:
  the simplification preserves both the projection and d-connection.
-/
import Y0.Lemmas.LatentSepRule1
import Y0.Lemmas.LatentConv

namespace Y0.LV
open Relation MG

/-- mixed walks only depend on the edge relations -/
theorem MixedReach.congr {G H : MG Nat} (hd : ∀ u v, G.DiEdge u v → H.DiEdge u v)
    (hb : ∀ u v, G.BiEdge u v → H.BiEdge u v) {Z : Nat → Prop} {a x : Nat} {s : Bool}
    (h : MixedReach G Z a x s) : MixedReach H Z a x s := by
  have han : ∀ x, AnZMixed G Z x → AnZMixed H Z x := by
    rintro x ⟨z, hz, hp⟩
    exact ⟨z, hz, ReflTransGen.mono hd _ _ hp⟩
  induction h with
  | startDown h => exact .startDown (hd _ _ h)
  | startUp h => exact .startUp (hd _ _ h)
  | startBi h => exact .startBi (hb _ _ h)
  | chainDown _ hz h ih => exact .chainDown ih hz (hd _ _ h)
  | colliderUp _ hz h ih => exact .colliderUp ih (han _ hz) (hd _ _ h)
  | colliderBi _ hz h ih => exact .colliderBi ih (han _ hz) (hb _ _ h)
  | chainUp _ hz h ih => exact .chainUp ih hz (hd _ _ h)
  | fork _ hz h ih => exact .fork ih hz (hd _ _ h)
  | tailBi _ hz h ih => exact .tailBi ih hz (hb _ _ h)

/-- two projections of the same LV-DAG have the same m-connection relation -/
theorem mconn_of_projections {D : LV} {G H : MG Nat} (hG : IsProjection D G) (hH : IsProjection D H)
    (Z : Nat → Prop) (a b : Nat) : MConnMixed G Z a b ↔ MConnMixed H Z a b := by
  constructor
  · rintro ⟨s, h⟩
    exact ⟨s, h.congr (fun u v e => (hH.di u v).2 ((hG.di u v).1 e)) (fun u v e => (hH.bi u v).2 ((hG.bi u v).1 e))⟩
  · rintro ⟨s, h⟩
    exact ⟨s, h.congr (fun u v e => (hG.di u v).2 ((hH.di u v).1 e)) (fun u v e => (hG.bi u v).2 ((hH.bi u v).1 e))⟩

/-- **flat case**: a latent is exogenous with observed children, so it is passed as `c ← l → c'` -/
theorem dconn_iff_mconn_flat (D : LV) (hw : D.WF) (hf : D.Flat) (G : MG Nat) (hG : IsProjection D G)
    (Z : Nat → Prop) (a b : Nat) (hZ : ∀ z, Z z → D.Observed z) (ha : D.Observed a) (hb : D.Observed b)
    (hab : a ≠ b) : D.DConn Z a b ↔ MConnMixed G Z a b := by
  have hlatZ : ∀ x, x ∈ D.latent → ¬ Z x := fun x hl hz => (hZ x hz).2 hl
  have htgt : ∀ p q, D.Edge p q → D.Observed q := fun p q h => ⟨(hw.edge_mem _ h).2, hf _ h⟩
  have hsrc : ∀ p q, D.Edge p q → p ∉ D.latent → D.Observed p := fun p q h hp => ⟨(hw.edge_mem _ h).1, hp⟩
  have hdi : ∀ u w, G.DiEdge u w ↔ D.Observed u ∧ D.Observed w ∧ D.Edge u w := by
    intro u w; rw [hG.di]; simp only [ProjDi, latPath_flat hf]
  have hbi : ∀ u w, G.BiEdge u w ↔ u ≠ w ∧ D.Observed u ∧ D.Observed w ∧
      ∃ l, D.Latent l ∧ D.Edge l u ∧ D.Edge l w := by
    intro u w; rw [hG.bi]; simp only [ProjBi, latPath_flat hf]
  have mkDi : ∀ u w, D.Edge u w → u ∉ D.latent → G.DiEdge u w := fun u w h hu =>
    (hdi u w).2 ⟨hsrc u w h hu, htgt u w h, h⟩
  have anFwd : ∀ x, x ∉ D.latent → D.AnZ Z x → AnZMixed G Z x := by
    rintro x hx ⟨z, hz, hp⟩
    refine ⟨z, hz, ?_⟩
    induction hp using ReflTransGen.head_induction_on with
    | refl => exact .refl
    | @head x y hxy _ ih => exact .head (mkDi x y hxy hx) (ih (htgt x y hxy).2)
  have anBwd : ∀ x, AnZMixed G Z x → D.AnZ Z x := by
    rintro x ⟨z, hz, hp⟩
    exact ⟨z, hz, ReflTransGen.mono (fun u w e => ((hdi u w).1 e).2.2) _ _ hp⟩
  constructor
  · -- D-walk to G-walk
    rintro ⟨s, h⟩
    let GoodDown : Nat → Prop := fun x => MixedReach G Z a x true ∨ x = a ∨ (MixedReach G Z a x false ∧ ¬ Z x)
    let CanUp : Nat → Prop := fun c =>
      c = a ∨ (MixedReach G Z a c false ∧ ¬ Z c) ∨ (MixedReach G Z a c true ∧ AnZMixed G Z c)
    have stepDown : ∀ x c, GoodDown x → ¬ Z x → G.DiEdge x c → MixedReach G Z a c true := by
      rintro x c (h | rfl | ⟨h, _⟩) hz he
      · exact .chainDown h hz he
      · exact .startDown he
      · exact .fork h hz he
    have canUpOfGood : ∀ x, GoodDown x → AnZMixed G Z x → CanUp x := by
      rintro x (h | rfl | ⟨h, hz⟩) han
      · exact Or.inr (Or.inr ⟨h, han⟩)
      · exact Or.inl rfl
      · exact Or.inr (Or.inl ⟨h, hz⟩)
    have stepUp : ∀ c q, CanUp c → G.DiEdge q c → MixedReach G Z a q false := by
      rintro c q (rfl | ⟨h, hz⟩ | ⟨h, han⟩) he
      · exact .startUp he
      · exact .chainUp h hz he
      · exact .colliderUp h han he
    have stepBi : ∀ c y, CanUp c → G.BiEdge c y → MixedReach G Z a y true := by
      rintro c y (rfl | ⟨h, hz⟩ | ⟨h, han⟩) he
      · exact .startBi he
      · exact .tailBi h hz he
      · exact .colliderBi h han he
    have goodOfCanUp : ∀ c, CanUp c → GoodDown c := by
      rintro c (rfl | ⟨h, hz⟩ | ⟨h, _⟩)
      · exact Or.inr (Or.inl rfl)
      · exact Or.inr (Or.inr ⟨h, hz⟩)
      · exact Or.inl h
    have key : ∀ x s, D.Reach Z a x s →
        (x ∉ D.latent → (s = true → GoodDown x) ∧ (s = false → MixedReach G Z a x false)) ∧
        (x ∈ D.latent → s = false ∧ ∃ c, D.Edge x c ∧ CanUp c) := by
      intro x s h
      induction h with
      | @startDown c h =>
        have hc := (htgt _ _ h).2
        exact ⟨fun _ => ⟨fun _ => Or.inl (.startDown (mkDi _ _ h ha.2)), (fun e => by cases e)⟩,
          fun hs => absurd hs hc⟩
      | @startUp p h =>
        exact ⟨fun hp => ⟨(fun e => by cases e), fun _ => .startUp (mkDi _ _ h hp)⟩,
          fun _ => ⟨rfl, a, h, Or.inl rfl⟩⟩
      | @chainDown x c _ hz h ih =>
        have hc := (htgt _ _ h).2
        have hx : x ∉ D.latent := fun hs => by have := (ih.2 hs).1; cases this
        have hg := (ih.1 hx).1 rfl
        exact ⟨fun _ => ⟨fun _ => Or.inl (stepDown x c hg hz (mkDi _ _ h hx)), (fun e => by cases e)⟩,
          fun hs => absurd hs hc⟩
      | @collider x p _ hz h ih =>
        have hx : x ∉ D.latent := fun hs => by have := (ih.2 hs).1; cases this
        have hg := (ih.1 hx).1 rfl
        have hcu := canUpOfGood x hg (anFwd x hx hz)
        exact ⟨fun hp => ⟨(fun e => by cases e), fun _ => stepUp x p hcu (mkDi _ _ h hp)⟩,
          fun _ => ⟨rfl, x, h, hcu⟩⟩
      | @chainUp x p _ hz h ih =>
        have hx : x ∉ D.latent := (htgt _ _ h).2
        have hr := (ih.1 hx).2 rfl
        have hcu : CanUp x := Or.inr (Or.inl ⟨hr, hz⟩)
        exact ⟨fun hp => ⟨(fun e => by cases e), fun _ => stepUp x p hcu (mkDi _ _ h hp)⟩,
          fun _ => ⟨rfl, x, h, hcu⟩⟩
      | @fork x c _ hz h ih =>
        have hc := (htgt _ _ h).2
        refine ⟨fun _ => ⟨fun _ => ?_, (fun e => by cases e)⟩, fun hs => absurd hs hc⟩
        by_cases hx : x ∈ D.latent
        · obtain ⟨_, c0, hc0, hcu⟩ := ih.2 hx
          by_cases hcc : c0 = c
          · subst hcc; exact goodOfCanUp c0 hcu
          · exact Or.inl (stepBi c0 c hcu ((hbi c0 c).2 ⟨hcc, htgt _ _ hc0, htgt _ _ h, x, hx, hc0, h⟩))
        · exact Or.inl (.fork ((ih.1 hx).2 rfl) hz (mkDi _ _ h hx))
    obtain ⟨k1, _⟩ := key b s h
    obtain ⟨kd, ku⟩ := k1 hb.2
    cases s with
    | false => exact ⟨false, ku rfl⟩
    | true =>
      rcases kd rfl with h | h | ⟨h, _⟩
      · exact ⟨true, h⟩
      · exact absurd h.symm hab
      · exact ⟨false, h⟩
  · -- G-walk to D-walk
    rintro ⟨s, h⟩
    refine ⟨s, ?_⟩
    have key2 : ∀ x s, MixedReach G Z a x s → D.Reach Z a x s := by
      intro x s h
      induction h with
      | startDown h => exact .startDown ((hdi _ _).1 h).2.2
      | startUp h => exact .startUp ((hdi _ _).1 h).2.2
      | startBi h =>
        obtain ⟨_, _, _, l, hl, h1, h2⟩ := (hbi _ _).1 h
        exact .fork (.startUp h1) (hlatZ l hl) h2
      | chainDown _ hz h ih => exact .chainDown ih hz ((hdi _ _).1 h).2.2
      | colliderUp _ hz h ih => exact .collider ih (anBwd _ hz) ((hdi _ _).1 h).2.2
      | colliderBi _ hz h ih =>
        obtain ⟨_, _, _, l, hl, h1, h2⟩ := (hbi _ _).1 h
        exact .fork (.collider ih (anBwd _ hz) h1) (hlatZ l hl) h2
      | chainUp _ hz h ih => exact .chainUp ih hz ((hdi _ _).1 h).2.2
      | fork _ hz h ih => exact .fork ih hz ((hdi _ _).1 h).2.2
      | tailBi _ hz h ih =>
        obtain ⟨_, _, _, l, hl, h1, h2⟩ := (hbi _ _).1 h
        exact .fork (.chainUp ih hz h1) (hlatZ l hl) h2
    exact key2 b s h

/-- **general case**: d-connection among observed nodes of any well-formed acyclic LV-DAG equals
m-connection in any latent projection of it -/
theorem dconn_iff_mconn_projection' (prime : Nat → Nat) (hp : ∀ n, n < prime n) (D : LV) (hw : D.WF)
    (hac : D.Acyclic) (G : MG Nat) (hG : IsProjection D G) (Z : Nat → Prop) (a b : Nat)
    (hZ : ∀ z, Z z → D.Observed z) (ha : D.Observed a) (hb : D.Observed b) (hab : a ≠ b) :
    D.DConn Z a b ↔ MConnMixed G Z a b := by
  obtain ⟨r, hr⟩ := simplify_total' prime hp D hw hac
  obtain ⟨w, _, s, sp⟩ := simplify_spec prime hp D hw hac r hr
  have hsep := simplify_sameSep' prime hp D hw hac r hr Z a b hZ ha hb hab
  have hproj' : IsProjection r.graph r.graph.readOff := readOff_isProjection r.graph w s.flat
  have hproj : IsProjection D r.graph.readOff := IsProjection.of_sameProj sp hproj'
  have hflat := dconn_iff_mconn_flat r.graph w s.flat r.graph.readOff hproj' Z a b
    (fun z hz => (sp.obs z).2 (hZ z hz)) ((sp.obs a).2 ha) ((sp.obs b).2 hb) hab
  exact hsep.symm.trans (hflat.trans (mconn_of_projections hproj hG Z a b))

end Y0.LV
