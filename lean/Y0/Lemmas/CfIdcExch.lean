/-
  Y0.Lemmas.CfIdcExch — soundness of IDC* on the EXCHANGE fragment:

    outcomes: a non-empty conjunction of FACTUAL variables of `G` with unstarred values; ONE factual condition `X = x` (another
    name); rule 2 applies to it (line 4 recurses); every outcome descends from `X` in the counterfactual graph (every outcome
    becomes `Y_x`) or none does (the outcomes stay as they are).

  Then IDC* returns ID*'s answer for `⋀ Y_x = y` (resp. `⋀ Y = y`), which is `P(⋀ Y_x = y)` (`idStarFuel_sound_frag`, C07), and
  `P(⋀ Y = y, X = x) = P(⋀ Y_x = y) · P(X = x)` in EVERY compatible functional SCM (`Fscm.prob_exchange_marginal`: rule 2 of the
  do-calculus proved on the noise space, no positivity of kernels), because the model's d-separation verdict on the
  counterfactual graph — here a relabelled copy of the ancestral part of `G` with nothing blocked — gives the graphical premise
  (`sep_facts_of_no_path`); `Y_x` is `Y` for a non-descendant (`Fscm.solve_nondescendant`).  The recursive call builds the
  counterfactual graph of the exchanged outcomes again; it keeps every `Y_x` (`keep_of_desc`), so the re-association changes nothing.
-/
import Y0.Lemmas.CfIdcSep
import Y0.Lemmas.CfIdcRule2

namespace Y0
namespace Cf
open Fscm Relation

variable (ordf : List World → List World) (dordf kordf : List Var → List Var) (G : MG Name)

/-! ### the level with no condition left -/

theorem firstExchangeable_nil (cf : MG Var) (os : List Var) : firstExchangeable cf os [] = .ok none := rfl

/-- with no condition (left), IDC* is ID* on the re-associated outcomes; when the counterfactual graph keeps every key these are
the outcomes themselves -/
theorem idcStarFuel_no_conditions (no' : Event) (hnd : (no'.map (·.1)).Nodup)
    (hkeep : ∀ cf2 o, makeCounterfactualGraph ordf G no' = .ok (cf2, o) → ∃ nev2, o = some nev2 ∧ ∀ p ∈ no', nev2.has p.1 = true)
    (fuel : Nat) (e : Expr) (h : idcStarFuel ordf dordf kordf G (fuel + 1) no' [] = .ok e) :
    idStar ordf dordf G no' = .ok e := by
  unfoldIdc at h
  have hof : Event.ofList (no' ++ []) = no' := by
    rw [List.append_nil]; exact Event.ofList_eq_of_nodup _ hnd
  rw [hof] at h
  cases h1 : line1 (idStar ordf dordf G []) with
  | error err => rw [h1] at h; cases h
  | ok u =>
    rw [h1] at h
    simp only at h
    cases hcg : makeCounterfactualGraph ordf G no' with
    | error err => rw [hcg] at h; cases h
    | ok v =>
      rw [hcg] at h
      simp only at h
      rcases v with ⟨cf, new⟩
      obtain ⟨nev2, rfl, hall⟩ := hkeep cf new hcg
      simp only at h
      have hre : newOutcomesAndConditions kordf nev2 no' [] = (no', []) :=
        reassoc_id kordf nev2 no' [] hall (by intro p hp; cases hp)
      rw [hre] at h
      simp only [Event.keys, List.map_nil, firstExchangeable_nil] at h
      rw [hof] at h
      cases hest : idStar ordf dordf G no' with
      | error err => rw [hest] at h; cases h
      | ok est =>
        rw [hest] at h
        simp only [List.isEmpty_nil, Bool.true_or, if_true, Except.ok.injEq] at h
        rw [h]

/-! ### the path IDC* takes on the exchange fragment -/

theorem condOf_get (x : Name) : Event.get? (condOf x) (Var.plain x) = some (unstar x) := by
  simp [Event.get?, condOf]

theorem condOf_filter (x : Name) : (condOf x).filter (fun p => p.1 ≠ Var.plain x) = [] := by
  simp [condOf]

/-- on the exchange fragment IDC* returns ID*'s answer for the exchanged outcomes `no'` -/
theorem idcStarFuel_fragX_path (hord : PermOrder ordf) {O : Event} {x : Name} (hfr : FragC G O (condOf x))
    (no' : Event)
    (hex : ∀ cf nev, makeCounterfactualGraph ordf G (O ++ condOf x) = .ok (cf, some nev) →
      (∃ c', firstExchangeable cf O.keys (condOf x).keys = .ok (some c')) ∧
      exchangeStep cf O (Var.plain x) (unstar x) [] = .ok (some no'))
    (hnd : (no'.map (·.1)).Nodup)
    (hkeep : ∀ cf2 o, makeCounterfactualGraph ordf G no' = .ok (cf2, o) →
      ∃ nev2, o = some nev2 ∧ ∀ p ∈ no', nev2.has p.1 = true)
    (fuel : Nat) (e : Expr) (h : idcStarFuel ordf dordf kordf G (fuel + 2) O (condOf x) = .ok e) :
    idStar ordf dordf G no' = .ok e := by
  unfoldIdc at h
  rw [hfr.ofList] at h
  cases h1 : line1 (idStar ordf dordf G (condOf x)) with
  | error err => rw [h1] at h; cases h
  | ok u =>
    rw [h1] at h
    simp only at h
    cases hcg : makeCounterfactualGraph ordf G (O ++ condOf x) with
    | error err => rw [hcg] at h; cases h
    | ok v =>
      rw [hcg] at h
      simp only at h
      rcases v with ⟨cf, new⟩
      have hkw : KeysIn [] (O ++ condOf x) := hfr.frag.keysIn
      have hws := worlds_of_keysIn_nil hord hkw
      cases new with
      | none =>
        exfalso
        obtain ⟨topo, _, hl⟩ := cg_none_shape hcg
        have hl' : loopResult ordf G (O ++ condOf x) topo = .run (cfInit G []) (O ++ condOf x) := by
          unfold loopResult
          rw [hws, mergeLoop_eq, allPairs_nil]
          rfl
        rw [hl] at hl'
        cases hl'
      | some nev =>
        simp only at h
        obtain ⟨topo, cf', anc, _, hl, _, _⟩ := cg_some_shape hcg
        have hl' : loopResult ordf G (O ++ condOf x) topo = .run (cfInit G []) (O ++ condOf x) := by
          unfold loopResult
          rw [hws, mergeLoop_eq, allPairs_nil]
          rfl
        rw [hl] at hl'
        simp only [St.run.injEq] at hl'
        obtain ⟨_, hnev⟩ := hl'
        subst hnev
        have hre : newOutcomesAndConditions kordf (O ++ condOf x) O (condOf x) = (O, condOf x) := by
          apply reassoc_id
          · intro p hp
            exact Event.has_iff.2 ⟨p, by simp [hp], rfl⟩
          · intro p hp
            exact Event.has_iff.2 ⟨p, by simp [hp], rfl⟩
        rw [hre] at h
        simp only at h
        obtain ⟨⟨c', hfe⟩, hxo⟩ := hex cf _ hcg
        rw [hfe] at h
        simp only at h
        have hc' : c' = Var.plain x := (firstExchangeable_single cf O.keys (Var.plain x) c' hfe).1
        subst hc'
        rw [condOf_get] at h
        simp only at h
        rw [condOf_filter] at h
        rw [hxo] at h
        simp only at h
        exact idcStarFuel_no_conditions ordf dordf kordf G no' hnd hkeep fuel e h

/-! ### the exchanged outcomes are in the fragment of ID* -/

theorem exOut_keys_nodup {O : Event} {x : Name} {C : Event} (hfr : FragC G O C) : ((exOut O x).map (·.1)).Nodup := by
  unfold exOut
  rw [List.map_map]
  have hO := hfr.okeys
  unfold Event.keys at hO
  refine List.Nodup.map_on ?_ hO |> fun h => by
    have : (O.map ((fun p : Var × Iv => p.1) ∘ fun p => (atWorld p.1.name [unstar x], p.2))) =
        (O.map (·.1)).map (fun k => atWorld k.name [unstar x]) := by
      rw [List.map_map]; rfl
    rw [this]; exact h
  intro a ha b hb hab
  obtain ⟨p, hp, rfl⟩ := List.mem_map.1 ha
  obtain ⟨q, hq, rfl⟩ := List.mem_map.1 hb
  have hp' := hfr.plain p (by simp [hp])
  have hq' := hfr.plain q (by simp [hq])
  have hn : p.1.name = q.1.name := by
    have := congrArg Var.name hab
    exact this
  rw [hp', hq', hn]

theorem exOut_frag {O : Event} {x : Name} {C : Event} (hfr : FragC G O C) : Frag G [unstar x] (exOut O x) := by
  have hmem : ∀ q ∈ exOut O x, ∃ p ∈ O, q = (atWorld p.1.name [unstar x], p.2) := by
    intro q hq
    unfold exOut at hq
    obtain ⟨p, hp, rfl⟩ := List.mem_map.1 hq
    exact ⟨p, hp, rfl⟩
  refine ⟨⟨⟨exOut_keys_nodup G hfr, ?_⟩, ?_⟩, ?_, ?_, ?_⟩
  · intro q hq
    obtain ⟨p, hp, rfl⟩ := hmem q hq
    rw [hfr.unst p (by simp [hp])]
    rfl
  · intro k hk
    obtain ⟨v, hv⟩ := (mem_keys_iff _ k).1 hk
    obtain ⟨p, hp, hq⟩ := hmem _ hv
    simp only [Prod.mk.injEq] at hq
    obtain ⟨rfl, _⟩ := hq
    refine ⟨rfl, rfl, hfr.inG p (by simp [hp]), ?_⟩
    intro i hi j hj _
    simp only [atWorld, List.mem_singleton] at hi hj
    rw [hi, hj]
  · intro q hq
    obtain ⟨p, hp, rfl⟩ := hmem q hq
    rw [hfr.unst p (by simp [hp])]
    rfl
  · intro k hk
    obtain ⟨v, hv⟩ := (mem_keys_iff _ k).1 hk
    obtain ⟨p, hp, hq⟩ := hmem _ hv
    simp only [Prod.mk.injEq] at hq
    obtain ⟨rfl, _⟩ := hq
    rfl
  · intro i hi
    simp only [List.mem_singleton] at hi
    rw [hi]

/-! ### the two probabilities -/

/-- the outcome variables with the values the event gives them -/
def outVals (ν : BaseValues) (O : Event) : List (Name × Nat) := O.map fun p => (p.1.name, ν p.1.name false)

theorem probEvent_fragX_joint (M : Model) (ν : BaseValues) {O : Event} {x : Name} (hfr : FragC G O (condOf x)) :
    probEvent M ν (O ++ condOf x) =
      prob M (((outVals ν O).map fun (y : Name × Nat) => (⟨y.1, [], y.2⟩ : Conjunct)) ++ [⟨x, [], ν x false⟩]) := by
  unfold probEvent outVals
  rw [List.map_append, List.map_map]
  congr 1
  congr 1
  apply List.map_congr_left
  intro p hp
  have h1 := hfr.plain p (by simp [hp])
  have h2 := hfr.unst p (by simp [hp])
  have hiv : p.1.ivs = [] := by rw [h1]; rfl
  simp [conjunctOf, h2, hiv, worldOf, ivValue]

theorem probEvent_condOf (M : Model) (ν : BaseValues) (x : Name) :
    probEvent M ν (condOf x) = prob M [⟨x, [], ν x false⟩] := by
  simp [probEvent, condOf, conjunctOf, worldOf, ivValue, Var.plain]

theorem probEvent_exOut (M : Model) (ν : BaseValues) {O : Event} {x : Name} {C : Event} (hfr : FragC G O C) :
    probEvent M ν (exOut O x) =
      prob M ((outVals ν O).map fun (y : Name × Nat) => (⟨y.1, [(x, ν x false)], y.2⟩ : Conjunct)) := by
  unfold probEvent outVals exOut
  rw [List.map_map, List.map_map]
  congr 1
  apply List.map_congr_left
  intro p hp
  have h2 := hfr.unst p (by simp [hp])
  simp [conjunctOf, h2, worldOf, ivValue, atWorld]

/-! ### soundness -/

/-- every node of the counterfactual graph of a factual event is a plain variable, so nothing is blocked -/
theorem blocked_nil_of_plain (cf : MG Var) (h : ∀ n ∈ cf.nodes, n = Var.plain n.name) :
    cf.nodes.filter (fun n => !isNotSelfIntervened n) = [] := by
  apply List.filter_eq_nil_iff.2
  intro n hn
  rw [h n hn]
  simp [isNotSelfIntervened, Var.plain]

/-- the shape of the counterfactual graph of a FACTUAL event: nothing is merged, the graph is the ancestral part of the
relabelled copy of `G` -/
theorem cg_factual_shape (hord : PermOrder ordf) {ev : Event} (hkw : KeysIn [] ev) {cf : MG Var} {nev : Event}
    (hcg : makeCounterfactualGraph ordf G ev = .ok (cf, some nev)) :
    nev = ev ∧ ∃ anc, (ev.keys.foldl MG.addNode (cfInit G [])).ancestorsInclusive ev.keys = .ok anc ∧
      cf = (ev.keys.foldl MG.addNode (cfInit G [])).subgraph anc := by
  obtain ⟨topo, cf', anc, _, hl, hanc, hcf⟩ := cg_some_shape hcg
  have hws := worlds_of_keysIn_nil hord hkw
  have hl' : loopResult ordf G ev topo = .run (cfInit G []) ev := by
    unfold loopResult
    rw [hws, mergeLoop_eq, allPairs_nil]
    rfl
  rw [hl] at hl'
  simp only [St.run.injEq] at hl'
  obtain ⟨rfl, rfl⟩ := hl'
  exact ⟨rfl, anc, hanc, hcf⟩

/-- every node of the counterfactual graph of a factual event over `G` is a plain variable -/
theorem cg_factual_plain {keys : List Var} (hkp : ∀ k ∈ keys, k = Var.plain k.name) {anc : List Var}
    (hanc : (keys.foldl MG.addNode (cfInit G [])).ancestorsInclusive keys = .ok anc) :
    ∀ n ∈ ((keys.foldl MG.addNode (cfInit G [])).subgraph anc).nodes, n = Var.plain n.name := by
  intro n hn
  have hKwf : (keys.foldl MG.addNode (cfInit G [])).WF :=
    MG.wf_foldl_addNode _ _ (by unfold cfInit; exact MG.wf_fromEdges _ _ _)
  have spec := MG.ancestorsInclusive_spec _ hKwf keys anc hanc
  rw [MG.mem_nodes_subgraph] at hn
  obtain ⟨s, hs, hns⟩ := (spec n).1 hn
  rcases ReflTransGen.cases_head hns with rfl | ⟨m, hnm, _⟩
  · exact hkp _ hs
  · unfold MG.DiEdge at hnm
    rw [MG.di_foldl_addNode] at hnm
    rcases (mem_di_cfInit G [] n m).1 hnm with ⟨e', _, rfl, _⟩ | ⟨w, hw, _⟩
    · rfl
    · cases hw

/-- **rule 2 on the exchange fragment**: when `cf_rule_2_of_do_calculus_applies` accepts the single factual condition `X = x`,
`P(⋀ Y = y, X = x) = P(⋀ Y_x = y) · P(X = x)` in every compatible functional SCM -/
theorem probEvent_rule2_fragX (M : Model) (ν : BaseValues) (hM : Compatible M G) (hn : ∀ pmf ∈ M.noise, pmf.sum = 1)
    (hG : G.WF) (hbl : ∀ e ∈ G.bi, e.1 ≠ e.2) (hord : PermOrder ordf) {O : Event} {x : Name}
    (hfr : FragC G O (condOf x)) {cf : MG Var} {nev : Event}
    (hcg : makeCounterfactualGraph ordf G (O ++ condOf x) = .ok (cf, some nev)) {c' : Var}
    (hfe : firstExchangeable cf O.keys (condOf x).keys = .ok (some c')) :
    probEvent M ν (O ++ condOf x) = probEvent M ν (exOut O x) * probEvent M ν (condOf x) := by
  have hr2 := (firstExchangeable_single cf O.keys (Var.plain x) c' hfe).2
  obtain ⟨_, anc, hanc, hcf⟩ := cg_factual_shape ordf G hord hfr.frag.keysIn hcg
  set keys := Event.keys (O ++ condOf x) with hkeys
  have hkeyplain : ∀ k ∈ keys, k = Var.plain k.name := by
    intro k hk
    obtain ⟨v, hv⟩ := (mem_keys_iff _ k).1 hk
    exact hfr.plain _ hv
  have hplain : ∀ n ∈ cf.nodes, n = Var.plain n.name := by
    rw [hcf]; exact cg_factual_plain G hkeyplain hanc
  have hxkey : Var.plain x ∈ keys := by
    rw [hkeys]; unfold Event.keys; simp [condOf]
  have hsepfacts : ∀ o ∈ O.keys, (∀ v, ReflTransGen (AvoidStep G x) v o.name → ReflTransGen (AvoidStep G x) v x → False) ∧
      (∀ v w, ReflTransGen (AvoidStep G x) v o.name → ReflTransGen (AvoidStep G x) w x →
        ¬ ((v, w) ∈ G.bi ∨ (w, v) ∈ G.bi)) := by
    intro o ho
    have hokey : o ∈ keys := by
      rw [hkeys]; unfold Event.keys at ho ⊢; rw [List.map_append]; exact List.mem_append_left _ ho
    have hop : o = Var.plain o.name := hkeyplain o hokey
    unfold rule2Applies at hr2
    rw [blocked_nil_of_plain cf hplain] at hr2
    have hd := allSeparated_true _ _ _ _ hr2 o ho
    simp only [List.nil_append, List.filter_nil] at hd
    have hno := MG.no_ancAdj_path_of_dSeparated _ (MG.wf_removeOutEdges _ _) _ _ hd
    rw [hcf, hop] at hno
    exact sep_facts_of_no_path G hG hbl keys anc hanc o.name x (hop ▸ hokey) hxkey hno
  rw [probEvent_fragX_joint G M ν hfr, probEvent_exOut G M ν hfr, probEvent_condOf]
  apply prob_exchange_marginal M G hM hn x (ν x false) (outVals ν O)
    (fun v => ∃ o ∈ O.keys, ReflTransGen (AvoidStep G x) v o.name) (fun v => ReflTransGen (AvoidStep G x) v x)
  · intro y hy
    unfold outVals at hy
    obtain ⟨p, hp, rfl⟩ := List.mem_map.1 hy
    exact ⟨p.1, (mem_keys_iff' _ _).2 ⟨p, hp, rfl⟩, .refl⟩
  · rintro v ⟨o, ho, hvo⟩ p hpv hpx
    exact ⟨o, ho, ReflTransGen.head ⟨hpv, hpx⟩ hvo⟩
  · exact .refl
  · intro v hv p hpv
    by_cases hpx : p = x
    · rw [hpx]
    · exact ReflTransGen.head ⟨hpv, hpx⟩ hv
  · rintro v ⟨o, ho, hvo⟩ hvx
    exact (hsepfacts o ho).1 v hvo hvx
  · rintro v w ⟨o, ho, hvo⟩ hwx
    exact (hsepfacts o ho).2 v w hvo hwx

/-- **IDC* is sound on the exchange fragment**, in every compatible functional SCM in which the condition is possible. -/
theorem idcStarFuel_sound_fragX (M : Model) (ν : BaseValues) (dom : Name → Nat) (hM : Compatible M G)
    (hn : ∀ pmf ∈ M.noise, pmf.sum = 1) (hdom : ∀ v ps us, M.f v ps us < dom v) (hG : G.WF)
    (hdl : ∀ e ∈ G.di, e.1 ≠ e.2) (hbl : ∀ e ∈ G.bi, e.1 ≠ e.2)
    (hord : PermOrder ordf) (hdo : PermDistrict dordf) {O : Event} {x : Name} (hfr : FragC G O (condOf x)) (hOne : O ≠ [])
    (hex : ∀ cf nev, makeCounterfactualGraph ordf G (O ++ condOf x) = .ok (cf, some nev) →
      (∃ c', firstExchangeable cf O.keys (condOf x).keys = .ok (some c')) ∧
      exchangeStep cf O (Var.plain x) (unstar x) [] = .ok (some (exOut O x)))
    (hkeep : ∀ cf2 nev2, makeCounterfactualGraph ordf G (exOut O x) = .ok (cf2, some nev2) →
      ∀ p ∈ exOut O x, nev2.has p.1 = true)
    (fuel : Nat) (e : Expr) (h : idcStarFuel ordf dordf kordf G (fuel + 2) O (condOf x) = .ok e)
    (hpos : probEvent M ν (condOf x) ≠ 0) :
    cden M ν dom e (fun n => ν n false) = probEvent M ν (O ++ condOf x) / probEvent M ν (condOf x) := by
  have hfx : Frag G [unstar x] (exOut O x) := exOut_frag G hfr
  have hxne : exOut O x ≠ [] := by
    unfold exOut
    intro h0
    exact hOne (List.map_eq_nil_iff.1 h0)
  -- the path
  have hest : idStar ordf dordf G (exOut O x) = .ok e := by
    apply idcStarFuel_fragX_path ordf dordf kordf G hord hfr (exOut O x) hex (exOut_keys_nodup G hfr) ?_ fuel e h
    intro cf2 o hcg2
    obtain ⟨nev2, rfl, _⟩ := frag_facts hord hG hdl hbl hfx.to2 hxne hcg2
    exact ⟨nev2, rfl, hkeep cf2 nev2 hcg2⟩
  -- ID* on the exchanged outcomes
  have hν0 : nuOf ν (fun n => ν n false) = ν := by
    funext n b
    cases b <;> rfl
  have hs : cden M ν dom e (fun n => ν n false) = probEvent M ν (exOut O x) := by
    unfold idStar at hest
    have := idStarFuel_sound_frag M ν dom hM hn hdom hG hdl hbl hord hdo _ [unstar x] (exOut O x) e hfx hest
      (fun n => ν n false)
    rw [hν0] at this
    exact this
  -- rule 2
  obtain ⟨⟨cf, o⟩, hcg⟩ : ∃ r, makeCounterfactualGraph ordf G (O ++ condOf x) = .ok r := by
    cases hcg : makeCounterfactualGraph ordf G (O ++ condOf x) with
    | ok r => exact ⟨r, rfl⟩
    | error err =>
      exfalso
      unfoldIdc at h
      rw [hfr.ofList, hcg] at h
      cases h1 : line1 (idStar ordf dordf G (condOf x)) with
      | error err => rw [h1] at h; cases h
      | ok u => rw [h1] at h; cases h
  obtain ⟨nev, rfl, _⟩ := frag_facts hord hG hdl hbl hfr.frag.to2 (by simp) hcg
  obtain ⟨⟨c', hfe⟩, _⟩ := hex cf nev hcg
  have hmul := probEvent_rule2_fragX ordf G M ν hM hn hG hbl hord hfr hcg hfe
  rw [hs, hmul, mul_div_assoc, div_self hpos, mul_one]

/-! ### the case "no outcome descends from the condition" -/

theorem mapM_ok_self {α : Type} (f : α → Except Err α) : ∀ (l : List α), (∀ a ∈ l, f a = .ok a) → l.mapM f = .ok l
  | [], _ => rfl
  | a :: l, h => by
    rw [List.mapM_cons, h a (by simp), mapM_ok_self f l (fun b hb => h b (by simp [hb]))]
    rfl

/-- when no outcome descends from the condition the exchange leaves the outcomes as they are -/
theorem exchangeOutcomes_none (cf : MG Var) (O : Event) (c : Var) (val : Iv) (hnd : (O.map (·.1)).Nodup)
    (h : exchangeNoneB cf O c = true) : exchangeStep cf O c val [] = .ok (some O) := by
  unfold exchangeNoneB at h
  rw [List.all_eq_true] at h
  have hm : O.mapM (exchangeKey cf c val) = .ok O := by
    apply mapM_ok_self
    intro p hp
    have := h p hp
    unfold exchangeKey
    cases ha : cf.ancestorsInclusive [p.1] with
    | error e => rw [ha] at this; cases this
    | ok anc =>
      rw [ha] at this
      simp only [Bool.not_eq_true'] at this
      simp only [bind, Except.bind, this, Bool.false_eq_true, if_false, pure, Except.pure]
  exact exchangeStep_of_nodup cf O c val [] O hm hnd (fun _ _ _ hg => by cases hg)

/-- the outcomes alone are in the (factual) fragment of ID* -/
theorem FragC.fragO {G : MG Name} {O C : Event} (h : FragC G O C) : Frag G [] O := by
  refine ⟨⟨⟨h.okeys, ?_⟩, ?_⟩, fun p hp => h.unst p (by simp [hp]), ?_, by intro i hi; cases hi⟩
  · intro p hp
    rw [h.unst p (by simp [hp])]
  · intro k hk
    obtain ⟨v, hv⟩ := (mem_keys_iff _ k).1 hk
    have hp := h.plain (k, v) (by simp [hv])
    simp only at hp
    refine ⟨by rw [hp]; rfl, by rw [hp]; rfl, h.inG (k, v) (by simp [hv]), ?_⟩
    rw [hp]
    intro i hi
    cases hi
  · intro k hk
    obtain ⟨v, hv⟩ := (mem_keys_iff _ k).1 hk
    exact h.plain (k, v) (by simp [hv])

/-- `exchangeNoneB` says that no outcome descends from `X` in `G` -/
theorem nondesc_of_exchangeNone (hord : PermOrder ordf) {O : Event} {x : Name} (hfr : FragC G O (condOf x))
    {cf : MG Var} {nev : Event} (hcg : makeCounterfactualGraph ordf G (O ++ condOf x) = .ok (cf, some nev))
    (h : exchangeNoneB cf O (Var.plain x) = true) :
    ∀ p ∈ O, ¬ ReflTransGen (fun a b => (a, b) ∈ G.di) x p.1.name := by
  intro p hp hpath
  obtain ⟨_, anc, hanc, hcf⟩ := cg_factual_shape ordf G hord hfr.frag.keysIn hcg
  unfold exchangeNoneB at h
  rw [List.all_eq_true] at h
  have hpp := h p hp
  have hplain : p.1 = Var.plain p.1.name := hfr.plain p (by simp [hp])
  have hkey : Var.plain p.1.name ∈ (O ++ condOf x).keys := by
    rw [← hplain]
    exact (mem_keys_iff' _ _).2 ⟨p, by simp [hp], rfl⟩
  cases ha : cf.ancestorsInclusive [p.1] with
  | error e => rw [ha] at hpp; cases hpp
  | ok ancp =>
    rw [ha] at hpp
    simp only [Bool.not_eq_true'] at hpp
    have hcfwf : cf.WF := by rw [hcf]; exact MG.wf_subgraph _ _
    have spec := MG.ancestorsInclusive_spec cf hcfwf [p.1] ancp ha
    have hmem : Var.plain x ∈ ancp := by
      apply (spec _).2
      refine ⟨p.1, by simp, ?_⟩
      rw [hcf, hplain]
      exact cf_path_of_path G _ anc hanc hkey hpath
    rw [← elem'_iff] at hmem
    rw [hmem] at hpp
    cases hpp

theorem all_congr_mem {α : Type} : ∀ (l : List α) (f g : α → Bool), (∀ a ∈ l, f a = g a) → l.all f = l.all g
  | [], _, _, _ => rfl
  | a :: l, f, g, h => by
    simp only [List.all_cons]
    rw [h a (by simp), all_congr_mem l f g (fun b hb => h b (by simp [hb]))]

/-- … and then `Y_x` is `Y` -/
theorem probEvent_exOut_nondesc (M : Model) (ν : BaseValues) (hM : Compatible M G) {O : Event} {x : Name} {C : Event}
    (hfr : FragC G O C) (hnd : ∀ p ∈ O, ¬ ReflTransGen (fun a b => (a, b) ∈ G.di) x p.1.name) :
    probEvent M ν (exOut O x) = probEvent M ν O := by
  unfold probEvent exOut
  rw [List.map_map]
  apply prob_congr
  intro u
  rw [List.all_map, List.all_map]
  apply all_congr_mem
  intro p hp
  have h1 := hfr.plain p (by simp [hp])
  have hiv : p.1.ivs = [] := by rw [h1]; rfl
  simp only [Function.comp, holds, conjunctOf, worldOf, atWorld, hiv, List.map_cons, List.map_nil, ivValue]
  rw [solve_nondescendant M G hM u x _ _ (hnd p hp)]

/-- **IDC* is sound on the exchange fragment, case "no outcome descends from `X`"**: the answer is ID*'s estimand for `P(⋀ Y = y)`,
and `P(⋀ Y = y | X = x) = P(⋀ Y = y)` -/
theorem idcStarFuel_sound_fragX_none (M : Model) (ν : BaseValues) (dom : Name → Nat) (hM : Compatible M G)
    (hn : ∀ pmf ∈ M.noise, pmf.sum = 1) (hdom : ∀ v ps us, M.f v ps us < dom v) (hG : G.WF)
    (hdl : ∀ e ∈ G.di, e.1 ≠ e.2) (hbl : ∀ e ∈ G.bi, e.1 ≠ e.2)
    (hord : PermOrder ordf) (hdo : PermDistrict dordf) {O : Event} {x : Name} (hfr : FragC G O (condOf x)) (hOne : O ≠ [])
    (hex : ∀ cf nev, makeCounterfactualGraph ordf G (O ++ condOf x) = .ok (cf, some nev) →
      (∃ c', firstExchangeable cf O.keys (condOf x).keys = .ok (some c')) ∧ exchangeNoneB cf O (Var.plain x) = true)
    (fuel : Nat) (e : Expr) (h : idcStarFuel ordf dordf kordf G (fuel + 2) O (condOf x) = .ok e)
    (hpos : probEvent M ν (condOf x) ≠ 0) :
    cden M ν dom e (fun n => ν n false) = probEvent M ν (O ++ condOf x) / probEvent M ν (condOf x) := by
  have hfo : Frag G [] O := hfr.fragO
  have hOnd : (O.map (·.1)).Nodup := hfr.okeys
  have hest : idStar ordf dordf G O = .ok e := by
    apply idcStarFuel_fragX_path ordf dordf kordf G hord hfr O ?_ hOnd ?_ fuel e h
    · intro cf nev hcg
      obtain ⟨h1, h2⟩ := hex cf nev hcg
      exact ⟨h1, exchangeOutcomes_none cf O _ _ hOnd h2⟩
    · intro cf2 o hcg2
      obtain ⟨nev2, rfl, _⟩ := frag_facts hord hG hdl hbl hfo.to2 hOne hcg2
      obtain ⟨rfl, _⟩ := cg_factual_shape ordf G hord hfo.keysIn hcg2
      exact ⟨_, rfl, fun p hp => Event.has_iff.2 ⟨p, hp, rfl⟩⟩
  have hν0 : nuOf ν (fun n => ν n false) = ν := by
    funext n b
    cases b <;> rfl
  have hs : cden M ν dom e (fun n => ν n false) = probEvent M ν O := by
    unfold idStar at hest
    have := idStarFuel_sound_frag M ν dom hM hn hdom hG hdl hbl hord hdo _ [] O e hfo hest (fun n => ν n false)
    rw [hν0] at this
    exact this
  obtain ⟨⟨cf, o⟩, hcg⟩ : ∃ r, makeCounterfactualGraph ordf G (O ++ condOf x) = .ok r := by
    cases hcg : makeCounterfactualGraph ordf G (O ++ condOf x) with
    | ok r => exact ⟨r, rfl⟩
    | error err =>
      exfalso
      unfoldIdc at h
      rw [hfr.ofList, hcg] at h
      cases h1 : line1 (idStar ordf dordf G (condOf x)) with
      | error err => rw [h1] at h; cases h
      | ok u => rw [h1] at h; cases h
  obtain ⟨nev, rfl, _⟩ := frag_facts hord hG hdl hbl hfr.frag.to2 (by simp) hcg
  obtain ⟨⟨c', hfe⟩, hnone⟩ := hex cf nev hcg
  have hmul := probEvent_rule2_fragX ordf G M ν hM hn hG hbl hord hfr hcg hfe
  rw [probEvent_exOut_nondesc G M ν hM hfr (nondesc_of_exchangeNone ordf G hord hfr hcg hnone)] at hmul
  rw [hs, hmul, mul_div_assoc, div_self hpos, mul_one]

/-! ### the case "every outcome descends from the condition", from the graph test alone -/

theorem mapM_ok_map {α β : Type} (f : α → Except Err β) (g : α → β) : ∀ (l : List α), (∀ a ∈ l, f a = .ok (g a)) →
    l.mapM f = .ok (l.map g)
  | [], _ => rfl
  | a :: l, h => by
    rw [List.mapM_cons, h a (by simp), mapM_ok_map f g l (fun b hb => h b (by simp [hb]))]
    rfl

/-- when every outcome descends from the condition the exchange re-subscripts all of them -/
theorem exchangeOutcomes_all {O C : Event} {x : Name} (hfr : FragC G O C) (cf : MG Var)
    (h : exchangeAllB cf O (Var.plain x) = true) :
    exchangeStep cf O (Var.plain x) (unstar x) [] = .ok (some (exOut O x)) := by
  unfold exchangeAllB at h
  rw [List.all_eq_true] at h
  have hm : O.mapM (exchangeKey cf (Var.plain x) (unstar x)) = .ok (O.map fun p => (atWorld p.1.name [unstar x], p.2)) := by
    apply mapM_ok_map
    intro p hp
    have := h p hp
    have hpl := hfr.plain p (by simp [hp])
    unfold exchangeKey
    cases ha : cf.ancestorsInclusive [p.1] with
    | error e => rw [ha] at this; cases this
    | ok anc =>
      rw [ha] at this
      simp only at this
      have hi : interveneWith p.1 (unstar x) = .ok (atWorld p.1.name [unstar x]) := by
        rw [hpl]
        rfl
      simp only [bind, Except.bind, this, if_true, hi, pure, Except.pure]
  have hex : (O.map fun p => (atWorld p.1.name [unstar x], p.2)) = exOut O x := rfl
  rw [hex] at hm
  exact exchangeStep_of_nodup cf O _ _ [] _ hm (exOut_keys_nodup G hfr) (fun _ _ _ hg => by cases hg)

/-- `exchangeAllB` says that every outcome descends from `X` in `G` -/
theorem desc_of_exchangeAll (hord : PermOrder ordf) (hG : G.WF) (hdl : ∀ e ∈ G.di, e.1 ≠ e.2) (hbl : ∀ e ∈ G.bi, e.1 ≠ e.2)
    {O : Event} {x : Name} (hfr : FragC G O (condOf x))
    {cf : MG Var} {nev : Event} (hcg : makeCounterfactualGraph ordf G (O ++ condOf x) = .ok (cf, some nev))
    (h : exchangeAllB cf O (Var.plain x) = true) :
    ∀ p ∈ O, ReflTransGen (fun a b => (a, b) ∈ G.di) x p.1.name := by
  intro p hp
  obtain ⟨nev', hnev', facts⟩ := frag_facts hord hG hdl hbl hfr.frag.to2 (by simp) hcg
  unfold exchangeAllB at h
  rw [List.all_eq_true] at h
  have hpp := h p hp
  cases ha : cf.ancestorsInclusive [p.1] with
  | error e => rw [ha] at hpp; cases hpp
  | ok ancp =>
    rw [ha] at hpp
    simp only at hpp
    have spec := MG.ancestorsInclusive_spec cf facts.wf [p.1] ancp ha
    obtain ⟨s, hs, hpath⟩ := (spec _).1 ((elem'_iff _ _).1 hpp)
    simp only [List.mem_singleton] at hs
    subst hs
    have hlift : ∀ a b : Var, ReflTransGen cf.DiEdge a b → ReflTransGen (fun a b => (a, b) ∈ G.di) a.name b.name := by
      intro a b hab
      induction hab with
      | refl => exact .refl
      | tail _ hbc ih => exact ih.tail (facts.proj _ _ hbc)
    exact hlift _ _ hpath

/-- the counterfactual graph of the exchanged outcomes keeps every `Y_x` when every `Y` descends from `X`: a merged `Y` would bring
the factual `X` into the graph as one of its ancestors, but `X` is intervened in the only world -/
theorem keep_of_desc {O : Event} {x : Name} {g2 : MG Var} {nev2 : Event}
    (facts : SWFacts G [unstar x] (fun _ => false) (exOut O x) g2 nev2)
    (hdesc : ∀ p ∈ O, ReflTransGen (fun a b => (a, b) ∈ G.di) x p.1.name) :
    ∀ q ∈ exOut O x, nev2.has q.1 = true := by
  -- a factual node brings its factual ancestors into the graph
  have hup : ∀ m n, ReflTransGen (fun a b => (a, b) ∈ G.di) m n → Var.plain n ∈ g2.nodes → Var.plain m ∈ g2.nodes := by
    intro m n hmn
    induction hmn using ReflTransGen.head_induction_on with
    | refl => exact fun h => h
    | head hab hbc ih =>
      rename_i a b
      intro hn
      have hb := ih hn
      obtain ⟨x', hx', hx'n⟩ := facts.rep (Var.plain b) hb rfl a hab
      have hpl := facts.plainPa x' (Var.plain b) hx' rfl
      rw [hpl, hx'n] at hx'
      exact (facts.wf.di_mem _ hx').1
  intro q hq
  unfold exOut at hq
  obtain ⟨p, hp, rfl⟩ := List.mem_map.1 hq
  simp only
  have hname : p.1.name ∈ (exOut O x).keys.map (·.name) := by
    refine List.mem_map.2 ⟨atWorld p.1.name [unstar x], ?_, rfl⟩
    exact (mem_keys_iff' _ _).2 ⟨(atWorld p.1.name [unstar x], p.2), List.mem_map.2 ⟨p, hp, rfl⟩, rfl⟩
  obtain ⟨k, hk, hkn⟩ := List.mem_map.1 ((facts.keyNames _).2 hname)
  have hknode := facts.keysNodes k hk
  rcases facts.shape k hknode with hpl | hw
  · -- merged into the factual node: impossible
    exfalso
    have hY : Var.plain p.1.name ∈ g2.nodes := by rw [← hkn, ← hpl]; exact hknode
    have hX := hup x p.1.name (hdesc p hp) hY
    exact facts.notW (Var.plain x) hX rfl (by simp [Var.plain])
  · rw [hkn] at hw
    rw [← hw]
    obtain ⟨v, hv⟩ := (mem_keys_iff _ k).1 hk
    exact Event.has_iff.2 ⟨(k, v), hv, rfl⟩

/-- **IDC* is sound on the exchange fragment, case "every outcome descends from `X`"**, the hypotheses being the two graph tests
of line 4 only -/
theorem idcStarFuel_sound_fragX_all (M : Model) (ν : BaseValues) (dom : Name → Nat) (hM : Compatible M G)
    (hn : ∀ pmf ∈ M.noise, pmf.sum = 1) (hdom : ∀ v ps us, M.f v ps us < dom v) (hG : G.WF)
    (hdl : ∀ e ∈ G.di, e.1 ≠ e.2) (hbl : ∀ e ∈ G.bi, e.1 ≠ e.2)
    (hord : PermOrder ordf) (hdo : PermDistrict dordf) {O : Event} {x : Name} (hfr : FragC G O (condOf x)) (hOne : O ≠ [])
    (hex : ∀ cf nev, makeCounterfactualGraph ordf G (O ++ condOf x) = .ok (cf, some nev) →
      (∃ c', firstExchangeable cf O.keys (condOf x).keys = .ok (some c')) ∧ exchangeAllB cf O (Var.plain x) = true)
    (fuel : Nat) (e : Expr) (h : idcStarFuel ordf dordf kordf G (fuel + 2) O (condOf x) = .ok e)
    (hpos : probEvent M ν (condOf x) ≠ 0) :
    cden M ν dom e (fun n => ν n false) = probEvent M ν (O ++ condOf x) / probEvent M ν (condOf x) := by
  obtain ⟨⟨cf, o⟩, hcg⟩ : ∃ r, makeCounterfactualGraph ordf G (O ++ condOf x) = .ok r := by
    cases hcg : makeCounterfactualGraph ordf G (O ++ condOf x) with
    | ok r => exact ⟨r, rfl⟩
    | error err =>
      exfalso
      unfoldIdc at h
      rw [hfr.ofList, hcg] at h
      cases h1 : line1 (idStar ordf dordf G (condOf x)) with
      | error err => rw [h1] at h; cases h
      | ok u => rw [h1] at h; cases h
  obtain ⟨nev, rfl, _⟩ := frag_facts hord hG hdl hbl hfr.frag.to2 (by simp) hcg
  have hdesc := desc_of_exchangeAll ordf G hord hG hdl hbl hfr hcg (hex cf nev hcg).2
  have hfx : Frag G [unstar x] (exOut O x) := exOut_frag G hfr
  have hxne : exOut O x ≠ [] := by
    unfold exOut
    intro h0
    exact hOne (List.map_eq_nil_iff.1 h0)
  apply idcStarFuel_sound_fragX ordf dordf kordf G M ν dom hM hn hdom hG hdl hbl hord hdo hfr hOne ?_ ?_ fuel e h hpos
  · intro cf' nev' hcg'
    obtain ⟨h1, h2⟩ := hex cf' nev' hcg'
    exact ⟨h1, exchangeOutcomes_all G hfr cf' h2⟩
  · intro cf2 nev2 hcg2
    obtain ⟨nev2', hnev2', facts⟩ := frag_facts hord hG hdl hbl hfx.to2 hxne hcg2
    cases hnev2'
    exact keep_of_desc G facts hdesc

end Cf
end Y0
