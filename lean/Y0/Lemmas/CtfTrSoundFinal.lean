/-
  Y0.Lemmas.CtfTrSoundFinal — **the value clause of C09 for Algorithm 2** (`ctfTRu_value`), every link discharged:

  if `ctfTRu` answers `(x, ev)` for an input accepted by its validator, whose simplified event (valueless items read as
  free variables at their base value: `fillEvent ev`) is in the decidable class `ctfSoundClass`, then in EVERY family of
  functional SCMs compatible with the declared domains the expression `x`, evaluated on the declared domain
  distributions at a reading `σ` of the returned event's values, is the target probability of the (filled) simplified
  event — and of the queried event itself when no item of the simplified event is valueless.
-/
import Y0.Lemmas.CtfTrSound
import Y0.Lemmas.CtfTrFill
import Y0.Lemmas.CtfTrFactorize
import Y0.Lemmas.CtfTrFactorize2
import Y0.Lemmas.CtfTrSpecOK
import Y0.Lemmas.CtfTrTotal

namespace Y0.CtfTr
open Fscm Ctf Relation Y0.MG
open Trso (isTnode tnode nsort mem_nsort)

/-! ### the class of simplified events covered by the theorem (decidable) -/

theorem ctfSoundClass_true (g : MG Name) (q : Event) (h : ctfSoundClass g q = .ok true) :
    readableQuery q = true ∧ factorizeClasses g q = .ok (false, false, false) ∧
    ∀ D, ancestralSet g q = .ok D → ∀ p ∈ q, ∀ i ∈ p.1.ivs, i.star = true → i.name ∈ D.map (·.name) →
      i.name ∈ q.map (·.1.name) := by
  unfold ctfSoundClass at h
  simp only [bind, Except.bind] at h
  cases hD : ancestralSet g q with
  | error e => rw [hD] at h; cases h
  | ok D =>
    rw [hD] at h
    simp only [pure, Except.pure, Except.ok.injEq, Bool.and_eq_true, Bool.not_eq_eq_eq_not, Bool.not_true] at h
    obtain ⟨⟨⟨⟨h1, h2⟩, h3⟩, h4⟩, h5⟩ := h
    refine ⟨h1, ?_, ?_⟩
    · unfold factorizeClasses
      simp only [bind, Except.bind, hD, pure, Except.pure, h2, h3, h4]
    · intro D' hD' p hp i hi hs hin
      cases hD'
      by_contra hnot
      have : starBound q D = true := by
        unfold starBound
        simp only [List.any_eq_true, Bool.and_eq_true, decide_eq_true_eq]
        exact ⟨p, hp, i, hi, ⟨hs, hin⟩, hnot⟩
      rw [h5] at this
      cases this

/-! ### small facts about the validator and SIMPLIFY -/

theorem validateU_values (target : MG Name) (ds : List Domain) (e : Event) (h : validateU target ds e = .ok ()) :
    ∀ p ∈ e, ∀ i, p.2 = some i → i.name = p.1.name := by
  unfold validateU vErr at h
  obtain ⟨_, h⟩ := ite_error_ok h
  unfold validateCommon vErr at h
  obtain ⟨_, h⟩ := ite_error_ok h
  obtain ⟨_, h⟩ := ite_error_ok h
  obtain ⟨_, h⟩ := ite_error_ok h
  obtain ⟨_, h⟩ := ite_error_ok h
  obtain ⟨_, h⟩ := ite_error_ok h
  obtain ⟨_, h⟩ := ite_error_ok h
  obtain ⟨_, h⟩ := ite_error_ok h
  obtain ⟨_, h⟩ := ite_error_ok h
  obtain ⟨_, h⟩ := ite_error_ok h
  obtain ⟨_, h⟩ := ite_error_ok h
  obtain ⟨_, h⟩ := ite_error_ok h
  obtain ⟨h11, _⟩ := ite_error_ok h
  intro p hp i hi
  unfold valueMismatch at h11
  simp only [List.any_eq_true, not_exists, not_and] at h11
  have := h11 p hp
  rw [hi] at this
  simpa using this

/-- the variables of the simplified event carry no value mark of their own -/
theorem simplify_output_star (g : MG Name) (e ev : Event) (hs : simplify g e = .ok (some ev))
    (hrefl : ∀ p ∈ e, selfIntervened p.1 = false) (hstar : ∀ p ∈ e, p.1.star = none) :
    ∀ p ∈ ev, p.1.star = none := by
  unfold simplify at hs
  split at hs
  · simp [bind, Except.bind, throw, throwThe, MonadExceptOf.throw] at hs
  · simp only [bind, Except.bind] at hs
    cases hme : minimizeEvent g e with
    | error err => rw [hme] at hs; cases hs
    | ok me =>
      rw [hme] at hs
      simp only at hs
      have hmem := minimizeEvent_mem g e me hme
      have hrefl' : ∀ p ∈ me, selfIntervened p.1 = false := by
        rintro ⟨k, x⟩ hp
        obtain ⟨v, hv, hm⟩ := (hmem k x).1 hp
        have hwf := minimize_wf g v k hm
        have h0 := hrefl (v, x) hv
        simp only [selfIntervened, List.any_eq_false, beq_iff_eq] at h0 ⊢
        intro i hi
        rw [hwf.1]
        exact h0 i (hwf.2.2.1 i hi)
      rintro ⟨k, x⟩ hp
      obtain ⟨v, hv, hm⟩ := (hmem k x).1 (simplifyCore_sub me hrefl' ev hs k x hp)
      rw [(minimize_wf g v k hm).2.1]
      exact hstar (v, x) hv

/-! ### the theorem -/

/-- **Value clause of C09, Algorithm 2** (reading in which a valueless item is a free variable of the answer). -/
theorem ctfTRu_value_filled (target : MG Name) (ds : List Domain) (e ev : Event) (x : Expr)
    (h : ctfTRu target ds e = .ok (some (x, some ev)))
    (hwf : target.WF) (hdecl : DomainsDeclared ds) (hplain : EventVarsPlain e)
    (hrefl : ∀ p ∈ e, selfIntervened p.1 = false)
    (hclass : ctfSoundClass target (fillEvent ev) = .ok true)
    (F : FscmFamily) (graphs : Option Name → MG Name) (hF : F.CompatibleWith target graphs (declsOf ds))
    (ν : BaseValues) (σ σ' : Y0.Val) (hσr : ∀ x, σ x < F.card x) (hσ : EventReading ν σ (fillEvent ev)) :
    den (F.env graphs) σ' x σ = probEventOpt F.target ν (fillEvent ev) := by
  obtain ⟨anc, factors, qs, hv, hs, hl2, _, ht, hx⟩ := ctfTRu_answer_shape target ds e ev x h
  obtain ⟨hne, hac, hnodes, hseq, hvd⟩ := validateU_facts target ds e hv
  have hloop : ∀ v, ¬ target.DiEdge v v := fun v hvv =>
    ((isAcyclic_iff target hwf).1 hac) v (TransGen.single hvv)
  have hds : DomainsSpecOK ds := domainsSpecOK_of_validated target ds hvd hdecl
  have hev : EventOK target ev := by
    intro p hp
    obtain ⟨⟨q, hq, hqn⟩, hk⟩ := simplify_output target e ev
      (fun p hp => ⟨(hplain p hp).1, (hplain p hp).2.1⟩) hs p hp
    exact ⟨by rw [← hqn]; exact hnodes q hq, hk⟩
  obtain ⟨anc', factors', hl2', hfac⟩ := line2_ok target hwf hloop ev hev
  rw [hl2] at hl2'
  simp only [Except.ok.injEq, Prod.mk.injEq] at hl2'
  obtain ⟨rfl, rfl⟩ := hl2'
  obtain ⟨hread, hcls, hstarB⟩ := ctfSoundClass_true target (fillEvent ev) hclass
  have hvars := fillEvent_vars ev
  by_cases hemp : ev = []
  · -- the empty event: no factor, the answer is `One()` and the probability of the empty conjunction is 1
    subst hemp
    have hl : line2 target [] = .ok ([], []) := rfl
    rw [hl] at hl2
    simp only [Except.ok.injEq, Prod.mk.injEq] at hl2
    obtain ⟨rfl, rfl⟩ := hl2
    simp only [transportFactors, Except.ok.injEq, Option.some.injEq] at ht
    subst ht
    subst hx
    have h1 : probEventOpt F.target ν (fillEvent []) = 1 := by
      show prob F.target [] = 1
      exact prob_nil hF.target.wf
    rw [h1]
    rfl
  · obtain ⟨D, cs, fs, fev, hD, hcs, hanc, hfs, hfz, _, hlinkF⟩ := line2_factorize target hwf ev anc factors hl2 hemp
    obtain ⟨fev', hfz'⟩ := factorize_congr_vars target ev (fillEvent ev) _ fev hvars hfz
    have hD' : ancestralSet target (fillEvent ev) = .ok D := by
      rw [ancestralSet_congr_vars target ev (fillEvent ev) hvars]; exact hD
    -- the range of the sum
    have hsingle : ∀ a ∈ D, ∀ b ∈ D, a.name = b.name → a = b := by
      obtain ⟨D'', hD'', h1, _⟩ := factorizeClasses_false target (fillEvent ev) hcls
      rw [hD'] at hD''
      cases hD''
      exact h1
    have hmin := simplify_output_minimal target hwf e ev hs hrefl hnodes
    have hstar0 := simplify_output_star target e ev hs hrefl (fun p hp => (hplain p hp).1)
    have hself := event_vars_in_ancestors target hwf ev D hmin (fun p hp _ => hstar0 p hp) hD
    have hlinkR : LinkRange anc ev cs := by
      rw [hanc]
      exact summedNames_eq_range target ev D cs hcs hsingle hself
    exact ctfTRu_sound_core target ds ev (fillEvent ev) x hwf F graphs hF hds ν σ σ' hσr hvars hread hcls
      (fillEvent_noNone ev) hstarB hσ anc factors qs ht hx D cs fs _ fev' hD' hcs hfs hfz' hlinkF hlinkR
      (fun f hf => (hfac f hf).2.1)

/-- **Value clause of C09, Algorithm 2**: when no item of the simplified event is valueless, the answer evaluates to the
target probability of the QUERIED event. -/
theorem ctfTRu_value (target : MG Name) (ds : List Domain) (e ev : Event) (x : Expr)
    (h : ctfTRu target ds e = .ok (some (x, some ev)))
    (hwf : target.WF) (hdecl : DomainsDeclared ds) (hplain : EventVarsPlain e)
    (hrefl : ∀ p ∈ e, selfIntervened p.1 = false)
    (hnone : ∀ p ∈ ev, p.2 ≠ none)
    (hclass : ctfSoundClass target ev = .ok true)
    (F : FscmFamily) (graphs : Option Name → MG Name) (hF : F.CompatibleWith target graphs (declsOf ds))
    (ν : BaseValues) (hν : ν.Distinct) (σ σ' : Y0.Val) (hσr : ∀ x, σ x < F.card x) (hσ : EventReading ν σ ev) :
    den (F.env graphs) σ' x σ = probEventOpt F.target ν e := by
  have hfill := fillEvent_of_noNone ev hnone
  obtain ⟨_, _, _, hv, hs, _⟩ := ctfTRu_answer_shape target ds e ev x h
  have := ctfTRu_value_filled target ds e ev x h hwf hdecl hplain hrefl (by rw [hfill]; exact hclass) F graphs hF
    ν σ σ' hσr (by rw [hfill]; exact hσ)
  rw [hfill] at this
  rw [this]
  exact (simplify_prob_partial target e ev hs hrefl (validateU_values target ds e hv) F.target hF.target.compat ν
    hν).symm

end Y0.CtfTr
